import PyYetiVerif.Model.ExtremaTree
import Mathlib.Data.List.Basic
/-! Helper lemmas for C16: structural facts about `delete_extreme` / `_add_extreme` on nested
results (`Model/ExtremaTree.lean`). -/
namespace PyYetiVerif.ExtremaTree

variable {C : Type}

theorem mkBase_of_ne {cats : List (String × C)} (h : cats.isEmpty = false) : mkBase cats = .base cats := by
  simp [mkBase, h]

theorem del_mkBase_filter (cats : List (String × C)) :
    del (mkBase (cats.filter fun p => p.1 != "extreme")) = mkBase (cats.filter fun p => p.1 != "extreme") := by
  unfold mkBase
  split
  · simp [del, delKids]
  · rename_i h
    simp only [del, List.filter_filter, Bool.and_self]
    simp [mkBase, h]

mutual
theorem del_del : ∀ t : Res C, del (del t) = del t
  | .base cats => by
    simp only [del]
    exact del_mkBase_filter cats
  | .group kids => by
    simp only [del]
    rw [delKids_delKids kids]
theorem delKids_delKids : ∀ ks : List (String × Res C), delKids (delKids ks) = delKids ks
  | [] => by simp [delKids]
  | (k, v) :: rest => by
    simp only [delKids]
    split
    · exact delKids_delKids rest
    · rename_i h
      simp only [delKids, h]
      simp [del_del v, delKids_delKids rest]
end

theorem noExtreme_mkBase (cats : List (String × C)) (h : cats.all fun p => p.1 != "extreme") :
    noExtreme (mkBase cats) = true := by
  unfold mkBase
  split
  · simp [noExtreme, noExtremeKids]
  · simpa [noExtreme] using h

theorem canonical_mkBase (cats : List (String × C)) : canonical (mkBase cats) = true := by
  unfold mkBase
  split
  · simp [canonical, canonicalKids]
  · rename_i h
    simpa [canonical] using h

mutual
theorem noExtreme_del : ∀ t : Res C, noExtreme (del t) = true
  | .base cats => by
    simp only [del]
    apply noExtreme_mkBase
    simp
  | .group kids => by
    simp only [del, noExtreme]
    exact noExtremeKids_delKids kids
theorem noExtremeKids_delKids : ∀ ks : List (String × Res C), noExtremeKids (delKids ks) = true
  | [] => by simp [delKids, noExtremeKids]
  | (k, v) :: rest => by
    simp only [delKids]
    split
    · exact noExtremeKids_delKids rest
    · rename_i h
      simp only [noExtremeKids, Bool.and_eq_true]
      exact ⟨⟨by simpa using h, noExtreme_del v⟩, noExtremeKids_delKids rest⟩
end

mutual
theorem canonical_del : ∀ t : Res C, canonical (del t) = true
  | .base cats => by
    simp only [del]
    exact canonical_mkBase _
  | .group kids => by
    simp only [del, canonical]
    exact canonicalKids_delKids kids
theorem canonicalKids_delKids : ∀ ks : List (String × Res C), canonicalKids (delKids ks) = true
  | [] => by simp [delKids, canonicalKids]
  | (k, v) :: rest => by
    simp only [delKids]
    split
    · exact canonicalKids_delKids rest
    · simp only [canonicalKids, Bool.and_eq_true]
      exact ⟨canonical_del v, canonicalKids_delKids rest⟩
end

theorem delKids_append (a b : List (String × Res C)) : delKids (a ++ b) = delKids a ++ delKids b := by
  induction a with
  | nil => rfl
  | cons p a ih =>
    obtain ⟨k, v⟩ := p
    simp only [List.cons_append, delKids]
    split <;> simp [ih]

mutual
/-- on a tree without `'extreme'` entries (in canonical form) deleting what `_add_extreme` added gives
the tree back -/
theorem del_add (comb : String → Bool → Nat → Option C → C → C) :
    ∀ t : Res C, noExtreme t = true → canonical t = true → del (add comb t) = t
  | .base cats, hn, hc => by
    simp only [add, del]
    have hf : cats.filter (fun p => p.1 != "extreme") = cats := by
      rw [List.filter_eq_self]
      simpa [noExtreme] using hn
    rw [hf]
    exact mkBase_of_ne (by simpa [canonical] using hc)
  | .group kids, hn, hc => by
    simp only [add, del, delKids_append, delKids]
    simp only [noExtreme] at hn
    simp only [canonical] at hc
    simp [delKids_addKids comb kids hn hc]
theorem delKids_addKids (comb : String → Bool → Nat → Option C → C → C) :
    ∀ ks : List (String × Res C), noExtremeKids ks = true → canonicalKids ks = true →
      delKids (addKids comb ks) = ks
  | [], _, _ => by simp [addKids, delKids]
  | (k, v) :: rest, hn, hc => by
    simp only [noExtremeKids, Bool.and_eq_true] at hn
    simp only [canonicalKids, Bool.and_eq_true] at hc
    obtain ⟨⟨hk, hv⟩, hr⟩ := hn
    have hk' : (k == "extreme") = false := by simpa using hk
    simp only [addKids, delKids, hk']
    simp [del_add comb v hv hc.1, delKids_addKids comb rest hr hc.2]
end

mutual
/-- a tree without `'extreme'` entries in canonical form is a fixed point of `delete_extreme` -/
theorem del_of_noExtreme : ∀ t : Res C, noExtreme t = true → canonical t = true → del t = t
  | .base cats, hn, hc => by
    simp only [del]
    have hf : cats.filter (fun p => p.1 != "extreme") = cats := by
      rw [List.filter_eq_self]
      simpa [noExtreme] using hn
    rw [hf]
    exact mkBase_of_ne (by simpa [canonical] using hc)
  | .group kids, hn, hc => by
    simp only [del]
    simp only [noExtreme] at hn
    simp only [canonical] at hc
    rw [delKids_of_noExtreme kids hn hc]
theorem delKids_of_noExtreme : ∀ ks : List (String × Res C), noExtremeKids ks = true →
    canonicalKids ks = true → delKids ks = ks
  | [], _, _ => by simp [delKids]
  | (k, v) :: rest, hn, hc => by
    simp only [noExtremeKids, Bool.and_eq_true] at hn
    simp only [canonicalKids, Bool.and_eq_true] at hc
    obtain ⟨⟨hk, hv⟩, hr⟩ := hn
    have hk' : (k == "extreme") = false := by simpa using hk
    simp only [delKids, hk']
    simp [del_of_noExtreme v hv hc.1, delKids_of_noExtreme rest hr hc.2]
end

/-- the categories of a list of base events, each with the path to it -/
def catsOfBases (bs : List (String × List (String × C) × List String)) :
    List (String × C × List String) :=
  bs.flatMap fun b => b.2.1.map fun p => (p.1, p.2, b.2.2 ++ [p.1])

mutual
theorem allCats_eq_bases : ∀ (t : Res C) (top : String) (path : List String),
    allCats t path = catsOfBases (allBases t top path)
  | .base cats, top, path => by
    simp only [allCats, allBases]
    split
    · rename_i h
      simp [catsOfBases, List.isEmpty_iff.1 h]
    · simp [catsOfBases]
  | .group kids, top, path => by
    simp only [allCats, allBases]
    exact allCatsKids_eq_bases kids path
theorem allCatsKids_eq_bases : ∀ (ks : List (String × Res C)) (path : List String),
    allCatsKids ks path = catsOfBases (allBasesKids ks path)
  | [], path => by simp [allCatsKids, allBasesKids, catsOfBases]
  | (k, v) :: rest, path => by
    simp only [allCatsKids, allBasesKids]
    rw [allCats_eq_bases v k (path ++ [k]), allCatsKids_eq_bases rest path]
    simp [catsOfBases]
end

/-! ### a flat group of base events holding one category -/

/-- the flat group: event `p.1` holds the single category `c` with the row `p.2` -/
def flatKids (c : String) (ps : List (String × C)) : List (String × Res C) :=
  ps.map fun p => (p.1, Res.base [(c, p.2)])

def toAssoc (c : String) : Option C → List (String × C)
  | none => []
  | some a => [(c, a)]

/-- members that each hold the single category `c`: `(case, row, use_ext)` -/
def singleItems (c : String) (ps : List (String × C × Bool)) : List (String × List (String × C) × Bool) :=
  ps.map fun p => (p.1, [(c, p.2.1)], p.2.2)

theorem calc_single_aux (comb : String → Bool → Nat → Option C → C → C) (c : String) :
    ∀ (ps : List (String × C × Bool)) (start : Nat) (acc0 : Option C),
      ((singleItems c ps).zipIdx start).foldl (fun acc p =>
          p.1.2.1.foldl (fun acc cv => upsert (fun cur => comb p.1.1 p.1.2.2 p.2 cur cv.2) cv.1 acc) acc)
        (toAssoc c acc0)
      = toAssoc c ((ps.zipIdx start).foldl (fun cur p => some (comb p.1.1 p.1.2.2 p.2 cur p.1.2.1)) acc0)
  | [], _, _ => rfl
  | (k, v, u) :: ps, start, acc0 => by
    have ih := calc_single_aux comb c ps (start + 1)
    simp only [singleItems, List.map_cons, List.zipIdx_cons, List.foldl_cons] at ih ⊢
    cases acc0 with
    | none =>
      simp only [toAssoc, List.foldl_nil, upsert]
      exact ih (some (comb k u start none v))
    | some a =>
      simp only [toAssoc, List.foldl_nil, upsert, beq_self_eq_true, if_true]
      exact ih (some (comb k u start (some a) v))

theorem calcCore_single (comb : String → Bool → Nat → Option C → C → C) (c : String)
    (ps : List (String × C × Bool)) :
    calcCore comb (singleItems c ps)
      = toAssoc c ((ps.zipIdx 0).foldl (fun cur p => some (comb p.1.1 p.1.2.2 p.2 cur p.1.2.1)) none) := by
  have := calc_single_aux comb c ps 0 none
  simpa [calcCore, toAssoc, List.zipIdx] using this

theorem extOf_flatKids (c : String) (ps : List (String × C)) :
    (flatKids c ps).map (fun k => (k.1, extOf k.2)) = singleItems c (ps.map fun p => (p.1, p.2, false)) := by
  simp [flatKids, singleItems, extOf, List.map_map, Function.comp_def]

theorem addKids_flat (comb : String → Bool → Nat → Option C → C → C) (c : String)
    (ps : List (String × C)) : addKids comb (flatKids c ps) = flatKids c ps := by
  induction ps with
  | nil => rfl
  | cons p ps ih =>
    simp only [flatKids, List.map_cons, addKids, add] at ih ⊢
    rw [ih]

theorem noExtremeKids_flat (c : String) (hc : c ≠ "extreme") (ps : List (String × C))
    (hk : ∀ p ∈ ps, p.1 ≠ "extreme") : noExtremeKids (flatKids c ps) = true := by
  induction ps with
  | nil => rfl
  | cons p ps ih =>
    simp only [flatKids, List.map_cons, noExtremeKids, noExtreme, Bool.and_eq_true] at ih ⊢
    refine ⟨⟨by simpa using hk p (List.mem_cons_self ..), by simpa using hc⟩, ?_⟩
    exact ih fun q hq => hk q (List.mem_cons_of_mem _ hq)

theorem canonicalKids_flat (c : String) (ps : List (String × C)) :
    canonicalKids (flatKids c ps) = true := by
  induction ps with
  | nil => rfl
  | cons p ps ih =>
    simp only [flatKids, List.map_cons, canonicalKids, canonical, Bool.and_eq_true] at ih ⊢
    exact ⟨by simp, ih⟩

theorem foldl_zipIdx_ignore {A B : Type} (f : B → A → B) :
    ∀ (l : List A) (start : Nat) (b : B),
      (l.zipIdx start).foldl (fun acc p => f acc p.1) b = l.foldl f b
  | [], _, _ => rfl
  | a :: l, start, b => by
    simp only [List.zipIdx_cons, List.foldl_cons]
    exact foldl_zipIdx_ignore f l (start + 1) (f b a)

/-! ### the nested envelope, recursively -/

theorem lookup_append_of_noExtreme (ks : List (String × Res C)) (v : Res C)
    (h : ∀ k ∈ ks, (k.1 == "extreme") = false) : lookup "extreme" (ks ++ [("extreme", v)]) = some v := by
  induction ks with
  | nil => simp [lookup]
  | cons k ks ih =>
    obtain ⟨kn, kv⟩ := k
    have hk : (kn == "extreme") = false := h (kn, kv) (List.mem_cons_self ..)
    simp only [List.cons_append, lookup, hk]
    exact ih fun q hq => h q (List.mem_cons_of_mem _ hq)

theorem addKids_keys (comb : String → Bool → Nat → Option C → C → C) (ks : List (String × Res C)) :
    (addKids comb ks).map (·.1) = ks.map (·.1) := by
  induction ks with
  | nil => rfl
  | cons k ks ih =>
    obtain ⟨kn, kv⟩ := k
    simp [addKids, ih]

theorem keys_of_noExtremeKids (ks : List (String × Res C)) (h : noExtremeKids ks = true) :
    ∀ k ∈ ks.map (·.1), (k == "extreme") = false := by
  induction ks with
  | nil => simp
  | cons k ks ih =>
    obtain ⟨kn, kv⟩ := k
    simp only [noExtremeKids, Bool.and_eq_true] at h
    intro q hq
    simp only [List.map_cons, List.mem_cons] at hq
    rcases hq with rfl | hq
    · simpa using h.1.1
    · exact ih h.2 q hq

theorem extOf_mkBase_extreme (ks : List (String × Res C)) (x : List (String × C))
    (h : ∀ k ∈ ks, (k.1 == "extreme") = false) :
    extOf (Res.group (ks ++ [("extreme", mkBase x)])) = (x, true) := by
  simp only [extOf, lookup_append_of_noExtreme ks _ h]
  cases x with
  | nil => simp [mkBase]
  | cons a x => simp [mkBase]

mutual
/-- what a parent reads from a structure once `_add_extreme` has returned from it is its recursive
envelope -/
theorem extOf_add (comb : String → Bool → Nat → Option C → C → C) :
    ∀ t : Res C, noExtreme t = true → extOf (add comb t) = envOf comb t
  | .base cats, _ => by simp [add, extOf, envOf]
  | .group kids, hn => by
    simp only [noExtreme] at hn
    simp only [add, envOf]
    have hk : ∀ k ∈ addKids comb kids, (k.1 == "extreme") = false := by
      intro k hkm
      have := keys_of_noExtremeKids kids hn k.1
      rw [← addKids_keys comb kids] at this
      exact this (List.mem_map_of_mem hkm)
    rw [extOf_mkBase_extreme _ _ hk, calcExtreme, map_extOf_addKids comb kids hn]
theorem map_extOf_addKids (comb : String → Bool → Nat → Option C → C → C) :
    ∀ ks : List (String × Res C), noExtremeKids ks = true →
      (addKids comb ks).map (fun k => (k.1, extOf k.2)) = envKids comb ks
  | [], _ => rfl
  | (k, v) :: rest, hn => by
    simp only [noExtremeKids, Bool.and_eq_true] at hn
    simp only [addKids, List.map_cons, envKids]
    rw [extOf_add comb v hn.1.2, map_extOf_addKids comb rest hn.2]
end

end PyYetiVerif.ExtremaTree
