import PyYetiVerif.Model.Uset
import PyYetiVerif.Lemmas.Locate
import Mathlib.Tactic.Ring
/-!
Helper lemmas for `Model/Uset.lean`: bit-word membership, masks applied to sub-tables, decimal
digits.
-/
namespace PyYetiVerif.Uset

/-! ### bit words -/

theorem inSet_iff_exists_bit (w m : Nat) :
    inSet w m = true ↔ ∃ i, w.testBit i = true ∧ m.testBit i = true := by
  unfold inSet
  rw [bne_iff_ne]
  constructor
  · intro h
    obtain ⟨i, hi⟩ := Nat.exists_testBit_of_ne_zero h
    rw [Nat.testBit_and, Bool.and_eq_true] at hi
    exact ⟨i, hi⟩
  · rintro ⟨i, h1, h2⟩ h0
    have : (w &&& m).testBit i = true := by rw [Nat.testBit_and, h1, h2]; rfl
    rw [h0, Nat.zero_testBit] at this
    cases this

/-- bits of a sub-word are bits of the word -/
theorem testBit_of_subword {w m : Nat} (h : w &&& m = w) {i : Nat} (hi : w.testBit i = true) :
    m.testBit i = true := by
  have : (w &&& m).testBit i = true := by rw [h]; exact hi
  rw [Nat.testBit_and, Bool.and_eq_true] at this
  exact this.2

/-! ### masks and sub-tables -/

theorem filter_zip_map {β : Type} (l : List β) (f : β → Bool) :
    ((l.zip (l.map f)).filter (·.2)).map (·.1) = l.filter f := by
  induction l with
  | nil => rfl
  | cons a t ih =>
      simp only [List.map_cons, List.zip_cons_cons, List.filter_cons]
      cases f a <;> simp [ih]

theorem filter_filter_of_imp {β : Type} (l : List β) (f g : β → Bool)
    (h : ∀ x ∈ l, g x = true → f x = true) : (l.filter f).filter g = l.filter g := by
  rw [List.filter_filter]
  apply List.filter_congr
  intro x hx
  cases hg : g x
  · simp
  · simp [h x hx hg]

/-! ### decimal digits -/

/-- value of a little-endian digit list -/
def ofDigitsRev : List Nat → Nat
  | [] => 0
  | d :: t => d + 10 * ofDigitsRev t

theorem ofDigitsRev_digitsRev (n : Nat) : ofDigitsRev (digitsRev n) = n := by
  induction n using Nat.strongRecOn with
  | _ n ih =>
    rw [digitsRev]
    split
    · simp [ofDigitsRev]
    · rename_i h
      simp only [ofDigitsRev]
      rw [ih (n / 10) (by omega)]
      omega

theorem digitsRev_lt (n : Nat) : ∀ d ∈ digitsRev n, d < 10 := by
  induction n using Nat.strongRecOn with
  | _ n ih =>
    rw [digitsRev]
    split
    · intro d hd; simp at hd; omega
    · intro d hd
      rcases List.mem_cons.mp hd with h | h
      · omega
      · exact ih (n / 10) (by omega) d h

theorem digitsRev_ne_nil (n : Nat) : digitsRev n ≠ [] := by
  rw [digitsRev]; split <;> simp

theorem key_inj {p q : Nat × Nat} (hp : p.2 < 10) (hq : q.2 < 10) (h : key p = key q) : p = q := by
  unfold key at h
  have h1 : p.1 = q.1 := by omega
  have h2 : p.2 = q.2 := by omega
  exact Prod.ext h1 h2

end PyYetiVerif.Uset
