import PyYetiVerif.Lemmas.BulkFileOK
/-! The written blocks as segments (C13; core Lean only): CSUPER / EXTRN cards (through `wtnasints`), SPOINT cards,
SET statements whose tokens fit `max_length`. -/
namespace PyYetiVerif.Bulk

/-- a card laid out by `wtnasints` is one card segment, well formed alone -/
theorem intsCard_segOK (o : Nat) (lead : Txt) (h8 : lead.length = 8) (hd : '$' ∉ lead) (hc : ',' ∉ lead)
    (hstar : lead.contains '*' = false)
    (hmatch : ∀ x k, k < bulkReaders.length → (bulkReaders.getD k fun _ => false) (lead ++ x) = decide (k = o))
    (hhead : ∀ x m, isCont m (lead ++ x) = false)
    (pre ints : List Int) (hp : pre.length ≤ 8) (hne : pre ++ ints ≠ []) (hw : ∀ x ∈ pre ++ ints, (dec x).length ≤ 8) :
    ∃ f cs, intsCardLines lead pre ints = f :: cs ∧ SegLocalOK bulkReaders (.card o f cs) := by
  obtain ⟨f, r, hch, hlines⟩ := intsCardLines_eq lead pre ints hp hne
  have hall := chunks_length_le 8 (by decide) (pre ++ ints)
  have hsub : ∀ c ∈ chunks 8 (pre ++ ints), ∀ x ∈ c, x ∈ pre ++ ints := by
    intro c hc' x hx
    rw [← chunks_flatten 8 (pre ++ ints)]
    exact List.mem_flatten.mpr ⟨c, hc', hx⟩
  have hf := hall f (by rw [hch]; simp)
  have hfne : f ≠ [] := by intro e; rw [e] at hf; simp at hf
  have hfl := ints_line lead h8 hd hc f hfne hf.1 (fun x hx => hw x (hsub f (by rw [hch]; simp) x hx))
  have hm := hfl.modeOf
  rw [hstar] at hm; simp only [Bool.false_eq_true, if_false] at hm
  have e1 : lead ++ fmtInts f = lead ++ (f.map fun n => padL 8 (dec n)).flatten ++ blanks 0 := by
    simp [fmtInts_fields, blanks]
  refine ⟨_, _, hlines, hmatch _, ⟨hhead _ _, hhead _ _, hhead _ _⟩, ?_⟩
  intro l hl
  obtain ⟨c, _, rfl⟩ := List.mem_map.mp hl
  rw [e1, hm]
  exact ⟨isCont_blanks8' _, noMatch_blanks8 _⟩

theorem csuper_seg (sid : Int) (grids : List Int) (hs : (dec sid).length ≤ 8) (hw : ∀ x ∈ grids, (dec x).length ≤ 8) :
    ∃ f cs, csuperLines sid grids = f :: cs ∧ SegLocalOK bulkReaders (.card 4 f cs) := by
  rw [csuperLines_eq]
  apply intsCard_segOK 4 (txt "CSUPER  ") (by decide) (by decide) (by decide) (by decide) match_csuper
    (fun x m => isCont_of_head 'C' _ (by decide) m) [sid, 0] grids (by simp) (by simp)
  intro x hx
  simp only [List.cons_append, List.nil_append, List.mem_cons] at hx
  rcases hx with rfl | rfl | hx
  · exact hs
  · decide
  · exact hw x hx

theorem extrn_seg (pairs : List (Int × Int)) (hne : pairs ≠ [])
    (hw : ∀ p ∈ pairs, (dec p.1).length ≤ 8 ∧ (dec p.2).length ≤ 8) :
    ∃ f cs, extrnLines pairs = f :: cs ∧ SegLocalOK bulkReaders (.card 5 f cs) := by
  rw [extrnLines_eq]
  apply intsCard_segOK 5 (txt "EXTRN   ") (by decide) (by decide) (by decide) (by decide) match_extrn
    (fun x m => isCont_of_head 'E' _ (by decide) m) [] (interleave pairs) (by simp)
  · cases pairs with
    | nil => exact absurd rfl hne
    | cons p r => obtain ⟨a, b⟩ := p; simp [interleave]
  · intro x hx
    obtain ⟨p, hp, h | h⟩ := mem_interleave pairs x (by simpa using hx)
    · rw [h]; exact (hw p hp).1
    · rw [h]; exact (hw p hp).2

/-! ### SPOINT: every card is one line -/

theorem match_spoint (x : Txt) : ∀ k, k < bulkReaders.length →
    (bulkReaders.getD k fun _ => false) (padR 8 (txt "SPOINT") ++ x) = decide (k = 3) := by
  intro k hk
  have e : padR 8 (txt "SPOINT") ++ x = 'S' :: 'P' :: 'O' :: 'I' :: 'N' :: 'T' :: ' ' :: ' ' :: x := rfl
  rw [e]
  have : k = 0 ∨ k = 1 ∨ k = 2 ∨ k = 3 ∨ k = 4 ∨ k = 5 ∨ k = 6 := by
    have : bulkReaders.length = 7 := rfl
    omega
  rcases this with rfl | rfl | rfl | rfl | rfl | rfl | rfl <;> rfl

/-- the SPOINT cards as segments -/
def spointSegs (ids : List Int) : List Seg :=
  (thruCards [] (compress ids)).map fun c => Seg.card 3 (padR 8 (txt "SPOINT") ++ (c.map Fld.fmt8).flatten) []

theorem spCard_line (P : Int → Prop) (c : List Fld) (h : SpCard P c) :
    card8Lines (txt "SPOINT") c = [padR 8 (txt "SPOINT") ++ (c.map Fld.fmt8).flatten] := by
  have hc : c ≠ [] ∧ c.length ≤ 8 := by
    rcases h with ⟨l, hl, h8, _, rfl⟩ | ⟨a, b, _, _, rfl⟩
    · exact ⟨by simpa using hl, by simpa using h8⟩
    · exact ⟨by simp, by simp⟩
  unfold card8Lines
  rw [chunks_small 8 c hc.1 hc.2]
  rfl

theorem spoint_segs (ids : List Int) :
    spointLines ids = fileOf (spointSegs ids) ∧ ∀ s ∈ spointSegs ids, SegLocalOK bulkReaders s := by
  have hshape := thruCards_shape (fun _ => True) (compress ids) (fun _ _ => ⟨trivial, trivial⟩) [] (by simp) (by simp)
  constructor
  · unfold spointLines spointSegs fileOf
    generalize thruCards [] (compress ids) = cs at hshape
    induction cs with
    | nil => rfl
    | cons c r ih =>
        simp only [List.flatMap_cons, List.map_cons, Seg.lines]
        rw [spCard_line _ c (hshape c (by simp)), ih (fun x hx => hshape x (by simp [hx]))]
  · intro s hs
    obtain ⟨c, _, rfl⟩ := List.mem_map.mp hs
    refine ⟨match_spoint _, ?_, ?_⟩
    · have e : ∀ x, padR 8 (txt "SPOINT") ++ x = 'S' :: ('P' :: 'O' :: 'I' :: 'N' :: 'T' :: ' ' :: ' ' :: x) := fun _ => rfl
      rw [e]
      exact ⟨isCont_of_head 'S' _ (by decide) _, isCont_of_head 'S' _ (by decide) _, isCont_of_head 'S' _ (by decide) _⟩
    · intro l hl; simp at hl

/-! ### a SET statement whose tokens fit: lines that begin with `S` or a digit, matched by no card reader -/

theorem noMatch_digit (c : Char) (r : Txt) (hc : c.isDigit = true) :
    ∀ k, k < bulkReaders.length → (bulkReaders.getD k fun _ => false) (c :: r) = false := by
  intro k hk
  have hl : c.toLower = c := toLower_of_isDigit hc
  have hne : ∀ d : Char, d.isDigit = false → c ≠ d := by intro d hd e; rw [e] at hc; rw [hc] at hd; cases hd
  have : k = 0 ∨ k = 1 ∨ k = 2 ∨ k = 3 ∨ k = 4 ∨ k = 5 ∨ k = 6 := by
    have : bulkReaders.length = 7 := rfl
    omega
  rcases this with rfl | rfl | rfl | rfl | rfl | rfl | rfl
  · simp [bulkReaders, nameMatch, startsWith, lower, txt, hl, hne 'd' (by decide)]
  · simp [bulkReaders, nameMatch, startsWith, lower, txt, hl, hne 'g' (by decide)]
  · simp [bulkReaders, cord2Match, startsWith, lower, txt, hl, hne 'c' (by decide)]
  · simp [bulkReaders, nameMatch, startsWith, lower, txt, hl, hne 's' (by decide)]
  · simp [bulkReaders, nameMatch, startsWith, lower, txt, hl, hne 'c' (by decide)]
  · simp [bulkReaders, nameMatch, startsWith, lower, txt, hl, hne 'e' (by decide)]
  · simp [bulkReaders, nameMatch, startsWith, lower, txt, hl, hne 't' (by decide)]

theorem noMatch_SET (r : Txt) :
    ∀ k, k < bulkReaders.length → (bulkReaders.getD k fun _ => false) ('S' :: 'E' :: 'T' :: ' ' :: r) = false := by
  intro k hk
  have : k = 0 ∨ k = 1 ∨ k = 2 ∨ k = 3 ∨ k = 4 ∨ k = 5 ∨ k = 6 := by
    have : bulkReaders.length = 7 := rfl
    omega
  rcases this with rfl | rfl | rfl | rfl | rfl | rfl | rfl <;> rfl

theorem digit_not_cont (c : Char) (r : Txt) (hc : c.isDigit = true) : ∀ m, isCont m (c :: r) = false := by
  apply isCont_of_head
  refine ⟨?_, ?_, ?_, ?_⟩ <;> (intro e; rw [e] at hc; cases hc)

/-- the lines of `wtset` (tokens fit `max_length`) are a junk block for the card readers, well formed alone -/
theorem set_junk (setid : Int) (ids : List Int) (maxLen : Nat) (hne : ids ≠ []) (hn : ∀ x ∈ ids, 0 ≤ x)
    (h : ∀ t ∈ setTokens setid ids, t.length ≤ maxLen) :
    SegLocalOK bulkReaders (.junk (setLines setid ids maxLen)) := by
  obtain ⟨T1, Gs, e, hGs, hfl⟩ := setLines_segment setid ids maxLen hne h
  have hnJ := compress_nonneg ids hn
  -- every line after the first begins with a digit
  have hdig : ∀ l ∈ Gs.map List.flatten, ∃ c r, l = c :: r ∧ c.isDigit = true := by
    intro l hl
    obtain ⟨g, hg, rfl⟩ := List.mem_map.mp hl
    cases hq : g with
    | nil => exact absurd hq (hGs g hg)
    | cons t ts =>
        have ht : t ∈ setBody (compress ids) := by
          rw [← hfl]
          exact List.mem_append_right _ (List.mem_flatten.mpr ⟨g, hg, by rw [hq]; simp⟩)
        -- a token is the text of an item, possibly followed by ", "
        have : ∃ c r, t = c :: r ∧ c.isDigit = true := by
          have key : ∀ J : List Item, (∀ x ∈ J, x.NonNeg) → ∀ t ∈ setBody J, ∃ c r, t = c :: r ∧ c.isDigit = true := by
            intro J
            induction J with
            | nil => intro _ t ht; simp [setBody] at ht
            | cons it r ih =>
                intro hJ t ht
                obtain ⟨⟨c, q, e1, hc⟩, _⟩ := item_ends it (hJ it (by simp))
                cases r with
                | nil =>
                    simp only [setBody, List.mem_singleton] at ht
                    exact ⟨c, q, by rw [ht, e1], hc⟩
                | cons it' r' =>
                    rw [setBody_cons2] at ht
                    rcases List.mem_cons.mp ht with rfl | ht
                    · exact ⟨c, q ++ txt ", ", by simp [ctok, e1], hc⟩
                    · exact ih (fun x hx => hJ x (by simp [hx])) t ht
          exact key _ hnJ t ht
        obtain ⟨c, r, rfl, hc⟩ := this
        exact ⟨c, r ++ ts.flatten, by simp, hc⟩
  have hfirst : ∃ r, ((txt "SET " ++ dec setid ++ txt " = ") :: T1).flatten = 'S' :: 'E' :: 'T' :: ' ' :: r :=
    ⟨dec setid ++ txt " = " ++ T1.flatten, by simp [txt]⟩
  obtain ⟨r0, hr0⟩ := hfirst
  rw [e]
  simp only [SSeg.lines, SegLocalOK]
  constructor
  · intro l hl
    rcases List.mem_cons.mp hl with rfl | hl
    · rw [hr0]; exact noMatch_SET r0
    · obtain ⟨c, r, rfl, hc⟩ := hdig l hl
      exact noMatch_digit c r hc
  · intro x hx m
    simp only [List.head?_cons, Option.some.injEq] at hx
    subst hx
    rw [hr0]
    exact isCont_of_head 'S' _ (by decide) m

end PyYetiVerif.Bulk
