import PyYetiVerif.Lemmas.ApplyUfFullRoutine
import Mathlib.Logic.Function.Basic
/-! Helper lemmas for C16 (`apply_uf`, full stiffness) WITH residual-flexibility modes: the partition
layer of `Model/ApplyUfFull.lean` for an arbitrary index list `rf`. -/
namespace PyYetiVerif.ApplyUfFull
open PyYetiVerif.ApplyUf (Uf)

section idx
variable {α : Type} {n : Nat}

/-- an index list (all entries below `n`) as a function into `Fin n` -/
def idxOf (l : List Nat) (hl : ∀ i ∈ l, i < n) : Fin l.length → Fin n :=
  fun i => ⟨l[i], hl _ (List.getElem_mem _)⟩

theorem idxOf_injective (l : List Nat) (hl : ∀ i ∈ l, i < n) (hnd : l.Nodup) :
    Function.Injective (idxOf l hl) := by
  intro i j hij
  have : l[i.val] = l[j.val] := by simpa [idxOf] using congrArg Fin.val hij
  exact Fin.ext ((hnd.getElem_inj_iff).1 this)

theorem exists_idxOf (l : List Nat) (hl : ∀ i ∈ l, i < n) (j : Fin n) :
    (∃ i, idxOf l hl i = j) ↔ j.val ∈ l := by
  constructor
  · rintro ⟨i, rfl⟩
    exact List.getElem_mem _
  · intro h
    obtain ⟨i, hi, hij⟩ := List.getElem_of_mem h
    exact ⟨⟨i, hi⟩, Fin.ext hij⟩

theorem elasticIdx_lt (n nrb : Nat) (rf : List Nat) : ∀ i ∈ elasticIdx n nrb rf, i < n := by
  intro i hi
  have := List.mem_of_mem_drop hi
  simp only [List.mem_filter, List.mem_range] at this
  exact this.1

theorem nodup_elasticIdx (n nrb : Nat) (rf : List Nat) : (elasticIdx n nrb rf).Nodup :=
  ((List.nodup_range).filter _).sublist (List.drop_sublist _ _)

/-- with every residual-flexibility index at or above `nrb`, `flippv(rfmodes, n)[nrb:]` is the list
of the modes `nrb ≤ i < n` that are not residual-flexibility modes, in increasing order -/
theorem elasticIdx_eq (n nrb : Nat) (h : nrb ≤ n) (rf : List Nat) (hlo : ∀ i ∈ rf, nrb ≤ i) :
    elasticIdx n nrb rf = (List.range' nrb (n - nrb)).filter fun i => !rf.contains i := by
  unfold elasticIdx
  have hsplit : List.range n = List.range' 0 nrb ++ List.range' nrb (n - nrb) := by
    rw [List.range_eq_range']
    have := @List.range'_append 0 nrb (n - nrb) 1
    simp only [Nat.one_mul, Nat.zero_add] at this
    rw [this]
    congr 1
    omega
  rw [hsplit, List.filter_append]
  have hall : (List.range' 0 nrb).filter (fun i => !rf.contains i) = List.range' 0 nrb := by
    rw [List.filter_eq_self]
    intro a ha
    simp only [List.mem_range'_1] at ha
    simp only [Bool.not_eq_eq_eq_not, Bool.not_true, List.contains_eq_mem, decide_eq_false_iff_not]
    intro hmem
    have := hlo a hmem
    omega
  rw [hall]
  exact List.drop_left' (by simp)

theorem mem_elasticIdx (n nrb : Nat) (h : nrb ≤ n) (rf : List Nat) (hlo : ∀ i ∈ rf, nrb ≤ i)
    (i : Nat) : i ∈ elasticIdx n nrb rf ↔ nrb ≤ i ∧ i < n ∧ i ∉ rf := by
  rw [elasticIdx_eq n nrb h rf hlo]
  simp only [List.mem_filter, List.mem_range'_1, Bool.not_eq_eq_eq_not, Bool.not_true,
    List.contains_eq_mem, decide_eq_false_iff_not]
  constructor
  · rintro ⟨⟨h1, h2⟩, h3⟩
    exact ⟨h1, by omega, h3⟩
  · rintro ⟨h1, h2, h3⟩
    exact ⟨⟨h1, by omega⟩, h3⟩

/-- the elastic modes as a function into `Fin n` -/
def eOf (n nrb : Nat) (rf : List Nat) : Fin (elasticIdx n nrb rf).length → Fin n :=
  idxOf (elasticIdx n nrb rf) (elasticIdx_lt n nrb rf)

theorem eOf_injective (n nrb : Nat) (rf : List Nat) : Function.Injective (eOf n nrb rf) :=
  idxOf_injective _ _ (nodup_elasticIdx n nrb rf)

variable [Zero α]

theorem pick_idxOf (l : List Nat) (hl : ∀ i ∈ l, i < n) (x : Fin n → α) :
    pick l (toL x) = toL (fun i => x (idxOf l hl i)) := by
  have := pick_ofFn (idxOf l hl) x
  simpa [idxOf] using this

theorem pickM_idxOf (l : List Nat) (hl : ∀ i ∈ l, i < n) (A : Matrix (Fin n) (Fin n) α) :
    pickM l l (toLL A) = toLL (A.submatrix (idxOf l hl) (idxOf l hl)) := by
  have := pickM_ofFn (idxOf l hl) A
  simpa [idxOf] using this

theorem replicate_zero_toL : List.replicate n (0 : α) = toL (fun _ : Fin n => (0 : α)) := by
  simp [toL, List.ofFn_const]

omit [Zero α] in
/-- `x[idx] = vals` for distinct in-range indices: the rows named by `idx` get `vals`, all other
rows keep what they held — every row is written at most once -/
theorem scatter_extend {k : Nat} (idx : Fin k → Fin n) (hinj : Function.Injective idx)
    (w : Fin k → α) (base : Fin n → α) :
    scatter (List.ofFn fun i => (idx i).val) (toL w) (toL base)
      = toL (Function.extend idx w base) := by
  unfold scatter
  have hz : (List.ofFn fun i : Fin k => (idx i).val).zip (toL w)
      = List.ofFn fun i : Fin k => ((idx i).val, w i) := by
    unfold toL
    apply List.ext_getElem
    · simp
    · intro i h1 h2
      simp
  rw [hz]
  have hnd : ((List.ofFn fun i : Fin k => ((idx i).val, w i)).map (·.1)).Nodup := by
    rw [List.map_ofFn]
    apply List.nodup_ofFn.2
    intro i j hij
    simp only [Function.comp_apply] at hij
    exact hinj (Fin.ext hij)
  apply List.ext_getElem?
  intro j
  by_cases hjn : j < n
  · by_cases hj : ∃ i, idx i = ⟨j, hjn⟩
    · obtain ⟨i, hi⟩ := hj
      have hmem : (j, w i) ∈ List.ofFn fun i : Fin k => ((idx i).val, w i) := by
        rw [List.mem_ofFn]
        exact ⟨i, by simp [hi]⟩
      rw [PyYetiVerif.Extrema.foldl_set_get _ _ hnd j _ hmem (by simpa [toL] using hjn)]
      have : Function.extend idx w base ⟨j, hjn⟩ = w i := by
        rw [← hi]
        exact hinj.extend_apply w base i
      simp [toL, hjn, this]
    · have hnot : j ∉ (List.ofFn fun i : Fin k => ((idx i).val, w i)).map (·.1) := by
        rw [List.map_ofFn, List.mem_ofFn]
        rintro ⟨i, hi⟩
        simp only [Function.comp_apply] at hi
        exact hj ⟨i, Fin.ext hi⟩
      rw [PyYetiVerif.Extrema.foldl_set_get_of_notMem _ _ _ hnot]
      have : Function.extend idx w base ⟨j, hjn⟩ = base ⟨j, hjn⟩ :=
        Function.extend_apply' w base _ hj
      simp [toL, hjn, this]
  · have hlen := PyYetiVerif.Extrema.foldl_set_length (toL base)
      (List.ofFn fun i : Fin k => ((idx i).val, w i))
    rw [List.getElem?_eq_none (by rw [hlen]; simpa [toL] using Nat.le_of_not_lt hjn),
      List.getElem?_eq_none (by simpa [toL] using Nat.le_of_not_lt hjn)]

omit [Zero α] in
theorem scatter_idxOf (l : List Nat) (hl : ∀ i ∈ l, i < n) (hnd : l.Nodup)
    (w : Fin l.length → α) (base : Fin n → α) :
    scatter l (toL w) (toL base) = toL (Function.extend (idxOf l hl) w base) := by
  have := scatter_extend (idxOf l hl) (idxOf_injective l hl hnd) w base
  simpa [idxOf] using this

theorem scaleAV_toL [Mul α] (D : FullData α) (uf : Uf α) (x : Fin n → α) :
    scaleAV D uf (toL x) = toL fun j : Fin n =>
      if j.val < D.nrb then x j * (uf.ruf * uf.suf)
      else (if D.rf.contains j.val then 0 else x j) * (uf.euf * uf.duf) := by
  unfold scaleAV toL
  apply List.ext_getElem
  · simp
  · intro i h1 h2
    simp

/-- the partition of a modal coefficient along an index function -/
def ArgM.blockBy {k : Nat} (idx : Fin k → Fin n) : ArgM n α → CoefM k α
  | .vec d => .diag fun i => d (idx i)
  | .mat A => .full (A.submatrix idx idx)

theorem block_idxOf (l : List Nat) (hl : ∀ i ∈ l, i < n) (c : ArgM n α) :
    c.toArg.block l = (c.blockBy (idxOf l hl)).toModel := by
  cases c with
  | vec d =>
    simp only [ArgM.toArg, Arg.block, ArgM.blockBy, CoefM.toModel]
    congr 1
    exact pick_idxOf l hl d
  | mat A =>
    simp only [ArgM.toArg, Arg.block, ArgM.blockBy, CoefM.toModel]
    congr 1
    exact pickM_idxOf l hl A

/-- well-shaped modal data WITH residual-flexibility modes `rf` (an index list) -/
def dataRf (nrb : Nat) (rf : List Nat) (m : Option (ArgM n α)) (b : ArgM n α)
    (K : Matrix (Fin n) (Fin n) α)
    (KeeInv : Matrix (Fin (elasticIdx n nrb rf).length) (Fin (elasticIdx n nrb rf).length) α)
    (KrrInv : Matrix (Fin rf.length) (Fin rf.length) α) : FullData α :=
  ⟨n, nrb, rf, m.map ArgM.toArg, b.toArg, toLL K, toLL KeeInv, toLL KrrInv⟩

theorem blocksOf_dataRf (nrb : Nat) (rf : List Nat) (hhi : ∀ i ∈ rf, i < n)
    (m : Option (ArgM n α)) (b : ArgM n α) (K : Matrix (Fin n) (Fin n) α)
    (KeeInv : Matrix (Fin (elasticIdx n nrb rf).length) (Fin (elasticIdx n nrb rf).length) α)
    (KrrInv : Matrix (Fin rf.length) (Fin rf.length) α) :
    blocksOf (dataRf nrb rf m b K KeeInv KrrInv)
      = blocksM (m.map (ArgM.blockBy (eOf n nrb rf))) (b.blockBy (eOf n nrb rf))
          (K.submatrix (eOf n nrb rf) (eOf n nrb rf)) KeeInv
          (K.submatrix (idxOf rf hhi) (idxOf rf hhi)) KrrInv := by
  simp only [blocksOf, dataRf, blocksM]
  congr 1
  · cases m with
    | none => rfl
    | some c => simp [block_idxOf _ (elasticIdx_lt n nrb rf), eOf]
  · exact block_idxOf _ (elasticIdx_lt n nrb rf) b
  · exact pickM_idxOf _ (elasticIdx_lt n nrb rf) K
  · exact pickM_idxOf rf hhi K

theorem colOf_dataRf (nrb : Nat) (rf : List Nat) (hhi : ∀ i ∈ rf, i < n)
    (m : Option (ArgM n α)) (b : ArgM n α) (K : Matrix (Fin n) (Fin n) α)
    (KeeInv : Matrix (Fin (elasticIdx n nrb rf).length) (Fin (elasticIdx n nrb rf).length) α)
    (KrrInv : Matrix (Fin rf.length) (Fin rf.length) α) (a v d : Fin n → α) :
    colOf (dataRf nrb rf m b K KeeInv KrrInv) ⟨toL a, toL v, toL d⟩
      = colM (fun i => a (eOf n nrb rf i)) (fun i => v (eOf n nrb rf i))
          (fun i => d (eOf n nrb rf i)) (fun i => d (idxOf rf hhi i)) := by
  simp only [colOf, dataRf, colM]
  congr 1
  · exact pick_idxOf _ (elasticIdx_lt n nrb rf) a
  · exact pick_idxOf _ (elasticIdx_lt n nrb rf) v
  · exact pick_idxOf _ (elasticIdx_lt n nrb rf) d
  · exact pick_idxOf rf hhi d

end idx

section forms

/-- `nonzero` lists exactly the positions holding `true`, in increasing order -/
theorem nonzero_eq_filter (b : List Bool) :
    nonzero b = (List.range b.length).filter fun i => b.getD i false := by
  unfold nonzero
  induction b using List.reverseRecOn with
  | nil => rfl
  | append_singleton bs x ih =>
    rw [List.zipIdx_append, List.filterMap_append, ih, List.length_append, List.length_singleton,
      List.range_succ, List.filter_append]
    congr 1
    · apply List.filter_congr
      intro i hi
      simp only [List.mem_range] at hi
      simp [List.getD_eq_getElem?_getD, List.getElem?_append_left hi]
    · cases x <;> simp [List.getD_eq_getElem?_getD]

end forms
end PyYetiVerif.ApplyUfFull
