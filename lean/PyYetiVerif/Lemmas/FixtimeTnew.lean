import PyYetiVerif.Model.FixtimeTnew
import Mathlib.Data.Rat.Floor
import Mathlib.Algebra.Order.Floor.Ring
import Mathlib.Tactic.Linarith
import Mathlib.Tactic.Ring
import Mathlib.Tactic.FieldSimp
/-! Helper lemmas for C19 (`dsp._mk_initial_tnew`: the uniform time base of `fixtime`). -/
namespace PyYetiVerif.Fixtime

theorem floor_le' (x : ℚ) : ((x.floor : ℤ) : ℚ) ≤ x := Int.floor_le x
theorem lt_floor_add_one' (x : ℚ) : x < ((x.floor : ℤ) : ℚ) + 1 := Int.lt_floor_add_one x

/-- Python's `round`: the result is an integer within `1/2` of the argument -/
theorem roundHalfEven_spec (x : ℚ) : |((roundHalfEven x : ℤ) : ℚ) - x| ≤ 1 / 2 := by
  have h1 := floor_le' x
  have h2 := lt_floor_add_one' x
  unfold roundHalfEven
  simp only
  rw [abs_le]
  split_ifs with a b c
  · constructor <;> linarith
  · push_cast; constructor <;> linarith
  · constructor <;> linarith
  · push_cast; constructor <;> linarith

/-- … `halves to even`: exactly between two integers the even one is returned -/
theorem roundHalfEven_tie (x : ℚ) (h : x - ((x.floor : ℤ) : ℚ) = 1 / 2) :
    roundHalfEven x % 2 = 0 := by
  unfold roundHalfEven
  simp only
  rw [if_neg (by rw [h]; exact lt_irrefl _), if_neg (by rw [h]; exact lt_irrefl _)]
  split_ifs with c
  · exact c
  · omega

theorem roundHalfEven_nonneg (x : ℚ) (hx : 0 ≤ x) : 0 ≤ roundHalfEven x := by
  have hf : 0 ≤ x.floor := Int.floor_nonneg.mpr hx
  unfold roundHalfEven
  simp only
  split_ifs <;> omega

theorem length_grid0 (t0 sr : ℚ) (L : Nat) : (grid0 t0 sr L).length = L := by
  simp [grid0]

theorem getElem_grid0 (t0 sr : ℚ) (L k : Nat) (hk : k < (grid0 t0 sr L).length) :
    (grid0 t0 sr L)[k] = t0 + (k : ℚ) / sr := by
  simp [grid0]; ring

/-- whatever the alignment does, the result is the grid `np.arange(L)/sr + told[0]` shifted by the
returned `delt` -/
theorem mkInitialTnew_eq (told : List ℚ) (sr : ℚ) (r : Tnew) (h : mkInitialTnew told sr = some r) :
    ∃ t0 tl, told.head? = some t0 ∧ told.getLast? = some tl ∧
      r.tnew = (grid0 t0 sr (gridLen t0 tl sr)).map (· + r.delt) ∧
      (r.tp, r.align) = timeShifts told (1 / sr) ∧ (r.align = false → r.delt = 0) := by
  unfold mkInitialTnew at h
  split at h
  · rename_i t0 tl h0 hl
    refine ⟨t0, tl, h0, hl, ?_⟩
    simp only at h
    split at h
    · rename_i ha
      split at h
      · rename_i delt mm _
        injection h with h
        subst h
        refine ⟨rfl, ?_, by simp⟩
        simp [← ha]
      · exact absurd h (by simp)
    · rename_i ha
      injection h with h
      subst h
      refine ⟨by simp, ?_, fun _ => rfl⟩
      have : (timeShifts told (1 / sr)).2 = false := by simpa using ha
      simp [← this]
  · exact absurd h (by simp)

/-- the documented end rule: `L = round((told[-1] - told[0])·sr) + 1` puts the last point of the
unshifted grid within half a step of the last old time -/
theorem grid_end_rule (t0 tl sr : ℚ) (hsr : 0 < sr) (h : t0 ≤ tl) :
    1 ≤ gridLen t0 tl sr ∧
      |t0 + ((gridLen t0 tl sr - 1 : Nat) : ℚ) / sr - tl| ≤ 1 / (2 * sr) := by
  have hx : 0 ≤ (tl - t0) * sr := mul_nonneg (by linarith) hsr.le
  have hr := roundHalfEven_nonneg _ hx
  have hs := roundHalfEven_spec ((tl - t0) * sr)
  unfold gridLen
  generalize roundHalfEven ((tl - t0) * sr) = R at hr hs
  have hL : ((R + 1).toNat - 1 : Nat) = R.toNat := by omega
  refine ⟨by omega, ?_⟩
  rw [hL]
  have hc : ((R.toNat : Nat) : ℚ) = (R : ℚ) := by
    have : ((R.toNat : Nat) : ℤ) = R := Int.toNat_of_nonneg hr
    exact_mod_cast this
  rw [hc]
  have e : t0 + (R : ℚ) / sr - tl = ((R : ℚ) - (tl - t0) * sr) / sr := by
    field_simp; ring
  rw [e, abs_div, abs_of_pos hsr, div_le_div_iff₀ hsr (by linarith)]
  calc |(R : ℚ) - (tl - t0) * sr| * (2 * sr) ≤ 1 / 2 * (2 * sr) :=
        mul_le_mul_of_nonneg_right hs (by linarith)
    _ = 1 * sr := by ring

end PyYetiVerif.Fixtime
