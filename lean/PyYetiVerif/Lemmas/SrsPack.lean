import PyYetiVerif.Lemmas.SrsRoll
import PyYetiVerif.Lemmas.SrsRigid
import PyYetiVerif.Model.SrsPack
import Mathlib.Algebra.BigOperators.Group.List.Basic
import Mathlib.Algebra.Order.BigOperators.Group.List
/-! Helper lemmas for C03: the frequency vector enters a column of `srs.srs` only through its own
entry, the smallest positive entry and the largest entry; homogeneity of the peak selectors; `rms`
below `abs`. -/
set_option linter.unusedVariables false
set_option linter.unusedSimpArgs false
set_option linter.unusedSectionVars false
namespace PyYetiVerif.Srs

/-! ### `minPos`, `maxFreq` depend on the set of entries only -/

theorem minPos_none_iff (l : List ℝ) : minPos l = none ↔ ∀ x ∈ l, ¬ 0 < x := by
  induction l with
  | nil => simp [minPos]
  | cons f fs ih =>
    unfold minPos
    cases h : minPos fs with
    | none =>
      have := ih.mp h
      by_cases hf : 0 < f
      · simp only [hf, if_true, reduceCtorEq, false_iff]
        exact fun hall => hall f (by simp) hf
      · simp only [hf, if_false, true_iff]
        intro x hx
        rcases List.mem_cons.mp hx with rfl | hx
        · exact hf
        · exact this x hx
    | some m =>
      have hne : ¬ ∀ x ∈ fs, ¬ 0 < x := fun hall => by
        have := ih.mpr hall
        rw [h] at this
        cases this
      by_cases hf : 0 < f
      · simp only [hf, if_true]
        have hR : ¬ ∀ x ∈ f :: fs, ¬ 0 < x := fun hall => hall f (by simp) hf
        split_ifs <;> simp only [reduceCtorEq, false_iff] <;> exact hR
      · simp only [hf, if_false]
        simp only [reduceCtorEq, false_iff]
        intro hall
        exact hne fun x hx => hall x (List.mem_cons_of_mem _ hx)

theorem minPos_some_iff (l : List ℝ) (m : ℝ) :
    minPos l = some m ↔ m ∈ l ∧ 0 < m ∧ ∀ x ∈ l, 0 < x → m ≤ x := by
  induction l generalizing m with
  | nil => simp [minPos]
  | cons f fs ih =>
    unfold minPos
    cases h : minPos fs with
    | none =>
      have hn := (minPos_none_iff fs).mp h
      by_cases hf : 0 < f
      · simp only [hf, if_true, Option.some.injEq]
        constructor
        · rintro rfl
          refine ⟨by simp, hf, ?_⟩
          intro x hx hx0
          rcases List.mem_cons.mp hx with rfl | hx
          · exact le_rfl
          · exact absurd hx0 (hn x hx)
        · rintro ⟨hm, hm0, hmin⟩
          rcases List.mem_cons.mp hm with rfl | hm
          · rfl
          · exact absurd hm0 (hn m hm)
      · simp only [hf, if_false, reduceCtorEq, false_iff]
        rintro ⟨hm, hm0, _⟩
        rcases List.mem_cons.mp hm with rfl | hm
        · exact hf hm0
        · exact hn m hm hm0
    | some m' =>
      obtain ⟨hm'mem, hm'0, hm'min⟩ := (ih m').mp h
      by_cases hf : 0 < f
      · simp only [hf, if_true]
        by_cases hlt : f < m'
        · simp only [hlt, if_true, Option.some.injEq]
          constructor
          · rintro rfl
            refine ⟨by simp, hf, ?_⟩
            intro x hx hx0
            rcases List.mem_cons.mp hx with rfl | hx
            · exact le_rfl
            · exact le_trans hlt.le (hm'min x hx hx0)
          · rintro ⟨hm, hm0, hmin⟩
            rcases List.mem_cons.mp hm with rfl | hm
            · rfl
            · have h1 := hmin f (by simp) hf
              have h2 := hm'min m hm hm0
              linarith
        · simp only [hlt, if_false, Option.some.injEq]
          have hle : m' ≤ f := not_lt.mp hlt
          constructor
          · rintro rfl
            refine ⟨List.mem_cons_of_mem _ hm'mem, hm'0, ?_⟩
            intro x hx hx0
            rcases List.mem_cons.mp hx with rfl | hx
            · exact hle
            · exact hm'min x hx hx0
          · rintro ⟨hm, hm0, hmin⟩
            have h1 := hmin m' (List.mem_cons_of_mem _ hm'mem) hm'0
            rcases List.mem_cons.mp hm with rfl | hm
            · linarith
            · have h2 := hm'min m hm hm0
              linarith
      · simp only [hf, if_false, Option.some.injEq]
        constructor
        · rintro rfl
          refine ⟨List.mem_cons_of_mem _ hm'mem, hm'0, ?_⟩
          intro x hx hx0
          rcases List.mem_cons.mp hx with rfl | hx
          · exact absurd hx0 hf
          · exact hm'min x hx hx0
        · rintro ⟨hm, hm0, hmin⟩
          have h1 := hmin m' (List.mem_cons_of_mem _ hm'mem) hm'0
          rcases List.mem_cons.mp hm with rfl | hm
          · exact absurd hm0 hf
          · have h2 := hm'min m hm hm0
            linarith

theorem minPos_congr (l l' : List ℝ) (h : ∀ x, x ∈ l ↔ x ∈ l') : minPos l = minPos l' := by
  cases h1 : minPos l with
  | none =>
    have := (minPos_none_iff l).mp h1
    exact ((minPos_none_iff l').mpr fun x hx => this x ((h x).mpr hx)).symm
  | some m =>
    obtain ⟨hm, hm0, hmin⟩ := (minPos_some_iff l m).mp h1
    exact ((minPos_some_iff l' m).mpr
      ⟨(h m).mp hm, hm0, fun x hx hx0 => hmin x ((h x).mpr hx) hx0⟩).symm

theorem nzeros_congr (sr : ℝ) (l l' : List ℝ) (h : ∀ x, x ∈ l ↔ x ∈ l') :
    nzeros sr l = nzeros sr l' := by
  unfold nzeros
  rw [minPos_congr l l' h]

theorem maxFreq_some_iff (l : List ℝ) (M : ℝ) :
    maxFreq l = some M ↔ M ∈ l ∧ ∀ x ∈ l, x ≤ M := by
  cases l with
  | nil => simp [maxFreq]
  | cons f fs =>
    simp only [maxFreq, Option.some.injEq]
    have hmem := maxOf_mem_of fs f
    constructor
    · rintro rfl
      refine ⟨hmem, ?_⟩
      intro x hx
      rcases List.mem_cons.mp hx with rfl | hx
      · exact le_maxOf fs _
      · exact mem_le_maxOf fs f x hx
    · rintro ⟨hM, hmax⟩
      apply le_antisymm
      · exact hmax _ hmem
      · rcases List.mem_cons.mp hM with rfl | hM
        · exact le_maxOf fs _
        · exact mem_le_maxOf fs f M hM
where
  maxOf_mem_of (xs : List ℝ) : ∀ x : ℝ, maxOf x xs ∈ x :: xs := by
    induction xs with
    | nil => intro x; simp [maxOf]
    | cons v vs ih =>
      intro x
      have e : maxOf x (v :: vs) = maxOf (if x < v then v else x) vs := rfl
      rw [e]
      rcases List.mem_cons.mp (ih (if x < v then v else x)) with h | h
      · rw [h]
        split_ifs <;> simp
      · exact List.mem_cons_of_mem _ (List.mem_cons_of_mem _ h)

theorem maxFreq_congr (l l' : List ℝ) (h : ∀ x, x ∈ l ↔ x ∈ l') : maxFreq l = maxFreq l' := by
  cases h1 : maxFreq l with
  | none =>
    cases l with
    | nil =>
      cases l' with
      | nil => rfl
      | cons a as => exact absurd ((h a).mpr (by simp)) (by simp)
    | cons a as => simp [maxFreq] at h1
  | some M =>
    obtain ⟨hM, hmax⟩ := (maxFreq_some_iff l M).mp h1
    exact ((maxFreq_some_iff l' M).mpr ⟨(h M).mp hM, fun x hx => hmax x ((h x).mpr hx)⟩).symm

/-! ### sums -/

theorem foldl_add_eq (xs : List ℝ) : ∀ a : ℝ, xs.foldl (· + ·) a = a + xs.sum := by
  induction xs with
  | nil => intro a; simp
  | cons x xs ih => intro a; simp [ih, add_assoc]

theorem sum_eq_listSum (xs : List ℝ) : Srs.sum xs = xs.sum := by
  unfold Srs.sum
  rw [foldl_add_eq]
  simp

theorem mean_real (xs : List ℝ) : mean xs = xs.sum / (xs.length : ℝ) := by
  unfold mean
  rw [sum_eq_listSum]
  rfl

/-! ### scaling the window by `k ≥ 0` -/

theorem maxOf_scale (k : ℝ) (hk : 0 ≤ k) (xs : List ℝ) : ∀ x : ℝ,
    maxOf (k * x) (xs.map (k * ·)) = k * maxOf x xs := by
  induction xs with
  | nil => intro x; rfl
  | cons v vs ih =>
    intro x
    have e1 : maxOf (k * x) ((v :: vs).map (k * ·))
        = maxOf (if k * x < k * v then k * v else k * x) (vs.map (k * ·)) := rfl
    have e2 : maxOf x (v :: vs) = maxOf (if x < v then v else x) vs := rfl
    rw [e1, e2, ite_max, ite_max, ← mul_max_of_nonneg _ _ hk, ih]

theorem minOf_scale (k : ℝ) (hk : 0 ≤ k) (xs : List ℝ) : ∀ x : ℝ,
    minOf (k * x) (xs.map (k * ·)) = k * minOf x xs := by
  induction xs with
  | nil => intro x; rfl
  | cons v vs ih =>
    intro x
    have e1 : minOf (k * x) ((v :: vs).map (k * ·))
        = minOf (if k * v < k * x then k * v else k * x) (vs.map (k * ·)) := rfl
    have e2 : minOf x (v :: vs) = minOf (if v < x then v else x) vs := rfl
    rw [e1, e2, ite_min, ite_min, ← mul_min_of_nonneg _ _ hk, ih]

theorem absv_scale (k : ℝ) (hk : 0 ≤ k) (x : ℝ) : absv (k * x) = k * absv x := by
  rw [absv_eq_abs, absv_eq_abs, abs_mul, abs_of_nonneg hk]

/-- every built-in peak statistic is positively homogeneous of degree 1 -/
theorem sel_scale (pk : Peak) (k : ℝ) (hk : 0 ≤ k) (x : ℝ) (xs : List ℝ) :
    pk.sel (k * x) (xs.map (k * ·)) = k * pk.sel x xs := by
  cases pk with
  | abs =>
    simp only [Peak.sel, absv_scale k hk, List.map_map]
    have : (absv ∘ fun v => k * v) = (fun v => k * v) ∘ absv := by
      funext v; simp [absv_scale k hk]
    rw [this, ← List.map_map, maxOf_scale k hk]
  | pos => simp only [Peak.sel, maxOf_scale k hk, absv_scale k hk]
  | poss => simp only [Peak.sel, maxOf_scale k hk]
  | neg => simp only [Peak.sel, minOf_scale k hk, absv_scale k hk]
  | negs => simp only [Peak.sel, minOf_scale k hk]
  | rms =>
    simp only [Peak.sel, sqrt_real, mean_real]
    have e : ((k * x) :: xs.map (k * ·)).map (fun v => v * v)
        = ((x :: xs).map fun v => v * v).map (k * k * ·) := by
      simp only [List.map_cons, List.map_map]
      refine congrArg₂ _ (by ring) ?_
      apply List.map_congr_left
      intro a _
      simp only [Function.comp]
      ring
    rw [e, List.sum_map_mul_left]
    simp only [List.length_cons, List.length_map]
    rw [mul_div_assoc, Real.sqrt_mul (mul_self_nonneg k), Real.sqrt_mul_self hk, List.map_id']

/-! ### `rms ≤ abs` -/

theorem rms_le_abs (x : ℝ) (xs : List ℝ) : Peak.rms.sel x xs ≤ Peak.abs.sel x xs := by
  have hM : ∀ v ∈ x :: xs, |v| ≤ Peak.abs.sel x xs := fun v hv => absSel_ge x xs v hv
  have hM0 : 0 ≤ Peak.abs.sel x xs := le_trans (abs_nonneg x) (hM x (by simp))
  simp only [Peak.sel, sqrt_real, mean_real] at *
  set M := maxOf (absv x) (xs.map absv) with hMdef
  apply Real.sqrt_le_iff.mpr
  refine ⟨hM0, ?_⟩
  have hlen : (0 : ℝ) < (((x :: xs).map fun v => v * v).length : ℝ) := by
    simp only [List.length_map, List.length_cons]
    positivity
  rw [div_le_iff₀ hlen]
  have hb : ∀ w ∈ (x :: xs).map (fun v => v * v), w ≤ M ^ 2 := by
    intro w hw
    obtain ⟨v, hv, rfl⟩ := List.mem_map.mp hw
    have := hM v hv
    rw [← abs_mul_abs_self v, sq]
    exact mul_self_le_mul_self (abs_nonneg v) this
  have := List.sum_le_card_nsmul _ _ hb
  rw [nsmul_eq_mul] at this
  linarith [this]

/-! ### the string-`peak` pipeline is the callable-`peak` pipeline with `Peak.sel` -/

theorem srsTail_eq_G (o : Opts) (Q sr f s1 : ℝ) (freqs : List ℝ) (icv : Option ℝ) (sg : List ℝ) :
    srsTail o Q sr freqs f s1 icv sg
      = srsTailG o.peak.sel o.st o.ic o.time o.eqsine Q sr freqs f s1 icv sg := rfl

theorem srsCol_eq_G (o : Opts) (Q sr f : ℝ) (freqs sig : List ℝ) :
    srsCol o Q sr freqs f sig = srsColG o.peak.sel o.st o.ic o.time o.eqsine Q sr freqs f sig := by
  cases sig <;> rfl

end PyYetiVerif.Srs
