import PyYetiVerif.Model.CoordRbe3
import PyYetiVerif.Lemmas.Coord
import Mathlib.LinearAlgebra.Matrix.NonsingularInverse
import Mathlib.Algebra.BigOperators.Fin
import Mathlib.Algebra.Order.BigOperators.Ring.Finset
import Mathlib.Tactic.FinCases
import Mathlib.Data.List.Basic
/-!
Helper lemmas for the `formrbe3` part of C14: `Mx` = Mathlib `Matrix`, the normal-equations argument,
the `UM_List` re-partitions, and the 6x6 block form of `rbmove`.
-/
namespace PyYetiVerif.Coord
open Matrix

section field
variable {K : Type} [Field K]

/-- an `Mx` read as a Mathlib matrix (the identity function) -/
abbrev toM {n m : ℕ} (a : Mx K n m) : Matrix (Fin n) (Fin m) K := a

theorem fsum_eq_sum {n : ℕ} (f : Fin n → K) : fsum f = ∑ i, f i := by
  unfold fsum
  induction n with
  | zero => simp [Fin.foldl_zero]
  | succ n ih =>
    rw [Fin.foldl_succ_last, Fin.sum_univ_castSucc, ← ih]

omit [Field K] in
@[simp] theorem tab_mx {n m : ℕ} (a : Mx K n m) : (Mx.tab a).mx = a := by
  funext i j
  simp [Mx.tab, Tab.mx]

theorem Mx.mul_eq {n k m : ℕ} (a : Mx K n k) (b : Mx K k m) : Mx.mul a b = toM a * toM b := by
  funext i j
  simp [Mx.mul, fsum_eq_sum, Matrix.mul_apply]

theorem Mx.add_eq {n m : ℕ} (a b : Mx K n m) : Mx.add a b = toM a + toM b := rfl
theorem Mx.neg_eq {n m : ℕ} (a : Mx K n m) : Mx.neg a = - toM a := rfl
theorem Mx.zero_eq {n m : ℕ} : (Mx.zero : Mx K n m) = (0 : Matrix (Fin n) (Fin m) K) := rfl

theorem Mx.ident_eq {n : ℕ} : (Mx.ident : Mx K n n) = (1 : Matrix (Fin n) (Fin n) K) := by
  funext i j
  simp [Mx.ident, Matrix.one_apply, Fin.ext_iff]

theorem hstack_mul_vstack {n a b m : ℕ} (x : Mx K n a) (y : Mx K n b) (u : Mx K a m) (v : Mx K b m) :
    toM (Mx.hstack x y) * toM (Mx.vstack u v) = toM x * toM u + toM y * toM v := by
  funext i j
  simp only [Matrix.mul_apply, Matrix.add_apply, Fin.sum_univ_add, Mx.hstack, Mx.vstack]
  simp

theorem vstack_mul {a b k m : ℕ} (x : Mx K a k) (y : Mx K b k) (z : Mx K k m) :
    toM (Mx.vstack x y) * toM z = Mx.vstack (toM x * toM z) (toM y * toM z) := by
  funext i j
  simp only [Matrix.mul_apply, Mx.vstack]
  split <;> rfl

/-- `solve` returns a solution of `A X = B` whenever `A` is invertible (what `scipy.linalg.solve` is
for; the `Float` kernel's agreement with it is measured by the correspondence) -/
def ExactSolve (solve : Solver K) : Prop :=
  ∀ {n k : ℕ} (A : Tab K n n) (B : Tab K n k), IsUnit (toM A.mx).det →
    toM A.mx * toM (solve A B).mx = toM B.mx

theorem left_cancel_of_isUnit {n m : ℕ} {A : Matrix (Fin n) (Fin n) K} (hA : IsUnit A.det)
    {X Y : Matrix (Fin n) (Fin m) K} (h : A * X = A * Y) : X = Y := by
  have := congrArg (fun Z => A⁻¹ * Z) h
  simpa [← Matrix.mul_assoc, Matrix.nonsing_inv_mul A hA] using this

/-- the exact solver with `A⁻¹` (shows `ExactSolve` is inhabited) -/
noncomputable def invSolve {n k : ℕ} (A : Tab K n n) (B : Tab K n k) : Tab K n k :=
  Mx.tab fun i j => ((toM A.mx)⁻¹ * toM B.mx) i j

theorem invSolve_exact : ExactSolve (K := K) invSolve := by
  intro n k A B hA
  simp only [invSolve, tab_mx]
  show toM A.mx * ((toM A.mx)⁻¹ * toM B.mx) = toM B.mx
  rw [← Matrix.mul_assoc, Matrix.mul_nonsing_inv _ hA, Matrix.one_mul]

/-- the columns `im`, `inn` are a partition of the independent DOF -/
def IsPartition {c q ni : ℕ} (im : Fin c → Fin ni) (inn : Fin q → Fin ni) : Prop :=
  Function.Bijective (Sum.elim im inn)

theorem IsPartition.sum_split {c q ni : ℕ} {im : Fin c → Fin ni} {inn : Fin q → Fin ni}
    (h : IsPartition im inn) (f : Fin ni → K) : ∑ k, f k = ∑ j, f (im j) + ∑ j, f (inn j) := by
  rw [← Function.Bijective.sum_comp h f, Fintype.sum_sum_type]
  rfl

/-- the weaker form of `IsPartition` that the algebra needs: sums over the independent DOF split -/
def SumSplit (K : Type) [Field K] {c q ni : ℕ} (im : Fin c → Fin ni) (inn : Fin q → Fin ni) : Prop :=
  ∀ f : Fin ni → K, ∑ k, f k = ∑ j, f (im j) + ∑ j, f (inn j)

theorem IsPartition.sumSplit {c q ni : ℕ} {im : Fin c → Fin ni} {inn : Fin q → Fin ni}
    (h : IsPartition im inn) : SumSplit K im inn := fun f => h.sum_split f

/-- a product over the independent DOF splits over the partition -/
theorem SumSplit.mul_split {c q ni n s : ℕ} {im : Fin c → Fin ni} {inn : Fin q → Fin ni}
    (h : SumSplit K im inn) (R : Mx K n ni) (Z : Mx K ni s) :
    toM R * toM Z = toM (R.selCols im) * toM (Z.selRows im) + toM (R.selCols inn) * toM (Z.selRows inn) := by
  funext i j
  simp only [Matrix.mul_apply, Matrix.add_apply, Mx.selCols, Mx.selRows]
  exact h fun k => R i k * Z k j

theorem selRows_mul {n k m r : ℕ} (a : Mx K n k) (b : Mx K k m) (f : Fin r → Fin n) :
    toM (a.selRows f) * toM b = toM (Mx.selRows (toM a * toM b) f) := by
  funext i j
  simp only [Matrix.mul_apply, Mx.selRows]
  rfl

/-! ### the least-squares step -/

/-- `rbe3 · rb = T[dd]` as soon as the normal matrix `rbᵀ W rb` is invertible -/
theorem rbe3Alg_mul_rb {m nd : ℕ} (solve : Solver K)
    (hs : ExactSolve solve) (rb : Mx K m 6) (w : Fin m → K) (T : Mx K 6 6) (dd : Fin nd → Fin 6)
    (hA : IsUnit (toM (fun j i => rb i j * w i : Mx K 6 m) * toM rb).det) :
    toM (rbe3Alg solve rb w T dd).mx * toM rb = toM (T.selRows dd) := by
  set rbw : Mx K 6 m := fun j i => rb i j * w i with hrbw
  have hA' : IsUnit (toM (Mx.tab (Mx.mul rbw rb)).mx).det := by rw [tab_mx, Mx.mul_eq]; exact hA
  have hX := hs (Mx.tab (Mx.mul rbw rb)) (Mx.tab rbw) hA'
  simp only [tab_mx] at hX hA'
  have hXrb : toM (solve (Mx.tab (Mx.mul rbw rb)) (Mx.tab rbw)).mx * toM rb = 1 := by
    apply left_cancel_of_isUnit hA'
    rw [← Matrix.mul_assoc, hX, Matrix.mul_one, Mx.mul_eq]
  have hdef : (rbe3Alg solve rb w T dd).mx
      = Mx.selRows (Mx.mul T (solve (Mx.tab (Mx.mul rbw rb)) (Mx.tab rbw)).mx) dd := by
    simp only [rbe3Alg, tab_mx, hrbw]
  rw [hdef, selRows_mul, Mx.mul_eq, Matrix.mul_assoc, hXrb, Matrix.mul_one]

/-! ### `UM_List` -/

/-- m-set inside the independent set: the new matrix gives the m-set motion from the motion of the
dependent DOF and of the remaining independent DOF, whenever the old one gives the dependent motion
from the independent motion -/
theorem umIndep_spec' {nd ni q s : ℕ} (solve : Solver K)
    (hs : ExactSolve solve) (R : Mx K nd ni) (im : Fin nd → Fin ni) (inn : Fin q → Fin ni)
    (hp : SumSplit K im inn) (hRm : IsUnit (toM (R.selCols im)).det)
    (Zi : Mx K ni s) (Zd : Mx K nd s) (h : toM R * toM Zi = toM Zd) :
    toM (umIndep solve R im inn).mx * toM (Mx.vstack Zd (Zi.selRows inn)) = toM (Zi.selRows im) := by
  apply left_cancel_of_isUnit hRm
  have hRm' : IsUnit (toM (Mx.tab (R.selCols im)).mx).det := by rw [tab_mx]; exact hRm
  have hX := hs (Mx.tab (R.selCols im)) (Mx.tab (Mx.hstack Mx.ident (Mx.neg (R.selCols inn)))) hRm'
  simp only [tab_mx] at hX
  rw [umIndep, ← Matrix.mul_assoc, hX, hstack_mul_vstack, Mx.ident_eq, Mx.neg_eq]
  rw [hp.mul_split R Zi] at h
  rw [← h]
  rw [Matrix.one_mul, Matrix.neg_mul]
  abel

/-- mixed m-set: rows `dm` of the dependent DOF and columns `im` of the independent DOF become
dependent; `C = R[dn, im]` must be invertible -/
theorem umMixed_spec' {nd ni r c q s : ℕ} (solve : Solver K)
    (hs : ExactSolve solve) (R : Mx K nd ni) (dm : Fin r → Fin nd) (dn : Fin c → Fin nd)
    (im : Fin c → Fin ni) (inn : Fin q → Fin ni) (hp : SumSplit K im inn)
    (hC : IsUnit (toM ((R.selRows dn).selCols im)).det)
    (Zi : Mx K ni s) (Zd : Mx K nd s) (h : toM R * toM Zi = toM Zd) :
    toM (umMixed solve R dm dn im inn).mx * toM (Mx.vstack (Zd.selRows dn) (Zi.selRows inn))
      = toM (Mx.vstack (Zd.selRows dm) (Zi.selRows im)) := by
  set Z : Mx K (c + q) s := Mx.vstack (Zd.selRows dn) (Zi.selRows inn) with hZ
  set E := (solve (Mx.tab ((R.selRows dn).selCols im))
    (Mx.tab (Mx.hstack Mx.ident (Mx.neg ((R.selRows dn).selCols inn))))).mx with hE
  have hC' : IsUnit (toM (Mx.tab ((R.selRows dn).selCols im)).mx).det := by rw [tab_mx]; exact hC
  have hX := hs (Mx.tab ((R.selRows dn).selCols im))
    (Mx.tab (Mx.hstack Mx.ident (Mx.neg ((R.selRows dn).selCols inn)))) hC'
  simp only [tab_mx] at hX
  rw [← hE] at hX
  -- rows of the hypothesis
  have hrow : ∀ {t : ℕ} (f : Fin t → Fin nd), toM (Zd.selRows f)
      = toM ((R.selRows f).selCols im) * toM (Zi.selRows im)
        + toM ((R.selRows f).selCols inn) * toM (Zi.selRows inn) := by
    intro t f
    have h1 : toM (Zd.selRows f) = toM (R.selRows f) * toM Zi := by
      rw [selRows_mul, h]
    rw [h1, hp.mul_split (R.selRows f) Zi]
  -- E Z = Zi[im]
  have hEZ : toM E * toM Z = toM (Zi.selRows im) := by
    apply left_cancel_of_isUnit hC
    rw [← Matrix.mul_assoc, hX, hZ, hstack_mul_vstack, Mx.ident_eq, Mx.neg_eq, hrow dn]
    rw [Matrix.one_mul, Matrix.neg_mul]
    abel
  have hFZ : (toM ((R.selRows dm).selCols im) * toM E
        + toM (Mx.hstack (Mx.zero : Mx K r c) ((R.selRows dm).selCols inn))) * toM Z
      = toM (Zd.selRows dm) := by
    rw [Matrix.add_mul, Matrix.mul_assoc, hEZ, hZ, hstack_mul_vstack, Mx.zero_eq, hrow dm]
    rw [Matrix.zero_mul, zero_add]
  have hY : (umMixed solve R dm dn im inn).mx
      = Mx.vstack (Mx.add (Mx.mul ((R.selRows dm).selCols im) E)
          (Mx.hstack (Mx.zero : Mx K r c) ((R.selRows dm).selCols inn))) E := by
    simp only [umMixed, tab_mx, hE]
  rw [hY, vstack_mul, Mx.add_eq, Mx.mul_eq, hFZ, hEZ]

theorem umIndep_spec {nd ni q s : ℕ} (solve : Solver K)
    (hs : ExactSolve solve) (R : Mx K nd ni) (im : Fin nd → Fin ni) (inn : Fin q → Fin ni)
    (hp : IsPartition im inn) (hRm : IsUnit (toM (R.selCols im)).det)
    (Zi : Mx K ni s) (Zd : Mx K nd s) (h : toM R * toM Zi = toM Zd) :
    toM (umIndep solve R im inn).mx * toM (Mx.vstack Zd (Zi.selRows inn)) = toM (Zi.selRows im) :=
  umIndep_spec' solve hs R im inn hp.sumSplit hRm Zi Zd h

theorem umMixed_spec {nd ni r c q s : ℕ} (solve : Solver K)
    (hs : ExactSolve solve) (R : Mx K nd ni) (dm : Fin r → Fin nd) (dn : Fin c → Fin nd)
    (im : Fin c → Fin ni) (inn : Fin q → Fin ni) (hp : IsPartition im inn)
    (hC : IsUnit (toM ((R.selRows dn).selCols im)).det)
    (Zi : Mx K ni s) (Zd : Mx K nd s) (h : toM R * toM Zi = toM Zd) :
    toM (umMixed solve R dm dn im inn).mx * toM (Mx.vstack (Zd.selRows dn) (Zi.selRows inn))
      = toM (Mx.vstack (Zd.selRows dm) (Zi.selRows im)) :=
  umMixed_spec' solve hs R dm dn im inn hp.sumSplit hC Zi Zd h

end field

/-! ### the weighted normal matrix is invertible (ordered field: `ℝ`) -/

theorem normal_isUnit {m k : ℕ} (R : Matrix (Fin m) (Fin k) ℝ) (w : Fin m → ℝ) (hw : ∀ i, 0 < w i)
    (hR : Function.Injective R.mulVec) :
    IsUnit ((Matrix.of fun j i => R i j * w i : Matrix (Fin k) (Fin m) ℝ) * R).det := by
  rw [← Matrix.isUnit_iff_isUnit_det, ← Matrix.mulVec_injective_iff_isUnit]
  have hEq : (Matrix.of fun j i => R i j * w i : Matrix (Fin k) (Fin m) ℝ) = Rᵀ * Matrix.diagonal w := by
    ext j i; simp [Matrix.mul_diagonal]
  rw [hEq]
  suffices key : ∀ z, (Rᵀ * diagonal w * R) *ᵥ z = 0 → z = 0 by
    intro x y hxy
    exact sub_eq_zero.mp (key (x - y) (by rw [Matrix.mulVec_sub, hxy, sub_self]))
  intro z hz
  have h0 : (R *ᵥ z) ⬝ᵥ (diagonal w *ᵥ (R *ᵥ z)) = 0 := by
    have := congrArg (fun v => z ⬝ᵥ v) hz
    simp only [dotProduct_zero] at this
    rw [← this, Matrix.mul_assoc, ← Matrix.mulVec_mulVec, ← Matrix.mulVec_mulVec]
    rw [Matrix.dotProduct_mulVec z Rᵀ, Matrix.vecMul_transpose]
  have hsum : ∑ i, w i * (R *ᵥ z) i ^ 2 = 0 := by
    rw [← h0]; simp only [dotProduct, mulVec_diagonal]; apply Finset.sum_congr rfl; intro i _; ring
  have hRz : R *ᵥ z = 0 := by
    funext i
    have hi := (Finset.sum_eq_zero_iff_of_nonneg (fun i _ => by have := hw i; positivity)).mp hsum i
      (Finset.mem_univ i)
    have := (mul_eq_zero.mp hi).resolve_left (hw i).ne'
    simpa using this
  exact hR (by rw [hRz, Matrix.mulVec_zero])

/-! ### the rows of `rbgeom_uset` in 6x6 form, `formrbe3` on grids -/

theorem rowAt_mul_rigid (r : Rb ℝ) (d : V3 ℝ) (i : Fin 6) :
    (r.mul (rigid d)).rowAt i = rbmoveRow d (r.rowAt i) := by
  fin_cases i <;> (simp only [Rb.rowAt, rbmoveRow]; coord_ring)

theorem v6_rbmoveRow (d : V3 ℝ) (row : V3 ℝ × V3 ℝ) (j : Fin 6) :
    v6 (rbmoveRow d row) j = ∑ l, v6 row l * (rigid d).toMx l j := by
  rw [Fin.sum_univ_six]
  fin_cases j <;> simp [v6, rbmoveRow, Rb.toMx, Rb.rowAt, rigid, skewNeg, M3.vecMul, M3.one, M3.zero,
    V3.zero, V3.dot, V3.add, M3.col0, M3.col1, M3.col2]

/-- `rbmove` in 6x6 matrix form: right multiplication by `rbgeom(oldref - newref)` -/
theorem toMx_mul_rigid (r : Rb ℝ) (d : V3 ℝ) :
    toM (r.mul (rigid d)).toMx = toM r.toMx * toM (rigid d).toMx := by
  funext i j
  simp only [Rb.toMx, Matrix.mul_apply, rowAt_mul_rigid, v6_rbmoveRow]

/-- the six rows of a grid relative to `ref` are its rows relative to `base` moved by `rbmove` -/
theorem gridRowsMx_move (g : GridR ℝ) (base ref : V3 ℝ) :
    toM (gridRowsMx g ref) = toM (gridRowsMx g base) * toM (rigid (base.sub ref)).toMx := by
  unfold gridRowsMx
  split
  · rw [Mx.zero_eq]; exact (Matrix.zero_mul _).symm
  · rw [← toMx_mul_rigid, gridRb_mul_rigid]

theorem indRows_move {m : ℕ} (ind : Fin m → IndDof ℝ) (base ref : V3 ℝ) :
    toM (indRows ind ref) = toM (indRows ind base) * toM (rigid (base.sub ref)).toMx := by
  funext k j
  have := congrFun (congrFun (gridRowsMx_move (ind k).g base ref) (ind k).dof) j
  simpa [indRows, Matrix.mul_apply] using this

theorem effWt_pos (Lc : ℝ) (dof : Fin 6) {w : ℝ} (hw : 0 < w) : 0 < effWt Lc dof w := by
  unfold effWt
  split
  · rename_i h
    have hL : (0 : ℝ) < Lc := lt_trans (by simp [TransOps.tiny12]) h.2
    positivity
  · exact hw

/-- `formrbe3` reproduces the rigid-body modes relative to any reference point -/
theorem rbe3Grid_mul_indRows {m nd : ℕ} (solve : Solver ℝ)
    (hs : ExactSolve solve) (grids : List (GridR ℝ)) (dep : GridR ℝ) (dd : Fin nd → Fin 6)
    (ind : Fin m → IndDof ℝ) (hw : ∀ k, 0 < (ind k).w)
    (hrank : Function.Injective (toM (indRows ind dep.p)).mulVec) (ref : V3 ℝ) :
    toM (rbe3Grid solve grids dep dd ind).mx * toM (indRows ind ref)
      = toM ((gridRowsMx dep ref).selRows dd) := by
  have hA := normal_isUnit (toM (indRows ind dep.p))
    (fun k => effWt (charLen grids dep) (ind k).dof (ind k).w) (fun k => effWt_pos _ _ (hw k)) hrank
  have h0 := rbe3Alg_mul_rb solve hs (indRows ind dep.p)
    (fun k => effWt (charLen grids dep) (ind k).dof (ind k).w) (gridRowsMx dep dep.p) dd hA
  have hdef : rbe3Grid solve grids dep dd ind = rbe3Alg solve (indRows ind dep.p)
      (fun k => effWt (charLen grids dep) (ind k).dof (ind k).w) (gridRowsMx dep dep.p) dd := rfl
  rw [hdef, indRows_move ind dep.p ref, ← Matrix.mul_assoc, h0, selRows_mul, ← gridRowsMx_move]

/-! ### full column rank from three grids that are not on a line -/

/-- in every branch of `rbgeom_uset` the rows of a grid are `F · [I, -(p - ref)×; 0, I]` with an invertible
`F` that does not depend on the reference point -/
theorem gridRb_eq_lmul (co : CoordInfo ℝ) (p : V3 ℝ) (hT : IsFrame co.T) :
    ∃ F : M3 ℝ, F.det ≠ 0 ∧ ∀ ref, gridRb co p ref = Rb.lmul F (rigid (p.sub ref)) := by
  have dT : co.T.transpose.det ≠ 0 := hT.det_transpose_ne
  have dz : ∀ t : ℝ, (rotzT t).det = 1 := fun t => by
    rw [← det_transpose]; exact (rotzT_frame t).2
  have ds : ∀ t : ℝ, (sphT t).det = 1 := fun t => by
    rw [← det_transpose]; exact (sphT_frame t).2
  unfold gridRb
  cases co.typ <;> simp only [] <;> (try split_ifs) <;> (try simp only [lmul_lmul]) <;>
    exact ⟨_, by (first | exact dT | (simp only [det_mul, dz, ds, one_mul]; exact dT)), fun _ => rfl⟩

theorem mulVec_eq_zero_of_det_ne (F : M3 ℝ) (h : F.det ≠ 0) {v : V3 ℝ} (hv : F.mulVec v = V3.zero) :
    v = V3.zero := by
  have := congrArg F.inv.mulVec hv
  rw [mulVec_mulVec, inv_mul_self F h, one_mulVec] at this
  rw [this]; coord_ring

/-- `ω × a = 0`, `ω × b = 0` and `a × b ≠ 0` force `ω = 0` -/
theorem omega_zero (ω a b : V3 ℝ) (h1 : ω.cross a = V3.zero) (h2 : ω.cross b = V3.zero)
    (hn : a.cross b ≠ V3.zero) : ω = V3.zero := by
  have id : V3.smul ((a.cross b).dot (a.cross b)) ω
      = (V3.smul (-(a.dot (ω.cross b))) (a.cross b)).sub
          ((a.cross b).cross ((b.cross (ω.cross a)).sub (a.cross (ω.cross b)))) := by
    coord_simp; split_ands <;> ring
  rw [h1, h2] at id
  have hpos := dot_self_pos_of_ne hn
  have hz : V3.smul ((a.cross b).dot (a.cross b)) ω = V3.zero := by
    rw [id]; coord_simp; split_ands <;> ring
  simp only [V3.smul, V3.zero, V3.ext_iff] at hz
  obtain ⟨hx, hy, hz⟩ := hz
  ext
  · exact (mul_eq_zero.mp hx).resolve_left hpos.ne'
  · exact (mul_eq_zero.mp hy).resolve_left hpos.ne'
  · exact (mul_eq_zero.mp hz).resolve_left hpos.ne'

/-- a row of the 6x6 block times `z = (t, ω)` -/
theorem toMx_mulVec (r : Rb ℝ) (z : Fin 6 → ℝ) (i : Fin 6) :
    ∑ j, r.toMx i j * z j = v6 (r.apply ⟨z 0, z 1, z 2⟩ ⟨z 3, z 4, z 5⟩) i := by
  rw [Fin.sum_univ_six]
  fin_cases i <;> simp [Rb.toMx, Rb.rowAt, v6, Rb.apply, M3.mulVec, V3.add, V3.dot] <;> ring

/-- the translational rows of a grid applied to a rigid motion `z = (t, ω)` vanish only if
`t + ω × (p - ref) = 0` -/
theorem trans_rows_zero (g : GridR ℝ) (hq : g.q = false) (hT : IsFrame g.co.T) (ref : V3 ℝ)
    (z : Fin 6 → ℝ)
    (h : ∀ c : Fin 6, c.val < 3 → ∑ j, gridRowsMx g ref c j * z j = 0) :
    (V3.mk (z 0) (z 1) (z 2)).add ((V3.mk (z 3) (z 4) (z 5)).cross (g.p.sub ref)) = V3.zero := by
  obtain ⟨F, hF, hrb⟩ := gridRb_eq_lmul g.co g.p hT
  apply mulVec_eq_zero_of_det_ne F hF
  have h0 := h 0 (by decide)
  have h1 := h 1 (by decide)
  have h2 := h 2 (by decide)
  simp only [gridRowsMx, hq, Bool.false_eq_true, if_false, hrb ref, toMx_mulVec, lmul_rigid_apply] at h0 h1 h2
  simp only [v6] at h0 h1 h2
  ext
  · exact h0
  · exact h1
  · exact h2

/-- translations of three grids that are not on a line determine the rigid motion: the independent rows
have full column rank -/
theorem indRows_fullrank_of_three {m : ℕ} (ind : Fin m → IndDof ℝ) (ref : V3 ℝ) (g1 g2 g3 : GridR ℝ)
    (hq : g1.q = false ∧ g2.q = false ∧ g3.q = false)
    (hT : IsFrame g1.co.T ∧ IsFrame g2.co.T ∧ IsFrame g3.co.T)
    (hnc : NonCollinear g1.p g2.p g3.p)
    (hcov : ∀ g, g = g1 ∨ g = g2 ∨ g = g3 → ∀ c : Fin 6, c.val < 3 → ∃ k, (ind k).g = g ∧ (ind k).dof = c) :
    Function.Injective (toM (indRows ind ref)).mulVec := by
  suffices key : ∀ z : Fin 6 → ℝ, (toM (indRows ind ref)).mulVec z = 0 → z = 0 by
    intro x y hxy
    exact sub_eq_zero.mp (key (x - y) (by rw [Matrix.mulVec_sub, hxy, sub_self]))
  intro z hz
  have rows : ∀ g, g = g1 ∨ g = g2 ∨ g = g3 → ∀ c : Fin 6, c.val < 3 →
      ∑ j, gridRowsMx g ref c j * z j = 0 := by
    intro g hg c hc
    obtain ⟨k, hk, hd⟩ := hcov g hg c hc
    have := congrFun hz k
    simp only [Matrix.mulVec, dotProduct, indRows, hk, hd] at this
    exact this
  have e1 := trans_rows_zero g1 hq.1 hT.1 ref z (rows g1 (Or.inl rfl))
  have e2 := trans_rows_zero g2 hq.2.1 hT.2.1 ref z (rows g2 (Or.inr (Or.inl rfl)))
  have e3 := trans_rows_zero g3 hq.2.2 hT.2.2 ref z (rows g3 (Or.inr (Or.inr rfl)))
  set t : V3 ℝ := ⟨z 0, z 1, z 2⟩ with ht
  set ω : V3 ℝ := ⟨z 3, z 4, z 5⟩ with hω
  have hω0 : ω = V3.zero := by
    apply omega_zero ω (g2.p.sub g1.p) (g3.p.sub g1.p) _ _ hnc
    · have : ω.cross (g2.p.sub g1.p)
          = (t.add (ω.cross (g2.p.sub ref))).sub (t.add (ω.cross (g1.p.sub ref))) := by coord_ring
      rw [this, e1, e2]; coord_ring
    · have : ω.cross (g3.p.sub g1.p)
          = (t.add (ω.cross (g3.p.sub ref))).sub (t.add (ω.cross (g1.p.sub ref))) := by coord_ring
      rw [this, e1, e3]; coord_ring
  have ht0 : t = V3.zero := by
    have : t = (t.add (ω.cross (g1.p.sub ref))).sub (ω.cross (g1.p.sub ref)) := by coord_ring
    rw [this, e1, hω0]; coord_ring
  simp only [ht, hω, V3.zero, V3.ext_iff] at ht0 hω0
  funext j
  fin_cases j <;> simp [ht0.1, ht0.2.1, ht0.2.2, hω0.1, hω0.2.1, hω0.2.2]

/-! ### a full-rank instance -/

/-- three grids (not on a line) in the basic system -/
def exPt : Nat → V3 ℝ
  | 0 => ⟨1, 0, 0⟩
  | 1 => ⟨0, 1, 0⟩
  | _ => ⟨-1, 0, 0⟩

/-- their nine translational DOF with unit weights -/
def exInd : Fin 9 → IndDof ℝ := fun k =>
  ⟨⟨false, exPt (k.val / 3), basic⟩, ⟨k.val % 3, Nat.lt_of_lt_of_le (Nat.mod_lt _ (by decide)) (by decide)⟩, 1⟩

theorem exInd_fullrank : Function.Injective (toM (indRows exInd V3.zero)).mulVec := by
  intro x y h
  have e : ∀ k : Fin 9, ∑ j, indRows exInd V3.zero k j * x j = ∑ j, indRows exInd V3.zero k j * y j :=
    fun k => congrFun h k
  have e0 := e 0; have e1 := e 1; have e2 := e 2; have e3 := e 3; have e4 := e 4; have e5 := e 5
  have e8 := e 8
  simp [Fin.sum_univ_six, indRows, exInd, exPt, gridRowsMx, gridRb, basic, Rb.toMx, Rb.rowAt, v6,
    Rb.lmul, rigid, skewNeg, M3.mul, M3.vecMul, M3.transpose, M3.one, M3.zero, V3.zero, V3.dot, V3.sub,
    M3.col0, M3.col1, M3.col2] at e0 e1 e2 e3 e4 e5 e8
  funext j
  fin_cases j <;> simp <;> linarith

/-! ### the DOF bookkeeping of `UM_List` -/

theorem mem_positions {hay needles : List Nat} {i : Nat} :
    i ∈ positions hay needles ↔ ∃ k ∈ needles, hay.idxOf? k = some i := by
  simp only [positions, List.mem_filterMap]

/-- `mat_intersect(hay, needles)` is empty exactly when no needle occurs in `hay` -/
theorem positions_isEmpty {hay needles : List Nat} :
    (positions hay needles).isEmpty = true ↔ ∀ k ∈ needles, k ∉ hay := by
  rw [List.isEmpty_iff]
  constructor
  · intro h k hk hh
    obtain ⟨i, hi⟩ := Option.isSome_iff_exists.mp (List.isSome_idxOf?.mpr hh)
    have : i ∈ positions hay needles := mem_positions.mpr ⟨k, hk, hi⟩
    rw [h] at this; cases this
  · intro h
    apply List.eq_nil_iff_forall_not_mem.mpr
    intro i hi
    obtain ⟨k, hk, hki⟩ := mem_positions.mp hi
    exact h k hk (List.isSome_idxOf?.mp (by rw [hki]; rfl))

/-- which branch `formrbe3` takes for a `UM_List`, and what the index lists of that branch are -/
theorem umPlan_spec {ddof idof mdof : List Nat} {nuset : Nat} {p : UmPlan}
    (h : umPlan ddof idof mdof nuset = some p) :
    (p.branch = .indep ↔ ∀ k ∈ mdof, k ∉ ddof) ∧
    (p.branch = .dep ↔ (∃ k ∈ mdof, k ∈ ddof) ∧ ∀ k ∈ mdof, k ∉ idof) ∧
    (p.branch = .mixed ↔ (∃ k ∈ mdof, k ∈ ddof) ∧ ∃ k ∈ mdof, k ∈ idof) := by
  unfold umPlan at h
  simp only [] at h
  by_cases hd : (positions ddof mdof).isEmpty = true
  · have hd' := positions_isEmpty.mp hd
    simp only [hd, if_true] at h
    split at h
    · simp only [Option.some.injEq] at h; subst h
      refine ⟨⟨fun _ => hd', fun _ => rfl⟩, ⟨fun hb => (by cases hb), fun hb => ?_⟩, ⟨fun hb => (by cases hb), fun hb => ?_⟩⟩
      · obtain ⟨⟨k, hk, hkd⟩, _⟩ := hb; exact absurd hkd (hd' k hk)
      · obtain ⟨⟨k, hk, hkd⟩, _⟩ := hb; exact absurd hkd (hd' k hk)
    · cases h
  · have hd' : ∃ k ∈ mdof, k ∈ ddof := by
      by_contra hc
      exact hd (positions_isEmpty.mpr (by intro k hk hkd; exact hc ⟨k, hk, hkd⟩))
    have hnot : ¬ ∀ k ∈ mdof, k ∉ ddof := by
      intro hc; obtain ⟨k, hk, hkd⟩ := hd'; exact hc k hk hkd
    simp only [hd, Bool.false_eq_true, if_false] at h
    by_cases hi : (positions idof mdof).isEmpty = true
    · have hi' := positions_isEmpty.mp hi
      simp only [hi, if_true, Option.some.injEq] at h; subst h
      refine ⟨⟨fun hb => (by cases hb), fun hb => absurd hb hnot⟩, ⟨fun _ => ⟨hd', hi'⟩, fun _ => rfl⟩,
        ⟨fun hb => (by cases hb), fun hb => ?_⟩⟩
      obtain ⟨_, k, hk, hki⟩ := hb; exact absurd hki (hi' k hk)
    · have hi' : ∃ k ∈ mdof, k ∈ idof := by
        by_contra hc
        exact hi (positions_isEmpty.mpr (by intro k hk hkd; exact hc ⟨k, hk, hkd⟩))
      simp only [hi, Bool.false_eq_true, if_false, Option.some.injEq] at h; subst h
      refine ⟨⟨fun hb => (by cases hb), fun hb => absurd hb hnot⟩, ⟨fun hb => (by cases hb), fun hb => ?_⟩,
        ⟨fun _ => ⟨hd', hi'⟩, fun _ => rfl⟩⟩
      obtain ⟨_, hall⟩ := hb; obtain ⟨k, hk, hki⟩ := hi'; exact absurd hki (hall k hk)

/-- the branch "m-set inside the independent set" is taken exactly when no m-set DOF is a dependent DOF;
all m-set DOF are then independent DOF (else the code raises) -/
theorem umPlan_indep {ddof idof mdof : List Nat} {nuset : Nat} {p : UmPlan}
    (h : umPlan ddof idof mdof nuset = some p) (hb : p.branch = .indep) :
    (∀ k ∈ mdof, k ∉ ddof ∧ k ∈ idof) ∧ p.im = positions idof mdof
      ∧ p.inn = complIdx (positions idof mdof) idof.length := by
  have hnd := (umPlan_spec h).1.mp hb
  unfold umPlan at h
  simp only [] at h
  split at h
  · split at h
    · rename_i hall
      simp only [Option.some.injEq] at h
      subst h
      refine ⟨fun k hk => ⟨hnd k hk, ?_⟩, rfl, rfl⟩
      have := List.all_eq_true.mp hall k hk
      simpa using this
    · cases h
  · split at h <;> (simp only [Option.some.injEq] at h; subst h; cases hb)

/-- the branch "m-set = dependent DOF" is taken exactly when no m-set DOF is an independent DOF -/
theorem umPlan_dep {ddof idof mdof : List Nat} {nuset : Nat} {p : UmPlan}
    (h : umPlan ddof idof mdof nuset = some p) (hb : p.branch = .dep) :
    (∀ k ∈ mdof, k ∉ idof) ∧ p.dm = positions ddof mdof := by
  have hni := ((umPlan_spec h).2.1.mp hb).2
  unfold umPlan at h
  simp only [] at h
  split at h
  · split at h
    · simp only [Option.some.injEq] at h; subst h; cases hb
    · cases h
  · split at h
    · simp only [Option.some.injEq] at h; subst h; exact ⟨hni, rfl⟩
    · simp only [Option.some.injEq] at h; subst h; cases hb

end PyYetiVerif.Coord
