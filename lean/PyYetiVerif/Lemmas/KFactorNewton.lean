import Mathlib.Algebra.Order.Field.Basic
import Mathlib.Algebra.Order.Archimedean.Basic
import Mathlib.Logic.Function.Iterate
import Mathlib.Tactic.Ring
import Mathlib.Tactic.Linarith
import Mathlib.Tactic.FieldSimp
import Mathlib.Algebra.Order.BigOperators.Group.Finset
/-!
Newton's method on an increasing concave function, in any linearly ordered field (no analysis): with

* `d x > 0` on the domain `x ≥ a`                                  (the slope used by the step),
* `g y ≤ g x + d x (y - x)` for `x, y ≥ a`                          (the graph lies below its tangents),
* a root `ρ ≥ a`,

the step `N x = x - g x / d x` never overshoots to the right of the root (`N x ≤ ρ` from ANY `x ≥ a`), and
from a point `x ≤ ρ` it moves right: so from the first iterate on the sequence is nondecreasing and
bounded by `ρ`.  In an Archimedean field a nondecreasing sequence bounded above has arbitrarily small
increments, so the stopping test `|x_{k+1} - x_k| ≤ tol` is reached for every `tol > 0`.

This is the shape of `_getr`'s iteration function `g(R) = Φ(1/√n + R) − Φ(1/√n − R) − prob` on `R ≥ 0`
(`g' > 0`, `g'' ≤ 0` there because `1/√n ≤ 1/√2`; C20, `newton_monotone_convex`).
-/
namespace PyYetiVerif.KFactor.Newton

variable {α : Type} [Field α] [LinearOrder α] [IsStrictOrderedRing α]

/-- hypotheses on the residual `g` and the slope `d` used by the Newton step, on the domain `x ≥ a` -/
structure Concave (g d : α → α) (a : α) : Prop where
  slope_pos : ∀ x, a ≤ x → 0 < d x
  tangent : ∀ x y, a ≤ x → a ≤ y → g y ≤ g x + d x * (y - x)

/-- the Newton step -/
def step (g d : α → α) (x : α) : α := x - g x / d x

variable {g d : α → α} {a ρ : α}

/-- no overshoot: from any point of the domain the step lands at or left of the root -/
theorem step_le_root (H : Concave g d a) (hρ : a ≤ ρ) (h0 : g ρ = 0) {x : α} (hx : a ≤ x) :
    step g d x ≤ ρ := by
  have hd := H.slope_pos x hx
  have ht := H.tangent x ρ hx hρ
  rw [h0] at ht
  unfold step
  have : -(g x / d x) ≤ ρ - x := by
    rw [neg_le_iff_add_nonneg, ← sub_nonneg]
    have h2 : 0 ≤ (g x + d x * (ρ - x)) / d x := div_nonneg ht hd.le
    have h3 : (g x + d x * (ρ - x)) / d x = ρ - x + g x / d x - 0 := by field_simp; ring
    rw [h3] at h2
    exact h2
  linarith

/-- left of the root the residual is `≤ 0` … -/
theorem residual_nonpos (H : Concave g d a) (hρ : a ≤ ρ) (h0 : g ρ = 0) {x : α} (hx : a ≤ x)
    (hxρ : x ≤ ρ) : g x ≤ 0 := by
  have ht := H.tangent ρ x hρ hx
  rw [h0] at ht
  have : d ρ * (x - ρ) ≤ 0 := mul_nonpos_of_nonneg_of_nonpos (H.slope_pos ρ hρ).le (by linarith)
  linarith

/-- … so the step moves to the right -/
theorem le_step (H : Concave g d a) (hρ : a ≤ ρ) (h0 : g ρ = 0) {x : α} (hx : a ≤ x) (hxρ : x ≤ ρ) :
    x ≤ step g d x := by
  have hg := residual_nonpos H hρ h0 hx hxρ
  have hd := H.slope_pos x hx
  unfold step
  have : g x / d x ≤ 0 := div_nonpos_of_nonpos_of_nonneg hg hd.le
  linarith

/-- from a point of the domain left of the root, all iterates stay in `[x, ρ]` and increase -/
theorem iterate_mono (H : Concave g d a) (hρ : a ≤ ρ) (h0 : g ρ = 0) {x : α} (hx : a ≤ x)
    (hxρ : x ≤ ρ) (k : ℕ) :
    a ≤ (step g d)^[k] x ∧ (step g d)^[k] x ≤ ρ ∧ (step g d)^[k] x ≤ (step g d)^[k + 1] x := by
  induction k with
  | zero =>
    exact ⟨hx, hxρ, by simpa using le_step H hρ h0 hx hxρ⟩
  | succ k ih =>
    obtain ⟨i1, i2, i3⟩ := ih
    have e : (step g d)^[k + 1] x = step g d ((step g d)^[k] x) :=
      Function.iterate_succ_apply' _ _ _
    have j1 : a ≤ (step g d)^[k + 1] x := i1.trans i3
    have j2 : (step g d)^[k + 1] x ≤ ρ := by rw [e]; exact step_le_root H hρ h0 i1
    refine ⟨j1, j2, ?_⟩
    rw [Function.iterate_succ_apply' _ (k + 1)]
    exact le_step H hρ h0 j1 j2

theorem iterate_le_of_le (H : Concave g d a) (hρ : a ≤ ρ) (h0 : g ρ = 0) {x : α} (hx : a ≤ x)
    (hxρ : x ≤ ρ) {k k' : ℕ} (hk : k ≤ k') : (step g d)^[k] x ≤ (step g d)^[k'] x := by
  induction hk with
  | refl => exact le_rfl
  | step _ ih => exact ih.trans (iterate_mono H hρ h0 hx hxρ _).2.2

/-- a nondecreasing sequence bounded above has an increment `≤ tol` (Archimedean field) -/
theorem exists_small_step [Archimedean α] (H : Concave g d a) (hρ : a ≤ ρ) (h0 : g ρ = 0) {x : α}
    (hx : a ≤ x) (hxρ : x ≤ ρ) {tol : α} (htol : 0 < tol) :
    ∃ k, (step g d)^[k + 1] x - (step g d)^[k] x ≤ tol := by
  by_contra hne
  have hbig : ∀ k, tol < (step g d)^[k + 1] x - (step g d)^[k] x := fun k =>
    not_le.1 fun h => hne ⟨k, h⟩
  have hlin : ∀ m : ℕ, x + m * tol ≤ (step g d)^[m] x := by
    intro m
    induction m with
    | zero => simp
    | succ m ih =>
      have := hbig m
      push_cast
      linarith
  obtain ⟨m, hm⟩ := Archimedean.arch (ρ - x + tol) htol
  have h1 := hlin m
  have h2 := (iterate_mono H hρ h0 hx hxρ m).2.1
  rw [nsmul_eq_mul] at hm
  linarith


/-- a nondecreasing sequence bounded above has an increment `≤ tol` (Archimedean field) -/
theorem exists_small_increment [Archimedean α] (s : ℕ → α) (B : α) (hmono : ∀ k, s k ≤ s (k + 1))
    (hb : ∀ k, s k ≤ B) {tol : α} (htol : 0 < tol) : ∃ k, s (k + 1) - s k ≤ tol := by
  by_contra hne
  have hbig : ∀ k, tol < s (k + 1) - s k := fun k => not_le.1 fun h => hne ⟨k, h⟩
  have hlin : ∀ m : ℕ, s 0 + m * tol ≤ s m := by
    intro m
    induction m with
    | zero => simp
    | succ m ih =>
      have := hbig m
      push_cast
      linarith
  obtain ⟨m, hm⟩ := Archimedean.arch (B - s 0 + tol) htol
  have h1 := hlin m
  have h2 := hb m
  rw [nsmul_eq_mul] at hm
  linarith

/-- finitely many nondecreasing bounded sequences have a common index at which ALL increments are `≤ tol`
(the vectorised stopping test `not np.any(abs(r - rold) > tol)`) -/
theorem exists_small_increment_all [Archimedean α] {ι : Type} (J : Finset ι) (x : ι → ℕ → α) (B : ι → α)
    (hmono : ∀ j ∈ J, ∀ k, x j k ≤ x j (k + 1)) (hb : ∀ j ∈ J, ∀ k, x j k ≤ B j) {tol : α}
    (htol : 0 < tol) : ∃ k, ∀ j ∈ J, x j (k + 1) - x j k ≤ tol := by
  obtain ⟨k, hk⟩ := exists_small_increment (fun k => ∑ j ∈ J, x j k) (∑ j ∈ J, B j)
    (fun k => Finset.sum_le_sum fun j hj => hmono j hj k)
    (fun k => Finset.sum_le_sum fun j hj => hb j hj k) htol
  refine ⟨k, fun j hj => ?_⟩
  have hsum : ∑ i ∈ J, (x i (k + 1) - x i k) ≤ tol := by
    rw [Finset.sum_sub_distrib]; exact hk
  exact (Finset.single_le_sum (f := fun i => x i (k + 1) - x i k)
    (fun i hi => sub_nonneg.2 (hmono i hi k)) hj).trans hsum

end PyYetiVerif.KFactor.Newton
