import PyYetiVerif.Lemmas.RigidBody
import PyYetiVerif.Model.RigidBodyGuyan
import PyYetiVerif.Lemmas.Coord
import Mathlib.Tactic.IntervalCases
import Mathlib.Algebra.BigOperators.Fin
import Mathlib.Algebra.BigOperators.Ring.Finset
/-! Helper lemmas for the C06 extension: `sumN` as a `Finset` sum, `idxIn` on duplicate-free lists,
`idxWhere`, Python's `max`, rows of a rotation, one grid's contribution to a resultant. -/
set_option linter.unusedVariables false
set_option linter.unusedSimpArgs false
set_option linter.unusedSectionVars false
namespace PyYetiVerif.RigidBody

section sums
variable {K : Type} [CommRing K]

theorem sumN_eq_sum (n : Nat) (f : Nat → K) : sumN n f = ∑ i ∈ Finset.range n, f i := by
  induction n with
  | zero => simp [sumN]
  | succ n ih => simp [sumN, Finset.sum_range_succ, ih]

theorem sumN_eq_sum_fin (n : Nat) (f : Nat → K) : sumN n f = ∑ i : Fin n, f i := by
  rw [sumN_eq_sum, Finset.sum_range]

theorem sumN_congr {n : Nat} {f g : Nat → K} (h : ∀ i, i < n → f i = g i) : sumN n f = sumN n g := by
  rw [sumN_eq_sum, sumN_eq_sum]
  exact Finset.sum_congr rfl fun i hi => h i (Finset.mem_range.1 hi)

theorem sumN_add (n : Nat) (f g : Nat → K) : sumN n (fun i => f i + g i) = sumN n f + sumN n g := by
  simp only [sumN_eq_sum, Finset.sum_add_distrib]

theorem sumN_mul_left (n : Nat) (c : K) (f : Nat → K) : sumN n (fun i => c * f i) = c * sumN n f := by
  simp only [sumN_eq_sum, Finset.mul_sum]

theorem sumN_mul_right (n : Nat) (c : K) (f : Nat → K) : sumN n (fun i => f i * c) = sumN n f * c := by
  simp only [sumN_eq_sum, Finset.sum_mul]

theorem sumN_zero (n : Nat) : sumN n (fun _ => (0 : K)) = 0 := by
  simp [sumN_eq_sum]

/-- `Σ_k a_k · (Σ_j b_kj) = Σ_j Σ_k a_k b_kj` -/
theorem sumN_swap (n m : Nat) (f : Nat → Nat → K) :
    sumN n (fun k => sumN m fun j => f k j) = sumN m (fun j => sumN n fun k => f k j) := by
  simp only [sumN_eq_sum]
  exact Finset.sum_comm

/-- the last grid's six rows split off a sum over `6 (ng+1)` rows -/
theorem sumN_six_succ (ng : Nat) (f : Nat → K) :
    sumN (6 * (ng + 1)) f = sumN (6 * ng) f + (f (6 * ng) + f (6 * ng + 1) + f (6 * ng + 2)
      + f (6 * ng + 3) + f (6 * ng + 4) + f (6 * ng + 5)) := by
  have : 6 * (ng + 1) = 6 * ng + 1 + 1 + 1 + 1 + 1 + 1 := by ring
  rw [this]
  simp only [sumN]
  ring

end sums

/-! ### lists -/

theorem idxIn_of_not_mem {l : List Nat} {x : Nat} (h : x ∉ l) : idxIn l x = none := by
  induction l with
  | nil => rfl
  | cons a t ih =>
    have ha : a ≠ x := fun e => h (by simp [e])
    have ht : x ∉ t := fun e => h (List.mem_cons_of_mem _ e)
    simp [idxIn, ha, ih ht]

theorem idxIn_getElem {l : List Nat} (h : l.Nodup) {a : Nat} (ha : a < l.length) :
    idxIn l l[a] = some a := by
  induction l generalizing a with
  | nil => simp at ha
  | cons x t ih =>
    rcases List.nodup_cons.1 h with ⟨hx, ht⟩
    cases a with
    | zero => simp [idxIn]
    | succ a =>
      have ha' : a < t.length := by simpa using ha
      have hne : x ≠ t[a] := fun e => hx (e ▸ List.getElem_mem ha')
      simp [idxIn, hne, ih ht ha']

theorem idxIn_some_lt {l : List Nat} {x k : Nat} (h : idxIn l x = some k) :
    ∃ hk : k < l.length, l[k] = x := by
  induction l generalizing k with
  | nil => simp [idxIn] at h
  | cons a t ih =>
    simp only [idxIn] at h
    split_ifs at h with hax
    · cases h; exact ⟨by simp, by simp [hax]⟩
    · cases hi : idxIn t x with
      | none => simp [hi] at h
      | some j =>
        simp [hi] at h
        obtain ⟨hj, hjx⟩ := ih hi
        subst h
        exact ⟨by simpa using hj, by simpa using hjx⟩

theorem mem_whereTrue {n : Nat} {p : Nat → Bool} {x : Nat} : x ∈ whereTrue n p ↔ x < n ∧ p x = true := by
  simp [whereTrue]

theorem whereTrue_nodup (n : Nat) (p : Nat → Bool) : (whereTrue n p).Nodup :=
  List.Nodup.filter _ List.nodup_range

theorem mem_idxWhere {l : List Bool} {i x : Nat} :
    x ∈ idxWhere l i ↔ ∃ t, ∃ h : t < l.length, x = i + t ∧ l[t] = true := by
  induction l generalizing i with
  | nil => simp [idxWhere]
  | cons b t ih =>
    simp only [idxWhere]
    constructor
    · intro hx
      by_cases hb : b = true
      · simp only [hb, if_true, List.mem_cons] at hx
        rcases hx with rfl | hx
        · exact ⟨0, by simp, by simp, by simp [hb]⟩
        · obtain ⟨s, hs, rfl, hl⟩ := ih.1 hx
          exact ⟨s + 1, by simpa using hs, by omega, by simpa using hl⟩
      · simp only [hb, if_false] at hx
        obtain ⟨s, hs, rfl, hl⟩ := ih.1 hx
        exact ⟨s + 1, by simpa using hs, by omega, by simpa using hl⟩
    · rintro ⟨s, hs, rfl, hl⟩
      cases s with
      | zero =>
        have hb : b = true := by simpa using hl
        simp [hb]
      | succ s =>
        have hs' : s < t.length := by simpa using hs
        have hl' : t[s] = true := by simpa using hl
        have hmem : i + (s + 1) ∈ idxWhere t (i + 1) := ih.2 ⟨s, hs', by omega, hl'⟩
        by_cases hb : b = true
        · simp only [hb, if_true, List.mem_cons]; exact Or.inr hmem
        · simp only [hb, if_false]; exact hmem


/-! ### Python's `max`, rotations, resultants (used by Props/C06c.lean) -/

section more
open PyYetiVerif.Coord

theorem pyMax_zero : pyMax (0 : ℝ) 0 = 0 := by simp [pyMax]

theorem pyMax_nonneg {a b : ℝ} (ha : 0 ≤ a) (hb : 0 ≤ b) : 0 ≤ pyMax a b := by
  unfold pyMax; split_ifs <;> assumption

/-- a rotation maps `r1 × r2` to `r0` etc.: for `IsFrame Fᵀ` (rows of `F` orthonormal, `det = 1`) the rows satisfy
`r0 = r1 × r2`, `r1 = r2 × r0`, `r2 = r0 × r1` -/
theorem frame_rows_cross (F : M3 ℝ) (h : IsFrame F.transpose) :
    F.r1.cross F.r2 = F.r0 ∧ F.r2.cross F.r0 = F.r1 ∧ F.r0.cross F.r1 = F.r2 := by
  have hdet : F.det = 1 := by rw [← det_transpose]; exact h.2
  have hdet0 : F.det ≠ 0 := by rw [hdet]; exact one_ne_zero
  -- `Fᵀ` is the inverse of `F`: `F.inv = F.inv (F Fᵀ) = Fᵀ`
  have h1 : F.mul F.transpose = M3.one := by
    have := h.1; rwa [transpose_transpose] at this
  have hinv : F.inv = F.transpose := by
    have := congrArg (fun X => F.inv.mul X) h1
    simp only [← mul_assoc3, inv_mul_self F hdet0, one_mul3, mul_one3] at this
    exact this.symm
  simp only [M3.inv, hdet] at hinv
  have e := M3.ext_iff.1 hinv
  simp only [M3.ofCols, M3.transpose, M3.col0, M3.col1, M3.col2, V3.sdiv, V3.ext_iff, div_one] at e
  obtain ⟨⟨a0, a1, a2⟩, ⟨b0, b1, b2⟩, ⟨c0, c1, c2⟩⟩ := e
  refine ⟨?_, ?_, ?_⟩ <;> ext <;> simp_all

end more

section net
variable {K : Type} [CommRing K]

theorem rbgeom_row (p : Nat → V3 K) (r : V3 K) (g a j : Nat) (ha : a < 6) :
    rbgeom p r (6 * g + a) j = rbBlock (p g) r a j := by
  unfold rbgeom
  have h1 : (6 * g + a) / 6 = g := by omega
  have h2 : (6 * g + a) % 6 = a := by omega
  rw [h1, h2]

/-- a sum over `6 ng` rows, grid by grid -/
theorem sumN_six_blocks (ng : Nat) (f : Nat → K) :
    sumN (6 * ng) f = sumN ng fun g => f (6 * g) + f (6 * g + 1) + f (6 * g + 2) + f (6 * g + 3)
      + f (6 * g + 4) + f (6 * g + 5) := by
  induction ng with
  | zero => simp [sumN]
  | succ n ih => rw [sumN_six_succ, ih]; simp [sumN]

/-- one grid: the six rows of `rbgeom` applied (transposed) to the grid's force/moment give the
force and the moment moved to the reference point -/
theorem rbBlock_resultant (p r : V3 K) (f0 f1 f2 f3 f4 f5 : K) (j : Nat) (hj : j < 6) :
    rbBlock p r 0 j * f0 + rbBlock p r 1 j * f1 + rbBlock p r 2 j * f2 + rbBlock p r 3 j * f3
        + rbBlock p r 4 j * f4 + rbBlock p r 5 j * f5
      = pick6 j f0 f1 f2
          (f3 + ((p.y - r.y) * f2 - (p.z - r.z) * f1))
          (f4 + ((p.z - r.z) * f0 - (p.x - r.x) * f2))
          (f5 + ((p.x - r.x) * f1 - (p.y - r.y) * f0)) := by
  interval_cases j <;> simp [rbBlock, pick6] <;> ring

end net

end PyYetiVerif.RigidBody
