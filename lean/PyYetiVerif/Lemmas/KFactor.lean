import PyYetiVerif.Model.KFactor
import Mathlib.Algebra.Order.Field.Basic
import Mathlib.Order.Monotone.Basic
import Mathlib.Order.Interval.Set.Basic
import Mathlib.Tactic.Ring
import Mathlib.Tactic.Linarith
import Mathlib.Tactic.FieldSimp
/-!
The *specification* of the library kernels that `ksingle`/`kdouble` are proved from, and the
lemmas that only need that specification.  Nothing here is an axiom: `Spec` is a hypothesis of
every theorem that uses it (Props/C20.lean), and it is inhabited (see the `example` there).

`nctCdf df nc x` is the cdf of the non-central t distribution, `chi2Cdf df x` of the chi-square
distribution; they do not occur in the code (only their inverses do) and are the vocabulary in
which the defining probability statements are written.
-/
set_option linter.unusedSectionVars false
namespace PyYetiVerif.KFactor

variable {α : Type} [Field α] [LinearOrder α] [IsStrictOrderedRing α]

/-- "strictly increasing cdf, ppf its inverse on (0, 1)", plus the stochastic ordering of the
non-central t family in its non-centrality parameter. -/
structure Spec (o : Ops α) (nctCdf : α → α → α → α) (chi2Cdf : α → α → α) : Prop where
  sqrt_pos : ∀ x, 0 < x → 0 < o.sqrt x
  sqrt_mul_self : ∀ x, 0 ≤ x → o.sqrt x * o.sqrt x = x
  exp_pos : ∀ x, 0 < o.exp x
  spi_pos : 0 < o.spi
  normCdf_strictMono : StrictMono o.normCdf
  normCdf_ppf : ∀ p, 0 < p → p < 1 → o.normCdf (o.normPpf p) = p
  nctCdf_strictMono : ∀ df nc, StrictMono (nctCdf df nc)
  nctCdf_ppf : ∀ c df nc, 0 < c → c < 1 → nctCdf df nc (o.nctPpf c df nc) = c
  nctCdf_anti_nc : ∀ df x, StrictAnti fun nc => nctCdf df nc x
  chi2Cdf_strictMono : ∀ df, StrictMonoOn (chi2Cdf df) (Set.Ici 0)
  chi2Cdf_ppf : ∀ pr df, 0 < pr → pr < 1 → chi2Cdf df (o.chi2Ppf pr df) = pr
  chi2Ppf_pos : ∀ pr df, 0 < pr → pr < 1 → 0 < o.chi2Ppf pr df

variable {o : Ops α} {nctCdf : α → α → α → α} {chi2Cdf : α → α → α}

theorem Spec.sqrt_lt (S : Spec o nctCdf chi2Cdf) {x y : α} (hx : 0 < x) (hxy : x < y) :
    o.sqrt x < o.sqrt y := by
  by_contra h
  have h' : o.sqrt y ≤ o.sqrt x := not_lt.1 h
  have hy := S.sqrt_pos y (hx.trans hxy)
  have := mul_self_le_mul_self hy.le h'
  rw [S.sqrt_mul_self y (hx.trans hxy).le, S.sqrt_mul_self x hx.le] at this
  exact absurd hxy (not_lt.2 this)

theorem Spec.normPpf_lt (S : Spec o nctCdf chi2Cdf) {p p' : α} (h0 : 0 < p) (h : p < p')
    (h1 : p' < 1) : o.normPpf p < o.normPpf p' := by
  rw [← S.normCdf_strictMono.lt_iff_lt, S.normCdf_ppf p h0 (h.trans h1),
    S.normCdf_ppf p' (h0.trans h) h1]
  exact h

theorem Spec.nctPpf_lt_c (S : Spec o nctCdf chi2Cdf) (df nc : α) {c c' : α} (h0 : 0 < c)
    (h : c < c') (h1 : c' < 1) : o.nctPpf c df nc < o.nctPpf c' df nc := by
  rw [← (S.nctCdf_strictMono df nc).lt_iff_lt, S.nctCdf_ppf c df nc h0 (h.trans h1),
    S.nctCdf_ppf c' df nc (h0.trans h) h1]
  exact h

theorem Spec.nctPpf_lt_nc (S : Spec o nctCdf chi2Cdf) (df : α) {c : α} (h0 : 0 < c) (h1 : c < 1)
    {nc nc' : α} (h : nc < nc') : o.nctPpf c df nc < o.nctPpf c df nc' := by
  by_contra hx
  have hx' : o.nctPpf c df nc' ≤ o.nctPpf c df nc := not_lt.1 hx
  have a := (S.nctCdf_strictMono df nc').monotone hx'
  have b := S.nctCdf_anti_nc df (o.nctPpf c df nc) h
  simp only at b
  rw [S.nctCdf_ppf c df nc' h0 h1] at a
  rw [S.nctCdf_ppf c df nc h0 h1] at b
  exact absurd (lt_of_le_of_lt a b) (lt_irrefl c)

theorem Spec.chi2Ppf_lt (S : Spec o nctCdf chi2Cdf) (df : α) {pr pr' : α} (h0 : 0 < pr)
    (h : pr < pr') (h1 : pr' < 1) : o.chi2Ppf pr df < o.chi2Ppf pr' df := by
  have m := S.chi2Cdf_strictMono df
  have a := (S.chi2Ppf_pos pr df h0 (h.trans h1)).le
  have b := (S.chi2Ppf_pos pr' df (h0.trans h) h1).le
  rw [← m.lt_iff_lt (Set.mem_Ici.2 a) (Set.mem_Ici.2 b), S.chi2Cdf_ppf pr df h0 (h.trans h1),
    S.chi2Cdf_ppf pr' df (h0.trans h) h1]
  exact h

theorem Spec.getrDen_pos (S : Spec o nctCdf chi2Cdf) (n r : α) : 0 < getrDen o n r := by
  unfold getrDen
  exact mul_pos S.spi_pos (add_pos (S.exp_pos _) (S.exp_pos _))

end PyYetiVerif.KFactor
