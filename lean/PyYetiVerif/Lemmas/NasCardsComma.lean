import PyYetiVerif.Lemmas.NasCardsLarge
/-! C12 cards: the free-field (comma) form — `split(",")`, `_rdcomma` on continuation lines,
`rdcards` on a comma card (no line is cut at any column), agreement with the fixed-field form. -/
set_option linter.unusedSimpArgs false
set_option linter.unusedVariables false
namespace PyYetiVerif.NasCards
open PyYetiVerif.PyFloat PyYetiVerif.NasFloat

/-! ### free-field (comma) form -/

theorem splitComma_go_tok (t rest acc : Str) (h : ∀ c ∈ t, c ≠ ',') :
    splitComma.go (t ++ ',' :: rest) acc = (acc.reverse ++ t) :: splitComma.go rest [] := by
  induction t generalizing acc with
  | nil => simp [splitComma.go]
  | cons a t ih =>
    have ha : (a == ',') = false := by simp [h a List.mem_cons_self]
    simp only [List.cons_append, splitComma.go, ha, Bool.false_eq_true, if_false]
    rw [ih (a :: acc) (fun c hc => h c (List.mem_cons_of_mem _ hc))]
    simp

theorem splitComma_go_last (t acc : Str) (h : ∀ c ∈ t, c ≠ ',') :
    splitComma.go t acc = [acc.reverse ++ t] := by
  induction t generalizing acc with
  | nil => simp [splitComma.go]
  | cons a t ih =>
    have ha : (a == ',') = false := by simp [h a List.mem_cons_self]
    simp only [splitComma.go, ha, Bool.false_eq_true, if_false]
    rw [ih (a :: acc) (fun c hc => h c (List.mem_cons_of_mem _ hc))]
    simp

/-- `h,t1,t2,…` -/
def commaLine (h : Str) (ts : List Str) : Str := h ++ (ts.map fun t => ',' :: t).flatten

theorem splitComma_commaLine (h : Str) (ts : List Str) (hh : ∀ c ∈ h, c ≠ ',')
    (hts : ∀ t ∈ ts, ∀ c ∈ t, c ≠ ',') : splitComma (commaLine h ts) = h :: ts := by
  unfold splitComma commaLine
  induction ts generalizing h with
  | nil => simp [splitComma_go_last h [] hh]
  | cons t ts ih =>
    simp only [List.map_cons, List.flatten_cons, List.cons_append]
    rw [splitComma_go_tok h _ [] hh]
    have := ih t (hts t List.mem_cons_self) (fun t' h' => hts t' (List.mem_cons_of_mem _ h'))
    simp only [List.reverse_nil, List.nil_append]
    rw [this]

/-- the values `_rdcomma` reads from a continuation line: tokens 1 … 8 -/
def commaVals (l : Str) : List NasVal :=
  (((splitComma (procLine l)).take 9).drop 1).map cardVal

theorem take_min9 {α : Type} (l : List α) : l.take (min l.length 9) = l.take 9 := by
  simp only [Nat.min_def]
  split_ifs with h
  · rw [List.take_of_length_le (le_refl _), List.take_of_length_le h]
  · rfl

theorem rdcommaGo_lines (conchar : Str) (lines : List Str)
    (hcont : ∀ l ∈ lines, isCont conchar l = true) (cnt target : Nat) (s : Str) :
    rdcommaGo conchar cnt target 1 s lines =
      (List.replicate (target - cnt) (NasVal.str []) ++
        glue 8 ((((splitComma s).take 9).drop 1).map cardVal :: lines.map commaVals), lines.length) := by
  induction lines generalizing cnt target s with
  | nil =>
    rw [rdcommaGo]
    simp only [take_min9, glue, List.map_nil, List.length_nil]
  | cons l ls ih =>
    have hl : isCont conchar l = true := hcont l List.mem_cons_self
    have hls : ∀ l' ∈ ls, isCont conchar l' = true := fun l' h => hcont l' (List.mem_cons_of_mem _ h)
    rw [rdcommaGo]
    simp only [hl, if_true, take_min9]
    rw [ih hls]
    have e : target + 8 - (target + ((((splitComma s).take 9).drop 1).map cardVal).length -
          (if (1 == 0) = true then 1 else 0)) =
        8 - ((((splitComma s).take 9).drop 1).map cardVal).length := by
      simp; omega
    rw [e]
    simp only [List.map_cons, glue, List.length_cons, commaVals, List.append_assoc]


/-- a free-field token: no comma, comment character or newline, no white space at its right end -/
def TokOK (t : Str) : Prop :=
  (∀ c ∈ t, c ≠ ',' ∧ c ≠ '$' ∧ c ≠ '\n') ∧ ∀ c ∈ t.getLast?, isWs c = false

theorem commaLine_last (X : Str) (ts : List Str) (hX : ∀ c ∈ X.getLast?, isWs c = false)
    (hts : ∀ t ∈ ts, TokOK t) :
    ∀ c ∈ (X ++ (ts.map fun t => ',' :: t).flatten).getLast?, isWs c = false := by
  induction ts generalizing X with
  | nil => simpa using hX
  | cons t ts ih =>
    have e : X ++ ((t :: ts).map fun t => ',' :: t).flatten =
        (X ++ ',' :: t) ++ (ts.map fun t => ',' :: t).flatten := by simp
    rw [e]
    apply ih _ _ (fun t' h' => hts t' (List.mem_cons_of_mem _ h'))
    intro c hc
    rw [List.getLast?_append] at hc
    cases ht : t with
    | nil =>
      rw [ht] at hc
      simp at hc; subst hc; decide
    | cons a t' =>
      have h2 := (hts t List.mem_cons_self).2
      rw [ht] at hc h2
      simp only [List.getLast?_cons_cons] at hc
      have hne : (a :: t').getLast? ≠ none := by simp
      cases hl : (a :: t').getLast? with
      | none => exact absurd hl hne
      | some g =>
        rw [hl] at hc
        simp at hc; subst hc
        exact h2 g (by rw [hl]; rfl)

theorem rstripWs_of_last (L : Str) (h : ∀ c ∈ L.getLast?, isWs c = false) : rstripWs L = L := by
  rcases List.eq_nil_or_concat L with rfl | ⟨w, g, rfl⟩
  · rfl
  · simp only [List.concat_eq_append] at h ⊢
    exact rstripBy_snoc_keep isWs w g (h g (by simp))

theorem procLine_commaLine (h : Str) (ts : List Str) (hh : ∀ c ∈ h, c ≠ '$')
    (hhl : ∀ c ∈ h.getLast?, isWs c = false) (hts : ∀ t ∈ ts, TokOK t) :
    procLine (commaLine h ts ++ ['\n']) = commaLine h ts := by
  have hd : ∀ c ∈ commaLine h ts ++ ['\n'], c ≠ '$' := by
    intro c hc
    simp only [commaLine, List.mem_append, List.mem_flatten, List.mem_map, List.mem_singleton] at hc
    rcases hc with (hc | ⟨l, ⟨t, ht, rfl⟩, hc⟩) | rfl
    · exact hh c hc
    · rcases List.mem_cons.1 hc with rfl | hc
      · decide
      · exact ((hts t ht).1 c hc).2.1
    · decide
  unfold procLine
  rw [takeWhile_all _ _ (fun c hc => by simpa using hd c hc)]
  rw [rstripWs, rstripBy_append_allp isWs _ ['\n'] (by simp [isWs])]
  exact rstripWs_of_last _ (commaLine_last h ts hhl hts)

theorem commaVals_line (h : Str) (ts : List Str) (hh : ∀ c ∈ h, c ≠ '$' ∧ c ≠ ',')
    (hhl : ∀ c ∈ h.getLast?, isWs c = false) (hts : ∀ t ∈ ts, TokOK t) (hlen : ts.length ≤ 8) :
    commaVals (commaLine h ts ++ ['\n']) = ts.map cardVal := by
  unfold commaVals
  rw [procLine_commaLine h ts (fun c hc => (hh c hc).1) hhl hts,
    splitComma_commaLine h ts (fun c hc => (hh c hc).2) (fun t ht c hc => ((hts t ht).1 c hc).1)]
  rw [List.take_of_length_le (by simp; omega)]
  rfl


/-- head of a free-field continuation line: `+`, or nothing when the line has fields (it then
starts with the comma) -/
def ContOK (h : Str) (ts : List Str) : Prop := h = ['+'] ∨ (h = [] ∧ ts ≠ [])

/-- the text of a card in free-field form: `NAME,f1,…` and continuation lines `+,f9,…` / `,f9,…`,
at most 8 fields per line, lines of any length -/
def commaText (name : Str) (c0 : List Str) (conts : List (Str × List Str)) : Str :=
  commaLine name c0 ++ ((conts.map fun p => commaLine p.1 p.2).map fun l => '\n' :: l).flatten ++ ['\n']

theorem commaLine_no_newline (h : Str) (ts : List Str) (hh : ∀ c ∈ h, c ≠ '\n')
    (hts : ∀ t ∈ ts, TokOK t) : ∀ c ∈ commaLine h ts, c ≠ '\n' := by
  intro c hc
  simp only [commaLine, List.mem_append, List.mem_flatten, List.mem_map] at hc
  rcases hc with hc | ⟨l, ⟨t, ht, rfl⟩, hc⟩
  · exact hh c hc
  · rcases List.mem_cons.1 hc with rfl | hc
    · decide
    · exact ((hts t ht).1 c hc).2.2

theorem cont_head_props (h : Str) (ts : List Str) (hc : ContOK h ts) :
    (∀ c ∈ h, c ≠ '$' ∧ c ≠ ',') ∧ (∀ c ∈ h.getLast?, isWs c = false) ∧ (∀ c ∈ h, c ≠ '\n') ∧
      isCont " +,".toList (commaLine h ts ++ ['\n']) = true := by
  rcases hc with rfl | ⟨rfl, hne⟩
  · refine ⟨by decide, by decide, by decide, rfl⟩
  · refine ⟨by simp, by simp, by simp, ?_⟩
    cases ts with
    | nil => exact absurd rfl hne
    | cons t ts => rfl

/-- **`rdcards` on the free-field form**: the reader returns one card — the name (if kept) and the
values of the lines' tokens glued with blank padding to 8 per continued line.  Lines are not cut
at any column. -/
theorem comma_rdcards (name : Str) (keep : Bool) (hname : NameOK name) (c0 : List Str)
    (hc0ne : c0 ≠ []) (hc0len : c0.length ≤ 8) (hc0 : ∀ t ∈ c0, TokOK t)
    (conts : List (Str × List Str))
    (hconts : ∀ p ∈ conts, ContOK p.1 p.2 ∧ p.2.length ≤ 8 ∧ ∀ t ∈ p.2, TokOK t) :
    rdcards name keep (commaText name c0 conts) =
      [(if keep then [NasVal.str name] else []) ++
        glue 8 ((c0 :: conts.map Prod.snd).map (List.map cardVal))] := by
  obtain ⟨⟨n0, nt, hnm, hlet⟩, _, hch⟩ := id hname
  have hnn : ∀ c ∈ name, c ≠ '\n' := by
    intro c hc heq
    have := (hch c hc).1
    rw [heq] at this; exact absurd this (by decide)
  have hnl : ∀ c ∈ name.getLast?, isWs c = false := fun c hc => (hch c (List.mem_of_getLast? hc)).1
  have hnd : ∀ c ∈ name, c ≠ '$' ∧ c ≠ ',' := fun c hc => ⟨(hch c hc).2.1, (hch c hc).2.2⟩
  have hlines := fileLines_lines (commaLine name c0) (conts.map fun p => commaLine p.1 p.2)
    (commaLine_no_newline name c0 hnn hc0) (by
      intro l hl
      obtain ⟨p, hp, rfl⟩ := List.mem_map.1 hl
      exact commaLine_no_newline p.1 p.2 (cont_head_props p.1 p.2 (hconts p hp).1).2.2.1 (hconts p hp).2.2)
  apply rdcards_single name keep _ _ _ hlines
  · have e : commaLine name c0 ++ ['\n'] = name ++ ((c0.map fun t => ',' :: t).flatten ++ ['\n']) := by
      simp [commaLine]
    rw [e]; exact lower_prefix _ _
  · have hcomma : (commaLine name c0 ++ ['\n']).contains ',' = true := by
      rw [List.contains_eq_mem]
      simp only [decide_eq_true_eq]
      cases c0 with
      | nil => exact absurd rfl hc0ne
      | cons t ts => simp [commaLine]
    have hcont : ∀ l ∈ (conts.map fun p => commaLine p.1 p.2).map (· ++ ['\n']),
        isCont " +,".toList l = true := by
      intro l hl
      simp only [List.map_map, List.mem_map, Function.comp_apply] at hl
      obtain ⟨p, hp, rfl⟩ := hl
      exact (cont_head_props p.1 p.2 (hconts p hp).1).2.2.2
    have hvals : ((conts.map fun p => commaLine p.1 p.2).map (· ++ ['\n'])).map commaVals =
        (conts.map Prod.snd).map (List.map cardVal) := by
      simp only [List.map_map]
      apply List.map_congr_left
      intro p hp
      simp only [Function.comp_apply]
      obtain ⟨h1, h2, _, _⟩ := cont_head_props p.1 p.2 (hconts p hp).1
      exact commaVals_line p.1 p.2 h1 h2 (hconts p hp).2.2 (hconts p hp).2.1
    have hproc := procLine_commaLine name c0 (fun c hc => (hnd c hc).1) hnl hc0
    have hsplit := splitComma_commaLine name c0 (fun c hc => (hnd c hc).2)
      (fun t ht c hc => ((hc0 t ht).1 c hc).1)
    have hname_val : cardVal name = NasVal.str name := by
      have := nasSscanf_name n0 nt 0 hlet (fun c hc => (hch c (by rw [hnm]; exact hc)).1)
      simp only [List.replicate_zero, List.append_nil] at this
      unfold cardVal
      rw [hnm, this]
    unfold rdOne rdcomma
    simp only [hcomma, if_true, hproc]
    rw [rdcommaGo.eq_def]
    simp only [hsplit, take_min9]
    have htake : (name :: c0).take 9 = name :: c0 := List.take_of_length_le (by simp; omega)
    rw [htake]
    cases conts with
    | nil => cases keep <;> simp [glue, hname_val]
    | cons p ps =>
      simp only [List.map_cons] at hcont hvals ⊢
      have hl := hcont _ List.mem_cons_self
      have hr' : ∀ l' ∈ (ps.map fun p => commaLine p.1 p.2).map (· ++ ['\n']),
          isCont " +,".toList l' = true := fun l' h' => hcont l' (List.mem_cons_of_mem _ h')
      simp only [hl, if_true]
      rw [rdcommaGo_lines _ _ hr']
      obtain ⟨hv1, hv2⟩ := List.cons.inj hvals
      have hv1' : (((splitComma (procLine (commaLine p.1 p.2 ++ ['\n']))).take 9).drop 1).map cardVal =
          commaVals (commaLine p.1 p.2 ++ ['\n']) := rfl
      rw [hv1', hv1, hv2]
      cases keep with
      | false =>
        simp only [Bool.false_eq_true, if_false, List.drop_succ_cons, List.drop_zero,
          glue, List.length_map, List.nil_append, List.length_cons, Prod.mk.injEq]
        refine ⟨?_, by simp⟩
        have e : 0 + 8 - (0 + c0.length - if (1 == 0) = true then 1 else 0) = 8 - c0.length := by simp
        rw [e]
        simp [List.append_assoc]
      | true =>
        simp only [if_true, List.drop_zero, List.map_cons, glue, List.length_map, List.length_cons,
          hname_val, List.singleton_append, Prod.mk.injEq]
        refine ⟨?_, by simp⟩
        have e : 0 + 8 - (0 + (c0.length + 1) - if (0 == 0) = true then 1 else 0) = 8 - c0.length := by
          simp
        rw [e]
        simp [List.append_assoc]


/-! ### fixed and free forms read alike -/

theorem glue_map_dtb (inc : Nat) (ws : List (List NasVal)) (hlen : ∀ w ∈ ws, w.length ≤ inc) :
    dtb (glue inc ws) = dtb (glue inc (ws.map dtb)) := by
  induction ws with
  | nil => rfl
  | cons w rest ih =>
    cases rest with
    | nil => simp [glue, dtb_idem]
    | cons w' rest' =>
      have hih := ih (fun x hx => hlen x (List.mem_cons_of_mem _ hx))
      simp only [List.map_cons, glue] at hih ⊢
      obtain ⟨k, hk⟩ := dtb_split w
      have hklen : w.length = (dtb w).length + k := by
        have := congrArg List.length hk
        simpa using this
      have hw := hlen w List.mem_cons_self
      have e : w ++ List.replicate (inc - w.length) (NasVal.str []) =
          dtb w ++ List.replicate (inc - (dtb w).length) (NasVal.str []) := by
        conv_lhs => rw [hk]
        have : inc - (dtb w).length = k + (inc - w.length) := by omega
        rw [this, List.append_assoc]
        simp only [blankV, List.replicate_append_replicate, List.length_append, List.length_replicate]
        congr 2
        omega
      rw [e, ← dtb_append_dtb, hih, dtb_append_dtb]

/-- **fixed-field and free-field forms of the same card read identically** (up to trailing blank
fields): if, line by line, the free-field tokens and the fixed fields have the same values up to
trailing blanks (`ws.map dtb = vs.map dtb`: a continued free-field line may omit its trailing blank
fields), the two readings agree and are the fields themselves. -/
theorem fixed_comma_agree (ws vs : List (List NasVal)) (hw : ∀ w ∈ ws, w.length ≤ 8)
    (hsame : ws.map dtb = vs.map dtb) (hok : GlueOK 8 vs) :
    dtb (glue 8 ws) = dtb (glue 8 (vs.map dtb)) ∧ dtb (glue 8 ws) = dtb vs.flatten := by
  have h1 := glue_map_dtb 8 ws hw
  rw [hsame] at h1
  exact ⟨h1, by rw [h1, glue_dtb 8 vs hok]⟩

end PyYetiVerif.NasCards
