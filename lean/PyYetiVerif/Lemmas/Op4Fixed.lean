import PyYetiVerif.Model.Op4Fixed
import PyYetiVerif.Lemmas.Op4File
/-! Lemmas for the F2 repair candidate (Model/Op4Fixed.lean): `_split_strings` keeps the indices and their order,
every piece is non-empty and at most `maxlen` long; the strings of the patched nonbigmat writer rebuild the column
and their packed headers always fit.  Core Lean only. -/
namespace PyYetiVerif.Op4
open PyYetiVerif.Generated.Op4Consts

theorem expand_splitRun (m : Nat) (hm : 1 ≤ m) :
    ∀ (fuel r0 r1 : Nat), r1 ≤ fuel → expand (splitRun m fuel r0 r1) = List.range' r0 r1 := by
  intro fuel
  induction fuel with
  | zero => intro r0 r1 h; have : r1 = 0 := by omega
            subst this; simp [splitRun, expand]
  | succ f ih =>
    intro r0 r1 h
    unfold splitRun
    by_cases h0 : r1 = 0
    · subst h0; simp [expand]
    · simp only [h0, if_false]
      by_cases h1 : r1 ≤ m
      · simp [h1, expand]
      · simp only [h1, if_false, expand_cons]
        rw [ih (r0 + m) (r1 - m) (by omega)]
        have : r1 = m + (r1 - m) := by omega
        conv => rhs; rw [this]
        rw [← List.range'_append_1]

theorem splitRun_bounds (m : Nat) (hm : 1 ≤ m) :
    ∀ (fuel r0 r1 : Nat), ∀ p ∈ splitRun m fuel r0 r1, 1 ≤ p.2 ∧ p.2 ≤ m := by
  intro fuel
  induction fuel with
  | zero => intro r0 r1 p hp; simp [splitRun] at hp
  | succ f ih =>
    intro r0 r1 p hp
    unfold splitRun at hp
    by_cases h0 : r1 = 0
    · simp [h0] at hp
    · simp only [h0, if_false] at hp
      by_cases h1 : r1 ≤ m
      · simp only [h1, if_true, List.mem_singleton] at hp
        subst hp; simp; omega
      · simp only [h1, if_false, List.mem_cons] at hp
        rcases hp with rfl | hp
        · simp; omega
        · exact ih _ _ p hp

theorem expand_flatMap_splitRun (m : Nat) (hm : 1 ≤ m) (ind : List (Nat × Nat)) :
    expand (ind.flatMap fun p => splitRun m p.2 p.1 p.2) = expand ind := by
  induction ind with
  | nil => rfl
  | cons p t ih =>
    simp only [List.flatMap_cons, expand_cons]
    have : expand (splitRun m p.2 p.1 p.2 ++ t.flatMap fun p => splitRun m p.2 p.1 p.2)
        = expand (splitRun m p.2 p.1 p.2) ++ expand (t.flatMap fun p => splitRun m p.2 p.1 p.2) := by
      simp [expand]
    rw [this, expand_splitRun m hm p.2 p.1 p.2 (Nat.le_refl _), ih]

/-- `_split_strings` stands for the same indices in the same order -/
theorem expand_splitStrings (m : Nat) (hm : 1 ≤ m) (ind : List (Nat × Nat)) :
    expand (splitStrings m ind) = expand ind := by
  unfold splitStrings
  split
  · rfl
  · exact expand_flatMap_splitRun m hm ind

/-- every piece is non-empty and at most `maxlen` rows long -/
theorem splitStrings_bounds (m : Nat) (hm : 1 ≤ m) (ind : List (Nat × Nat)) (hpos : ∀ p ∈ ind, 1 ≤ p.2) :
    ∀ p ∈ splitStrings m ind, 1 ≤ p.2 ∧ p.2 ≤ m := by
  intro p hp
  unfold splitStrings at hp
  split at hp
  · next hall =>
    rw [List.all_eq_true] at hall
    exact ⟨hpos p hp, by simpa using hall p hp⟩
  · rw [List.mem_flatMap] at hp
    obtain ⟨q, _, hq⟩ := hp
    exact splitRun_bounds m hm _ _ _ p hq

/-- where no string is longer than `maxlen` nothing changes -/
theorem splitStrings_id (m : Nat) (ind : List (Nat × Nat)) (h : ∀ p ∈ ind, p.2 ≤ m) : splitStrings m ind = ind := by
  unfold splitStrings
  rw [if_pos]
  rw [List.all_eq_true]
  intro p hp
  simpa using h p hp

theorem maxStrRows_pos (cplx : Bool) : 1 ≤ maxStrRows cplx := by
  cases cplx <;> decide

/-- the runs of the patched writer -/
abbrev runsFx (cplx : Bool) (col : List Entry) : List (Nat × Nat) :=
  splitStrings (maxStrRows cplx) (colStats (nzIdx cplx col))

theorem mem_runsFx (cplx : Bool) (col : List Entry) (j : Nat) :
    j ∈ nzIdx cplx col ↔ ∃ p ∈ runsFx cplx col, p.1 ≤ j ∧ j < p.1 + p.2 := by
  conv => lhs; rw [← expand_colStats (nzIdx cplx col), ← expand_splitStrings _ (maxStrRows_pos cplx)]
  simp only [expand, List.mem_flatMap, List.mem_range'_1]

theorem runsFx_bounds (cplx : Bool) (col : List Entry) :
    ∀ p ∈ runsFx cplx col, 1 ≤ p.2 ∧ p.2 ≤ maxStrRows cplx :=
  splitStrings_bounds _ (maxStrRows_pos cplx) _ (colStats_pos _)

theorem runFx_in_range (cplx : Bool) (col : List Entry) (q : Nat × Nat) (hq : q ∈ runsFx cplx col) :
    q.1 + q.2 ≤ col.length := by
  have hpos := (runsFx_bounds cplx col q hq).1
  have hmem : q.1 + q.2 - 1 ∈ nzIdx cplx col := (mem_runsFx _ _ _).2 ⟨q, hq, by omega, by omega⟩
  obtain ⟨x, hx, _⟩ := (mem_nzIdx _ _ _).1 hmem
  have := (List.getElem?_eq_some_iff.1 hx).1
  omega

theorem stringsFx_eq (cplx : Bool) (col : List Entry) :
    stringsFx cplx col = (runsFx cplx col).map fun p => (p.1, (col.drop p.1).take p.2) := rfl

/-- the strings of the patched writer, put into a zero column, rebuild the column -/
theorem putsCol_stringsFx (cplx : Bool) (col : List Entry) :
    putsCol (List.replicate col.length (0, 0))
        ((stringsFx cplx col).map fun s => (s.1, s.2.map (normE cplx)))
      = some (canonCol cplx col) := by
  apply putsCol_spec
  · simp [canonCol]
  · intro p hp
    simp only [stringsFx_eq, List.map_map, List.mem_map, Function.comp] at hp
    obtain ⟨q, hq, rfl⟩ := hp
    have hr := runFx_in_range cplx col q hq
    have hlen : (List.take q.2 (List.drop q.1 col)).length = q.2 := by
      simp; omega
    simp only [canonCol, List.length_map]
    refine ⟨by omega, ?_⟩
    intro k hk
    rw [hlen] at hk
    have hmem : q.1 + k ∈ nzIdx cplx col := (mem_runsFx _ _ _).2 ⟨q, hq, by omega, by omega⟩
    obtain ⟨x, hx, hz⟩ := (mem_nzIdx _ _ _).1 hmem
    simp only [List.getElem?_map, List.getElem?_take, hk, if_true, List.getElem?_drop, hx, Option.map_some]
    rw [canonEntry_of_nonzero cplx x hz]
  · intro i hi hnot
    simp only [canonCol, List.length_map] at hi
    simp only [canonCol, List.getElem?_map, List.getElem?_replicate, hi, if_true]
    have hx : col[i]? = some col[i] := List.getElem?_eq_getElem hi
    rw [hx, Option.map_some]
    by_cases hz : (col[i]).isZero cplx = true
    · rw [canonEntry_of_zero cplx _ hz]
    · exfalso
      have hmem : i ∈ nzIdx cplx col := (mem_nzIdx _ _ _).2 ⟨col[i], hx, by simpa using hz⟩
      obtain ⟨q, hq, h1, h2⟩ := (mem_runsFx _ _ _).1 hmem
      have hr := runFx_in_range cplx col q hq
      apply hnot (q.1, ((col.drop q.1).take q.2).map (normE cplx))
      · simp only [stringsFx_eq, List.map_map, List.mem_map, Function.comp]
        exact ⟨q, hq, rfl⟩
      · simp; omega

theorem stringsFx_rows (cplx : Bool) (col : List Entry) (h : col.length < 65536) :
    ∀ s ∈ stringsFx cplx col, s.1 + 1 < 65536 := by
  intro s hs
  simp only [stringsFx_eq, List.mem_map] at hs
  obtain ⟨q, hq, rfl⟩ := hs
  have := runFx_in_range cplx col q hq
  have := (runsFx_bounds cplx col q hq).1
  simp; omega

theorem stringsFx_len (cplx : Bool) (col : List Entry) :
    ∀ s ∈ stringsFx cplx col, 1 ≤ s.2.length ∧ s.2.length ≤ maxStrRows cplx := by
  intro s hs
  simp only [stringsFx_eq, List.mem_map] at hs
  obtain ⟨q, hq, rfl⟩ := hs
  have := runFx_in_range cplx col q hq
  have := runsFx_bounds cplx col q hq
  simp; omega

/-- F2 repaired: below 65536 rows every packed header of the patched writer fits `struct.pack('i', …)` -/
theorem stringsFitFx_true (cplx : Bool) (col : List Entry) (h : col.length < 65536) :
    stringsFitFx cplx col = true := by
  unfold stringsFitFx
  rw [List.all_eq_true]
  intro s hs
  have h1 := stringsFx_rows cplx col h s hs
  have h2 := (stringsFx_len cplx col s hs).2
  unfold fitsI32 packIS isShiftW
  simp only [Nat.shiftLeft_eq, decide_eq_true_eq]
  cases cplx
  · have : maxStrRows false = 16383 := by decide
    simp only [mult, Bool.false_eq_true, if_false] at *
    omega
  · have : maxStrRows true = 8191 := by decide
    simp only [mult, if_true] at *
    omega

/-- where the unpatched writer succeeds the patched one writes the same strings -/
theorem stringsFx_eq_strings (cplx : Bool) (col : List Entry)
    (h : ∀ p ∈ colStats (nzIdx cplx col), p.2 ≤ maxStrRows cplx) : stringsFx cplx col = strings cplx col := by
  unfold stringsFx strings
  rw [splitStrings_id _ _ h]

end PyYetiVerif.Op4
