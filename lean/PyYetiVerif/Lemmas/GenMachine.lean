import PyYetiVerif.Model.GenMachine
import Mathlib.Algebra.Group.Hom.Defs
import Mathlib.Algebra.Group.Units.Basic
import Mathlib.Algebra.Ring.Defs
import Mathlib.Tactic.Abel
import Mathlib.Tactic.NoncommRing
/-!
Helper lemmas for C08 (generator machine).  Property theorems live in `Props/C08.lean`.
-/
namespace PyYetiVerif.GenMachine

theorem upd_same {α : Type} (g : Nat → α) (i : Nat) (a : α) : upd g i a i = a := by
  simp [upd]

theorem upd_ne {α : Type} (g : Nat → α) {i j : Nat} (a : α) (h : j ≠ i) : upd g i a j = g j := by
  simp [upd, h]

section abstract
variable {V X W : Type} [Add V] [AddSemigroup X] [Add W]

theorem inv_step (L : Lin V X W) (hL : AddOnAdditive L) (s : State V X W) (op : Op V)
    (hi : Inv L s) (hv : ValidOp s op) : Inv L (step L s op) := by
  cases op with
  | send i f =>
    obtain ⟨h1, h2⟩ := hv
    intro j hj1 hj2
    simp only [step, sendAt] at hj2 ⊢
    by_cases hji : j = i
    · subst hji
      have hne : j - 1 ≠ j := by omega
      simp only [upd_same, upd_ne _ _ hne, and_self]
    · have hlt : j ≤ s.cur := by omega
      have hne : j - 1 ≠ i := by omega
      simp only [upd_ne _ _ hji, upd_ne _ _ hne]
      exact hi j hj1 hlt
  | addon f =>
    have h1 : 1 ≤ s.cur := hv
    intro j hj1 hj2
    simp only [step, addonAt] at hj2 ⊢
    by_cases hji : j = s.cur
    · subst hji
      have hne : s.cur - 1 ≠ s.cur := by omega
      obtain ⟨hx, hr⟩ := hi s.cur hj1 (Nat.le_refl _)
      simp only [upd_same, upd_ne _ _ hne]
      constructor
      · rw [hL.Q_add, ← add_assoc, ← hx]
      · rw [hL.S_add, ← hr]
    · have hne : j - 1 ≠ s.cur := by omega
      simp only [upd_ne _ _ hji, upd_ne _ _ hne]
      exact hi j hj1 hj2

theorem inv_run (L : Lin V X W) (hL : AddOnAdditive L) (ops : List (Op V)) :
    ∀ (s : State V X W), Inv L s → Valid L s ops → Inv L (run L s ops) := by
  induction ops with
  | nil => intro s hi _; exact hi
  | cons op ops ih =>
    intro s hi hv
    exact ih (step L s op) (inv_step L hL s op hi hv.1) hv.2

/-- column 0 is never touched by a valid request -/
theorem col0_step (L : Lin V X W) (s : State V X W) (op : Op V) (hv : ValidOp s op) :
    (step L s op).x 0 = s.x 0 ∧ (step L s op).force 0 = s.force 0 ∧
      (step L s op).r 0 = s.r 0 := by
  cases op with
  | send i f =>
    have h : (0 : Nat) ≠ i := by have := hv.1; omega
    simp only [step, sendAt, upd_ne _ _ h, and_self]
  | addon f =>
    have h1 : 1 ≤ s.cur := hv
    have h : (0 : Nat) ≠ s.cur := by omega
    simp only [step, addonAt, upd_ne _ _ h, and_self]

theorem col0_run (L : Lin V X W) (ops : List (Op V)) :
    ∀ (s : State V X W), Valid L s ops →
      (run L s ops).x 0 = s.x 0 ∧ (run L s ops).force 0 = s.force 0 ∧
        (run L s ops).r 0 = s.r 0 := by
  induction ops with
  | nil => intro s _; exact ⟨rfl, rfl, rfl⟩
  | cons op ops ih =>
    intro s hv
    obtain ⟨a, b, c⟩ := ih (step L s op) hv.2
    obtain ⟨a', b', c'⟩ := col0_step L s op hv.1
    exact ⟨a.trans a', b.trans b', c.trans c'⟩

omit [Add V] [Add W] in
theorem inv_batch (L : Lin V X W) (s : State V X W) (hi : Inv L s) :
    ∀ j, j ≤ s.cur → s.x j = batch L s.force (s.x 0) j := by
  intro j
  induction j with
  | zero => intro _; rfl
  | succ j ih =>
    intro hj
    have := (hi (j + 1) (by omega) hj).1
    simp only [Nat.add_sub_cancel] at this
    rw [this, batch, ih (by omega)]

omit [Add V] [Add W] in
/-- the batch value at step `j` depends on the force history up to `j` only -/
theorem batch_congr (L : Lin V X W) (f g : Nat → V) (x0 : X) :
    ∀ j, (∀ i, i ≤ j → f i = g i) → batch L f x0 j = batch L g x0 j := by
  intro j
  induction j with
  | zero => intro _; rfl
  | succ j ih =>
    intro h
    simp only [batch]
    rw [ih (fun i hi => h i (by omega)), h j (by omega), h (j + 1) (Nat.le_refl _)]

/-- on a valid history inside the horizon the code's behaviour is the abstract machine's -/
theorem api_run (L : Lin V X W) (nt : Nat) (ops : List (Op V)) :
    ∀ (a : ApiState V X W), (1 ≤ a.s.cur → a.started = true) → Valid L a.s ops →
      InHorizon nt ops →
      ∃ b, runApi L nt a ops = .ok ⟨b, run L a.s ops⟩ := by
  induction ops with
  | nil => intro a _ _ _; exact ⟨a.started, rfl⟩
  | cons op ops ih =>
    intro a hs hv hh
    cases op with
    | send i f =>
      obtain ⟨hi1, _⟩ := hv.1
      have hlt : ¬ nt ≤ i := by have := hh.1; omega
      have hi0 : ¬ i = 0 := by omega
      have hstep : stepApi L nt a (.send i f) = .ok ⟨true, step L a.s (.send i f)⟩ := by
        simp only [stepApi, hlt, hi0, if_false, step]
      obtain ⟨b, hb⟩ := ih ⟨true, step L a.s (.send i f)⟩ (fun _ => rfl) hv.2 hh.2
      exact ⟨b, by simp only [runApi, hstep]; exact hb⟩
    | addon f =>
      have h1 : 1 ≤ a.s.cur := hv.1
      have hst := hs h1
      have hstep : stepApi L nt a (.addon f) = .ok ⟨a.started, step L a.s (.addon f)⟩ := by
        simp only [stepApi, hst, if_true, step]
      obtain ⟨b, hb⟩ := ih ⟨a.started, step L a.s (.addon f)⟩
        (fun _ => hst) hv.2 hh
      exact ⟨b, by simp only [runApi, hstep]; exact hb⟩

end abstract

/-! ### cd-as-force -/

theorem map_sub_of_add {M N : Type} [AddGroup M] [AddGroup N] (f : M → N)
    (h : ∀ a b, f (a + b) = f a + f b) (a b : M) : f (a - b) = f a - f b :=
  (AddMonoidHom.mk' f h).map_sub a b

theorem map_zero_of_add {M N : Type} [AddGroup M] [AddGroup N] (f : M → N)
    (h : ∀ a b, f (a + b) = f a + f b) : f 0 = 0 :=
  (AddMonoidHom.mk' f h).map_zero

/-- all coefficient maps are additive (they are matrices) -/
structure CdfAdditive {V M W : Type} [Add V] [Add M] [Add W] (c : CdfCoef V M W) : Prop where
  F : ∀ a b, c.F (a + b) = c.F a + c.F b
  G : ∀ a b, c.G (a + b) = c.G a + c.G b
  A : ∀ a b, c.A (a + b) = c.A a + c.A b
  B : ∀ a b, c.B (a + b) = c.B a + c.B b
  Fp : ∀ a b, c.Fp (a + b) = c.Fp a + c.Fp b
  Gp : ∀ a b, c.Gp (a + b) = c.Gp a + c.Gp b
  Ap : ∀ a b, c.Ap (a + b) = c.Ap a + c.Ap b
  Bp : ∀ a b, c.Bp (a + b) = c.Bp a + c.Bp b
  alpha : ∀ a b, c.alpha (a + b) = c.alpha a + c.alpha b
  bo : ∀ a b, c.bo (a + b) = c.bo a + c.bo b
  K : ∀ a b, c.K (a + b) = c.K a + c.K b
  S : ∀ a b, c.S (a + b) = c.S a + c.S b

instance {M : Type} [AddSemigroup M] : AddSemigroup (DV M) where
  add_assoc a b c := by
    show DV.mk _ _ = DV.mk _ _
    congr 1 <;> exact add_assoc _ _ _

theorem DV.add_def {M : Type} [Add M] (a b : DV M) : a + b = ⟨a.d + b.d, a.v + b.v⟩ := rfl
theorem DV.zero_def {M : Type} [Zero M] : (0 : DV M) = ⟨0, 0⟩ := rfl

section cdf
variable {V M W : Type} [Add V] [AddCommGroup M] [Add W]

theorem cdfLin_addOn (c : CdfCoef V M W) (h : CdfAdditive c) : AddOnAdditive (cdfLin c) := by
  constructor
  · intro a b
    cases ho : c.order1
    · simp only [cdfLin, ho, DV.add_def, DV.zero_def, add_zero, Bool.false_eq_true, if_false]
    · simp only [cdfLin, ho, DV.add_def, if_true, h.K, h.Bp, h.alpha, h.B,
        map_sub_of_add c.B h.B]
      congr 1 <;> abel
  · exact h.S

theorem cache_step (c : CdfCoef V M W) (h : CdfAdditive c)
    (hα : ∀ y, c.bo (y - c.Bp (c.alpha y)) = c.alpha y)
    (s : CdfState V M W) (op : Op V) (hc : CacheInv c s) : CacheInv c (cdfStep c s op) := by
  cases op with
  | send i f =>
    cases ho : c.order1 <;>
      simp only [cdfStep, cdfSendAt, ho, CacheInv, upd_same, hα, if_true, if_false,
        Bool.false_eq_true, and_self]
  | addon f =>
    obtain ⟨h1, h2⟩ := hc
    cases ho : c.order1
    · simp only [cdfStep, cdfAddon, ho, CacheInv, Bool.false_eq_true, if_false]
      exact ⟨h1, h2⟩
    · simp only [cdfStep, cdfAddon, ho, CacheInv, if_true]
      refine ⟨h1, ?_⟩
      rw [h1, upd_same, h.bo, hα, h2, h1]

theorem abs_step (c : CdfCoef V M W) (h : CdfAdditive c)
    (s : CdfState V M W) (op : Op V) (hc : CacheInv c s) :
    cdfAbs (cdfStep c s op) = step (cdfLin c) (cdfAbs s) op := by
  cases op with
  | send i f =>
    obtain ⟨_, h2⟩ := hc
    have hd : (if s.ilast = i - 1 then s.dmp else c.bo (s.v (i - 1))) = c.bo (s.v (i - 1)) := by
      split
      · next e => rw [h2, e]
      · rfl
    cases ho : c.order1
    · simp only [cdfStep, cdfSendAt, ho, cdfAbs, step, sendAt, cdfLin, decide_eq_true_eq, hd,
        Bool.false_eq_true, if_false, State.mk.injEq, true_and, and_true]
      funext j
      by_cases hj : j = i
      · subst hj
        simp only [upd_same, DV.add_def, DV.zero_def, add_zero, h.alpha, h.B, h.Bp,
          map_sub_of_add c.alpha h.alpha, map_sub_of_add c.B h.B, map_sub_of_add c.Bp h.Bp]
        congr 1 <;> abel
      · simp only [upd_ne _ _ hj]
    · simp only [cdfStep, cdfSendAt, ho, cdfAbs, step, sendAt, cdfLin, decide_eq_true_eq, hd,
        if_true, State.mk.injEq, true_and, and_true]
      funext j
      by_cases hj : j = i
      · subst hj
        simp only [upd_same, DV.add_def, h.alpha, h.B, h.Bp,
          map_sub_of_add c.alpha h.alpha, map_sub_of_add c.B h.B, map_sub_of_add c.Bp h.Bp,
          map_sub_of_add c.A h.A, map_sub_of_add c.Ap h.Ap]
        congr 1 <;> abel
      · simp only [upd_ne _ _ hj]
  | addon f =>
    cases ho : c.order1
    · simp only [cdfStep, cdfAddon, ho, cdfAbs, step, addonAt, cdfLin, Bool.false_eq_true,
        if_false, State.mk.injEq, true_and, and_true]
      funext j
      by_cases hj : j = s.cur
      · subst hj
        simp only [upd_same, DV.add_def, DV.zero_def, add_zero]
      · simp only [upd_ne _ _ hj]
    · simp only [cdfStep, cdfAddon, ho, cdfAbs, step, addonAt, cdfLin, if_true,
        State.mk.injEq, true_and, and_true]
      funext j
      by_cases hj : j = s.cur
      · subst hj
        simp only [upd_same, DV.add_def]
      · simp only [upd_ne _ _ hj]

theorem abs_run (c : CdfCoef V M W) (h : CdfAdditive c)
    (hα : ∀ y, c.bo (y - c.Bp (c.alpha y)) = c.alpha y) (ops : List (Op V)) :
    ∀ (s : CdfState V M W), CacheInv c s →
      CacheInv c (cdfRun c s ops) ∧ cdfAbs (cdfRun c s ops) = run (cdfLin c) (cdfAbs s) ops := by
  induction ops with
  | nil => intro s hc; exact ⟨hc, rfl⟩
  | cons op ops ih =>
    intro s hc
    obtain ⟨h1, h2⟩ := ih (cdfStep c s op) (cache_step c h hα s op hc)
    refine ⟨h1, ?_⟩
    show cdfAbs (cdfRun c (cdfStep c s op) ops) = run (cdfLin c) (step (cdfLin c) (cdfAbs s) op) ops
    rw [h2, abs_step c h s op hc]

end cdf

/-- the code defines `alpha` by `alpha (I + Bp bo) = bo` (`la.solve(tmp.T, bo.T).T`); with
`I + Bp bo` invertible this is the form the cache needs: `bo (I - Bp alpha) = alpha` -/
theorem alpha_identity {R : Type} [Ring R] (a b p : R) (hu : IsUnit (1 + p * b))
    (ha : a * (1 + p * b) = b) : b * (1 - p * a) = a := by
  have key : (b * (1 - p * a)) * (1 + p * b) = a * (1 + p * b) := by
    have e : (b * (1 - p * a)) * (1 + p * b) = b * (1 + p * b) - b * p * (a * (1 + p * b)) := by
      noncomm_ring
    rw [e, ha]; noncomm_ring
  exact hu.mul_left_inj.mp key

end PyYetiVerif.GenMachine
