import PyYetiVerif.Model.ApplyUfFull
import Mathlib.Data.Matrix.Mul
import Mathlib.Data.Matrix.Diagonal
import Mathlib.Algebra.BigOperators.Fin
import Mathlib.LinearAlgebra.Matrix.NonsingularInverse
import Mathlib.Algebra.Field.Basic
/-! Helper lemmas for C16 (`apply_uf`, full stiffness): the list kernels of
`Model/ApplyUfFull.lean` on well-shaped inputs are Mathlib's matrix operations. -/
namespace PyYetiVerif.ApplyUfFull
open PyYetiVerif.ApplyUf (Uf)

/-- a vector as the model sees it -/
def toL {α : Type} {n : Nat} (x : Fin n → α) : List α := List.ofFn x
/-- a matrix as the model sees it (list of rows) -/
def toLL {α : Type} {n m : Nat} (A : Matrix (Fin n) (Fin m) α) : List (List α) :=
  List.ofFn fun i => List.ofFn (A i)

section
variable {α : Type} {n m : Nat}

theorem toL_injective : Function.Injective (toL : (Fin n → α) → List α) :=
  List.ofFn_injective

theorem zipWith_toL {β γ : Type} (f : α → β → γ) (x : Fin n → α) (y : Fin n → β) :
    List.zipWith f (toL x) (toL y) = toL fun i => f (x i) (y i) := by
  apply List.ext_getElem
  · simp [toL]
  · intro i h1 h2
    simp [toL]

theorem map_toL {β : Type} (f : α → β) (x : Fin n → α) : (toL x).map f = toL fun i => f (x i) := by
  simp [toL, List.map_ofFn, Function.comp_def]

variable [CommRing α]

theorem dot_toL (x y : Fin n → α) : dot (toL x) (toL y) = x ⬝ᵥ y := by
  rw [dot, zipWith_toL, toL, List.sum_ofFn]
  rfl

theorem mulVec_toLL (A : Matrix (Fin n) (Fin m) α) (x : Fin m → α) :
    mulVec (toLL A) (toL x) = toL (A.mulVec x) := by
  simp only [mulVec, toLL, List.map_ofFn, Function.comp_def]
  show List.ofFn _ = List.ofFn _
  congr 1
  funext i
  exact dot_toL (A i) x

theorem vadd_toL (x y : Fin n → α) : vadd (toL x) (toL y) = toL (x + y) := zipWith_toL _ x y

theorem vsmul_toL (c : α) (x : Fin n → α) : vsmul c (toL x) = toL (c • x) := map_toL _ x

theorem vneg_toL (x : Fin n → α) : vneg (toL x) = toL (-x) := map_toL _ x

/-- Mathlib-side description of a modal coefficient on the elastic partition -/
inductive CoefM (n : Nat) (α : Type) where
  | diag (d : Fin n → α)
  | full (A : Matrix (Fin n) (Fin n) α)

def CoefM.toModel : CoefM n α → Coef α
  | .diag d => .diag (toL d)
  | .full A => .full (toLL A)

/-- the matrix a coefficient stands for -/
def CoefM.mat : CoefM n α → Matrix (Fin n) (Fin n) α
  | .diag d => Matrix.diagonal d
  | .full A => A

theorem apply_toModel (c : CoefM n α) (x : Fin n → α) :
    c.toModel.apply (toL x) = toL (c.mat.mulVec x) := by
  cases c with
  | diag d =>
    simp only [CoefM.toModel, Coef.apply, CoefM.mat, zipWith_toL]
    congr 1
    funext i
    simp [Matrix.mulVec_diagonal]
  | full A => exact mulVec_toLL A x

/-- `m is None` is the identity matrix -/
def mMat : Option (CoefM n α) → Matrix (Fin n) (Fin n) α
  | none => 1
  | some c => c.mat

theorem mApply_toModel (c : Option (CoefM n α)) (x : Fin n → α) :
    mApply (c.map CoefM.toModel) (toL x) = toL ((mMat c).mulVec x) := by
  cases c with
  | none => simp [mApply, mMat]
  | some c => exact apply_toModel c x

end

section cache
variable {α : Type} [Add α] [Mul α] [Neg α] [Zero α]

/-- the only states the `save` dictionary can be in when every call is made with the same modal
data: empty, or holding exactly what `_pre_calcs` computes from that data (both factorisations
included) -/
def SaveOk (B : Blocks α) (cols : List (Col α)) (save : Option (SaveBlock α)) : Prop :=
  save = none ∨ save = some ⟨cols.map (preBlock B), B.kinvE, B.kinvR⟩

theorem applyBlocks_fst (B : Blocks α) (cols : List (Col α)) (uf : Uf α)
    (save : Option (SaveBlock α)) (h : SaveOk B cols save) :
    (applyBlocks save B cols uf).1 = (applyBlocks none B cols uf).1 := by
  rcases h with h | h <;> simp [h, applyBlocks]

theorem applyBlocks_snd (B : Blocks α) (cols : List (Col α)) (uf : Uf α)
    (save : Option (SaveBlock α)) (h : SaveOk B cols save) :
    SaveOk B cols (applyBlocks save B cols uf).2 := by
  rcases h with h | h <;> simp [h, applyBlocks, SaveOk]

theorem applyBlocksSeq_eq (B : Blocks α) (cols : List (Col α)) (ufs : List (Uf α))
    (save : Option (SaveBlock α)) (h : SaveOk B cols save) :
    applyBlocksSeq save B cols ufs = ufs.map fun uf => (applyBlocks none B cols uf).1 := by
  induction ufs generalizing save with
  | nil => rfl
  | cons uf ufs ih =>
    simp only [applyBlocksSeq, List.map_cons]
    rw [applyBlocks_fst B cols uf save h, ih _ (applyBlocks_snd B cols uf save h)]

/-- the same for the whole routine (partition layer included) -/
def SaveOkFull (D : FullData α) (cols : List (FullCol α)) (save : Option (SaveBlock α)) : Prop :=
  SaveOk (blocksOf D) (cols.map (colOf D)) save

theorem applyFull_fst (D : FullData α) (cols : List (FullCol α)) (uf : Uf α)
    (save : Option (SaveBlock α)) (h : SaveOkFull D cols save) :
    (applyFull save D cols uf).1 = (applyFull none D cols uf).1 := by
  unfold applyFull
  split_ifs
  · rfl
  · simp only
    rw [applyBlocks_fst _ _ uf save h]

theorem applyFull_snd (D : FullData α) (cols : List (FullCol α)) (uf : Uf α)
    (save : Option (SaveBlock α)) (h : SaveOkFull D cols save) :
    SaveOkFull D cols (applyFull save D cols uf).2 := by
  unfold applyFull
  split_ifs
  · exact h
  · exact applyBlocks_snd _ _ uf save h

theorem applyFullSeq_eq (D : FullData α) (cols : List (FullCol α)) (ufs : List (Uf α))
    (save : Option (SaveBlock α)) (h : SaveOkFull D cols save) :
    applyFullSeq save D cols ufs = ufs.map fun uf => (applyFull none D cols uf).1 := by
  induction ufs generalizing save with
  | nil => rfl
  | cons uf ufs ih =>
    simp only [applyFullSeq, List.map_cons]
    rw [applyFull_fst D cols uf save h, ih _ (applyFull_snd D cols uf save h)]

end cache
end PyYetiVerif.ApplyUfFull

namespace PyYetiVerif.ApplyUfFull
section shaped
variable {α : Type} {ne nr : Nat}

/-- well-shaped partition data: every rectangular list input of the block core is of this form -/
def blocksM (m : Option (CoefM ne α)) (b : CoefM ne α) (Kee KeeInv : Matrix (Fin ne) (Fin ne) α)
    (Krr KrrInv : Matrix (Fin nr) (Fin nr) α) : Blocks α :=
  ⟨m.map CoefM.toModel, b.toModel, toLL Kee, toLL KeeInv, toLL Krr, toLL KrrInv⟩

/-- one well-shaped partitioned column -/
def colM (a v d : Fin ne → α) (dr : Fin nr → α) : Col α := ⟨toL a, toL v, toL d, toL dr⟩

end shaped
end PyYetiVerif.ApplyUfFull
