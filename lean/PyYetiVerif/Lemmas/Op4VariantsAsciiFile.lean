import PyYetiVerif.Lemmas.Op4VariantsAscii
/-! C11: `_skipop4_ascii` against the column loops of the ASCII reader model, one matrix, a whole file, the name
list — on every text on which the reader succeeds. -/
namespace PyYetiVerif.Op4VA
open PyYetiVerif.Op4 (checkName Layout chooseLayout unpackIS)
open PyYetiVerif.Op4A
open PyYetiVerif.Generated.Op4Consts

theorem colHead_some (line : Str) (c r : Int) (h : colHead line = some (c, r)) :
    ∃ c0, pyInt? (slice line 0 8) = some c0 ∧ c = c0 - 1 := by
  unfold colHead at h
  cases h1 : pyInt? (slice line 0 8) with
  | none => simp [h1] at h
  | some c0 =>
    cases h2 : pyInt? (slice line 8 16) with
    | none => simp [h1, h2] at h
    | some r0 =>
      simp only [h1, h2, Option.some.injEq, Prod.mk.injEq] at h
      exact ⟨c0, rfl, h.1.symm⟩

/-- `_skipop4_ascii`, dense branch, against `_rd_dense_ascii` -/
theorem skipCols_of_rdDense (g : Cfg) (hp : 1 ≤ g.perline) (w : Nat) (cols : Int) :
    ∀ (fuel : Nat) (c r : Int) (line : Str) (ls : List Str) (acc puts : List APut) (rest : List Str),
      rdDense g cols fuel c r line ls acc = some (puts, rest) →
      skipCols 0 w g.perline cols fuel c line ls = some rest := by
  intro fuel
  induction fuel with
  | zero => intro c r line ls acc puts rest h; simp [rdDense] at h
  | succ fuel ih =>
    intro c r line ls acc puts rest h
    rw [rdDense] at h
    rw [skipCols]
    by_cases hc : c < cols
    · simp only [hc, if_true] at h ⊢
      by_cases hb : c < 0 ∨ r ≤ 0
      · simp [hb] at h
      · simp only [hb, if_false] at h
        cases he : pyInt? (slice line 16 24) with
        | none => simp [he] at h
        | some elems =>
          simp only [he] at h ⊢
          by_cases hn : elems < 0
          · simp [hn] at h
          · simp only [hn, if_false] at h
            have hE : elems = ((elems.toNat : Nat) : Int) := by omega
            rw [getBlock_snd] at h
            have hnl : ((elems + (g.perline : Int) - 1) / (g.perline : Int)).toNat
                = (if elems.toNat = 0 then 0 else (elems.toNat - 1) / g.perline + 1) := by
              rw [hE, Int.toNat_natCast]; exact nlines_eq _ _ hp
            rw [hnl]
            cases hd : ls.drop (if elems.toNat = 0 then 0 else (elems.toNat - 1) / g.perline + 1) with
            | nil => rw [hd] at h; simp at h
            | cons line' ls2 =>
              rw [hd] at h
              cases hv : readVals g (getBlock g elems.toNat ls).1 elems.toNat with
              | none => rw [hv] at h; simp at h
              | some es =>
                rw [hv] at h
                simp only at h
                cases hch : colHead line' with
                | none => rw [hch] at h; simp at h
                | some q =>
                  obtain ⟨c', r'⟩ := q
                  rw [hch] at h
                  simp only at h
                  obtain ⟨c0, hc0, hcc⟩ := colHead_some line' c' r' hch
                  simp only [if_true, hc0, ← hcc]
                  exact ih c' r' line' ls2 _ puts rest h
    · simp only [hc, if_false, Option.some.injEq, Prod.mk.injEq] at h ⊢
      exact h.2

/-- `_skipop4_ascii`, bigmat / nonbigmat branches, against `_rd_bigmat_ascii` / `_rd_nonbigmat_ascii` -/
theorem skipCols_of_rdSparse (g : Cfg) (hp : 1 ≤ g.perline) (big : Bool) (cols : Int) :
    ∀ (fuel : Nat) (c : Int) (line : Str) (ls : List Str) (acc puts : List APut) (rest : List Str),
      rdSparse g big cols fuel c line ls acc = some (puts, rest) →
      skipCols (if big then 1 else 2) g.wper g.perline cols fuel c line ls = some rest := by
  intro fuel
  induction fuel with
  | zero => intro c line ls acc puts rest h; simp [rdSparse] at h
  | succ fuel ih =>
    intro c line ls acc puts rest h
    rw [rdSparse] at h
    rw [skipCols]
    by_cases hc : c < cols
    · simp only [hc, if_true] at h ⊢
      by_cases hb : c < 0
      · simp [hb] at h
      · simp only [hb, if_false] at h
        cases he : pyInt? (slice line 16 24) with
        | none => simp [he] at h
        | some elems =>
          simp only [he] at h ⊢
          have hk : ¬ ((if big = true then 1 else 2) = 0) := by cases big <;> simp
          have hk1 : decide ((if big = true then 1 else 2) = 1) = big := by cases big <;> simp
          simp only [hk, if_false, hk1]
          cases hs : (if big = true then rdStrBig g ls.length elems.toNat ls else rdStrNonbig g ls.length elems.toNat ls) with
          | none => rw [hs] at h; simp at h
          | some q =>
            obtain ⟨ss, after⟩ := q
            rw [hs] at h
            have hskip : skipStrs big g.wper g.perline (ls.length + 1) elems ls = some after := by
              cases big with
              | true => exact skipStrs_of_rdStrBig g hp _ _ elems ls ss after rfl hs _ (by omega)
              | false => exact skipStrs_of_rdStrNonbig g hp _ _ elems ls ss after rfl hs _ (by omega)
            rw [hskip]
            cases after with
            | nil => simp at h
            | cons line' ls2 =>
              simp only at h ⊢
              cases hc1 : pyInt? (slice line' 0 8) with
              | none => rw [hc1] at h; simp at h
              | some c1 =>
                rw [hc1] at h
                simp only at h ⊢
                exact ih (c1 - 1) line' ls2 _ puts rest h
    · simp only [hc, if_false, Option.some.injEq, Prod.mk.injEq] at h ⊢
      exact h.2

/-! ### one matrix -/

theorem parseFormat_perline (tail : Str) (p n : Nat) (h : parseFormat tail = some (p, n)) : 1 ≤ p := by
  unfold parseFormat at h
  simp only at h
  have hd : defaultPerline = 5 := rfl
  repeat' split at h
  all_goals (cases h <;> first | omega | decide)

/-- a title line that `_loadop4_ascii` accepts announces (or defaults to) at least one value per line -/
theorem rdHeader_perline (l0 : Str) (h : Hdr) (hh : rdHeader l0 = some (some h)) : 1 ≤ h.perline := by
  have key : ∀ (c : Prop) [Decidable c] (t : Str) (p n : Nat),
      (if c then parseFormat t else some (defaultPerline, defaultNumlen)) = some (p, n) → 1 ≤ p := by
    intro c _ t p n hx
    by_cases hc : c
    · rw [if_pos hc] at hx; exact parseFormat_perline _ _ _ hx
    · rw [if_neg hc] at hx
      simp only [Option.some.injEq, Prod.mk.injEq] at hx
      have : defaultPerline = 5 := rfl
      omega
  unfold rdHeader at hh
  simp only at hh
  split at hh
  · cases hh
  · split at hh
    · split at hh
      · next perline numlen hf =>
        simp only [Option.some.injEq] at hh
        rw [← hh]
        exact key _ _ _ _ hf
      · cases hh
    · cases hh

/-- **skip_positions_ascii**, one matrix: whenever `_loadop4_ascii` reads a matrix from the lines `ls` and
leaves `rest`, the listing step (title line, `_skipop4_ascii`, the closing `readline()`) accepts the same lines,
leaves exactly `rest` and reports the header the read reports -/
theorem skipMatrixA_of_rdMatrixA (dformat : Bool) (ls : List Str) (d : ADec) (rest : List Str)
    (h : rdMatrixA dformat ls = some (some (d, rest))) :
    ∃ hd, skipMatrixA ls = some (some (hd, rest)) ∧ listingH hd = listingA d ∧ hd.name = d.rawName := by
  unfold rdMatrixA at h
  unfold skipMatrixA
  cases ls with
  | nil => simp at h
  | cons l0 ls1 =>
    simp only at h ⊢
    cases hh : rdHeader l0 with
    | none => rw [hh] at h; simp at h
    | some oh =>
      cases oh with
      | none => rw [hh] at h; simp at h
      | some hd =>
        have hp := rdHeader_perline l0 hd hh
        rw [hh] at h
        simp only at h ⊢
        cases ls1 with
        | nil => simp at h
        | cons line ls2 =>
          simp only at h ⊢
          cases hch : colHead line with
          | none => rw [hch] at h; simp at h
          | some q =>
            obtain ⟨c, r⟩ := q
            rw [hch] at h
            simp only at h
            unfold colHead at hch
            cases h1 : pyInt? (slice line 0 8) with
            | none => simp [h1] at hch
            | some c1 =>
              cases h2 : pyInt? (slice line 8 16) with
              | none => simp [h1, h2] at hch
              | some r0 =>
                simp only [h1, h2, Option.some.injEq, Prod.mk.injEq] at hch
                obtain ⟨hcc, hrr⟩ := hch
                subst hrr
                subst hcc
                simp only
                -- the reader's configuration
                generalize hg : Cfg.mk dformat (decide (3 ≤ hd.mtype)) (if hd.mtype % 2 = 1 then 1 else 2) hd.perline
                    hd.numlen = g at h
                have hgp : g.perline = hd.perline := by rw [← hg]
                have hgw : g.wper = (if hd.mtype % 2 = 1 then 1 else 2) := by rw [← hg]
                have hp' : 1 ≤ g.perline := by rw [hgp]; exact hp
                -- which reader / which skip branch
                unfold chooseLayout at h
                by_cases hr : r0 > 0
                · simp only [hr, if_true] at h ⊢
                  by_cases hz : (decide (c1 - 1 ≥ hd.cols) = true ∧ hd.rows < 0)
                  · -- all-zero bigmat announced by a negative row count: no column is read by either
                    simp only [hz, and_self, if_true] at h
                    have hcge : ¬ (c1 - 1 < hd.cols) := by
                      have := hz.1; simp only [ge_iff_le, decide_eq_true_eq] at this; omega
                    cases hb : rdSparse g true hd.cols (ls2.length + 1) (c1 - 1) line ls2 [] with
                    | none => rw [hb] at h; simp at h
                    | some q =>
                      obtain ⟨puts, after⟩ := q
                      rw [hb] at h
                      simp only [Option.some.injEq, Prod.mk.injEq] at h
                      rw [rdSparse] at hb
                      simp only [hcge, if_false, Option.some.injEq, Prod.mk.injEq] at hb
                      rw [skipCols]
                      simp only [hcge, if_false]
                      rw [hb.2]
                      refine ⟨hd, by simp only [h.2], ?_, ?_⟩
                      · rw [← h.1]; rfl
                      · rw [← h.1]
                  · simp only [hz, if_false] at h
                    cases hb : rdDense g hd.cols (ls2.length + 1) (c1 - 1) r0 line ls2 [] with
                    | none => rw [hb] at h; simp at h
                    | some q =>
                      obtain ⟨puts, after⟩ := q
                      rw [hb] at h
                      simp only [Option.some.injEq, Prod.mk.injEq] at h
                      have := skipCols_of_rdDense g hp' (if hd.mtype % 2 = 1 then 1 else 2) hd.cols _ (c1 - 1) r0 line ls2 [] puts after hb
                      rw [hgp] at this
                      rw [this]
                      refine ⟨hd, by simp only [h.2], ?_, ?_⟩
                      · rw [← h.1]; rfl
                      · rw [← h.1]
                · simp only [hr, if_false] at h ⊢
                  by_cases hbig : hd.rows < 0 ∨ hd.rows ≥ (rows4bigmat : Int)
                  · simp only [hbig, if_true] at h ⊢
                    cases hb : rdSparse g true hd.cols (ls2.length + 1) (c1 - 1) line ls2 [] with
                    | none => rw [hb] at h; simp at h
                    | some q =>
                      obtain ⟨puts, after⟩ := q
                      rw [hb] at h
                      simp only [Option.some.injEq, Prod.mk.injEq] at h
                      have := skipCols_of_rdSparse g hp' true hd.cols _ (c1 - 1) line ls2 [] puts after hb
                      rw [hgp, hgw] at this
                      simp only [if_true] at this
                      rw [this]
                      refine ⟨hd, by simp only [h.2], ?_, ?_⟩
                      · rw [← h.1]; rfl
                      · rw [← h.1]
                  · simp only [hbig, if_false] at h ⊢
                    cases hb : rdSparse g false hd.cols (ls2.length + 1) (c1 - 1) line ls2 [] with
                    | none => rw [hb] at h; simp at h
                    | some q =>
                      obtain ⟨puts, after⟩ := q
                      rw [hb] at h
                      simp only [Option.some.injEq, Prod.mk.injEq] at h
                      have := skipCols_of_rdSparse g hp' false hd.cols _ (c1 - 1) line ls2 [] puts after hb
                      rw [hgp, hgw] at this
                      simp only [Bool.false_eq_true, if_false] at this
                      rw [this]
                      refine ⟨hd, by simp only [h.2], ?_, ?_⟩
                      · rw [← h.1]; rfl
                      · rw [← h.1]

end PyYetiVerif.Op4VA
