import PyYetiVerif.Model.Freq
import Mathlib.Algebra.Field.Basic
import Mathlib.Data.Matrix.Basic
import Mathlib.Data.Matrix.Mul
import Mathlib.LinearAlgebra.Matrix.NonsingularInverse
import Mathlib.Algebra.BigOperators.Fin
import Mathlib.Tactic.FieldSimp
import Mathlib.Tactic.Ring
import Mathlib.Tactic.LinearCombination
import Mathlib.Tactic.Abel
import Mathlib.Data.List.Sort
/-! Helper lemmas for C02: the model's list sums are Mathlib's finite sums, the model's
`mulVec`/`dynStiff` are Mathlib's `Matrix.mulVec` / `K - Ω² M + iΩ B`, the block-matrix argument for
the complex-mode solution in pure Mathlib terms, and an index lemma for the non-rf list. -/
namespace PyYetiVerif.Freq
open Matrix

theorem vsum_eq_sum' {ρ : Type} [AddCommMonoid ρ] {n : Nat} (f : Fin n → ρ) : vsum f = ∑ j, f j := by
  unfold vsum; rw [Fin.sum_univ_def]

section bridge
variable {α : Type} [Field α]

theorem vsum_eq_sum {n : Nat} (f : Fin n → α) : vsum f = ∑ j, f j := by
  unfold vsum; rw [Fin.sum_univ_def]

theorem mulVec_eq {n s : Nat} (A : Fin n → Fin s → α) (x : Fin s → α) :
    Freq.mulVec A x = Matrix.mulVec (Matrix.of A) x := by
  funext r
  simp only [Freq.mulVec, vsum_eq_sum, Matrix.mulVec, dotProduct, Matrix.of_apply]

theorem dynStiff_eq {n : Nat} (i w : α) (M B K : Fin n → Fin n → α) :
    Matrix.of (dynStiff i w M B K) = Matrix.of K - (w * w) • Matrix.of M + (i * w) • Matrix.of B := by
  ext r c
  simp only [dynStiff, Matrix.of_apply, Matrix.add_apply, Matrix.sub_apply, Matrix.smul_apply, smul_eq_mul]
  ring

end bridge

section core
variable {α : Type} [Field α]

theorem mulVec_unique {n : Nat} (H : Matrix (Fin n) (Fin n) α) (hH : H.det ≠ 0)
    (x y f : Fin n → α) (hx : H *ᵥ x = f) (hy : H *ᵥ y = f) : x = y := by
  have hu : IsUnit H.det := isUnit_iff_ne_zero.mpr hH
  exact Matrix.mulVec_injective_of_isUnit ((Matrix.isUnit_iff_isUnit_det H).2 hu) (hx.trans hy.symm)

theorem coupled_core {n s : Nat} (i w : α) (M B K : Matrix (Fin n) (Fin n) α)
    (lam : Fin s → α) (Uv Ud : Matrix (Fin n) (Fin s) α) (Wv : Matrix (Fin s) (Fin n) α)
    (f g : Fin n → α)
    (hg : M *ᵥ g = f)
    (htop : M * (Uv * diagonal lam) + B * Uv + K * Ud = 0)
    (hbot : Uv = Ud * diagonal lam)
    (h1 : Uv * Wv = 1) (h2 : Ud * Wv = 0)
    (hH : ∀ j, i * w - lam j ≠ 0) (hi : i * i = -1) :
    (K - (w * w) • M + (i * w) • B) *ᵥ (Ud *ᵥ fun j => (Wv *ᵥ g) j / (i * w - lam j)) = f := by
  set z : Fin s → α := fun j => (Wv *ᵥ g) j / (i * w - lam j) with hz
  set d := Ud *ᵥ z with hdd
  -- (iw - Λ) z = Wv g
  have hz1 : (i * w) • z - diagonal lam *ᵥ z = Wv *ᵥ g := by
    funext j
    simp only [Pi.sub_apply, Pi.smul_apply, smul_eq_mul, mulVec_diagonal, hz]
    have := hH j
    field_simp
  -- Ud Wv g = 0
  have e2 : Ud *ᵥ (Wv *ᵥ g) = 0 := by rw [mulVec_mulVec, h2, zero_mulVec]
  have e1 : Uv *ᵥ (Wv *ᵥ g) = g := by rw [mulVec_mulVec, h1, one_mulVec]
  have hv : Uv *ᵥ z = Ud *ᵥ (diagonal lam *ᵥ z) := by rw [hbot, ← mulVec_mulVec]
  -- Ud Λ z = iw d
  have hA : Ud *ᵥ (diagonal lam *ᵥ z) = (i * w) • d := by
    have := congrArg (fun x => Ud *ᵥ x) hz1
    simp only [mulVec_sub, mulVec_smul, e2] at this
    rw [hdd]
    exact (sub_eq_zero.mp this).symm
  -- Uv Λ z = iw (iw d) - g
  have hB : Uv *ᵥ (diagonal lam *ᵥ z) = (i * w) • ((i * w) • d) - g := by
    have := congrArg (fun x => Uv *ᵥ x) hz1
    simp only [mulVec_sub, mulVec_smul, e1, hv, hA] at this
    rw [← this]; abel
  have ht := congrArg (fun X => X *ᵥ z) htop
  simp only [add_mulVec, zero_mulVec, ← mulVec_mulVec, hB, hv, hA, ← hdd] at ht
  -- ht : M (iw iw d - g) + B (iw d) + K d = 0
  simp only [mulVec_sub, mulVec_smul, hg] at ht
  rw [add_mulVec, sub_mulVec, smul_mulVec, smul_mulVec]
  have hii : (i * w) • (i * w) • (M *ᵥ d) = -((w * w) • (M *ᵥ d)) := by
    rw [smul_smul, show i * w * (i * w) = -(w * w) by linear_combination (w * w) * hi, neg_smul]
  rw [hii] at ht
  have : K *ᵥ d - (w * w) • M *ᵥ d + (i * w) • B *ᵥ d - f = 0 := by
    rw [← ht]; abel
  exact sub_eq_zero.mp this


end core

theorem nonrf_getElem (n r : Nat) (rf : List Nat) (hr : r < n) (h : ∀ j, j ≤ r → j ∉ rf) :
    (nonrfOf n rf)[r]? = some r := by
  unfold nonrfOf
  have hn : n = (r + 1) + (n - (r + 1)) := by omega
  rw [hn, List.range_add, List.filter_append]
  have h1 : (List.range (r + 1)).filter (fun j => !rf.contains j) = List.range (r + 1) := by
    rw [List.filter_eq_self]
    intro j hj
    have : j ≤ r := by have := List.mem_range.1 hj; omega
    simp [h j this]
  rw [h1, List.getElem?_append_left (by simp)]
  simp

end PyYetiVerif.Freq
