import PyYetiVerif.Lemmas.NasFloat
/-! C12: `float(str)` on a decimal mantissa (`toBits` for `1 ≤ a/b ≤ 10`): the result is a finite
double of the sign asked for within `2^-50` of `a/b` (scaling exponent from the bit lengths,
round-half-even significand, carry into the next binade, encode / decode of the bit pattern). -/
set_option linter.unusedSimpArgs false
set_option linter.unusedVariables false
namespace PyYetiVerif.PyFloat

theorem rheDiv_ge (a b M : Nat) (hb : 0 < b) (h : M * b ≤ a) : M ≤ rheDiv a b := by
  have hq : M ≤ a / b := (Nat.le_div_iff_mul_le hb).2 h
  rcases rheDiv_cases a b with h1 | h1 <;> omega

/-- the scaling exponent for a mantissa `1 ≤ a/b ≤ 10`: `binExp a b = -J` with `49 ≤ J ≤ 53` and
`2^52 ≤ a·2^J / b < 2^53` -/
theorem binExp_mant (a b : Nat) (hb : 0 < b) (h1 : b ≤ a) (h2 : a ≤ 10 * b) :
    ∃ J : Nat, binExp a b = -(J : Int) ∧ 49 ≤ J ∧ J ≤ 53 ∧
      2 ^ 52 * b ≤ a * 2 ^ J ∧ a * 2 ^ J < 2 ^ 53 * b := by
  have ha : a ≠ 0 := by omega
  have hb0 : b ≠ 0 := by omega
  have la1 : 2 ^ a.log2 ≤ a := Nat.log2_self_le ha
  have la2 : a < 2 ^ (a.log2 + 1) := Nat.lt_log2_self
  have lb1 : 2 ^ b.log2 ≤ b := Nat.log2_self_le hb0
  have lb2 : b < 2 ^ (b.log2 + 1) := Nat.lt_log2_self
  -- lb ≤ la ≤ lb + 4
  have hle : b.log2 ≤ a.log2 := by
    by_contra hcon
    have : a.log2 + 1 ≤ b.log2 := by omega
    have : 2 ^ (a.log2 + 1) ≤ 2 ^ b.log2 := Nat.pow_le_pow_right (by norm_num) this
    omega
  have hle2 : a.log2 ≤ b.log2 + 4 := by
    by_contra hcon
    have : b.log2 + 5 ≤ a.log2 := by omega
    have h3 : 2 ^ (b.log2 + 5) ≤ 2 ^ a.log2 := Nat.pow_le_pow_right (by norm_num) this
    have h4 : 2 ^ (b.log2 + 5) = 16 * 2 ^ (b.log2 + 1) := by rw [pow_add, pow_add]; ring
    omega
  obtain ⟨d, hd⟩ : ∃ d, a.log2 = b.log2 + d := ⟨a.log2 - b.log2, by omega⟩
  have hd4 : d ≤ 4 := by omega
  -- the first scaling
  have hq1 : ((a.log2 : Int) - (b.log2 : Int) - 53) = -((53 - d : Nat) : Int) := by
    rw [hd]; push_cast; omega
  have hlo : 2 ^ 52 * b < a * 2 ^ (53 - d) := by
    calc 2 ^ 52 * b < 2 ^ 52 * 2 ^ (b.log2 + 1) := Nat.mul_lt_mul_of_pos_left lb2 (by positivity)
      _ = 2 ^ (b.log2 + d) * 2 ^ (53 - d) := by rw [← pow_add, ← pow_add]; congr 1; omega
      _ ≤ a * 2 ^ (53 - d) := Nat.mul_le_mul_right _ (by rw [← hd]; exact la1)
  have hhi : a * 2 ^ (53 - d) < 2 ^ 54 * b := by
    calc a * 2 ^ (53 - d) < 2 ^ (b.log2 + d + 1) * 2 ^ (53 - d) :=
          Nat.mul_lt_mul_of_pos_right (by rw [← hd]; exact la2) (by positivity)
      _ = 2 ^ 54 * 2 ^ b.log2 := by rw [← pow_add, ← pow_add]; congr 1; omega
      _ ≤ 2 ^ 54 * b := Nat.mul_le_mul_left _ lb1
  unfold binExp
  simp only [hq1]
  have hneg : ¬ (-((53 - d : Nat) : Int) ≥ 0) := by omega
  have hs1 : scale2 a b (-((53 - d : Nat) : Int)) = (a * 2 ^ (53 - d), b) := by
    unfold scale2
    simp only [hneg, if_false, neg_neg, Int.toNat_natCast]
  rw [hs1]
  simp only
  by_cases hc : a * 2 ^ (53 - d) / b ≥ 2 ^ 53
  · have hc' : 2 ^ 53 * b ≤ a * 2 ^ (53 - d) := (Nat.le_div_iff_mul_le hb).1 hc
    have hd3 : d ≤ 3 := by
      by_contra hcon
      have : d = 4 := by omega
      subst this
      norm_num at hc'
      omega
    refine ⟨52 - d, ?_, by omega, by omega, ?_, ?_⟩
    · simp only [hc, if_true]
      have : ¬ (-((53 - d : Nat) : Int) + 1 < -1074) := by omega
      simp only [this, if_false]
      omega
    · have e : a * 2 ^ (53 - d) = 2 * (a * 2 ^ (52 - d)) := by
        have : 53 - d = (52 - d) + 1 := by omega
        rw [this, pow_succ]; ring
      omega
    · have e : a * 2 ^ (53 - d) = 2 * (a * 2 ^ (52 - d)) := by
        have : 53 - d = (52 - d) + 1 := by omega
        rw [this, pow_succ]; ring
      omega
  · have hc' : a * 2 ^ (53 - d) < 2 ^ 53 * b := by
      have := (Nat.div_lt_iff_lt_mul hb).1 (not_le.1 hc)
      exact this
    refine ⟨53 - d, ?_, by omega, by omega, le_of_lt hlo, hc'⟩
    simp only [hc, if_false]
    have : ¬ (-((53 - d : Nat) : Int) < -1074) := by omega
    simp only [this, if_false]


/-- decoding what `encodeBits` wrote for a normal significand and a negative exponent -/
theorem ofBits_encodeBits (neg : Bool) (m J : Nat) (hm1 : 2 ^ 52 ≤ m) (hm2 : m ≤ 2 ^ 53)
    (hJ1 : 2 ≤ J) (hJ2 : J ≤ 60) :
    ∃ m' J', ofBits (encodeBits neg m (-(J : Int))) = some ⟨neg, m', 2 ^ J'⟩ ∧
      m' * 2 ^ J = m * 2 ^ J' ∧ J' ≤ J ∧ J ≤ J' + 1 := by
  have hnot : ¬ m < 2 ^ 52 := by omega
  by_cases hc : m ≥ 2 ^ 53
  · have hm : m = 2 ^ 53 := by omega
    subst hm
    refine ⟨2 ^ 52, J - 1, ?_, ?_, by omega, by omega⟩
    · unfold encodeBits
      simp only [hnot, if_false, hc, if_true]
      have he : ¬ (-(J : Int) + 1 + 1075 ≥ 2047) := by omega
      simp only [he, if_false]
      have hE : (-(J : Int) + 1 + 1075).toNat = 1076 - J := by omega
      rw [hE]
      obtain ⟨E, hE⟩ : ∃ E, 1076 - J = E := ⟨_, rfl⟩
      have hE1 : 1 ≤ E := by omega
      have hE2 : E ≤ 1074 := by omega
      have hJ' : J - 1 = 1075 - E := by omega
      rw [hE, hJ']
      unfold ofBits
      cases neg <;> simp only [if_true, if_false, Bool.false_eq_true] <;> norm_num <;>
        (split_ifs <;> first | omega | (simp; try omega))
    · have : J = (J - 1) + 1 := by omega
      conv_lhs => rw [this, pow_succ]
      ring
  · refine ⟨m, J, ?_, rfl, le_refl _, by omega⟩
    unfold encodeBits
    simp only [hnot, if_false, hc]
    have he : ¬ (-(J : Int) + 1075 ≥ 2047) := by omega
    simp only [he, if_false]
    have hE : (-(J : Int) + 1075).toNat = 1075 - J := by omega
    rw [hE]
    obtain ⟨E, hE⟩ : ∃ E, 1075 - J = E := ⟨_, rfl⟩
    have hE1 : 1 ≤ E := by omega
    have hE2 : E ≤ 1074 := by omega
    have hJ' : J = 1075 - E := by omega
    rw [hE]
    conv_rhs => rw [hJ']
    unfold ofBits
    have hm2' : m < 2 ^ 53 := by omega
    norm_num at hm1 hm2' ⊢
    cases neg <;> simp only [if_true, if_false, Bool.false_eq_true] <;> norm_num <;>
      (split_ifs <;> first | omega | (simp; try omega))


theorem weaken_bound (K C X Y Z : Nat) (hCK : C ≤ K) (h : K * X ≤ K * Y + Z) : C * X ≤ C * Y + Z := by
  rcases Nat.le_total X Y with hxy | hxy
  · exact le_trans (Nat.mul_le_mul_left _ hxy) (Nat.le_add_right _ _)
  · obtain ⟨D, rfl⟩ := Nat.exists_eq_add_of_le hxy
    have h1 : K * D ≤ Z := by
      have : K * (Y + D) = K * Y + K * D := by ring
      omega
    have h2 : C * D ≤ K * D := Nat.mul_le_mul_right _ hCK
    have : C * (Y + D) = C * Y + C * D := by ring
    omega

/-- **`float(svalue)` on a mantissa**: for `1 ≤ a/b ≤ 10` the nearest double `v` is finite, has the
sign asked for, and `|v − a/b| ≤ 2^-50`. -/
theorem toBits_mant (neg : Bool) (a b : Nat) (hb : 0 < b) (h1 : b ≤ a) (h2 : a ≤ 10 * b) :
    ∃ v : Dbl, ofBits (toBits neg a b) = some v ∧ v.neg = neg ∧ 0 < v.den ∧
      2 ^ 50 * (v.num * b) ≤ 2 ^ 50 * (a * v.den) + b * v.den ∧
      2 ^ 50 * (a * v.den) ≤ 2 ^ 50 * (v.num * b) + b * v.den := by
  obtain ⟨J, hq, hJ1, hJ2, hlo, hhi⟩ := binExp_mant a b hb h1 h2
  have ha : (a == 0) = false := by
    have : a ≠ 0 := by omega
    simp [this]
  have hs : scale2 a b (-(J : Int)) = (a * 2 ^ J, b) := by
    unfold scale2
    have : ¬ (-(J : Int) ≥ 0) := by omega
    simp only [this, if_false, neg_neg, Int.toNat_natCast]
  have hm1 : 2 ^ 52 ≤ rheDiv (a * 2 ^ J) b := rheDiv_ge _ _ _ hb hlo
  have hm2 : rheDiv (a * 2 ^ J) b ≤ 2 ^ 53 := rheDiv_le _ _ _ hhi
  obtain ⟨m', J', hof, hval, hJ'1, hJ'2⟩ :=
    ofBits_encodeBits neg (rheDiv (a * 2 ^ J) b) J hm1 hm2 (by omega) (by omega)
  obtain ⟨e1, e2⟩ := rheDiv_err (a * 2 ^ J) b hb
  refine ⟨⟨neg, m', 2 ^ J'⟩, ?_, rfl, by positivity, ?_, ?_⟩
  · unfold toBits
    simp only [ha, Bool.false_eq_true, if_false, hq, hs]
    exact hof
  · simp only
    have hK : 2 ^ 50 ≤ 2 * 2 ^ J := by
      calc 2 ^ 50 = 2 * 2 ^ 49 := by norm_num
        _ ≤ 2 * 2 ^ J := Nat.mul_le_mul_left _ (Nat.pow_le_pow_right (by norm_num) hJ1)
    apply weaken_bound (2 * 2 ^ J) _ _ _ _ hK
    -- from 2·m·b ≤ 2·a·2^J + b, times 2^J', with m·2^J' = m'·2^J
    have := Nat.mul_le_mul_right (2 ^ J') e1
    calc 2 * 2 ^ J * (m' * b) = 2 * (m' * 2 ^ J) * b := by ring
      _ = 2 * (rheDiv (a * 2 ^ J) b * 2 ^ J') * b := by rw [hval]
      _ = 2 * (rheDiv (a * 2 ^ J) b * b) * 2 ^ J' := by ring
      _ ≤ (2 * (a * 2 ^ J) + b) * 2 ^ J' := this
      _ = 2 * 2 ^ J * (a * 2 ^ J') + b * 2 ^ J' := by ring
  · simp only
    have hK : 2 ^ 50 ≤ 2 * 2 ^ J := by
      calc 2 ^ 50 = 2 * 2 ^ 49 := by norm_num
        _ ≤ 2 * 2 ^ J := Nat.mul_le_mul_left _ (Nat.pow_le_pow_right (by norm_num) hJ1)
    apply weaken_bound (2 * 2 ^ J) _ _ _ _ hK
    have := Nat.mul_le_mul_right (2 ^ J') e2
    calc 2 * 2 ^ J * (a * 2 ^ J') = 2 * (a * 2 ^ J) * 2 ^ J' := by ring
      _ ≤ (2 * (rheDiv (a * 2 ^ J) b * b) + b) * 2 ^ J' := this
      _ = 2 * (rheDiv (a * 2 ^ J) b * 2 ^ J') * b + b * 2 ^ J' := by ring
      _ = 2 * (m' * 2 ^ J) * b + b * 2 ^ J' := by rw [hval]
      _ = 2 * 2 ^ J * (m' * b) + b * 2 ^ J' := by ring

/-- the scaling exponent for `2^-K ≤ a/b ≤ 10` (`K ≤ 1000`: no underflow) -/
theorem binExp_range (a b K : Nat) (hK : K ≤ 1000) (hb : 0 < b) (h1 : b ≤ a * 2 ^ K) (h2 : a ≤ 10 * b) :
    ∃ J : Nat, binExp a b = -(J : Int) ∧ 49 ≤ J ∧ J ≤ 53 + K ∧
      2 ^ 52 * b ≤ a * 2 ^ J ∧ a * 2 ^ J < 2 ^ 53 * b := by
  have ha : a ≠ 0 := by
    rintro rfl; simp at h1; omega
  have hb0 : b ≠ 0 := by omega
  have la1 : 2 ^ a.log2 ≤ a := Nat.log2_self_le ha
  have la2 : a < 2 ^ (a.log2 + 1) := Nat.lt_log2_self
  have lb1 : 2 ^ b.log2 ≤ b := Nat.log2_self_le hb0
  have lb2 : b < 2 ^ (b.log2 + 1) := Nat.lt_log2_self
  have hle2 : a.log2 ≤ b.log2 + 4 := by
    by_contra hcon
    have : b.log2 + 5 ≤ a.log2 := by omega
    have h3 : 2 ^ (b.log2 + 5) ≤ 2 ^ a.log2 := Nat.pow_le_pow_right (by norm_num) this
    have h4 : 2 ^ (b.log2 + 5) = 16 * 2 ^ (b.log2 + 1) := by rw [pow_add, pow_add]; ring
    omega
  have hle : b.log2 ≤ a.log2 + K := by
    by_contra hcon
    have : a.log2 + 1 + K ≤ b.log2 := by omega
    have h3 : 2 ^ (a.log2 + 1 + K) ≤ 2 ^ b.log2 := Nat.pow_le_pow_right (by norm_num) this
    have h4 : a * 2 ^ K < 2 ^ (a.log2 + 1) * 2 ^ K := Nat.mul_lt_mul_of_pos_right la2 (by positivity)
    rw [← pow_add] at h4
    omega
  obtain ⟨u, hu⟩ : ∃ u, b.log2 + 4 = a.log2 + u := ⟨b.log2 + 4 - a.log2, by omega⟩
  have huK : u ≤ K + 4 := by omega
  have hq1 : ((a.log2 : Int) - (b.log2 : Int) - 53) = -((49 + u : Nat) : Int) := by
    have : (b.log2 : Int) + 4 = a.log2 + u := by exact_mod_cast hu
    push_cast; omega
  have hlo : 2 ^ 52 * b < a * 2 ^ (49 + u) := by
    calc 2 ^ 52 * b < 2 ^ 52 * 2 ^ (b.log2 + 1) := Nat.mul_lt_mul_of_pos_left lb2 (by positivity)
      _ = 2 ^ a.log2 * 2 ^ (49 + u) := by rw [← pow_add, ← pow_add]; congr 1; omega
      _ ≤ a * 2 ^ (49 + u) := Nat.mul_le_mul_right _ la1
  have hhi : a * 2 ^ (49 + u) < 2 ^ 54 * b := by
    calc a * 2 ^ (49 + u) < 2 ^ (a.log2 + 1) * 2 ^ (49 + u) :=
          Nat.mul_lt_mul_of_pos_right la2 (by positivity)
      _ = 2 ^ 54 * 2 ^ b.log2 := by rw [← pow_add, ← pow_add]; congr 1; omega
      _ ≤ 2 ^ 54 * b := Nat.mul_le_mul_left _ lb1
  unfold binExp
  simp only [hq1]
  have hneg : ¬ (-((49 + u : Nat) : Int) ≥ 0) := by omega
  have hs1 : scale2 a b (-((49 + u : Nat) : Int)) = (a * 2 ^ (49 + u), b) := by
    unfold scale2
    simp only [hneg, if_false, neg_neg, Int.toNat_natCast]
  rw [hs1]
  simp only
  by_cases hc : a * 2 ^ (49 + u) / b ≥ 2 ^ 53
  · have hc' : 2 ^ 53 * b ≤ a * 2 ^ (49 + u) := (Nat.le_div_iff_mul_le hb).1 hc
    have hu1 : 1 ≤ u := by
      by_contra hcon
      have : u = 0 := by omega
      subst this
      norm_num at hc'
      omega
    have e : a * 2 ^ (49 + u) = 2 * (a * 2 ^ (48 + u)) := by
      have : 49 + u = (48 + u) + 1 := by omega
      rw [this, pow_succ]; ring
    refine ⟨48 + u, ?_, by omega, by omega, by omega, by omega⟩
    simp only [hc, if_true]
    have : ¬ (-((49 + u : Nat) : Int) + 1 < -1074) := by omega
    simp only [this, if_false]
    push_cast; omega
  · have hc' : a * 2 ^ (49 + u) < 2 ^ 53 * b := (Nat.div_lt_iff_lt_mul hb).1 (not_le.1 hc)
    refine ⟨49 + u, ?_, by omega, by omega, le_of_lt hlo, hc'⟩
    simp only [hc, if_false]
    have : ¬ (-((49 + u : Nat) : Int) < -1074) := by omega
    simp only [this, if_false]

/-- decoding a normal significand for any exponent down to the subnormal limit -/
theorem ofBits_encodeBits_wide (neg : Bool) (m J : Nat) (hm1 : 2 ^ 52 ≤ m) (hm2 : m ≤ 2 ^ 53)
    (hJ1 : 2 ≤ J) (hJ2 : J ≤ 1074) :
    ∃ m' J', ofBits (encodeBits neg m (-(J : Int))) = some ⟨neg, m', 2 ^ J'⟩ ∧ 0 < m' := by
  have hnot : ¬ m < 2 ^ 52 := by omega
  by_cases hc : m ≥ 2 ^ 53
  · have hm : m = 2 ^ 53 := by omega
    subst hm
    refine ⟨2 ^ 52, J - 1, ?_, by positivity⟩
    unfold encodeBits
    simp only [hnot, if_false, hc, if_true]
    have he : ¬ (-(J : Int) + 1 + 1075 ≥ 2047) := by omega
    simp only [he, if_false]
    have hE : (-(J : Int) + 1 + 1075).toNat = 1076 - J := by omega
    rw [hE]
    obtain ⟨E, hE⟩ : ∃ E, 1076 - J = E := ⟨_, rfl⟩
    have hE1 : 1 ≤ E := by omega
    have hE2 : E ≤ 1074 := by omega
    have hJ' : J - 1 = 1075 - E := by omega
    rw [hE, hJ']
    unfold ofBits
    cases neg <;> simp only [if_true, if_false, Bool.false_eq_true] <;> norm_num <;>
      (split_ifs <;> first | omega | (simp; try omega))
  · refine ⟨m, J, ?_, by omega⟩
    unfold encodeBits
    simp only [hnot, if_false, hc]
    have he : ¬ (-(J : Int) + 1075 ≥ 2047) := by omega
    simp only [he, if_false]
    have hE : (-(J : Int) + 1075).toNat = 1075 - J := by omega
    rw [hE]
    obtain ⟨E, hE⟩ : ∃ E, 1075 - J = E := ⟨_, rfl⟩
    have hE1 : 1 ≤ E := by omega
    have hE2 : E ≤ 1073 := by omega
    have hJ' : J = 1075 - E := by omega
    rw [hE]
    conv_rhs => rw [hJ']
    unfold ofBits
    have hm2' : m < 2 ^ 53 := by omega
    norm_num at hm1 hm2' ⊢
    cases neg <;> simp only [if_true, if_false, Bool.false_eq_true] <;> norm_num <;>
      (split_ifs <;> first | omega | (simp; try omega))

/-- **`float()` of a non-zero decimal that is not tiny is not zero**: for `2^-1000 ≤ a/b ≤ 10`
the nearest double is finite with a non-zero significand. -/
theorem toBits_nonzero (neg : Bool) (a b K : Nat) (hK : K ≤ 1000) (hb : 0 < b) (h1 : b ≤ a * 2 ^ K)
    (h2 : a ≤ 10 * b) :
    ∃ v : Dbl, ofBits (toBits neg a b) = some v ∧ v.neg = neg ∧ 0 < v.num := by
  obtain ⟨J, hq, hJ1, hJ2, hlo, hhi⟩ := binExp_range a b K hK hb h1 h2
  have ha : (a == 0) = false := by
    have : a ≠ 0 := by rintro rfl; simp at h1; omega
    simp [this]
  have hs : scale2 a b (-(J : Int)) = (a * 2 ^ J, b) := by
    unfold scale2
    have : ¬ (-(J : Int) ≥ 0) := by omega
    simp only [this, if_false, neg_neg, Int.toNat_natCast]
  have hm1 : 2 ^ 52 ≤ rheDiv (a * 2 ^ J) b := rheDiv_ge _ _ _ hb hlo
  have hm2 : rheDiv (a * 2 ^ J) b ≤ 2 ^ 53 := rheDiv_le _ _ _ hhi
  obtain ⟨m', J', hof, hpos⟩ :=
    ofBits_encodeBits_wide neg (rheDiv (a * 2 ^ J) b) J hm1 hm2 (by omega) (by omega)
  refine ⟨⟨neg, m', 2 ^ J'⟩, ?_, rfl, hpos⟩
  unfold toBits
  simp only [ha, Bool.false_eq_true, if_false, hq, hs]
  exact hof

end PyYetiVerif.PyFloat
