import PyYetiVerif.Lemmas.RainflowGenC2S
/-! Pass two and the last loop of the generated C `rainflow2` without USE_FASTER_RAINFLOW_ROUTINE, and the
refinement theorem `generated_c_rainflow2_slow_eq_model` (core Lean only).  The tables have exactly
`N = L - fullcyclesp1` rows; every write needs `rows written < N`, which holds because the rows written so far
are a prefix of the model's final table (`fold2_rows_le`). -/
set_option linter.unusedSectionVars false
set_option linter.unusedVariables false
set_option linter.unusedSimpArgs false
namespace PyYetiVerif.RainflowGen
open PyYetiVerif.RainflowImp PyYetiVerif.Generated.CRain PyYetiVerif.Rainflow PyYetiVerif.RainflowEntry

variable {α : Type} [Ops α]

structure RelQ2 (L N m : Nat) (s : Rainflow2SlowSt α) (st : List (α × Nat)) (rows : List (Cyc α)) : Prop where
  psize : s.pts.size = L
  csize : s.cycle_index.size = L
  hj : s.j = (st.length : Int) - 1
  hpts : ArrStack s.pts (st.map Prod.fst)
  hci : ArrStack s.cycle_index (offs st)
  hrfc : s.rf = ((rows.length * 3 : Nat) : Int)
  hosc : s.os = ((rows.length * 2 : Nat) : Int)
  hrf : TabOK N 3 s.rf_array (rows.map rfRowC)
  hos : TabOK N 2 s.os_array (rows.map osRow)
  hbound : st.length + rows.length + (rows.filter (·.full)).length = m
  hm : m ≤ L

theorem bodyQ2_brk (habs : ∀ a b : α, Ops.abs (a - b) = absd a b) (peaks : Arr α) (L N m : Nat)
    (s : Rainflow2SlowSt α) (c b a : α × Nat) (rest : List (α × Nat)) (rows : List (Cyc α))
    (hR : RelQ2 L N m s (c :: b :: a :: rest) rows) (hlt : absd b.1 c.1 < absd a.1 b.1) :
    ∃ s', rainflow2_slow_while2_body peaks (L : Int) s = some (Ctl.brk s') ∧
      RelQ2 L N m s' (c :: b :: a :: rest) rows := by
  obtain ⟨psize, csize, hj, hpts, hci, hrfc, hosc, hrf, hos, hbound, hm⟩ := hR
  simp only [List.length_cons] at hj hbound
  have e2 : s.j - 2 = ((rest.length : Nat) : Int) := by omega
  have e1 : s.j - 1 = ((rest.length + 1 : Nat) : Int) := by omega
  have e0 : s.j = ((rest.length + 2 : Nat) : Int) := by omega
  have hp := hpts
  simp only [List.map_cons] at hp
  obtain ⟨p0, p1, p2⟩ := hp.top3
  simp only [List.length_map] at p0 p1 p2
  unfold rainflow2_slow_while2_body
  simp only [e2, e1, Arr.get_natCast, p2, p1, Option.bind_eq_bind, Option.bind_some, habs]
  rw [e0]
  simp only [Arr.get_natCast, p0, Option.bind_some, hlt, if_true]
  refine ⟨_, rfl, ⟨psize, csize, ?_, hpts, hci, hrfc, hosc, hrf, hos, by simpa using hbound, hm⟩⟩
  simp only [List.length_cons]; omega

theorem bodyQ2_full (habs : ∀ a b : α, Ops.abs (a - b) = absd a b) (peaks : Arr α) (L N m : Nat)
    (s : Rainflow2SlowSt α) (c b a r : α × Nat) (rest : List (α × Nat)) (rows : List (Cyc α))
    (hR : RelQ2 L N m s (c :: b :: a :: r :: rest) rows) (hrow : rows.length < N) (hlt : ¬ absd b.1 c.1 < absd a.1 b.1) :
    ∃ s', rainflow2_slow_while2_body peaks (L : Int) s = some (Ctl.next s') ∧
      RelQ2 L N m s' (c :: r :: rest) (rows ++ [mkCyc true a b]) := by
  obtain ⟨psize, csize, hj, hpts, hci, hrfc, hosc, hrf, hos, hbound, hm⟩ := hR
  simp only [List.length_cons] at hj hbound
  have e2 : s.j - 2 = ((rest.length + 1 : Nat) : Int) := by omega
  have e1 : s.j - 1 = ((rest.length + 1 + 1 : Nat) : Int) := by omega
  have e0 : s.j = ((rest.length + 1 + 2 : Nat) : Int) := by omega
  have hp := hpts
  have hc := hci
  simp only [List.map_cons, offs] at hp hc
  obtain ⟨p0, p1, p2⟩ := hp.top3
  obtain ⟨c0, c1, c2⟩ := hc.top3
  simp only [List.length_cons, List.length_map] at p0 p1 p2 c0 c1 c2
  have hrl : (rows.map rfRowC).length = rows.length := by simp
  have hol : (rows.map osRow).length = rows.length := by simp
  have hps : rest.length + 1 < s.pts.size := by omega
  have hcs : rest.length + 1 < s.cycle_index.size := by omega
  unfold rainflow2_slow_while2_body
  simp only [e2, e1, Arr.get_natCast, p2, p1, c2, c1, Option.bind_eq_bind, Option.bind_some, habs]
  rw [e0]
  have hne : ¬ (((rest.length + 1 + 2 : Nat) : Int) = 2) := by omega
  simp only [Arr.get_natCast, p0, c0, Option.bind_some, hlt, if_false, hne, hrfc, hosc]
  rw [Arr2.setAt_of _ _ rows.length 0 _ (by rw [hrf.hc]; rfl) (by rw [hrf.hr]; exact hrow) (by rw [hrf.hc]; omega)]
  simp only [Option.bind_some]
  rw [Arr2.setAt_of _ _ rows.length 1 _ (by simp [hrf.hc]) (by simp [hrf.hr]; exact hrow) (by simp [hrf.hc])]
  simp only [Option.bind_some]
  rw [Arr2.setAt_of _ _ rows.length 2 _ (by simp [hrf.hc]; omega) (by simp [hrf.hr]; exact hrow) (by simp [hrf.hc])]
  simp only [Option.bind_some]
  rw [Arr2.setAt_of _ _ rows.length 0 _ (by rw [hos.hc]; rfl) (by rw [hos.hr]; exact hrow) (by rw [hos.hc]; omega)]
  simp only [Option.bind_some]
  rw [Arr2.setAt_of _ _ rows.length 1 _ (by simp [hos.hc]) (by simp [hos.hr]; exact hrow) (by simp [hos.hc])]
  simp only [Option.bind_some]
  rw [Arr.set_natCast _ _ _ hps]
  simp only [Option.bind_some]
  rw [Arr.set_natCast _ _ _ hcs]
  simp only [Option.bind_some, Option.pure_def]
  have hp4 := hp.step4
  have hc4 := hc.step4
  simp only [List.length_map] at hp4 hc4
  refine ⟨_, rfl, ⟨by simpa using psize, by simpa using csize, ?_, by simpa using hp4,
    by simpa [offs] using hc4, ?_, ?_, ?_, ?_, ?_, hm⟩⟩
  · simp only [List.length_cons]; omega
  · simp only [List.length_append, List.length_cons, List.length_nil]; omega
  · simp only [List.length_append, List.length_cons, List.length_nil]; omega
  · have := hrf.push3 (by rw [hrl]; exact hrow) (Ops.half (absd a.1 b.1)) (Ops.half (a.1 + b.1)) Ops.c1
    rw [hrl] at this
    simpa [rfRowC, mkCyc] using this
  · have := hos.push2 (by rw [hol]; exact hrow) (a.2 : Int) (b.2 : Int)
    rw [hol] at this
    simpa [osRow, mkCyc] using this
  · simp only [List.length_cons, List.length_append, List.length_nil, List.filter_append]
    simp [mkCyc]; omega

theorem bodyQ2_half (habs : ∀ a b : α, Ops.abs (a - b) = absd a b) (peaks : Arr α) (L N m : Nat)
    (s : Rainflow2SlowSt α) (c b a : α × Nat) (rows : List (Cyc α))
    (hR : RelQ2 L N m s [c, b, a] rows) (hrow : rows.length < N) (hlt : ¬ absd b.1 c.1 < absd a.1 b.1) :
    ∃ s', rainflow2_slow_while2_body peaks (L : Int) s = some (Ctl.next s') ∧
      RelQ2 L N m s' [c, b] (rows ++ [mkCyc false a b]) := by
  obtain ⟨psize, csize, hj, hpts, hci, hrfc, hosc, hrf, hos, hbound, hm⟩ := hR
  simp only [List.length_cons, List.length_nil] at hj hbound
  have e0 : s.j = 2 := by omega
  have hp := hpts
  have hc := hci
  simp only [List.map_cons, List.map_nil, offs] at hp hc
  obtain ⟨p0, p1, p2⟩ := hp.top3
  obtain ⟨c0, c1, c2⟩ := hc.top3
  simp only [List.length_nil] at p0 p1 p2 c0 c1 c2
  have hrl : (rows.map rfRowC).length = rows.length := by simp
  have hol : (rows.map osRow).length = rows.length := by simp
  have hps : 3 ≤ s.pts.size := by omega
  have hcs : 3 ≤ s.cycle_index.size := by omega
  unfold rainflow2_slow_while2_body
  simp only [e0, Int.sub_self, Arr.get_zero, Arr.get_one, Arr.get_two, p2, p1, p0, c2, c1, c0,
    Option.bind_eq_bind, Option.bind_some, habs, hlt, if_false, if_true, hrfc, hosc,
    show (2 : Int) - 1 = 1 from rfl]
  rw [Arr2.setAt_of _ _ rows.length 0 _ (by rw [hrf.hc]; rfl) (by rw [hrf.hr]; exact hrow) (by rw [hrf.hc]; omega)]
  simp only [Option.bind_some]
  rw [Arr2.setAt_of _ _ rows.length 1 _ (by simp [hrf.hc]) (by simp [hrf.hr]; exact hrow) (by simp [hrf.hc])]
  simp only [Option.bind_some]
  rw [Arr2.setAt_of _ _ rows.length 2 _ (by simp [hrf.hc]; omega) (by simp [hrf.hr]; exact hrow) (by simp [hrf.hc])]
  simp only [Option.bind_some]
  rw [Arr2.setAt_of _ _ rows.length 0 _ (by rw [hos.hc]; rfl) (by rw [hos.hr]; exact hrow) (by rw [hos.hc]; omega)]
  simp only [Option.bind_some]
  rw [Arr2.setAt_of _ _ rows.length 1 _ (by simp [hos.hc]) (by simp [hos.hr]; exact hrow) (by simp [hos.hc])]
  simp only [Option.bind_some]
  rw [Arr.set_zero _ _ (by omega)]
  simp only [Option.bind_some, Arr.get_two]
  rw [Arr.val_upd_ne _ _ _ _ (by omega) (by omega), p0]
  simp only [Option.bind_some]
  rw [Arr.set_one _ _ (by simp; omega)]
  simp only [Option.bind_some]
  rw [Arr.set_zero _ _ (by omega)]
  simp only [Option.bind_some, Arr.get_two]
  rw [Arr.val_upd_ne _ _ _ _ (by omega) (by omega), c0]
  simp only [Option.bind_some]
  rw [Arr.set_one _ _ (by simp; omega)]
  simp only [Option.bind_some, Option.pure_def]
  refine ⟨_, rfl, ⟨by simpa using psize, by simpa using csize, ?_, by simpa using hp.step5,
    by simpa [offs] using hc.step5, ?_, ?_, ?_, ?_, ?_, hm⟩⟩
  · simp
  · simp only [List.length_append, List.length_cons, List.length_nil]; omega
  · simp only [List.length_append, List.length_cons, List.length_nil]; omega
  · have := hrf.push3 (by rw [hrl]; exact hrow) (Ops.half (absd a.1 b.1)) (Ops.half (a.1 + b.1)) Ops.c05
    rw [hrl] at this
    simpa [rfRowC, mkCyc] using this
  · have := hos.push2 (by rw [hol]; exact hrow) (a.2 : Int) (b.2 : Int)
    rw [hol] at this
    simpa [osRow, mkCyc] using this
  · simp only [List.length_cons, List.length_append, List.length_nil, List.filter_append]
    simp [mkCyc]; omega

/-- the `while j > 1` loop of the generated C `rainflow2` is the model's `reduce` -/
theorem whileQ2_sim (habs : ∀ a b : α, Ops.abs (a - b) = absd a b) (peaks : Arr α) (L N m : Nat)
    (st : List (α × Nat)) : ∀ (s : Rainflow2SlowSt α) (rows : List (Cyc α)) (fuel : Nat),
    RelQ2 L N m s st rows → rows.length + (reduce st).2.length ≤ N → st.length ≤ fuel → 0 < fuel →
    ∃ s', whileLoop (rainflow2_slow_while2_cond peaks (L : Int)) (rainflow2_slow_while2_body peaks (L : Int)) fuel s
        = some s' ∧ RelQ2 L N m s' (reduce st).1 (rows ++ (reduce st).2) := by
  fun_induction reduce st with
  | case1 c b a h =>
      intro s rows fuel hR hcap hf h0
      obtain ⟨fuel, rfl⟩ : ∃ f, fuel = f + 1 := ⟨fuel - 1, by omega⟩
      obtain ⟨s', hb, hR'⟩ := bodyQ2_brk habs peaks L N m s c b a [] rows hR h
      have hc : rainflow2_slow_while2_cond peaks (L : Int) s = true := by
        simp [rainflow2_slow_while2_cond, hR.hj]
      refine ⟨s', ?_, by simpa using hR'⟩
      simp [whileLoop, hc, hb]
  | case2 c b a h =>
      intro s rows fuel hR hcap hf h0
      obtain ⟨fuel, rfl⟩ : ∃ f, fuel = f + 1 := ⟨fuel - 1, by omega⟩
      obtain ⟨s', hb, hR'⟩ := bodyQ2_half habs peaks L N m s c b a rows hR (by simp at hcap; omega) h
      have hc : rainflow2_slow_while2_cond peaks (L : Int) s = true := by
        simp [rainflow2_slow_while2_cond, hR.hj]
      have hc' : rainflow2_slow_while2_cond peaks (L : Int) s' = false := by
        simp [rainflow2_slow_while2_cond, hR'.hj]
      obtain ⟨fuel, rfl⟩ : ∃ f, fuel = f + 1 := ⟨fuel - 1, by simp at hf; omega⟩
      refine ⟨s', ?_, hR'⟩
      simp [whileLoop, hc, hb, hc']
  | case3 c b a r rest h =>
      intro s rows fuel hR hcap hf h0
      obtain ⟨fuel, rfl⟩ : ∃ f, fuel = f + 1 := ⟨fuel - 1, by omega⟩
      obtain ⟨s', hb, hR'⟩ := bodyQ2_brk habs peaks L N m s c b a (r :: rest) rows hR h
      have hc : rainflow2_slow_while2_cond peaks (L : Int) s = true := by
        simp [rainflow2_slow_while2_cond, hR.hj]; omega
      refine ⟨s', ?_, by simpa using hR'⟩
      simp [whileLoop, hc, hb]
  | case4 c b a r rest h res ih =>
      intro s rows fuel hR hcap hf h0
      obtain ⟨fuel, rfl⟩ : ∃ f, fuel = f + 1 := ⟨fuel - 1, by omega⟩
      have hcap' : rows.length + (res.2.length + 1) ≤ N := by simpa using hcap
      obtain ⟨s', hb, hR'⟩ := bodyQ2_full habs peaks L N m s c b a r rest rows hR (by omega) h
      have hc : rainflow2_slow_while2_cond peaks (L : Int) s = true := by
        simp [rainflow2_slow_while2_cond, hR.hj]; omega
      obtain ⟨s'', hw, hR''⟩ := ih s' _ fuel hR' (by simp [res] at hcap' ⊢; omega)
        (by simp at hf ⊢; omega) (by simp at hf; omega)
      refine ⟨s'', ?_, ?_⟩
      · simp [whileLoop, hc, hb, hw]
      · simpa [res] using hR''
  | case5 st h1 h2 =>
      intro s rows fuel hR hcap hf h0
      obtain ⟨fuel, rfl⟩ : ∃ f, fuel = f + 1 := ⟨fuel - 1, by omega⟩
      have hlen : st.length < 3 := by
        match st, h1, h2 with
        | [], _, _ => simp
        | [a], _, _ => simp
        | [a, b], _, _ => simp
        | [c, b, a], h1, _ => exact absurd rfl (h1 c b a)
        | c :: b :: a :: r :: rest, _, h2 => exact absurd rfl (h2 c b a r rest)
      have hc : rainflow2_slow_while2_cond peaks (L : Int) s = false := by
        simp [rainflow2_slow_while2_cond, hR.hj]; omega
      refine ⟨s, ?_, by simpa using hR⟩
      simp [whileLoop, hc]

/-- one pass of `for k in range(L)`: push `(peaks[k], k)`, then the while loop -/
theorem forQ2_sim (habs : ∀ a b : α, Ops.abs (a - b) = absd a b) (pts : List α) (N k : Nat)
    (hk : k < pts.length) (fuel : Nat) (hf : pts.length ≤ fuel)
    (s : Rainflow2SlowSt α) (st : List (α × Nat)) (rows : List (Cyc α))
    (hcap : (step (st, rows) (pts[k], k)).2.length ≤ N)
    (hR : RelQ2 pts.length N k s st rows) :
    ∃ s', rainflow2_slow_for2_body fuel (Arr.ofList pts) (pts.length : Int) (k : Int) s = some s' ∧
      RelQ2 pts.length N (k + 1) s' (step (st, rows) (pts[k], k)).1 (step (st, rows) (pts[k], k)).2 := by
  obtain ⟨psize, csize, hj, hpts, hci, hrfc, hosc, hrf, hos, hbound, hm⟩ := hR
  have ej : s.j + 1 = ((st.length : Nat) : Int) := by omega
  have hs : st.length < s.pts.size := by omega
  have hcs : st.length < s.cycle_index.size := by omega
  unfold rainflow2_slow_for2_body
  simp only [Arr.get_natCast, Arr.val_ofList, List.getElem?_eq_getElem hk, Option.bind_eq_bind,
    Option.bind_some, ej]
  rw [Arr.set_natCast _ _ _ hs]
  simp only [Option.bind_some]
  rw [Arr.set_natCast _ _ _ hcs]
  simp only [Option.bind_some]
  have hpp := hpts.push (by simpa using hs) pts[k]
  have hcp := hci.push (by simpa [offs] using hcs) (k : Int)
  simp only [List.length_map, offs] at hpp hcp
  have hR1 : RelQ2 pts.length N (k + 1)
      ({ s with k := (k : Int), j := (st.length : Int), pts := s.pts.upd st.length pts[k],
                cycle_index := s.cycle_index.upd st.length (k : Int) } : Rainflow2SlowSt α)
      ((pts[k], k) :: st) rows :=
    ⟨by simpa using psize, by simpa using csize, by simp, by simpa using hpp, by simpa [offs] using hcp,
      hrfc, hosc, hrf, hos, by simp; omega, by omega⟩
  obtain ⟨s', hw, hR'⟩ := whileQ2_sim habs (Arr.ofList pts) pts.length N (k + 1) ((pts[k], k) :: st) _ rows fuel hR1
    (by simpa [step] using hcap) (by simp; omega) (by omega)
  refine ⟨s', ?_, by simpa [step] using hR'⟩
  simp [hw]

/-- step 6 of the generated `_rainflow2`: after `k` passes of `for k in range(j)` -/
structure FinQ (N : Nat) (s0 : Rainflow2SlowSt α) (l : List (α × Nat)) (rows0 : List (Cyc α)) (k : Nat)
    (s : Rainflow2SlowSt α) : Prop where
  hp : s.pts = s0.pts
  hc : s.cycle_index = s0.cycle_index
  hA : s.A = (l[k]?).map Prod.fst
  hrfc : s.rf = (((rows0.length + k) * 3 : Nat) : Int)
  hosc : s.os = (((rows0.length + k) * 2 : Nat) : Int)
  hrows : ∃ rowsk : List (Cyc α), rowsk.length = rows0.length + k ∧
      rowsk ++ finish (l.drop k) = rows0 ++ finish l ∧ TabOK N 3 s.rf_array (rowsk.map rfRowC) ∧
      TabOK N 2 s.os_array (rowsk.map osRow)

theorem forQ3_sim (habs : ∀ a b : α, Ops.abs (a - b) = absd a b) (peaks : Arr α) (L N fuel : Nat)
    (s0 : Rainflow2SlowSt α) (l : List (α × Nat)) (rows0 : List (Cyc α)) (k : Nat)
    (hk : k < l.length - 1) (hL : rows0.length + l.length ≤ N + 1)
    (hl : ∀ i (h : i < l.length), s0.pts.val i = some l[i].1)
    (hlc : ∀ i (h : i < l.length), s0.cycle_index.val i = some (l[i].2 : Int))
    (s : Rainflow2SlowSt α) (hQ : FinQ N s0 l rows0 k s) :
    ∃ s', rainflow2_slow_for3_body fuel peaks (L : Int) (k : Int) s = some s' ∧ FinQ N s0 l rows0 (k + 1) s' := by
  obtain ⟨hp, hc, hA, hrfc, hosc, rowsk, hlen, happ, htab, htos⟩ := hQ
  have hk0 : k < l.length := by omega
  have hk1 : k + 1 < l.length := by omega
  have e1 : (k : Int) + 1 = ((k + 1 : Nat) : Int) := by omega
  have er : s.rf = ((rowsk.length * 3 : Nat) : Int) := by rw [hrfc, hlen]
  have eo : s.os = ((rowsk.length * 2 : Nat) : Int) := by rw [hosc, hlen]
  have hrl : (rowsk.map rfRowC).length = rowsk.length := by simp
  have hol : (rowsk.map osRow).length = rowsk.length := by simp
  have hrow : rowsk.length < N := by omega
  rw [List.getElem?_eq_getElem hk0, Option.map_some] at hA
  unfold rainflow2_slow_for3_body
  simp only [e1, Arr.get_natCast, hp, hc, hl (k + 1) hk1, hlc (k + 1) hk1, hlc k hk0, Option.bind_eq_bind,
    Option.bind_some, hA, er, eo, habs]
  rw [Arr2.setAt_of _ _ rowsk.length 0 _ (by rw [htab.hc]; rfl) (by rw [htab.hr]; exact hrow) (by rw [htab.hc]; omega)]
  simp only [Option.bind_some]
  rw [Arr2.setAt_of _ _ rowsk.length 1 _ (by simp [htab.hc]) (by simp [htab.hr]; exact hrow) (by simp [htab.hc])]
  simp only [Option.bind_some]
  rw [Arr2.setAt_of _ _ rowsk.length 2 _ (by simp [htab.hc]; omega) (by simp [htab.hr]; exact hrow) (by simp [htab.hc])]
  simp only [Option.bind_some]
  rw [Arr2.setAt_of _ _ rowsk.length 0 _ (by rw [htos.hc]; rfl) (by rw [htos.hr]; exact hrow) (by rw [htos.hc]; omega)]
  simp only [Option.bind_some]
  rw [Arr2.setAt_of _ _ rowsk.length 1 _ (by simp [htos.hc]) (by simp [htos.hr]; exact hrow) (by simp [htos.hc])]
  simp only [Option.bind_some, Option.pure_def]
  refine ⟨_, rfl, ⟨rfl, rfl, by simp [List.getElem?_eq_getElem hk1], ?_, ?_,
    rowsk ++ [mkCyc false l[k] l[k + 1]], by simp; omega, ?_, ?_, ?_⟩⟩
  · simp only []; omega
  · simp only []; omega
  · have hd : l.drop k = l[k] :: l[k + 1] :: l.drop (k + 2) := by
      rw [List.drop_eq_getElem_cons hk0, List.drop_eq_getElem_cons hk1]
    have hd1 : l.drop (k + 1) = l[k + 1] :: l.drop (k + 2) := List.drop_eq_getElem_cons hk1
    rw [← happ, hd, finish, ← hd1]
    simp
  · have := htab.push3 (by rw [hrl]; exact hrow) (Ops.half (absd l[k].1 l[k + 1].1))
      (Ops.half (l[k].1 + l[k + 1].1)) Ops.c05
    rw [hrl] at this
    simpa [rfRowC, mkCyc] using this
  · have := htos.push2 (by rw [hol]; exact hrow) (l[k].2 : Int) (l[k + 1].2 : Int)
    rw [hol] at this
    simpa [osRow, mkCyc] using this


/-- pass two and the last loop, for tables of exactly `N = rows + stack - 1` rows -/
theorem tailQ2 (habs : ∀ a b : α, Ops.abs (a - b) = absd a b)
    (pts : List α) (h1 : 1 ≤ pts.length) (fuel : Nat) (hf : pts.length ≤ fuel)
    (st : List (α × Nat)) (rows : List (Cyc α))
    (hst : (fold2 pts pts.length).1 = st) (hrows : (fold2 pts pts.length).2 = rows) (hne : st ≠ [])
    (sx : Rainflow2SlowSt α) (hRx : RelQ2 pts.length (rows.length + st.length - 1) 0 sx [] []) :
    ((forRange (pts.length : Int) (rainflow2_slow_for2_body fuel (Arr.ofList pts) (pts.length : Int)) sx).bind
      fun s => (s.pts.get 0).bind fun t60 =>
        (forRange s.j (rainflow2_slow_for3_body fuel (Arr.ofList pts) (pts.length : Int))
          { s with A := some t60 }).bind fun s => some (s.rf_array, s.os_array)).bind tables
      = some ((PyYetiVerif.Rainflow.rainflow pts).map rfRowC, (PyYetiVerif.Rainflow.rainflow pts).map osRow) := by
  have hlen : 0 < st.length := List.length_pos_iff.mpr hne
  have hle : ∀ k, k ≤ pts.length → (fold2 pts k).2.length ≤ rows.length := by
    intro k hk; rw [← hrows]; exact fold2_rows_le pts k hk
  obtain ⟨s2, hloop2, hR2⟩ := forRange_inv
    (fun k s => RelQ2 pts.length (rows.length + st.length - 1) k s (fold2 pts k).1 (fold2 pts k).2)
    pts.length (rainflow2_slow_for2_body fuel (Arr.ofList pts) (pts.length : Int)) sx
    (by simpa [fold2] using hRx)
    (by
      intro k s hk hR
      have hcap := hle (k + 1) (by omega)
      rw [fold2_succ pts k hk] at hcap
      obtain ⟨s', hb, hR'⟩ := forQ2_sim habs pts (rows.length + st.length - 1) k hk fuel hf s _ _
        (Nat.le_trans hcap (by omega)) hR
      refine ⟨s', hb, ?_⟩
      rw [fold2_succ pts k hk]; exact hR')
  rw [hloop2]
  simp only [Option.bind_some]
  rw [hst, hrows] at hR2
  have hmodel : PyYetiVerif.Rainflow.rainflow pts = rows ++ finish st.reverse := by
    have hti : (index pts 0).take pts.length = index pts 0 := by
      apply List.take_of_length_le; simp
    simp only [fold2, hti] at hst hrows
    show (run (index pts 0)).2 ++ finish (run (index pts 0)).1.reverse = _
    unfold run
    rw [hst, hrows]
  obtain ⟨psize, csize, hj, hpts, hci, hrfc, hosc, hrf, hos, hbound, hm⟩ := hR2
  have hb0 := hpts.bottom 0 (by simpa using hlen)
  simp only [Arr.get_zero, hb0, Option.bind_some]
  have ej : s2.j = ((st.reverse.length - 1 : Nat) : Int) := by simp; omega
  rw [ej]
  obtain ⟨s3, hloop3, hQ⟩ := forRange_inv (FinQ (rows.length + st.length - 1) s2 st.reverse rows)
    (st.reverse.length - 1) (rainflow2_slow_for3_body fuel (Arr.ofList pts) (pts.length : Int))
    ({ s2 with A := some ((st.map Prod.fst).reverse[0]'(by simpa using hlen)),
               j := ((st.reverse.length - 1 : Nat) : Int) })
    ⟨rfl, rfl, by simp [List.getElem?_eq_getElem (show 0 < st.reverse.length by simpa using hlen)],
      by simpa using hrfc, by simpa using hosc, rows, by simp, by simp, hrf, hos⟩
    (by
      intro k s hk hQ
      refine forQ3_sim habs _ _ _ fuel s2 st.reverse rows k hk (by simp; omega) ?_ ?_ s hQ
      · intro i hi
        have := hpts.bottom i (by simpa using hi)
        simpa using this
      · intro i hi
        have := hci.bottom i (by simpa [offs] using hi)
        simpa [offs] using this)
  rw [hloop3]
  simp only [Option.bind_some]
  obtain ⟨hp3, hc3, hA3, hrfc3, hosc3, rowsk, hlenk, happ, htab, htos⟩ := hQ
  have hd : finish (st.reverse.drop (st.reverse.length - 1)) = [] := by
    have : (st.reverse.drop (st.reverse.length - 1)).length = 1 := by simp; omega
    match hx : st.reverse.drop (st.reverse.length - 1), this with
    | [x], _ => simp [finish]
  rw [hd, List.append_nil] at happ
  have hlr : ∀ r ∈ rowsk.map rfRowC, r.length = 3 := by
    intro r hr; obtain ⟨x, _, rfl⟩ := List.mem_map.mp hr; simp [rfRowC]
  have hlo : ∀ r ∈ rowsk.map osRow, r.length = 2 := by
    intro r hr; obtain ⟨x, _, rfl⟩ := List.mem_map.mp hr; simp [osRow]
  have t1 := htab.full_toRows (by simp [hlenk]; omega) hlr
  have t2 := htos.full_toRows (by simp [hlenk]; omega) hlo
  simp only [tables, t1, t2, Option.bind_some]
  rw [happ, hmodel]

/-- everything after the allocation of `pts` and `cycle_index` -/
theorem tailQ1 (habs : ∀ a b : α, Ops.abs (a - b) = absd a b)
    (pts : List α) (h1 : 1 ≤ pts.length) (fuel : Nat) (hf : pts.length ≤ fuel)
    (s0 : Rainflow2SlowSt α) (hR0 : RelQ1 pts.length 0 s0 [] []) :
    ((forRange (pts.length : Int) (rainflow2_slow_for1_body fuel (Arr.ofList pts) (pts.length : Int)) s0).bind
      fun s => (Arr2.empty ((pts.length : Int) - s.fullcyclesp1) 3).bind fun t17 =>
        (Arr2.empty ((pts.length : Int) - s.fullcyclesp1) 2).bind fun t18 =>
        (forRange (pts.length : Int) (rainflow2_slow_for2_body fuel (Arr.ofList pts) (pts.length : Int))
          { s with j := -1, dims_0 := (pts.length : Int) - s.fullcyclesp1, dims_1 := 2, rf_array := t17, rf := 0,
                   os_array := t18, os := 0 }).bind
          fun s => (s.pts.get 0).bind fun t60 =>
            (forRange s.j (rainflow2_slow_for3_body fuel (Arr.ofList pts) (pts.length : Int))
              { s with A := some t60 }).bind fun s => some (s.rf_array, s.os_array)).bind tables
      = some ((PyYetiVerif.Rainflow.rainflow pts).map rfRowC, (PyYetiVerif.Rainflow.rainflow pts).map osRow) := by
  obtain ⟨s1, hloop1, hR1⟩ := passone2_sim habs pts fuel hf s0 hR0
  rw [hloop1]
  simp only [Option.bind_some]
  have hne : (fold2 pts pts.length).1 ≠ [] := by
    have := fold2_nonempty pts (pts.length - 1) (by omega)
    rwa [show pts.length - 1 + 1 = pts.length by omega] at this
  generalize hst : (fold2 pts pts.length).1 = st at hR1 hne
  generalize hrows : (fold2 pts pts.length).2 = rows at hR1
  obtain ⟨psize1, csize1, hj1, hpts1, hfull1, hbound1, hm1⟩ := hR1
  have hlen : 0 < st.length := List.length_pos_iff.mpr hne
  have hN : (pts.length : Int) - s1.fullcyclesp1 = ((rows.length + st.length - 1 : Nat) : Int) := by
    rw [hfull1]; omega
  rw [hN, show (3 : Int) = ((3 : Nat) : Int) from rfl, show (2 : Int) = ((2 : Nat) : Int) from rfl,
    Arr2.empty_natCast, Arr2.empty_natCast]
  simp only [Option.bind_some]
  exact tailQ2 habs pts h1 fuel hf st rows hst hrows hne _
    ⟨psize1, csize1, by simp, by intro i hi; simp at hi, by intro i hi; simp [offs] at hi, by simp, by simp,
      ⟨Arr2.wf_replicate _ _, rfl, rfl, by intro i hi; simp at hi⟩,
      ⟨Arr2.wf_replicate _ _, rfl, rfl, by intro i hi; simp at hi⟩, by simp, by omega⟩

/-- **the C `rainflow2` as translated WITHOUT the macro (two passes) computes the model's table and offsets** -/
theorem generated_c_rainflow2_slow_eq_model (habs : ∀ a b : α, Ops.abs (a - b) = absd a b)
    (pts : List α) (h1 : 1 ≤ pts.length) (fuel : Nat) (hf : pts.length ≤ fuel) :
    (rainflow2_slow fuel (Arr.ofList pts) (pts.length : Int)).bind tables
      = some ((PyYetiVerif.Rainflow.rainflow pts).map rfRowC, (PyYetiVerif.Rainflow.rainflow pts).map osRow) := by
  unfold rainflow2_slow
  simp only [Option.bind_eq_bind, Arr.empty_natCast, Option.bind_some, Option.pure_def]
  exact tailQ1 habs pts h1 fuel hf _
    ⟨by simp, by simp, by simp, by intro i hi; simp at hi, by simp, by simp, by omega⟩

end PyYetiVerif.RainflowGen
