import PyYetiVerif.Lemmas.Uset
/-!
`make_uset`: on the documented request forms (scalar point `[id, 0]`, grid `[id, 123456]`, grid
given DOF by DOF `[id, 1] … [id, 6]`) the spreading loop gives every expanded row the value of the
request row that names it.
-/
namespace PyYetiVerif.Uset

/-- the documented request forms -/
inductive Canon : List (Nat × Nat) → Prop
  | nil : Canon []
  | spoint (i : Nat) {t : List (Nat × Nat)} : Canon t → Canon ((i, 0) :: t)
  | grid (i : Nat) {t : List (Nat × Nat)} : Canon t → Canon ((i, 123456) :: t)
  | perdof (i : Nat) {t : List (Nat × Nat)} : Canon t →
      Canon ((i, 1) :: (i, 2) :: (i, 3) :: (i, 4) :: (i, 5) :: (i, 6) :: t)

/-- the value column requested by per-row values: a `123456` row contributes `six v`, any other
row its value -/
def wantedVals {β : Type} (six : β → List β) (rows : List (Nat × Nat)) (vals : List β) : List β :=
  (rows.zip vals).flatMap fun p => if p.1.2 = 123456 then six p.2 else [p.2]

/-- the requested table: every DOF named by a request row carries that row's set word -/
def wantedTbl (rows : List (Nat × Nat)) (nas : List Nat) : List Row :=
  (rows.zip nas).flatMap fun p => (digits p.1.2).map fun d => (p.1.1, d, p.2)

theorem digits_zero : digits 0 = [0] := by simp [digits, digitsRev]
theorem digits_one : digits 1 = [1] := by simp [digits, digitsRev]
theorem digits_two : digits 2 = [2] := by simp [digits, digitsRev]
theorem digits_three : digits 3 = [3] := by simp [digits, digitsRev]
theorem digits_four : digits 4 = [4] := by simp [digits, digitsRev]
theorem digits_five : digits 5 = [5] := by simp [digits, digitsRev]
theorem digits_six : digits 6 = [6] := by simp [digits, digitsRev]
theorem digits_all : digits 123456 = [1, 2, 3, 4, 5, 6] := by simp [digits, digitsRev]

theorem expandRow_spoint (i : Nat) : expandRow (i, 0) = [(i, 0)] := by simp [expandRow, digits_zero]
theorem expandRow_grid (i : Nat) :
    expandRow (i, 123456) = [(i, 1), (i, 2), (i, 3), (i, 4), (i, 5), (i, 6)] := by
  simp [expandRow, digits_all]

theorem expand_perdof (i : Nat) (t : List (Nat × Nat)) :
    ((i, 1) :: (i, 2) :: (i, 3) :: (i, 4) :: (i, 5) :: (i, 6) :: t).flatMap expandRow =
      (i, 1) :: (i, 2) :: (i, 3) :: (i, 4) :: (i, 5) :: (i, 6) :: t.flatMap expandRow := by
  simp [List.flatMap_cons, expandRow, digits_one, digits_two, digits_three, digits_four,
    digits_five, digits_six]

theorem canon_le6 {rows : List (Nat × Nat)} (h : Canon rows) :
    ∀ p ∈ rows.flatMap expandRow, p.2 ≤ 6 := by
  induction h with
  | nil => simp
  | spoint i _ ih =>
      rw [List.flatMap_cons, expandRow_spoint]
      intro p hp
      rcases List.mem_append.mp hp with h | h
      · simp at h; subst h; simp
      · exact ih p h
  | grid i _ ih =>
      rw [List.flatMap_cons, expandRow_grid]
      intro p hp
      rcases List.mem_append.mp hp with h | h
      · simp at h; rcases h with rfl | rfl | rfl | rfl | rfl | rfl <;> simp
      · exact ih p h
  | perdof i _ ih =>
      rw [expand_perdof]
      intro p hp
      simp only [List.mem_cons] at hp
      rcases hp with rfl | rfl | rfl | rfl | rfl | rfl | h
      all_goals first | exact ih p h | simp

theorem expanddof2_canon {rows : List (Nat × Nat)} (h : Canon rows) :
    expanddof2 rows = .ok (rows.flatMap expandRow) := by
  unfold expanddof2
  simp only
  rw [if_neg]
  intro hany
  obtain ⟨p, hp, hc⟩ := List.any_eq_true.mp hany
  have := canon_le6 h p hp
  simp at hc; omega

/-- the non-zero DOF of the expanded request are `1 … 6`, grid after grid -/
theorem canon_gdof {rows : List (Nat × Nat)} (h : Canon rows) :
    ∃ g, ((rows.flatMap expandRow).filter (fun p => decide (0 < p.2))).map (·.2) =
      (List.replicate g [1, 2, 3, 4, 5, 6]).flatten := by
  induction h with
  | nil => exact ⟨0, rfl⟩
  | spoint i _ ih =>
      obtain ⟨g, hg⟩ := ih
      refine ⟨g, ?_⟩
      rw [List.flatMap_cons, expandRow_spoint]
      simpa using hg
  | grid i _ ih =>
      obtain ⟨g, hg⟩ := ih
      refine ⟨g + 1, ?_⟩
      rw [List.flatMap_cons, expandRow_grid, List.replicate_succ, List.flatten_cons, ← hg]
      simp
  | perdof i _ ih =>
      obtain ⟨g, hg⟩ := ih
      refine ⟨g + 1, ?_⟩
      rw [expand_perdof, List.replicate_succ, List.flatten_cons, ← hg]
      simp

theorem length_flatten_six (g : Nat) :
    (List.replicate g [1, 2, 3, 4, 5, 6]).flatten.length = g * 6 := by
  induction g with
  | zero => rfl
  | succ n ih => rw [List.replicate_succ, List.flatten_cons, List.length_append, ih]; simp; omega

theorem makeUsetDof_canon {rows : List (Nat × Nat)} (h : Canon rows) :
    makeUsetDof (.rows rows) = .ok (rows.flatMap expandRow) := by
  unfold makeUsetDof
  simp only [expanddof, expanddof2_canon h, bind, Except.bind]
  obtain ⟨g, hg⟩ := canon_gdof h
  rw [hg, length_flatten_six]
  have h6 : g * 6 / 6 = g := Nat.mul_div_cancel g (by omega)
  rw [h6, if_neg]
  rintro ⟨_, h1 | h1⟩
  · exact h1 rfl
  · exact h1 rfl

theorem digits_single {d : Nat} (h : d ≤ 6) : digits d = [d] := by
  have : d < 10 := by omega
  unfold digits digitsRev
  simp [this]

theorem expandRow_single (i : Nat) {d : Nat} (h : d ≤ 6) : expandRow (i, d) = [(i, d)] := by
  simp [expandRow, digits_single h]

theorem wantedVals_cons {β : Type} (six : β → List β) (r : Nat × Nat) (t : List (Nat × Nat))
    (v : β) (vs : List β) :
    wantedVals six (r :: t) (v :: vs) =
      (if r.2 = 123456 then six v else [v]) ++ wantedVals six t vs := by
  simp [wantedVals]

theorem wantedTbl_cons (r : Nat × Nat) (t : List (Nat × Nat)) (v : Nat) (vs : List Nat) :
    wantedTbl (r :: t) (v :: vs) = (digits r.2).map (fun d => (r.1, d, v)) ++ wantedTbl t vs := by
  simp [wantedTbl]

theorem canon_length_le {rows : List (Nat × Nat)} (h : Canon rows) :
    rows.length ≤ (rows.flatMap expandRow).length := by
  induction h with
  | nil => simp
  | spoint i _ ih =>
      rw [List.flatMap_cons, expandRow_spoint, List.length_append]
      simp only [List.length_cons, List.length_nil]; omega
  | grid i _ ih =>
      rw [List.flatMap_cons, expandRow_grid, List.length_append]
      simp only [List.length_cons, List.length_nil]; omega
  | perdof i _ ih =>
      rw [expand_perdof]
      simp only [List.length_cons]; omega

/-- the loop on a documented request: exactly the requested column -/
theorem spreadG_canon {β : Type} (six : β → List β) {rows : List (Nat × Nat)} (h : Canon rows) :
    ∀ (fuel : Nat) (vals : List β), vals.length = rows.length → rows.length ≤ fuel →
      spreadG six fuel rows vals = .ok (wantedVals six rows vals) := by
  induction h with
  | nil =>
      intro fuel vals _ _
      cases fuel <;> simp [spreadG, wantedVals]
  | spoint i _ ih =>
      intro fuel vals hl hf
      match fuel, vals, hl, hf with
      | f + 1, v :: vs, hl, hf =>
          have := ih f vs (by simpa using hl) (by simp at hf; omega)
          simp [spreadG, this, wantedVals, bind, Except.bind]
  | grid i _ ih =>
      intro fuel vals hl hf
      match fuel, vals, hl, hf with
      | f + 1, v :: vs, hl, hf =>
          have := ih f vs (by simpa using hl) (by simp at hf; omega)
          simp [spreadG, this, wantedVals, bind, Except.bind]
  | perdof i _ ih =>
      intro fuel vals hl hf
      match fuel, vals, hl, hf with
      | f + 1, v1 :: v2 :: v3 :: v4 :: v5 :: v6 :: vs, hl, hf =>
          have := ih f vs (by simpa using hl) (by simp at hf; omega)
          simp [spreadG, this, wantedVals, bind, Except.bind]

theorem wantedVals_length {β : Type} (six : β → List β) (h6 : ∀ v, (six v).length = 6)
    {rows : List (Nat × Nat)} (h : Canon rows) :
    ∀ (vals : List β), vals.length = rows.length →
      (wantedVals six rows vals).length = (rows.flatMap expandRow).length := by
  have single : ∀ (i d : Nat) (t : List (Nat × Nat)), d ≤ 6 →
      (∀ (vals : List β), vals.length = t.length →
        (wantedVals six t vals).length = (t.flatMap expandRow).length) →
      ∀ (vals : List β), vals.length = ((i, d) :: t).length →
        (wantedVals six ((i, d) :: t) vals).length = (((i, d) :: t).flatMap expandRow).length := by
    intro i d t hd ih vals hl
    match vals, hl with
    | v :: vs, hl =>
        rw [wantedVals_cons, List.flatMap_cons, expandRow_single i hd, if_neg (by simp; omega),
          List.length_append, List.length_append, ih vs (by simpa using hl)]
        rfl
  induction h with
  | nil => intro vals _; simp [wantedVals]
  | spoint i _ ih => exact single i 0 _ (by omega) ih
  | grid i _ ih =>
      intro vals hl
      match vals, hl with
      | v :: vs, hl =>
          rw [wantedVals_cons, List.flatMap_cons, expandRow_grid, if_pos rfl,
            List.length_append, List.length_append, ih vs (by simpa using hl), h6]
          rfl
  | perdof i _ ih =>
      exact single i 1 _ (by omega) (single i 2 _ (by omega) (single i 3 _ (by omega)
        (single i 4 _ (by omega) (single i 5 _ (by omega) (single i 6 _ (by omega) ih)))))

/-- no `123456` row (the expansion has as many rows as the request): the column is the input -/
theorem wantedVals_direct {β : Type} (six : β → List β) :
    ∀ (rows : List (Nat × Nat)) (vals : List β), (∀ r ∈ rows, r.2 ≠ 123456) →
      vals.length = rows.length → wantedVals six rows vals = vals
  | [], vals, _, hl => by simp at hl; subst hl; rfl
  | r :: t, v :: vs, hr, hl => by
      rw [wantedVals_cons, if_neg (hr r List.mem_cons_self),
        wantedVals_direct six t vs (fun r' h' => hr r' (List.mem_cons_of_mem _ h')) (by simpa using hl)]
      rfl

/-- the expansion has as many rows as the request: there is no `123456` row -/
theorem canon_no_grid {rows : List (Nat × Nat)} (h : Canon rows) :
    (rows.flatMap expandRow).length = rows.length → ∀ r ∈ rows, r.2 ≠ 123456 := by
  induction h with
  | nil => intro _ r hr; cases hr
  | spoint i _ ih =>
      intro he r hr
      rw [List.flatMap_cons, expandRow_spoint, List.length_append] at he
      rcases List.mem_cons.mp hr with rfl | hr
      · simp
      · exact ih (by simp only [List.length_cons, List.length_nil] at he; omega) r hr
  | grid i ht ih =>
      intro he
      rw [List.flatMap_cons, expandRow_grid, List.length_append] at he
      have := canon_length_le ht
      simp only [List.length_cons, List.length_nil] at he; omega
  | perdof i _ ih =>
      intro he r hr
      rw [expand_perdof] at he
      simp only [List.mem_cons] at hr
      rcases hr with rfl | rfl | rfl | rfl | rfl | rfl | hr
      all_goals first | exact ih (by simp only [List.length_cons] at he; omega) r hr | simp

theorem spreadWords_cons (r : Nat × Nat) (t : List (Nat × Nat)) (v : Nat) (vs : List Nat) :
    spreadWords (r :: t) (v :: vs) = List.replicate (digits r.2).length v ++ spreadWords t vs := by
  simp [spreadWords]

theorem zip_replicate_block (i v : Nat) : ∀ (ds : List Nat),
    ((ds.map fun d => (i, d)).zip (List.replicate ds.length v)).map
      (fun x => (x.1.1, x.1.2, x.2)) = ds.map fun d => (i, d, v)
  | [] => rfl
  | d :: ds => by
      simp only [List.map_cons, List.length_cons, List.replicate_succ, List.zip_cons_cons,
        List.cons.injEq, true_and]
      exact zip_replicate_block i v ds

/-- the table assembled from the expanded request and the spread words: ANY request -/
theorem zip_spreadWords : ∀ (rows : List (Nat × Nat)) (nas : List Nat), nas.length = rows.length →
    ((rows.flatMap expandRow).zip (spreadWords rows nas)).map (fun x => (x.1.1, x.1.2, x.2)) =
      wantedTbl rows nas
  | [], nas, _ => by simp [spreadWords, wantedTbl]
  | r :: t, v :: vs, hl => by
      rw [spreadWords_cons, wantedTbl_cons, List.flatMap_cons,
        List.zip_append (by simp [expandRow]), List.map_append,
        zip_spreadWords t vs (by simpa using hl)]
      congr 1
      exact zip_replicate_block r.1 v (digits r.2)

theorem digits_length_pos (n : Nat) : 0 < (digits n).length := by
  have := digitsRev_ne_nil n
  unfold digits
  rw [List.length_reverse]
  exact List.length_pos_iff.mpr this

theorem length_le_expand : ∀ (rows : List (Nat × Nat)), rows.length ≤ (rows.flatMap expandRow).length
  | [] => by simp
  | r :: t => by
      have := length_le_expand t
      have h1 := digits_length_pos r.2
      rw [List.flatMap_cons, List.length_append]
      simp only [expandRow, List.length_map, List.length_cons]
      omega

/-- the expansion has as many rows as the request: every component list is one digit, and the
spread words are the given ones -/
theorem spreadWords_direct : ∀ (rows : List (Nat × Nat)) (nas : List Nat), nas.length = rows.length →
    (rows.flatMap expandRow).length = rows.length → spreadWords rows nas = nas
  | [], nas, hl, _ => by simp at hl; subst hl; rfl
  | r :: t, v :: vs, hl, he => by
      have h0 := length_le_expand t
      have h1 := digits_length_pos r.2
      rw [List.flatMap_cons, List.length_append] at he
      simp only [expandRow, List.length_map, List.length_cons] at he
      have hr : (digits r.2).length = 1 := by omega
      rw [spreadWords_cons, hr, spreadWords_direct t vs (by simpa using hl) (by omega)]
      rfl

/-- one value for the whole table -/
theorem zip_scalar (v : Nat) : ∀ (rows : List (Nat × Nat)),
    ((rows.flatMap expandRow).zip (List.replicate (rows.flatMap expandRow).length v)).map
      (fun x => (x.1.1, x.1.2, x.2)) = wantedTbl rows (List.replicate rows.length v)
  | [] => by simp [wantedTbl]
  | r :: t => by
      have ih := zip_scalar v t
      unfold wantedTbl at ih ⊢
      rw [List.flatMap_cons, List.length_append, List.replicate_add,
        List.zip_append (by simp), List.map_append, ih]
      simp only [List.length_cons, List.replicate_succ, List.zip_cons_cons, List.flatMap_cons]
      congr 1
      unfold expandRow
      generalize digits r.2 = ds
      induction ds with
      | nil => rfl
      | cons d ds ihd =>
          simp only [List.map_cons, List.length_cons, List.replicate_succ, List.zip_cons_cons,
            List.cons.injEq, true_and]
          exact ihd

/-- what `makeUsetDof` returns is the expansion of the request -/
theorem makeUsetDof_ok {rows edof : List (Nat × Nat)} (h : makeUsetDof (.rows rows) = .ok edof) :
    edof = rows.flatMap expandRow := by
  unfold makeUsetDof at h
  simp only [expanddof] at h
  cases he : expanddof2 rows with
  | error e => rw [he] at h; cases h
  | ok e =>
      rw [he] at h
      simp only [bind, Except.bind] at h
      split at h
      · cases h
      · cases h
        unfold expanddof2 at he
        simp only at he
        split at he
        · cases he
        · cases he; rfl

/-- FULL strength: whatever request `make_uset` accepts, every DOF named by a request row carries
that row's set word (one word per row), or the single word -/
theorem makeUset_sets {rows : List (Nat × Nat)} {nas : List Nat} {tbl : List Row}
    (h : makeUset (.rows rows) nas = .ok tbl) :
    (nas.length = rows.length → tbl = wantedTbl rows nas) ∧
    (∀ v, nas = [v] → tbl = wantedTbl rows (List.replicate rows.length v)) := by
  unfold makeUset at h
  split at h
  · cases h
  · cases hd : makeUsetDof (.rows rows) with
    | error e => rw [hd] at h; cases h
    | ok edof =>
        rw [hd] at h
        have hed := makeUsetDof_ok hd
        simp only [bind, Except.bind] at h
        have hscalar : ∀ v, nas = [v] → tbl = wantedTbl rows (List.replicate rows.length v) := by
          intro v hv
          subst hv
          simp only [makeUsetWords, Except.ok.injEq] at h
          rw [← h, hed]
          exact zip_scalar v rows
        refine ⟨fun hl => ?_, hscalar⟩
        by_cases hv : ∃ v, nas = [v]
        · obtain ⟨v, hv⟩ := hv
          have := hscalar v hv
          rw [this]
          subst hv
          have h1 : rows.length = 1 := by simpa using hl.symm
          rw [h1]; rfl
        · have hw : makeUsetWords (.rows rows) edof nas = .ok (spreadWords rows nas) := by
            unfold makeUsetWords
            split
            · exact absurd ⟨_, rfl⟩ hv
            · show (if edof.length = rows.length then Except.ok nas
                else Except.ok (spreadWords rows nas)) = _
              by_cases he : edof.length = rows.length
              · rw [if_pos he, spreadWords_direct rows nas hl (by rw [← hed]; exact he)]
              · rw [if_neg he]
          rw [hw] at h
          simp only [Except.ok.injEq] at h
          rw [← h, hed]
          exact zip_spreadWords rows nas hl

/-- `make_uset` succeeds exactly when the length of `nasset` is 1 or the number of request rows and
the expanded request passes the check "each GRID must have all DOF 1-6" -/
theorem makeUset_ok_iff (rows : List (Nat × Nat)) (nas : List Nat) :
    (∃ tbl, makeUset (.rows rows) nas = .ok tbl) ↔
      (nas.length = 1 ∨ nas.length = rows.length) ∧ ∃ edof, makeUsetDof (.rows rows) = .ok edof := by
  unfold makeUset
  constructor
  · rintro ⟨tbl, h⟩
    split at h
    · cases h
    · rename_i hc
      refine ⟨by simp only [nrows] at hc; omega, ?_⟩
      cases hd : makeUsetDof (.rows rows) with
      | error e => rw [hd] at h; cases h
      | ok edof => exact ⟨edof, rfl⟩
  · rintro ⟨hl, edof, hd⟩
    rw [if_neg (by simp only [nrows]; omega), hd]
    simp only [bind, Except.bind]
    have : ∃ w, makeUsetWords (.rows rows) edof nas = .ok w := by
      unfold makeUsetWords
      split
      · exact ⟨_, rfl⟩
      · split <;> exact ⟨_, rfl⟩
    obtain ⟨w, hw⟩ := this
    rw [hw]
    exact ⟨_, rfl⟩

theorem makeUset_canon {rows : List (Nat × Nat)} (h : Canon rows) (nas : List Nat)
    (hl : nas.length = rows.length) : makeUset (.rows rows) nas = .ok (wantedTbl rows nas) := by
  obtain ⟨tbl, ht⟩ := (makeUset_ok_iff rows nas).mpr ⟨Or.inr hl, _, makeUsetDof_canon h⟩
  rw [ht, (makeUset_sets ht).1 hl]

/-- the coordinate columns on a documented request: a `123456` row gives the location row and
the five rows of the basic system, every other row its own `xyz` row; no row stays unset -/
theorem makeUsetCoords_canon {rows : List (Nat × Nat)} (h : Canon rows) (xyz : List Xyz)
    (hl : xyz.length = rows.length) :
    makeUsetCoords (.rows rows) (rows.flatMap expandRow) xyz =
      .ok ((wantedVals (fun v => v :: basicRows) rows xyz).map some) := by
  unfold makeUsetCoords
  show (if (rows.flatMap expandRow).length = rows.length then Except.ok (xyz.map some)
    else do
      let w ← spreadG (fun v => v :: basicRows) rows.length rows xyz
      Except.ok (w.map some ++ List.replicate ((rows.flatMap expandRow).length - w.length) none)) = _
  by_cases he : (rows.flatMap expandRow).length = rows.length
  · rw [if_pos he, wantedVals_direct _ rows xyz (canon_no_grid h he) hl]
  · rw [if_neg he, spreadG_canon _ h _ xyz hl (Nat.le_refl _)]
    simp only [bind, Except.bind]
    rw [wantedVals_length _ (by simp [basicRows]) h xyz hl]
    simp

theorem makeUsetXyz_canon {rows : List (Nat × Nat)} (h : Canon rows) (nas : List Nat) (xyz : List Xyz)
    (hn : nas.length = rows.length) (hx : xyz.length = rows.length) :
    makeUsetXyz (.rows rows) nas xyz =
      .ok ((wantedTbl rows nas).zip ((wantedVals (fun v => v :: basicRows) rows xyz).map some)) := by
  unfold makeUsetXyz
  rw [if_neg (by simp [nrows, hx]), makeUset_canon h nas hn, makeUsetDof_canon h]
  simp only [bind, Except.bind]
  rw [makeUsetCoords_canon h xyz hx]

/-- one set word for the whole table (any request that passes the six-DOF check) -/
theorem makeUset_scalar (rows : List (Nat × Nat)) (v : Nat) (edof : List (Nat × Nat))
    (he : makeUsetDof (.rows rows) = .ok edof) :
    makeUset (.rows rows) [v] = .ok (edof.map fun p => (p.1, p.2, v)) := by
  unfold makeUset
  rw [if_neg (by simp), he]
  simp only [bind, Except.bind, makeUsetWords]
  congr 1
  generalize edof = l
  induction l with
  | nil => rfl
  | cons a t ih => simp [List.replicate_succ, ih]

end PyYetiVerif.Uset
