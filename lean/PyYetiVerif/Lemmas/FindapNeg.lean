import PyYetiVerif.Lemmas.FindapScale
/-! Helper lemmas for C10: the default `findap` selects the same samples of `-y` as of `y`, the cycle
table (amplitude, count) of `-y` is that of `y`; `SRSmax`, `Var` likewise. -/
set_option linter.unusedSectionVars false
set_option linter.unusedVariables false
namespace PyYetiVerif.Findap

variable {α : Type} [Field α] [LinearOrder α] [IsStrictOrderedRing α]

theorem absd_neg (a b : α) : absd (-a) (-b) = absd a b := by
  rw [absd_eq_abs, absd_eq_abs, ← neg_sub', abs_neg]

theorem maxAbsDiffFrom_neg (l : List α) :
    ∀ acc prev : α, maxAbsDiffFrom acc (-prev) (l.map (- ·)) = maxAbsDiffFrom acc prev l := by
  induction l with
  | nil => intro acc prev; rfl
  | cons x r ih =>
      intro acc prev
      simp only [List.map_cons, maxAbsDiffFrom, absd_neg]
      exact ih _ _

theorem stol_neg (tol : α) (y : List α) : stol tol (y.map (- ·)) = stol tol y := by
  match y with
  | [] => rfl
  | [a] => rfl
  | a :: b :: r =>
      simp only [List.map_cons, stol]
      rw [absd_neg b a, maxAbsDiffFrom_neg]

theorem uniqMask_neg (st : α) (l : List α) :
    ∀ p : α, uniqMask st (-p) (l.map (- ·)) = uniqMask st p l := by
  induction l with
  | nil => intro p; rfl
  | cons x r ih =>
      intro p
      simp only [List.map_cons, uniqMask, absd_neg, ih]

theorem sgn_neg (a b : α) : sgn (-a) (-b) = - sgn a b := by
  unfold sgn
  simp only [neg_lt_neg_iff]
  by_cases h1 : a < b
  · simp [h1, not_lt_of_gt h1]
  · by_cases h2 : b < a
    · simp [h1, h2]
    · simp [h1, h2]

theorem pvInner_neg (l : List α) :
    ∀ a b : α, pvInner (-a) (-b) (l.map (- ·)) = pvInner a b l := by
  induction l with
  | nil =>
      intro a b
      simp only [List.map_nil, pvInner, neg_lt_neg_iff, Bool.or_comm]
  | cons x r ih =>
      intro a b
      simp only [List.map_cons, pvInner, sgn_neg, ih]
      have : (-sgn b x - -sgn a b).natAbs = (sgn b x - sgn a b).natAbs := by
        rw [← Int.natAbs_neg]; congr 1; ring
      rw [this]

theorem pvOf_neg (l : List α) : pvOf (l.map (- ·)) = pvOf l := by
  match l with
  | [] => rfl
  | [_] => rfl
  | [_, _] => rfl
  | a :: b :: x :: r =>
      simp only [List.map_cons, pvOf]
      have := pvInner_neg (x :: r) a b
      simp only [List.map_cons] at this
      rw [this]

theorem findapDefSt_neg (st : α) (y : List α) :
    findapDefSt st (y.map (- ·)) = findapDefSt st y := by
  match y with
  | [] => rfl
  | [_] => rfl
  | a :: b :: r =>
      simp only [List.map_cons, findapDefSt]
      have hu := uniqMask_neg st (b :: r) a
      simp only [List.map_cons] at hu
      rw [hu]
      have hs := select_map (fun x : α => -x) (true :: uniqMask st a (b :: r)) (a :: b :: r)
      simp only [List.map_cons] at hs
      rw [hs, pvOf_neg]

/-- the default `findap` selects the same samples of `-y` as of `y` -/
theorem findapDef_neg (tol : α) (y : List α) : findapDef tol (y.map (- ·)) = findapDef tol y := by
  unfold findapDef
  rw [stol_neg, findapDefSt_neg]

theorem hystMask_neg (st : α) (l : List α) :
    ∀ h : α, hystMask st (-h) (l.map (- ·)) = hystMask st h l := by
  induction l with
  | nil => intro h; rfl
  | cons x r ih =>
      intro h
      simp only [List.map_cons, hystMask, absd_neg]
      split
      · rw [ih]
      · rw [ih]

theorem findapDefFixSt_neg (st : α) (y : List α) :
    findapDefFixSt st (y.map (- ·)) = findapDefFixSt st y := by
  match y with
  | [] => rfl
  | [_] => rfl
  | a :: b :: r =>
      simp only [List.map_cons, findapDefFixSt, fixMask_eq]
      have hu := hystMask_neg st (b :: r) a
      simp only [List.map_cons] at hu
      rw [hu]
      have hs := select_map (fun x : α => -x) (true :: hystMask st a (b :: r)) (a :: b :: r)
      simp only [List.map_cons] at hs
      rw [hs, pvOf_neg]

/-- the default `findap` (current code) selects the same samples of `-y` as of `y` -/
theorem findapDefFix_neg (tol : α) (y : List α) : findapDefFix tol (y.map (- ·)) = findapDefFix tol y := by
  unfold findapDefFix
  rw [stol_neg, findapDefFixSt_neg]

end PyYetiVerif.Findap

namespace PyYetiVerif.Fde
open PyYetiVerif.Rainflow

variable {α : Type} [Field α] [LinearOrder α] [IsStrictOrderedRing α]

theorem rainflow_neg (pts : List α) :
    rainflow (pts.map fun x => -x) = (rainflow pts).map (mapCyc (fun r => r) (fun s => -s)) := by
  apply rainflow_map (fun x => -x) (fun r => r) (fun s => -s)
  · intro a b; simp only [Rainflow.absd_abs]; rw [← neg_sub', abs_neg]
  · intro a b c d; exact Iff.rfl
  · intro a b; ring

/-- the `(amp, count)` cycle table of `-y` is that of `y` -/
theorem cyclesOf_neg (tol : α) (y : List α) : cyclesOf tol (y.map (- ·)) = cyclesOf tol y := by
  unfold cyclesOf
  rw [Findap.findapDefFix_neg]
  cases Findap.findapDefFix tol y with
  | none => rfl
  | some m =>
      simp only []
      rw [Findap.select_map]
      simp only [rainflowApi, List.length_map]
      split
      · rfl
      · simp only [Option.map_some, Option.some.injEq]
        rw [rainflow_neg, List.map_map]
        apply List.map_congr_left
        intro d _
        simp only [Function.comp, mapCyc]
        rfl

theorem absv_neg (x : α) : absv (-x) = absv x := by
  rw [absv_eq_abs, absv_eq_abs, abs_neg]

theorem srsPeak_neg (y : List α) : srsPeak (y.map (- ·)) = srsPeak y := by
  cases y with
  | nil => rfl
  | cons a r =>
      simp only [List.map_cons, srsPeak, Option.some.injEq, absv_neg]
      generalize absv a = m
      induction r generalizing m with
      | nil => rfl
      | cons x r ih =>
          simp only [List.map_cons, List.foldl_cons, absv_neg]
          exact ih _

theorem variance_neg (y : List α) : variance (y.map (- ·)) = variance y := by
  have : y.map (- ·) = y.map ((-1 : α) * ·) := by
    apply List.map_congr_left; intro v _; ring
  rw [this, variance_scale]; ring

end PyYetiVerif.Fde
