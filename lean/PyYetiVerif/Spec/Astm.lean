import PyYetiVerif.Model.Rainflow
/-!
ASTM E1049-85 (2005) §5.4.4, "Rainflow Counting", written as the standard words it,
with an explicit starting point `S` (the code has no `S`: it tests `j == 2`).

  X = range under consideration, Y = previous range adjacent to X, S = starting point.
  (1) Read next peak or valley.  If out of data, go to Step 6.
  (2) If there are less than three points, go to Step 1.  Form ranges X and Y using the
      three most recent peaks and valleys that have not been discarded.
  (3) Compare |X| and |Y|: (a) if X < Y go to Step 1; (b) if X ≥ Y go to Step 4.
  (4) If range Y contains the starting point S, go to Step 5; otherwise count range Y as
      one cycle; discard the peak and valley of Y; go to Step 2.
  (5) Count range Y as one-half cycle; discard the first point in range Y; move the
      starting point to the second point in range Y; go to Step 2.
  (6) Count each range that has not been previously counted as one-half cycle.

Core Lean only.
-/
namespace PyYetiVerif.Astm
open PyYetiVerif.Rainflow

variable {α : Type} [Sub α] [Add α] [LT α] [DecidableLT α]

/-- Steps 2–5 repeated until Step 1 is next.  State: undiscarded points (newest first)
and the offset `S` of the starting point. -/
def steps25 (S : Nat) : List (α × Nat) → (List (α × Nat) × Nat) × List (Cyc α)
  | c :: b :: a :: rest =>
      if absd b.1 c.1 < absd a.1 b.1 then ((c :: b :: a :: rest, S), [])      -- 3(a)
      else if a.2 = S ∨ b.2 = S then                                          -- 4 → 5
        let res := steps25 b.2 (c :: b :: rest)
        (res.1, mkCyc false a b :: res.2)
      else                                                                    -- 4
        let res := steps25 S (c :: rest)
        (res.1, mkCyc true a b :: res.2)
  | st => ((st, S), [])
termination_by st => st.length

def step1 (acc : (List (α × Nat) × Nat) × List (Cyc α)) (p : α × Nat) :=
  let res := steps25 acc.1.2 (p :: acc.1.1)
  (res.1, acc.2 ++ res.2)

/-- The whole procedure; the starting point is initially the first point (offset 0). -/
def astm (pts : List α) : List (Cyc α) :=
  let res := (index pts 0).foldl step1 (([], 0), [])
  res.2 ++ finish res.1.1.reverse                                             -- step 6

end PyYetiVerif.Astm
