import PyYetiVerif.Model.ExtremaPsd
/-!
# The trapezoid rule, stated independently of `_calc_rms` (core only)
-/
namespace PyYetiVerif.ExtremaPsd

/-- area under the polygon through `(f₀, p₀), (f₁, p₁), …`: the sum of the trapezoids
`(f_{k+1} − f_k) · (p_k + p_{k+1}) / 2` -/
def trapz {α : Type} [Add α] [Sub α] [Mul α] [Div α] [Zero α] [OfNat α 2] : List α → List α → α
  | f0 :: f1 :: fs, p0 :: p1 :: ps => (f1 - f0) * (p0 + p1) / 2 + trapz (f1 :: fs) (p1 :: ps)
  | _, _ => 0

end PyYetiVerif.ExtremaPsd
