import PyYetiVerif.Model.Extrema
/-!
# What "the extreme over all cases, with the case at which it was attained" means (core only)

Independent of the fold in `Model/Extrema.lean`: the predicates below speak about the whole list
of cases at once.
-/
namespace PyYetiVerif.Extrema

/-- `r` is the FIRST BEST element of `all` for the preference `key` (NaN = `none` is never
preferred): `all = pre ++ r :: post`, every non-NaN value before `r` is strictly worse, every
non-NaN value after it is not better, and if `r` itself is NaN then it is the first element (and
by the other clauses every element is NaN).  `r` is taken from the list as a whole, so value,
abscissa and label come from the same case.  `key = id` is "maximum", `key = toDual` "minimum",
`key = |·|` "largest magnitude, sign kept", `key = toDual |·|` "smallest magnitude". -/
def FirstBest {α X L β : Type} [LE β] [LT β] (key : α → β) (all : List (Tr α X L))
    (r : Tr α X L) : Prop :=
  ∃ pre post, all = pre ++ r :: post ∧
    (∀ t ∈ pre, ∀ w, t.v = some w → ∃ u, r.v = some u ∧ key w < key u) ∧
    (∀ t ∈ post, ∀ w, t.v = some w → ∃ u, r.v = some u ∧ key w ≤ key u) ∧
    (r.v = none → pre = [])

/-- `m` is the NaN-ignoring maximum of `vs`: it is one of the values, and as soon as some value
is a number, `m` is a number not below it (so `m` is NaN only when every value is NaN). -/
def IsNanMax {α : Type} [LE α] (vs : List (Option α)) (m : Option α) : Prop :=
  m ∈ vs ∧ ∀ w, some w ∈ vs → ∃ u, m = some u ∧ w ≤ u

/-- the samples of one load case of one row, labelled with the case -/
def samples {α X L : Type} (c : L × List (Option α) × List X) : List (Tr α X L) :=
  (c.2.1.zip c.2.2).map fun p => ⟨p.1, p.2, c.1⟩

end PyYetiVerif.Extrema
