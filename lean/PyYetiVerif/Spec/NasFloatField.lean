import PyYetiVerif.Model.NasFloat
/-
The grammar of the real-number fields the Nastran formatters emit, as data (`Fld`) with its text
(`Fld.text`), its well-formedness test (`Fld.wf`, decidable) and the decimal it denotes
(`Fld.dec`: mantissa `ip.fp` times ten to the signed exponent), plus a recogniser `fieldOf?` on
strings.  Independent of the formatters and of `nas_sscanf`; core Lean only.

    field  ::=  ' '*  ['-']  digit*  '.'  digit*  [ ['D'] ('+'|'-') digit+ ]      (≥ 1 mantissa digit)
-/
namespace PyYetiVerif.NasFloat
open PyYetiVerif.PyFloat

/-- exponent part `[D]±ddd` -/
structure FExp where
  dmark : Bool
  eneg : Bool
  ds : Str
deriving Repr, DecidableEq

structure Fld where
  neg : Bool
  ip : Str
  fp : Str
  ex : Option FExp
deriving Repr, DecidableEq

def FExp.text (e : FExp) : Str :=
  (if e.dmark then ['D'] else []) ++ (if e.eneg then '-' else '+') :: e.ds

def FExp.val (e : FExp) : Int := if e.eneg then -(digitsVal e.ds : Int) else (digitsVal e.ds : Int)

/-- `[-]ip.fp` -/
def Fld.mant (f : Fld) : Str := (if f.neg then ['-'] else []) ++ (f.ip ++ '.' :: f.fp)

def Fld.exText (f : Fld) : Str :=
  match f.ex with
  | none => []
  | some e => e.text

def Fld.text (f : Fld) : Str := f.mant ++ f.exText

def Fld.expVal (f : Fld) : Int :=
  match f.ex with
  | none => 0
  | some e => e.val

/-- `± M · 10^sh` as a fraction `(neg, a, b)` -/
def decOf (neg : Bool) (M : Nat) (sh : Int) : Bool × Nat × Nat :=
  if sh ≥ 0 then (neg, M * 10 ^ sh.toNat, 1) else (neg, M, 10 ^ (-sh).toNat)

/-- the decimal the field denotes: `± ip.fp · 10^exp` -/
def Fld.dec (f : Fld) : Bool × Nat × Nat :=
  decOf f.neg (digitsVal (f.ip ++ f.fp)) (f.expVal - (f.fp.length : Int))

def FExp.wf (e : FExp) : Bool := e.ds != [] && e.ds.all isDigit && decide (digitsVal e.ds ≤ 5000)

def Fld.wf (f : Fld) : Bool :=
  f.ip.all isDigit && f.fp.all isDigit && !(f.ip == [] && f.fp == []) &&
    (match f.ex with
     | none => true
     | some e => e.wf)

def fieldTail? (neg : Bool) (ip fp r2 : Str) : Option Fld :=
  let mk (ex : Option FExp) : Option Fld :=
    let f : Fld := ⟨neg, ip, fp, ex⟩
    if f.wf then some f else none
  match r2 with
  | [] => mk none
  | 'D' :: '+' :: ds => mk (some ⟨true, false, ds⟩)
  | 'D' :: '-' :: ds => mk (some ⟨true, true, ds⟩)
  | '+' :: ds => mk (some ⟨false, false, ds⟩)
  | '-' :: ds => mk (some ⟨false, true, ds⟩)
  | _ => none

def fieldBody? (neg : Bool) (r : Str) : Option Fld :=
  match r.dropWhile isDigit with
  | '.' :: r1 => fieldTail? neg (r.takeWhile isDigit) (r1.takeWhile isDigit) (r1.dropWhile isDigit)
  | _ => none

/-- recogniser of the grammar (`none` = not an emitted real field) -/
def fieldOf? (s : Str) : Option Fld :=
  match s.dropWhile (· == ' ') with
  | '-' :: r => fieldBody? true r
  | t => fieldBody? false t

end PyYetiVerif.NasFloat
