/-!
# Executable model of `pyyeti.cla.dr_event.apply_uf` / `_pre_calcs` (core Lean only)

Diagonal (vector) modal mass / damping / stiffness: the computation is then independent per mode
and per time step, so the model is written for one mode at one abscissa and mapped over the
solution matrices.  Polymorphic over the scalar type: theorems are proved at any field
(`Props/C16.lean`), the driver runs the same definitions at `Rat` (exact) and the correspondence
check compares numerically with the implementation's doubles.

The caller-owned `save` dictionary is explicit state: `none` = empty dict, `some pre` = the
uf-independent terms (`genforce`, `avterm`) stored by `_pre_calcs` on the first call that got past
the all-rigid-body early return.

Full (2-D) modal matrices go through `scipy.linalg.lu_factor/lu_solve`; they are not modelled in
Lean (tied by the model-free oracle only, see `harness/props/c16.py`).
-/
namespace PyYetiVerif.ApplyUf

inductive Kind | rb | el | rf
deriving DecidableEq, Repr

/-- one modal coordinate: kind, `m[i]` (`none` when `m is None`, i.e. identity), `b[i]`, `k[i]` -/
structure Mode (α : Type) where
  kind : Kind
  m : Option α
  b : α
  k : α
deriving Repr

/-- `sol.a[i, t]`, `sol.v[i, t]`, `sol.d[i, t]` -/
structure Sample (α : Type) where
  a : α
  v : α
  d : α
deriving Repr

/-- `(ruf, euf, duf, suf)` — "reds" order -/
structure Uf (α : Type) where
  ruf : α
  euf : α
  duf : α
  suf : α
deriving Repr

/-- what `_pre_calcs` saves for one (mode, abscissa) -/
structure Pre (α : Type) where
  genforce : α
  avterm : α
deriving Repr, DecidableEq

structure Out (α : Type) where
  a : α
  v : α
  d : α
  dStatic : α
  dDynamic : α
deriving Repr, DecidableEq

section
variable {α : Type} [Add α] [Mul α] [Neg α] [Div α] [OfNat α 0]

def mTimes (m : Option α) (a : α) : α :=
  match m with
  | none => a
  | some m => m * a

/-- `_pre_calcs`: `genforce = m a + b v (+= k d)`, `avterm = m a + b v` for elastic modes;
`genforce = k d` for residual-flexibility modes (rigid-body rows are not part of the arrays). -/
def preCalc (md : Mode α) (s : Sample α) : Pre α :=
  match md.kind with
  | .el => let av := mTimes md.m s.a + md.b * s.v
           ⟨av + md.k * s.d, av⟩
  | .rf => ⟨md.k * s.d, 0⟩
  | .rb => ⟨0, 0⟩

/-- the body of `apply_uf` for one (mode, abscissa) given the saved terms -/
def applyMode (uf : Uf α) (md : Mode α) (s : Sample α) (pre : Pre α) : Out α :=
  match md.kind with
  | .rb => ⟨s.a * (uf.ruf * uf.suf), s.v * (uf.ruf * uf.suf), 0 + 0, 0, 0⟩
  | .rf =>
    let ds := ((uf.euf * uf.suf) * pre.genforce) / md.k
    ⟨0 * (uf.euf * uf.duf), 0 * (uf.euf * uf.duf), ds + 0, ds, 0⟩
  | .el =>
    let ds := ((uf.euf * uf.suf) * pre.genforce) / md.k
    let dd := (-((uf.euf * uf.duf) * pre.avterm)) / md.k
    ⟨s.a * (uf.euf * uf.duf), s.v * (uf.euf * uf.duf), ds + dd, ds, dd⟩

/-- a modal solution: one row of samples per mode -/
abbrev Sol (α : Type) := List (List (Sample α))

def preAll (modes : List (Mode α)) (sol : Sol α) : List (List (Pre α)) :=
  List.zipWith (fun md row => row.map (preCalc md)) modes sol

def outAll (uf : Uf α) (modes : List (Mode α)) (sol : Sol α) (pre : List (List (Pre α))) :
    List (List (Out α)) :=
  List.zipWith (fun (p : Mode α × List (Sample α)) prow =>
      List.zipWith (applyMode uf p.1) p.2 prow) (modes.zip sol) pre

def allRb (modes : List (Mode α)) : Bool := modes.all fun md => md.kind == .rb

/-- `apply_uf(sol, uf_reds, m, b, k, nrb, rfmodes, save)`: returns the scaled solution and the
`save` dictionary after the call.  With only rigid-body modes the routine returns before it looks
at `save`. -/
def applyUf (save : Option (List (List (Pre α)))) (modes : List (Mode α)) (sol : Sol α)
    (uf : Uf α) : List (List (Out α)) × Option (List (List (Pre α))) :=
  if allRb modes then
    (List.zipWith (fun md row => row.map fun s => applyMode uf md s ⟨0, 0⟩) modes sol, save)
  else
    let pre := match save with
      | some p => p
      | none => preAll modes sol
    (outAll uf modes sol pre, some pre)

/-- `DR_Event.apply_uf`: one fresh `save = {}` shared by all `uf_reds` tuples of the event, in
order. -/
def applyUfSeq (save : Option (List (List (Pre α)))) (modes : List (Mode α)) (sol : Sol α) :
    List (Uf α) → List (List (List (Out α)))
  | [] => []
  | uf :: rest =>
    let r := applyUf save modes sol uf
    r.1 :: applyUfSeq r.2 modes sol rest

/-- `solout.pg = sol.pg * suf` -/
def pgScale [Mul α] (pg : List α) (uf : Uf α) : List α := pg.map (· * uf.suf)

end
end PyYetiVerif.ApplyUf
