import PyYetiVerif.Model.Srs
/-
Model of pyyeti/srs.py, second part (C03 extension).  Core Lean only.

* the rigid oscillator (`wn = 0`): `u'' = -x(t)`, closed form over one sample interval, stepping;
* the exact oscillator started in steady state under a constant input, end state of a record,
  closed-form free decay;
* the roll-off step of `srs.srs` (`fftroll`, `lanroll`, `linroll`, `preroll`: *when* they are
  applied, the up-sampling factor, the new sample rate and the new number of samples; the
  resampled values themselves are a parameter) and the index bookkeeping that follows it
  (`M`, `N`, `S`, `resp['t']`);
* `srs.vrs`: the merged integration grid `np.unique(np.hstack((freq, Fn)))`, the area weights as
  an explicit vector, Miles' equation.
-/
namespace PyYetiVerif.Srs
open TransOps

section rigid
variable {α : Type} [Add α] [Sub α] [Mul α] [Div α] [Neg α] [BEq α]
  [OfNat α 0] [OfNat α 1] [OfNat α 2] [OfNat α 4] [OfNat α 6] [TransOps α]

/-! ### rigid oscillator, `wn = 0`: `u'' = -(x0 + (x1 - x0) t / dT)` -/

def rigidU (dT u0 v0 x0 x1 t : α) : α :=
  u0 + v0 * t - x0 * (t * t) / 2 - (x1 - x0) / dT * (t * t * t) / 6

def rigidV (dT v0 x0 x1 t : α) : α :=
  v0 - x0 * t - (x1 - x0) / dT * (t * t) / 2

/-- states `(u, v, x)` at the sample instants, started from `(u, v)` with previous input `x` -/
def rigidStatesAux (dT : α) : α → α → α → List α → List (α × α × α)
  | _, _, _, [] => []
  | u, v, x, x' :: xs =>
      let u' := rigidU dT u v x x' dT
      let v' := rigidV dT v x x' dT
      (u', v', x') :: rigidStatesAux dT u' v' x' xs

/-- exact response of the `wn = 0` oscillator, at rest one sample before the record, input
ramping up from zero; the response quantities are those of `SType.out` at `wn = 0`
(`reldisp = u`, `relvelo = v`, `relacce = -x`, the others `0`) -/
def rigidResp (st : SType) (Q dT : α) (xs : List α) : List α :=
  (rigidStatesAux dT 0 0 0 xs).map (st.out (Osc.ofQ Q dT 0))

/-! ### steady-state start, end state, free decay (wn > 0) -/

/-- exact response to the record `xs` of the oscillator that is in steady state under the
constant input `c` one sample before the record: `u = -c / wn²`, `v = 0` -/
def steadyResp (st : SType) (Q dT wn c : α) (xs : List α) : List α :=
  ((Osc.ofQ Q dT wn).statesAux (-c / (wn * wn)) 0 c xs).map (st.out (Osc.ofQ Q dT wn))

/-- state and last input after stepping through `xs` -/
def Osc.endState (o : Osc α) : α → α → α → List α → α × α × α
  | u, v, x, [] => (u, v, x)
  | u, v, x, x' :: xs => o.endState (o.uAt u v x x' o.dT) (o.vAt u v x x' o.dT) x' xs

/-- free decay (zero input) from `(u0, v0)`: displacement and velocity at time `t` -/
def Osc.freeU (o : Osc α) (u0 v0 t : α) : α :=
  exp (-o.zeta * o.wn * t) *
    (u0 * cos (t * o.wd) + (v0 + o.zeta * o.wn * u0) / o.wd * sin (t * o.wd))

def Osc.freeV (o : Osc α) (u0 v0 t : α) : α :=
  exp (-o.zeta * o.wn * t) *
    (v0 * cos (t * o.wd) - (o.zeta * o.wn * v0 + o.wn * o.wn * u0) / o.wd * sin (t * o.wd))

/-- the closed-form free decay sampled on the grid `t = 0, dT, 2 dT, …` (`n` samples), as the
response quantity `st` (the input is zero) -/
def freeDecayResp (st : SType) (o : Osc α) (u0 v0 : α) (n : Nat) : List α :=
  (List.range n).map fun k =>
    st.out o (o.freeU u0 v0 (ofNat k * o.dT), o.freeV u0 v0 (ofNat k * o.dT), 0)

/-- the residual window of the exact response: the record `xs` (previous state `u v x`) is
followed by `nz` samples of zero input; the first appended sample is the instant at which the
linearly interpolated input reaches zero, from there on the oscillator decays freely -/
def residualExact (st : SType) (o : Osc α) (u v x : α) (xs : List α) (nz : Nat) : List α :=
  let e := o.endState u v x xs
  freeDecayResp st o (o.uAt e.1 e.2.1 e.2.2 0 o.dT) (o.vAt e.1 e.2.1 e.2.2 0 o.dT) nz

end rigid

/-! ### the roll-off step and the index bookkeeping of `srs.srs` -/

inductive Roll | none | linear | fft | lanczos | prefilter
deriving DecidableEq, Repr

section roll
variable {α : Type} [Add α] [Sub α] [Mul α] [Div α] [Neg α] [BEq α] [LT α] [DecidableLT α]
  [OfNat α 0] [OfNat α 1] [OfNat α 2] [OfNat α 4] [OfNat α 6] [TransOps α]

/-- the constant the initial-condition rule subtracts from the record -/
def icShift (ic : Ic) (s1 : α) (sig : List α) : α :=
  match ic with
  | .zero => 0
  | .mshift => mean sig
  | _ => s1

/-- the *specification* of one `srs.srs` column (`rolloff='none'`, `f > 0`), written with the
closed-form oscillator only (no filter): the exact response to the linearly interpolated record
followed by zero input for the appended cycle, started
* `zero`: at rest one sample before the record (the input ramps up from zero),
* `shift` / `mshift`: likewise for the record minus its first sample / its mean,
* `steady`: in steady state under the constant input `s1` (`u = -s1/wn²`, `v = 0`),
then the time window and the peak statistic. -/
def exactCol (o : Opts) (Q sr : α) (freqs : List α) (f : α) (sig : List α) :
    Option (List α × α) :=
  match sig with
  | [] => none
  | s1 :: _ =>
    let wn := 2 * pi * f
    let osc := Osc.ofQ Q (1 / sr) wn
    let nz := if o.time = .primary then 0 else nzeros sr freqs
    let states :=
      if o.ic = .steady then osc.statesAux (-s1 / (wn * wn)) 0 s1 (sig ++ List.replicate nz 0)
      else osc.statesAux 0 0 0 (sig.map (· - icShift o.ic s1 sig) ++ List.replicate nz 0)
    let resp := states.map (o.st.out osc)
    let win := if o.time = .residual then resp.drop sig.length else resp
    match win with
    | [] => none
    | y :: ys =>
      let pk := o.peak.sel y ys
      if o.eqsine then some (win.map (· / Q), pk / Q) else some (win, pk)

/-- the specification of one `srs.srs` column for a 0 Hz oscillator (`rolloff='none'`, `ic` other
than `'steady'`, for which no steady state exists): the rigid closed form `u'' = -x(t)` on the
shifted record followed by the appended cycle (its length comes from the other frequencies). -/
def exactCol0 (o : Opts) (Q sr : α) (freqs : List α) (sig : List α) : Option (List α × α) :=
  match sig with
  | [] => none
  | s1 :: _ =>
    let nz := if o.time = .primary then 0 else nzeros sr freqs
    let states :=
      rigidStatesAux (1 / sr) 0 0 0 (sig.map (· - icShift o.ic s1 sig) ++ List.replicate nz 0)
    let resp := states.map (o.st.out (Osc.ofQ Q (1 / sr) 0))
    let win := if o.time = .residual then resp.drop sig.length else resp
    match win with
    | [] => none
    | y :: ys =>
      let pk := o.peak.sel y ys
      if o.eqsine then some (win.map (· / Q), pk / Q) else some (win, pk)

/-- `np.max(freq)` of a non-empty vector -/
def maxFreq : List α → Option α
  | [] => none
  | f :: fs => some (maxOf f fs)

/-- `rollfunc and mf != 0 and sr / mf < ppc` (srs.py, after the `prefilter` special case) -/
def rollTriggers (roll : Roll) (ppc sr mf : α) : Bool :=
  match roll with
  | .none | .prefilter => false
  | _ => !(mf == 0) && decide (sr / mf < ppc)

/-- `factor = int(np.ceil(ppc / (sr / frq)))` -/
def rollFactor (ppc sr mf : α) : Nat := natCeil (ppc / (sr / mf))

/-- number of samples returned by the resampler for a record of `N` samples (`N > 1`):
`linroll`: `N*factor - 1` (`np.linspace(0, told[-1], N*factor - 1)`), `fftroll`: `factor*N`, the
last sample being dropped first when `N` is odd, `lanroll` (`dsp.resample(sig, factor, 1)`):
`N*factor` -/
def rollLen (roll : Roll) (N factor : Nat) : Nat :=
  match roll with
  | .linear => N * factor - 1
  | .fft => if N % 2 = 1 then factor * (N - 1) else factor * N
  | .lanczos => N * factor
  | _ => N

/-- `(number of samples, sample rate)` after the roll-off step; `none` where the code raises
(`prefilter`: `scipy.signal.filtfilt` needs more than `padlen = 12` samples; empty `freq`) -/
def rollStep (roll : Roll) (ppc sr : α) (freqs : List α) (N : Nat) : Option (Nat × α) :=
  match maxFreq freqs with
  | none => none
  | some mf =>
    if roll = .prefilter then (if N ≤ 12 then none else some (N, sr))
    else if rollTriggers roll ppc sr mf && decide (1 < N) then
      some (rollLen roll N (rollFactor ppc sr mf), sr * ofNat (rollFactor ppc sr mf))
    else some (N, sr)

structure Index (α : Type) where
  /-- `resp['sr']` -/
  sr : α
  /-- `M`: number of samples of the (resampled) record = end of the primary window -/
  M : Nat
  /-- `N`: `M` plus the appended cycle (`M` for `time='primary'`) -/
  N : Nat
  /-- `S`: first sample of the window the peak is taken over -/
  S : Nat

/-- the index bookkeeping of `srs.srs` for a record of `n` samples -/
def srsIndex (roll : Roll) (time : Time) (ppc sr : α) (freqs : List α) (n : Nat) :
    Option (Index α) :=
  match rollStep roll ppc sr freqs n with
  | none => none
  | some (M, sr') =>
    let N := if time = .primary then M else M + nzeros sr' freqs
    some ⟨sr', M, N, if time = .residual then M else 0⟩

/-- the sample numbers of `resp['t'] * resp['sr']` (`np.arange(M, N)` or `np.arange(N)`) -/
def Index.samples (ix : Index α) (time : Time) : List Nat :=
  if time = .residual then List.range' ix.M (ix.N - ix.M) else List.range ix.N

/-- `srs.srs` for one column and one frequency with a roll-off method whose resampler is the
parameter `up : record → factor → resampled record` (for `prefilter` the factor passed is `1`).
`none` where the code raises. -/
def srsRolled (o : Opts) (roll : Roll) (up : List α → Nat → List α) (ppc Q sr : α)
    (freqs : List α) (f : α) (sig : List α) : Option (List α × α) :=
  match sig, maxFreq freqs with
  | [], _ => none
  | _, none => none
  | s1 :: _, some mf =>
    let p := processIc o.ic o.st s1 sig
    if roll = .prefilter then
      (if sig.length ≤ 12 then none else srsTail o Q sr freqs f s1 p.2 (up p.1 1))
    else if rollTriggers roll ppc sr mf && decide (1 < sig.length) then
      srsTail o Q (sr * ofNat (rollFactor ppc sr mf)) freqs f s1 p.2 (up p.1 (rollFactor ppc sr mf))
    else srsTail o Q sr freqs f s1 p.2 p.1

end roll

/-! ### srs.vrs: merged grid, weights, Miles -/
section vrs2
variable {α : Type} [Add α] [Sub α] [Mul α] [Div α] [LT α] [DecidableLT α]
  [OfNat α 0] [OfNat α 1] [OfNat α 2] [TransOps α]

/-- insert into a strictly increasing list, dropping duplicates -/
def insertUniq (x : α) : List α → List α
  | [] => [x]
  | y :: ys => if x < y then x :: y :: ys else if y < x then y :: insertUniq x ys else y :: ys

/-- `np.unique(np.hstack((freq, Fn)))` -/
def mergeGrid (freq fn : List α) : List α := (freq ++ fn).foldr insertUniq []

/-- the area weights `df` of `srs.vrs` for the grid `f0 :: f1 :: rest`:
`df[0] = f1 - f0`, `df[i] = (f[i+1] - f[i-1]) / 2`, `df[-1] = f[-1] - f[-2]` -/
def vrsWeightsInner : α → α → List α → List α
  | p, c, [] => [c - p]
  | p, c, n :: rest => (n - p) / 2 :: vrsWeightsInner c n rest

def vrsWeights : List α → List α
  | f0 :: f1 :: rest => (f1 - f0) :: vrsWeightsInner f0 f1 rest
  | _ => []

/-- `Σ w_i g_i` -/
def dot : List α → List α → α
  | w :: ws, g :: gs => w * g + dot ws gs
  | _, _ => 0

/-- Miles' equation: `sqrt(pi/2 * fn * Q * psd(fn))` -/
def milesOne (Q fn psdfn : α) : α := TransOps.sqrt (TransOps.pi / 2 * fn * Q * psdfn)

/-- `z_vrs` at every `Fn` over the (merged) grid points `(f_i, psd_i)` -/
def vrsAll (Q : α) (pts : List (α × α)) (fns : List α) : List (Option α) :=
  fns.map fun fn => vrsOne Q fn pts

end vrs2
end PyYetiVerif.Srs
