import PyYetiVerif.Model.Uset
/-!
Model of `n2p.upasetpv` and `n2p.upqsetpv`: partition vectors from the a-set (q-set) of upstream
superelements to the p-set of the downstream superelement, on a nas2cam-like dictionary.
Core Lean only.

The dictionary `nas` holds `selist` (rows `[seup, sedn]`), and per superelement the USET table,
`dnids` (ids of the upstream a-set as seen downstream), `maps` (rows `[order, scale]`, `[]` when
there is no reordering) and `upids`.  A missing dictionary entry is a `KeyError`.
-/
namespace PyYetiVerif.Uset
open PyYetiVerif.Locate (normIndex)

structure Nas where
  selist : List (Nat × Nat)
  uset : List (Nat × List Row)
  dnids : List (Nat × List Nat)
  maps : List (Nat × List (Int × Int))
  upids : List (Nat × List Int)
deriving Repr

/-- `d[k]` on a dictionary -/
def lookupD {β : Type} (d : List (Nat × β)) (k : Nat) : Except Err β :=
  match d.find? (fun p => p.1 = k) with
  | some p => .ok p.2
  | none => .error .key

/-- `mask.nonzero()[0]` -/
def positions (mask : List Bool) : List Nat := (mask.zipIdx.filter (·.1)).map (·.2)

/-- `uset.index.isin(ids, level="id")` -/
def idMask (tbl : List Row) (ids : List Nat) : List Bool := tbl.map fun r => ids.contains r.1

/-- `_get_node_ids`: one id per node (the rows with `dof ≤ 1`) -/
def nodeIds (tbl : List Row) : List Nat := (tbl.filter fun r => decide (r.2.1 ≤ 1)).map (·.1)

/-- the rows of the downstream table that belong to the boundary of the upstream SE: by the ids
in `dnids` (CSUPER), or - when those cover fewer rows than `dnids` has entries - through the
downstream `upids` (SECONCT / EXTSEOUT type: `dnids` are internally generated ids). -/
def upMask (nas : Nas) (sedn : Nat) (usetdn : List Row) (dnids : List Nat) :
    Except Err (List Bool) :=
  let m := idMask usetdn dnids
  if m.count true < dnids.length then do
    let upids ← lookupD nas.upids sedn
    let ids := nodeIds usetdn
    if upids.length ≠ ids.length then
      -- boolean index of another length: IndexError - pandas answers an EMPTY boolean indexer on a
      -- non-empty Index with a ValueError of its own
      (if upids.length = 0 then .error .value else .error .index)
    else
      let sel := ((ids.zip upids).filter fun p => (dnids.map Int.ofNat).contains p.2).map (·.1)
      let m2 := idMask usetdn sel
      if m2.count true < dnids.length then .error .value else .ok m2
  else .ok m

/-- `x[idx]` with numpy index normalisation (negative entries wrap, others are an IndexError) -/
def take {β : Type} (x : List β) (idx : List Int) : Except Err (List β) :=
  match idx.mapM (fun i => (normIndex x.length i).bind (x[·]?)) with
  | some l => .ok l
  | none => .error .index

/-- `if len(maps) > 0: check column 2; up_a = up_a[maps[:, 0]]` -/
def applyMaps (base : List Nat) (maps : List (Int × Int)) : Except Err (List Nat) :=
  if maps = [] then .ok base
  else if maps.any (fun m => m.2 ≠ 1) then .error .value
  else take base (maps.map (·.1))

/-- `upasetpv(nas, seup)` -/
def upasetpv (nas : Nas) (seup : Nat) : Except Err (List Nat) :=
  match nas.selist.find? (fun r => r.1 = seup) with
  | none => .error .value
  | some row => do
      let usetdn ← lookupD nas.uset row.2
      let dnids ← lookupD nas.dnids seup
      let maps ← lookupD nas.maps seup
      let m ← upMask nas row.2 usetdn dnids
      applyMaps (positions m) maps

/-! ### upqsetpv -/

/-- numpy broadcasting of the assigned values to `n` places -/
def bcast (vals : List Bool) (n : Nat) : Except Err (List Bool) :=
  if vals.length = n then .ok vals
  else match vals with
    | [v] => .ok (List.replicate n v)
    | _ => .error .value

/-- `pv[idx] = vals` (later entries win on a repeated index) -/
def scatter (pv : List Bool) (idx : List Nat) (vals : List Bool) : List Bool :=
  (idx.zip vals).foldl (fun acc p => acc.set p.1 p.2) pv

/-- `x[mask]` for a boolean `mask` (an `IndexError` when the lengths differ) -/
def maskSel {β : Type} (x : List β) (mask : List Bool) : Except Err (List β) :=
  if mask.length ≠ x.length then .error .index
  else .ok (((x.zip mask).filter (·.2)).map (·.1))

def diffsPos : List Int → Bool
  | a :: b :: rest => decide (a < b) && diffsPos (b :: rest)
  | _ => true

/-- the q-set flags of an upstream SE over its a-set, before its own upstream SEs are added -/
def qupOwn (amask qmask pmask : Nat) (usetup : List Row) : Except Err (List Bool) := do
  let words := usetup.map (·.2.2)
  let q ← mksetpv words amask qmask
  if q.any id then .ok q
  else do
    -- no q-set: every a-set scalar point counts
    let pa ← mksetpv words pmask amask
    let dofs ← maskSel (usetup.map (·.2.1)) pa
    .ok (dofs.map fun d => decide (d = 0))

/-- one upstream SE written into the downstream vector -/
def upqWrite (nas : Nas) (sedn : Nat) (usetdn : List Row) (pv qup : List Bool)
    (dnids : List Nat) (maps : List (Int × Int)) : Except Err (List Bool) := do
  let m ← upMask nas sedn usetdn dnids
  let upA := positions m
  if maps = [] then do
    let v ← bcast qup upA.length
    .ok (scatter pv upA v)
  else if maps.any (fun r => r.2 ≠ 1) then .error .value
  else
    let mp := maps.map (·.1)
    if mp.length = upA.length then do
      let idx ← take upA mp
      let v ← bcast qup idx.length
      .ok (scatter pv idx v)
    else if diffsPos mp then do
      let v ← bcast qup upA.length
      .ok (scatter pv upA v)
    else .error .value

/-- the q-set flags of upstream SE `seup` over its a-set: its own, or-ed with those of its own
upstream SEs (`rec` = `upqsetpv` one level up) when it has any -/
def upqQup (amask qmask pmask : Nat) (nas : Nas) (rec : Nat → Except Err (List Bool))
    (seup : Nat) (usetup : List Row) : Except Err (List Bool) := do
  let qup0 ← qupOwn amask qmask pmask usetup
  if nas.selist.any (fun r => r.2 = seup) then do
    let qup2 ← rec seup
    let pa ← mksetpv (usetup.map (·.2.2)) pmask amask
    let q2 ← maskSel qup2 pa
    if q2.length = qup0.length then pure (List.zipWith (· || ·) qup0 q2)
    else match qup0, q2 with      -- numpy broadcasting of `|`
      | [a], _ => pure (q2.map (a || ·))
      | _, [b] => pure (qup0.map (· || b))
      | _, _ => .error .value
  else pure qup0

/-- the body of the loop over the rows of `selist` whose downstream SE is `sedn` -/
def upqStep (amask qmask pmask : Nat) (nas : Nas) (rec : Nat → Except Err (List Bool))
    (sedn : Nat) (usetdn : List Row) (pv : List Bool) (seup : Nat) : Except Err (List Bool) :=
  if seup = sedn then pure pv
  else do
    let usetup ← lookupD nas.uset seup
    let dnids ← lookupD nas.dnids seup
    let maps ← lookupD nas.maps seup
    let qup ← upqQup amask qmask pmask nas rec seup usetup
    if qup.any id then upqWrite nas sedn usetdn pv qup dnids maps
    else pure pv

/-- `upqsetpv(nas, sedn)`; `fuel` bounds the recursion up the superelement tree.  The real code
recurses without a bound: on a `selist` without cycles `selist.length + 1` levels are never used
up (`upqsetpv_fuel_suffices`), on a cyclic one the real code ends in Python's `RecursionError`
and the model, at every fuel, in `.error .recursion` (`upqsetpv_cycle_diverges`). -/
def upqsetpv (amask qmask pmask : Nat) (nas : Nas) : Nat → Nat → Except Err (List Bool)
  | 0, _ => .error .recursion
  | fuel + 1, sedn =>
      let ups := (nas.selist.filter fun r => r.2 = sedn).map (·.1)
      if ups = [] then .error .value
      else do
        let usetdn ← lookupD nas.uset sedn
        ups.foldlM (upqStep amask qmask pmask nas (upqsetpv amask qmask pmask nas fuel) sedn usetdn)
          (List.replicate usetdn.length false)

/-! ### the connection of one `selist` row (used to state what `upqsetpv` computes) -/

/-- the places of the downstream vector that receive, in this order, the flags of the a-set DOF of
one upstream SE: the boundary rows (`upMask`: through `dnids`, or `upids`), re-ordered by `maps`
when it has one entry per boundary row, unchanged when `maps` is empty or strictly increasing of
another length (`upqWrite_eq`: this is the index vector of the assignment `pv[...] = qup`). -/
def upqIdx (nas : Nas) (sedn : Nat) (usetdn : List Row) (dnids : List Nat) (maps : List (Int × Int)) :
    Except Err (List Nat) := do
  let m ← upMask nas sedn usetdn dnids
  let upA := positions m
  if maps = [] then .ok upA
  else if maps.any (fun r => r.2 ≠ 1) then .error .value
  else
    let mp := maps.map (·.1)
    if mp.length = upA.length then take upA mp
    else if diffsPos mp then .ok upA
    else .error .value

/-- `upqIdx` for the `selist` row `r = (seup, sedn)`; `none` for a row that names an SE as its own
downstream (skipped by the loop) and when a dictionary entry is missing or inconsistent -/
def linkIdx (nas : Nas) (r : Nat × Nat) : Option (List Nat) :=
  if r.1 = r.2 then none
  else match lookupD nas.uset r.2, lookupD nas.dnids r.1, lookupD nas.maps r.1 with
    | .ok usetdn, .ok dnids, .ok maps =>
        (match upqIdx nas r.2 usetdn dnids maps with | .ok idx => some idx | .error _ => none)
    | _, _, _ => none

/-- the rows of a table that are in the a-set, in table order (`mksetpv(uset, "p", "a").nonzero()`
when every row is in the p-set) -/
def aRows (amask : Nat) (tbl : List Row) : List Nat := positions (tbl.map fun r => inSet r.2.2 amask)

/-- the `k`-th a-set DOF of SE `c` can carry a flag at all: `c` flags it itself (`qupOwn`), or its
row in the table of `c` is a place of a connection into `c` -/
def canFlag (am qm pm : Nat) (nas : Nas) (c k : Nat) : Bool :=
  match lookupD nas.uset c with
  | .error _ => false
  | .ok u =>
      (match qupOwn am qm pm u with
        | .ok q0 => q0[k]? == some true
        | .error _ => false) ||
      (match (aRows am u)[k]? with
        | none => false
        | some j => nas.selist.any fun r => r.2 == c &&
            (match linkIdx nas r with | some idx => idx.contains j | none => false))

/-- the connections of a dictionary are separate (`C18.Separate`, as a computation): the places of
one connection are distinct and as many as the upstream SE has a-set DOF, and a place that two
different upstream SEs of one SE have in common (a shared boundary grid) cannot carry a flag in
either of them -/
def separateB (am qm pm : Nat) (nas : Nas) : Bool :=
  (nas.selist.all fun r =>
    match linkIdx nas r with
    | none => true
    | some idx =>
        decide idx.Nodup &&
        (match lookupD nas.uset r.1 with
          | .ok u => idx.length == (aRows am u).length
          | .error _ => true)) &&
  (nas.selist.all fun r => nas.selist.all fun r' =>
    (r.2 != r'.2 || r.1 == r'.1) ||
    (match linkIdx nas r, linkIdx nas r' with
      | some idx, some idx' =>
          (List.range idx.length).all fun k => (List.range idx'.length).all fun k' =>
            idx[k]? != idx'[k']? || (!canFlag am qm pm nas r.1 k && !canFlag am qm pm nas r'.1 k')
      | _, _ => true))

/-! ### `_findse` -/

/-- `_findse(nas, se)`: the first row of `selist` whose first column is `se` (`ValueError` when
there is none) -/
def findse (selist : List (Nat × Nat)) (se : Nat) : Except Err Nat :=
  match positions (selist.map fun r => decide (r.1 = se)) with
  | [] => .error .value
  | r :: _ => .ok r

end PyYetiVerif.Uset
