/-
Bit-exact model of the CPython float conversions used by pyyeti/nastran/bulk.py:

  * `'%.*f' % x`, `'%.*e' % x`  (`fmtF`, `fmtE`)  — correctly rounded (round-half-even on the
    exact binary value), which is what CPython's `PyOS_double_to_string` (dtoa mode 3 / 2) does;
  * `float(str)` (`parseFloat`) — decimal → nearest double, ties to even;
  * `int(str)` (`parseInt?`), `round(x)` / `int(round(x, 0))` (`roundInt`).

Core Lean only.  Strings are `List Char` (`Str`) so that length lemmas are list lemmas.
A finite double is transported as its 64-bit pattern (a `Nat`) and decoded to the exact
rational `(-1)^neg * num / den`.
-/
namespace PyYetiVerif.PyFloat

abbrev Str := List Char

def digitChar (d : Nat) : Char := Char.ofNat (48 + d)

/-- decimal digits of a natural, most significant first (`str(n)`). -/
def natDigits (n : Nat) : Str :=
  if n < 10 then [digitChar n] else natDigits (n / 10) ++ [digitChar (n % 10)]
termination_by n
decreasing_by omega

/-- the last `p` decimal digits of `n`, zero padded. -/
def fracDigits : Nat → Nat → Str
  | 0, _ => []
  | p + 1, n => fracDigits p (n / 10) ++ [digitChar (n % 10)]

/-- `a / b` rounded to the nearest natural, ties to even (`b > 0`). -/
def rheDiv (a b : Nat) : Nat :=
  let q := a / b
  let r := a % b
  if 2 * r < b then q else if b < 2 * r then q + 1 else if q % 2 = 0 then q else q + 1

def rjust (w : Nat) (s : Str) : Str := List.replicate (w - s.length) ' ' ++ s
def ljust (w : Nat) (s : Str) : Str := s ++ List.replicate (w - s.length) ' '

/-- exact value of a finite double: `(-1)^neg * num / den`, `den` a power of two. -/
structure Dbl where
  neg : Bool
  num : Nat
  den : Nat
deriving Repr, DecidableEq

namespace Dbl
def snum (x : Dbl) : Int := if x.neg then -(x.num : Int) else x.num
def lt (x y : Dbl) : Bool := x.snum * y.den < y.snum * x.den
def le (x y : Dbl) : Bool := x.snum * y.den ≤ y.snum * x.den
def eq (x y : Dbl) : Bool := x.snum * y.den == y.snum * x.den
def isZero (x : Dbl) : Bool := x.num == 0
/-- `abs(x) < 1.0` -/
def absLtOne (x : Dbl) : Bool := x.num < x.den
end Dbl

/-- decode an IEEE-754 binary64 pattern; `none` for inf / nan. -/
def ofBits (b : Nat) : Option Dbl :=
  let neg := b / 2 ^ 63 % 2 == 1
  let e := b / 2 ^ 52 % 2048
  let f := b % 2 ^ 52
  if e == 2047 then none
  else if e == 0 then some ⟨neg, f, 2 ^ 1074⟩
  else if e ≥ 1075 then some ⟨neg, (f + 2 ^ 52) * 2 ^ (e - 1075), 1⟩
  else some ⟨neg, f + 2 ^ 52, 2 ^ (1075 - e)⟩

def infBits (neg : Bool) : Nat := (if neg then 2 ^ 63 else 0) + 2047 * 2 ^ 52

/-- `a / (b * 2^q)` as a fraction -/
def scale2 (a b : Nat) (q : Int) : Nat × Nat :=
  if q ≥ 0 then (a, b * 2 ^ q.toNat) else (a * 2 ^ (-q).toNat, b)

/-- the binary exponent `q` with `a / (b * 2^q) ∈ [2^52, 2^53)`, clamped at the subnormal
exponent `-1074` (`a, b > 0`) -/
def binExp (a b : Nat) : Int :=
  -- a/b ∈ (2^(t-1), 2^(t+1)) with t = log2 a - log2 b
  let t : Int := (Nat.log2 a : Int) - (Nat.log2 b : Int)
  let q1 : Int := t - 53
  let s1 := scale2 a b q1
  let q2 : Int := if s1.1 / s1.2 ≥ 2 ^ 53 then q1 + 1 else q1
  if q2 < -1074 then -1074 else q2

/-- bit pattern of `(-1)^neg * m * 2^q` for a rounded significand `m ≤ 2^53` (`m = 2^53` is the
carry into the next binade); overflow gives inf -/
def encodeBits (neg : Bool) (m : Nat) (q : Int) : Nat :=
  let s := if neg then 2 ^ 63 else 0
  if m < 2 ^ 52 then s + m                     -- subnormal (q = -1074)
  else
    let (m', q') := if m ≥ 2 ^ 53 then (m / 2, q + 1) else (m, q)
    let e : Int := q' + 1075
    if e ≥ 2047 then infBits neg else s + e.toNat * 2 ^ 52 + (m' - 2 ^ 52)

/-- nearest double (ties to even) of `(-1)^neg * a / b`, as a bit pattern; overflow gives inf. -/
def toBits (neg : Bool) (a b : Nat) : Nat :=
  if a == 0 then (if neg then 2 ^ 63 else 0)
  else
    let q := binExp a b
    let s := scale2 a b q
    encodeBits neg (rheDiv s.1 s.2) q

/-- `'%.{p}f' % x` -/
def fmtFixedN (p : Nat) (neg : Bool) (a b : Nat) : Str :=
  let N := rheDiv (a * 10 ^ p) b
  (if neg then ['-'] else []) ++ natDigits (N / 10 ^ p) ++
    (if p = 0 then [] else '.' :: fracDigits p N)

def fmtF (p : Nat) (x : Dbl) : Str := fmtFixedN p x.neg x.num x.den

/-- `10^e ≤ a / b` for an exponent `e ≤ 0` -/
def ilogOk (a b : Nat) (e : Int) : Bool := 10 ^ (-e).toNat * a ≥ b

/-- go down from `e` to the first exponent that fits -/
def ilogDown (a b : Nat) : Nat → Int → Int
  | 0, e => e
  | fuel + 1, e => if ilogOk a b e then e else ilogDown a b fuel (e - 1)

/-- go up while the next exponent (`≤ 0`) still fits -/
def ilogUp (a b : Nat) : Nat → Int → Int
  | 0, e => e
  | fuel + 1, e => if e + 1 ≤ 0 && ilogOk a b (e + 1) then ilogUp a b fuel (e + 1) else e

/-- largest `e` with `10^e * b ≤ a` (`a, b > 0`): the decimal exponent of `a / b`. -/
def ilog10 (a b : Nat) : Int :=
  if a ≥ b then ((natDigits (a / b)).length : Int) - 1
  else
    -- estimate from bit lengths (off by one or two), then correct; the loops stop as soon as the
    -- answer is reached, their fuel is what makes them total whatever the estimate
    let d : Int := (Nat.log2 a : Int) - (Nat.log2 b : Int)       -- a/b ∈ (2^(d-1), 2^(d+1))
    let e0 : Int := (d * 30103) / 100000 - 2
    let e1 := ilogDown a b (e0 + (Nat.log2 b : Int) + 2).toNat e0
    ilogUp a b (-e1).toNat e1

/-- the `p+1` significant digits `N` and the decimal exponent `e` of `'%.{p}e' % x`:
`|x| ≈ N · 10^(e-p)` with `10^p ≤ N < 10^(p+1)` (correctly rounded, ties to even) -/
def eParts (p : Nat) (x : Dbl) : Nat × Int :=
  if x.num == 0 then (0, 0)
  else
    let e := ilog10 x.num x.den
    let sh : Int := (p : Int) - e
    let N := if sh ≥ 0 then rheDiv (x.num * 10 ^ sh.toNat) x.den
             else rheDiv x.num (x.den * 10 ^ (-sh).toNat)
    if N ≥ 10 ^ (p + 1) then (N / 10, e + 1) else (N, e)

/-- the exponent digits of `%e`: at least two -/
def expDigits (e : Int) : Str :=
  let ed := natDigits e.natAbs
  if ed.length < 2 then '0' :: ed else ed

/-- `'%.{p}e' % x` -/
def fmtE (p : Nat) (x : Dbl) : Str :=
  let sgn : Str := if x.neg then ['-'] else []
  let N := (eParts p x).1
  let e := (eParts p x).2
  sgn ++ natDigits (N / 10 ^ p) ++ (if p = 0 then [] else '.' :: fracDigits p N) ++
    ['e', if e < 0 then '-' else '+'] ++ expDigits e

/-- `round(x)` (and `int(round(x, 0))`): nearest integer, ties to even. -/
def roundInt (x : Dbl) : Int :=
  let n : Int := rheDiv x.num x.den
  if x.neg then -n else n

/-! ### parsing -/

def isWs (c : Char) : Bool :=
  c == ' ' || c == '\n' || c == '\t' || c == '\r' || c == '\x0b' || c == '\x0c'

def lstripBy (p : Char → Bool) (s : Str) : Str := s.dropWhile p
def rstripBy (p : Char → Bool) (s : Str) : Str := (s.reverse.dropWhile p).reverse
def stripBy (p : Char → Bool) (s : Str) : Str := rstripBy p (lstripBy p s)
/-- `s.strip(chars)` -/
def stripChars (cs : Str) (s : Str) : Str := stripBy (fun c => cs.contains c) s
def rstripChars (cs : Str) (s : Str) : Str := rstripBy (fun c => cs.contains c) s
def stripWs (s : Str) : Str := stripBy isWs s

def isDigit (c : Char) : Bool := '0' ≤ c && c ≤ '9'

def digitsVal (s : Str) : Nat := s.foldl (fun acc c => acc * 10 + (c.toNat - 48)) 0

/-- nonempty string of ASCII digits -/
def parseNat? (s : Str) : Option Nat :=
  if s ≠ [] && s.all isDigit then some (digitsVal s) else none

def splitSign (s : Str) : Bool × Str :=
  match s with
  | '-' :: r => (true, r)
  | '+' :: r => (false, r)
  | _ => (false, s)

/-- `int(s)` on the grammar `ws* [+-]? digit+ ws*` (no underscores). -/
def parseInt? (s : Str) : Option Int :=
  let (neg, r) := splitSign (stripWs s)
  match parseNat? r with
  | some n => some (if neg then -(n : Int) else n)
  | none => none

/-- `float(s)` on the grammar `ws* [+-]? (digit+ [. digit*] | . digit+) [(e|E) [+-]? digit+] ws*`;
returns the exact decimal value `(neg, a, b)`.  `inf`, `nan`, underscores are outside the model
(`none`); exponents beyond ±5000 are refused to keep the arithmetic bounded. -/
def parseDec? (s : Str) : Option (Bool × Nat × Nat) :=
  let (neg, r) := splitSign (stripWs s)
  let ip := r.takeWhile isDigit
  let r1 := r.dropWhile isDigit
  let (fp, r2) : Str × Str :=
    match r1 with
    | '.' :: t => (t.takeWhile isDigit, t.dropWhile isDigit)
    | _ => ([], r1)
  if ip == [] && fp == [] then none
  else
    let ex? : Option Int :=
      match r2 with
      | [] => some 0
      | c :: t =>
        if c == 'e' || c == 'E' then
          let (eneg, d) := splitSign t
          match parseNat? d with
          | some n => some (if eneg then -(n : Int) else n)
          | none => none
        else none
    match ex? with
    | none => none
    | some ex =>
      if ex > 5000 || ex < -5000 then none
      else
        let M := digitsVal (ip ++ fp)
        let sh : Int := ex - fp.length
        if sh ≥ 0 then some (neg, M * 10 ^ sh.toNat, 1) else some (neg, M, 10 ^ (-sh).toNat)

/-- `float(s)` as a bit pattern. -/
def parseFloat? (s : Str) : Option Nat :=
  match parseDec? s with
  | some (neg, a, b) => some (toBits neg a b)
  | none => none

/-- `a.replace(pat, rep)` (non-overlapping, left to right; `pat` non-empty). -/
def replace (pat rep : Str) (s : Str) : Str :=
  if pat.isEmpty then s else go s.length s
where
  go : Nat → Str → Str
    | 0, s => s
    | _, [] => []
    | fuel + 1, c :: t =>
      if pat.isPrefixOf (c :: t) then rep ++ go fuel ((c :: t).drop pat.length)
      else c :: go fuel t

def lower (s : Str) : Str :=
  s.map fun c => if 'A' ≤ c && c ≤ 'Z' then Char.ofNat (c.toNat + 32) else c

/-- `s.index(c)` -/
def indexOf? (c : Char) (s : Str) : Option Nat :=
  let i := (s.takeWhile (· != c)).length
  if i < s.length then some i else none

def intStr (n : Int) : Str := (if n < 0 then ['-'] else []) ++ natDigits n.natAbs

end PyYetiVerif.PyFloat
