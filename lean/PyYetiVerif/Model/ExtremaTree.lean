import PyYetiVerif.Model.Extrema
/-!
# Executable model of nested `DR_Results` structures (core Lean only)

Source modelled: `cla/dr_results.py`

* `DR_Results.delete_extreme`: `self.pop("extreme", None)`, then the same for every value that is a
  `DR_Results` (the loop returns at the first value that is not one: a base event);
* `DR_Results.form_extreme`: `delete_extreme()`, then `_add_extreme`: depth first, every dictionary
  whose values are dictionaries gets a new last entry `'extreme'` = `_calc_extreme(dct, …)`; a
  dictionary whose values are categories (`SimpleNamespace`) is "one level too deep" and is left
  alone; `_calc_extreme` runs over the keys in insertion order (`case_order` only re-orders / selects
  the keys of the top level), takes `dct[case]['extreme']` when it exists (`use_ext`), else `dct[case]`,
  and folds every category of it into `new_ext[drm]` with `extrema(…, maxcase, mincase, j)`, the
  labels coming from `_mk_case_lbls`;
* the generators `all_base_events`, `all_nonbase_events`, `all_categories`.

A `DR_Results` is an `OrderedDict` with unique keys; here it is the list of its items in insertion
order.  Python cannot tell an empty base event from an empty group; the canonical form of the empty
dictionary is `group []` (`mkBase`).  A category is ONE ROW of its extreme table (`Cur`): rows never
interact, the harness sends one tree per row.
-/
namespace PyYetiVerif.ExtremaTree
open PyYetiVerif.Extrema

/-- a `DR_Results`: a base event (its values are categories) or a group of events (its values are
`DR_Results`) -/
inductive Res (C : Type) where
  | base (cats : List (String × C))
  | group (kids : List (String × Res C))
deriving Repr

variable {C : Type}

/-- a dictionary of categories; the empty dictionary is `group []` -/
def mkBase (cats : List (String × C)) : Res C := if cats.isEmpty then .group [] else .base cats

/-! ### `delete_extreme` -/
mutual
/-- `delete_extreme()` -/
def del : Res C → Res C
  | .base cats => mkBase (cats.filter fun p => p.1 != "extreme")
  | .group kids => .group (delKids kids)
def delKids : List (String × Res C) → List (String × Res C)
  | [] => []
  | (k, v) :: rest => if k == "extreme" then delKids rest else (k, del v) :: delKids rest
end

/-! ### `form_extreme` -/

/-- `dct.get(key)` -/
def lookup (key : String) : List (String × Res C) → Option (Res C)
  | [] => none
  | (k, v) :: rest => if k == key then some v else lookup key rest

/-- what `_calc_extreme` reads for one `case`: the categories and `use_ext`.  `dct[case]['extreme']`
exists for every group once `_add_extreme` has returned from it, and never for a base event after
`delete_extreme` (a group WITHOUT `'extreme'` cannot reach this point; the code would raise on its
values, the model reads no categories). -/
def extOf : Res C → List (String × C) × Bool
  | .base cats => (cats, false)
  | .group kids =>
    match lookup "extreme" kids with
    | some (.base cats) => (cats, true)
    | _ => ([], true)

/-- `new_ext[drm] = step new_ext.get(drm) val`, keeping insertion order -/
def upsert (step : Option C → C) (drm : String) : List (String × C) → List (String × C)
  | [] => [(drm, step none)]
  | (k, v) :: rest => if k == drm then (k, step (some v)) :: rest else (k, v) :: upsert step drm rest

/-- the loop of `_calc_extreme` over what it reads per case: `(case, categories, use_ext)` in key
order; `comb case use_ext j cur val` is the category level step (`init_extreme_cat` when
`cur = none`, then `extrema(new_ext[drm], val, labels, j)`) -/
def calcCore (comb : String → Bool → Nat → Option C → C → C)
    (items : List (String × List (String × C) × Bool)) : List (String × C) :=
  items.zipIdx.foldl (fun acc p =>
    p.1.2.1.foldl (fun acc cv => upsert (fun cur => comb p.1.1 p.1.2.2 p.2 cur cv.2) cv.1 acc) acc) []

/-- `_calc_extreme(dct, …)` over the items `kids` -/
def calcExtreme (comb : String → Bool → Nat → Option C → C → C) (kids : List (String × Res C)) :
    List (String × C) :=
  calcCore comb (kids.map fun k => (k.1, extOf k.2))

mutual
/-- `_add_extreme(dct, …)` (the tree holds no `'extreme'` entries: `delete_extreme` ran first) -/
def add (comb : String → Bool → Nat → Option C → C → C) : Res C → Res C
  | .base cats => .base cats
  | .group kids =>
    let ks := addKids comb kids
    .group (ks ++ [("extreme", mkBase (calcExtreme comb ks))])
def addKids (comb : String → Bool → Nat → Option C → C → C) :
    List (String × Res C) → List (String × Res C)
  | [] => []
  | (k, v) :: rest => (k, add comb v) :: addKids comb rest
end

mutual
/-- the envelope of a structure, written recursively and without any tree surgery: a base event
stands for its own categories, a group for `extrema` over its members — a member group being
represented by ITS envelope (`use_ext = true`) -/
def envOf (comb : String → Bool → Nat → Option C → C → C) : Res C → List (String × C) × Bool
  | .base cats => (cats, false)
  | .group kids => (calcCore comb (envKids comb kids), true)
def envKids (comb : String → Bool → Nat → Option C → C → C) :
    List (String × Res C) → List (String × List (String × C) × Bool)
  | [] => []
  | (k, v) :: rest => (k, envOf comb v) :: envKids comb rest
end

/-- `form_extreme(ext_name, case_order=None, doappend)` -/
def form (comb : String → Bool → Nat → Option C → C → C) (t : Res C) : Res C := add comb (del t)

/-- the category level step for one row: labels from `_mk_case_lbls`, then two-column `extrema` -/
def combRow {α X : Type} [LT α] [DecidableLT α] (doappend : Nat) (case : String) (useExt : Bool)
    (_j : Nat) (cur : Option (Cur α X String)) (val : Cur α X String) : Cur α X String :=
  upd2 cur (⟨val.hi.v, val.hi.x, mkCaseLbl case val.hi.lab useExt doappend⟩,
            ⟨val.lo.v, val.lo.x, mkCaseLbl case val.lo.lab useExt doappend⟩)

/-! ### the generators -/
mutual
/-- `all_categories()`: `(name, cat, path)` -/
def allCats : Res C → List String → List (String × C × List String)
  | .base cats, path => cats.map fun p => (p.1, p.2, path ++ [p.1])
  | .group kids, path => allCatsKids kids path
def allCatsKids : List (String × Res C) → List String → List (String × C × List String)
  | [], _ => []
  | (k, v) :: rest, path => allCats v (path ++ [k]) ++ allCatsKids rest path
end

mutual
/-- `all_base_events(top)`: `(name, the base event's items, path)` -/
def allBases : Res C → String → List String → List (String × List (String × C) × List String)
  | .base cats, top, path => if cats.isEmpty then [] else [(top, cats, path)]
  | .group kids, _, path => allBasesKids kids path
def allBasesKids : List (String × Res C) → List String →
    List (String × List (String × C) × List String)
  | [], _ => []
  | (k, v) :: rest, path => allBases v k (path ++ [k]) ++ allBasesKids rest path
end

mutual
/-- `all_nonbase_events(top)`: `(name, keys, path)` -/
def allNonbases : Res C → String → List String → List (String × List String × List String)
  | .base _, _, _ => []
  | .group kids, top, path =>
    if kids.isEmpty then [] else (top, kids.map (·.1), path) :: allNonbasesKids kids path
def allNonbasesKids : List (String × Res C) → List String →
    List (String × List String × List String)
  | [], _ => []
  | (k, v) :: rest, path => allNonbases v k (path ++ [k]) ++ allNonbasesKids rest path
end

mutual
/-- no dictionary of the tree has an `'extreme'` key -/
def noExtreme : Res C → Bool
  | .base cats => cats.all fun p => p.1 != "extreme"
  | .group kids => noExtremeKids kids
def noExtremeKids : List (String × Res C) → Bool
  | [] => true
  | (k, v) :: rest => k != "extreme" && noExtreme v && noExtremeKids rest
end

mutual
/-- canonical form: no `base []` (the empty dictionary is `group []`) -/
def canonical : Res C → Bool
  | .base cats => !cats.isEmpty
  | .group kids => canonicalKids kids
def canonicalKids : List (String × Res C) → Bool
  | [] => true
  | (_, v) :: rest => canonical v && canonicalKids rest
end

end PyYetiVerif.ExtremaTree
