/-
Model of the last step of `pyyeti.psd.psdmod` (C19): `p = pmap.max(axis=1)` — for every frequency
line the maximum over the time slices of the Welch PSDs in the waterfall map (`dsp.waterfall` with
`scipy.signal.welch` produces `pmap`; those are library kernels and inputs of the model).
Core Lean only.
-/
namespace PyYetiVerif.PsdMod

variable {α : Type} [LT α] [DecidableLT α]

/-- `max` of a non-empty row, scanned left to right (`np.max` without NaN) -/
def rowMax : List α → Option α
  | [] => none
  | a :: r => some (r.foldl (fun m x => if m < x then x else m) a)

/-- `pmap.max(axis=1)`; `none` = a map without time slices (`max` of an empty axis raises) -/
def psdmodOf (pmap : List (List α)) : Option (List α) := pmap.mapM rowMax

end PyYetiVerif.PsdMod
