import PyYetiVerif.Model.ParSched
/-
C09 — the PARENT side of `srs.srs(parallel=…)` / `fdepsd.fdepsd(parallel=…)`:

1. the decision `srs._process_parallel` as an interpreter over a table (`Decision`) that the
   translator harness/translate/c09_parent.py regenerates from the source;
2. the description of a pool site (`PoolSite`: which worker, which task list, which shared arrays
   allocated how and with which symbolic shape, the argument tuple, the serial loop header, the
   copy-out, where the peak function is called) and the executable test `siteOk` on it;
3. the routine around the pool as an executable function: allocate, run the pool under a schedule,
   read the output cells, post-process (`parallelRoutine`), next to the serial routine
   (`serialRoutine`: the tasks in submission order from a memory whose `np.empty` arrays hold garbage);
4. the srs worker as a concrete task system (`srsSystem`: one atomic step per frequency writing the
   peaks and, with `getresp`, the histories).

Core Lean only.
-/
namespace PyYetiVerif.ParSched

/-! ### 1. the decision -/

inductive Cmp where
  | gt | ge | lt | le | eq | ne
deriving DecidableEq, Repr

def Cmp.holds : Cmp → Nat → Nat → Bool
  | .gt, a, b => decide (b < a)
  | .ge, a, b => decide (b ≤ a)
  | .lt, a, b => decide (a < b)
  | .le, a, b => decide (a ≤ b)
  | .eq, a, b => a == b
  | .ne, a, b => a != b

/-- one conjunct of a condition of `_process_parallel` -/
inductive Cond where
  | cmp (v : String) (op : Cmp) (n : Nat)      -- `v > 50000`
  | cmpv (v : String) (op : Cmp) (w : String)  -- `ncpu > maxcpu`
  | flag (v : String)                          -- `maxcpu`   (Python truthiness)
  | notflag (v : String)                       -- `not getresp`
  | notwin                                     -- `not os.sys.platform.startswith("win")`
deriving DecidableEq, Repr

inductive CapVal where
  | var (v : String)
  | lit (n : Nat)
  | muldiv (v : String) (a b : Nat)            -- `(v * a) // b`
deriving DecidableEq, Repr

/-- `_process_parallel` as a table -/
structure Decision where
  params : List String
  modes : List String                  -- accepted values of `parallel` (anything else raises)
  autoConds : List Cond                -- 'auto': all of these -> `autoThen`, else `autoElse`
  autoThen : String
  autoElse : String
  cap : List (List Cond × CapVal)      -- under `parallel == "yes"`: if / elif chain assigning `ncpu`
  serialNcpu : CapVal                  -- the `else: ncpu = …`
deriving DecidableEq, Repr

/-- run-time inputs of the decision: the arguments, `mp.cpu_count()` and the platform -/
structure DecIn where
  LF : Nat
  size : Nat
  maxcpu : Option Nat
  getresp : Bool
  cpu : Nat
  win : Bool
deriving Repr

/-- numeric value of a variable (`none`: unbound / `None`: Python raises when it is used) -/
def DecIn.num (i : DecIn) (ncpu : Option Nat) (v : String) : Option Nat :=
  if v = "LF" then some i.LF
  else if v = "size" then some i.size
  else if v = "ncpu" then ncpu
  else if v = "maxcpu" then i.maxcpu
  else none

/-- Python truthiness of a variable -/
def DecIn.truthy (i : DecIn) (ncpu : Option Nat) (v : String) : Option Bool :=
  if v = "getresp" then some i.getresp
  else if v = "maxcpu" then some (match i.maxcpu with | some m => m != 0 | none => false)
  else (i.num ncpu v).map (· != 0)

def Cond.eval (i : DecIn) (ncpu : Option Nat) : Cond → Option Bool
  | .cmp v op n => (i.num ncpu v).map (fun a => op.holds a n)
  | .cmpv v op w =>
      match i.num ncpu v, i.num ncpu w with
      | some a, some b => some (op.holds a b)
      | _, _ => none
  | .flag v => i.truthy ncpu v
  | .notflag v => (i.truthy ncpu v).map (!·)
  | .notwin => some (!i.win)

/-- `c1 and c2 and …` with Python's short circuit -/
def evalConj (i : DecIn) (ncpu : Option Nat) : List Cond → Option Bool
  | [] => some true
  | c :: cs =>
      match c.eval i ncpu with
      | none => none
      | some false => some false
      | some true => evalConj i ncpu cs

def CapVal.eval (i : DecIn) (ncpu : Option Nat) : CapVal → Option Nat
  | .var v => i.num ncpu v
  | .lit n => some n
  | .muldiv v a b => (i.num ncpu v).map (fun x => x * a / b)

/-- the if / elif chain; no branch taken: `ncpu` keeps its value -/
def capChain (i : DecIn) (ncpu : Option Nat) : List (List Cond × CapVal) → Option Nat
  | [] => ncpu
  | (g, v) :: rest =>
      match evalConj i ncpu g with
      | none => none
      | some true => v.eval i ncpu
      | some false => capChain i ncpu rest

/-- `_process_parallel(parallel, LF, size, maxcpu, getresp)`; `none` = the call raises -/
def processParallel (D : Decision) (mode : String) (i : DecIn) : Option (String × Nat) :=
  if !D.modes.contains mode then none
  else
    let ncpu : Option Nat := if mode = "no" then none else some i.cpu
    let mode' : Option String :=
      if mode = "auto" then
        (evalConj i ncpu D.autoConds).map (fun b => if b then D.autoThen else D.autoElse)
      else some mode
    match mode' with
    | none => none
    | some m =>
        if m = "yes" then (capChain i ncpu D.cap).map (fun n => (m, n))
        else (D.serialNcpu.eval i ncpu).map (fun n => (m, n))

/-- the table of the code as it stands (the regenerated one is proved equal to it by `decide`) -/
def stdDecision : Decision :=
  { params := ["parallel", "LF", "size", "maxcpu", "getresp"]
    modes := ["auto", "yes", "no"]
    autoConds := [.cmp "LF" .gt 1, .cmp "size" .gt 50000, .notflag "getresp", .cmp "ncpu" .gt 1, .notwin]
    autoThen := "yes"
    autoElse := "no"
    cap := [([.flag "maxcpu", .cmpv "ncpu" .gt "maxcpu"], .var "maxcpu"),
            ([.cmp "ncpu" .gt 4], .muldiv "ncpu" 4 5)]
    serialNcpu := .lit 1 }

/-- the override between the decision and the parallel / serial split:
`if parallel == whenMode and not isinstance(notStrOf, str): try: probe except handler: failVar = failMode` -/
structure PickleGuard where
  present : Bool
  whenMode : String
  notStrOf : String
  probe : String
  handler : String
  failVar : String
  failMode : String
deriving DecidableEq, Repr

/-- srs.srs as repaired (F53): a `peak` function is sent to the workers inside every task, so one
that cannot be pickled forces the serial path -/
def stdGuard : PickleGuard :=
  { present := true, whenMode := "yes", notStrOf := "peak", probe := "pickle.dumps(methfunc)",
    handler := "Exception", failVar := "parallel", failMode := "no" }

def noGuard : PickleGuard :=
  { present := false, whenMode := "", notStrOf := "", probe := "", handler := "", failVar := "", failMode := "" }

/-- what the caller passed as `peak` -/
inductive PeakArg where
  | name          -- one of the strings 'abs', 'pos', …
  | picklable     -- a function `pickle.dumps` accepts (a module-level function)
  | unpicklable   -- a function it refuses (a lambda, a nested function)
deriving DecidableEq, Repr

/-- the mode after the guard: the probe raises exactly for an unpicklable function, and the probe is
only reached in mode `whenMode` with a `peak` that is not a string -/
def guardedMode (G : PickleGuard) (m : String) (peak : PeakArg) : String :=
  if G.present && m == G.whenMode && peak == PeakArg.unpicklable then G.failMode else m

/-- decision of the routine: `_process_parallel`, then the guard (`ncpu` is left as it is) -/
def routineDecision (D : Decision) (G : PickleGuard) (mode : String) (i : DecIn) (peak : PeakArg) :
    Option (String × Nat) :=
  (processParallel D mode i).map (fun r => (guardedMode G r.1 peak, r.2))

/-- number of pool processes when the parallel path is taken -/
def poolSize (maxcpu : Option Nat) (cpu : Nat) : Nat :=
  match maxcpu with
  | some m => if m ≠ 0 ∧ m < cpu then m else if 4 < cpu then cpu * 4 / 5 else cpu
  | none => if 4 < cpu then cpu * 4 / 5 else cpu

/-! ### 2. pool sites -/

/-- a symbolic dimension of a shared array -/
inductive Dim where
  | tasks             -- the number of tasks (`LF`, the bound of `range(LF)`)
  | lit (n : Nat)     -- an integer literal
  | sym (s : String)  -- anything else (`H`, `N - M`, `nbins`)
deriving DecidableEq, Repr

def Dim.eval (LF : Nat) (env : String → Nat) : Dim → Nat
  | .tasks => LF
  | .lit n => n
  | .sym s => env s

structure SharedDecl where
  glob : String              -- worker-side global (`SRSmax_`)
  param : String             -- parameter of the pool initialiser it is bound from
  var : String               -- parent variable handed over in `initargs`
  kind : String              -- "copy" (input copied in) | "zeros" (output, zero filled)
  src : String               -- kind = copy: the parent array copied in
  init : String              -- kind = zeros: in-place initialisation before the pool ("" = none)
  dims : List (List Dim)     -- one symbolic shape per allocation statement (outputs)
  dimGuards : List String    -- the path condition of each allocation statement
  optional : Bool            -- may be `(None, None)` (HIST without getresp)
  serial : String            -- how the serial loop spells the same array (derived renaming)
  serialKind : String        -- "same" (the copied input itself) | "empty" | "zeros"
  serialInit : String
  serialDims : List (List Dim)
deriving DecidableEq, Repr

structure PoolSite where
  routine : String
  guard : String
  select : String            -- `func = A if <select> else B`
  workerHist : String
  workerNoHist : String
  method : String
  chunksize : String
  rangeBound : String        -- `zip(range(rangeBound), it.repeat(args, repeatCount))`
  repeatCount : String
  processes : String
  initializer : String
  gvars : List String
  params : List String       -- the worker's parameter list `(j, (params…)) = args`
  parArgs : List String      -- the tuple the parent hands over
  serArgs : List String      -- what the serial loop body sees under the same names
  serialDom : String × String  -- ("range", "LF") or ("enumerate", "Wn")
  lfOf : String              -- `LF = len(lfOf)`
  wnName : String
  wnOf : String              -- the circular-frequency vector is an elementwise function of `wnOf`
  shared : List SharedDecl
  decisionCall : List String
  methWorkerHist : Nat       -- calls of the peak function in the worker bodies …
  methWorkerNoHist : Nat
  methParBranch : Nat        -- … in the parallel branch of the parent
  methSerialBody : Nat       -- … in the serial loop body
  methTail : Nat             -- … in the common tail
  tailMentionsParallel : Bool
  eqsine : List (List String)  -- bodies of `if eqsine:` in the common tail
deriving DecidableEq, Repr

/-- element type / view facts of the shared-memory helpers -/
structure Helpers where
  createCtype : String
  copyCtype : String
  copyViewDtype : String
  copyStmt : String
  toNpViewDtype : String
  initViewDtypes : List String
deriving DecidableEq, Repr

def stdHelpers : Helpers :=
  { createCtype := "ctypes.c_double", copyCtype := "ctypes.c_double", copyViewDtype := "float",
    copyStmt := "a[:] = arr", toNpViewDtype := "float", initViewDtypes := ["float", "helper"] }

/-! #### coverage of a task's slab by its write patterns -/

/-- abstract index component: `some k` on a literal dimension, `none` = "any value" -/
abbrev AbsIx := Option Nat

/-- all abstract cells of a symbolic shape: literal dimensions are enumerated -/
def absCells : List Dim → List (List AbsIx)
  | [] => [[]]
  | .lit n :: ds => (List.range n).flatMap (fun k => (absCells ds).map (some k :: ·))
  | _ :: ds => (absCells ds).map (none :: ·)

/-- does the pattern certainly cover every cell abstracted by `ai` whose `p`-th index is the task
index?  (`pos` counts positions.)  Conservative: `.other` and `.whole` are not accepted, `.task` only
at position `p`, `.const k` only on a literal dimension with that value. -/
def patCoversAbs (p : Nat) : Nat → List Ix → List AbsIx → Bool
  | _, [], _ => true
  | _, _ :: _, [] => false
  | pos, .task :: ps, _ :: as => (pos == p) && patCoversAbs p (pos + 1) ps as
  | pos, .all :: ps, _ :: as => (pos != p) && patCoversAbs p (pos + 1) ps as
  | pos, .loop :: ps, _ :: as => (pos != p) && patCoversAbs p (pos + 1) ps as
  | pos, .const k :: ps, a :: as => (pos != p) && (a == some k) && patCoversAbs p (pos + 1) ps as
  | _, .whole :: _, _ => false
  | _, .other :: _, _ => false

/-- executable test: the write patterns of `fp` on array `arr` of symbolic shape `dims` (i) put the
task index on the dimension that has one entry per task and (ii) cover the whole slab of the task -/
def slabCovered (fp : Footprint) (arr : String) (dims : List Dim) : Bool :=
  match taskPos fp arr with
  | none => false
  | some p =>
      (dims[p]? == some Dim.tasks) &&
      (absCells dims).all (fun ai =>
        fp.writes.any (fun w => (w.arr == arr) && patCoversAbs p 0 w.idx ai))

def findFp (fps : List Footprint) (name : String) : Option Footprint :=
  fps.find? (fun fp => fp.name == name)

def accArrays (l : List Access) : List String := l.map (·.arr)

/-- the per-worker part of `siteOk` -/
def workerOk (s : PoolSite) (fp : Footprint) (hist : Bool) : Bool :=
  wellFormed fp && fp.serialSame &&
  -- every array the worker writes is a zero-filled shared output whose task slabs are covered, the
  -- serial path allocates the same shape with the same initialisation, and an array the serial path
  -- leaves uninitialised (`np.empty`) is never read by the worker
  (accArrays fp.writes).all (fun a =>
    match s.shared.find? (fun d => d.glob == a) with
    | none => false
    | some d =>
        d.kind == "zeros" && !d.dims.isEmpty && d.dims.all (fun ds => slabCovered fp a ds) &&
        d.serialDims == d.dims && d.serialInit == d.init &&
        (d.serialKind == "zeros" || (d.serialKind == "empty" && d.init == "" &&
          !(accArrays fp.reads).contains a)) &&
        (!d.optional || hist)) &&
  -- every array the worker only reads is an input copied in, spelled as the serial loop spells it
  (accArrays fp.reads).all (fun a =>
    (accArrays fp.writes).contains a ||
    match s.shared.find? (fun d => d.glob == a) with
    | none => false
    | some d => d.kind == "copy" && d.serialKind == "same" && d.serial == d.src && !d.optional) &&
  -- every shared output of the site is written by the worker (optional ones: by the history worker)
  s.shared.all (fun d => d.kind != "zeros" || (d.optional && !hist) ||
    (accArrays fp.writes).contains d.glob)

/-- executable test on a regenerated pool site (see the theorems in Props/C09Parent.lean) -/
def siteOk (s : PoolSite) (fps : List Footprint) : Bool :=
  -- the pool runs `func` exactly once per element of `zip(range(LF), repeat(args, LF))`
  ["imap_unordered", "imap", "map"].contains s.method &&
  (s.repeatCount == s.rangeBound || s.repeatCount == "inf") &&
  s.processes == "ncpu" &&
  s.decisionCall.take 2 == ["parallel", s.rangeBound] &&
  -- the serial routine is `for j in range(LF)` over the same index set …
  ((s.serialDom == ("range", s.rangeBound)) ||
    (s.serialDom == ("enumerate", s.wnName) && s.wnOf == s.lfOf)) &&
  s.wnOf == s.lfOf &&
  -- … with the same arguments in the same order
  s.params.length == s.parArgs.length && s.parArgs == s.serArgs &&
  -- initargs are the shared declarations, in order
  s.gvars == s.shared.map (·.var) &&
  (match findFp fps s.workerHist, findFp fps s.workerNoHist with
   | some fh, some fn => workerOk s fh true && workerOk s fn false
   | _, _ => false) &&
  -- the peak function is called once per task in the worker and in the serial body, never by the
  -- parent; the tail (eqsine scaling, packaging) is the same code on both paths
  s.methWorkerHist == s.methSerialBody && s.methWorkerNoHist == s.methSerialBody &&
  s.methSerialBody ≤ 1 && s.methParBranch == 0 && s.methTail == 0 && !s.tailMentionsParallel

/-! ### 3. the routine around the pool -/

/-- all index tuples of an array of the given shape, C order -/
def cellsOf : List Nat → List (List Nat)
  | [] => [[]]
  | n :: ns => (List.range n).flatMap (fun i => (cellsOf ns).map (i :: ·))

def inBounds : List Nat → List Nat → Bool
  | [], [] => true
  | n :: ns, i :: is => decide (i < n) && inBounds ns is
  | _, _ => false

/-- concrete shapes of the output arrays -/
abbrev Shapes := List (String × List Nat)

/-- the cells the parent reads back after the pool, in order -/
def outCells (sh : Shapes) : List Cell :=
  sh.flatMap (fun a => (cellsOf a.2).map (fun i => (a.1, i)))

/-- `zip(range(LF), it.repeat(args, LF))`: the task list handed to the pool -/
def taskList (LF : Nat) : List Nat := List.range LF

/-- the serial order: task 0 until it halts (at most `fuel` steps), then task 1, … -/
def serialSched (n fuel : Nat) : List Nat :=
  (taskList n).flatMap (fun j => List.replicate fuel j)

variable {L V O : Type}

/-- parallel path: the pool runs the tasks under schedule `σ` on the memory `m0` the parent
prepared (inputs copied in, outputs zero filled); afterwards the parent views the output arrays
and post-processes them (`post`: ravel, `/= Q`, data frames, G1 … G12) -/
def parallelRoutine (S : System L V) (sh : Shapes) (m0 : Mem V) (σ : List Nat) (post : List V → O) : O :=
  post ((outCells sh).map (S.run m0 σ).mem)

/-- serial path: `for j in range(LF): body(j)` on a memory `mS` that holds the same inputs but
whatever `np.empty` left in the outputs; the same post-processing -/
def serialRoutine (S : System L V) (sh : Shapes) (mS : Mem V) (fuel : Nat) (post : List V → O) : O :=
  post ((outCells sh).map (S.run mS (serialSched S.n fuel)).mem)

/-- cells written by task `j` during the first `k` steps of its solo run -/
def System.written (S : System L V) (m0 : Mem V) (j : Nat) : Nat → List Cell
  | 0 => []
  | k + 1 =>
      let p := S.solo m0 j k
      S.written m0 j k ++ (S.step j p.1 p.2).2.map (·.1)

/-! ### 4. the srs worker as a task system -/

/-- `_dosrs*`: one atomic step per frequency `j`.  `R j m t h` is the response history
(`resphist[S:]`, a function of the read-only inputs), `P` the peak function (`methfunc`), applied
column by column.  The step stores the peaks in `SRSmax_[j, h]` and, with `hist`, the history in
`HIST_[t, h, j]`. -/
def srsSystem (LF T H : Nat) (hist : Bool) (R : Nat → Mem V → Nat → Nat → V)
    (P : (Nat → V) → V) : System Bool V :=
  { n := LF
    init := fun _ => false
    step := fun j l m =>
      if l then (l, [])
      else (true,
        (List.range H).map (fun h => ((("SRSmax_", [j, h]) : Cell), P (fun t => R j m t h))) ++
        (if hist then
          (List.range T).flatMap (fun t =>
            (List.range H).map (fun h => ((("HIST_", [t, h, j]) : Cell), R j m t h)))
         else []))
    halted := fun _ l => l }

/-- the common tail of `srs.srs`: `if eqsine: SRSmax /= Q; resp["hist"] /= Q` -/
def eqsineTail (eqsine : Bool) (scale : V → V) (vals : List V) : List V :=
  if eqsine then vals.map scale else vals

end PyYetiVerif.ParSched
