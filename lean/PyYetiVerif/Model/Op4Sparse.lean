import PyYetiVerif.Model.Op4
/-!
Second part of the model of pyyeti/nastran/op4.py for C04 (core Lean only):

1. the writer's **scipy.sparse input path**: `_ensure_2d_dp` hands `(m, i, j, v) = (m,) + sp.find(m)` to the
   writers, whose `else:  # sparse matrix` branches go through `_sparse_sort` and per column either scatter the
   values into `vec = zeros(e - s + 1)` (dense layout) or cut `coldata` along `_sparse_col_stats(rs[pv])`
   (`coldata[j : j + r1]; j += r1`, the two sparse layouts);
2. the **true domain of `struct.pack('i', …)`**: every integer of a header / column record must fit a signed
   32-bit integer, otherwise `struct.error` — on the ndarray path and (since the repair of finding F49: `s`, `e`
   are converted to Python integers) on the scipy.sparse path alike;
3. what the reader's `sparse=True` result *is* as a matrix: `coo_matrix((V, (I, J))).toarray()` (`cooToDense`).

Library code is modelled by what it computes, not how:
* `sp.find(m)` = `coo(m).sum_duplicates()` then `data != 0`: for every position the stored values are added in
  storage order (`np.add.reduceat` over a stable lexsort: first value plus the left-to-right sum of the others;
  exact for at most 8 values at one position, pairwise in blocks beyond), and positions whose sum is `±0.0` (both parts for complex) are dropped (`foundAt`);
* `_sparse_sort` (`np.lexsort((r, c))`) followed by `(cs == c).nonzero()` = the found entries of column `c`
  in ascending row order (`colEntries`); `sorted(set(cs))` = the columns that have one (`colsWithData`).
Floating-point addition of duplicates is a parameter `add` of the model (IEEE addition in the driver).
-/
namespace PyYetiVerif.Op4
open PyYetiVerif.Generated.Op4Consts

/-! ## 1. column records written from strings (shared by both input paths) -/

/-- dense column record: first row `s`, the segment `seg` (first to last non-zero row) -/
def encColDenseS (e : Endian) (cplx : Bool) (c s : Nat) (seg : List Entry) : List Nat :=
  let elems := seg.length * mult cplx
  let reclen := 3 * 4 + elems * 8
  [reclen, c + 1, s + 1, 2 * elems] ++ valWords e cplx seg ++ [reclen]

def encColBigS (e : Endian) (cplx : Bool) (c : Nat) (ss : List (Nat × List Entry)) : List Nat :=
  match ss with
  | [] => []
  | ss =>
    let nwords := nwordsBig cplx ss
    let reclen := (3 + nwords) * 4
    [reclen, c + 1, 0, nwords] ++ ss.flatMap (bigStringWords e cplx) ++ [reclen]

def encColNonbigS (e : Endian) (cplx : Bool) (c : Nat) (ss : List (Nat × List Entry)) : List Nat :=
  match ss with
  | [] => []
  | ss =>
    let nwords := nwordsNonbig cplx ss
    let reclen := (3 + nwords) * 4
    [reclen, c + 1, 0, nwords] ++ ss.flatMap (nonbigStringWords e cplx) ++ [reclen]

def ascColDenseS (d : Nat) (cplx : Bool) (c s : Nat) (seg : List Entry) : List Char :=
  let ds := segDs cplx seg
  fmtInt 8 (c + 1) ++ fmtInt 8 (s + 1) ++ fmtInt 8 ds.length ++ ['\n'] ++ valueLines d ds.length ds

def ascColBigS (d : Nat) (cplx : Bool) (c : Nat) (ss : List (Nat × List Entry)) : List Char :=
  match ss with
  | [] => []
  | ss =>
    fmtInt 8 (c + 1) ++ fmtInt 8 0 ++ fmtInt 8 (nwordsBig cplx ss) ++ ['\n'] ++
      ss.flatMap fun s =>
        let ds := segDs cplx s.2
        fmtInt 8 (s.2.length * 2 * mult cplx + 1) ++ fmtInt 8 (s.1 + 1) ++ ['\n'] ++ valueLines d ds.length ds

def ascColNonbigS (d : Nat) (cplx : Bool) (c : Nat) (ss : List (Nat × List Entry)) : List Char :=
  match ss with
  | [] => []
  | ss =>
    fmtInt 8 (c + 1) ++ fmtInt 8 0 ++ fmtInt 8 (nwordsNonbig cplx ss) ++ ['\n'] ++
      ss.flatMap fun s =>
        let ds := segDs cplx s.2
        fmtInt 11 (packIS (s.1 + 1) (s.2.length * 2 * mult cplx)) ++ ['\n'] ++ valueLines d ds.length ds

/-! ## 2. a scipy.sparse input -/

/-- one stored element `(row, column, value)` -/
abbrev Trip := Nat × Nat × Entry

/-- a scipy.sparse matrix as `tocoo()` presents it: shape, dtype kind and the stored elements in storage
order (duplicates, explicit zeros and any order allowed) -/
structure SpIn where
  rows : Nat
  ncols : Nat
  cplx : Bool
  trip : List Trip
deriving Repr, DecidableEq

/-- element-wise addition of (real, imaginary) bit patterns -/
def addE (add : Nat → Nat → Nat) (a b : Entry) : Entry := (add a.1 b.1, add a.2 b.2)

/-- the values stored at `(r, c)`, in storage order -/
def valsAt (t : List Trip) (r c : Nat) : List Entry :=
  (t.filter fun x => x.1 == r && x.2.1 == c).map fun x => x.2.2

/-- `np.add.reduceat` over one group of duplicates `v₀ v₁ … vₖ`: numpy's reduction loop computes
`v₀ + (v₁ + v₂ + … + vₖ)`, the inner sum from left to right (for `k < 8`; pairwise in blocks beyond) -/
def sumVals (add : Nat → Nat → Nat) : List Entry → Option Entry
  | [] => none
  | [v] => some v
  | v :: w :: ws => some (addE add v (ws.foldl (addE add) w))

/-- `sp.find(m)` at one position: the sum of the stored values, unless there is none or it is zero -/
def foundAt (add : Nat → Nat → Nat) (A : SpIn) (r c : Nat) : Option Entry :=
  match sumVals add (valsAt A.trip r c) with
  | some v => if v.isZero A.cplx then none else some (if A.cplx then v else (v.1, 0))
  | none => none

/-- `rs[pv], vs[pv]` for `pv = (cs == c).nonzero()` after `_sparse_sort`: the found entries of column `c`,
rows ascending -/
def colEntries (add : Nat → Nat → Nat) (A : SpIn) (c : Nat) : List (Nat × Entry) :=
  (List.range A.rows).filterMap fun r => (foundAt add A r c).map fun v => (r, v)

/-- `cols_with_data = sorted(set(cs))` -/
def colsWithData (add : Nat → Nat → Nat) (A : SpIn) : List Nat :=
  (List.range A.ncols).filter fun c => !(colEntries add A c).isEmpty

/-- `coldata[j : j + r1]; j += r1` over the rows of `ind` -/
def sliceRuns : List (Nat × Nat) → List Entry → List (Nat × List Entry)
  | [], _ => []
  | (r0, r1) :: t, vs => (r0, vs.take r1) :: sliceRuns t (vs.drop r1)

/-- the strings of a column of a sparse input: `ind = _sparse_col_stats(rs[pv])`, `coldata = vs[pv]` -/
def spStrings (ce : List (Nat × Entry)) : List (Nat × List Entry) :=
  sliceRuns (colStats (ce.map (·.1))) (ce.map (·.2))

/-- `vec = np.zeros(e - s + 1, dt); vec[rs[pv] - s] = vs[pv]` -/
def spVec (s n : Nat) (ce : List (Nat × Entry)) : List Entry :=
  ce.foldl (fun vec p => vec.set (p.1 - s) p.2) (List.replicate n ((0, 0) : Entry))

/-- dense column record of a sparse input (`_write_binary`, `else` branch): `s = int(rs[pv[0]])`,
`e = int(rs[pv[-1]])`, the segment `vec`, then the same record as for an ndarray -/
def encColDenseSp (e : Endian) (cplx : Bool) (c : Nat) (ce : List (Nat × Entry)) : List Nat :=
  match ce with
  | [] => []
  | p :: t =>
    let s := p.1
    let last := ((p :: t).getLast (by simp)).1
    encColDenseS e cplx c s (spVec s (last - s + 1) (p :: t))

def ascColDenseSp (d : Nat) (cplx : Bool) (c : Nat) (ce : List (Nat × Entry)) : List Char :=
  match ce with
  | [] => []
  | p :: t =>
    let s := p.1
    let last := ((p :: t).getLast (by simp)).1
    ascColDenseS d cplx c s (spVec s (last - s + 1) (p :: t))

/-- the 24-byte header record from its fields -/
def headerWordsG (e : Endian) (name : List Nat) (form : Nat) (cplx : Bool) (rows ncols : Nat) (bigmat : Bool) :
    List Nat :=
  [hdrReclen, ncols, i32 (if bigmat then -(rows : Int) else rows), form, mtypeOf cplx]
    ++ wordsOfBytes e (nameField name) ++ [hdrReclen]

/-- the column records of a sparse input: `for c in cols_with_data` -/
def encColSp (add : Nat → Nat → Nat) (e : Endian) (lay : Layout) (A : SpIn) (c : Nat) : List Nat :=
  match lay with
  | .dense => encColDenseSp e A.cplx c (colEntries add A c)
  | .bigmat => encColBigS e A.cplx c (spStrings (colEntries add A c))
  | .nonbigmat => encColNonbigS e A.cplx c (spStrings (colEntries add A c))

def encColsSp (add : Nat → Nat → Nat) (e : Endian) (lay : Layout) (A : SpIn) : List Nat :=
  (colsWithData add A).flatMap (encColSp add e lay A)

/-- every packed string header of the column fits a signed 32-bit integer -/
def stringsFitS (cplx : Bool) (ss : List (Nat × List Entry)) : Bool :=
  ss.all fun s => fitsI32 (packIS (s.1 + 1) (s.2.length * 2 * mult cplx))

/-- one sparse-input matrix as words (`name`, `form` already resolved); `none` = `struct.error` -/
def encMatWordsSp (add : Nat → Nat → Nat) (e : Endian) (lay : Layout) (name : List Nat) (form : Nat) (A : SpIn) :
    Option (List Nat) :=
  let body := encColsSp add e lay A ++ trailerWords e A.ncols
  match lay with
  | .dense => some (headerWordsG e name form A.cplx A.rows A.ncols false ++ body)
  | .bigmat => some (headerWordsG e name form A.cplx A.rows A.ncols true ++ body)
  | .nonbigmat =>
    if (colsWithData add A).all (fun c => stringsFitS A.cplx (spStrings (colEntries add A c))) then
      some (headerWordsG e name form A.cplx A.rows A.ncols false ++ body)
    else none

/-- the title line from its fields -/
def asciiHeaderG (d : Nat) (name : List Nat) (form : Nat) (cplx : Bool) (rows ncols : Nat) (bigmat : Bool) :
    List Char :=
  let w := if rows > 9999999 then 16 else 8
  fmtInt w ncols ++ fmtInt w (if bigmat then -(rows : Int) else rows) ++ fmtInt 8 form
    ++ fmtInt 8 (mtypeOf cplx)
    ++ ((name.map upperB).map Char.ofNat ++ List.replicate (8 - name.length) ' ')
    ++ "1P,".toList ++ (toString (perline d)).toList ++ ['E'] ++ (toString (numlen d)).toList ++ ['.']
    ++ (toString d).toList ++ (if w = 16 then "|I16".toList else []) ++ ['\n']

def ascColSp (add : Nat → Nat → Nat) (d : Nat) (lay : Layout) (A : SpIn) (c : Nat) : List Char :=
  match lay with
  | .dense => ascColDenseSp d A.cplx c (colEntries add A c)
  | .bigmat => ascColBigS d A.cplx c (spStrings (colEntries add A c))
  | .nonbigmat => ascColNonbigS d A.cplx c (spStrings (colEntries add A c))

def ascColsSp (add : Nat → Nat → Nat) (d : Nat) (lay : Layout) (A : SpIn) : List Char :=
  (colsWithData add A).flatMap (ascColSp add d lay A)

def encMatAsciiSp (add : Nat → Nat → Nat) (d : Nat) (lay : Layout) (name : List Nat) (form : Nat) (A : SpIn) :
    List Char :=
  asciiHeaderG d name form A.cplx A.rows A.ncols (lay == .bigmat) ++ ascColsSp add d lay A
    ++ asciiTrailer d A.ncols

/-- the ndarray a sparse input stands for: the found value where there is one, `+0.0` elsewhere -/
def denseCol (add : Nat → Nat → Nat) (A : SpIn) (c : Nat) : List Entry :=
  (List.range A.rows).map fun r => (foundAt add A r c).getD (0, 0)

def denseMat (add : Nat → Nat → Nat) (name : List Nat) (form : Nat) (A : SpIn) : Mat :=
  { name := name, form := form, cplx := A.cplx, rows := A.rows,
    cols := (List.range A.ncols).map (denseCol add A) }

/-! ## 3. the domain of `struct.pack('i', …)` for an ndarray input -/

/-- the record length of the column's record (0 when the column writes none) -/
def recLen (lay : Layout) (cplx : Bool) (col : List Entry) : Nat :=
  match lay with
  | .dense =>
    match nzIdx cplx col with
    | [] => 0
    | s :: rest => 3 * 4 + (((s :: rest).getLast (by simp)) - s + 1) * mult cplx * 8
  | .bigmat => match strings cplx col with
    | [] => 0
    | ss => (3 + nwordsBig cplx ss) * 4
  | .nonbigmat => match strings cplx col with
    | [] => 0
    | ss => (3 + nwordsNonbig cplx ss) * 4

inductive WriteErr
  | valueError    -- `_get_header_info`: a dimension above `2^31 - 1`
  | structError   -- `struct.pack('i', n)` with `n ≥ 2^31`
deriving Repr, DecidableEq

/-- `_write_binary*` of one ndarray matrix with every `struct.pack` checked: the header's dimension test, then
`form`, the column record lengths, the trailer's `cols + 1` -/
def writeMatWords (e : Endian) (lay : Layout) (m : Mat) : Except WriteErr (List Nat) :=
  if m.rows > 2147483647 ∨ m.cols.length > 2147483647 then .error .valueError
  else if m.form < 2147483648 ∧ m.cols.length + 1 < 2147483648 ∧
      m.cols.all (fun col => decide (recLen lay m.cplx col < 2147483648)) = true then
    match encMatWords e lay m with
    | some ws => .ok ws
    | none => .error .structError
  else .error .structError

def writeFileWords (e : Endian) : List (Layout × Mat) → Except WriteErr (List Nat)
  | [] => .ok []
  | (l, m) :: t => do
    let a ← writeMatWords e l m
    let b ← writeFileWords e t
    pure (a ++ b)

/-! ## 4. the `sparse=True` result as a matrix -/

/-- `-0.0 ↦ +0.0`: what `0.0 + x` does to a zero -/
def pzD (b : Nat) : Nat := if b = negZero then 0 else b
def pz (x : Entry) : Entry := (pzD x.1, pzD x.2)

/-- `scipy.sparse.coo_matrix((V, (I, J)), shape).toarray()`: `B[i, j] += v` in storage order, from zeros -/
def cooToDense (add : Entry → Entry → Entry) (rows cols : Nat) (ts : List (Nat × Nat × Entry)) :
    List (List Entry) :=
  ts.foldl (fun X t => X.modify t.2.1 fun col => col.modify t.1 fun y => add y t.2.2)
    (List.replicate cols (List.replicate rows ((0, 0) : Entry)))

end PyYetiVerif.Op4
