/-
Model of the per-mode integration coefficients and recurrences of pyyeti's exact time-domain
solvers (C01).  Core Lean only (no Mathlib) so that it runs under `lake env lean --run`.

Sources transcribed (pyyeti/ode):
  _utilities.py   get_su_coef            -> `rigidCoef … rfCoef`, `suCoef`, `classify`
  solveunc.py     _solve_real_unc_inner_loop -> `stepUnc`, `runUnc`
                  _get_complex_su_coefs  -> `cplxCoef`, `cplxSmall`
                  _solve_complex_unc     -> `stepCplx` (elastic recurrence), `rbStep` (rigid part)
  _base_ode_class.py _calc_acce_kdof     -> `calcAcce`
                     _init_dv (uncoupled)  -> `useStatic`, `initD`, `initV`
                     _init_dva (rf rows)   -> `rfRow`

Every formula is ONE polymorphic definition over operation classes.  It is instantiated at `ℝ`/`ℂ`
(Mathlib) in `Lemmas/SuCoef.lean`, `Props/C01.lean` for the theorems and at `Float` / `CF`
(pairs of `Float`) in `Drivers/C01.lean` for the correspondence check.  The expression order
follows the source so that the `Float` instance differs from numpy only by library `exp/sin/cos`
ulps.

`m = None` in the source is `m = 1` here: `k / 1`, `(b / 1) / 2`, `x * 1` and `1 / (beta * 1)` are
exact in IEEE arithmetic, so both source branches compute the same doubles (`suCoefOpt` keeps the
two branches side by side; `Props/C01.mNone_eq_mOne` proves them equal over a field).
-/
namespace PyYetiVerif.SuCoef

/-- the transcendental (and `abs`) operations used by the coefficient formulas -/
class TransOps (α : Type) where
  exp  : α → α
  cos  : α → α
  sin  : α → α
  sqrt : α → α
  abs  : α → α

/-- the eight coefficients of `d' = F d + G v + A P0 + B P1`, `v' = Fp d + Gp v + Ap P0 + Bp P1` -/
structure Coefs (α : Type) where
  F  : α
  G  : α
  A  : α
  B  : α
  Fp : α
  Gp : α
  Ap : α
  Bp : α

/-- which formula set of `get_su_coef` a mode gets -/
inductive Regime
  | rigid      -- pvrb, not damped
  | rigidVelo  -- pvrb_damped but not in pvdisp: only Gp, Ap, Bp use the damped formulas
  | rigidFull  -- pvrb_damped and in pvdisp
  | under
  | crit
  | over
  | rf         -- residual flexibility (static)
  deriving DecidableEq, Repr, Inhabited

section coef
variable {α : Type} [Add α] [Sub α] [Mul α] [Div α] [Neg α]
  [OfNat α 0] [OfNat α 1] [OfNat α 2] [OfNat α 3] [TransOps α]
open TransOps

/-- rigid-body mode (`k` and `b` ignored):
`F = 1, G = h, A = (h*h/3)/m, B = A/2, Fp = 0, Gp = 1, Ap = (h/2)/m, Bp = Ap` -/
def rigidCoef (m h : α) : Coefs α :=
  let A := (h * h / 3) / m
  let Ap := (h / 2) / m
  { F := 1, G := h, A := A, B := A / 2, Fp := 0, Gp := 1, Ap := Ap, Bp := Ap }

/-- damped rigid-body mode, all formulas (`pvdisp`); `C = (b/m)/2`, `beta = C*2` -/
def rigidFullCoef (m C h : α) : Coefs α :=
  let beta := C * 2
  let ibm := 1 / (beta * m)
  let ibh := 1 / (beta * h)
  let ibbh := 1 / (beta * beta * h)
  let ex := exp (-beta * h)
  { F := 1
    G := (1 - ex) / beta
    A := ibm * ((1 / beta + ibbh) * ex + h / 2 - ibbh)
    B := ibm * (h / 2 - 1 / beta + (1 - ex) * ibbh)
    Fp := 0
    Gp := ex
    Ap := ibm * (ibh - (1 + ibh) * ex)
    Bp := ibm * (1 + ibh * (ex - 1)) }

/-- damped rigid-body mode below the displacement cut-off: `G, A, B` keep the undamped values -/
def rigidVeloCoef (m C h : α) : Coefs α :=
  let r := rigidCoef m h
  let d := rigidFullCoef m C h
  { r with Gp := d.Gp, Ap := d.Ap, Bp := d.Bp }

/-- under-damped mode; `w2 = |wo2 - C^2|`, `beta = C` -/
def underCoef (k wo2 w2 beta h : α) : Coefs α :=
  let w := sqrt w2
  let cs := cos (w * h)
  let sn := sin (w * h)
  let ex := exp (-beta * h)
  let t0 := 1 / (h * k * w)
  let t1 := (w2 - beta * beta) / wo2
  let t2 := (2 * w * beta) / wo2
  { F := ex * (cs + (beta / w) * sn)
    G := (ex * sn) / w
    A := t0 * (ex * ((t1 - h * beta) * sn - (t2 + h * w) * cs) + t2)
    B := t0 * (ex * (-t1 * sn + t2 * cs) + w * h - t2)
    Fp := -(wo2 / w) * ex * sn
    Gp := ex * (cs - (beta / w) * sn)
    Ap := t0 * (ex * ((beta + h * wo2) * sn + w * cs) - w)
    Bp := t0 * (-ex * (beta * sn + w * cs) + w) }

/-- critically damped mode -/
def critCoef (k beta h : α) : Coefs α :=
  let ex := exp (-beta * h)
  let hbeta := h * beta
  let t0 := 1 / (h * k)
  { F := ex * (1 + hbeta)
    G := h * ex
    A := t0 * (2 / beta - (1 / beta) * ex * (2 + 2 * hbeta + (hbeta * hbeta)))
    B := (t0 / beta) * (hbeta - 2 + ex * (2 + hbeta))
    Fp := -(beta * beta) * (h * ex)
    Gp := ex * (1 - hbeta)
    Ap := t0 * (ex * (1 + hbeta + (hbeta * hbeta)) - 1)
    Bp := t0 * (1 - ex * (hbeta + 1)) }

/-- over-damped mode, with the `e^{-h(beta∓w)}` rearrangement of cosh/sinh -/
def overCoef (k wo2 w2 beta h : α) : Coefs α :=
  let w := sqrt w2
  let ecosh := (exp (-h * (beta - w)) + exp (-h * (beta + w))) / 2
  let esinh := (exp (-h * (beta - w)) - exp (-h * (beta + w))) / 2
  let t0 := 1 / (h * k * w)
  let t1 := (w2 + beta * beta) / wo2
  let t2 := (2 * w * beta) / wo2
  { F := ecosh + beta / w * esinh
    G := esinh / w
    A := t0 * (-(t1 + h * beta) * esinh - (t2 + h * w) * ecosh + t2)
    B := t0 * (t1 * esinh + t2 * ecosh + w * h - t2)
    Fp := -(wo2 / w) * esinh
    Gp := ecosh - beta / w * esinh
    Ap := t0 * ((beta + h * wo2) * esinh + w * ecosh - w)
    Bp := t0 * (-beta * esinh - w * ecosh + w) }

/-- residual-flexibility mode: `k q = force` -/
def rfCoef (k : α) : Coefs α :=
  { F := 0, G := 0, A := 0, B := 1 / k, Fp := 0, Gp := 0, Ap := 0, Bp := 0 }

/-- `get_su_coef` for one mode whose regime is `r` (mass given) -/
def suCoef (r : Regime) (m b k h : α) : Coefs α :=
  let wo2 := k / m
  let C := (b / m) / 2
  let w2 := abs (wo2 - C * C)
  match r with
  | .rigid     => rigidCoef m h
  | .rigidVelo => rigidVeloCoef m C h
  | .rigidFull => rigidFullCoef m C h
  | .under     => underCoef k wo2 w2 C h
  | .crit      => critCoef k C h
  | .over      => overCoef k wo2 w2 C h
  | .rf        => rfCoef k

/-- both source branches (`m is None` / mass vector) side by side -/
def suCoefOpt (r : Regime) (m : Option α) (b k h : α) : Coefs α :=
  match m with
  | some m => suCoef r m b k h
  | none =>
    let wo2 := k
    let C := b / 2
    let w2 := abs (wo2 - C * C)
    match r with
    | .rigid =>
        let A := (h * h / 3)
        let Ap := (h / 2)
        { F := 1, G := h, A := A, B := A / 2, Fp := 0, Gp := 1, Ap := Ap, Bp := Ap }
    | .rigidVelo => rigidVeloCoef 1 C h
    | .rigidFull => rigidFullCoef 1 C h
    | .under     => underCoef k wo2 w2 C h
    | .crit      => critCoef k C h
    | .over      => overCoef k wo2 w2 C h
    | .rf        => rfCoef k

/-- one step of `_solve_real_unc_inner_loop`, order 1 -/
def stepUnc1 (c : Coefs α) (dv : α × α) (f0 f1 : α) : α × α :=
  (c.F * dv.1 + c.G * dv.2 + (c.A * f0 + c.B * f1),
   c.Fp * dv.1 + c.Gp * dv.2 + (c.Ap * f0 + c.Bp * f1))

/-- one step, order 0 (`AB = A + B`, force held at the left sample) -/
def stepUnc0 (c : Coefs α) (dv : α × α) (f0 : α) : α × α :=
  (c.F * dv.1 + c.G * dv.2 + (c.A + c.B) * f0,
   c.Fp * dv.1 + c.Gp * dv.2 + (c.Ap + c.Bp) * f0)

def stepUnc (order1 : Bool) (c : Coefs α) (dv : α × α) (f0 f1 : α) : α × α :=
  if order1 then stepUnc1 c dv f0 f1 else stepUnc0 c dv f0

/-- the whole loop for one mode: samples `(d_j, v_j)`, one per force sample -/
def runUnc (order1 : Bool) (c : Coefs α) (dv : α × α) : List α → List (α × α)
  | [] => []
  | [_] => [dv]
  | f0 :: f1 :: fs => dv :: runUnc order1 c (stepUnc order1 c dv f0 f1) (f1 :: fs)

/-- `_calc_acce_kdof`, uncoupled: `a = invm * (F - b v - k d)` with `invm = 1/m` -/
def calcAcce (m b k : α) (d v f : α) : α := (1 / m) * (f - b * v - k * d)

/-- `_calc_acce_kdof` with `m is None` -/
def calcAcceNone (b k : α) (d v f : α) : α := f - b * v - k * d

/-! ### initial conditions (`_init_dv`, uncoupled) and residual-flexibility rows (`_init_dva`) -/

/-- the guard of the static branch of `_init_dv`:
`d0 is None and static_ic and self.elsize and F0[self.el].any()`; `f0el = F0[self.el]` -/
def useStatic [BEq α] (static d0Given : Bool) (f0el : List α) : Bool :=
  !d0Given && static && f0el.any fun x => !(x == 0)

/-- one non-rf row of `d[:, 0]` after `_init_dv`: the user's `d0` if given; else, in the static
branch, `F0 / k` on elastic rows (`d[self.el, 0] = F0[self.el] / self.k[self._el]`) and `0` on
rigid-body rows; else `0` -/
def initD (d0 : Option α) (static isEl : Bool) (k f0 : α) : α :=
  match d0 with
  | some d => d
  | none => if static && isEl then f0 / k else 0

/-- one non-rf row of `v[:, 0]`: the user's `v0` if given, else `0` -/
def initV (v0 : Option α) : α :=
  match v0 with
  | some v => v
  | none => 0

/-- residual-flexibility rows, every sample: `d[rf] = ikrf * force[rf]` with `ikrf = 1.0 / krf`
(`v[rf] = a[rf] = 0` are never written) -/
def rfRow (k f : α) : α := (1 / k) * f

/-! ### complex-eigenvalue path (`_get_complex_su_coefs`, `_solve_complex_unc`) -/

/-- `Fe, Ae, Be` for `|lam| >= 5e-5` -/
def cplxCoef (lam h : α) : α × α × α :=
  let Fe := exp (lam * h)
  let ilam := 1 / lam
  let ilamh := (ilam * ilam) / h
  (Fe, ilamh + Fe * (ilam - ilamh), Fe * ilamh - ilam - ilamh)

/-- `Fe, Ae, Be` for `|lam| < 5e-5` -/
def cplxSmall (h : α) : α × α × α := (1, h / 2, h / 2)

/-- elastic recurrence `y' = Fe y + Ae w0 + Be w1` (order 1) / `Fe y + (Ae+Be) w0` (order 0) -/
def stepCplx (order1 : Bool) (c : α × α × α) (y w0 w1 : α) : α :=
  if order1 then c.1 * y + (c.2.1 * w0 + c.2.2 * w1) else c.1 * y + (c.2.1 + c.2.2) * w0

/-- rigid-body recurrence of the coupled path: `G = h, A = h*h/3, Ap = h/2`;
order 1: `d' = d + G v + A (f0 + f1/2)`, `v' = v + Ap (f0 + f1)`;
order 0: `d' = d + G v + (1.5 A) f0`, `v' = v + (2 Ap) f0` (forces already divided by mass) -/
def rbStep (order1 : Bool) (h : α) (dv : α × α) (f0 f1 : α) : α × α :=
  let G := h
  let A := h * h / 3
  let Ap := h / 2
  if order1 then (dv.1 + G * dv.2 + A * (f0 + f1 / 2), dv.2 + Ap * (f0 + f1))
  else (dv.1 + G * dv.2 + ((3 / 2) * A) * f0, dv.2 + (2 * Ap) * f0)

/-- the loop over the rigid-body rows of `_solve_complex_unc`
(`di = drb[:, i+1] = di + G*vi + AF[:, i]`, `vi = vrb[:, i+1] = vi + AFp[:, i]`), one mode -/
def rbRun (order1 : Bool) (h : α) (dv : α × α) : List α → List (α × α)
  | [] => []
  | [_] => [dv]
  | f0 :: f1 :: fs => dv :: rbRun order1 h (rbStep order1 h dv f0 f1) (f1 :: fs)

end coef

/-! ### classification (`pvrb`, `pvrb_damped`, `pvdisp`, `pvundr/pvcrit/pvover`, the
"Partitioning problem" error).  The cut-off values are parameters so that the same function is
used with the `Float` cut-offs of the source (`Model/SuCoefCuts.lean`: `cutsGenF`, built from the
literals that `harness/translate/c01_sucoefcuts.py` extracts from the source into
`Generated/SuCoefCuts.lean`) and in statements (`Props/C01Cuts.lean`).  The three tests of the
elastic regimes carry their own literal each, as in the source. -/

structure Cuts (α : Type) where
  rbTol    : α  -- 0.005            : `wo2 < rbTol` (auto-detection inside get_su_coef)
  underTol : α  -- 1.0e-8           : `rat >= underTol`
  critTol  : α  -- 1.0e-8           : `abs(rat) < critTol`
  overTol  : α  -- 1e-8             : `rat <= -overTol`
  veloCut : α   -- 1e-5/sqrt(h)     : `|C| > veloCut`
  dispCut : α   -- 10*(1e-10/h)^(1/3): `|C| > dispCut`

section classify
variable {α : Type} [Sub α] [Mul α] [Div α] [Neg α] [LT α] [LE α] [DecidableLT α] [DecidableLE α]
  [OfNat α 2] [TransOps α]

/-- `rbGiven = none`: `rbmodes is None` (auto: `wo2 < rbTol`); `some r`: whether this mode is in
`rbmodes`.  `isRf`: the mode is in `rfmodes`.  `none` = "Partitioning problem" `ValueError`. -/
def classify (cut : Cuts α) (m b k : α) (rbGiven : Option Bool) (isRf : Bool) : Option Regime :=
  let wo2 := k / m
  let C := (b / m) / 2
  let w2 := wo2 - C * C
  let pvrb : Bool := match rbGiven with
    | none => decide (wo2 < cut.rbTol)
    | some r => r
  if pvrb then
    if isRf then none
    else if cut.veloCut < TransOps.abs C then
      (if cut.dispCut < TransOps.abs C then some .rigidFull else some .rigidVelo)
    else some .rigid
  else if isRf then some .rf
  else
    let rat := w2 / wo2
    -- `rfmodes2 + pvrb + pvundr + pvover + pvcrit == 1`: exactly one of the three tests must hold
    let u : Bool := decide (cut.underTol ≤ rat)
    let c : Bool := decide (TransOps.abs rat < cut.critTol)
    let o : Bool := decide (rat ≤ -cut.overTol)
    match u, c, o with
    | true, false, false => some .under
    | false, true, false => some .crit
    | false, false, true => some .over
    | _, _, _ => none   -- no regime (NaN ratio 0/0) or more than one: "Partitioning problem"

end classify

end PyYetiVerif.SuCoef
