import PyYetiVerif.Model.BulkReal
/-!
C13, CANDIDATE FIX of finding F65 (`corpus/c13_f65_candidate_fix.diff`; /repo is NOT patched): `bulk.wttabled1` with its
default pair format.  The patched routine formats every abscissa / ordinate of the default case through `_dmig_field`
(`'{:16.9E}'`, or `'{:16.8E}'` when that is 17 characters) and hands the 16-character strings to the unchanged
`writer.vecwrite` / remainder loop with the pair format `'{:s}{:s}'`.  Core Lean only.
-/
namespace PyYetiVerif.Bulk
open PyYetiVerif.PyFloat (Dbl)

/-- the pair fields of the patched default case: `_dmig_field(t[j])`, `_dmig_field(d[j])` -/
def tabFixedPairs (tab : List (Dbl × Dbl)) : List (Txt × Txt) :=
  tab.map fun p => (dmigFld 'E' p.1, dmigFld 'E' p.2)

/-- the pair fields of the current default case: `'{:16.9E}{:16.9E}'.format(t[j], d[j])` -/
def tabDefaultPairs (tab : List (Dbl × Dbl)) : List (Txt × Txt) :=
  tab.map fun p => (pyE 16 9 'E' p.1, pyE 16 9 'E' p.2)

/-- `wttabled1(f, tid, t, d)` (title omitted, default `form`) as the candidate fix writes it -/
def tabled1LinesFixed (name : Txt) (tid : Int) (tab : List (Dbl × Dbl)) : List Txt :=
  tabled1Lines true name tid (tabFixedPairs tab)

end PyYetiVerif.Bulk
