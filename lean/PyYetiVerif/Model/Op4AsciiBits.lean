import PyYetiVerif.Model.Op4Ascii
import PyYetiVerif.Model.PyFloat
/-!
C04, ASCII reader, last step: `float(field)` as a bit pattern.  `pyFloat?` (Model/Op4Ascii.lean) gives the exact
decimal a field denotes; CPython's `float()` rounds it to the nearest double, ties to even — modelled by the
correctly rounded `PyFloat.toBits`.  Core Lean only.
-/
namespace PyYetiVerif.Op4A
open PyYetiVerif.Op4

/-- the double `float()` returns for the decimal `x` (exponents beyond ±6000 are decided without arithmetic:
zero or infinity) -/
def decBits (x : Dec10) : Nat :=
  if x.exp.natAbs > 6000 then
    (if x.exp < 0 ∨ x.man = 0 then PyYetiVerif.PyFloat.toBits x.neg 0 1 else PyYetiVerif.PyFloat.infBits x.neg)
  else if x.exp ≥ 0 then PyYetiVerif.PyFloat.toBits x.neg (x.man * 10 ^ x.exp.toNat) 1
  else PyYetiVerif.PyFloat.toBits x.neg x.man (10 ^ (-x.exp).toNat)

/-- an element as the reader stores it: a complex element is built as `real + 1j * imag` in Python complex
arithmetic (`cooEntry`; NaN real part when the imaginary part overflowed to ±inf), in the dense and in the
sparse read -/
def entryBits (cplx : Bool) (x : AEntry) : Entry :=
  let im := decBits x.2
  if cplx ∧ im % 9223372036854775808 = 9218868437227405312 then (0xFFF8000000000000, im) else
  cooEntry cplx (decBits x.1, if cplx then im else 0)

end PyYetiVerif.Op4A
