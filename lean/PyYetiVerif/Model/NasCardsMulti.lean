import PyYetiVerif.Model.NasCards
/-
Model of pyyeti/nastran/bulk.py, the generic card reader with all its options:

  rdcards(f, name, blank=, return_var='array'|'list'|'dict', dtype=float|int, no_data_return=,
          regex=, keep_name=, keep_comments=)           (no INCLUDE following)

  * `_next_line`: `line.expandtabs()` on every line handed to the readers (`expandTabs`: Python's
    `str.expandtabs(8)`), comment lines (`line.startswith("$")`, tested on the raw line) set aside
    when `return_var='list' and keep_comments` and flushed in front of the next matching card or at
    the end of the file; the matcher (`line.lower().find(name.lower()) == 0`, or — `regex=True` —
    any predicate on the expanded line);
  * `_rdfixed` / `_rdcomma` with `tolist` (strings kept or turned into `blank`) and the `blank=`
    value (`rdOneG`; `rdOneG cardVal "" = rdOne` of Model/NasCards, see Lemmas/NasCardsMulti);
  * the post-processing of `return_var='array'` (rows padded with `blank` to the longest card) and
    `'dict'` (keyed by the first value *before* conversion to `dtype`, later cards replace earlier
    ones), `np.array(val).astype(dtype)`, the `IndexError` of `val[0]` on a card without fields, the
    `ValueError` of a non-numeric `blank`, `no_data_return`;
  * `fsearch(f, s)`; the type dispatch of the writers (`TypeError` for an unsupported field type).

Core Lean only.
-/
namespace PyYetiVerif.NasCards
open PyYetiVerif.PyFloat PyYetiVerif.NasFloat

/-! ### tabs -/

/-- `str.expandtabs(8)` from column `col` (CPython `unicode_expandtabs`: a tab becomes
`8 - col % 8` blanks, `\n` and `\r` reset the column, every other character advances it) -/
def expandTabsFrom : Nat → Str → Str
  | _, [] => []
  | col, c :: t =>
    if c == '\t' then List.replicate (8 - col % 8) ' ' ++ expandTabsFrom (col + (8 - col % 8)) t
    else if c == '\n' || c == '\r' then c :: expandTabsFrom 0 t
    else c :: expandTabsFrom (col + 1) t

def expandTabs (s : Str) : Str := expandTabsFrom 0 s

/-! ### `fsearch` -/

/-- `s.find(pat)`: index of the first occurrence (`fuel` = `s.length + 1` positions to try) -/
def findFrom (pat : Str) : Nat → Str → Option Nat
  | i, [] => if pat.isEmpty then some i else none
  | i, c :: t => if pat.isPrefixOf (c :: t) then some i else findFrom pat (i + 1) t

def findSub (s pat : Str) : Option Nat := findFrom pat 0 s

/-- `fsearch(f, s)` on the lines from the current file position: the first line that contains `s`
and the position where it begins -/
def fsearch (pat : Str) : List Str → Option (Str × Nat)
  | [] => none
  | l :: rest =>
    match findSub l pat with
    | some p => some (l, p)
    | none => fsearch pat rest

/-! ### the readers with `tolist` / `blank` -/

/-- what the readers store for a field: `nas_sscanf(field, tolist)`, `None` replaced by `blank` -/
def cardValG (tolist : Bool) (blank : NasVal) (s : Str) : NasVal :=
  match nasSscanf s tolist with
  | .none => blank
  | v => v

def fieldsLoopG (cv : Str → NasVal) (n : Nat) (s : Str) (length : Nat) : Nat → Nat → List NasVal
  | 0, _ => []
  | fuel + 1, j =>
    if j ≤ 72 - n ∧ length > j then
      cv ((s.drop j).take n) :: fieldsLoopG cv n s length fuel (j + n)
    else []

def fieldsOfG (cv : Str → NasVal) (n : Nat) (s : Str) (length : Nat) : List NasVal :=
  fieldsLoopG cv n s length 72 8

def rdfixedGoG (cv : Str → NasVal) (bl : NasVal) (n inc : Nat) (conchar : Str) :
    Nat → Nat → Str → Nat → List Str → List NasVal × Nat
  | cnt, target, s, length, rest =>
    let here := List.replicate (target - cnt) bl ++ fieldsOfG cv n s length
    match rest with
    | [] => (here, 0)
    | l :: rest' =>
      if isCont conchar l then
        let s' := procLine (l.take 72)
        let r := rdfixedGoG cv bl n inc conchar (target + (fieldsOfG cv n s length).length)
                   (target + inc) s' s'.length rest'
        (here ++ r.1, r.2 + 1)
      else (here, 0)

def rdfixedG (cv : Str → NasVal) (bl : NasVal) (n : Nat) (conchar : Str) (keepName : Bool) (s : Str)
    (rest : List Str) : List NasVal × Nat :=
  let length := s.length
  let s1 := procLine (s.take 72)
  let nm : List NasVal := if keepName then [nasSscanf (s1.take 8) true] else []
  let r := rdfixedGoG cv bl n (if n > 8 then 4 else 8) conchar 0 0 s1 length rest
  (nm ++ r.1, r.2)

def rdcommaGoG (cv : Str → NasVal) (bl : NasVal) (conchar : Str) :
    Nat → Nat → Nat → Str → List Str → List NasVal × Nat
  | cnt, target, startField, s, rest =>
    let tok := splitComma s
    let lentok := min tok.length 9
    let fs := ((tok.take lentok).drop startField).map cv
    let here := List.replicate (target - cnt) bl ++ fs
    match rest with
    | [] => (here, 0)
    | l :: rest' =>
      if isCont conchar l then
        let r := rdcommaGoG cv bl conchar (target + fs.length - (if startField == 0 then 1 else 0))
                   (target + 8) 1 (procLine l) rest'
        (here ++ r.1, r.2 + 1)
      else (here, 0)

def rdcommaG (cv : Str → NasVal) (bl : NasVal) (keepName : Bool) (s : Str) (rest : List Str) :
    List NasVal × Nat :=
  rdcommaGoG cv bl " +,".toList 0 0 (if keepName then 0 else 1) (procLine s) rest

/-- one card starting at the (expanded) line `s`; `rest` = the lines the generator would hand out
next.  Returns the values and the number of continuation lines consumed. -/
def rdOneG (cv : Str → NasVal) (bl : NasVal) (keepName : Bool) (s : Str) (rest : List Str) :
    List NasVal × Nat :=
  if s.contains ',' then rdcommaG cv bl keepName s rest
  else
    let s1 := rstripWs (s.take 72)
    if (s1.take 8).contains '*' then rdfixedG cv bl 16 ['*'] keepName s1 rest
    else rdfixedG cv bl 8 [' ', '+'] keepName s1 rest

/-! ### `_next_line` and the main loop -/

/-- a line as `_next_line` sees it: set aside as a comment (raw text), or handed to the readers
(`expandtabs` applied) together with the verdict of the matcher on the expanded text -/
structure TLine where
  cmt : Bool
  txt : Str
  mat : Bool
deriving Repr, DecidableEq

/-- `line.startswith("$")` -/
def isCommentLine (l : Str) : Bool := l.head? == some '$'

/-- `line.lower().find(name.lower()) == 0` -/
def prefixMatch (name : Str) (l : Str) : Bool := (lower name).isPrefixOf (lower l)

def prepLine (keepC : Bool) (m : Str → Bool) (l : Str) : TLine :=
  if keepC && isCommentLine l then ⟨true, l, false⟩
  else ⟨false, expandTabs l, m (expandTabs l)⟩

def prepLines (keepC : Bool) (m : Str → Bool) (ls : List Str) : List TLine := ls.map (prepLine keepC m)

/-- the lines the readers get from `fiter.send(False)` -/
def visible (ls : List TLine) : List Str := (ls.filter fun t => !t.cmt).map (·.txt)

/-- pass over `k` visible lines: the comments met on the way and what is left -/
def dropVisible : Nat → List TLine → List Str × List TLine
  | 0, ls => ([], ls)
  | _, [] => ([], [])
  | k + 1, t :: ls =>
    if t.cmt then
      let r := dropVisible (k + 1) ls
      (t.txt :: r.1, r.2)
    else dropVisible k ls

/-- what `rdcards(..., return_var='list')` collects -/
inductive Item where
  | card (vals : List NasVal)
  | comment (raw : Str)
deriving Repr, DecidableEq

/-- the main loop of `rdcards` (`fuel` = number of lines; every step consumes at least one);
`pend` = the comments read and not yet stored (`comment_list`) -/
def rdItemsGo (cv : Str → NasVal) (bl : NasVal) (keepName : Bool) :
    Nat → List Str → List TLine → List Item
  | 0, pend, _ => pend.map .comment
  | _, pend, [] => pend.map .comment
  | fuel + 1, pend, t :: rest =>
    if t.cmt then rdItemsGo cv bl keepName fuel (pend ++ [t.txt]) rest
    else if t.mat then
      let r := rdOneG cv bl keepName t.txt (visible rest)
      let d := dropVisible r.2 rest
      pend.map .comment ++ Item.card r.1 :: rdItemsGo cv bl keepName fuel d.1 d.2
    else rdItemsGo cv bl keepName fuel pend rest

def rdItems (cv : Str → NasVal) (bl : NasVal) (keepName : Bool) (ls : List TLine) : List Item :=
  rdItemsGo cv bl keepName ls.length [] ls

/-! ### `return_var`, `dtype`, `blank`, `no_data_return` -/

inductive RetVar where
  | array | list | dict
deriving Repr, DecidableEq

inductive DType where
  | float | int
deriving Repr, DecidableEq

structure RdOpts where
  blank : Option NasVal      -- `None` = the default (`""` for a list, `0` otherwise)
  retVar : RetVar
  dtype : DType
  keepName : Bool
  keepComments : Bool
deriving Repr, DecidableEq

inductive RdResult where
  | noData                                        -- `no_data_return`
  | list (items : List Item)
  | array (ncols : Nat) (rows : List (List NasVal))
  | dict (entries : List (NasVal × List NasVal))
  | indexError                                    -- `key = val[0]` on a card without fields
  | valueError                                    -- a value `dtype` cannot convert
deriving Repr, DecidableEq

def isIntVal : NasVal → Bool
  | .int _ => true
  | _ => false

/-- the double nearest to an integer (`float(n)`, numpy's int64 → float64 cast) -/
def intToFlt (n : Int) : NasVal := .flt (toBits (decide (n < 0)) n.natAbs 1)

/-- one element of `np.array(val).astype(float)` -/
def toFloatVal : NasVal → Option NasVal
  | .int n => some (intToFlt n)
  | .flt b => some (.flt b)
  | _ => none

/-- C cast of a finite double to an integer type: toward zero -/
def truncVal : NasVal → Option NasVal
  | .int n => some (.int n)
  | .flt b =>
    match ofBits b with
    | some d => some (.int (if d.neg then -((d.num / d.den : Nat) : Int) else ((d.num / d.den : Nat) : Int)))
    | none => none
  | _ => none

/-- `np.array(val).astype(dtype)`: a list of Python ints is an integer array; one float makes it a
float64 array (the ints are rounded to doubles first); a string makes `astype` raise -/
def convRow (dt : DType) (vals : List NasVal) : Option (List NasVal) :=
  match dt with
  | .float => vals.mapM toFloatVal
  | .int =>
    if vals.all isIntVal then some vals
    else (vals.mapM toFloatVal).bind fun fs => fs.mapM truncVal

/-- `npVals[:] = blank` for one cell -/
def convBlank (dt : DType) (bl : NasVal) : Option NasVal :=
  match dt with
  | .float => toFloatVal bl
  | .int => truncVal bl

/-- `row[:len(vals)] = vals` on a row of `mx` cells -/
def overwritePrefix (row vals : List NasVal) : List NasVal := vals ++ row.drop vals.length

/-- Python's `==` / `hash` on the numeric keys of the dictionary (`1 == 1.0`, `0.0 == -0.0`) -/
def keyEq (a b : NasVal) : Bool :=
  let d : NasVal → Option Dbl := fun v =>
    match v with
    | .int n => some ⟨decide (n < 0), n.natAbs, 1⟩
    | .flt b => ofBits b
    | _ => none
  match d a, d b with
  | some x, some y => x.eq y
  | _, _ => a == b

/-- `Vals[key] = val`: a new key goes to the end, an existing key keeps its place (and its first
spelling) and takes the new value -/
def dictInsert (k : NasVal) (v : List NasVal) : List (NasVal × List NasVal) → List (NasVal × List NasVal)
  | [] => [(k, v)]
  | (k', v') :: rest => if keyEq k' k then (k', v) :: rest else (k', v') :: dictInsert k v rest

def cardsOf : List Item → List (List NasVal)
  | [] => []
  | .card v :: r => v :: cardsOf r
  | .comment _ :: r => cardsOf r

def maxLen : List (List NasVal) → Nat
  | [] => 0
  | r :: rs => max r.length (maxLen rs)

/-- the per-card part of the loop for `'array'` / `'dict'`: `key = val[0]` (`IndexError` on a card
without fields), then `np.array(val).astype(dtype)` (`ValueError`), card by card in file order -/
def convCards (dt : DType) : List (List NasVal) → Except RdResult (List (List NasVal))
  | [] => .ok []
  | c :: cs =>
    if c.isEmpty then .error .indexError
    else
      match convRow dt c with
      | none => .error .valueError
      | some r =>
        match convCards dt cs with
        | .ok rs => .ok (r :: rs)
        | .error e => .error e

/-- everything after a card has been read -/
def finishRd (o : RdOpts) (bl : NasVal) (items : List Item) : RdResult :=
  match o.retVar with
  | .list => if items.isEmpty then .noData else .list items
  | rv =>
    let cards := cardsOf items
    match convCards o.dtype cards with
    | .error e => e
    | .ok rows =>
      if rows.isEmpty then .noData
      else if rv == .dict then
        .dict ((cards.zip rows).foldl (fun d kr => dictInsert (kr.1.headD bl) kr.2 d) [])
      else
        match convBlank o.dtype bl with
        | none => .valueError
        | some b =>
          let mx := maxLen rows
          .array mx (rows.map (overwritePrefix (List.replicate mx b)))

def effTolist (o : RdOpts) : Bool := o.retVar == .list
def effBlank (o : RdOpts) : NasVal := o.blank.getD (if effTolist o then .str [] else .int 0)

/-- `rdcards` on lines already classified by `_next_line` (`prepLines`) -/
def rdcardsT (o : RdOpts) (tl : List TLine) : RdResult :=
  finishRd o (effBlank o)
    (rdItems (cardValG (effTolist o) (effBlank o)) (effBlank o) (effTolist o && o.keepName) tl)

/-- `rdcards(f, name, **opts)` on the lines of the file; `m` = the matcher on an expanded line
(`prefixMatch name`, or the compiled regular expression when `regex=True`) -/
def rdcardsFull (o : RdOpts) (m : Str → Bool) (ls : List Str) : RdResult :=
  rdcardsT o (prepLines (effTolist o && o.keepComments) m ls)

/-! ### the writers' type dispatch -/

/-- a field as the writers classify it: one of the supported types, or anything else
(`None`, `np.float16`, `np.int16`, `np.bool_`, `bytes`, a 0-d array, …: `TypeError`) -/
inductive TokX where
  | ok (t : Tok)
  | bad
deriving Repr, DecidableEq

inductive WtResult where
  | text (s : Str)
  | valueError
  | typeError
deriving Repr, DecidableEq

def okToks : List TokX → Option (List Tok)
  | [] => some []
  | .ok t :: r => (okToks r).map (t :: ·)
  | .bad :: _ => none

/-- the name checks come first (`ValueError`), the field types as they are met (`TypeError`) -/
def wtcardX (w : Str → List Tok → Option Str) (name : Str) (fields : List TokX) : WtResult :=
  match w name [] with
  | none => .valueError
  | some _ =>
    match okToks fields with
    | none => .typeError
    | some toks =>
      match w name toks with
      | some t => .text t
      | none => .valueError

end PyYetiVerif.NasCards
