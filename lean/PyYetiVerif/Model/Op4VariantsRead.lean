import PyYetiVerif.Model.Op2Read
/-!
# The binary OUTPUT4 reader of `pyyeti/nastran/op4.py`, every physical variant (C11)

A transcription of `_decode_format` / `_op4open_read` (format detection: byte order from the first record
marker, 64-bit keys when that marker is not 24), `_loadop4_binary`, `_get_funcs`, `_rd_dense_binary`,
`_rd_bigmat_binary`, `_rd_nonbigmat_binary`, `_skipop4_binary`, `_check_name` and the loops of
`listload` / `dctload` / `dir`, generic over what `_op4open_read` detects (`V2`: byte order, key width)
and over the matrix type read from each header (odd `mtype`: single precision, one word per real of
`_bytes_sr` bytes; even: 8-byte reals, `_wordsperdouble` words each).  Core Lean only.

**State.**  As in Model/Op2Read.lean the file object is the list of bytes still ahead of the position;
`fp.read(n)` is `take`/`drop` (a short read is no error), `struct.unpack` on a short buffer is
`Err.struct`, a relative `seek` forwards is `drop` (possibly beyond the end).  Record markers are
4-byte integers, keys 4 or 8 bytes (`kb`).

**Values** are not interpreted: a real is the bit pattern of the stored width.  A matrix read is the
list of `put(X, r, c, Y)` calls the column readers make (`Put`: 0-based row, column, the reals `Y`);
what the calls do to a dense array (`applyPuts`: numpy slice assignment) and to the COO lists
(`cooOfPuts`) are separate functions, as in Model/Op4.lean.

**`_rowsCutoff`** is a parameter (`cut`): below it a string is read by `struct.unpack` (`valsStruct`),
from it on by `numpy.fromfile` (`valsFromfile`).

**Outside the model** (`Err.exotic`; such files are skipped and counted by the harness): a name field
with bytes ≥ 0x80 (`bytes.decode()`), a put with a negative row or column (numpy indexes from the
end), a backward `seek`, a read of 2³¹ bytes or more, `numpy.fromfile` with a negative count.
-/
namespace PyYetiVerif.Op4VR
open PyYetiVerif.Op4 (Endian Layout chooseLayout checkName)
open PyYetiVerif.Op2 (V2 kb)
open PyYetiVerif.Op2R (M Err natOfBytes intOfBytes chunks rdI4 rdKeyRaw pyRead seekFwd)
open PyYetiVerif.Generated.Op4Consts

/-! ## format detection -/

/-- `_op4open_read` + `_decode_format`: `none` = ASCII.  Binary iff one of the first four bytes is 0;
little-endian iff the first marker read little-endian is ≤ 48; 64-bit keys iff the marker is not 24. -/
def detect (f : List Nat) : M (Option V2) :=
  if f.length < 16 then .error .empty else
  if (f.take 4).any (· == 0) then
    let le := natOfBytes .little (f.take 4)
    if le ≤ 48 then .ok (some ⟨.little, le != 24⟩)
    else .ok (some ⟨.big, natOfBytes .big (f.take 4) != 24⟩)
  else .ok none

/-! ## the matrix header -/

structure Hdr where
  cols : Int
  rows : Int
  form : Int
  mtype : Int
  rawName : List Nat
deriving Repr, DecidableEq

/-- length of the name field: `fp.read(16)` with 64-bit keys, `fp.read(8)` otherwise -/
def nameLen (v : V2) : Nat := if v.bit64 then 16 else 8

/-- the top of the `while 1` of `_loadop4_binary`: `none` = end of file (`len(fp.read(4)) == 0`);
otherwise the four keys, the name field and the closing marker are consumed -/
def rdHdr (v : V2) (s : List Nat) : M (Option (Hdr × List Nat)) :=
  if s.isEmpty then .ok none else
  match rdKeyRaw v (s.drop 4) with
  | .error e => .error e
  | .ok (cols, s) =>
    match rdKeyRaw v s with
    | .error e => .error e
    | .ok (rows, s) =>
      match rdKeyRaw v s with
      | .error e => .error e
      | .ok (form, s) =>
        match rdKeyRaw v s with
        | .error e => .error e
        | .ok (mtype, s) =>
          let name := s.take (nameLen v)
          if name.any (· ≥ 128) then .error .exotic else
          .ok (some (⟨cols, rows, form, mtype, name⟩, (s.drop (nameLen v)).drop 4))

/-! ## `_skipop4_binary` -/

/-- `icol = 0; while icol <= cols: reclen = i4; icol = key; fp.seek(reclen + 4 - bytes_i, 1)` -/
def skipCols (v : V2) (cols : Int) : Nat → Int → List Nat → M (List Nat)
  | 0, _, _ => .error .fuel
  | fuel + 1, icol, s =>
    if icol ≤ cols then
      match rdI4 v s with
      | .error e => .error e
      | .ok (reclen, s) =>
        match rdKeyRaw v s with
        | .error e => .error e
        | .ok (icol', s) =>
          match seekFwd (reclen + 4 - (kb v : Int)) s with
          | .error e => .error e
          | .ok s => skipCols v cols fuel icol' s
    else .ok s

/-! ## values -/

structure Cfg where
  v : V2
  cut : Int      -- `self._rowsCutoff`
  wper : Nat     -- words per real
  rb : Nat       -- bytes per real

/-- the `if mtype & 1` of `_loadop4_binary` -/
def cfgOf (v : V2) (cut : Int) (mtype : Int) : Cfg :=
  if mtype % 2 = 1 then ⟨v, cut, 1, kb v⟩ else ⟨v, cut, if v.bit64 then 1 else 2, 8⟩

/-- `struct.unpack(numform % n, fp.read(bytesreal * n))`: a negative `n` makes the read raise
ValueError, a short read makes `unpack` raise -/
def valsStruct (e : Endian) (w : Nat) (n : Int) (s : List Nat) : M (List Nat × List Nat) :=
  if n < 0 then .error .value
  else if (s.take (n.toNat * w)).length = n.toNat * w then
    .ok ((chunks w n.toNat (s.take (n.toNat * w))).map (natOfBytes e), s.drop (n.toNat * w))
  else .error .struct

/-- `np.fromfile(fp, numform2, n)`: the complete items that are there, never raises (a negative count
would read the whole file: outside the model, unreachable when `_rowsCutoff ≥ 0`) -/
def valsFromfile (e : Endian) (w : Nat) (n : Int) (s : List Nat) : M (List Nat × List Nat) :=
  if n < 0 then .error .exotic
  else .ok ((chunks w (min n.toNat (s.length / w)) s).map (natOfBytes e), s.drop (n.toNat * w))

/-- `if L < cutoff: struct.unpack … else: np.fromfile …` -/
def rdVals (c : Cfg) (n : Int) (s : List Nat) : M (List Nat × List Nat) :=
  if n < c.cut then valsStruct c.v.e c.rb n s else valsFromfile c.v.e c.rb n s

/-- one `put(X, r, c, Y)`: 0-based row, column, the stored reals -/
abbrev Put := Nat × Nat × List Nat

/-- `reclen = s4(fp.read(4))[0]; c, r, nwords = s3(fp.read(b3))` -/
def rdRecHead (v : V2) (s : List Nat) : M (Int × Int × Int × Int × List Nat) :=
  match rdI4 v s with
  | .error e => .error e
  | .ok (reclen, s) =>
    match rdKeyRaw v s with
    | .error e => .error e
    | .ok (c, s) =>
      match rdKeyRaw v s with
      | .error e => .error e
      | .ok (r, s) =>
        match rdKeyRaw v s with
        | .error e => .error e
        | .ok (nw, s) => .ok (reclen, c, r, nw, s)

/-! ## the column readers -/

/-- `_rd_dense_binary`: `while c < cols: r -= 1; nwords //= wper; Y = …; put; fp.read(4); reclen = …;
c, r, nwords = …; c -= 1`.  Returns the puts, the last `reclen` read and the bytes ahead. -/
def rdDense (c : Cfg) (cols : Int) :
    Nat → (col r nw reclen : Int) → List Nat → List Put → M (List Put × Int × List Nat)
  | 0, _, _, _, _, _, _ => .error .fuel
  | fuel + 1, col, r, nw, reclen, s, acc =>
    if col < cols then
      match rdVals c (nw / (c.wper : Int)) s with
      | .error e => .error e
      | .ok (ys, s) =>
        if r - 1 < 0 ∨ col < 0 then .error .exotic else
        match rdRecHead c.v (s.drop 4) with
        | .error e => .error e
        | .ok (reclen', c', r', nw', s) =>
          rdDense c cols fuel (c' - 1) r' nw' reclen' s (acc ++ [((r - 1).toNat, col.toNat, ys)])
    else .ok (acc, reclen, s)

/-- `while nwords > 0` of `_rd_bigmat_binary`: `L, r = s2(…); nwords -= L + 1; L = (L - 1) // wper;
r -= 1; Y = …; put` -/
def rdStrsBig (c : Cfg) (col : Int) : Nat → Int → List Nat → List Put → M (List Put × List Nat)
  | 0, _, _, _ => .error .fuel
  | fuel + 1, nw, s, acc =>
    if nw > 0 then
      match rdKeyRaw c.v s with
      | .error e => .error e
      | .ok (L, s) =>
        match rdKeyRaw c.v s with
        | .error e => .error e
        | .ok (r, s) =>
          match rdVals c ((L - 1) / (c.wper : Int)) s with
          | .error e => .error e
          | .ok (ys, s) =>
            if r - 1 < 0 ∨ col < 0 then .error .exotic else
            rdStrsBig c col fuel (nw - (L + 1)) s (acc ++ [((r - 1).toNat, col.toNat, ys)])
    else .ok (acc, s)

/-- `while nwords > 0` of `_rd_nonbigmat_binary`: `IS = s1(…); L = (IS >> 16) - 1;
r = IS - ((L + 1) << 16) - 1; nwords -= L + 1; L //= wper; Y = …; put` -/
def rdStrsNonbig (c : Cfg) (col : Int) : Nat → Int → List Nat → List Put → M (List Put × List Nat)
  | 0, _, _, _ => .error .fuel
  | fuel + 1, nw, s, acc =>
    if nw > 0 then
      match rdKeyRaw c.v s with
      | .error e => .error e
      | .ok (IS, s) =>
        let L : Int := IS / ((2 ^ isShiftR : Nat) : Int) - 1
        let r : Int := IS - (L + 1) * ((2 ^ isShiftR : Nat) : Int) - 1
        match rdVals c (L / (c.wper : Int)) s with
        | .error e => .error e
        | .ok (ys, s) =>
          if r < 0 ∨ col < 0 then .error .exotic else
          rdStrsNonbig c col fuel (nw - (L + 1)) s (acc ++ [(r.toNat, col.toNat, ys)])
    else .ok (acc, s)

/-- the column loop of `_rd_bigmat_binary` / `_rd_nonbigmat_binary` -/
def rdSparse (c : Cfg) (big : Bool) (cols : Int) :
    Nat → (col nw reclen : Int) → List Nat → List Put → M (List Put × Int × List Nat)
  | 0, _, _, _, _, _ => .error .fuel
  | fuel + 1, col, nw, reclen, s, acc =>
    if col < cols then
      match (if big then rdStrsBig c col (s.length + 1) nw s acc else rdStrsNonbig c col (s.length + 1) nw s acc) with
      | .error e => .error e
      | .ok (acc, s) =>
        match rdRecHead c.v (s.drop 4) with
        | .error e => .error e
        | .ok (reclen', c', _, nw', s) => rdSparse c big cols fuel (c' - 1) nw' reclen' s acc
    else .ok (acc, reclen, s)

/-! ## one matrix, a whole file -/

/-- what one matrix of a file decodes to -/
structure VDec where
  name : List Nat          -- after `_check_name`
  rows : Int               -- as in the header (negative: bigmat marker)
  cols : Int
  form : Int
  mtype : Int
  layout : Layout
  sparseAuto : Bool        -- what `sparse=None` resolves to
  puts : List Put
deriving Repr, DecidableEq

/-- `_loadop4_binary` after the `break`: first record head, `_get_funcs`, the column reader, the final
`fp.read(reclen - 3 * bytes_i + 4)` (rest of the trailer record and its closing marker) -/
def rdBody (v : V2) (cut : Int) (h : Hdr) (s : List Nat) : M (Layout × Bool × List Put × List Nat) :=
  match rdRecHead v s with
  | .error e => .error e
  | .ok (reclen, c, r, nw, s) =>
    let lay := chooseLayout h.rows r (decide (c - 1 ≥ h.cols))
    let cfg := cfgOf v cut h.mtype
    let body :=
      match lay.1 with
      | .dense => rdDense cfg h.cols (s.length + 1) (c - 1) r nw reclen s []
      | .bigmat => rdSparse cfg true h.cols (s.length + 1) (c - 1) nw reclen s []
      | .nonbigmat => rdSparse cfg false h.cols (s.length + 1) (c - 1) nw reclen s []
    match body with
    | .error e => .error e
    | .ok (puts, reclen', s) =>
      match pyRead (reclen' - 3 * (kb v : Int) + 4) s with
      | .error e => .error e
      | .ok (_, s) => .ok (lay.1, lay.2, puts, s)

/-- `patternlist and name not in patternlist` -/
def skipped (pl : List (List Nat)) (name : List Nat) : Bool := !pl.isEmpty && !pl.contains name

/-- the loop of `listload(file, namelist=pl)` over `_loadop4_binary(patternlist=pl)`; `count` is
`self._matcount` (every matrix met, read or skipped, is counted by `_check_name`) -/
def loadLoop (v : V2) (cut : Int) (pl : List (List Nat)) : Nat → Nat → List Nat → M (List VDec)
  | 0, _, _ => .error .fuel
  | fuel + 1, count, s =>
    match rdHdr v s with
    | .error e => .error e
    | .ok none => .ok []
    | .ok (some (h, s)) =>
      let name := checkName count h.rawName
      if skipped pl name then
        match skipCols v h.cols (s.length + 1) 0 s with
        | .error e => .error e
        | .ok s => loadLoop v cut pl fuel (count + 1) s
      else
        match rdBody v cut h s with
        | .error e => .error e
        | .ok (lay, auto, puts, s) =>
          match loadLoop v cut pl fuel (count + 1) s with
          | .error e => .error e
          | .ok ds => .ok (⟨name, h.rows, h.cols, h.form, h.mtype, lay, auto, puts⟩ :: ds)

/-- one line of `dir`: name, `(abs(rows), cols)`, form, type -/
abbrev Listing := List Nat × Int × Int × Int × Int

def VDec.listing (d : VDec) : Listing := (d.name, (if d.rows < 0 then -d.rows else d.rows), d.cols, d.form, d.mtype)

/-- the loop of `dir` over `_loadop4_binary(listonly=True)` -/
def dirLoop (v : V2) : Nat → Nat → List Nat → M (List Listing)
  | 0, _, _ => .error .fuel
  | fuel + 1, count, s =>
    match rdHdr v s with
    | .error e => .error e
    | .ok none => .ok []
    | .ok (some (h, s)) =>
      match skipCols v h.cols (s.length + 1) 0 s with
      | .error e => .error e
      | .ok s =>
        match dirLoop v fuel (count + 1) s with
        | .error e => .error e
        | .ok ds => .ok ((checkName count h.rawName, (if h.rows < 0 then -h.rows else h.rows), h.cols, h.form, h.mtype) :: ds)

/-- `op4.load(file, namelist=pl, into='list')` on a binary file (`pl = []`: no name list) -/
def loadBytes (cut : Int) (pl : List (List Nat)) (f : List Nat) : M (List VDec) :=
  match detect f with
  | .error e => .error e
  | .ok none => .error .exotic
  | .ok (some v) => loadLoop v cut pl (f.length + 1) 0 f

/-- `op4.dir(file)` on a binary file -/
def dirBytes (f : List Nat) : M (List Listing) :=
  match detect f with
  | .error e => .error e
  | .ok none => .error .exotic
  | .ok (some v) => dirLoop v (f.length + 1) 0 f

/-! ## `into='dct'`: an OrderedDict keyed by name -/

/-- `dct[name] = X`: a new key is appended, an existing key keeps its place and takes the new value -/
def dctInsert {α} (d : List (List Nat × α)) (k : List Nat) (x : α) : List (List Nat × α) :=
  if d.any (·.1 == k) then d.map (fun p => if p.1 == k then (k, x) else p) else d ++ [(k, x)]

/-- the dictionary `dctload` builds from the matrices `listload` returns -/
def dctOf {α} (l : List (List Nat × α)) : List (List Nat × α) := l.foldl (fun d p => dctInsert d p.1 p.2) []

/-! ## from the puts to the matrix -/

/-- `X[r : r + len(Y), c] = Y` on one column kept as stored reals (`m` per element: 2 for complex, where
`_put_binary_values_c` first views `Y` as complex: an odd count raises ValueError).  numpy clips the slice
to the column; the shapes must then agree, except that ONE element is broadcast into the clipped slice —
so a single element whose row lies beyond the column is dropped silently. -/
def assignCol (col : List Nat) (m r : Nat) (ys : List Nat) : M (List Nat) :=
  if ys.length % m ≠ 0 then .error .value
  else if m * r + ys.length ≤ col.length then .ok (col.take (m * r) ++ ys ++ col.drop (m * r + ys.length))
  else if ys.length = m ∧ col.length ≤ m * r then .ok col
  else .error .value

/-- the dense matrix (`sparse=False`): columns of `m * rows` stored reals -/
def applyPuts (m rows cols : Nat) (puts : List Put) : M (List (List Nat)) :=
  puts.foldlM (init := List.replicate cols (List.replicate (m * rows) 0)) fun X p =>
    match X[p.2.1]? with
    | none => .error .index
    | some col =>
      match assignCol col m p.1 p.2.2 with
      | .error e => .error e
      | .ok col' => .ok (X.set p.2.1 col')

/-- the COO triplets (`sparse=True`), file order: `(row, col, reals of the element)`; `none` when
`_put_binary_values_sparse_c` indexes beyond an odd `Y` (IndexError) -/
def cooOfPuts (m : Nat) (puts : List Put) : M (List (Nat × Nat × List Nat)) :=
  puts.foldlM (init := []) fun acc p =>
    if p.2.2.length % m ≠ 0 then .error .index else
    .ok (acc ++ (List.range (p.2.2.length / m)).map fun i => (p.1 + i, p.2.1, (p.2.2.drop (m * i)).take m))

end PyYetiVerif.Op4VR
