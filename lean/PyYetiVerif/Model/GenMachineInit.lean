import PyYetiVerif.Model.GenMachine
/-!
What happens before the first `send` and after the last one
(pyyeti/ode/_base_ode_class.py `_init_dv`, `_init_dva_part`, `_init_dva`, `_calc_acce_kdof`,
`finalize`; `generator()` / `tsolve()` of solveunc.py and solveexp2.py).  Core Lean only.

A vector of the solver is split into its three row partitions `rb | el | rf` (`P3`); the code
addresses them with `self.rb`, `self.el`, `self.rf` (`nonrf = rb ∪ el`).  All maps are abstract
functions on the partitions (diagonal scalings for an uncoupled solver, dense matrices / LU
solves otherwise).

  * `initDv`       `_init_dv`: first column of `d, v` on the non-rf rows from the caller's options
  * `initDvaPart`  `_init_dva_part`: the arrays `generator()` starts from
  * `initDva`      `_init_dva`: the arrays `tsolve()` starts from
  * `eomAcc`       `_calc_acce_kdof`: acceleration from equilibrium
  * `finalizeRec`  `finalize(get_force)`: the record returned (all `nt` columns, nothing truncated)
-/
namespace PyYetiVerif.GenMachine

/-- a solver vector split into rigid-body, elastic and residual-flexibility rows -/
structure P3 (R E S : Type) where
  rb : R
  el : E
  rf : S

instance {R E S : Type} [Add R] [Add E] [Add S] : Add (P3 R E S) :=
  ⟨fun a b => ⟨a.rb + b.rb, a.el + b.el, a.rf + b.rf⟩⟩
instance {R E S : Type} [Zero R] [Zero E] [Zero S] : Zero (P3 R E S) := ⟨⟨0, 0, 0⟩⟩

/-- the caller's options of `generator(nt, F0, d0, v0, static_ic)` and
`tsolve(force, d0, v0, static_ic)`; `d0`, `v0` are full-size vectors of which only the non-rf
rows are read -/
structure IcOpts (R E S : Type) where
  d0 : Option (P3 R E S)
  v0 : Option (P3 R E S)
  staticIc : Bool

/-- what `_init_dv` / `_init_dva*` read from the solver object -/
structure IcEnv (R E S : Type) where
  /-- `self.elsize` is non-zero -/
  hasEl : Bool
  /-- `F0[self.el].any()` -/
  anyNz : E → Bool
  /-- `F0[el] / k[_el]` (uncoupled) or `np.linalg.solve(k[_el, _el], F0[el])` -/
  solveEl : E → E
  /-- `ikrf.ravel() * F0[rf]` (uncoupled) or `la.lu_solve(ikrf, F0[rf])` -/
  ikrf : S → S

section init
variable {R E S : Type} [Zero R] [Zero E] [Zero S]

/-- `_init_dv(d, v, d0, v0, F0, static_ic)` on zero arrays: the first column of `d` and of `v`.
`d0` given: copied to the non-rf rows (and `static_ic` is ignored); otherwise `static_ic` with
elastic rows present and a non-zero elastic force: elastic rows = static solution, rigid-body
rows = 0; otherwise zero.  `v0` given: copied to the non-rf rows.  rf rows stay zero here. -/
def initDv (env : IcEnv R E S) (o : IcOpts R E S) (F0 : P3 R E S) : P3 R E S × P3 R E S :=
  let d : P3 R E S :=
    match o.d0 with
    | some d0 => ⟨d0.rb, d0.el, 0⟩
    | none =>
      if o.staticIc && env.hasEl && env.anyNz F0.el then ⟨0, env.solveEl F0.el, 0⟩ else 0
  let v : P3 R E S :=
    match o.v0 with
    | some v0 => ⟨v0.rb, v0.el, 0⟩
    | none => 0
  (d, v)

/-- the four arrays of a solution in progress -/
structure Dva (V : Type) where
  d : Nat → V
  v : Nat → V
  a : Nat → V
  f : Nat → V

/-- `_init_dva_part(nt, F0, d0, v0, static_ic)`: zero arrays, `f[:, 0] = F0`, `_init_dv`, then the
rf rows of column 0 only (`d[rf, 0] = ikrf * F0[rf]`) -/
def initDvaPart (env : IcEnv R E S) (o : IcOpts R E S) (F0 : P3 R E S) : Dva (P3 R E S) :=
  let dv := initDv env o F0
  { d := upd (fun _ => 0) 0 ⟨dv.1.rb, dv.1.el, env.ikrf F0.rf⟩
    v := upd (fun _ => 0) 0 dv.2
    a := fun _ => 0
    f := upd (fun _ => 0) 0 F0 }

/-- `_init_dva(force, d0, v0, static_ic)` (time domain, no `pre_eig`): zero arrays, `_init_dv`
with `force[:, 0]`, then the rf rows of EVERY column (`d[rf] = ikrf * force[rf]`) -/
def initDva (env : IcEnv R E S) (o : IcOpts R E S) (force : Nat → P3 R E S) : Dva (P3 R E S) :=
  let dv := initDv env o (force 0)
  let d0 : Nat → P3 R E S := upd (fun _ => 0) 0 dv.1
  { d := fun j => ⟨(d0 j).rb, (d0 j).el, env.ikrf (force j).rf⟩
    v := upd (fun _ => 0) 0 dv.2
    a := fun _ => 0
    f := force }

end init

/-! ### how the one-step machines look at the arrays -/

/-- which rows of a column are the machine's state `x = (d, v)` and which are its static rows:
real-uncoupled / cd-as-force / SolveExp2: `x` = the non-rf rows of `d, v`, static = `d[rf]`;
complex path: the same plus the rigid-body rows of `a` among the static rows -/
structure View (V X W : Type) where
  x : V → V → X          -- from the columns of d and v
  r : V → V → W          -- from the columns of d and a

/-- the machine state a generator starts in, read off the arrays -/
def viewState {V X W : Type} (vw : View V X W) (A : Dva V) : State V X W :=
  { cur := 0
    force := A.f
    x := fun j => vw.x (A.d j) (A.v j)
    r := fun j => vw.r (A.d j) (A.a j) }

/-- `SolveUnc.generator` (real paths) / `SolveExp2.generator`: `_init_dva_part`, then the generator
function runs up to its first `yield` without touching the arrays -/
def genStart {R E S X W : Type} [Zero R] [Zero E] [Zero S] (env : IcEnv R E S)
    (vw : View (P3 R E S) X W) (o : IcOpts R E S) (F0 : P3 R E S) : State (P3 R E S) X W :=
  viewState vw (initDvaPart env o F0)

/-- `_solve_complex_unc_generator` up to its first `yield`: additionally `a[rb, 0] = imrb F0[rb]` -/
def cplxGenStart {R E S X W : Type} [Zero R] [Zero E] [Zero S] (env : IcEnv R E S)
    (imrb : R → R) (vw : View (P3 R E S) X W) (o : IcOpts R E S) (F0 : P3 R E S) :
    State (P3 R E S) X W :=
  let A := initDvaPart env o F0
  viewState vw { A with a := upd A.a 0 ⟨imrb F0.rb, (A.a 0).el, (A.a 0).rf⟩ }

/-- first column `tsolve` marches from (`_init_dva`, then `D[:, 0]`, `V[:, 0]`) -/
def batchX0 {R E S X W : Type} [Zero R] [Zero E] [Zero S] (env : IcEnv R E S)
    (vw : View (P3 R E S) X W) (o : IcOpts R E S) (force : Nat → P3 R E S) : X :=
  let A := initDva env o force
  vw.x (A.d 0) (A.v 0)

/-! ### acceleration from equilibrium, `finalize` -/

/-- `_calc_acce_kdof`: `K` selects the `kdof` rows of a force column, `Bv` is the (full) damping
on the kdof velocity — for cd-as-force the diagonal plus `bo` —, `Kd` the stiffness, `invm` the
mass solve (identity for `m = None`) -/
structure EomCoef (V M : Type) where
  K : V → M
  Bv : M → M
  Kd : M → M
  invm : M → M

/-- `a[kdof] = invm * (F - B - K)` -/
def eomAcc {V M : Type} [Sub M] (c : EomCoef V M) (x : DV M) (f : V) : M :=
  c.invm (c.K f - c.Bv x.v - c.Kd x.d)

/-- `b = self.bo.copy(); b[i, i] = self.b; B = b @ v[kdof]`: diagonal plus off-diagonal damping -/
def cdfFullDamping {M : Type} [Add M] (bdiag bo : M → M) : M → M := fun v => bdiag v + bo v

/-- the record `finalize(get_force)` returns: every column of the `nt`-column arrays — nothing is
truncated when fewer than `nt` steps were sent — and the force array only on request -/
structure FinRec (V X W A : Type) where
  nt : Nat
  cols : Nat → X × W × A
  force : Option (Nat → V)

def finalizeRec {V X W A : Type} (acc : X → V → A) (nt : Nat) (getForce : Bool)
    (s : State V X W) : FinRec V X W A :=
  { nt := nt
    cols := fun j => finalize acc s j
    force := if getForce then some s.force else none }

/-- the largest column index any request of the list addressed (`h0` = so far) -/
def highWater {V : Type} (h0 : Nat) : List (Op V) → Nat
  | [] => h0
  | .send i _ :: ops => highWater (max h0 i) ops
  | .addon _ :: ops => highWater h0 ops

section avoid
variable {V X W : Type} [Add V] [Add X] [Add W]

/-- no request of the list ends with the loop variable on column `j` (so column `j` is not
written: every request writes only the column of the loop variable) -/
def Avoids (L : Lin V X W) (j : Nat) : State V X W → List (Op V) → Prop
  | _, [] => True
  | s, op :: ops => (step L s op).cur ≠ j ∧ Avoids L j (step L s op) ops

end avoid

end PyYetiVerif.GenMachine
