import PyYetiVerif.Model.Binify
import PyYetiVerif.Model.FindapFix
import PyYetiVerif.Model.Rainflow
/-
Model of the rest of `pyyeti.cyclecount.binify` / `sigcount` around `_binify`:

* `_getlabels(form, bins)` with `form = "(" + f + ", " + f + "]"` (right) / `"[" … ")"`,
  `f = "{:.<precision>f}"`: Python's `format(x, ".pf")` prints the correctly rounded (ties to even)
  decimal expansion of the EXACT value of the double, so over exact rationals it is
  `roundHalfEven (x · 10^p)` rendered with `p` decimals (`labelNum`, `fmtFixed`); a negative value
  that rounds to zero keeps its sign (`-0.000`);
* the packaging: `use_pandas` (index = mean-bin labels, columns = amplitude-bin labels, names
  "Mean" / "Amp"), `retbins`;
* `sigcount = binify ∘ rainflow ∘ findap` (`check_bounds` at its default `True`).

Core Lean only; `Rat`-specific where decimal rounding is involved.
-/
namespace PyYetiVerif.Binify

/-- round to the nearest integer, ties to even -/
def roundHalfEven (x : Rat) : Int :=
  let f := x.floor
  let d := x - (f : Rat)
  if d < 1 / 2 then f else if 1 / 2 < d then f + 1 else if f % 2 = 0 then f else f + 1

/-- the number a `precision`-digit label shows, times `10^precision` -/
def labelNum (p : Nat) (x : Rat) : Int := roundHalfEven (x * (10 : Rat) ^ p)

/-- `"{:.pf}".format(x)` -/
def fmtFixed (p : Nat) (x : Rat) : String :=
  let n := labelNum p x
  let ds := (toString n.natAbs).toList
  let ds := List.replicate (p + 1 - ds.length) '0' ++ ds
  let ip := ds.take (ds.length - p)
  let fp := ds.drop (ds.length - p)
  let body := if p = 0 then ip else ip ++ ['.'] ++ fp
  String.ofList ((if x < 0 then ['-'] else []) ++ body)

/-- `form.format(lo, hi)` -/
def label (right : Bool) (p : Nat) (lo hi : Rat) : String :=
  (if right then "(" else "[") ++ fmtFixed p lo ++ ", " ++ fmtFixed p hi ++ (if right then "]" else ")")

/-- `_getlabels(form, bins)`: one label per bin -/
def getLabels (right : Bool) (p : Nat) : List Rat → List String
  | a :: b :: r => label right p a b :: getLabels right p (b :: r)
  | _ => []

/-- what `binify(..., use_pandas=…, retbins=…)` returns -/
structure Packed where
  table : List (List Rat)
  /-- `table.index` / `table.columns` (`none` when `use_pandas=False`: a bare ndarray) -/
  index : Option (List String)
  columns : Option (List String)
  /-- `(table.index.name, table.columns.name)` -/
  names : Option (String × String)
  /-- `(ampb, aveb)` when `retbins=True` -/
  bins : Option (List Rat × List Rat)
deriving DecidableEq, Repr

inductive FullRes where
  | ok (r : Packed)
  | valueError
  | indexError
deriving DecidableEq, Repr

/-- `binify(rf, ampbins, meanbins, right, precision, retbins, use_pandas, check_bounds)` -/
def binifyFull (right : Bool) (precision : Nat) (retbins usePandas check : Bool)
    (ampS meanS : BinSpec Rat) (cycles : List (Rat × Rat × Rat)) : FullRes :=
  match binifyApi right check ampS meanS cycles with
  | .valueError => .valueError
  | .indexError => .indexError
  | .table T ampb aveb =>
      .ok { table := T
            index := if usePandas then some (getLabels right precision aveb) else none
            columns := if usePandas then some (getLabels right precision ampb) else none
            names := if usePandas then some ("Mean", "Amp") else none
            bins := if retbins then some (ampb, aveb) else none }

/-- `rainflow(sig[findap(sig)], use_pandas=False)` as `[amp, mean, count]` rows; `none` = the
`ValueError` of an empty signal or of fewer than two reversals -/
def cycleRows (tol : Rat) (y : List Rat) : Option (List (Rat × Rat × Rat)) :=
  match Findap.findapDefFix tol y with
  | none => none
  | some m =>
      (Rainflow.rainflowApi (Findap.select m y)).map fun t =>
        t.map fun c => (c.rng / 2, c.sum / 2, if c.full then 1 else 1 / 2)

/-- `sigcount(sig, ampbins, meanbins, right, precision, retbins, use_pandas)`; `tol` is `findap`'s
default `1e-6` -/
def sigcountFull (tol : Rat) (right : Bool) (precision : Nat) (retbins usePandas : Bool)
    (ampS meanS : BinSpec Rat) (y : List Rat) : FullRes :=
  match cycleRows tol y with
  | none => .valueError
  | some rf => binifyFull right precision retbins usePandas true ampS meanS rf

end PyYetiVerif.Binify
