/-
Model of `pyyeti.psd.get_freq_oct` (C19).  Core Lean only; polymorphic over the arithmetic and the
class `OctOps` (`log2 log10 pow floor` and the length of `np.arange`), run at `Float` by the driver.

    s = frange[0] if frange[0] > 0.0 else 1.0;  e = frange[-1]
    exact:      anchor = anchor or 1000.0
                var1 = floor(log2(s/anchor)*n);          var2 = log2(e/anchor)*n + 1
                bands = arange(var1, var2);  F = anchor * 2**(bands/n);  factor = 2**(1/(2*n))
    otherwise:  anchor = anchor or 1.0
                var1 = floor(log10(s/anchor)*10*n/3);    var2 = log10(e/anchor)*10*n/3 + 1
                bands = arange(var1, var2);  F = anchor * 10**(3*bands/(10*n));  factor = 10**(3/(20*n))
    FL, FU = F/factor, F*factor
    trim 'outside'|'band':  Nmax = max(nonzero(FL <= e)) + 1;  Nmin = min(nonzero(FU >= s))
         'center':          Nmax = max(nonzero(F  <= e)) + 1;  Nmin = min(nonzero(F  >= s))
         'inside':          Nmax = max(nonzero(FU <= e)) + 1;  Nmin = min(nonzero(FL >= s))
    return F[Nmin:Nmax], FL[Nmin:Nmax], FU[Nmin:Nmax]
-/
namespace PyYetiVerif.PsdOct

class OctOps (α : Type) where
  log2 : α → α
  log10 : α → α
  pow : α → α → α
  floor : α → α
  /-- `len(np.arange(0, x))` = `ceil(x)` clipped at `0` -/
  ceilNat : α → Nat

inductive Trim where
  | outside | center | inside
  deriving DecidableEq, Repr

variable {α : Type} [Add α] [Sub α] [Mul α] [Div α] [LT α] [DecidableLT α] [LE α] [DecidableLE α]
  [OfNat α 0] [OfNat α 1] [OfNat α 2] [OfNat α 3] [OfNat α 10] [OfNat α 20] [OfNat α 1000]
  [NatCast α] [OctOps α]

/-- `np.arange(var1, var2)`: `var1 + k` for `k < ceil(var2 - var1)` -/
def arange (var1 var2 : α) : List α :=
  (List.range (OctOps.ceilNat (var2 - var1))).map fun (k : Nat) => var1 + (k : α)

/-- the untrimmed scale: `(F, factor)` -/
def octScale (n s e : α) (exact : Bool) (anchor : Option α) : List α × α :=
  if exact then
    let a : α := anchor.getD 1000
    let var1 := OctOps.floor (OctOps.log2 (s / a) * n)
    let var2 := OctOps.log2 (e / a) * n + 1
    ((arange var1 var2).map fun b => a * OctOps.pow 2 (b / n), OctOps.pow 2 (1 / (2 * n)))
  else
    let a : α := anchor.getD 1
    let var1 := OctOps.floor (OctOps.log10 (s / a) * 10 * n / 3)
    let var2 := OctOps.log10 (e / a) * 10 * n / 3 + 1
    ((arange var1 var2).map fun b => a * OctOps.pow 10 (3 * b / (10 * n)), OctOps.pow 10 (3 / (20 * n)))

/-- `max(nonzero(v <= e)) + 1`, `min(nonzero(w >= s))`; `none` = `ValueError` (empty) -/
def trimIdx (lo hi : List α) (s e : α) : Option (Nat × Nat) :=
  let idxHi := (List.range hi.length).filter fun i => match hi[i]? with
    | some v => decide (v ≤ e) | none => false
  let idxLo := (List.range lo.length).filter fun i => match lo[i]? with
    | some v => decide (s ≤ v) | none => false
  match idxHi.getLast?, idxLo.head? with
  | some a, some b => some (b, a + 1)
  | _, _ => none

/-- `get_freq_oct(n, (fr0, e), exact, trim, anchor)` → `(F, FL, FU)` -/
def getFreqOct (n fr0 e : α) (exact : Bool) (trim : Trim) (anchor : Option α) :
    Option (List α × List α × List α) :=
  let s : α := if 0 < fr0 then fr0 else 1
  let (F, factor) := octScale n s e exact anchor
  let FL := F.map (· / factor)
  let FU := F.map (· * factor)
  let r := match trim with
    | .outside => trimIdx FU FL s e
    | .center => trimIdx F F s e
    | .inside => trimIdx FL FU s e
  match r with
  | some (lo, hi) => some ((F.take hi).drop lo, (FL.take hi).drop lo, (FU.take hi).drop lo)
  | none => none

end PyYetiVerif.PsdOct
