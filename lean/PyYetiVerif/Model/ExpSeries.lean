/-!
# C07 — model of `pyyeti/expmint.py` (core Lean only, no Mathlib)

`E = exp(A h)`, `I1 = ∫₀ʰ exp(A t) dt = h·φ1(A h)`, `I2 = ∫₀ʰ t·exp(A t) dt = h²·φ2(A h)` with

    e(x) = Σ x^k / k!      φ1(x) = Σ x^k / (k+1)!      φ2(x) = Σ x^k / ((k+2)·k!)
    ψ(x) = Σ x^k / (k+2)!  ( = φ1 − φ2, the `Q` of the first-order hold )

* §1 the coefficient sequences over `Rat`;
* §2 Cauchy products, polynomials as `List Rat`, Padé defects `q·series − p` (the order
  conditions proved in `Props/C07.lean` on the *generated* tables);
* §3 exact integer / common-denominator matrices and the truncated Taylor sums `taylor`;
* §4 the exact-rational reference evaluator `expmRat`: scaling so that `‖A h / 2^s‖₁ ≤ 1/2`,
  exact truncated Taylor sums with a rigorous tail bound, then `s` doubling steps

      E(2h) = E(h)²,   I1(2h) = I1(h) + E(h)·I1(h),   I2(2h) = I2(h) + E(h)·(I2(h) + h·I1(h))

  on a dyadic grid `2^-B` with a rigorously propagated error bound (1-norm);
* §5 `getEPQ1` / `getEPQ_pow` formulas, the augmented matrix of `getEPQ2` and its blocks,
  `_procBhalf`; small dense `Rat` matrices (`RMat`, with exact inverse) for the SSModel driver.
-/
namespace PyYetiVerif.ExpSeries

/-! ## 1. coefficient sequences -/

def fact : Nat → Nat
  | 0 => 1
  | n + 1 => (n + 1) * fact n

/-- coefficient of `x^k` in `exp x` -/
def eCoef (k : Nat) : Rat := 1 / (fact k : Rat)
/-- coefficient of `x^k` in `φ1(x) = (e^x − 1)/x`;  `I1 = h·φ1(A h)` -/
def phi1Coef (k : Nat) : Rat := 1 / (fact (k + 1) : Rat)
/-- coefficient of `x^k` in `φ2`;  `I2 = h²·φ2(A h)` (docstring of `expmint`: `1/((k+2)·k!)`) -/
def phi2Coef (k : Nat) : Rat := 1 / (((k + 2 : Nat) : Rat) * (fact k : Rat))
/-- coefficient of `x^k` in `ψ = φ1 − φ2`;  `Q = I1 − I2/h = h·ψ(A h)` -/
def psiCoef (k : Nat) : Rat := 1 / (fact (k + 2) : Rat)

/-! ## 2. Cauchy products, polynomials, Padé -/

/-- `k`-th coefficient of the product of two power series -/
def cauchy (a b : Nat → Rat) (k : Nat) : Rat :=
  (List.range (k + 1)).foldr (fun i acc => a i * b (k - i) + acc) 0

/-- a polynomial is the list of its coefficients, constant term first -/
def polyCoef (p : List Rat) (k : Nat) : Rat := p.getD k 0

def polyAdd : List Rat → List Rat → List Rat
  | [], q => q
  | p, [] => p
  | a :: p, b :: q => (a + b) :: polyAdd p q

def polyScale (c : Rat) (p : List Rat) : List Rat := p.map (c * ·)

def polyMul : List Rat → List Rat → List Rat
  | [], _ => []
  | a :: p, q => polyAdd (polyScale a q) (0 :: polyMul p q)

/-- truncation modulo `x^n` -/
def polyTrunc (n : Nat) (p : List Rat) : List Rat := p.take n

/-- Horner evaluation -/
def polyEval (p : List Rat) (x : Rat) : Rat := p.foldr (fun c acc => c + x * acc) 0

/-- the rational function `p(x)/q(x)` the code evaluates with `solve(Q, P)` -/
def padeEval (p q : List Rat) (x : Rat) : Rat := polyEval p x / polyEval q x

/-- `k`-th coefficient of `q(x)·series(x) − p(x)`: the Padé order condition of order `n` says
that these vanish for `k < n` -/
def padeDefect (p q : List Rat) (series : Nat → Rat) (k : Nat) : Rat :=
  cauchy (polyCoef q) series k - polyCoef p k

/-- the exponential is evaluated as `(V + U)/(V − U)` (`_solve_P_Q(U, V)`), `U` the odd and `V`
the even part -/
def expNum (U V : List Rat) : List Rat := polyAdd V U
def expDen (U V : List Rat) : List Rat := polyAdd V (polyScale (-1) U)

def expDefect (U V : List Rat) (k : Nat) : Rat := padeDefect (expNum U V) (expDen U V) eCoef k

/-- the monomial shapes emitted by the translator: (power of the matrix, power of `2**-s`,
power of `h`).  A method is consistently scaled when every monomial of degree `d` carries
`(2**-s)^(d + hp)` and `h^hp`: then it is the same polynomial in `A·2**-s` with step `h·2**-s`. -/
def shapeOK (hp : Nat) (scaled : Bool) (sh : List (Nat × Nat × Nat)) : Bool :=
  sh.all fun (d, sg, hpow) => hpow == hp && sg == (if scaled then d + hp else 0)

/-! ## 3. exact matrices -/

abbrev IMat := Array (Array Int)

namespace IMat
def rows (m : IMat) : Nat := m.size
def cols (m : IMat) : Nat := (m.getD 0 #[]).size
def get (m : IMat) (i j : Nat) : Int := (m.getD i #[]).getD j 0
def ofFn (r c : Nat) (f : Nat → Nat → Int) : IMat :=
  Array.ofFn (n := r) fun i => Array.ofFn (n := c) fun j => f i.1 j.1
def ident (n : Nat) (d : Int := 1) : IMat := ofFn n n fun i j => if i = j then d else 0
def zero (r c : Nat) : IMat := ofFn r c fun _ _ => 0
def add (a b : IMat) : IMat := ofFn a.rows a.cols fun i j => a.get i j + b.get i j
def sub (a b : IMat) : IMat := ofFn a.rows a.cols fun i j => a.get i j - b.get i j
def scale (c : Int) (a : IMat) : IMat := a.map fun r => r.map (c * ·)
def mul (a b : IMat) : IMat :=
  let k := b.rows
  let c := b.cols
  a.map fun row => Array.ofFn (n := c) fun j =>
    (List.range k).foldl (fun acc l => acc + row.getD l 0 * b.get l j.1) 0
/-- `a[r0:r1, c0:c1]` -/
def block (a : IMat) (r0 r1 c0 c1 : Nat) : IMat :=
  ofFn (r1 - r0) (c1 - c0) fun i j => a.get (r0 + i) (c0 + j)
/-- largest absolute column sum -/
def norm1 (a : IMat) : Nat :=
  (List.range a.cols).foldl (fun m j =>
    max m ((List.range a.rows).foldl (fun s i => s + (a.get i j).natAbs) 0)) 0
def maxAbs (a : IMat) : Nat :=
  a.foldl (fun m r => r.foldl (fun m x => max m x.natAbs) m) 0
end IMat

/-- a rational matrix with one common denominator -/
structure QMat where
  num : IMat
  den : Nat
  deriving Inhabited

namespace QMat
def get (a : QMat) (i j : Nat) : Rat := mkRat (a.num.get i j) a.den
def ident (n : Nat) : QMat := ⟨IMat.ident n, 1⟩
def scalar (n : Nat) (c : Rat) : QMat := ⟨IMat.ident n c.num, c.den⟩
def ofRats (rows : List (List Rat)) : QMat :=
  let d := rows.foldl (fun d r => r.foldl (fun d x => Nat.lcm d x.den) d) 1
  ⟨(rows.map fun r => (r.map fun x => x.num * ((d / x.den : Nat) : Int)).toArray).toArray, d⟩
def toRats (a : QMat) : List (List Rat) :=
  a.num.toList.map fun r => r.toList.map fun x => mkRat x a.den
def mul (a b : QMat) : QMat := ⟨a.num.mul b.num, a.den * b.den⟩
def add (a b : QMat) : QMat :=
  if a.den = b.den then ⟨a.num.add b.num, a.den⟩
  else ⟨(a.num.scale b.den).add (b.num.scale a.den), a.den * b.den⟩
def neg (a : QMat) : QMat := ⟨a.num.scale (-1), a.den⟩
def sub (a b : QMat) : QMat := a.add b.neg
def smul (c : Rat) (a : QMat) : QMat := ⟨a.num.scale c.num, a.den * c.den⟩
def block (a : QMat) (r0 r1 c0 c1 : Nat) : QMat := ⟨a.num.block r0 r1 c0 c1, a.den⟩
def norm1 (a : QMat) : Rat := mkRat a.num.norm1 a.den
def rows (a : QMat) : Nat := a.num.rows
def cols (a : QMat) : Nat := a.num.cols
end QMat

/-- exact truncated series `Σ_{k<N} c_k X^k` (Horner; `X` square) -/
def taylor (X : QMat) (c : Nat → Rat) (N : Nat) : QMat :=
  let n := X.rows
  match N with
  | 0 => ⟨IMat.zero n n, 1⟩
  | N' + 1 =>
    (List.range N').foldl (fun S i =>
      let j := N' - 1 - i
      (QMat.scalar n (c j)).add (X.mul S)) (QMat.scalar n (c N'))

/-- for a non-increasing non-negative coefficient sequence and `0 ≤ θ < 1`:
`Σ_{k ≥ N} c_k θ^k ≤ c_N θ^N / (1 − θ)` -/
def tailBound (c : Nat → Rat) (θ : Rat) (N : Nat) : Rat := c N * θ ^ N / (1 - θ)

/-! ## 4. the reference evaluator -/

/-- round `a` to the grid `2^-B` (half-ulp rounding); the result stands for `· / 2^B` -/
def roundQ (B : Nat) (a : QMat) : IMat :=
  let d : Int := a.den
  a.num.map fun r => r.map fun x => Int.fdiv (2 * x * (2 : Int) ^ B + d) (2 * d)

/-- product of two grid matrices, rounded back to the grid -/
def fxMul (B : Nat) (a b : IMat) : IMat :=
  let half : Int := if B = 0 then 0 else (2 : Int) ^ (B - 1)
  (a.mul b).map fun r => r.map fun x => (x + half) >>> B

def fxToQ (B : Nat) (a : IMat) : QMat := ⟨a, 2 ^ B⟩

/-- upper bound rounded up to 64 bits beyond the grid, to keep the bound's size constant -/
def upRat (B : Nat) (x : Rat) : Rat :=
  let K := B + 64
  mkRat (-(Int.fdiv (-(x.num * (2 : Int) ^ K)) x.den)) (2 ^ K)

structure ExpState where
  E : IMat
  I1 : IMat
  I2 : IMat
  /-- rigorous bounds on the 1-norm of `E − exp`, `I1 − ∫`, `I2 − ∫t` -/
  eE : Rat
  e1 : Rat
  e2 : Rat
  h : Rat
  deriving Inhabited

def fxNorm (B : Nat) (a : IMat) : Rat := mkRat a.norm1 (2 ^ B)

/-- one doubling step `h → 2h` on the grid, with the error bounds propagated:
`Ê² − E² = Ê(Ê−E) + (Ê−E)E`, `ÊÎ − E I = Ê(Î−I) + (Ê−E) I`. -/
def doubleStep (B : Nat) (st : ExpState) : ExpState :=
  let n := st.E.rows
  let ρ : Rat := mkRat n (2 ^ (B + 1))          -- 1-norm of a half-ulp rounding error matrix
  let nE := fxNorm B st.E
  let n1 := fxNorm B st.I1
  let hI1 := roundQ B ((fxToQ B st.I1).smul st.h)
  let t := st.I2.add hI1
  let nt := fxNorm B t
  let et := st.e2 + st.h * st.e1 + ρ
  { E := fxMul B st.E st.E
    I1 := st.I1.add (fxMul B st.E st.I1)
    I2 := st.I2.add (fxMul B st.E t)
    eE := upRat B ((2 * nE + st.eE) * st.eE + ρ)
    e1 := upRat B (st.e1 + nE * st.e1 + st.eE * (n1 + st.e1) + ρ)
    e2 := upRat B (st.e2 + nE * et + st.eE * (nt + et) + ρ)
    h := 2 * st.h }

/-- number of halvings so that `‖X‖₁ / 2^s ≤ 1/2` -/
def scalingFor (nrm : Rat) : Nat :=
  let rec go (fuel : Nat) (x : Rat) (s : Nat) : Nat :=
    match fuel with
    | 0 => s
    | f + 1 => if x ≤ 1 / 2 then s else go f (x / 2) (s + 1)
  go 4096 nrm 0

structure ExpResult where
  st : ExpState
  s : Nat
  θ : Rat
  deriving Inhabited

/-- `exp(A h)`, `∫₀ʰ exp(A t) dt`, `∫₀ʰ t exp(A t) dt` for a rational matrix `A` and step `h > 0`:
`N` Taylor terms of the scaled matrix (exact), then `s` doubling steps on the grid `2^-B`.
Returned with rigorous 1-norm error bounds. -/
def expmRat (A : QMat) (h : Rat) (N B : Nat) : ExpResult :=
  let n := A.rows
  let X := A.smul h
  let s := scalingFor X.norm1
  let Y : QMat := ⟨X.num, X.den * 2 ^ s⟩
  let hs : Rat := h / (2 : Rat) ^ s
  let θ := Y.norm1
  let ρ : Rat := mkRat n (2 ^ (B + 1))
  let st0 : ExpState :=
    { E := roundQ B (taylor Y eCoef N)
      I1 := roundQ B ((taylor Y phi1Coef N).smul hs)
      I2 := roundQ B ((taylor Y phi2Coef N).smul (hs * hs))
      eE := upRat B (tailBound eCoef θ N + ρ)
      e1 := upRat B (hs * tailBound phi1Coef θ N + ρ)
      e2 := upRat B (hs * hs * tailBound phi2Coef θ N + ρ)
      h := hs }
  ⟨(List.range s).foldl (fun st _ => doubleStep B st) st0, s, θ⟩

/-- the exact (no rounding) variant used to test the grid version and for small inputs:
plain truncated Taylor sums of `A h` itself, `N` terms -/
def expmTaylorExact (A : QMat) (h : Rat) (N : Nat) : QMat × QMat × QMat :=
  let X := A.smul h
  (taylor X eCoef N, (taylor X phi1Coef N).smul h, (taylor X phi2Coef N).smul (h * h))

/-! ## 5. `getEPQ*`, `_procBhalf` -/

/-- `getEPQ1` / `getEPQ_pow`, order 1: `P = I2 / h`, `Q = I − P`; order 0: `P = I`, `Q = 0.0` -/
def epqOfIntegrals (order : Nat) (h : Rat) (I1 I2 : QMat) : QMat × Option QMat :=
  if order = 1 then
    let P := I2.smul (1 / h)
    (P, some (I1.sub P))
  else (I1, none)

def QMat.takeCols (a : QMat) (k : Nat) : QMat := a.block 0 a.rows 0 k

/-- `_procBhalf`: `B` given → right multiplication; else `half` → the first `n/2` columns
(`none` = the `ValueError` for odd `n`) -/
def procBhalf (P : QMat) (Q : Option QMat) (Bm : Option QMat) (half : Bool) :
    Option (QMat × Option QMat) :=
  match Bm with
  | some Bm => some (P.mul Bm, Q.map (·.mul Bm))
  | none =>
    if half then
      let n := P.cols
      if n % 2 = 1 then none
      else some (P.takeCols (n / 2), Q.map (·.takeCols (n / 2)))
    else some (P, Q)

/-- the input matrix `getEPQ2` uses when `B is None`: `eye(i)` occupying the first `i` rows -/
def epq2B (n : Nat) (Bm : Option QMat) (half : Bool) : Option QMat :=
  match Bm with
  | some Bm => some Bm
  | none =>
    if half then (if n % 2 = 1 then none else some ⟨IMat.ofFn n (n / 2) fun i j => if i = j then 1 else 0, 1⟩)
    else some (QMat.ident n)

/-- the augmented matrix of `getEPQ2` (already multiplied by the step where the code does):
order 1: `[[A h, B h, 0], [0, 0, I], [0, 0, 0]]`, order 0: `[[A h, B h], [0, 0]]` -/
def augmented (order : Nat) (A Bm : QMat) (h : Rat) : QMat :=
  let n := A.rows
  let i := Bm.cols
  let Ah := A.smul h
  let Bh := Bm.smul h
  let d := Ah.den * Bh.den
  let N := if order = 1 then n + 2 * i else n + i
  ⟨IMat.ofFn N N fun r c =>
      if r < n ∧ c < n then Ah.num.get r c * Bh.den
      else if r < n ∧ c < n + i then Bh.num.get r (c - n) * Ah.den
      else if order = 1 ∧ n ≤ r ∧ r < n + i ∧ c = r + i then d
      else 0, d⟩

/-- `E, P, Q` as the partitions of the exponential `EM` of the augmented matrix -/
def epq2Blocks (order n i : Nat) (EM : QMat) : QMat × QMat × Option QMat :=
  let E := EM.block 0 n 0 n
  if order = 1 then
    let Q := EM.block 0 n (n + i) (n + 2 * i)
    (E, (EM.block 0 n n (n + i)).sub Q, some Q)
  else (E, EM.block 0 n n (n + i), none)

/-! ### small dense `Rat` matrices with exact inverse (driver side of `Model/SSModel.lean`) -/

structure RMat (n : Nat) where
  a : Array (Array Rat)
  deriving Inhabited

namespace RMat
variable {n : Nat}
def get (m : RMat n) (i j : Nat) : Rat := (m.a.getD i #[]).getD j 0
def ofFn (f : Nat → Nat → Rat) : RMat n :=
  ⟨Array.ofFn (n := n) fun i => Array.ofFn (n := n) fun j => f i.1 j.1⟩
instance : Add (RMat n) := ⟨fun x y => ofFn fun i j => x.get i j + y.get i j⟩
instance : Sub (RMat n) := ⟨fun x y => ofFn fun i j => x.get i j - y.get i j⟩
instance : Mul (RMat n) := ⟨fun x y => ofFn fun i j =>
  (List.range n).foldl (fun acc l => acc + x.get i l * y.get l j) 0⟩
instance : OfNat (RMat n) 1 := ⟨ofFn fun i j => if i = j then 1 else 0⟩
instance : OfNat (RMat n) 0 := ⟨ofFn fun _ _ => 0⟩
def scalar (c : Rat) : RMat n := ofFn fun i j => if i = j then c else 0
def ofRows (rows : List (List Rat)) : RMat n := ofFn fun i j => (rows.getD i []).getD j 0
def toRows (m : RMat n) : List (List Rat) :=
  (List.range n).map fun i => (List.range n).map fun j => m.get i j

/-- Gauss–Jordan inverse over `Rat`; `none` for a singular matrix -/
def inv (m : RMat n) : Option (RMat n) := Id.run do
  let mut a : Array (Array Rat) :=
    Array.ofFn (n := n) fun i => Array.ofFn (n := 2 * n) fun j =>
      if j.1 < n then m.get i.1 j.1 else (if j.1 - n = i.1 then 1 else 0)
  for c in [0:n] do
    let mut p := n
    for r in [c:n] do
      if p = n ∧ (a.getD r #[]).getD c 0 ≠ 0 then p := r
    if p = n then return none
    let rp := a.getD p #[]
    let rc := a.getD c #[]
    a := (a.set! p rc).set! c rp
    let piv := rp.getD c 0
    let rown := rp.map (· / piv)
    a := a.set! c rown
    for r in [0:n] do
      if r ≠ c then
        let f := (a.getD r #[]).getD c 0
        if f ≠ 0 then
          let rr := a.getD r #[]
          a := a.set! r (Array.ofFn (n := 2 * n) fun j => rr.getD j.1 0 - f * rown.getD j.1 0)
  return some (ofFn fun i j => (a.getD i #[]).getD (n + j) 0)
end RMat

end PyYetiVerif.ExpSeries
