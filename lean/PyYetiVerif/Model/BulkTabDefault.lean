import PyYetiVerif.Model.BulkReal
/-!
C13: `bulk.wttabled1` with its DEFAULT pair format (`form == "{:16.9E}{:16.9E}"`, the code since fix 328435d of finding
F65).  Every abscissa / ordinate of the default case is formatted through `_dmig_field` (`'{:16.9E}'`, or `'{:16.8E}'`
when that is 17 characters) and the 16-character strings are handed to the unchanged `writer.vecwrite` / remainder loop
with the pair format `'{:s}{:s}'`.  A user-supplied `form` stays an opaque pair of fields (`tabled1Lines`).  Core Lean only.
-/
namespace PyYetiVerif.Bulk
open PyYetiVerif.PyFloat (Dbl)

/-- the pair fields of the default case: `_dmig_field(t[j])`, `_dmig_field(d[j])` -/
def tabDefaultPairs (tab : List (Dbl × Dbl)) : List (Txt × Txt) :=
  tab.map fun p => (dmigFld 'E' p.1, dmigFld 'E' p.2)

/-- HISTORY (finding F65): the pair fields of the default case before fix 328435d, `'{:16.9E}{:16.9E}'.format(t[j], d[j])` -/
def tabPairsBeforeFix (tab : List (Dbl × Dbl)) : List (Txt × Txt) :=
  tab.map fun p => (pyE 16 9 'E' p.1, pyE 16 9 'E' p.2)

/-- `wttabled1(f, tid, t, d)` (title omitted, default `form`) -/
def tabled1LinesDefault (name : Txt) (tid : Int) (tab : List (Dbl × Dbl)) : List Txt :=
  tabled1Lines true name tid (tabDefaultPairs tab)

end PyYetiVerif.Bulk
