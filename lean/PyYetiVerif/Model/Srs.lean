/-
Model of pyyeti/srs.py: the six ramp-invariant coefficient functions (hand-written, same
expression order as the source; `Generated/SrsCoef.lean` is the machine translation of the source
and `Props/C03.lean` proves the two equal), `scipy.signal.lfilter` for a filter of order <= 2
(transposed direct form II, zero initial state, a[0] = 1), `_process_ic`, `_add_one_cycle`, the
window selection, the six peak selectors, the steady-state add-back and `eqsine` scaling of
`srs.srs(..., rolloff='none', parallel='no')`, and the closed-form exact response of the damped
oscillator  u'' + 2 zeta wn u' + wn^2 u = -x(t)  to a linearly interpolated input.

Core Lean only (no Mathlib): every definition is polymorphic over operation classes, is run at
`Float` by `Drivers/C03.lean` and is reasoned about at `ℝ` in `Lemmas/Srs.lean`, `Props/C03.lean`.
-/
namespace PyYetiVerif.Srs

/-- transcendental and conversion operations the formulas need -/
class TransOps (α : Type) where
  exp : α → α
  cos : α → α
  sin : α → α
  sqrt : α → α
  pi : α
  natCeil : α → Nat
  ofNat : Nat → α

instance : TransOps Float where
  exp := Float.exp
  cos := Float.cos
  sin := Float.sin
  sqrt := Float.sqrt
  pi := 3.141592653589793
  natCeil x := x.ceil.toUInt64.toNat
  ofNat := Float.ofNat

/-- `(b, a)` as returned by the coefficient functions -/
structure Coef (α : Type) where
  b : List α
  a : List α

open TransOps

section coef
variable {α : Type} [Add α] [Sub α] [Mul α] [Div α] [Neg α] [BEq α]
  [OfNat α 0] [OfNat α 1] [OfNat α 2] [OfNat α 4] [OfNat α 6] [TransOps α]

/-! ### coefficient functions (srs.py:125-278) -/

def absacce (Q dT wn : α) : Coef α :=
  if wn == 0 then
    let zeta := 1 / 2 / Q
    let sqz := sqrt (1 - zeta * zeta)
    let wd := wn * sqz
    let E := exp (-zeta * wn * dT)
    let E2 := E * E
    let B := dT * wd
    let C := E * cos B
    ⟨[0, 0, 0], [1, -2 * C, E2]⟩
  else
    let zeta := 1 / 2 / Q
    let sqz := sqrt (1 - zeta * zeta)
    let wd := wn * sqz
    let E := exp (-zeta * wn * dT)
    let E2 := E * E
    let B := dT * wd
    let C := E * cos B
    let S := E * sin B
    let Sb := S / B
    let beta0 := 1 - Sb
    let beta1 := 2 * (Sb - C)
    let beta2 := E2 - Sb
    ⟨[beta0, beta1, beta2], [1, -2 * C, E2]⟩

def relacce (Q dT wn : α) : Coef α :=
  if wn == 0 then
    let zeta := 1 / 2 / Q
    let sqz := sqrt (1 - zeta * zeta)
    let wd := wn * sqz
    let E := exp (-zeta * wn * dT)
    let E2 := E * E
    let B := dT * wd
    let C := E * cos B
    ⟨[-1, 2, -1], [1, -2 * C, E2]⟩
  else
    let zeta := 1 / 2 / Q
    let sqz := sqrt (1 - zeta * zeta)
    let wd := wn * sqz
    let E := exp (-zeta * wn * dT)
    let E2 := E * E
    let B := dT * wd
    let C := E * cos B
    let g := E * sin B / B
    ⟨[-1 * g, 2 * g, -1 * g], [1, -2 * C, E2]⟩

def reldisp (Q dT wn : α) : Coef α :=
  if wn == 0 then
    let zeta := 1 / 2 / Q
    let E := exp (-zeta * wn * dT)
    let E2 := E * E
    let sqz := sqrt (1 - zeta * zeta)
    let wd := wn * sqz
    let B := dT * wd
    let C := E * cos B
    ⟨[-1 * (dT * dT) / 6, -4 * (dT * dT) / 6, -1 * (dT * dT) / 6], [1, -2 * C, E2]⟩
  else
    let zeta := 1 / 2 / Q
    let E := exp (-zeta * wn * dT)
    let E2 := E * E
    let sqz := sqrt (1 - zeta * zeta)
    let wd := wn * sqz
    let B := dT * wd
    let C := E * cos B
    let S := E * sin B
    let f := dT * wn * wn * wn
    let q := (2 * zeta * zeta - 1) / sqz
    let beta0 := ((1 - C) / Q - q * S - wn * dT) / f
    let beta1 := (2 * C * wn * dT - (1 - E2) / Q + 2 * q * S) / f
    let beta2 := (-E2 * (wn * dT + 1 / Q) + C / Q - q * S) / f
    ⟨[beta0, beta1, beta2], [1, -2 * C, E2]⟩

def pvelo (Q dT wn : α) : Coef α :=
  if wn == 0 then
    let zeta := 1 / 2 / Q
    let sqz := sqrt (1 - zeta * zeta)
    let wd := wn * sqz
    let E := exp (-zeta * wn * dT)
    let E2 := E * E
    let B := dT * wd
    let C := E * cos B
    ⟨[0, 0, 0], [1, -2 * C, E2]⟩
  else
    let zeta := 1 / 2 / Q
    let sqz := sqrt (1 - zeta * zeta)
    let wd := wn * sqz
    let E := exp (-zeta * wn * dT)
    let E2 := E * E
    let B := dT * wd
    let C := E * cos B
    let S := E * sin B
    let f := dT * wn * wn
    let q := (2 * zeta * zeta - 1) / sqz
    let beta0 := ((1 - C) / Q - q * S - wn * dT) / f
    let beta1 := (2 * C * wn * dT - (1 - E2) / Q + 2 * q * S) / f
    let beta2 := (-E2 * (wn * dT + 1 / Q) + C / Q - q * S) / f
    ⟨[beta0, beta1, beta2], [1, -2 * C, E2]⟩

def pacce (Q dT wn : α) : Coef α :=
  if wn == 0 then
    let zeta := 1 / 2 / Q
    let sqz := sqrt (1 - zeta * zeta)
    let wd := wn * sqz
    let E := exp (-zeta * wn * dT)
    let E2 := E * E
    let B := dT * wd
    let C := E * cos B
    ⟨[0, 0, 0], [1, -2 * C, E2]⟩
  else
    let zeta := 1 / 2 / Q
    let sqz := sqrt (1 - zeta * zeta)
    let wd := wn * sqz
    let E := exp (-zeta * wn * dT)
    let E2 := E * E
    let B := dT * wd
    let C := E * cos B
    let S := E * sin B
    let f := dT * wn
    let q := (2 * zeta * zeta - 1) / sqz
    let beta0 := ((1 - C) / Q - q * S - wn * dT) / f
    let beta1 := (2 * C * wn * dT - (1 - E2) / Q + 2 * q * S) / f
    let beta2 := (-E2 * (wn * dT + 1 / Q) + C / Q - q * S) / f
    ⟨[beta0, beta1, beta2], [1, -2 * C, E2]⟩

def relvelo (Q dT wn : α) : Coef α :=
  if wn == 0 then
    ⟨[-1 * dT / 2, -1 * dT / 2], [1, -1]⟩
  else
    let zeta := 1 / 2 / Q
    let sqz := sqrt (1 - zeta * zeta)
    let wd := wn * sqz
    let E := exp (-zeta * wn * dT)
    let E2 := E * E
    let B := dT * wd
    let C := E * cos B
    let S := E * sin B
    let Sz := S * zeta / sqz
    let f := dT * wn * wn
    let beta0 := (C + Sz - 1) / f
    let beta1 := (1 - E2 - 2 * Sz) / f
    let beta2 := (E2 + Sz - C) / f
    ⟨[beta0, beta1, beta2], [1, -2 * C, E2]⟩

inductive SType | absacce | relacce | reldisp | relvelo | pvelo | pacce
deriving DecidableEq, Repr

def SType.coef : SType → α → α → α → Coef α
  | .absacce => Srs.absacce
  | .relacce => Srs.relacce
  | .reldisp => Srs.reldisp
  | .relvelo => Srs.relvelo
  | .pvelo => Srs.pvelo
  | .pacce => Srs.pacce

/-! ### scipy.signal.lfilter, order <= 2, a[0] = 1, zero initial state
(transposed direct form II, the recursion of scipy's `*_filt` C loop) -/

/-- `i`-th coefficient, a shorter vector being padded with zeros (as lfilter does) -/
def coefAt (l : List α) (i : Nat) : α := match l[i]? with | some v => v | none => 0

def lfilterAux (b0 b1 b2 a1 a2 : α) : α → α → List α → List α
  | _, _, [] => []
  | z0, z1, x :: xs =>
      let y := z0 + b0 * x
      y :: lfilterAux b0 b1 b2 a1 a2 (z1 + x * b1 - y * a1) (x * b2 - y * a2) xs

def lfilter (c : Coef α) (xs : List α) : List α :=
  lfilterAux (coefAt c.b 0) (coefAt c.b 1) (coefAt c.b 2) (coefAt c.a 1) (coefAt c.a 2) 0 0 xs

/-! ### exact oscillator response to the linearly interpolated input

`u'' + 2 zeta wn u' + wn^2 u = -(x0 + (x1 - x0) t / dT)` on `0 <= t <= dT`, `u(0) = u0`,
`u'(0) = v0`.  `uAt`/`vAt` are the closed-form solution and its derivative
(`Props/C03.exact_solves_ode`). -/

structure Osc (α : Type) where
  zeta : α
  wn : α
  dT : α

def Osc.ofQ (Q dT wn : α) : Osc α := ⟨1 / 2 / Q, wn, dT⟩

def Osc.wd (o : Osc α) : α := o.wn * sqrt (1 - o.zeta * o.zeta)

/-- particular solution `al + be t` and the homogeneous amplitudes `k1, k2` -/
def Osc.be (o : Osc α) (x0 x1 : α) : α := -((x1 - x0) / o.dT) / (o.wn * o.wn)
def Osc.al (o : Osc α) (x0 x1 : α) : α := (-x0 - 2 * (o.zeta * o.wn) * o.be x0 x1) / (o.wn * o.wn)
def Osc.k1 (o : Osc α) (u0 x0 x1 : α) : α := u0 - o.al x0 x1
def Osc.k2 (o : Osc α) (u0 v0 x0 x1 : α) : α :=
  (v0 - o.be x0 x1 + o.zeta * o.wn * o.k1 u0 x0 x1) / o.wd

def Osc.uAt (o : Osc α) (u0 v0 x0 x1 t : α) : α :=
  exp (-o.zeta * o.wn * t) * (o.k1 u0 x0 x1 * cos (t * o.wd) + o.k2 u0 v0 x0 x1 * sin (t * o.wd))
    + o.al x0 x1 + o.be x0 x1 * t

def Osc.vAt (o : Osc α) (u0 v0 x0 x1 t : α) : α :=
  exp (-o.zeta * o.wn * t) *
      ((o.wd * o.k2 u0 v0 x0 x1 - o.zeta * o.wn * o.k1 u0 x0 x1) * cos (t * o.wd)
        - (o.zeta * o.wn * o.k2 u0 v0 x0 x1 + o.wd * o.k1 u0 x0 x1) * sin (t * o.wd))
    + o.be x0 x1

/-- states `(u, v)` at the sample instants: at rest one sample before the record, the input
ramping up from zero (`ic = 'zero'`) -/
def Osc.statesAux (o : Osc α) : α → α → α → List α → List (α × α × α)
  | _, _, _, [] => []
  | u, v, x, x' :: xs =>
      let u' := o.uAt u v x x' o.dT
      let v' := o.vAt u v x x' o.dT
      (u', v', x') :: o.statesAux u' v' x' xs

def Osc.states (o : Osc α) (xs : List α) : List (α × α × α) := o.statesAux 0 0 0 xs

/-- the response quantity of each `stype` as a function of the state `(u, v)` and the input -/
def SType.out (o : Osc α) : SType → (α × α × α) → α
  | .reldisp, (u, _, _) => u
  | .relvelo, (_, v, _) => v
  | .pvelo, (u, _, _) => o.wn * u
  | .pacce, (u, _, _) => o.wn * o.wn * u
  | .absacce, (u, v, _) => -(2 * (o.zeta * o.wn)) * v - o.wn * o.wn * u
  | .relacce, (u, v, x) => -(2 * (o.zeta * o.wn)) * v - o.wn * o.wn * u - x

def exactResp (st : SType) (Q dT wn : α) (xs : List α) : List α :=
  ((Osc.ofQ Q dT wn).states xs).map (st.out (Osc.ofQ Q dT wn))

end coef

/-! ### srs.srs pipeline for one signal column and one frequency -/

inductive Ic | zero | shift | mshift | steady
deriving DecidableEq, Repr
inductive Peak | abs | pos | poss | neg | negs | rms
deriving DecidableEq, Repr
inductive Time | primary | total | residual
deriving DecidableEq, Repr

section pipe
variable {α : Type} [Add α] [Sub α] [Mul α] [Div α] [Neg α] [BEq α] [LT α] [DecidableLT α]
  [OfNat α 0] [OfNat α 1] [OfNat α 2] [OfNat α 4] [OfNat α 6] [TransOps α]

def sum (xs : List α) : α := xs.foldl (· + ·) 0
def mean (xs : List α) : α := sum xs / ofNat xs.length

def maxOf (x : α) (xs : List α) : α := xs.foldl (fun m v => if m < v then v else m) x
def minOf (x : α) (xs : List α) : α := xs.foldl (fun m v => if v < m then v else m) x
def absv (x : α) : α := if x < 0 then -x else x

/-- `_absmeth … _rmsmeth` on a non-empty window `x :: xs` -/
def Peak.sel : Peak → α → List α → α
  | .abs, x, xs => maxOf (absv x) (xs.map absv)
  | .pos, x, xs => absv (maxOf x xs)
  | .poss, x, xs => maxOf x xs
  | .neg, x, xs => absv (minOf x xs)
  | .negs, x, xs => minOf x xs
  | .rms, x, xs => sqrt (mean ((x :: xs).map fun v => v * v))

/-- `_process_ic`: (shifted signal, s1, steady-state value to add back in acceleration units) -/
def processIc (ic : Ic) (st : SType) (s1 : α) (sig : List α) : List α × Option α :=
  match ic with
  | .zero => (sig, none)
  | .shift => (sig.map (· - s1), none)
  | .mshift => let m := mean sig; (sig.map (· - m), none)
  | .steady =>
      (sig.map (· - s1),
        match st with
        | .absacce => some s1
        | .relacce | .relvelo => none
        | _ => some (-s1))

/-- smallest strictly positive frequency -/
def minPos : List α → Option α
  | [] => none
  | f :: fs => match minPos fs with
      | none => if 0 < f then some f else none
      | some m => if 0 < f then (if f < m then some f else some m) else some m

/-- `_add_one_cycle`: number of appended samples -/
def nzeros (sr : α) (freqs : List α) : Nat :=
  match minPos freqs with
  | none => 0
  | some minf => natCeil (sr / minf)

def addOneCycle (ic : Ic) (s1 : α) (nz : Nat) (sig : List α) : List α :=
  sig ++ List.replicate nz (if ic = .steady then 0 - s1 else 0)

/-- add-back of the steady-state value per stype (the `doic` branch of `srs`) -/
def addBack (st : SType) (wn : α) (icv : Option α) (resp : List α) : List α :=
  match icv with
  | none => resp
  | some v =>
      match st with
      | .reldisp => resp.map (· + v / (wn * wn))
      | .pvelo => resp.map (· + v / wn)
      | _ => resp.map (· + v)

structure Opts where
  st : SType
  ic : Ic
  peak : Peak
  time : Time
  eqsine : Bool

/-- everything after `_process_ic` and the optional roll-off resampling: `sg` is the shifted
(and possibly resampled) column, `sr` the (possibly increased) sample rate, `s1` the first sample
of the original column, `icv` the steady-state value. `none` where the code raises (empty
window: `max` of an empty array). -/
def srsTail (o : Opts) (Q sr : α) (freqs : List α) (f s1 : α) (icv : Option α) (sg : List α) :
    Option (List α × α) :=
  let M := sg.length
  let sg := if o.time = .primary then sg else addOneCycle o.ic s1 (nzeros sr freqs) sg
  let wn := 2 * pi * f
  let resp := addBack o.st wn icv (lfilter (o.st.coef Q (1 / sr) wn) sg)
  let win := if o.time = .residual then resp.drop M else resp
  match win with
  | [] => none
  | y :: ys =>
    let pk := o.peak.sel y ys
    if o.eqsine then some (win.map (· / Q), pk / Q) else some (win, pk)

/-- history (`resp['hist'][:, col, j]`) and spectrum value (`sh[j, col]`) for one column `sig`,
one frequency `f` of the frequency vector `freqs`, `rolloff='none'`; `none` where the code raises
(empty signal: `sig[0]`; empty window). -/
def srsCol (o : Opts) (Q sr : α) (freqs : List α) (f : α) (sig : List α) : Option (List α × α) :=
  match sig with
  | [] => none
  | s1 :: _ =>
    srsTail o Q sr freqs f s1 (processIc o.ic o.st s1 sig).2 (processIc o.ic o.st s1 sig).1

/-- all columns, all frequencies: `sh[j][col]`, column-wise by construction -/
def srsAll (o : Opts) (Q sr : α) (freqs : List α) (cols : List (List α)) :
    List (List (Option (List α × α))) :=
  freqs.map fun f => cols.map fun sig => srsCol o Q sr freqs f sig

end pipe

/-! ### srs.vrs: area weights ("delta_f for area calculation") and the SDOF transmissibility -/
section vrs
variable {α : Type} [Add α] [Sub α] [Mul α] [Div α] [OfNat α 0] [OfNat α 1] [OfNat α 2] [TransOps α]

/-- `Σ_{i>=1} df_i g_i` given the previous grid point `p` and the current point `(c, gc)`:
interior `df_i = (f_{i+1} - f_{i-1}) / 2`, last `df = f_last - f_{last-1}` -/
def vrsInner : α → α → α → List (α × α) → α
  | p, c, gc, [] => (c - p) * gc
  | p, c, gc, (n, gn) :: rest => (n - p) / 2 * gc + vrsInner c n gn rest

/-- `np.sum(df * g)` with the code's `df` (`df[0] = f_1 - f_0`); `none` for fewer than two grid
points (the code raises IndexError) -/
def vrsSum : List (α × α) → Option α
  | (f0, g0) :: (f1, g1) :: rest => some ((f1 - f0) * g0 + vrsInner f0 f1 g1 rest)
  | _ => none

/-- `(1 + (2ζp)²) / ((1 - p²)² + (2ζp)²)`, `p = f / fn` -/
def vrsGain (zeta fn f : α) : α :=
  let p := f / fn
  let p2z2 := (2 * zeta * p) * (2 * zeta * p)
  (1 + p2z2) / ((1 - p * p) * (1 - p * p) + p2z2)

/-- `z_vrs` for one oscillator `fn` over the grid points `(freq_i, psd_i)` -/
def vrsOne (Q fn : α) (pts : List (α × α)) : Option α :=
  (vrsSum (pts.map fun fs => (fs.1, vrsGain (1 / 2 / Q) fn fs.1 * fs.2))).map TransOps.sqrt

/-- the trapezoid rule on the points `(f_i, g_i)` -/
def trapz : List (α × α) → α
  | (f0, g0) :: (f1, g1) :: rest => (f1 - f0) * (g0 + g1) / 2 + trapz ((f1, g1) :: rest)
  | _ => 0

/-- half of the last cell times the last ordinate -/
def endHalf : α → α → α → List (α × α) → α
  | p, c, gc, [] => (c - p) / 2 * gc
  | _, c, _, (n, gn) :: rest => endHalf c n gn rest

end vrs
end PyYetiVerif.Srs
