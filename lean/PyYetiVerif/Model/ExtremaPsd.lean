import PyYetiVerif.Model.Extrema
/-!
# Executable model of the PSD recovery bookkeeping (core Lean only)

Source modelled: `cla/dr_results.py`

* `DR_Results.solvepsd`, the accumulation of the response PSD of one category over the forces:
  `_psd[case] = 0.0`, then for force `i`: `_psd[case] += forcepsd[i] * abs(resp_i) ** 2`
  (`resp_i` = unit-force frequency response recovered by the category's `drfunc`); the frequency
  vector of the first case is kept, a later case with another one is refused;
* `DR_Results.psd_data_recovery`: `_calc_rms` (`sqrt((df * (p[:-1] + p[1:])).sum() / 2)`), the
  "velocity" rms on `freq**2 * psd`, `pk = peak_factor * rms`, `pk_freq = vrms / rms`,
  `mm.ext = [pk, -pk]`, `mm.ext_x = [pk_freq, pk_freq]`, then `extrema` / `_store_maxmin`
  (`_compute_srs(res, dr, psd, "psd", freq, j, first, pf=pf)`: `fact = srsconv * pf`, `/ Q` for
  `eqsine`, times `srs.vrs((freq, psd[srspv].T), freq, Q, Fn=srsfrq, linear=True)`; the spectrum
  itself is C03's model `Srs.vrsOne`, which the driver runs at `Float`; the envelope over the cases is
  `np.fmax`, `Extrema.srsEnv`).

One row of one category; polymorphic over the scalar type: theorems at a field with a square-root
function (`Props/C16Psd.lean`), the driver runs the numeric part at `Float` and the compare-and-move
part on the order keys of the implementation's own per-case peaks (`Int`).
-/
namespace PyYetiVerif.ExtremaPsd
open PyYetiVerif.Extrema

section acc
variable {α : Type} [Add α] [Mul α] [Zero α]

/-- `abs(resp) ** 2` of a complex response `re + i·im` -/
def mag2 (re im : α) : α := re * re + im * im

/-- one (row, frequency) of `_psd[case]` after the loop over the forces; an entry is
`(forcepsd[i, f], re resp_i[row, f], im resp_i[row, f])` -/
def psdAcc (forces : List (α × α × α)) : α :=
  forces.foldl (fun acc p => acc + p.1 * mag2 p.2.1 p.2.2) 0

/-- one row of `_psd[case]`: `forces` holds, per force, the force PSD over the frequencies and the
response of this row over the frequencies -/
def psdRowAcc (nf : Nat) (forces : List (List α × List (α × α))) : List α :=
  forces.foldl (fun acc p =>
    List.zipWith (· + ·) acc (List.zipWith (fun F h => F * mag2 h.1 h.2) p.1 p.2))
    (List.replicate nf 0)

end acc

section rms
variable {α : Type} [Add α] [Sub α] [Mul α] [Div α] [Zero α] [OfNat α 2]

/-- `np.diff(freq)` -/
def diffs (f : List α) : List α := List.zipWith (fun a b => b - a) f.dropLast f.tail

/-- `(df * (p[:-1] + p[1:])).sum()` -/
def area2 (f p : List α) : α :=
  (List.zipWith (· * ·) (diffs f) (List.zipWith (· + ·) p.dropLast p.tail)).sum

/-- `_calc_rms(np.diff(freq), p)` -/
def calcRms (sqrt : α → α) (f p : List α) : α := sqrt (area2 f p / 2)

/-- `freq**2 * psd` -/
def velPsd (f p : List α) : List α := List.zipWith (fun f p => f * f * p) f p

/-- what `psd_data_recovery` derives from one row of the response PSD -/
structure Peak (α : Type) where
  rms : α
  pk : α
  pkFreq : α
deriving Repr

def peakOf (sqrt : α → α) (peakFactor : α) (f p : List α) : Peak α :=
  let rms := calcRms sqrt f p
  let vrms := calcRms sqrt f (velPsd f p)
  ⟨rms, peakFactor * rms, vrms / rms⟩

end rms

section pipeline
variable {α X L : Type} [LT α] [DecidableLT α] [Neg α]

/-- `psd_data_recovery` for one row over the cases: `mm = ([pk, -pk], [pk_freq, pk_freq])`, then
`extrema(res, mm, case)`; returns the running extreme and the per-case `mm`s -/
def psdRow (cases : List (L × Option α × X)) :
    Option (Cur α X L) × List (Tr α X L × Tr α X L) :=
  cases.foldl (fun st c =>
    let hi : Tr α X L := ⟨c.2.1, c.2.2, c.1⟩
    (some (upd2 st.1 (hi, negTr hi)), st.2 ++ [(hi, negTr hi)])) (none, [])

end pipeline

section srs
variable {α : Type} [Mul α] [Div α]

/-- `_compute_srs`, `respname == "psd"`: one value of `srs_cur` from the vibration response spectrum
value `vrs`: `fact = dr.srsconv`, `fact *= pf`, `fact /= q` for `eqsine`, `srs_cur = fact * vrs` -/
def psdSrsCase (conv pf q : α) (eqsine : Bool) (vrs : α) : α :=
  (if eqsine then conv * pf / q else conv * pf) * vrs

end srs

/-- `res.srs.ext[q]` at one (SRS row, oscillator frequency) after the cases in call order; `spec c`
is the value of `srs_cur` for case `c` (`none` = NaN); the outer `none` = no case recovered yet -/
def psdSrsEnv {α P : Type} [LT α] [DecidableLT α] (spec : P → Option α) : List P → Option (Option α)
  | [] => none
  | c :: cs => some (srsEnv (spec c) (cs.map spec))

/-- `solvepsd`'s frequency bookkeeping: the first case stores `freq`, a later case must bring the
same vector (`np.allclose`; the harness only sends identical or clearly different vectors);
`none` = `ValueError` -/
def freqStore {α : Type} [DecidableEq α] (stored : Option (List α)) (freq : List α) :
    Option (List α) :=
  match stored with
  | none => some freq
  | some f => if f = freq then some f else none

end PyYetiVerif.ExtremaPsd
