/-!
Names of the Nastran DOF sets known to `pyyeti.nastran.n2p.mkusetmask` (hand-written; the
generated table `Generated/UsetMask.lean` is a function on this type, so a dict whose keys differ
from these constructors does not compile).  Core Lean only.
-/
namespace PyYetiVerif.Uset

inductive SetName
  | m | s | o | q | r | c | b | e
  | a | l | t | f | n | g | p | fe | d | ne
  | u1 | u2 | u3 | u4 | u5 | u6
deriving DecidableEq, Repr

namespace SetName

/-- the key string used by the Python dict -/
def toString : SetName → String
  | m => "m" | s => "s" | o => "o" | q => "q" | r => "r" | c => "c" | b => "b" | e => "e"
  | a => "a" | l => "l" | t => "t" | f => "f" | n => "n" | g => "g" | p => "p"
  | fe => "fe" | d => "d" | ne => "ne"
  | u1 => "u1" | u2 => "u2" | u3 => "u3" | u4 => "u4" | u5 => "u5" | u6 => "u6"

def all : List SetName :=
  [m, s, o, q, r, c, b, e, a, l, t, f, n, g, p, fe, d, ne, u1, u2, u3, u4, u5, u6]

def ofString? (x : String) : Option SetName := all.find? (fun k => k.toString == x)

end SetName
end PyYetiVerif.Uset
