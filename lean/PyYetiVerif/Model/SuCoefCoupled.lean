import PyYetiVerif.Model.SuCoef
/-!
Model of the coupled (complex-eigenvalue) path of `SolveUnc` and of the `SolveExp2` recurrence
(C01).  Core Lean only.

Sources transcribed (pyyeti/ode):
  solveunc.py  get_su_eig / _add_partition_copies -> `Eig` (the record `pc`: `lam`, `ur_v = ur[:ksize]`,
                                          `ur_d = ur[ksize:]`, `ur_inv_v = ur_inv[:, :ksize]`,
                                          `ur_inv_d = ur_inv[:, ksize:]`)
               _get_complex_su_coefs   -> `coefSel` (the `abs(lam) < 5e-5` branch selects `cplxSmall`)
               _solve_complex_unc      -> `modalForce` (`w = ur_inv_v @ imf`), `modalInit`
                                          (`ur_inv_v @ v0 + ur_inv_d @ d0`), `stepModal`, `runModal`
                                          (`y[:, i+1] = Fe*y[:, i] + Ae*w[:, i] + Be*w[:, i+1]`),
                                          `recoverReal` (`rur_d @ ry - iur_d @ iy`), `recoverCplx`
                                          (`ur_d @ y`), `coupledRun`
  solveexp2.py tsolve                  -> `expStep`, `runExp`
                                          (`D' = E_dd d + E_dv v + PQF_d`, `V' = E_vd d + E_vv v + PQF_v`,
                                          `PQF = P @ imf[:, i] + Q @ imf[:, i+1]`, order 0: `P @ imf[:, i]`)
The eigen-decomposition (`scipy.linalg.eig`, `inv`) and `E, P, Q` (`expmint.getEPQ`) are INPUTS of
these definitions: the theorems of `Props/C01Coupled.lean`, `Props/C01Exp.lean` state what they must
satisfy, the correspondence check feeds the implementation's own values.

Vectors are functions on `Fin n`; sums run in index order (`List.ofFn … |>.sum`).
-/
namespace PyYetiVerif.SuCoef

/-- `ndarray.real`, `ndarray.imag` and the embedding of the reals into the complex numbers -/
class CplxOps (C R : Type) where
  re : C → R
  im : C → R
  ofReal : R → C

/-- a vector evaluated once and kept as an array (a numpy array instead of a closure).
`(Memo.ofFn f).get = f` (`Lemmas/SuCoefCoupled.Memo.get_ofFn`): used only by the loops `runModal`,
`runExp` so that they run in linear time. -/
structure Memo (α : Type) (n : Nat) where
  arr : Array α
  size_eq : arr.size = n

def Memo.ofFn {α : Type} {n : Nat} (f : Fin n → α) : Memo α n := ⟨Array.ofFn f, Array.size_ofFn⟩

def Memo.get {α : Type} {n : Nat} (m : Memo α n) (i : Fin n) : α :=
  m.arr[i.val]'(by rw [m.size_eq]; exact i.isLt)

section linalg
variable {α : Type} [Add α] [Mul α] [Zero α]

/-- one row of `a @ x` -/
def dotFin {n : Nat} (a x : Fin n → α) : α := (List.ofFn fun k => a k * x k).sum

/-- `M @ x` -/
def matVec {m n : Nat} (M : Fin m → Fin n → α) (x : Fin n → α) : Fin m → α := fun j => dotFin (M j) x

end linalg

/-- the members of `pc` used by `_solve_complex_unc`: `n = ksize` equations, `N` modal coordinates
(`N = 2n` before `delconj`, fewer after it) -/
structure Eig (C : Type) (n N : Nat) where
  lam  : Fin N → C
  urV  : Fin n → Fin N → C   -- `pc.ur_v = ur[:ksize]`
  urD  : Fin n → Fin N → C   -- `pc.ur_d = ur[ksize:]`
  invV : Fin N → Fin n → C   -- `pc.ur_inv_v = ur_inv[:, :ksize]`
  invD : Fin N → Fin n → C   -- `pc.ur_inv_d = ur_inv[:, ksize:]`

section coupled
variable {C R : Type} [Add C] [Sub C] [Mul C] [Div C] [Neg C] [Zero C]
  [OfNat C 0] [OfNat C 1] [OfNat C 2] [OfNat C 3] [TransOps C]
  [Add R] [Sub R] [Mul R] [Zero R] [CplxOps C R]

/-- `_get_complex_su_coefs` for one eigenvalue; `isSmall lam` is `abs(lam) < 5.0e-5` -/
def coefSel (isSmall : C → Bool) (lam h : C) : C × C × C :=
  if isSmall lam then cplxSmall h else cplxCoef lam h

variable {n N : Nat}

/-- `w = ur_inv_v @ imf` for one force sample (`imf = inv(m) force[kdof]`) -/
def modalForce (e : Eig C n N) (imf : Fin n → C) : Fin N → C := matVec e.invV imf

/-- `y[:, 0] = ur_inv_v @ v[kdof, 0] + ur_inv_d @ d[kdof, 0]` -/
def modalInit (e : Eig C n N) (d0 v0 : Fin n → C) : Fin N → C :=
  fun k => dotFin (e.invV k) v0 + dotFin (e.invD k) d0

/-- one step of the modal recurrence, all modes -/
def stepModal (order1 : Bool) (c : Fin N → C × C × C) (y w0 w1 : Fin N → C) : Fin N → C :=
  fun k => stepCplx order1 (c k) (y k) (w0 k) (w1 k)

/-- the modal loop: one `y` per force sample -/
def runModal (order1 : Bool) (c : Fin N → C × C × C) (y : Fin N → C) : List (Fin N → C) → List (Fin N → C)
  | [] => []
  | [_] => [y]
  | w0 :: w1 :: ws =>
    let m := Memo.ofFn (stepModal order1 c y w0 w1)
    y :: runModal order1 c m.get (w1 :: ws)

/-- complex `systype`: `d[kdof, 1:] = ur_d @ y[:, 1:]` -/
def recoverCplx (U : Fin n → Fin N → C) (y : Fin N → C) : Fin n → C := matVec U y

/-- real `systype`: `d[kdof, 1:] = rur_d @ ry - iur_d @ iy` -/
def recoverReal (U : Fin n → Fin N → C) (y : Fin N → C) : Fin n → R :=
  fun j => dotFin (fun k => CplxOps.re (U j k)) (fun k => CplxOps.re (y k))
         - dotFin (fun k => CplxOps.im (U j k)) (fun k => CplxOps.im (y k))

/-- sample 0 is the initial state itself (`d[:, 0]`, `v[:, 0]` are never overwritten), the later
ones are recovered from the modal states -/
def recoverTail {S Y : Type} (s0 : S) (rec : Y → S) : List Y → List S
  | [] => []
  | _ :: rest => s0 :: rest.map rec

/-- the elastic part of `_solve_complex_unc` for a real system: samples `(d_j, v_j)` on the `kdof`
rows, one per force sample -/
def coupledRun (order1 : Bool) (isSmall : C → Bool) (h : C) (e : Eig C n N)
    (d0 v0 : Fin n → R) (imf : List (Fin n → R)) : List ((Fin n → R) × (Fin n → R)) :=
  let emb : (Fin n → R) → Fin n → C := fun x j => CplxOps.ofReal (x j)
  let c : Fin N → C × C × C := fun k => coefSel isSmall (e.lam k) h
  recoverTail (d0, v0) (fun y => (recoverReal e.urD y, recoverReal e.urV y))
    (runModal order1 c (modalInit e (emb d0) (emb v0)) (imf.map fun f => modalForce e (emb f)))

end coupled

/-! ### `SolveExp2.tsolve` -/

/-- `E_vv, E_vd, E_dv, E_dd` and the `v` / `d` row blocks of `P`, `Q` (`P[:ksize]`, `P[ksize:]`;
`half=True`: `P`, `Q` have `ksize` columns) -/
structure ExpCoef (α : Type) (n : Nat) where
  Evv : Fin n → Fin n → α
  Evd : Fin n → Fin n → α
  Edv : Fin n → Fin n → α
  Edd : Fin n → Fin n → α
  Pv  : Fin n → Fin n → α
  Pd  : Fin n → Fin n → α
  Qv  : Fin n → Fin n → α
  Qd  : Fin n → Fin n → α

section exp2
variable {α : Type} [Add α] [Mul α] [Zero α] {n : Nat}

/-- one step: `D' = E_dd @ d + E_dv @ v + PQF[ksize:]`, `V' = E_vd @ d + E_vv @ v + PQF[:ksize]`
with `PQF = P @ f0 + Q @ f1` (order 1) or `P @ f0` (order 0: `Q = 0.0` is not used) -/
def expStep (order1 : Bool) (c : ExpCoef α n) (dv : (Fin n → α) × (Fin n → α)) (f0 f1 : Fin n → α) :
    (Fin n → α) × (Fin n → α) :=
  let pqfD : Fin n → α := fun j =>
    if order1 then dotFin (c.Pd j) f0 + dotFin (c.Qd j) f1 else dotFin (c.Pd j) f0
  let pqfV : Fin n → α := fun j =>
    if order1 then dotFin (c.Pv j) f0 + dotFin (c.Qv j) f1 else dotFin (c.Pv j) f0
  (fun j => dotFin (c.Edd j) dv.1 + dotFin (c.Edv j) dv.2 + pqfD j,
   fun j => dotFin (c.Evd j) dv.1 + dotFin (c.Evv j) dv.2 + pqfV j)

/-- the loop of `SolveExp2.tsolve`: samples `(d_j, v_j)`, one per force sample -/
def runExp (order1 : Bool) (c : ExpCoef α n) (dv : (Fin n → α) × (Fin n → α)) :
    List (Fin n → α) → List ((Fin n → α) × (Fin n → α))
  | [] => []
  | [_] => [dv]
  | f0 :: f1 :: fs =>
    let md := Memo.ofFn (expStep order1 c dv f0 f1).1
    let mv := Memo.ofFn (expStep order1 c dv f0 f1).2
    dv :: runExp order1 c (md.get, mv.get) (f1 :: fs)

end exp2

end PyYetiVerif.SuCoef
