import PyYetiVerif.Generated.Op4Consts
/-!
Model of pyyeti/nastran/op4.py (class `OP4`): the OUTPUT4 writer (`write`, `_write_binary*`,
`_write_ascii*`, `_sparse_col_stats`, `_get_header_info`) and the binary reader
(`_loadop4_binary`, `_rd_dense_binary`, `_rd_bigmat_binary`, `_rd_nonbigmat_binary`,
`_skipop4_binary`, `_get_funcs`, `_check_name`, `_decode_format`).  Core Lean only.

Representation (exact):
* a double is its IEEE-754 bit pattern, a `Nat < 2^64`; it is only moved, never computed with;
* a matrix element is an `Entry = re × im` (`im = 0` and ignored for real matrices);
* a binary file is a list of 32-bit words (`Nat < 2^32`, two's complement for negative header
  integers); a double is two words in the file's byte order; bytes are derived from words
  (`wordBytes`), so the byte-level file is `words.flatMap (wordBytes e)`;
* an ASCII file is a list of characters; `%E` formatting of a double is modelled exactly
  (`fmtE0`: exact rational value, round-half-even to `digits+1` significant digits, exponent of at
  least two digits, right-justified in `numlen`; `fmtE`: one digit less when that is wider than `numlen`).

Constants that the source spells as literals come from `Generated/Op4Consts.lean`, which is
regenerated from op4.py on every run.
-/
namespace PyYetiVerif.Op4
open PyYetiVerif.Generated.Op4Consts

/-! ## 1. `_sparse_col_stats` and the packed string header -/

/-- `OP4._sparse_col_stats`: `(start, length)` of the runs of consecutive indices. -/
def colStats : List Nat → List (Nat × Nat)
  | [] => []
  | r :: rs =>
    match colStats rs with
    | (s, l) :: t => if s = r + 1 then (r, l + 1) :: t else (r, 1) :: (s, l) :: t
    | [] => [(r, 1)]

/-- the indices a list of runs stands for -/
def expand (runs : List (Nat × Nat)) : List Nat := runs.flatMap fun p => List.range' p.1 p.2

/-- `IS = irow + ((L + 1) << 16)` (nonbigmat string header; `irow = r0 + 1` is 1-based). -/
def packIS (irow L : Nat) : Nat := irow + ((L + 1) <<< isShiftW)

/-- `L = (IS >> 16) - 1; irow = IS - ((L + 1) << 16)`; returns `(irow, L)`. -/
def unpackIS (IS : Nat) : Nat × Nat :=
  let L := (IS >>> isShiftR) - 1
  (IS - ((L + 1) <<< isShiftR), L)

/-! ## 2. matrices -/

abbrev Entry := Nat × Nat

/-- `±0.0` -/
def isZeroD (b : Nat) : Bool := b % 9223372036854775808 == 0

def mult (cplx : Bool) : Nat := if cplx then 2 else 1
def mtypeOf (cplx : Bool) : Nat := if cplx then 4 else 2

/-- numpy truth value of an element (`np.any`, `nonzero`) -/
def Entry.isZero (cplx : Bool) (x : Entry) : Bool :=
  if cplx then isZeroD x.1 && isZeroD x.2 else isZeroD x.1

/-- the doubles an element occupies after `v.dtype = float` -/
def entryDs (cplx : Bool) (x : Entry) : List Nat := if cplx then [x.1, x.2] else [x.1]

/-- indices of the non-zero elements of a column, counted from `i` -/
def nzIdxFrom (cplx : Bool) : Nat → List Entry → List Nat
  | _, [] => []
  | i, x :: xs => if x.isZero cplx then nzIdxFrom cplx (i + 1) xs else i :: nzIdxFrom cplx (i + 1) xs

def nzIdx (cplx : Bool) (col : List Entry) : List Nat := nzIdxFrom cplx 0 col

/-- the non-zero strings of a column: `(r0, v[r0 : r0 + r1])` for every row of `ind` -/
def strings (cplx : Bool) (col : List Entry) : List (Nat × List Entry) :=
  (colStats (nzIdx cplx col)).map fun p => (p.1, (col.drop p.1).take p.2)

structure Mat where
  name : List Nat          -- bytes of the name handed to the writer (after `_check_write_names`)
  form : Nat
  cplx : Bool
  rows : Nat
  cols : List (List Entry) -- columns, each of length `rows`
deriving Repr, DecidableEq

inductive Endian | little | big
deriving Repr, DecidableEq

inductive Layout | dense | bigmat | nonbigmat
deriving Repr, DecidableEq

/-! ## 3. words -/

def W : Nat := 4294967296

/-- two's-complement 32-bit word of an integer -/
def i32 (n : Int) : Nat := (n % 4294967296).toNat
/-- signed reading of a 32-bit word -/
def ofI32 (w : Nat) : Int := if w < 2147483648 then (w : Int) else (w : Int) - 4294967296

/-- the two file words of a double -/
def dWords (e : Endian) (b : Nat) : List Nat :=
  match e with
  | .little => [b % W, b / W]
  | .big => [b / W, b % W]

def joinW (e : Endian) (a b : Nat) : Nat :=
  match e with
  | .little => a + b * W
  | .big => a * W + b

def valWords (e : Endian) (cplx : Bool) (seg : List Entry) : List Nat :=
  (seg.flatMap (entryDs cplx)).flatMap (dWords e)

/-- the bytes of a word in file order -/
def wordBytes (e : Endian) (w : Nat) : List Nat :=
  match e with
  | .little => [w % 256, w / 256 % 256, w / 65536 % 256, w / 16777216 % 256]
  | .big => [w / 16777216 % 256, w / 65536 % 256, w / 256 % 256, w % 256]

def bytesWord (e : Endian) (a b c d : Nat) : Nat :=
  match e with
  | .little => a + 256 * b + 65536 * c + 16777216 * d
  | .big => d + 256 * c + 65536 * b + 16777216 * a

def wordsOfBytes (e : Endian) : List Nat → List Nat
  | a :: b :: c :: d :: t => bytesWord e a b c d :: wordsOfBytes e t
  | _ => []

def bytesOfWords (e : Endian) (ws : List Nat) : List Nat := ws.flatMap (wordBytes e)

/-! ## 4. names -/

def upperB (b : Nat) : Nat := if 97 ≤ b ∧ b ≤ 122 then b - 32 else b
def lowerB (b : Nat) : Nat := if 65 ≤ b ∧ b ≤ 90 then b + 32 else b
def isAlphaU (b : Nat) : Bool := (65 ≤ b && b ≤ 90) || (97 ≤ b && b ≤ 122) || b == 95
def isAlnumU (b : Nat) : Bool := isAlphaU b || (48 ≤ b && b ≤ 57)

/-- `str.isidentifier()` for ASCII strings -/
def isIdent : List Nat → Bool
  | [] => false
  | b :: t => isAlphaU b && t.all isAlnumU

def natDigits (n : Nat) : List Nat := (Nat.repr n).toList.map Char.toNat

/-- `_check_write_names`: a non-identifier becomes `m{i}`, a long name is cut to 8 -/
def writeName (i : Nat) (name : List Nat) : List Nat :=
  if !isIdent name then 109 :: natDigits i else if name.length > 8 then name.take 8 else name

/-- `f"{name.upper():<8}".encode()` packed by `8s` -/
def nameField (name : List Nat) : List Nat :=
  ((name.map upperB) ++ List.replicate (8 - name.length) 32).take 8

/-- `_check_name` (the counter `_matcount` is the matrix's position in the file) -/
def checkName (count : Nat) (raw : List Nat) : List Nat :=
  let n := (raw.filter fun b => b != 32 && b != 0).map lowerB
  if isIdent n then n else 109 :: natDigits count

/-! ## 5. binary writer (word level) -/

def sqrt2Bits : Nat := 0x3FF6A09E667F3BCD

def headerWords (e : Endian) (m : Mat) (bigmat : Bool) : List Nat :=
  [hdrReclen, m.cols.length, i32 (if bigmat then -(m.rows : Int) else m.rows), m.form, mtypeOf m.cplx]
    ++ wordsOfBytes e (nameField m.name) ++ [hdrReclen]

def trailerWords (e : Endian) (ncols : Nat) : List Nat :=
  [20, ncols + 1, 1, 2] ++ dWords e sqrt2Bits ++ [20]

/-- dense column record (`_write_binary._write_col_data`); nothing for an all-zero column -/
def encColDense (e : Endian) (cplx : Bool) (c : Nat) (col : List Entry) : List Nat :=
  match nzIdx cplx col with
  | [] => []
  | s :: rest =>
    let last := (s :: rest).getLast (by simp)
    let seg := (col.drop s).take (last - s + 1)
    let elems := seg.length * mult cplx
    let reclen := 3 * 4 + elems * 8
    [reclen, c + 1, s + 1, 2 * elems] ++ valWords e cplx seg ++ [reclen]

def sumLens (ss : List (Nat × List Entry)) : Nat := (ss.map fun s => s.2.length).sum

def bigStringWords (e : Endian) (cplx : Bool) (s : Nat × List Entry) : List Nat :=
  [s.2.length * 2 * mult cplx + 1, s.1 + 1] ++ valWords e cplx s.2

def nonbigStringWords (e : Endian) (cplx : Bool) (s : Nat × List Entry) : List Nat :=
  packIS (s.1 + 1) (s.2.length * 2 * mult cplx) :: valWords e cplx s.2

def nwordsBig (cplx : Bool) (ss : List (Nat × List Entry)) : Nat :=
  2 * ss.length + 2 * sumLens ss * mult cplx

def nwordsNonbig (cplx : Bool) (ss : List (Nat × List Entry)) : Nat :=
  ss.length + 2 * sumLens ss * mult cplx

def encColBig (e : Endian) (cplx : Bool) (c : Nat) (col : List Entry) : List Nat :=
  match strings cplx col with
  | [] => []
  | ss =>
    let nwords := nwordsBig cplx ss
    let reclen := (3 + nwords) * 4
    [reclen, c + 1, 0, nwords] ++ ss.flatMap (bigStringWords e cplx) ++ [reclen]

/-- `struct.pack('i', IS)` succeeds -/
def fitsI32 (n : Nat) : Bool := n < 2147483648

/-- every packed string header of the column fits a signed 32-bit integer -/
def stringsFit (cplx : Bool) (col : List Entry) : Bool :=
  (strings cplx col).all fun s => fitsI32 (packIS (s.1 + 1) (s.2.length * 2 * mult cplx))

def encColNonbig (e : Endian) (cplx : Bool) (c : Nat) (col : List Entry) : List Nat :=
  match strings cplx col with
  | [] => []
  | ss =>
    let nwords := nwordsNonbig cplx ss
    let reclen := (3 + nwords) * 4
    [reclen, c + 1, 0, nwords] ++ ss.flatMap (nonbigStringWords e cplx) ++ [reclen]

/-- `write(..., sparse=…)`: the layout actually used -/
def resolveLayout (opt : Option Layout) (sparseInput : Bool) (rows : Nat) : Layout :=
  match opt with
  | none => if sparseInput then .bigmat else .dense
  | some .nonbigmat => if rows ≥ rows4bigmat then .bigmat else .nonbigmat
  | some l => l

def encCols (f : Nat → List Entry → List Nat) : Nat → List (List Entry) → List Nat
  | _, [] => []
  | c, col :: t => f c col ++ encCols f (c + 1) t

/-- one matrix as words; `none` = `struct.error` (a packed `IS` does not fit `'i'`) -/
def encMatWords (e : Endian) (lay : Layout) (m : Mat) : Option (List Nat) :=
  match lay with
  | .dense => some (headerWords e m false ++ encCols (encColDense e m.cplx) 0 m.cols
                      ++ trailerWords e m.cols.length)
  | .bigmat => some (headerWords e m true ++ encCols (encColBig e m.cplx) 0 m.cols
                      ++ trailerWords e m.cols.length)
  | .nonbigmat =>
    if m.cols.all (stringsFit m.cplx) then
      some (headerWords e m false ++ encCols (encColNonbig e m.cplx) 0 m.cols
              ++ trailerWords e m.cols.length)
    else none

/-- a whole file: the matrices in order, each with its resolved layout -/
def encFileWords (e : Endian) : List (Layout × Mat) → Option (List Nat)
  | [] => some []
  | (l, m) :: t => do
    let a ← encMatWords e l m
    let b ← encFileWords e t
    some (a ++ b)

def encFileBytes (e : Endian) (ms : List (Layout × Mat)) : Option (List Nat) :=
  (encFileWords e ms).map (bytesOfWords e)

/-! ## 6. binary reader (word level) -/

/-- read `n` doubles -/
def takeDs (e : Endian) : Nat → List Nat → Option (List Nat × List Nat)
  | 0, ws => some ([], ws)
  | n + 1, a :: b :: ws =>
    match takeDs e n ws with
    | some (ds, r) => some (joinW e a b :: ds, r)
    | none => none
  | _ + 1, _ => none

/-- group the doubles of a string into elements (`_put_binary_values*`) -/
def unchunkR : List Nat → List Entry
  | [] => []
  | a :: t => (a, 0) :: unchunkR t

def unchunkC : List Nat → Option (List Entry)
  | [] => some []
  | a :: b :: t => (unchunkC t).map fun es => (a, b) :: es
  | [_] => none

def unchunk (cplx : Bool) (ds : List Nat) : Option (List Entry) :=
  if cplx then unchunkC ds else some (unchunkR ds)

/-- one `put(X, r, c, Y)` of the reader: 0-based row, column, elements -/
abbrev Put := Nat × Nat × List Entry

/-- strings of one nonbigmat column: `while nwords > 0` of `_rd_nonbigmat_binary`.
Returns the `(r, elements)` read and the remaining words. -/
def rdStringsNonbig (e : Endian) (cplx : Bool) : Nat → Nat → List Nat → Option (List (Nat × List Entry) × List Nat)
  | _, 0, ws => some ([], ws)
  | 0, _ + 1, _ => none
  | fuel + 1, nwords + 1, ws =>
    match ws with
    | [] => none
    | IS :: ws1 =>
      let (irow, L) := unpackIS IS
      if IS >>> isShiftR = 0 ∨ irow = 0 ∨ nwords + 1 < L + 1 then none else
      match takeDs e (L / 2) ws1 with
      | none => none
      | some (ds, ws2) =>
        match unchunk cplx ds, rdStringsNonbig e cplx fuel (nwords + 1 - (L + 1)) ws2 with
        | some es, some (rest, ws3) => some ((irow - 1, es) :: rest, ws3)
        | _, _ => none

/-- strings of one bigmat column: `while nwords > 0` of `_rd_bigmat_binary` -/
def rdStringsBig (e : Endian) (cplx : Bool) : Nat → Nat → List Nat → Option (List (Nat × List Entry) × List Nat)
  | _, 0, ws => some ([], ws)
  | 0, _ + 1, _ => none
  | fuel + 1, nwords + 1, ws =>
    match ws with
    | L1 :: irow :: ws1 =>
      if L1 = 0 ∨ irow = 0 ∨ nwords + 1 < L1 + 1 then none else
      match takeDs e ((L1 - 1) / 2) ws1 with
      | none => none
      | some (ds, ws2) =>
        match unchunk cplx ds, rdStringsBig e cplx fuel (nwords + 1 - (L1 + 1)) ws2 with
        | some es, some (rest, ws3) => some ((irow - 1, es) :: rest, ws3)
        | _, _ => none
    | _ => none

/-- splice `ys` into a column at row `r` (`X[r : r + len(Y), c] = Y`) -/
def putCol (X : List Entry) (r : Nat) (ys : List Entry) : Option (List Entry) :=
  if r + ys.length ≤ X.length then some (X.take r ++ ys ++ X.drop (r + ys.length)) else none

def putsCol (X : List Entry) : List (Nat × List Entry) → Option (List Entry)
  | [] => some X
  | (r, ys) :: t => match putCol X r ys with
    | some X' => putsCol X' t
    | none => none

/-- an element as the dense reader stores it: a real matrix has no imaginary part, and a zero
that was not written comes back as `+0.0` -/
def canonEntry (cplx : Bool) (x : Entry) : Entry :=
  if x.isZero cplx then (0, 0) else if cplx then x else (x.1, 0)

def canonCol (cplx : Bool) (col : List Entry) : List Entry := col.map (canonEntry cplx)

/-- column payload decoders: the strings of one column record into a zero column of `rows` -/
def decodeColNonbig (e : Endian) (cplx : Bool) (rows nwords : Nat) (ws : List Nat) :
    Option (List Entry × List Nat) :=
  match rdStringsNonbig e cplx nwords nwords ws with
  | some (ss, rest) => (putsCol (List.replicate rows (0, 0)) ss).map fun X => (X, rest)
  | none => none

def decodeColBig (e : Endian) (cplx : Bool) (rows nwords : Nat) (ws : List Nat) :
    Option (List Entry × List Nat) :=
  match rdStringsBig e cplx nwords nwords ws with
  | some (ss, rest) => (putsCol (List.replicate rows (0, 0)) ss).map fun X => (X, rest)
  | none => none

/-- dense column payload: `nwords // 2` doubles put at row `r - 1` -/
def decodeColDense (e : Endian) (cplx : Bool) (rows r nwords : Nat) (ws : List Nat) :
    Option (List Entry × List Nat) :=
  if r = 0 then none else
  match takeDs e (nwords / 2) ws with
  | some (ds, rest) =>
    match unchunk cplx ds with
    | some es => (putCol (List.replicate rows (0, 0)) (r - 1) es).map fun X => (X, rest)
    | none => none
  | none => none

/-- what one matrix of a file decodes to -/
structure Dec where
  rawName : List Nat
  rows : Int
  cols : Int
  form : Int
  mtype : Int
  layout : Layout
  sparseAuto : Bool              -- what `sparse=None` resolves to
  puts : List Put
deriving Repr, DecidableEq

/-- the column loop of `_rd_*_binary`; `c` is 0-based.  Returns the puts, the last `reclen`
read and the remaining words. -/
def rdCols (e : Endian) (lay : Layout) (cplx : Bool) (cols : Int) :
    Nat → (c r nw : Int) → (reclen : Nat) → List Nat → List Put → Option (List Put × Nat × List Nat)
  | 0, _, _, _, _, _, _ => none
  | fuel + 1, c, r, nw, reclen, ws, acc =>
    if c < cols then
      if c < 0 ∨ nw < 0 then none else
      let body : Option (List (Nat × List Entry) × List Nat) :=
        match lay with
        | .dense =>
          if r ≤ 0 then none else
          match takeDs e (nw.toNat / 2) ws with
          | some (ds, rest) => (unchunk cplx ds).map fun es => ([((r - 1).toNat, es)], rest)
          | none => none
        | .bigmat => rdStringsBig e cplx nw.toNat nw.toNat ws
        | .nonbigmat => rdStringsNonbig e cplx nw.toNat nw.toNat ws
      match body with
      | some (ss, _ :: reclen' :: c' :: r' :: nw' :: ws2) =>
        rdCols e lay cplx cols fuel (ofI32 c' - 1) (ofI32 r') (ofI32 nw') reclen' ws2
          (acc ++ ss.map fun s => (s.1, c.toNat, s.2))
      | _ => none
    else some (acc, reclen, ws)

/-- `_get_funcs`: which column reader, and what `sparse=None` means -/
def chooseLayout (rows r : Int) (allzeros : Bool) : Layout × Bool :=
  if r > 0 then
    if allzeros ∧ rows < 0 then (.bigmat, true) else (.dense, false)
  else if rows < 0 ∨ rows ≥ rows4bigmat then (.bigmat, true) else (.nonbigmat, true)

/-- `_loadop4_binary` for one matrix (32-bit keys, double precision) -/
def rdMatrix (e : Endian) (ws : List Nat) : Option (Dec × List Nat) :=
  match ws with
  | _ :: cols :: rows :: form :: mtype :: n0 :: n1 :: _ :: reclen :: c :: r :: nw :: ws1 =>
    let cols := ofI32 cols
    let rows := ofI32 rows
    let mtype := ofI32 mtype
    if mtype ≠ 2 ∧ mtype ≠ 4 then none else
    let cplx := mtype = 4
    let c0 := ofI32 c - 1
    let (lay, auto) := chooseLayout rows (ofI32 r) (c0 ≥ cols)
    match rdCols e lay cplx cols (ws1.length + 1) c0 (ofI32 r) (ofI32 nw) reclen ws1 [] with
    | some (puts, reclen', ws2) =>
      some ({ rawName := wordBytes e n0 ++ wordBytes e n1, rows := rows, cols := cols,
              form := ofI32 form, mtype := mtype, layout := lay, sparseAuto := auto, puts := puts },
            ws2.drop ((reclen' - 12) / 4 + 1))
    | none => none
  | _ => none

def rdFile (e : Endian) : Nat → List Nat → Option (List Dec)
  | _, [] => some []
  | 0, _ => none
  | fuel + 1, ws =>
    match rdMatrix e ws with
    | some (d, rest) => (rdFile e fuel rest).map (d :: ·)
    | none => none

/-- `_skipop4_binary`: `icol = 0; while icol <= cols: read reclen, icol; seek(reclen)`.
`icol` is the header of the last record read (0 before any, so the trailer record of a matrix
without columns is skipped too: the repaired behaviour of finding F24). -/
def skipCols (cols : Int) : Nat → Int → List Nat → Option (List Nat)
  | 0, _, _ => none
  | fuel + 1, icol, ws =>
    if icol ≤ cols then
      match ws with
      | reclen :: icol' :: rest => skipCols cols fuel (ofI32 icol') (rest.drop (reclen / 4))
      | _ => none
    else some ws

inductive DirResult
  | ok (l : List (List Nat × Int × Int × Int × Int))
  | unicodeError      -- `fp.read(8).decode()` met a byte ≥ 0x80
  | truncated         -- a `struct.unpack` on a short read
deriving Repr, DecidableEq

/-- `dir`: `(raw name, |rows|, cols, form, mtype)` of every matrix -/
def dirWords (e : Endian) : Nat → List Nat → DirResult
  | _, [] => .ok []
  | 0, _ => .truncated
  | fuel + 1, ws =>
    match ws with
    | _ :: cols :: rows :: form :: mtype :: n0 :: n1 :: rest =>
      let ws1 := rest.drop 1   -- `fp.read(4)`: the closing record marker (nothing at end of file)
      let cols := ofI32 cols
      let rows := ofI32 rows
      let name := wordBytes e n0 ++ wordBytes e n1
      if name.any (· ≥ 128) then .unicodeError else
      match skipCols cols (ws1.length + 1) 0 ws1 with
      | some rest =>
        match dirWords e fuel rest with
        | .ok l => .ok ((name, (if rows < 0 then -rows else rows), cols, ofI32 form, ofI32 mtype) :: l)
        | r => r
      | none => .truncated
    | _ => .truncated

/-- `_decode_format` on the first four bytes of a binary file: byte order, or `none` for
ASCII / 64-bit keys -/
def decodeFormat (bytes : List Nat) : Option Endian :=
  match bytes with
  | a :: b :: c :: d :: _ =>
    if min (min a b) (min c d) ≠ 0 then none else
    let le := bytesWord .little a b c d
    if le ≤ 48 then (if le = 24 then some .little else none)
    else (if bytesWord .big a b c d = 24 then some .big else none)
  | _ => none

/-- the dense matrix a list of puts produces (`sparse=False`): columns of `rows` elements -/
def applyPuts (rows cols : Nat) (puts : List Put) : Option (List (List Entry)) :=
  puts.foldlM (init := List.replicate cols (List.replicate rows ((0, 0) : Entry))) fun X p =>
    match X[p.2.1]? with
    | some col => (putCol col p.1 p.2.2).map fun col' => X.set p.2.1 col'
    | none => none

def negZero : Nat := 9223372036854775808

/-- `_put_binary_values_sparse_c` builds `Y[j] + 1j * Y[j+1]` in Python complex arithmetic:
`1j * y = (0*y - 0.0) + (0.0 + y)j`, so an imaginary `-0.0` becomes `+0.0` and a real `-0.0`
survives only when the imaginary part has its sign bit set.  All other values are unchanged. -/
def cooEntry (cplx : Bool) (x : Entry) : Entry :=
  if cplx then
    (if x.1 = negZero ∧ x.2 < negZero then 0 else x.1, if x.2 = negZero then 0 else x.2)
  else x

/-- the COO triplets a list of puts produces (`sparse=True`): `(row, col, element)` in file order -/
def cooOfPuts (cplx : Bool) (puts : List Put) : List (Nat × Nat × Entry) :=
  puts.flatMap fun p =>
    (List.range p.2.2.length).zip p.2.2 |>.map fun (i, x) => (p.1 + i, p.2.1, cooEntry cplx x)

/-! ## 7. `%E` and the ASCII writer -/

/-- largest `k ∈ [lo, hi)` reachable by bisection with `p`; `lo` when none -/
def bsearch (p : Nat → Bool) : Nat → Nat → Nat → Nat
  | 0, lo, _ => lo
  | f + 1, lo, hi =>
    if hi ≤ lo + 1 then lo else
    let mid := (lo + hi) / 2
    if p mid then bsearch p f mid hi else bsearch p f lo mid

/-- round-half-even of `n / d` -/
def roundHalfEven (n d : Nat) : Nat :=
  let q := n / d
  let r := n % d
  if 2 * r < d then q else if 2 * r > d then q + 1 else if q % 2 = 0 then q else q + 1

def digitChar (n : Nat) : Char := Char.ofNat (48 + n % 10)

/-- exactly `k` decimal digits of `m`, most significant first -/
def fixedDigits : Nat → Nat → List Char
  | 0, _ => []
  | k + 1, m => fixedDigits k (m / 10) ++ [digitChar m]

/-- exponent digits: at least two -/
def expDigits (n : Nat) : List Char :=
  if n < 100 then [digitChar (n / 10), digitChar n]
  else if n < 1000 then [digitChar (n / 100), digitChar (n / 10), digitChar n]
  else (Nat.repr n).toList

structure Sci where
  neg : Bool
  mant : Nat   -- `digits + 1` significant digits
  e10 : Int
deriving Repr, DecidableEq

def isFiniteD (b : Nat) : Bool := (b / 4503599627370496) % 2048 != 2047

/-- `k` with `k - 400 = floor(log10 (num/den))`, searched by bisection in `[-400, 400)` (every
finite non-zero double lies in `[10^-324, 10^309)`) -/
def expIndex (num den : Nat) : Nat :=
  bsearch (fun k => if k ≥ 400 then decide (10 ^ (k - 400) * den ≤ num)
                    else decide (den ≤ num * 10 ^ (400 - k))) 12 0 800

/-- `(mantissa, exponent)` of the positive rational `num/den` rounded half-even to `d + 1`
significant digits -/
def sciPos (d num den : Nat) : Nat × Int :=
  let k := expIndex num den
  -- mantissa = num/den / 10^(e - d), e = k - 400
  let n' := if d + 400 ≥ k then num * 10 ^ (d + 400 - k) else num
  let d' := if d + 400 ≥ k then den else den * 10 ^ (k - 400 - d)
  let M := roundHalfEven n' d'
  if M = 10 ^ (d + 1) then (10 ^ d, (k : Int) - 400 + 1) else (M, (k : Int) - 400)

/-- scientific form of `±m·2^e2` -/
def sciOf (d : Nat) (neg : Bool) (m : Nat) (e2 : Int) : Sci :=
  if m = 0 then { neg := neg, mant := 0, e10 := 0 } else
  let num := if e2 ≥ 0 then m * 2 ^ e2.toNat else m
  let den := if e2 ≥ 0 then 1 else 2 ^ (-e2).toNat
  { neg := neg, mant := (sciPos d num den).1, e10 := (sciPos d num den).2 }

/-- decimal scientific form of a finite double, correctly rounded (half-even) to `d + 1`
significant digits: what `'%.{d}E' % x` prints -/
def sci (d : Nat) (b : Nat) : Sci :=
  let ef := (b / 4503599627370496) % 2048
  let mf := b % 4503599627370496
  sciOf d (b / 9223372036854775808 % 2 == 1) (if ef = 0 then mf else mf + 4503599627370496)
    (if ef = 0 then -1074 else (ef : Int) - 1075)

/-- body of `'%.{d}E' % x` (no padding) for a finite double -/
def sciChars (d : Nat) (s : Sci) : List Char :=
  let ds := fixedDigits (d + 1) s.mant
  (if s.neg then ['-'] else []) ++ ds.take 1 ++ (if d = 0 then [] else '.' :: ds.drop 1)
    ++ ['E', if s.e10 < 0 then '-' else '+'] ++ expDigits s.e10.natAbs

def padLeft (n : Nat) (cs : List Char) : List Char := List.replicate (n - cs.length) ' ' ++ cs

/-- `CPython` prints exponents with two digits: `self._expdigits` -/
def expdigits : Nat := 2

def numlen (d : Nat) : Nat := d + numlenBase + expdigits
def perline (d : Nat) : Nat := lineWidth / numlen d

/-- `fmt % x` with `fmt = '%{numlen}.{digits}E'` -/
def fmtE0 (d : Nat) (b : Nat) : List Char := padLeft (numlen d) (sciChars d (sci d b))

/-- `numform(x)`, the function `_write_ascii_header` returns (repair of finding F3): `fmt % x`, or `fmt1 % x` with
`fmt1 = '%{numlen}.{max(digits - 1, 0)}E'` when the former is wider than `numlen` (a negative value with a
three-digit exponent) -/
def fmtE (d : Nat) (b : Nat) : List Char :=
  if (fmtE0 d b).length > numlen d then padLeft (numlen d) (sciChars (d - 1) (sci (d - 1) b)) else fmtE0 d b

def fmtInt (w : Nat) (n : Int) : List Char := padLeft w (toString n).toList

/-- values, `perline` to a line, every line terminated -/
def valueLines (d : Nat) : Nat → List Nat → List Char
  | _, [] => []
  | fuel, ds =>
    match fuel with
    | 0 => []
    | fuel + 1 =>
      let p := perline d
      ((ds.take p).flatMap (fmtE d)) ++ ['\n'] ++ (if ds.length ≤ p then [] else valueLines d fuel (ds.drop p))

def segDs (cplx : Bool) (seg : List Entry) : List Nat := seg.flatMap (entryDs cplx)

def asciiHeader (d : Nat) (m : Mat) (bigmat : Bool) : List Char :=
  let w := if m.rows > 9999999 then 16 else 8
  fmtInt w m.cols.length ++ fmtInt w (if bigmat then -(m.rows : Int) else m.rows) ++ fmtInt 8 m.form
    ++ fmtInt 8 (mtypeOf m.cplx)
    ++ ((m.name.map upperB).map Char.ofNat ++ List.replicate (8 - m.name.length) ' ')
    ++ "1P,".toList ++ (toString (perline d)).toList ++ ['E'] ++ (toString (numlen d)).toList ++ ['.']
    ++ (toString d).toList ++ (if w = 16 then "|I16".toList else []) ++ ['\n']

def asciiTrailer (d : Nat) (ncols : Nat) : List Char :=
  fmtInt 8 (ncols + 1) ++ fmtInt 8 1 ++ fmtInt 8 1 ++ ['\n'] ++ fmtE d sqrt2Bits ++ ['\n']

def ascColDense (d : Nat) (cplx : Bool) (c : Nat) (col : List Entry) : List Char :=
  match nzIdx cplx col with
  | [] => []
  | s :: rest =>
    let last := (s :: rest).getLast (by simp)
    let seg := (col.drop s).take (last - s + 1)
    let ds := segDs cplx seg
    fmtInt 8 (c + 1) ++ fmtInt 8 (s + 1) ++ fmtInt 8 ds.length ++ ['\n'] ++ valueLines d ds.length ds

def ascColBig (d : Nat) (cplx : Bool) (c : Nat) (col : List Entry) : List Char :=
  match strings cplx col with
  | [] => []
  | ss =>
    fmtInt 8 (c + 1) ++ fmtInt 8 0 ++ fmtInt 8 (nwordsBig cplx ss) ++ ['\n'] ++
      ss.flatMap fun s =>
        let ds := segDs cplx s.2
        fmtInt 8 (s.2.length * 2 * mult cplx + 1) ++ fmtInt 8 (s.1 + 1) ++ ['\n'] ++ valueLines d ds.length ds

def ascColNonbig (d : Nat) (cplx : Bool) (c : Nat) (col : List Entry) : List Char :=
  match strings cplx col with
  | [] => []
  | ss =>
    fmtInt 8 (c + 1) ++ fmtInt 8 0 ++ fmtInt 8 (nwordsNonbig cplx ss) ++ ['\n'] ++
      ss.flatMap fun s =>
        let ds := segDs cplx s.2
        fmtInt 11 (packIS (s.1 + 1) (s.2.length * 2 * mult cplx)) ++ ['\n'] ++ valueLines d ds.length ds

def ascCols (f : Nat → List Entry → List Char) : Nat → List (List Entry) → List Char
  | _, [] => []
  | c, col :: t => f c col ++ ascCols f (c + 1) t

def encMatAscii (d : Nat) (lay : Layout) (m : Mat) : List Char :=
  match lay with
  | .dense => asciiHeader d m false ++ ascCols (ascColDense d m.cplx) 0 m.cols ++ asciiTrailer d m.cols.length
  | .bigmat => asciiHeader d m true ++ ascCols (ascColBig d m.cplx) 0 m.cols ++ asciiTrailer d m.cols.length
  | .nonbigmat => asciiHeader d m false ++ ascCols (ascColNonbig d m.cplx) 0 m.cols ++ asciiTrailer d m.cols.length

def encFileAscii (d : Nat) (ms : List (Layout × Mat)) : List Char :=
  ms.flatMap fun p => encMatAscii d p.1 p.2

/-! ## 8. from bytes to matrices: `op4.load(file, into='list', sparse=False)` on a binary file -/

/-- one matrix as `listload` returns it: checked name, shape, form, type, the dense columns -/
structure RMat where
  name : List Nat
  rows : Nat
  cols : Nat
  form : Int
  mtype : Int
  data : List (List Entry)
deriving Repr, DecidableEq

/-- names through `_check_name` (the counter is the position in the file), puts through `applyPuts` -/
def toRMats : Nat → List Dec → Option (List RMat)
  | _, [] => some []
  | i, d :: t =>
    match applyPuts d.rows.natAbs d.cols.toNat d.puts, toRMats (i + 1) t with
    | some X, some r =>
      some ({ name := checkName i d.rawName, rows := d.rows.natAbs, cols := d.cols.toNat, form := d.form,
              mtype := d.mtype, data := X } :: r)
    | _, _ => none

/-- format detection, words from bytes, the reader, the dense matrices -/
def decodeBytes (bytes : List Nat) : Option (List RMat) :=
  match decodeFormat bytes with
  | none => none
  | some e =>
    match rdFile e ((wordsOfBytes e bytes).length + 1) (wordsOfBytes e bytes) with
    | none => none
    | some ds => toRMats 0 ds

end PyYetiVerif.Op4
