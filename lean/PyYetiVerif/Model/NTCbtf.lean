/-
Model of `pyyeti/cb.py: cbtf` IN FULL (every returned array, the partition by `bset`, the q-set
solve, the `save` dictionary, `Ω = 0`) and of the way `frclim.calcAM` (partition-vector route)
assembles the apparent mass from `cbtf` calls.

Core Lean only.  Matrices are FUNCTIONS on `Fin` index types (`Fin m → Fin n → α`), vectors are
`Fin n → α`, sums are the left fold `fsum`; the scalar type `α` is arbitrary (operation classes
only).  `Lemmas/NTCbtf.lean` shows that at a commutative ring these are Mathlib's `Matrix`
operations, `Props/C15b.lean` proves the property theorems, `Drivers/C15.lean` runs the same
definitions at complex `Float` (request `cbtf`) and at exact Gaussian rationals (request `cbtfx`).

Source anchors (cb.py, function `cbtf`)
  freq/Omega/lenf, `a` expanded when 1-d or one column, the two size checks      (`packA`)
  qset = locate.flippv(bset, lt)                                                 (`flippv`)
  pvnz = Omega != 0                                                              (`FreqSc`)
  qset empty:  accel = 0; accel[bset] = a; displ = 0; displ[bset] = -a/Ω²; veloc = iΩ displ;
               frc = m[bset] accel + b[bset] veloc + k[bset] displ               (`cbtfColE`)
               (after the fix recorded as F59: the responses in MODEL order, as in the other branch)
  otherwise:   tf = save["tf"] or SolveUnc(m[qq], b[qq], k[qq], rb=[])          (`cbtfCall`)
               v = i a/Ω; f = b[qb] v - m[qb] a; sol = tf.fsolve(f, freq)
               displ[bset] = -a/Ω², displ[qset] = sol.d; veloc = iΩ displ;
               accel[bset] = a, accel[qset] = sol.a
               frc = m[bset] accel + b[bset] veloc + k[bb] displ[bset]           (`cbtfCol`)
  frclim.calcAM, 1-d bdof: AM[:, :, direc] = cbtf(m, b, k, eye[direc], freq, bdof, save).frc
                                                                                 (`calcAMpvCol`)
-/
namespace PyYetiVerif.NT

/-! ## function matrices -/

/-- `Σ_{i<n} f i` as a left fold (the order numpy's row-by-row products use is irrelevant for the
theorems — over a ring the sum is Mathlib's `Finset.sum` — and is inside the tolerance at `Float`) -/
def fsum {α : Type} [Zero α] [Add α] : (n : Nat) → (Fin n → α) → α
  | 0, _ => 0
  | n + 1, f => fsum n (fun i => f i.castSucc) + f (Fin.last n)

/-- matrix times vector -/
def fmulVec {α : Type} [Zero α] [Add α] [Mul α] {m n : Nat} (A : Fin m → Fin n → α)
    (x : Fin n → α) : Fin m → α :=
  fun i => fsum n fun j => A i j * x j

/-- a vector evaluated once and kept as an array … -/
def tab {α : Type} {n : Nat} (f : Fin n → α) : { a : Array α // a.size = n } :=
  ⟨Array.ofFn f, Array.size_ofFn⟩

/-- … and read back.  `look (tab f)` is `f` (`look_tab`); two functions rather than one because a
compiled one-function version applied to an index would re-evaluate the whole table at every call. -/
def look {α : Type} {n : Nat} (a : { a : Array α // a.size = n }) (i : Fin n) : α :=
  a.1[i.1]'(by rw [a.2]; exact i.2)

theorem look_tab {α : Type} {n : Nat} (f : Fin n → α) : look (tab f) = f := by
  funext i
  simp [look, tab]

/-! ## the index partition -/

/-- `locate.flippv(bset, n)`: `tf = ones(n, bool); tf[bset] = False; tf.nonzero()[0]` — the
complement of the b-set in ascending order, whatever the order of `bset` -/
def flippv (bset : List Nat) (n : Nat) : List Nat :=
  (List.range n).filter fun i => !bset.contains i

/-- position of `x` in `l` (first occurrence) -/
def posOf (x : Nat) : List Nat → Option Nat
  | [] => none
  | y :: t => if y = x then some 0 else (posOf x t).map (· + 1)

/-- `bset[l]` (or `qset[k]`) as a model DOF -/
def posFn (n : Nat) [NeZero n] (l : List Nat) (r : Nat) : Fin r → Fin n :=
  fun k => Fin.ofNat n (l.getD k.1 0)

/-- where model DOF `i` sits: in the b-set (`inl` position) or in the q-set (`inr` position) -/
def locFn {n : Nat} (bset qset : List Nat) (r nq : Nat) [NeZero r] [NeZero nq] :
    Fin n → Fin r ⊕ Fin nq :=
  fun i =>
    match posOf i.1 bset with
    | some l => .inl (Fin.ofNat r l)
    | none => .inr (Fin.ofNat nq ((posOf i.1 qset).getD 0))

/-! ## the frequency-dependent scalars -/

/-- what `cbtf` uses of one frequency `Ω`:
`s = iΩ` (`veloc = 1j * (Omega * displ)`), `s2 = -Ω²` (the solver's `a = -Ω² d`),
`c1 = i/Ω` (`v = 1j * a / Omega`; `0` where `Ω = 0`), `c2 = -1/Ω²` (`displ = -a / Omega**2`;
`0` where `Ω = 0`) -/
structure FreqSc (α : Type) where
  s : α
  s2 : α
  c1 : α
  c2 : α

/-- the scalars at `Ω = 0` (`pvnz` false): everything vanishes -/
def FreqSc.zero {α : Type} [Zero α] : FreqSc α := ⟨0, 0, 0, 0⟩

/-! ## one frequency of `cbtf` -/

/-- the four arrays `cbtf` returns, for one frequency (`frc` in b-set order, `a d v` full size) -/
structure CbtfOut (α : Type) (r n : Nat) where
  frc : Fin r → α
  a : Fin n → α
  d : Fin n → α
  v : Fin n → α

/-- right-hand side of the q-set equations: `f = b[qb] @ v - m[qb] @ a` with `v = (i/Ω) a` -/
def cbtfRhs {α : Type} [Zero α] [Add α] [Sub α] [Mul α] {n r nq : Nat}
    (M B : Fin n → Fin n → α) (bpos : Fin r → Fin n) (qpos : Fin nq → Fin n)
    (sc : FreqSc α) (a : Fin r → α) : Fin nq → α :=
  fun k => fsum r (fun l => B (qpos k) (bpos l) * (sc.c1 * a l))
    - fsum r (fun l => M (qpos k) (bpos l) * a l)

/-- `cbtf`, non-empty q-set, one frequency.  `bpos l` is `bset[l]`, `qpos k` is `qset[k]`,
`loc i` says where model DOF `i` sits (`inl l`: position `l` of the b-set, `inr k`: position `k`
of the q-set); `solveQ sc f` is `tf.fsolve(f, freq).d` for this frequency (`tf` the q-q solver). -/
def cbtfCol {α : Type} [Zero α] [Add α] [Sub α] [Mul α] {n r nq : Nat}
    (M B K : Fin n → Fin n → α) (bpos : Fin r → Fin n) (qpos : Fin nq → Fin n)
    (loc : Fin n → Fin r ⊕ Fin nq) (solveQ : FreqSc α → (Fin nq → α) → (Fin nq → α))
    (sc : FreqSc α) (a : Fin r → α) : CbtfOut α r n :=
  let dq := look (tab (solveQ sc (look (tab (cbtfRhs M B bpos qpos sc a)))))
  let displ : Fin n → α := look (tab fun i =>
    match loc i with
    | .inl l => sc.c2 * a l
    | .inr k => dq k)
  let veloc : Fin n → α := look (tab fun i => sc.s * displ i)
  let accel : Fin n → α := look (tab fun i =>
    match loc i with
    | .inl l => a l
    | .inr k => sc.s2 * dq k)
  { frc := fun l => fsum n (fun j => M (bpos l) j * accel j) + fsum n (fun j => B (bpos l) j * veloc j)
      + fsum r (fun l' => K (bpos l) (bpos l') * displ (bpos l'))
    a := accel, d := displ, v := veloc }

/-- `cbtf`, EMPTY q-set, one frequency (after the fix recorded as finding F59,
`cbtf-empty-qset-responses-in-bset-order`): the responses are zero-initialised full-size arrays into
which the b-set values are scattered — `a d v` in MODEL order exactly as in the other branch, `frc` in
b-set order; `frc = m[bset] @ accel + b[bset] @ veloc + k[bset] @ displ` (full rows).  `loc` has an
empty q-side; a DOF it would place there keeps the initial zero. -/
def cbtfColE {α : Type} [Zero α] [Add α] [Mul α] {n r : Nat}
    (M B K : Fin n → Fin n → α) (bpos : Fin r → Fin n) (loc : Fin n → Fin r ⊕ Fin 0)
    (sc : FreqSc α) (a : Fin r → α) : CbtfOut α r n :=
  let displ : Fin n → α := look (tab fun i =>
    match loc i with
    | .inl l => sc.c2 * a l
    | .inr _ => 0)
  let veloc : Fin n → α := look (tab fun i => sc.s * displ i)
  let accel : Fin n → α := look (tab fun i =>
    match loc i with
    | .inl l => a l
    | .inr _ => 0)
  { frc := fun l => fsum n (fun j => M (bpos l) j * accel j) + fsum n (fun j => B (bpos l) j * veloc j)
      + fsum n (fun j => K (bpos l) j * displ j)
    a := accel, d := displ, v := veloc }

/-- `loc` for a partition vector that covers every DOF -/
def locFnE {n : Nat} (bset : List Nat) (r : Nat) [NeZero r] : Fin n → Fin r ⊕ Fin 0 :=
  fun i => .inl (Fin.ofNat r ((posOf i.1 bset).getD 0))

/-! ## the `save` dictionary -/

/-- what `save["tf"]` holds: the q-q solver object `ode.SolveUnc(m[qq], b[qq], k[qq], rb=[])`,
seen through its only use, `fsolve` — a function of the frequency scalars and the right-hand side.
It is built from `m, b, k, bset` only: NOT from `a`, NOT from `freq`.  The dictionary has the single
key `"tf"`, i.e. the entry is not keyed by the model. -/
abbrev QSolver (α : Type) (nq : Nat) := FreqSc α → (Fin nq → α) → (Fin nq → α)

/-- one call `cbtf(m, b, k, a, freq, bset, save)` with a non-empty q-set, all frequencies:
`mk` stands for the constructor `ode.SolveUnc(m[qq], b[qq], k[qq], rb=[])` (it receives the three
q-q blocks); a solver found in `save` is used as it is, otherwise one is built and stored.
Returns the outputs per frequency and the dictionary after the call. -/
def cbtfCall {α : Type} [Zero α] [Add α] [Sub α] [Mul α] {n r nq nf : Nat}
    (mk : (Fin nq → Fin nq → α) → (Fin nq → Fin nq → α) → (Fin nq → Fin nq → α) → QSolver α nq)
    (save : Option (QSolver α nq))
    (M B K : Fin n → Fin n → α) (bpos : Fin r → Fin n) (qpos : Fin nq → Fin n)
    (loc : Fin n → Fin r ⊕ Fin nq) (scs : Fin nf → FreqSc α) (a : Fin r → Fin nf → α) :
    (Fin nf → CbtfOut α r n) × Option (QSolver α nq) :=
  let tf : QSolver α nq :=
    match save with
    | some t => t
    | none => mk (fun i j => M (qpos i) (qpos j)) (fun i j => B (qpos i) (qpos j))
        (fun i j => K (qpos i) (qpos j))
  (fun j => cbtfCol M B K bpos qpos loc tf (scs j) (fun l => a l j), some tf)

/-! ## `frclim.calcAM`, partition-vector route -/

/-- `AM[:, j, direc] = cbtf(m, b, k, eye(r)[direc], freq, bdof, save).frc[:, j]`: entry
`(l, direc)` of the apparent mass at one frequency (non-empty q-set) -/
def calcAMpvCol {α : Type} [Zero α] [One α] [Add α] [Sub α] [Mul α] {n r nq : Nat}
    (M B K : Fin n → Fin n → α) (bpos : Fin r → Fin n) (qpos : Fin nq → Fin n)
    (loc : Fin n → Fin r ⊕ Fin nq) (tf : QSolver α nq) (sc : FreqSc α) : Fin r → Fin r → α :=
  fun l direc =>
    (cbtfCol M B K bpos qpos loc tf sc (fun l' => if l' = direc then 1 else 0)).frc l

/-- the same for an empty q-set -/
def calcAMpvColE {α : Type} [Zero α] [One α] [Add α] [Mul α] {n r : Nat}
    (M B K : Fin n → Fin n → α) (bpos : Fin r → Fin n) (loc : Fin n → Fin r ⊕ Fin 0) (sc : FreqSc α) :
    Fin r → Fin r → α :=
  fun l direc => (cbtfColE M B K bpos loc sc (fun l' => if l' = direc then 1 else 0)).frc l

/-! ## argument packaging of `a` -/

/-- how `cbtf` reads its argument `a` (after `np.atleast_1d`): a vector of length `len` or a 2-d
array `rows × cols`; the result is the shape of the expanded `r × lenf` array or the `ValueError`
the routine raises.  (1-d or one column: expanded over all frequencies.) -/
inductive AShape where
  | vec (len : Nat)
  | mat (rows cols : Nat)

def packA (sh : AShape) (lenf nb : Nat) : Except String (Nat × Nat) :=
  let rc : Nat × Nat :=
    match sh with
    | .vec len => (len, lenf)
    | .mat rows cols => if cols = 1 then (rows, lenf) else (rows, cols)
  if rc.2 ≠ lenf then .error "`a` is not compatibly sized with `freq`"
  else if rc.1 ≠ nb then .error "number of rows in `a` not compatible with `bset`"
  else .ok rc

/-- entry `(l, j)` of the expanded `a` -/
def expandA {α : Type} (oneCol : Bool) (a : Nat → Nat → α) (l j : Nat) : α :=
  if oneCol then a l 0 else a l j

end PyYetiVerif.NT
