import PyYetiVerif.Model.Findap
/-
Model of `pyyeti.cyclecount.findap` AS IT IS NOW (after the repairs f8f6e40 and 4b29dcf; these were
the proved repair candidates of the third phase, hence the `…Fix` names), both source variants.
Core Lean only.

* default variant (`if not HAVE_NUMBA:`): `u = locate.find_unique(y, tol); if not np.all(u):
  u = _unique_kept(y, tol, u)`; then `yu = y[u]; s = sign(diff(yu)); pv[1:-1] = abs(diff(s)) == 2;
  pv[-1] = yu[-1] != yu[-2]; PV[u] = pv`.  `_unique_kept` returns the `find_unique` mask when its
  vectorised test passes (`fastOK`: no run of sub-tolerance steps leaves the `stol` band of its first
  sample, no super-tolerance step lands inside the band of the run it leaves) and otherwise the
  mask of the sequential scan "keep a sample iff it differs by more than `stol` from the last KEPT
  sample" (`hystMask`).
* numba variant (`else:` branch; source text only in this sandbox): the sequential scan with
  `prv`, `cur`, `j`, `mountain`; no size-2 special case; end rule `PV[j] = True`.
-/
namespace PyYetiVerif.Findap

variable {α : Type} [Sub α] [LT α] [DecidableLT α]

/-- hysteresis mask (without the leading `True`): a sample is kept iff it differs by more than
`st` from the last kept sample `h`. -/
def hystMask (st : α) : α → List α → List Bool
  | _, [] => []
  | h, x :: r => if st < absd x h then true :: hystMask st x r else false :: hystMask st h r

/-- vectorised test of the patch, part 1: `np.all(abs(y - y[head]) <= stol)` where `head` is the
index of the first sample of the run of sub-tolerance steps a sample belongs to. -/
def noDriftB (st : α) : α → α → List α → Bool
  | _, _, [] => true
  | h, p, x :: r =>
      if st < absd x p then noDriftB st x x r
      else !decide (st < absd x h) && noDriftB st h x r

/-- part 2: `np.all(abs(y[k] - y[head[k - 1]]) > stol)` over the run heads `k ≥ 1`. -/
def noReturnB (st : α) : α → α → List α → Bool
  | _, _, [] => true
  | h, p, x :: r =>
      if st < absd x p then decide (st < absd x h) && noReturnB st x x r
      else noReturnB st h x r

def fastOK (st a : α) (r : List α) : Bool := noDriftB st a a r && noReturnB st a a r

/-- the mask of the patched default variant -/
def fixMask (st a : α) (r : List α) : List Bool :=
  if fastOK st a r then uniqMask st a r else hystMask st a r

/-- patched default variant for a given `stol` -/
def findapDefFixSt (st : α) : List α → Option (List Bool)
  | [] => none
  | [_] => some [true]
  | a :: r =>
      let u := true :: fixMask st a r
      some (expand u (pvOf (select u (a :: r))))

def findapDefFix [Mul α] [Zero α] (tol : α) (y : List α) : Option (List Bool) :=
  findapDefFixSt (stol tol y) y

/-- the `for` loop of the patched numba variant; the end rule is `PV[j] = True`. -/
def loopSeqFix (st : α) : Bool → α → Nat → List α → Nat → List (Nat × α)
  | _, cur, j, [], _ => [(j, cur)]
  | m, cur, j, x :: r, i =>
      if st < absd x cur then
        if m then
          if x < cur then (j, cur) :: loopSeqFix st false x i r (i + 1)
          else loopSeqFix st true x i r (i + 1)
        else
          if cur < x then (j, cur) :: loopSeqFix st true x i r (i + 1)
          else loopSeqFix st false x i r (i + 1)
      else loopSeqFix st m cur j r (i + 1)

/-- patched numba variant for a given `stol`; `none` = empty input (`ValueError`). -/
def findapSeqFixSt (st : α) : List α → Option (List (Nat × α))
  | [] => none
  | [a] => some [(0, a)]
  | a :: r =>
      match skipInit st a r 1 with
      | none => some [(0, a)]
      | some (cur, j, rest) => some ((0, a) :: loopSeqFix st (decide (a < cur)) cur j rest (j + 1))

def findapSeqFix [Mul α] [Zero α] (tol : α) (y : List α) : Option (List (Nat × α)) :=
  findapSeqFixSt (stol tol y) y

end PyYetiVerif.Findap
