import PyYetiVerif.Model.Findap
/-
REPAIR CANDIDATES for `pyyeti.cyclecount.findap` (findings F4, F14, F22, F23) — models of the
*patched* functions of `corpus/c10_F4_candidate_fix.diff` and
`corpus/c10_F14_F22_F23_candidate_fix.diff`.  Nothing here models code that exists in /repo; the
models are tied to the patched text by `corpus/c10_candidate_fix_check.py` (run in a scratch
worktree).  Core Lean only.

* default variant (F4): the de-duplication mask compares with the last KEPT sample (hysteresis)
  instead of the previous sample; the patch keeps the vectorised `find_unique` mask whenever a
  vectorised test shows that both masks coincide (`fastOK`: no run of sub-tolerance steps leaves
  the `stol` band of its first sample, and no super-tolerance step lands inside the band of the run
  it leaves) and runs the sequential scan otherwise.
* numba variant (F14, F22, F23): the size-2 special case is deleted (the general code handles it
  and honours `tol`), the end rule is `PV[j] = True` (the held candidate), `nxt` is no longer read
  after the loop.
-/
namespace PyYetiVerif.Findap

variable {α : Type} [Sub α] [LT α] [DecidableLT α]

/-- hysteresis mask (without the leading `True`): a sample is kept iff it differs by more than
`st` from the last kept sample `h`. -/
def hystMask (st : α) : α → List α → List Bool
  | _, [] => []
  | h, x :: r => if st < absd x h then true :: hystMask st x r else false :: hystMask st h r

/-- vectorised test of the patch, part 1: `np.all(abs(y - y[head]) <= stol)` where `head` is the
index of the first sample of the run of sub-tolerance steps a sample belongs to. -/
def noDriftB (st : α) : α → α → List α → Bool
  | _, _, [] => true
  | h, p, x :: r =>
      if st < absd x p then noDriftB st x x r
      else !decide (st < absd x h) && noDriftB st h x r

/-- part 2: `np.all(abs(y[k] - y[head[k - 1]]) > stol)` over the run heads `k ≥ 1`. -/
def noReturnB (st : α) : α → α → List α → Bool
  | _, _, [] => true
  | h, p, x :: r =>
      if st < absd x p then decide (st < absd x h) && noReturnB st x x r
      else noReturnB st h x r

def fastOK (st a : α) (r : List α) : Bool := noDriftB st a a r && noReturnB st a a r

/-- the mask of the patched default variant -/
def fixMask (st a : α) (r : List α) : List Bool :=
  if fastOK st a r then uniqMask st a r else hystMask st a r

/-- patched default variant for a given `stol` -/
def findapDefFixSt (st : α) : List α → Option (List Bool)
  | [] => none
  | [_] => some [true]
  | a :: r =>
      let u := true :: fixMask st a r
      some (expand u (pvOf (select u (a :: r))))

def findapDefFix [Mul α] [Zero α] (tol : α) (y : List α) : Option (List Bool) :=
  findapDefFixSt (stol tol y) y

/-- the `for` loop of the patched numba variant; the end rule is `PV[j] = True`. -/
def loopSeqFix (st : α) : Bool → α → Nat → List α → Nat → List (Nat × α)
  | _, cur, j, [], _ => [(j, cur)]
  | m, cur, j, x :: r, i =>
      if st < absd x cur then
        if m then
          if x < cur then (j, cur) :: loopSeqFix st false x i r (i + 1)
          else loopSeqFix st true x i r (i + 1)
        else
          if cur < x then (j, cur) :: loopSeqFix st true x i r (i + 1)
          else loopSeqFix st false x i r (i + 1)
      else loopSeqFix st m cur j r (i + 1)

/-- patched numba variant for a given `stol`; `none` = empty input (`ValueError`). -/
def findapSeqFixSt (st : α) : List α → Option (List (Nat × α))
  | [] => none
  | [a] => some [(0, a)]
  | a :: r =>
      match skipInit st a r 1 with
      | none => some [(0, a)]
      | some (cur, j, rest) => some ((0, a) :: loopSeqFix st (decide (a < cur)) cur j rest (j + 1))

def findapSeqFix [Mul α] [Zero α] (tol : α) (y : List α) : Option (List (Nat × α)) :=
  findapSeqFixSt (stol tol y) y

end PyYetiVerif.Findap
