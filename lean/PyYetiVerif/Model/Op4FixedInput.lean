import PyYetiVerif.Model.Op4Fixed
import PyYetiVerif.Model.Op4Input
/-!
C04: the binary writer with `_split_strings` (F2 repaired, 27f7d6b) on a scipy.sparse input and on the arguments
of `write`: the `else  # sparse matrix` branch of `_write_binary_sparse` passes `ind = _sparse_col_stats(rs[pv])`
through `OP4._split_strings(ind, maxlen)` before the column header is written and slices `coldata` by the split
`ind`.  Core Lean only.
-/
namespace PyYetiVerif.Op4
open PyYetiVerif.Generated.Op4Consts

/-- the strings of a column of a sparse input, repaired writer: `ind = _split_strings(_sparse_col_stats(rs[pv]),
maxlen)`, `coldata[j : j + r1]; j += r1` -/
def spStringsFx (cplx : Bool) (ce : List (Nat × Entry)) : List (Nat × List Entry) :=
  sliceRuns (splitStrings (maxStrRows cplx) (colStats (ce.map (·.1)))) (ce.map (·.2))

def encColSpFx (add : Nat → Nat → Nat) (e : Endian) (lay : Layout) (A : SpIn) (c : Nat) : List Nat :=
  match lay with
  | .nonbigmat => encColNonbigS e A.cplx c (spStringsFx A.cplx (colEntries add A c))
  | l => encColSp add e l A c

/-- one sparse-input matrix as words, repaired writer; `none` = `struct.error` on a packed `IS` -/
def encMatWordsSpFx (add : Nat → Nat → Nat) (e : Endian) (lay : Layout) (name : List Nat) (form : Nat) (A : SpIn) :
    Option (List Nat) :=
  match lay with
  | .nonbigmat =>
    if (colsWithData add A).all (fun c => stringsFitS A.cplx (spStringsFx A.cplx (colEntries add A c))) then
      some (headerWordsG e name form A.cplx A.rows A.ncols false
        ++ ((colsWithData add A).flatMap (encColSpFx add e .nonbigmat A) ++ trailerWords e A.ncols))
    else none
  | l => encMatWordsSp add e l name form A

/-- `writeOneWords` for the repaired writer: every `struct.pack` checked -/
def writeOneWordsFx (add : Nat → Nat → Nat) (e : Endian) (lay : Layout) : WMat → Except WriteErr (List Nat)
  | .nd m => writeMatWordsFx e lay m
  | .sp name form A =>
    if A.rows > 2147483647 ∨ A.ncols > 2147483647 then .error .valueError
    else if form < 2147483648 ∧ A.ncols + 1 < 2147483648 ∧
        (List.range A.ncols).all (fun c => decide (recLenFx lay A.cplx (denseCol add A c) < 2147483648)) = true
        then
      match encMatWordsSpFx add e lay name form A with
      | some ws => .ok ws
      | none => .error .structError
    else .error .structError

def writeAllWordsFx (add : Nat → Nat → Nat) (e : Endian) : List (Layout × WMat) → Except WriteErr (List Nat)
  | [] => .ok []
  | (l, w) :: t => do
    let a ← writeOneWordsFx add e l w
    let b ← writeAllWordsFx add e t
    pure (a ++ b)

end PyYetiVerif.Op4
