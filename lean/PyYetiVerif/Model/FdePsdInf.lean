import PyYetiVerif.Model.FdePsd
/-
Model of the `G2max` update of `pyyeti.fdepsd.fdepsd` INCLUDING the division by zero:
`G2max[j] = x[k] * y1 / (y1 - y[k])` on numpy float64 scalars.  When the selected level's
cumulative count equals the total (`y[k] == y1`) the denominator is `0.0` and numpy returns
`+inf` / `-inf` / `nan` by the sign of the numerator (with a RuntimeWarning, no exception).
Core Lean only.
-/
namespace PyYetiVerif.Fde

/-- a float64 result that may be infinite or NaN -/
inductive Xv (α : Type) where
  | fin (v : α)
  | pinf
  | ninf
  | nan

section g2x
variable {α : Type} [Add α] [Sub α] [Mul α] [Div α] [NatCast α] [Zero α] [LT α] [DecidableLT α]
  [TransOps α]

/-- `d == 0.0` for a `d` that is not NaN (here: a difference of logarithms of positive finite
counts) -/
def isZero (d : α) : Bool := !decide (d < 0) && !decide (0 < d)

/-- numpy's `num / den` for finite `num`: `x / 0.0` is `inf` for `x > 0`, `-inf` for `x < 0`,
`nan` for `0.0 / 0.0` -/
def divX (num den : α) : Xv α :=
  if isZero den then (if 0 < num then .pinf else if num < 0 then .ninf else .nan)
  else .fin (num / den)

/-- one pass of the `for j in range(LF)` loop that computes `G2max[j]`, with the value numpy
produces when `y1 - y[k]` is zero (`Fde.g2max` is the same text over a field, where the case is
excluded by hypothesis). -/
def g2maxX (am : α) (levels counts : List α) : Xv α :=
  match counts with
  | [] => .fin (am * am)
  | c0 :: _ =>
      let y1 := TransOps.log c0
      match g2cands am y1 levels counts with
      | [] => .fin (am * am)
      | t :: ts =>
          let k := argmaxT t ts
          if 0 < k.2.2 then divX (k.1 * y1) (y1 - k.2.1) else .fin (am * am)

end g2x

end PyYetiVerif.Fde
