/-
Effect skeletons of the functions of `pyyeti/stats.py` (C20: `arguments_unchanged`).  Core Lean only.

`harness/translate/c20_stats.py` reduces every function body to the statements that matter for
aliasing and in-place modification (`Generated/C20Stats.lean`):

* `share x y`   `x = np.asarray(y)` or `x = y`: afterwards `x` may share `y`'s buffer
* `fresh x`     `x = <expression that creates a new object>`
* `write x`     `x.flat = …`, `x[…] = …`, `x op= …`: the buffer bound to `x` is modified
* `seq`, `alt` (if/else), `loop` (while; any number of passes)

`absRun` is a (flow-sensitive) taint analysis: the state is the list of variables that *may* hold one
of the caller's buffers; it fails (`none`) as soon as a possibly-tainted variable is written.  Its
soundness with respect to the buffer semantics is `Effects.absRun_sound` (Lemmas/OrderStatsEffects.lean),
the property theorem is `C20.arguments_unchanged`.
-/
namespace PyYetiVerif.Effects

inductive Prog
  | skip
  | share (x src : Nat)
  | fresh (x : Nat)
  | write (x : Nat)
  | seq (a b : Prog)
  | alt (a b : Prog)
  | loop (body : Prog)

/-- variables that may hold a buffer owned by the caller -/
abbrev Taint := List Nat

/-- iterate the loop body's transfer function until the taint set is stable -/
def loopFix (f : Taint → Option Taint) : Nat → Taint → Option Taint
  | 0, _ => none
  | k + 1, S =>
      match f S with
      | none => none
      | some S' => if S'.all (fun v => decide (v ∈ S)) then some S else loopFix f k (S ++ S')

/-- passes allowed for reaching the fixed point (a function with `m` variables needs at most `m + 1`) -/
def loopFuel : Nat := 16

def absRun : Prog → Taint → Option Taint
  | .skip, S => some S
  | .share x src, S => some (if src ∈ S then x :: S else S.filter (· ≠ x))
  | .fresh x, S => some (S.filter (· ≠ x))
  | .write x, S => if x ∈ S then none else some S
  | .seq a b, S => (absRun a S).bind (absRun b)
  | .alt a b, S =>
      match absRun a S, absRun b S with
      | some A, some B => some (A ++ B)
      | _, _ => none
  | .loop body, S => loopFix (absRun body) loopFuel S

/-- the function never writes a buffer that one of its first `k` variables (the parameters) was
bound to on entry, nor one reachable from them through `share` -/
def safe (k : Nat) (p : Prog) : Bool := (absRun p (List.range k)).isSome

end PyYetiVerif.Effects
