import PyYetiVerif.Model.Op4Ascii
import PyYetiVerif.Model.Op4VariantsRead
/-!
C11 — the name-list loop of the ASCII OUTPUT4 reader, on top of the ASCII reader model of
Model/Op4Ascii.lean (C04's: `rdHeader`, `rdMatrixA`, `skipCols`, `dirA`, imported read-only).

`_loadop4_ascii(patternlist)` is one `while 1` loop: read the title line, `_check_name`, then either
`_skipop4_ascii` (name not asked for) and go on, or read the matrix.  `skipMatrixA` is the
"title line + `_skipop4_ascii` + trailing `readline()`" step that `dir` (`dirA`) iterates, as a function of
its own, so that the listing and the name-list loop are stated with the same step.  Core Lean only.
-/
namespace PyYetiVerif.Op4VA
open PyYetiVerif.Op4 (checkName)
open PyYetiVerif.Op4A
open PyYetiVerif.Generated.Op4Consts

/-- one step of `dir` on an ASCII file: the title line, `_skipop4_ascii`, and the `readline()` that follows
the trailer's header line; `some none` = end of file -/
def skipMatrixA (ls : List Str) : Option (Option (Hdr × List Str)) :=
  match ls with
  | [] => some none
  | l0 :: ls1 =>
    match rdHeader l0 with
    | none => none
    | some none => some none
    | some (some h) =>
      match ls1 with
      | [] => none
      | line :: ls2 =>
        match pyInt? (slice line 0 8), pyInt? (slice line 8 16) with
        | some c1, some r =>
          let kind := if r > 0 then 0 else if h.rows < 0 ∨ h.rows ≥ rows4bigmat then 1 else 2
          match skipCols kind (if h.mtype % 2 = 1 then 1 else 2) h.perline h.cols (ls2.length + 1) (c1 - 1) line ls2 with
          | some rest => some (some (h, rest.drop 1))
          | none => none
        | _, _ => none

/-- one line of `dir`: name field, `abs(rows)`, columns, form, type -/
def listingH (h : Hdr) : Str × Int × Int × Int × Int :=
  (h.name, (if h.rows < 0 then -h.rows else h.rows), h.cols, h.form, h.mtype)

def listingA (d : ADec) : Str × Int × Int × Int × Int :=
  (d.rawName, (if d.rows < 0 then -d.rows else d.rows), d.cols, d.form, d.mtype)

/-- the loop of `listload(file, namelist=pl)` over `_loadop4_ascii(patternlist=pl)`: every title line met is
counted by `_check_name`; a matrix whose name is not asked for is skipped by `_skipop4_ascii` -/
def loadLoopA (dformat : Bool) (pl : List (List Nat)) : Nat → Nat → List Str → Option (List (List Nat × ADec))
  | 0, _, _ => none
  | fuel + 1, count, ls =>
    match ls with
    | [] => some []
    | l0 :: _ =>
      match rdHeader l0 with
      | none => none
      | some none => some []
      | some (some h) =>
        let name := checkName count (h.name.map Char.toNat)
        if Op4VR.skipped pl name then
          match skipMatrixA ls with
          | some (some (_, rest)) => loadLoopA dformat pl fuel (count + 1) rest
          | _ => none
        else
          match rdMatrixA dformat ls with
          | some (some (d, rest)) => (loadLoopA dformat pl fuel (count + 1) rest).map ((name, d) :: ·)
          | _ => none

/-- the names `_check_name` gives the matrices of a file, in order (`count` = matrices met before) -/
def namedFrom : Nat → List ADec → List (List Nat × ADec)
  | _, [] => []
  | i, d :: t => (checkName i (d.rawName.map Char.toNat), d) :: namedFrom (i + 1) t

/-- `op4.load(file, namelist=pl, into='list')` on an ASCII file -/
def loadAsciiNamed (pl : List (List Nat)) (cs : Str) : Option (List (List Nat × ADec)) :=
  if isAsciiFile cs then
    let ls := linesOf cs
    loadLoopA (detectD ls) pl (ls.length + 1) 0 ls
  else none

end PyYetiVerif.Op4VA
