import PyYetiVerif.Model.Op4Sparse
import PyYetiVerif.Model.PyFloat
/-!
Third part of the model of pyyeti/nastran/op4.py for C04 (core Lean only): what `OP4.write` does with its
arguments before a matrix reaches a writer —

* `names` / `matrices` / `forms` plumbing: a mapping (`names.items()`: insertion order, value `matrix` or
  `(matrix, form)`), or a list / single name with a list / single matrix and `forms` `None`, a single form or a
  list; the three lists are consumed by `zip` (the shortest one wins, silently);
* `_check_write_names` on the *whole* list of names (`writeName i name`, `i` the position in that list);
* `_ensure_2d_dp`: `np.atleast_2d` (0-d → 1×1, 1-d of `n` → **1×n**, more than 2-d → `ValueError`), then
  `_ensure_dp` (`astype(float64)` / `astype(complex128)`: float32 widened exactly, integers and booleans
  converted, rounding to nearest-even above `2^53`); a scipy.sparse input becomes `(m,) + sp.find(m)`;
* the automatic form of `_get_header_info` / `_is_symmetric` (`np.allclose` is a parameter `close` of the model:
  the comparison of two elements);
* the layout (`resolveLayout`), an invalid `sparse` option (`ValueError` before the file is opened), the file
  mode (`open(filename, "wb")` / `"w"`: every call to `write` replaces the file — there is no append mode).

Memory order, strides and byte order of an ndarray are not part of its value: the model takes the logical
elements in row-major order (the tie checks F-ordered, strided and byte-swapped inputs against it).
-/
namespace PyYetiVerif.Op4
open PyYetiVerif.Generated.Op4Consts

/-! ## 1. elements -/

/-- one real scalar as a numpy array holds it -/
inductive Raw
  | f64 (bits : Nat)
  | f32 (bits : Nat)
  | int (n : Int)
  | bool (b : Bool)
deriving Repr, DecidableEq

/-- `float32 → float64`: exact (`PyFloat.toBits` is correctly rounded, the value is representable) -/
def widen32 (b : Nat) : Nat :=
  let neg := b / 2147483648 % 2 == 1
  let ef := b / 8388608 % 256
  let mf := b % 8388608
  if ef = 0 then PyFloat.toBits neg mf (2 ^ 149)
  else if ef ≥ 150 then PyFloat.toBits neg ((mf + 8388608) * 2 ^ (ef - 150)) 1
  else PyFloat.toBits neg (mf + 8388608) (2 ^ (150 - ef))

/-- `x.astype(np.float64)` for one scalar -/
def Raw.toD : Raw → Nat
  | .f64 b => b
  | .f32 b => widen32 b
  | .int n => PyFloat.toBits (decide (n < 0)) n.natAbs 1
  | .bool b => if b then 0x3FF0000000000000 else 0

/-! ## 2. `_ensure_2d_dp` -/

/-- an ndarray (or anything `np.atleast_2d` accepts): shape, `np.iscomplexobj`, the logical elements in
row-major order as `(real, imaginary)` (`imaginary` ignored for a real array) -/
structure NdIn where
  shape : List Nat
  cplx : Bool
  elems : List (Raw × Raw)
deriving Repr, DecidableEq

inductive MatIn
  | nd (a : NdIn)
  | sp (A : SpIn)        -- scipy.sparse, double precision values
deriving Repr, DecidableEq

/-- `np.atleast_2d(m).shape`; `none` = `ValueError("found array with greater than 2 dimensions.")` -/
def atleast2d : List Nat → Option (Nat × Nat)
  | [] => some (1, 1)
  | [n] => some (1, n)
  | [r, c] => some (r, c)
  | _ => none

def entryOfRaw (cplx : Bool) (x : Raw × Raw) : Entry := (x.1.toD, if cplx then x.2.toD else 0)

/-- column `j` of a `r × c` row-major array -/
def colOfRowMajor (cplx : Bool) (r c : Nat) (elems : List (Raw × Raw)) (j : Nat) : List Entry :=
  (List.range r).map fun i => entryOfRaw cplx (elems.getD (i * c + j) (.f64 0, .f64 0))

def colsOfNd (a : NdIn) (r c : Nat) : List (List Entry) := (List.range c).map (colOfRowMajor a.cplx r c a.elems)

/-! ## 3. the automatic form -/

def getE (cols : List (List Entry)) (i j : Nat) : Entry := ((cols.getD j []).getD i (0, 0))

/-- `_get_header_info(matrix, form=None)`: 2 if not square, else 6 if `_is_symmetric` else 1.
ndarray: `np.allclose(m.T, m)` — every pair `close (m[j,i]) (m[i,j])`; sparse tuple: the strictly lower and
strictly upper found entries mirror each other and `close lower upper` -/
def autoForm (close : Entry → Entry → Bool) (sparseIn : Bool) (cplx : Bool) (rows : Nat) (cols : List (List Entry)) :
    Nat :=
  if rows ≠ cols.length then 2 else
  let idx := (List.range rows).flatMap fun i => (List.range rows).map fun j => (i, j)
  let ok :=
    if sparseIn then
      idx.all fun (i, j) =>
        if i > j then
          let lo := getE cols i j
          let up := getE cols j i
          let zl := lo.isZero cplx
          let zu := up.isZero cplx
          if zl && zu then true else if zl != zu then false else close lo up
        else true
    else
      idx.all fun (i, j) => close (getE cols j i) (getE cols i j)
  if ok then 6 else 1

/-! ## 4. `write`: arguments -/

abbrev Name := List Nat

inductive DictVal
  | mat (m : MatIn)
  | pair (m : MatIn) (form : Option Nat)     -- `(matrix, form)`, `form` may be `None`
deriving Repr, DecidableEq

inductive NamesArg
  | dict (items : List (Name × DictVal))
  | list (ns : List Name)
  | one (n : Name)
deriving Repr, DecidableEq

inductive MatsArg
  | list (ms : List MatIn)
  | one (m : MatIn)
deriving Repr, DecidableEq

inductive FormsArg
  | none
  | one (f : Nat)
  | list (fs : List (Option Nat))
deriving Repr, DecidableEq

/-- the three lists `write` zips: names (before `_check_write_names`), matrices, forms -/
def plumb (names : NamesArg) (mats : MatsArg) (forms : FormsArg) : List Name × List MatIn × List (Option Nat) :=
  match names with
  | .dict items =>
    (items.map (·.1),
     items.map (fun it => match it.2 with | .mat m => m | .pair m _ => m),
     items.map (fun it => match it.2 with | .mat _ => Option.none | .pair _ f => f))
  | _ =>
    let ns := match names with | .list ns => ns | .one n => [n] | .dict _ => []
    let ms := match mats with | .list ms => ms | .one m => [m]
    let fs := match forms with
      | .none => List.replicate ns.length Option.none
      | .one f => [some f]
      | .list fs => fs
    (ns, ms, fs)

def checkNames : Nat → List Name → List Name
  | _, [] => []
  | i, n :: t => writeName i n :: checkNames (i + 1) t

def zip3 {α β γ} : List α → List β → List γ → List (α × β × γ)
  | a :: as, b :: bs, c :: cs => (a, b, c) :: zip3 as bs cs
  | _, _, _ => []

/-- a matrix as a writer receives it -/
inductive WMat
  | nd (m : Mat)
  | sp (name : Name) (form : Nat) (A : SpIn)
deriving Repr, DecidableEq

/-- `_ensure_2d_dp` + the form; `none` = `ValueError` (more than two dimensions) -/
def normOne (close : Entry → Entry → Bool) (add : Nat → Nat → Nat) (name : Name) (form : Option Nat) :
    MatIn → Option WMat
  | .nd a =>
    match atleast2d a.shape with
    | none => Option.none
    | some (r, c) =>
      let cols := colsOfNd a r c
      some (.nd { name := name, form := form.getD (autoForm close false a.cplx r cols), cplx := a.cplx, rows := r,
                  cols := cols })
  | .sp A =>
    some (.sp name (form.getD (autoForm close true A.cplx A.rows ((denseMat add name 0 A).cols))) A)

def WMat.isSparse : WMat → Bool
  | .nd _ => false
  | .sp .. => true

def WMat.rows : WMat → Nat
  | .nd m => m.rows
  | .sp _ _ A => A.rows

/-- the ndarray matrix a `WMat` stands for -/
def WMat.dense (add : Nat → Nat → Nat) : WMat → Mat
  | .nd m => m
  | .sp name form A => denseMat add name form A

/-- everything before the file is opened: the zipped, normalised matrices with their layouts.
`opt = none` is `sparse='auto'`; an invalid `sparse` string never gets here (`ValueError`) -/
def prepare (close : Entry → Entry → Bool) (add : Nat → Nat → Nat) (opt : Option Layout)
    (names : NamesArg) (mats : MatsArg) (forms : FormsArg) : Option (List (Layout × WMat)) :=
  let p := plumb names mats forms
  -- `matrices = [_ensure_2d_dp(matrix) for matrix in matrices]` looks at *every* matrix, zipped or not
  if p.2.1.any (fun m => match m with | .nd a => (atleast2d a.shape).isNone | .sp _ => false) then Option.none else
  (zip3 (checkNames 0 p.1) p.2.1 p.2.2).mapM fun (n, m, f) =>
    (normOne close add n f m).map fun w => (resolveLayout opt w.isSparse w.rows, w)

/-- `_write_binary*` for one prepared matrix, every `struct.pack` checked.  A sparse input goes through the
`else` branches, whose integers are Python / int64 integers: they fail exactly like the ndarray path -/
def writeOneWords (add : Nat → Nat → Nat) (e : Endian) (lay : Layout) : WMat → Except WriteErr (List Nat)
  | .nd m => writeMatWords e lay m
  | .sp name form A =>
    if A.rows > 2147483647 ∨ A.ncols > 2147483647 then .error .valueError
    else if form < 2147483648 ∧ A.ncols + 1 < 2147483648 ∧
        (List.range A.ncols).all (fun c => decide (recLen lay A.cplx (denseCol add A c) < 2147483648)) = true
        then
      match encMatWordsSp add e lay name form A with
      | some ws => .ok ws
      | none => .error .structError
    else .error .structError

def writeAllWords (add : Nat → Nat → Nat) (e : Endian) : List (Layout × WMat) → Except WriteErr (List Nat)
  | [] => .ok []
  | (l, w) :: t => do
    let a ← writeOneWords add e l w
    let b ← writeAllWords add e t
    pure (a ++ b)

def writeOneAscii (add : Nat → Nat → Nat) (d : Nat) (lay : Layout) : WMat → List Char
  | .nd m => encMatAscii d lay m
  | .sp name form A => encMatAsciiSp add d lay name form A

/-- the content of the file after a sequence of `write` calls to the same path: the last one
(`open(filename, "wb")` truncates) -/
def fileAfter {α} (init : List α) : List (List α) → List α
  | [] => init
  | [x] => x
  | _ :: t => fileAfter init t

end PyYetiVerif.Op4
