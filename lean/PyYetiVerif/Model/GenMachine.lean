/-
Model of the step-at-a-time generator interface of pyyeti's time-domain solvers
(pyyeti/ode/solveunc.py `_solve_real_unc_generator`, `_solve_complex_unc_generator`,
`_solve_real_unc_generator_cdforces`; pyyeti/ode/solveexp2.py `_solve_se2_generator`;
pyyeti/ode/_base_ode_class.py `_init_dva_part`, `finalize`).  Core Lean only.

Every generator is a loop `j, F1 = yield` around one linear one-step map

    x_i = T x_{i-1} + P f_{i-1} + Q f_i          (order 0: Q = 0)
    r_i = S f_i                                  (static rows: residual-flexibility
                                                  displacement, rigid-body acceleration)

with `x = (d, v)` on the non-static rows.  `send((i, f))` stores `f` in `Force[:, i]` and
recomputes column `i` from column `i - 1`; `send((-1, f))` adds `f` to `Force[:, i]`, `Q f` to
`x_i` and `S f` to `r_i` for the `i` of the last send.  The arrays `d, v, Force` are shared
with the caller; `finalize` computes the acceleration column by column from them.

Companion models: `GenMachineInit.lean` (what happens before the first `send` and in `finalize`),
`GenMachineInst.lean` (the real-uncoupled, SolveExp2 and complex generators statement by
statement), `GenMachineApi.lean` (call sequences on one solver object).

Three layers:
  * `step`/`run`        the abstract machine over any types with `+` (arrays are `Nat → _`);
  * `stepApi`/`runApi`  what the Python code does with *any* request on an `nt`-column array
                        (add-on before the first send: the loop variable `i` is unbound;
                        `i ≥ nt`: IndexError; `i = 0`: column `-1 = nt-1` is the predecessor;
                        `i > last+1`: accepted, reads whatever the array holds);
  * `cdfStep`/`cdfRun`  the concrete cd-as-force generator with its hidden state
                        `dmpfrc1`, `i_last` (cached off-diagonal damping force).
-/
namespace PyYetiVerif.GenMachine

/-- array-column assignment `g[:, i] = a` -/
def upd {α : Type} (g : Nat → α) (i : Nat) (a : α) : Nat → α :=
  fun j => if j = i then a else g j

/-- the one-step map -/
structure Lin (V X W : Type) where
  T : X → X
  P : V → X
  Q : V → X
  S : V → W

/-- a request: `send i f` is `gen.send((i, f))`, `addon f` is `gen.send((-1, f))` -/
inductive Op (V : Type) where
  | send (i : Nat) (f : V)
  | addon (f : V)

/-- `cur` is the loop variable `i` of the generator, `force`/`x`/`r` the shared arrays -/
structure State (V X W : Type) where
  cur : Nat
  force : Nat → V
  x : Nat → X
  r : Nat → W

section machine
variable {V X W : Type} [Add V] [Add X] [Add W]

/-- the `else` branch of the loop with predecessor column `prev` (the code's `i - 1`) -/
def sendAt (L : Lin V X W) (s : State V X W) (prev i : Nat) (f : V) : State V X W :=
  { cur := i
    force := upd s.force i f
    x := upd s.x i (L.T (s.x prev) + L.P (s.force prev) + L.Q f)
    r := upd s.r i (L.S f) }

/-- the `j < 0` branch -/
def addonAt (L : Lin V X W) (s : State V X W) (f : V) : State V X W :=
  { s with
    force := upd s.force s.cur (s.force s.cur + f)
    x := upd s.x s.cur (s.x s.cur + L.Q f)
    r := upd s.r s.cur (s.r s.cur + L.S f) }

def step (L : Lin V X W) (s : State V X W) : Op V → State V X W
  | .send i f => sendAt L s (i - 1) i f
  | .addon f => addonAt L s f

def run (L : Lin V X W) (s : State V X W) (ops : List (Op V)) : State V X W :=
  ops.foldl (step L) s

/-- the documented protocol: `1 ≤ i ≤ last + 1` (index zero cannot be redone, no step may be
skipped), add-on only after a send -/
def ValidOp (s : State V X W) : Op V → Prop
  | .send i _ => 1 ≤ i ∧ i ≤ s.cur + 1
  | .addon _ => 1 ≤ s.cur

def Valid (L : Lin V X W) : State V X W → List (Op V) → Prop
  | _, [] => True
  | s, op :: ops => ValidOp s op ∧ Valid L (step L s op) ops

/-- all sends stay inside an `nt`-column array -/
def InHorizon (nt : Nat) : List (Op V) → Prop
  | [] => True
  | .send i _ :: ops => i < nt ∧ InHorizon nt ops
  | .addon _ :: ops => InHorizon nt ops

/-- batch recurrence of `tsolve` on a force history -/
def batch (L : Lin V X W) (f : Nat → V) (x0 : X) : Nat → X
  | 0 => x0
  | j + 1 => L.T (batch L f x0 j) + L.P (f j) + L.Q (f (j + 1))

/-- the invariant: the visible arrays hold the batch values of the force currently in effect
on all completed steps -/
def Inv (L : Lin V X W) (s : State V X W) : Prop :=
  ∀ j, 1 ≤ j → j ≤ s.cur →
    s.x j = L.T (s.x (j - 1)) + L.P (s.force (j - 1)) + L.Q (s.force j) ∧
    s.r j = L.S (s.force j)

/-- additivity of the maps an add-on goes through -/
structure AddOnAdditive (L : Lin V X W) : Prop where
  Q_add : ∀ a b, L.Q (a + b) = L.Q a + L.Q b
  S_add : ∀ a b, L.S (a + b) = L.S a + L.S b

/-- `_init_dva_part`: zero arrays, column 0 set from `F0`, the initial conditions and the
static rows of `F0` -/
def init [Zero V] [Zero X] [Zero W] (L : Lin V X W) (f0 : V) (x0 : X) : State V X W :=
  { cur := 0
    force := upd (fun _ => 0) 0 f0
    x := upd (fun _ => 0) 0 x0
    r := upd (fun _ => 0) 0 (L.S f0) }

/-- one column of what `finalize` / `tsolve` return: `acc` is `_calc_acce_kdof` (equilibrium)
applied to that column -/
def column {A : Type} (acc : X → V → A) (x : Nat → X) (r : Nat → W) (f : Nat → V) (j : Nat) :
    X × W × A := (x j, r j, acc (x j) (f j))

def finalize {A : Type} (acc : X → V → A) (s : State V X W) (j : Nat) : X × W × A :=
  column acc s.x s.r s.force j

def tsolve {A : Type} (L : Lin V X W) (acc : X → V → A) (f : Nat → V) (x0 : X) (j : Nat) :
    X × W × A :=
  column acc (batch L f x0) (fun j => L.S (f j)) f j

/-- `get_f2x` seen abstractly: the interface force `g` is mapped to solver coordinates by `inj`
(`phi.T @ g`), goes through the add-on blocks `Q` and `S`, and is read out by `obs`
(`phi @ ·` on the displacement or on the velocity rows) -/
def f2x {Y G : Type} (L : Lin V X W) (obs : X → W → Y) (inj : G → V) (g : G) : Y :=
  obs (L.Q (inj g)) (L.S (inj g))

/-- what `get_f2x` returns: "A zeros matrix is returned if `order` is 0" (documented; for the
zero-order hold the add-on leaves `d, v` of the dynamic rows unchanged, and the static
residual-flexibility response is deliberately not reported) -/
def apiF2x {Y G : Type} [Zero Y] (order1 : Bool) (L : Lin V X W) (obs : X → W → Y) (inj : G → V)
    (g : G) : Y :=
  if order1 then f2x L obs inj g else 0

/-! ### what the code does with any request -/

inductive Err where
  | unbound   -- UnboundLocalError: add-on before the first send
  | index     -- IndexError: column index ≥ nt
  deriving DecidableEq, Repr

structure ApiState (V X W : Type) where
  started : Bool
  s : State V X W

def stepApi (L : Lin V X W) (nt : Nat) (a : ApiState V X W) : Op V → Except Err (ApiState V X W)
  | .addon f => if a.started then .ok { a with s := addonAt L a.s f } else .error .unbound
  | .send i f =>
      if nt ≤ i then .error .index
      else .ok ⟨true, sendAt L a.s (if i = 0 then nt - 1 else i - 1) i f⟩

def runApi (L : Lin V X W) (nt : Nat) (a : ApiState V X W) :
    List (Op V) → Except Err (ApiState V X W)
  | [] => .ok a
  | op :: ops => match stepApi L nt a op with
      | .ok a' => runApi L nt a' ops
      | .error e => .error e

end machine

/-! ### the cd-as-force generator (`_solve_real_unc_generator_cdforces`) -/

/-- `F … Bp` are the diagonal integration coefficients, `alpha = bo (I + Bp bo)⁻¹`, `bo` the
off-diagonal damping; `K` selects the `kdof` rows of a force vector, `S` is the
residual-flexibility map on its `rf` rows -/
structure CdfCoef (V M W : Type) where
  F : M → M
  G : M → M
  A : M → M
  B : M → M
  Fp : M → M
  Gp : M → M
  Ap : M → M
  Bp : M → M
  alpha : M → M
  bo : M → M
  K : V → M
  S : V → W
  order1 : Bool

/-- shared arrays plus the two local variables the generator keeps between sends -/
structure CdfState (V M W : Type) where
  cur : Nat
  force : Nat → V
  d : Nat → M
  v : Nat → M
  r : Nat → W
  dmp : M        -- dmpfrc1
  ilast : Nat    -- i_last

/-- a column of `(d, v)` on the `kdof` rows (core Lean has no `+` on pairs) -/
structure DV (M : Type) where
  d : M
  v : M

instance {M : Type} [Add M] : Add (DV M) := ⟨fun a b => ⟨a.d + b.d, a.v + b.v⟩⟩
instance {M : Type} [Zero M] : Zero (DV M) := ⟨⟨0, 0⟩⟩

section cdf
variable {V M W : Type} [Add V] [Add M] [Sub M] [Zero M] [Add W]

/-- the `else` branch; `cache` says whether `i_last == i - 1` held -/
def cdfSendAt (c : CdfCoef V M W) (s : CdfState V M W) (prev i : Nat) (cache : Bool) (f : V) :
    CdfState V M W :=
  let f0 := c.K (s.force prev)
  let f1 := c.K f
  let di := s.d prev
  let vi := s.v prev
  let dmp0 := if cache then s.dmp else c.bo vi
  if c.order1 then
    let f0' := f0 - dmp0
    let vpart := c.Fp di + c.Gp vi + c.Ap f0' + c.Bp f1
    let dmp1 := c.alpha vpart
    { cur := i
      force := upd s.force i f
      d := upd s.d i (c.F di + c.G vi + c.A f0' + c.B (f1 - dmp1))
      v := upd s.v i (vpart - c.Bp dmp1)
      r := upd s.r i (c.S f)
      dmp := dmp1
      ilast := i }
  else
    let vpart := c.Fp di + c.Gp vi + (c.Ap f0 + c.Bp f0) - c.Ap dmp0
    let dmp1 := c.alpha vpart
    { cur := i
      force := upd s.force i f
      d := upd s.d i (c.F di + c.G vi + (c.A f0 + c.B f0) - c.A dmp0 - c.B dmp1)
      v := upd s.v i (vpart - c.Bp dmp1)
      r := upd s.r i (c.S f)
      dmp := dmp1
      ilast := i }

/-- the `j < 0` branch -/
def cdfAddon (c : CdfCoef V M W) (s : CdfState V M W) (f : V) : CdfState V M W :=
  if c.order1 then
    let f1 := c.K f
    let vpart := c.Bp f1
    let da := c.alpha vpart
    { s with
      force := upd s.force s.cur (s.force s.cur + f)
      dmp := s.dmp + da
      d := upd s.d s.cur (s.d s.cur + c.B (f1 - da))
      v := upd s.v s.cur (s.v s.cur + (vpart - c.Bp da))
      r := upd s.r s.cur (s.r s.cur + c.S f) }
  else
    { s with
      force := upd s.force s.cur (s.force s.cur + f)
      r := upd s.r s.cur (s.r s.cur + c.S f) }

def cdfStep (c : CdfCoef V M W) (s : CdfState V M W) : Op V → CdfState V M W
  | .send i f => cdfSendAt c s (i - 1) i (s.ilast = i - 1) f
  | .addon f => cdfAddon c s f

def cdfRun (c : CdfCoef V M W) (s : CdfState V M W) (ops : List (Op V)) : CdfState V M W :=
  ops.foldl (cdfStep c) s

/-- generator start: `i_last = 0`, `dmpfrc1 = bo @ v[:, 0]` -/
def cdfInit [Zero V] [Zero W] (c : CdfCoef V M W) (f0 : V) (d0 v0 : M) :
    CdfState V M W :=
  { cur := 0
    force := upd (fun _ => 0) 0 f0
    d := upd (fun _ => 0) 0 d0
    v := upd (fun _ => 0) 0 v0
    r := upd (fun _ => 0) 0 (c.S f0)
    dmp := c.bo v0
    ilast := 0 }

/-- the same generator without the cache (damping force always recomputed), as a one-step map
on `x = (d, v)`: this is also one step of the batch routine `_solve_real_unc_cdforces` -/
def cdfLin (c : CdfCoef V M W) : Lin V (DV M) W :=
  { T := fun x =>
      let dmp0 := c.bo x.v
      let vpart := c.Fp x.d + c.Gp x.v - c.Ap dmp0
      let dmp1 := c.alpha vpart
      ⟨c.F x.d + c.G x.v - c.A dmp0 - c.B dmp1, vpart - c.Bp dmp1⟩
    P := fun f =>
      let f0 := c.K f
      if c.order1 then
        let vpart := c.Ap f0
        let dmp1 := c.alpha vpart
        ⟨c.A f0 - c.B dmp1, vpart - c.Bp dmp1⟩
      else
        let vpart := c.Ap f0 + c.Bp f0
        let dmp1 := c.alpha vpart
        ⟨c.A f0 + c.B f0 - c.B dmp1, vpart - c.Bp dmp1⟩
    Q := fun f =>
      if c.order1 then
        let f1 := c.K f
        let vpart := c.Bp f1
        let da := c.alpha vpart
        ⟨c.B (f1 - da), vpart - c.Bp da⟩
      else 0
    S := c.S }

/-- forget the hidden state -/
def cdfAbs (s : CdfState V M W) : State V (DV M) W :=
  { cur := s.cur, force := s.force, x := fun j => ⟨s.d j, s.v j⟩, r := s.r }

/-- the cache is what recomputation would give -/
def CacheInv (c : CdfCoef V M W) (s : CdfState V M W) : Prop :=
  s.ilast = s.cur ∧ s.dmp = c.bo (s.v s.ilast)

structure CdfApiState (V M W : Type) where
  started : Bool
  s : CdfState V M W

/-- what the code does with any request (`i_last == i - 1` is an integer comparison: for
`i = 0` it is `i_last == -1`, false) -/
def cdfStepApi (c : CdfCoef V M W) (nt : Nat) (a : CdfApiState V M W) :
    Op V → Except Err (CdfApiState V M W)
  | .addon f => if a.started then .ok { a with s := cdfAddon c a.s f } else .error .unbound
  | .send i f =>
      if nt ≤ i then .error .index
      else if i = 0 then .ok ⟨true, cdfSendAt c a.s (nt - 1) 0 false f⟩
      else .ok ⟨true, cdfSendAt c a.s (i - 1) i (a.s.ilast = i - 1) f⟩

end cdf

end PyYetiVerif.GenMachine
