/-!
# Gaussian elimination with partial pivoting (C02) — core Lean only

The executable stand-in for LAPACK `gesv` / `getrf`+`getrs` (`la.solve`, `la.lu_factor` +
`la.lu_solve`) used by the C02 driver, written as a structural recursion on the number of unknowns
so that it can be proved correct (`Props/C02b.lean`: `gaussSolve_spec`, `gaussSolve_none_singular`,
`gaussSolve_complete`).

A system with `n` unknowns is a list of equations `(coefficients, right-hand side)`.  One step:
* scan the first column for the entry of largest modulus exactly as a partial-pivoting loop does
  (`p := first; for r in rest: if |a_p| < |a_r| then p := r`) — `pickPivot`;
* a pivot that `isZero` ends the elimination with `none` (LAPACK: `info > 0`, numpy/scipy:
  `LinAlgError`);
* every other row gets `row − (a_r / piv) · pivot row`, its first column is dropped — `rowSub`;
* the remaining `n − 1` unknowns are solved recursively and the pivot row is back-substituted
  with the running subtraction `s := b; s := s − a_j x_j; x = s / piv` — `subDot`.

A coefficient list shorter than the number of unknowns stands for zero padding (`headD 0`,
`tail`), consistently in `rowSub`, `subDot` and in the specification's `dot`, so the theorems need
no well-formedness hypothesis on the rows.
-/
set_option linter.unusedSectionVars false
namespace PyYetiVerif.Freq

section gauss
variable {α : Type} [Add α] [Sub α] [Mul α] [Div α] [Zero α]

/-- an equation: coefficients and right-hand side -/
abbrev Eqn (α : Type) := List α × α

/-- `row − f · pivotRow` on the columns of the pivot row -/
def rowSub (f : α) : List α → List α → List α
  | as, [] => as
  | as, p :: ps => (as.headD 0 - f * p) :: rowSub f as.tail ps

/-- back-substitution accumulator: `s − Σ a_j x_j`, subtracting term by term -/
def subDot (s : α) : List α → List α → α
  | a :: as, x :: xs => subDot (s - a * x) as xs
  | _, _ => s

/-- partial-pivoting scan: returns the chosen row and the other rows -/
def pickPivot (absLt : α → α → Bool) : Eqn α → List (Eqn α) → Eqn α × List (Eqn α)
  | p, [] => (p, [])
  | p, r :: rs =>
    if absLt (p.1.headD 0) (r.1.headD 0) then
      ((pickPivot absLt r rs).1, p :: (pickPivot absLt r rs).2)
    else
      ((pickPivot absLt p rs).1, r :: (pickPivot absLt p rs).2)

/-- the rows after eliminating the first unknown with pivot row `p` -/
def eliminate (p : Eqn α) (others : List (Eqn α)) : List (Eqn α) :=
  others.map fun q =>
    let f := q.1.headD 0 / p.1.headD 0
    (rowSub f q.1.tail p.1.tail, q.2 - f * p.2)

/-- Gaussian elimination with partial pivoting on `n` unknowns; `none` = a zero pivot. -/
def gaussList (isZero : α → Bool) (absLt : α → α → Bool) : Nat → List (Eqn α) → Option (List α)
  | 0, _ => some []
  | _ + 1, [] => none
  | n + 1, r :: rs =>
    let pv := pickPivot absLt r rs
    let piv := pv.1.1.headD 0
    if isZero piv then none
    else
      match gaussList isZero absLt n (eliminate pv.1 pv.2) with
      | none => none
      | some xs => some (subDot pv.1.2 pv.1.1.tail xs / piv :: xs)

theorem gaussList_length (isZero : α → Bool) (absLt : α → α → Bool) :
    ∀ (n : Nat) (rows : List (Eqn α)) (xs : List α),
      gaussList isZero absLt n rows = some xs → xs.length = n
  | 0, _, xs, h => by
    simp only [gaussList, Option.some.injEq] at h
    rw [← h]; rfl
  | _ + 1, [], _, h => by simp [gaussList] at h
  | n + 1, r :: rs, xs, h => by
    simp only [gaussList] at h
    split at h
    · cases h
    · split at h
      · cases h
      · rename_i ys hy
        simp only [Option.some.injEq] at h
        rw [← h, List.length_cons, gaussList_length isZero absLt n _ ys hy]

/-- the specification's row-times-vector product (zero padding, like `rowSub` / `subDot`) -/
def dot : List α → List α → α
  | a :: as, x :: xs => a * x + dot as xs
  | _, _ => 0

/-- the square system `A x = b` as a list of equations -/
def eqnsOfFn {n : Nat} (A : Fin n → Fin n → α) (b : Fin n → α) : List (Eqn α) :=
  (List.finRange n).map fun r => ((List.finRange n).map (A r), b r)

/-- `la.solve(A, b)` for one right-hand side, on `Fin n → α` (the form the theorems use) -/
def gaussSolveFn (isZero : α → Bool) (absLt : α → α → Bool) {n : Nat}
    (A : Fin n → Fin n → α) (b : Fin n → α) : Option (Fin n → α) :=
  match h : gaussList isZero absLt n (eqnsOfFn A b) with
  | none => none
  | some xs => some fun j => xs[j.val]'(by rw [gaussList_length isZero absLt n _ xs h]; exact j.isLt)

/-- the same for index-addressed data: rows `rows`, columns `cols` of `A`, right-hand side `b`
(`A[np.ix_(rows, cols)]`, `b[rows]`) -/
def eqnsOfIdx (A : Nat → Nat → α) (b : Nat → α) (rows cols : List Nat) : List (Eqn α) :=
  rows.map fun r => (cols.map (A r), b r)

end gauss

end PyYetiVerif.Freq
