import PyYetiVerif.Model.Op2
/-!
# OUTPUT2 readers of `pyyeti/nastran/op2.py` (class `OP2`), transcribed (C11)

`_op2open`, `_getkey`, `_skipkey`, `rdop2header`, `_validname`, `rdop2eot`, `rdop2nt`, `rdop2matrix`,
`skipop2matrix`, `rdop2record` (form None/'int', `N = 0`), `skipop2record`, `rdop2tabheaders`,
`directory`, `rdop2mats` (names None, which −1).  Core Lean only.

**State.**  The file object is represented by the list of bytes that are still ahead of the file
position (`s : List Nat`).  `f.read(n)` is `(s.take n, s.drop n)` (a short read is not an error,
exactly as in Python); what raises in Python is `struct.unpack` on a short buffer, which is
`Err.struct` here.  `f.tell()` is `total − s.length`.  `f.seek(k, 1)` with `k ≥ 0` is `s.drop k`:
Python allows seeking past the end of the file, the position is then larger than the file and the
next read returns nothing; in every reader below a relative seek is followed (after at most one
`read(4)`) by `_getkey`, whose `unpack` raises on the empty read, so a position beyond the end is
never observed by `tell()` and `total − s.length` is exact whenever `directory` looks at it.
A relative seek with a negative offset (only possible with negative record lengths, i.e. garbage) is
outside the model: `Err.exotic`; so is non-ASCII text in the header label (`bytes.decode()`).

**Errors.**  `Except Err`: the class of the exception Python raises (`struct.error`, `ValueError`,
`IndexError`, `RuntimeError` of `_op2open`), so that behaviour on truncated files can be compared
exactly with the real reader.

**Loops** (`while dtype > 0`, `while key > 0`, `while not eot`, `while 1`) are recursion on a fuel
argument; every iteration consumes at least four bytes when it does not raise, so the callers pass
`s.length + 1`.  `Err.fuel` is therefore unreachable from the top-level functions
(Lemmas/Op2Read*.lean prove the fuel sufficient on everything the theorems talk about).

**Values.**  Integers are decoded (`intOfBytes`); reals are *not* interpreted: a matrix is a list of
columns of raw bit patterns at the stored width (`Mat.width` = 4 or 8 bytes).  numpy's conversion
float32 → float64 is applied by the harness.  Host byte order is little-endian (`struct.unpack("i")`
in `_op2open` is native; the harness asserts `sys.byteorder == "little"`).
-/
namespace PyYetiVerif.Op2R
open PyYetiVerif.Op4 PyYetiVerif.Op2

inductive Err
  | struct    -- struct.error: unpack of a short buffer / of a negative repeat count
  | value     -- ValueError: numpy broadcast, negative dimensions, read(n) with n < −1, unknown first word
  | index     -- IndexError: trailer shorter than used, column index beyond the matrix
  | empty     -- RuntimeError of `_op2open`: fewer than 4 bytes
  | exotic    -- behaviour outside this model (backward seek, non-ASCII header text)
  | fuel      -- unreachable with the fuel the callers pass
deriving Repr, DecidableEq

abbrev M := Except Err


/-! ## bytes → integers -/

def leNat : List Nat → Nat
  | [] => 0
  | b :: t => b + 256 * leNat t

def natOfBytes (e : Endian) (b : List Nat) : Nat :=
  match e with
  | .little => leNat b
  | .big => leNat b.reverse

/-- two's complement integer of `b.length` bytes -/
def intOfBytes (e : Endian) (b : List Nat) : Int :=
  let u := natOfBytes e b
  if 2 * u < 256 ^ b.length then (u : Int) else (u : Int) - ((256 ^ b.length : Nat) : Int)

/-- `struct.unpack` of one integer of `n` bytes -/
def unpack1 (e : Endian) (n : Nat) (b : List Nat) : M Int :=
  if b.length = n then .ok (intOfBytes e b) else .error .struct

/-- tail recursive (records of several hundred thousand items are read by the driver) -/
def chunksAux (w : Nat) : Nat → List Nat → Array (List Nat) → Array (List Nat)
  | 0, _, acc => acc
  | n + 1, b, acc => chunksAux w n (b.drop w) (acc.push (b.take w))

/-- the first `n` consecutive pieces of `w` bytes: `chunks w (n+1) b = b.take w :: chunks w n (b.drop w)`
(`chunks_succ` in Lemmas/Op2Read.lean) -/
def chunks (w n : Nat) (b : List Nat) : List (List Nat) := (chunksAux w n b #[]).toList

/-- `struct.unpack("%d{i|q}" % n, b)` -/
def unpackInts (e : Endian) (w n : Nat) (b : List Nat) : M (List Int) :=
  if b.length = n * w then .ok ((chunks w n b).map (intOfBytes e)) else .error .struct

/-! ## file primitives -/

/-- `self._Str4.unpack(f.read(4))[0]` -/
def rdI4 (v : V2) (s : List Nat) : M (Int × List Nat) :=
  match unpack1 v.e 4 (s.take 4) with
  | .ok x => .ok (x, s.drop 4)
  | .error e => .error e

/-- `self._Str.unpack(f.read(self._ibytes))[0]` -/
def rdKeyRaw (v : V2) (s : List Nat) : M (Int × List Nat) :=
  match unpack1 v.e (kb v) (s.take (kb v)) with
  | .ok x => .ok (x, s.drop (kb v))
  | .error e => .error e

/-- `_getkey`: the two record markers are skipped, not checked -/
def getKey (v : V2) (s : List Nat) : M (Int × List Nat) :=
  match rdKeyRaw v (s.drop 4) with
  | .ok (x, s1) => .ok (x, s1.drop 4)
  | .error e => .error e

/-- `_skipkey(n)`: `f.read(n * (8 + ibytes))` -/
def skipKey (v : V2) (n : Nat) (s : List Nat) : List Nat := s.drop (n * (8 + kb v))

/-- a request for 2³¹ bytes or more (`f.read`, `np.fromfile`) allocates first: MemoryError or OverflowError
depending on the machine; outside the model (`Err.exotic`).  Record markers are 4-byte integers, so this
can only happen where a length is computed from a key (the trailer of `rdop2nt`) in garbage read with the
wrong key width. -/
def huge : Int := 2147483648

/-- `f.read(n)` for a computed `n`: `−1` reads everything, other negative values raise ValueError -/
def pyRead (n : Int) (s : List Nat) : M (List Nat × List Nat) :=
  if 0 ≤ n then (if n < huge then .ok (s.take n.toNat, s.drop n.toNat) else .error .exotic)
  else if n = -1 then .ok (s, [])
  else .error .value

/-- `f.seek(n, 1)`, forwards only (possibly beyond the end of the file) -/
def seekFwd (n : Int) (s : List Nat) : M (List Nat) :=
  if 0 ≤ n then .ok (s.drop n.toNat) else .error .exotic

/-- `rdop2eot`; returns `key` (`eot = (key == 0)`): a short read of the first marker means key 0 -/
def rdEot (v : V2) (s : List Nat) : M (Int × List Nat) :=
  if (s.take 4).length = 4 then
    match rdKeyRaw v (s.drop 4) with
    | .ok (x, s1) => .ok (x, s1.drop 4)
    | .error e => .error e
  else .ok (0, s.drop 4)

/-! ## `rdop2header` -/

/-- `str.isspace` on ASCII -/
def isPySpace (c : Nat) : Bool := (9 ≤ c && c ≤ 13) || (28 ≤ c && c ≤ 32)

/-- `str.strip()` -/
def pyStrip (b : List Nat) : List Nat := ((b.dropWhile isPySpace).reverse.dropWhile isPySpace).reverse

/-- `.strip().replace(" ", "")` -/
def labelOf (b : List Nat) : List Nat := (pyStrip b).filter (· != 32)

/-- `bytes.decode()` on ASCII; anything else is outside the model -/
def decodeAscii (b : List Nat) : M (List Nat) := if b.all (· < 128) then .ok b else .error .exotic

structure Header where
  date : List Int
  nastheader : List Nat
  label : List Nat
deriving Repr, DecidableEq

/-- `rdop2header`, called at position 0 of the file `f`; `none` = no header (file rewound) -/
def rdHeader (v : V2) (f : List Nat) : M (Option Header × List Nat) := do
  let (key, s) ← getKey v f
  if key ≠ 3 then pure (none, f) else do
    let s := s.drop 4
    let date ← unpackInts v.e (kb v) 3 (s.take (kb v * 3))
    let s := (s.drop (kb v * 3)).drop 4
    let (_, s) ← getKey v s
    let (reclen, s) ← rdI4 v s
    let (nh, s) ← pyRead reclen s
    let nh ← decodeAscii nh
    let s := s.drop 4
    let (_, s) ← getKey v s
    let (reclen, s) ← rdI4 v s
    let (lb, s) ← pyRead reclen s
    let lb ← decodeAscii lb
    let s := s.drop 4
    pure (some ⟨date, nh, labelOf lb⟩, skipKey v 2 s)

/-! ## `rdop2nt` -/

/-- `_validname` -/
def validname (b : List Nat) : List Nat :=
  b.filter fun c => (47 < c && c < 58) || (64 < c && c < 91) || c == 95 || (96 < c && c < 123)

structure NT where
  name : List Nat
  trailer : List Int
  type : Int
deriving Repr, DecidableEq

/-- `rdop2nt`; `none` = `(None, None, None)` -/
def rdNT (v : V2) (s : List Nat) : M (Option NT × List Nat) := do
  let (key, s) ← rdEot v s
  if key = 0 then pure (none, s) else do
    let (reclen, s) ← rdI4 v s
    let (nm, s) ← pyRead reclen s
    let s := s.drop 4
    let (_, s) ← getKey v s
    let (key, s) ← getKey v s
    let s := s.drop 4
    -- `struct.unpack("%di" % key, f.read(ibytes * key))`: the read is evaluated first (it raises for a
    -- negative key)
    let (tb, s) ← pyRead ((kb v : Int) * key) s
    do
      let trailer ← unpackInts v.e (kb v) key.toNat tb
      let s := s.drop 4
      let s := skipKey v 4 s
      let (reclen, s) ← rdI4 v s
      let (_, s) ← pyRead reclen s
      let s := s.drop 4
      let s := skipKey v 2 s
      let (ty, s) ← getKey v s
      pure (some ⟨validname nm, trailer, ty⟩, s)

/-! ## `rdop2matrix` -/

/-- raw matrix: `rows` is the number of stored reals per column (twice the rows for complex) -/
structure Mat where
  rows : Nat
  cplx : Bool
  width : Nat
  cols : List (List Nat)
deriving Repr, DecidableEq

/-- a Python slice bound on a sequence of length `len` -/
def pyClip (len : Nat) (i : Int) : Nat := if i < 0 then (i + len).toNat else min i.toNat len

/-- `column[r : stop] = vals` (numpy): shapes must agree, except that one value is broadcast -/
def assignSlice (col : List Nat) (r stop : Int) (vals : List Nat) : M (List Nat) :=
  let a := pyClip col.length r
  let b := pyClip col.length stop
  let L := b - a
  if vals.length = L then .ok (col.take a ++ vals ++ col.drop (a + L))
  else match vals with
    | [x] => .ok (col.take a ++ List.replicate L x ++ col.drop (a + L))
    | _ => .error .value

/-- `self._rowsCutoff` -/
def cutoff : Int := 3000

/-- the right-hand side of the assignment: `struct.unpack(frmu % n, f.read(n * bytes_per))` below the
cut-off (raises on a short read; a negative `n` makes the read raise ValueError), `np.fromfile(f, frm, n)`
from the cut-off on (returns the complete items that are there, never raises) -/
def rdVals (e : Endian) (w : Nat) (n : Int) (s : List Nat) : M (List Nat × List Nat) :=
  if n < cutoff then
    if n < 0 then .error .value
    else if (s.take (n.toNat * w)).length = n.toNat * w then
      .ok ((chunks w n.toNat (s.take (n.toNat * w))).map (natOfBytes e), s.drop (n.toNat * w))
    else .error .struct
  else
    .ok ((chunks w (min n.toNat (s.length / w)) s).map (natOfBytes e), s.drop (n.toNat * w))

structure MCfg where
  v : V2
  cplx : Bool
  w : Nat

/-- `while key > 0:` of `rdop2matrix` (column `j`) -/
def rdColStrs (c : MCfg) (j : Nat) : Nat → Int → List Nat → List (List Nat) → M (List (List Nat) × List Nat)
  | 0, _, _, _ => .error .fuel
  | fuel + 1, key, s, mat =>
    if key > 0 then
      match rdI4 c.v s with
      | .error e => .error e
      | .ok (reclen, s) =>
        match rdKeyRaw c.v s with
        | .error e => .error e
        | .ok (row, s) =>
          let r : Int := if c.cplx then (row - 1) * 2 else row - 1
          let n : Int := (reclen - kb c.v) / c.w
          match rdVals c.v.e c.w n s with
          | .error e => .error e
          | .ok (vals, s) =>
            match mat[j]? with
            | none => .error .index
            | some col =>
              match assignSlice col r (r + n) vals with
              | .error e => .error e
              | .ok col' =>
                match getKey c.v (s.drop 4) with
                | .error e => .error e
                | .ok (key, s) => rdColStrs c j fuel key s (mat.set j col')
    else .ok (mat, s)

/-- `while dtype > 0:` of `rdop2matrix` -/
def rdCols (c : MCfg) : Nat → Nat → List Nat → List (List Nat) → M (List (List Nat) × List Nat)
  | 0, _, _, _ => .error .fuel
  | fuel + 1, j, s, mat =>
    match getKey c.v s with
    | .error e => .error e
    | .ok (key, s) =>
      match rdColStrs c j (s.length + 1) key s mat with
      | .error e => .error e
      | .ok (mat, s) =>
        match getKey c.v s with
        | .error e => .error e
        | .ok (_, s) =>
          match getKey c.v s with
          | .error e => .error e
          | .ok (dtype, s) => if dtype > 0 then rdCols c fuel (j + 1) s mat else .ok (mat, s)

/-- `self._fbytes` -/
def fbytes (v : V2) : Nat := kb v

/-- bytes per real of `rdop2matrix` -/
def bytesPer (v : V2) (mtype : Int) : Nat := if mtype % 2 = 1 then fbytes v else 8

/-- `rdop2matrix(trailer)` (MemoryError for absurd dimensions is outside the model) -/
def rdMatrix (v : V2) (trailer : List Int) (s : List Nat) : M (Mat × List Nat) :=
  match trailer[2]?, trailer[4]?, trailer[1]? with
  | some rows, some mtype, some ncols =>
    let cplx : Bool := decide (mtype > 2)
    let rows : Int := if cplx then rows * 2 else rows
    if rows < 0 ∨ ncols < 0 then .error .value else
      match rdCols ⟨v, cplx, bytesPer v mtype⟩ (s.length + 1) 0 s
          (List.replicate ncols.toNat (List.replicate rows.toNat 0)) with
      | .error e => .error e
      | .ok (cols, s) =>
        match rdEot v s with
        | .error e => .error e
        | .ok (_, s) => .ok (⟨rows.toNat, cplx, bytesPer v mtype, cols⟩, s)
  | _, _, _ => .error .index

/-! ## `skipop2matrix` -/

def skipColStrs (v : V2) : Nat → Int → List Nat → M (List Nat)
  | 0, _, _ => .error .fuel
  | fuel + 1, key, s =>
    if key > 0 then
      match rdI4 v s with
      | .error e => .error e
      | .ok (reclen, s) =>
        match seekFwd reclen s with
        | .error e => .error e
        | .ok s =>
          match getKey v (s.drop 4) with
          | .error e => .error e
          | .ok (key, s) => skipColStrs v fuel key s
    else .ok s

def skipCols (v : V2) : Nat → List Nat → M (List Nat)
  | 0, _ => .error .fuel
  | fuel + 1, s =>
    match getKey v s with
    | .error e => .error e
    | .ok (key, s) =>
      match skipColStrs v (s.length + 1) key s with
      | .error e => .error e
      | .ok s =>
        match getKey v s with
        | .error e => .error e
        | .ok (_, s) =>
          match getKey v s with
          | .error e => .error e
          | .ok (dtype, s) => if dtype > 0 then skipCols v fuel s else .ok s

def skipMatrix (v : V2) (s : List Nat) : M (List Nat) :=
  match skipCols v (s.length + 1) s with
  | .error e => .error e
  | .ok s =>
    match rdEot v s with
    | .error e => .error e
    | .ok (_, s) => .ok s

/-! ## `rdop2record` (integers, `N = 0`), `skipop2record` -/

/-- `while key > 0:`; below the cut-off `struct.unpack(frmu % n, f.read(n * ibytes))`; from the cut-off
on `np.fromfile` returns fewer items at the end of the file without raising, but then the `_getkey`
that follows raises `struct.error` on the empty read: the same class -/
def rdRecPieces (v : V2) : Nat → Int → List Nat → List Int → M (List Int × List Nat)
  | 0, _, _, _ => .error .fuel
  | fuel + 1, key, s, acc =>
    if key > 0 then
      match rdI4 v s with
      | .error e => .error e
      | .ok (reclen, s) =>
        let n : Int := reclen / kb v
        if n < 0 then .error .value else
          match unpackInts v.e (kb v) n.toNat (s.take (n.toNat * kb v)) with
          | .error e => .error e
          | .ok data =>
            match getKey v ((s.drop (n.toNat * kb v)).drop 4) with
            | .error e => .error e
            | .ok (key, s) => rdRecPieces v fuel key s (acc ++ data)
    else .ok (acc, s)

/-- `rdop2record()`; `none` = end of the data block -/
def rdRecord (v : V2) (s : List Nat) : M (Option (List Int) × List Nat) :=
  match getKey v s with
  | .error e => .error e
  | .ok (key, s) =>
    if key = 0 then .ok (none, s) else
      match rdRecPieces v (s.length + 1) key s [] with
      | .error e => .error e
      | .ok (data, s) => .ok (some data, skipKey v 2 s)

def skipRecPieces (v : V2) : Nat → Int → List Nat → M (List Nat)
  | 0, _, _ => .error .fuel
  | fuel + 1, key, s =>
    if key > 0 then
      match rdI4 v s with
      | .error e => .error e
      | .ok (reclen, s) =>
        match seekFwd (reclen + 4) s with
        | .error e => .error e
        | .ok s =>
          match getKey v s with
          | .error e => .error e
          | .ok (key, s) => skipRecPieces v fuel key s
    else .ok s

/-- `skipop2record()` -/
def skipRecord (v : V2) (s : List Nat) : M (List Nat) :=
  match getKey v s with
  | .error e => .error e
  | .ok (key, s) =>
    match skipRecPieces v (s.length + 1) key s with
    | .error e => .error e
    | .ok s => .ok (skipKey v 2 s)

/-- the loop `while (r := o2.rdop2record()) is not None` of the callers -/
def rdRecords (v : V2) : Nat → List Nat → M (List (List Int) × List Nat)
  | 0, _ => .error .fuel
  | fuel + 1, s =>
    match rdRecord v s with
    | .error e => .error e
    | .ok (none, s) => .ok ([], s)
    | .ok (some d, s) =>
      match rdRecords v fuel s with
      | .error e => .error e
      | .ok (ds, s) => .ok (d :: ds, s)

/-! ## `rdop2tabheaders` -/

abbrev TabHead := List Int × Int

/-- `while key > 0:`.  After `reclen`, `Frm.unpack(f.read(3 * ibytes))` followed by
`f.seek((key - 3) * ibytes, 1)` leaves the position `key * ibytes` bytes after the record marker
(for `key < 3` the seek goes backwards inside the bytes just read; for large `key` possibly beyond
the end of the file) -/
def rdHeadPieces (v : V2) : Nat → Int → List Nat → List TabHead → M (List TabHead × List Nat)
  | 0, _, _, _ => .error .fuel
  | fuel + 1, key, s, acc =>
    if key > 0 then
      match rdI4 v s with
      | .error e => .error e
      | .ok (reclen, s) =>
        match unpackInts v.e (kb v) 3 (s.take (3 * kb v)) with
        | .error e => .error e
        | .ok head =>
          match getKey v ((s.drop (key.toNat * kb v)).drop 4) with
          | .error e => .error e
          | .ok (key, s) => rdHeadPieces v fuel key s (acc ++ [(head, reclen)])
    else .ok (acc, s)

/-- `while not eot:` -/
def rdTabLoop (v : V2) : Nat → Int → List Nat → List TabHead → M (List TabHead × List Nat)
  | 0, _, _, _ => .error .fuel
  | fuel + 1, key, s, acc =>
    if key = 0 then .ok (acc, s) else
      match rdHeadPieces v (s.length + 1) key s acc with
      | .error e => .error e
      | .ok (acc, s) =>
        match rdEot v (skipKey v 2 s) with
        | .error e => .error e
        | .ok (key, s) => rdTabLoop v fuel key s acc

def rdTabHeaders (v : V2) (s : List Nat) : M (List TabHead × List Nat) :=
  match rdEot v s with
  | .error e => .error e
  | .ok (key, s) => rdTabLoop v (s.length + 1) key s []

/-! ## `directory`, `_op2open`, `rdop2mats` -/

structure Entry where
  name : List Nat
  start : Nat
  stop : Nat
  dbtype : Int
  size : Int × Int
  trailer : List Int
  headers : List TabHead
deriving Repr, DecidableEq

/-- `.nbytes` -/
def Entry.nbytes (x : Entry) : Int := (x.stop : Int) - x.start - 1

/-- `while 1:` of `directory`; `total` is the length of the file, `pos` the position (`total − s.length`) -/
def dirLoop (v : V2) (total : Nat) : Nat → Nat → List Nat → M (List Entry)
  | 0, _, _ => .error .fuel
  | fuel + 1, pos, s =>
    match rdNT v s with
    | .error e => .error e
    | .ok (none, _) => .ok []
    | .ok (some nt, s) =>
      if nt.type > 0 then
        match skipMatrix v s with
        | .error e => .error e
        | .ok s =>
          match nt.trailer[2]?, nt.trailer[1]? with
          | some r, some c =>
            match dirLoop v total fuel (total - s.length) s with
            | .error e => .error e
            | .ok rest => .ok (⟨nt.name, pos, total - s.length, nt.type, (r, c), nt.trailer, []⟩ :: rest)
          | _, _ => .error .index
      else
        match rdTabHeaders v s with
        | .error e => .error e
        | .ok (hs, s) =>
          match dirLoop v total fuel (total - s.length) s with
          | .error e => .error e
          | .ok rest => .ok (⟨nt.name, pos, total - s.length, nt.type, (0, 0), nt.trailer, hs⟩ :: rest)

/-- byte order and key width from the first four bytes (`_op2open`; host order little-endian) -/
def detect (f : List Nat) : M V2 :=
  if f.length < 4 then .error .empty else
    let n := intOfBytes .little (f.take 4)
    if n = 4 ∨ n = 8 then .ok ⟨.little, n == 8⟩ else
      let m := intOfBytes .big (f.take 4)
      if m = 4 ∨ m = 8 then .ok ⟨.big, m == 8⟩ else .error .value

structure File where
  v : V2
  header : Option Header
  postpos : Nat
  dir : List Entry

/-- `OP2(filename)`: `_op2open` = detect, `rdop2header`, `directory` -/
def openOp2 (f : List Nat) : M File :=
  match detect f with
  | .error e => .error e
  | .ok v =>
    match rdHeader v f with
    | .error e => .error e
    | .ok (h, s) =>
      match dirLoop v f.length (s.length + 1) (f.length - s.length) s with
      | .error e => .error e
      | .ok dir => .ok ⟨v, h, f.length - s.length, dir⟩

inductive Content
  | mat (m : Mat)
  | tab (recs : List (List Int))
deriving Repr, DecidableEq

/-- what the callers do at the start of a data block (`set_position(start)`): `rdop2nt()`, then
`rdop2matrix(trailer)` for a matrix (`type > 0`, the test of `directory`) or `rdop2record()` until it
returns None for a table -/
def rdBlock (v : V2) (s : List Nat) : M (Option (NT × Content) × List Nat) :=
  match rdNT v s with
  | .error e => .error e
  | .ok (none, s) => .ok (none, s)
  | .ok (some nt, s) =>
    if nt.type > 0 then
      match rdMatrix v nt.trailer s with
      | .error e => .error e
      | .ok (m, s) => .ok (some (nt, .mat m), s)
    else
      match rdRecords v (s.length + 1) s with
      | .error e => .error e
      | .ok (rs, s) => .ok (some (nt, .tab rs), s)

/-- `next_db_info`: `bisect_right(dblist, curpos, key = start)` on the (strictly increasing) starts is the
first data block that starts after `curpos` -/
def nextDbInfo (dir : List Entry) (curpos : Nat) : Option Entry := dir.find? fun x => curpos < x.start

/-- `goto_next`: the new file position (`dblist[-1]` of an empty list is an IndexError) -/
def gotoNext (dir : List Entry) (curpos : Nat) : M Nat :=
  match nextDbInfo dir curpos with
  | some x => .ok x.start
  | none =>
    match dir.getLast? with
    | some x => .ok x.stop
    | none => .error .index

/-- `_rdmat`: `set_position(sns.start); rdop2nt(); rdop2matrix(sns.trailer)` -/
def rdMat (v : V2) (f : List Nat) (x : Entry) : M Mat :=
  match rdNT v (f.drop x.start) with
  | .error e => .error e
  | .ok (_, s) =>
    match rdMatrix v x.trailer s with
    | .error e => .error e
    | .ok (m, _) => .ok m

/-- `_get_unique` -/
def getUnique : List (List Nat) → List (List Nat) → List (List Nat)
  | _, [] => []
  | seen, n :: t => if seen.contains n then getUnique seen t else n :: getUnique (n :: seen) t

def mapME {α β} (f : α → M β) : List α → M (List β)
  | [] => .ok []
  | a :: t =>
    match f a with
    | .error e => .error e
    | .ok b =>
      match mapME f t with
      | .error e => .error e
      | .ok bs => .ok (b :: bs)

/-- `rdop2mats()` (all names, `which = -1`): the data blocks with `dbtype == 1`; for every distinct
name, in order of first appearance, the LAST block of that name is read -/
def rdMats (v : V2) (f : List Nat) (dir : List Entry) : M (List (List Nat × Mat)) :=
  let dbs := dir.filter (·.dbtype == 1)
  mapME (fun name =>
    match (dbs.filter (·.name == name)).getLast? with
    | none => .error .index
    | some x =>
      match rdMat v f x with
      | .error e => .error e
      | .ok m => .ok (name, m)) (getUnique [] (dbs.map (·.name)))

end PyYetiVerif.Op2R
