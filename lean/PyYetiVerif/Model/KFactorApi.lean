import PyYetiVerif.Model.KFactor
import PyYetiVerif.Model.OrderStatsApi
/-
Model of the PUBLIC ENTRY POINTS `pyyeti.stats.ksingle(p, c, n)` and `kdouble(p, c, n, tol=1e-12)` with
array arguments, and of the whole of `_getr` (starting point, vectorised Newton loop, stopping test,
`MAXLOOPS`).  Core Lean only; the constants come from `Generated/C20Stats.lean`.

* `ksingle`: `n = np.asarray(n)`, every operation is a numpy/scipy ufunc, so the result is the scalar
  formula applied elementwise over the broadcast of `(p, c, n)`.  There is no large-sample branch and no
  table in the code: one formula for every `n`.
* `_getr(n, prob, tol)`: `r = norm.ppf(prob + (1 - prob)/2) * (1 + 1/(2 n))`, `rold = r + 10`,
  `while np.any(abs(r - rold) > tol) and loops < MAXLOOPS:` one Newton step for EVERY element.  The loop
  runs on the whole `(n, prob)` grid at once: all elements take the same number of passes, namely until the
  last of them has stopped moving (`getrLoop`).
* `kdouble`: `chi = chi2.ppf(1 - c, n - 1)`, `r = _getr(n, p, tol)`, `np.sqrt((n - 1)/chi) * r`: the `R` grid
  (shape of `broadcast(n, p)`) is broadcast against `c` and `n`.
-/
namespace PyYetiVerif.KFactor
open PyYetiVerif.OrderStats (Nd bmap3)
open PyYetiVerif.Generated

variable {α : Type} [Add α] [Mul α] [Sub α] [Div α] [Neg α] [One α] [Zero α] [OfNat α 2] [NatCast α]

/-- `ksingle(p, c, n)` with array_like arguments -/
def ksingleApi (o : Ops α) (p c n : Nd α) : Option (Nd α) :=
  bmap3 (fun p c n => ksingle o p c n) p c n

/-- `r = norm.ppf(prob + (1 - prob) / 2) * (1 + 1 / (2 * n))` -/
def getrStart (o : Ops α) (n prob : α) : α :=
  o.normPpf (prob + (1 - prob) / ((C20Stats.getrStartHalf : Nat) : α)) *
    (1 + 1 / (((C20Stats.getrStartInvN : Nat) : α) * n))

variable [LT α] [DecidableLT α]

/-- `abs` -/
def absv (x : α) : α := if x < 0 then -x else x

def zip3With {β γ δ ε : Type} (f : β → γ → δ → ε) : List β → List γ → List δ → List ε
  | x :: xs, y :: ys, z :: zs => f x y z :: zip3With f xs ys zs
  | _, _, _ => []

/-- `np.any(abs(r - rold) > tol)` -/
def anyMoved (tol : α) : List α → List α → Bool
  | x :: xs, y :: ys => decide (tol < absv (x - y)) || anyMoved tol xs ys
  | _, _ => false

/-- one pass of the loop body on the whole grid -/
def stepAll (o : Ops α) (ns probs rs : List α) : List α := zip3With (newtonStep o) ns probs rs

/-- `while np.any(abs(r - rold) > tol) and loops < MAXLOOPS` with `fuel = MAXLOOPS - loops`;
returns the final `r` and `loops` -/
def getrLoop (o : Ops α) (tol : α) (ns probs : List α) : Nat → Nat → List α → List α → List α × Nat
  | 0, loops, r, _ => (r, loops)
  | fuel + 1, loops, r, rold =>
      if anyMoved tol r rold then getrLoop o tol ns probs fuel (loops + 1) (stepAll o ns probs r) r
      else (r, loops)

/-- `_getr(n, prob, tol)` on the flattened `(n, prob)` grid: result and number of passes (`loops`;
`loops = MAXLOOPS` is what triggers the RuntimeWarning) -/
def getrAll (o : Ops α) (tol : α) (ns probs : List α) : List α × Nat :=
  let r0 := (ns.zip probs).map fun np => getrStart o np.1 np.2
  getrLoop o tol ns probs C20Stats.getrMaxLoops 0 r0
    (r0.map (· + ((C20Stats.getrRoldOffset : Nat) : α)))

/-- `kdouble(p, c, n, tol)` with array_like arguments; also returns the number of Newton passes -/
def kdoubleApi (o : Ops α) (tol : α) (p c n : Nd α) : Option (Nd α × Nat) :=
  match bmap3 (fun (n p : α) (_ : Unit) => (n, p)) n p (Nd.scalar ()) with
  | none => none
  | some g =>
    let rl := getrAll o tol (g.data.map (·.1)) (g.data.map (·.2))
    (bmap3 (fun c n r => kdoubleOf o c n r) c n ⟨g.shape, rl.1⟩).map fun out => (out, rl.2)

end PyYetiVerif.KFactor
