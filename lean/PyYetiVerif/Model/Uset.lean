import PyYetiVerif.Generated.UsetMask
import PyYetiVerif.Model.Locate
/-!
Model of the DOF-set routines of `pyyeti/nastran/n2p.py`:
`mkusetmask` (the '+' combination; the table itself is `Generated.UsetMask.mask`), `mksetpv`,
`expanddof`, `mkdofpv`, and the `nasset` column of `make_uset`.  Core Lean only.

A USET table is a list of rows `(id, dof, word)`; `word` is the `nasset` bit word (a natural
number; the code holds it in an int64 column and the property speaks of 32-bit words).
Errors are the exception kinds of the real code.
-/
namespace PyYetiVerif.Uset

export PyYetiVerif.Locate (Err)
open PyYetiVerif.Locate (argsort lookup)

/-! ### mkusetmask -/

/-- `mkusetmask("x+y+z")` once the string is split on '+' and every piece is a key of the
dict (an unknown piece is a `KeyError`, produced by the driver's string layer). -/
def setsMask (mask : SetName → Nat) (sets : List SetName) : Nat :=
  sets.foldl (fun acc k => acc ||| mask k) 0

/-! ### mksetpv -/

/-- `(uset_set & mask) != 0` -/
def inSet (w mask : Nat) : Bool := (w &&& mask) != 0

/-- `mksetpv(uset, major, minor)` on the column of set words, masks already resolved. -/
def mksetpv (words : List Nat) (major minor : Nat) : Except Err (List Bool) :=
  if words.any (fun w => !inSet w major && inSet w minor) then .error .value
  else .ok ((words.filter (inSet · major)).map (inSet · minor))

/-! ### expanddof -/

/-- decimal digits, least significant first (`str(arg)` reversed). -/
def digitsRev (n : Nat) : List Nat :=
  if n < 10 then [n] else (n % 10) :: digitsRev (n / 10)
termination_by n
decreasing_by omega

/-- `[int(i) for i in str(arg)]` -/
def digits (n : Nat) : List Nat := (digitsRev n).reverse

/-- one row `[node, arg]` of a two-column request. -/
def expandRow (r : Nat × Nat) : List (Nat × Nat) := (digits r.2).map (fun d => (r.1, d))

/-- two-column form.  The code returns the input unchanged when every `arg ≤ 6`; a number
`≤ 6` is its own single digit, so that branch is the general one. -/
def expanddof2 (rows : List (Nat × Nat)) : Except Err (List (Nat × Nat)) :=
  let e := rows.flatMap expandRow
  if e.any (fun p => decide (6 < p.2)) then .error .value else .ok e

/-- one-column form: DOF 1-6 (`grids_only`) or 0-6 for every id. -/
def expanddof1 (ids : List Nat) (gridsOnly : Bool) : List (Nat × Nat) :=
  ids.flatMap fun n => (if gridsOnly then [1, 2, 3, 4, 5, 6] else [0, 1, 2, 3, 4, 5, 6]).map
    (fun d => (n, d))

inductive Request
  | ids (ids : List Nat) (gridsOnly : Bool)
  | rows (rows : List (Nat × Nat))
deriving Repr

def expanddof : Request → Except Err (List (Nat × Nat))
  | .ids l g => .ok (expanddof1 l g)
  | .rows r => expanddof2 r

/-! ### mkdofpv -/

/-- `id * 10 + dof` -/
def key (p : Nat × Nat) : Nat := p.1 * 10 + p.2

/-- the search + re-check + strict/non-strict part of `mkdofpv` on the key vector of the
selected set (`Locate.lookup`: argsort, left searchsorted, clamp, re-check).  For an empty key
vector every requested DOF is missing (`lookup` on an empty sorter is `none`; the code has an
explicit branch for it since fix fb0155f). -/
def mkdofpvKeys (ks : List Nat) (dof : List (Nat × Nat)) (strict : Bool) :
    Except Err (List Nat × List (Nat × Nat)) :=
  let srt := argsort ks
  let res := dof.map (fun d => (lookup ks srt (key d), d))
  if res.any (fun r => r.1.isNone) && strict then .error .value
  else .ok (res.filterMap (·.1), (res.filter (fun r => r.1.isSome)).map (·.2))

/-- the `nasset` argument: the literal `'p'` (no partition), or a resolved mask. -/
inductive SetSpec
  | p
  | mask (m : Nat)
deriving Repr

abbrev Row := Nat × Nat × Nat   -- id, dof, word

/-- `mkdofpv(uset_dataframe, nasset, dof, strict=…, grids_only=…)`. -/
def mkdofpv (pmask : Nat) (tbl : List Row) (nas : SetSpec) (req : Request) (strict : Bool) :
    Except Err (List Nat × List (Nat × Nat)) :=
  match nas with
  | .p => do
      let dof ← expanddof req
      mkdofpvKeys (tbl.map fun r => key (r.1, r.2.1)) dof strict
  | .mask mk => do
      let pv ← mksetpv (tbl.map (·.2.2)) pmask mk
      if pv.length ≠ tbl.length then .error .index   -- pandas: boolean index has wrong length
      else
        let sub := (tbl.zip pv).filter (·.2) |>.map (·.1)
        let dof ← expanddof req
        mkdofpvKeys (sub.map fun r => key (r.1, r.2.1)) dof strict

/-! ### make_uset: the `nasset` column and the coordinate columns -/

/-- the while-loop that spreads per-request-row values over the expanded rows; the same loop
ran for the `nasset` column before fix a37d9b6 (`six v` = six copies of `v`) and still runs for the
`x y z` columns (`six v` = the location row followed by the five rows of the basic coordinate
system). -/
def spreadG {β : Type} (six : β → List β) : Nat → List (Nat × Nat) → List β → Except Err (List β)
  | 0, _, _ => .ok []
  | _, [], _ => .ok []
  | fuel + 1, (_, arg) :: rest, vals =>
      if arg = 123456 then
        match vals with
        | v :: vals' => do
            let t ← spreadG six fuel rest vals'
            .ok (six v ++ t)
        | [] => .error .index
      else if arg = 1 then
        if vals.length < 6 then .error .type     -- pandas: block of another height (TypeError)
        else do
          let t ← spreadG six fuel (rest.drop 5) (vals.drop 6)
          .ok (vals.take 6 ++ t)
      else
        match vals with
        | v :: vals' => do
            let t ← spreadG six fuel rest vals'
            .ok (v :: t)
        | [] => .error .index

/-- the `nasset` loop (since fix a37d9b6): every request row is spread over as many expanded rows
as its component list has digits (`len(str(arg))`; `0` is one digit). -/
def spreadWords (rows : List (Nat × Nat)) (nas : List Nat) : List Nat :=
  (rows.zip nas).flatMap fun p => List.replicate (digits p.1.2).length p.2

/-- the request after `_ensure_2cols` (1-D ids get the argument 123456) -/
def rows2 : Request → List (Nat × Nat)
  | .ids l _ => l.map (fun i => (i, 123456))
  | .rows r => r

def nrows : Request → Nat
  | .ids l _ => l.length
  | .rows r => r.length

/-- `expanddof(dof)` followed by the check "each GRID must have all DOF 1-6". -/
def makeUsetDof (req : Request) : Except Err (List (Nat × Nat)) := do
  let edof ← expanddof (match req with | .ids l _ => .ids l true | .rows r => .rows r)
  let gdof := (edof.filter (fun p => decide (0 < p.2))).map (·.2)
  let n := gdof.length / 6
  if gdof ≠ [] ∧ (n * 6 ≠ gdof.length ∨
      gdof ≠ (List.replicate n [1, 2, 3, 4, 5, 6]).flatten) then .error .value
  else .ok edof

/-- the `nasset` column -/
def makeUsetWords (req : Request) (edof : List (Nat × Nat)) (nas : List Nat) :
    Except Err (List Nat) :=
  match nas with
  | [v] => .ok (List.replicate edof.length v)
  | _ => if edof.length = nrows req then .ok nas
         else .ok (spreadWords (rows2 req) nas)

/-- `make_uset(dof, nasset)`: rows `(id, dof, word)`. -/
def makeUset (req : Request) (nas : List Nat) : Except Err (List Row) :=
  if nas.length ≠ 1 ∧ nas.length ≠ nrows req then .error .value
  else do
    let edof ← makeUsetDof req
    let w ← makeUsetWords req edof nas
    .ok ((edof.zip w).map fun (p, v) => (p.1, p.2, v))

abbrev Xyz := Int × Int × Int

/-- the default coordinate-system rows of a grid given by one request row -/
def basicRows : List Xyz := [(0, 1, 0), (0, 0, 0), (1, 0, 0), (0, 1, 0), (0, 0, 1)]

/-- the `x y z` columns for `xyz` given (`none` = NaN, a row the loop never reaches) -/
def makeUsetCoords (req : Request) (edof : List (Nat × Nat)) (xyz : List Xyz) :
    Except Err (List (Option Xyz)) :=
  if edof.length = nrows req then .ok (xyz.map some)
  else do
    let w ← spreadG (fun v => v :: basicRows) (rows2 req).length (rows2 req) xyz
    .ok (w.map some ++ List.replicate (edof.length - w.length) none)

/-- `make_uset(dof, nasset, xyz)`: rows `((id, dof, word), coordinates)`. -/
def makeUsetXyz (req : Request) (nas : List Nat) (xyz : List Xyz) :
    Except Err (List (Row × Option Xyz)) :=
  if xyz.length ≠ nrows req then .error .value
  else do
    let tbl ← makeUset req nas
    let edof ← makeUsetDof req
    let c ← makeUsetCoords req edof xyz
    .ok (tbl.zip c)

end PyYetiVerif.Uset
