import PyYetiVerif.Model.CoordRbe3
/-!
Model of the list-level packaging of `pyyeti.nastran.n2p.formrbe3` (property C14): what the function does with
its arguments *before* (and around) the least-squares step modelled in `Model/CoordRbe3.lean`.

    formrbe3(uset, GRID_dep, DOF_dep, Ind_List, UM_List=None)

* `expandDof`     `expanddof` on a 2-column array: returned unchanged when no entry exceeds 6, otherwise every
                  entry is replaced by its decimal digits (`str(arg)`), `ValueError` for a digit > 6;
* `IndGroup`      one pair `DOF_Ind, GRIDS_Ind` of `Ind_List`: the component number, the optional weighting
                  factor (`[123, 1.2]`; default 1.0) and the ids (a scalar id is a one-element list);
* `usetDof`       `uset.iloc[:, :0].reset_index().values`: the (id, dof) rows of the table;
* `indRowsOf`     the independent DOF in `Ind_List` order with their uset rows: DOF that are not rows of the table
                  drop out (`mat_intersect`), a scalar point that *is* in the table raises (`mkdofpv` on the
                  partition), the weight travels with its DOF;
* `partGrids`     `ids = sorted(set(npids[:, 0]))`, `uset.iloc[mkdofpv(uset, "p", ids)[0]]`: the grids of the
                  element in ascending id order (what the characteristic length is summed over);
* `packRbe3`      all of it: dependent rows `(d + 5) % 6` (Python's `[ddof[:, 1] - 1]`, `-1` = last row) in `DOF_dep`
                  digit order, independent DOF sorted into uset order, m-set size check and uset rows;
* `formrbe3W`     `packRbe3` followed by `rbe3Core`.

Exact (`Nat` / list code) up to the call of `rbe3Core`.  `none` = the real code raises.  Core Lean only.
-/
namespace PyYetiVerif.Coord

/-- decimal digits of `n`, most significant first (`[int(i) for i in str(n)]`) -/
def decDigits (n : Nat) : List Nat := (Nat.toDigits 10 n).map fun c => c.toNat - 48

/-- `expanddof` for a 2-column input -/
def expandDof (l : List (Nat × Nat)) : Option (List (Nat × Nat)) :=
  if l.all (fun p => p.2 ≤ Generated.CoordConsts.maxDof) then some l
  else
    let e := l.flatMap fun p => (decDigits p.2).map fun d => (p.1, d)
    if e.all (fun p => p.2 ≤ Generated.CoordConsts.maxDof) then some e else none

/-- one `DOF_Ind, GRIDS_Ind` pair of `Ind_List` -/
structure IndGroup (α : Type) where
  dof : Nat
  wt : Option α
  ids : List Nat

/-- the uset table as far as `formrbe3` looks at it: ids in table order, `none` = scalar point (one row, dof 0),
`some g` = grid (six rows) with its location and output system -/
abbrev UsetTab (α : Type) := List (Nat × Option (GridR α))

section
variable {α : Type}

def usetDof (u : UsetTab α) : List (Nat × Nat) :=
  u.flatMap fun e =>
    match e.2 with
    | none => [(e.1, 0)]
    | some _ => (List.range 6).map fun d => (e.1, d + 1)

/-- uset row of a DOF -/
def rowOf (ud : List (Nat × Nat)) (d : Nat × Nat) : Option Nat := ud.idxOf? d

def gridOf (u : UsetTab α) (id : Nat) : Option (GridR α) := (u.lookup id).join

/-- `Ind_List` expanded: ((id, dof), weight) in `Ind_List` order -/
def indExpand [OfNat α 1] (il : List (IndGroup α)) : Option (List ((Nat × Nat) × α)) :=
  (il.mapM fun g =>
    (expandDof (g.ids.map fun n => (n, g.dof))).map fun e => e.map fun d => (d, g.wt.getD 1)).map List.flatten

/-- one expanded independent DOF that is a row of the table -> (row, id, grid, component, weight);
`none` = `mkdofpv(uset, "p", ids)` raises: the id is a scalar point -/
def indRow (u : UsetTab α) (e : (Nat × Nat) × α) (k : Nat) : Option (Nat × Nat × IndDof α) :=
  match gridOf u e.1.1 with
  | none => none
  | some g =>
    if h : 1 ≤ e.1.2 ∧ e.1.2 ≤ 6 then some (k, e.1.1, ⟨g, ⟨e.1.2 - 1, by omega⟩, e.2⟩) else none

/-- the independent DOF that are rows of the table, `Ind_List` order -/
def indRowsOf [OfNat α 1] (u : UsetTab α) (il : List (IndGroup α)) : Option (List (Nat × Nat × IndDof α)) := do
  let ex ← indExpand il
  let ud := usetDof u
  (ex.filterMap fun e => (rowOf ud e.1).map fun k => (k, e)).mapM fun ke => indRow u ke.2 ke.1

/-- `sorted(set(ids))` -/
def sortedIds (ids : List Nat) : List Nat := (ids.mergeSort fun a b => a ≤ b).eraseDups

/-- the grids of the element in ascending id order -/
def partGrids (u : UsetTab α) (ids : List Nat) : List (GridR α) := (sortedIds ids).filterMap (gridOf u)

/-- everything `rbe3Core` needs -/
structure Rbe3Packed (α : Type) where
  grids : List (GridR α)
  dep : GridR α
  ddofs : List Nat
  dkeys : List Nat
  inds : List (Nat × IndDof α)
  um : Option (Nat × List Nat)
  nuset : Nat

/-- `UM_List`: expanded, its size compared with the number of dependent DOF (`ValueError` if different), then
reduced to rows of the table; -> (number of m-set DOF named, their rows in `UM_List` order) -/
def umRows (ud : List (Nat × Nat)) (ndd : Nat) : Option (List (Nat × Nat)) → Option (Option (Nat × List Nat))
  | none => some none
  | some l =>
    match expandDof l with
    | none => none
    | some m => if m.length != ndd then none else some (some (m.length, m.filterMap (rowOf ud)))

/-- the packed input once every look-up has succeeded: `ddof` = expanded dependent DOF, `ind` = independent DOF
that are rows of the table (`Ind_List` order), `umk` = m-set rows, `dep` = the dependent grid -/
def packWith (u : UsetTab α) (gdep : Nat) (ddof : List (Nat × Nat)) (ind : List (Nat × Nat × IndDof α))
    (umk : Option (Nat × List Nat)) (dep : GridR α) : Rbe3Packed α :=
  let ud := usetDof u
  let nuset := ud.length
  let inds := sortByRow ind nuset
  { grids := partGrids u (gdep :: inds.map fun e => e.2.1)
    dep := dep
    ddofs := ddof.map fun d => (d.2 + 5) % 6
    dkeys := ddof.map fun d => (rowOf ud d).getD nuset
    inds := inds.map fun e => (e.1, e.2.2)
    um := umk
    nuset := nuset }

/-- the packaging of `formrbe3`'s arguments -/
def packRbe3 [OfNat α 1] (u : UsetTab α) (gdep dofdep : Nat) (il : List (IndGroup α))
    (um : Option (List (Nat × Nat))) : Option (Rbe3Packed α) :=
  match expandDof [(gdep, dofdep)], indRowsOf u il, gridOf u gdep with
  | some ddof, some ind, some dep =>
    match umRows (usetDof u) ddof.length um with
    | some umk => some (packWith u gdep ddof ind umk dep)
    | none => none
  | _, _, _ => none

variable [Add α] [Sub α] [Mul α] [Div α] [Neg α] [OfNat α 0] [OfNat α 1] [OfNat α 180] [TransOps α] [LT α]
  [∀ a b : α, Decidable (a < b)]

/-- the numeric part on a packed input -/
def evalRbe3 (solve : Solver α) (p : Rbe3Packed α) : Option (List (List α)) :=
  rbe3Core solve p.grids p.dep p.ddofs p.dkeys p.inds.length (fun k => (p.inds[k]).2) (p.inds.map (·.1))
    p.um p.nuset

/-- `formrbe3(uset, GRID_dep, DOF_dep, Ind_List, UM_List)` -/
def formrbe3W (solve : Solver α) (u : UsetTab α) (gdep dofdep : Nat) (il : List (IndGroup α))
    (um : Option (List (Nat × Nat))) : Option (List (List α)) :=
  (packRbe3 u gdep dofdep il um).bind (evalRbe3 solve)

end

end PyYetiVerif.Coord
