import PyYetiVerif.Model.Op2Read
/-!
# OUTPUT2 readers of `op2.py`, the remaining call forms (C11)

* `rdop2record(form, N)` for every `form` (None/'int', 'uint', 'single', 'double', 'bytes') and `N ≥ 0`,
  with both value-reading paths (`struct.unpack` below `_rowsCutoff`, `numpy.fromfile` from it on);
* `rdop2mats(names, which)`: `_get_valid_names`, `_has_match` (case folding, the trailing-`*` wildcard),
  `_get_unique`, `which` an index (Python indexing, negative from the end) or `"all"`.

State and errors as in Model/Op2Read.lean (bytes still ahead; `Except Err`).  Values are not interpreted:
a record read with a numeric form is the list of the bit patterns of `bytes_per` bytes each (`Nat`); what
numpy shows of a pattern — a signed or unsigned integer, a float32, a float64 — is `Form.show`.  Core Lean only.
-/
namespace PyYetiVerif.Op2RF
open PyYetiVerif.Op4 (Endian)
open PyYetiVerif.Op2 (V2 kb)
open PyYetiVerif.Op2R

inductive Form
  | int | uint | single | double | bytes
deriving Repr, DecidableEq

/-- `bytes_per` -/
def Form.width (v : V2) : Form → Nat
  | .int => kb v
  | .uint => kb v
  | .single => 4
  | .double => 8
  | .bytes => 1

/-- `struct.unpack(frmu % n, f.read(n * bytes_per))` below the cut-off (a negative `n` makes the read raise
ValueError, a short read makes `unpack` raise), `np.fromfile(f, frm, n)` from the cut-off on (returns the
complete items that are there) -/
def rdItems (e : Endian) (cut : Int) (w : Nat) (n : Int) (s : List Nat) : M (List Nat × List Nat) :=
  if n < cut then
    if n < 0 then .error .value
    else if (s.take (n.toNat * w)).length = n.toNat * w then
      .ok ((chunks w n.toNat (s.take (n.toNat * w))).map (natOfBytes e), s.drop (n.toNat * w))
    else .error .struct
  else if n < 0 then .error .exotic
  else .ok ((chunks w (min n.toNat (s.length / w)) s).map (natOfBytes e), s.drop (n.toNat * w))

/-- `while key > 0:` of the numeric forms with `N = 0`: `data.extend(cur)`.

History (F50, repaired in pyYeti b194dbc): for form 'uint' the struct format was built by
`self._intstru.replace("i", "I")`, which left the 64-bit `"%dq"` signed; below the cut-off a key with its top bit set
then raised OverflowError while `np.fromfile` (from the cut-off on) returned it unsigned.  The repaired code also
replaces `"q"` by `"Q"`, so both paths return the unsigned pattern: what is modelled here. -/
def rdPieces (v : V2) (cut : Int) (w : Nat) : Nat → Int → List Nat → List Nat → M (List Nat × List Nat)
  | 0, _, _, _ => .error .fuel
  | fuel + 1, key, s, acc =>
    if key > 0 then
      match rdI4 v s with
      | .error e => .error e
      | .ok (reclen, s) =>
        match rdItems v.e cut w (reclen / (w : Int)) s with
        | .error e => .error e
        | .ok (cur, s) =>
          match getKey v (s.drop 4) with
          | .error e => .error e
          | .ok (key, s) => rdPieces v cut w fuel key s (acc ++ cur)
    else .ok (acc, s)

/-- `while key > 0:` with `N > 0`: `data[i : i + n] = …; i += n` into `data = np.empty(N)` (numpy slice
assignment: `Op2R.assignSlice`) -/
def rdPiecesN (v : V2) (cut : Int) (w : Nat) : Nat → Int → List Nat → List Nat → Int → M (List Nat × Int × List Nat)
  | 0, _, _, _, _ => .error .fuel
  | fuel + 1, key, s, data, i =>
    if key > 0 then
      match rdI4 v s with
      | .error e => .error e
      | .ok (reclen, s) =>
        let n : Int := reclen / (w : Int)
        match rdItems v.e cut w n s with
        | .error e => .error e
        | .ok (cur, s) =>
          match assignSlice data i (i + n) cur with
          | .error e => .error e
          | .ok data =>
            match getKey v (s.drop 4) with
            | .error e => .error e
            | .ok (key, s) => rdPiecesN v cut w fuel key s data (i + n)
    else .ok (data, i, s)

/-- `while key > 0:` of `form == "bytes"`: `data.append(f.read(reclen))` -/
def rdBytesPieces (v : V2) : Nat → Int → List Nat → List Nat → M (List Nat × List Nat)
  | 0, _, _, _ => .error .fuel
  | fuel + 1, key, s, acc =>
    if key > 0 then
      match rdI4 v s with
      | .error e => .error e
      | .ok (reclen, s) =>
        match pyRead reclen s with
        | .error e => .error e
        | .ok (b, s) =>
          match getKey v (s.drop 4) with
          | .error e => .error e
          | .ok (key, s) => rdBytesPieces v fuel key s (acc ++ b)
    else .ok (acc, s)

/-- `rdop2record(form, N)`; `none` = end of the data block.  With `N > 0` the array is `np.empty(N)`: if the
record holds fewer than `N` items the tail is uninitialised memory (outside the model). -/
def rdRecordF (v : V2) (cut : Int) (f : Form) (N : Nat) (s : List Nat) : M (Option (List Nat) × List Nat) :=
  match getKey v s with
  | .error e => .error e
  | .ok (key, s) =>
    if key = 0 then .ok (none, s) else
    match f with
    | .bytes =>
      match rdBytesPieces v (s.length + 1) key s [] with
      | .error e => .error e
      | .ok (b, s) => .ok (some b, skipKey v 2 s)
    | _ =>
      if N = 0 then
        match rdPieces v cut (f.width v) (s.length + 1) key s [] with
        | .error e => .error e
        | .ok (data, s) => .ok (some data, skipKey v 2 s)
      else
        match rdPiecesN v cut (f.width v) (s.length + 1) key s (List.replicate N 0) 0 with
        | .error e => .error e
        | .ok (data, i, s) => if i < (N : Int) then .error .exotic else .ok (some data, skipKey v 2 s)

/-- what numpy shows of a pattern of `w` bytes read with an integer form: two's complement for 'int' -/
def asInt (w : Nat) (x : Nat) : Int := if 2 * x < 256 ^ w then (x : Int) else (x : Int) - ((256 ^ w : Nat) : Int)

/-- a byte string cut into items of `w` bytes (complete items only) -/
def reinterp (e : Endian) (w : Nat) (b : List Nat) : List Nat := (chunks w (b.length / w) b).map (natOfBytes e)

/-! ## `rdop2mats(names, which)` -/

/-- `str.upper()` on ASCII -/
def upperB (b : Nat) : Nat := if 97 ≤ b ∧ b ≤ 122 then b - 32 else b

/-- one pattern of `_has_match`: `patt = patt.upper(); if patt[-1] == "*": name.startswith(patt[:-1])
elif name == patt`; an empty pattern raises IndexError -/
def matchPat (name patt : List Nat) : M Bool :=
  let p := patt.map upperB
  match p.getLast? with
  | none => .error .index
  | some c => if c = 42 then .ok (p.dropLast.isPrefixOf name) else .ok (name == p)

/-- `_has_match(name, names)`: patterns are tried in order, the first match ends the search -/
def hasMatch (name : List Nat) : List (List Nat) → M Bool
  | [] => .ok false
  | patt :: t =>
    match matchPat name patt with
    | .error e => .error e
    | .ok true => .ok true
    | .ok false => hasMatch name t

def filterM' {α} (p : α → M Bool) : List α → M (List α)
  | [] => .ok []
  | a :: t =>
    match p a with
    | .error e => .error e
    | .ok b =>
      match filterM' p t with
      | .error e => .error e
      | .ok r => .ok (if b then a :: r else r)

inductive Which
  | idx (i : Int)
  | all
deriving Repr, DecidableEq

/-- `dblist[which]` (Python indexing) or every element -/
def pick {α} (w : Which) (l : List α) : M (List α) :=
  match w with
  | .all => .ok l
  | .idx i =>
    let j : Int := if i < 0 then i + l.length else i
    if j < 0 then .error .index else
    match l[j.toNat]? with
    | some x => .ok [x]
    | none => .error .index

/-- `rdop2mats(names, which=…)` with `names` None (`none`) or a non-empty list of strings: the matrix data
blocks (`dbtype == 1`); the names that pass `_has_match`, unique in order of first appearance; for each the
blocks of that name, of which `which` selects one (a list of one) or all.  (`names=[]` raises StopIteration
in `_get_valid_names`: outside the model, `Err.exotic`.) -/
def rdMatsSel (v : V2) (f : List Nat) (dir : List Entry) (names : Option (List (List Nat))) (w : Which) :
    M (List (List Nat × List Mat)) :=
  let dbs := dir.filter (·.dbtype == 1)
  let all := dbs.map (·.name)
  let sel : M (List (List Nat)) :=
    match names with
    | none => .ok all
    | some [] => .error .exotic
    | some pats => filterM' (fun n => hasMatch n pats) all
  match sel with
  | .error e => .error e
  | .ok ns =>
    mapME (fun name =>
      match pick w (dbs.filter (·.name == name)) with
      | .error e => .error e
      | .ok xs =>
        match mapME (rdMat v f) xs with
        | .error e => .error e
        | .ok ms => .ok (name, ms)) (getUnique [] ns)

end PyYetiVerif.Op2RF
