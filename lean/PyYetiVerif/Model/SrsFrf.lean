import PyYetiVerif.Model.Srs
/-
Model of pyyeti/srs.py, third part (C03 extension): the routine `srs_frf` (srs.py:1416-2033).
Core Lean only; polymorphic like `Model/Srs.lean`: run at `Float` by `Drivers/C03.lean`, reasoned
about at `ℝ` in `Lemmas/SrsFrf.lean`, `Props/C03d.lean`.

    p_peak = Q * sqrt(sqrt(1 + 2 / Q**2) - 1)
    srs_frq None  ->  frf_frq / p_peak   (frf_frq itself with scale_by_Q_only), returned by default
    frf = abs(frf)                                       (before anything else)
    ffreq = sort(hstack(frf_frq, p_peak * srs_frq)); keep ffreq[0] and every ffreq[i] with
            ffreq[i] - ffreq[i-1] > 1e-5                 (scale_by_Q_only: ffreq = srs_frq)
    frf on ffreq: one FRF line -> zeros except at searchsorted(ffreq, frf_frq) (last index if past
            the end); otherwise scipy interp1d linear, 0 outside [frf_frq[0], frf_frq[-1]]
    scale_by_Q_only: sh = frf * Q
    else  a = frf W^2 / (wn^2 - W^2 + i (wn/Q) W) + frf  (0 where wn^2 < 0.005), sh = max |a| over ffreq
    getresp: {'freq': ffreq, 'frfs': (len(ffreq), nfrf, len(srs_frq)) complex, 'srs_frq'}
-/
namespace PyYetiVerif.Srs
open TransOps

section frf
variable {α : Type} [Add α] [Sub α] [Mul α] [Div α] [Neg α] [LT α] [DecidableLT α]
  [OfNat α 0] [OfNat α 1] [OfNat α 2] [OfScientific α] [TransOps α]

/-- `p_peak = Q * np.sqrt(np.sqrt(1 + 2 / Q**2) - 1)` -/
def pPeak (Q : α) : α := Q * sqrt (sqrt (1 + 2 / (Q * Q)) - 1)

/-! ### `np.sort`, the near-duplicate removal -/

def insertSorted (x : α) : List α → List α
  | [] => [x]
  | y :: ys => if y < x then y :: insertSorted x ys else x :: y :: ys

/-- `np.sort` (insertion sort; the values are all that matters) -/
def sortList (l : List α) : List α := l.foldr insertSorted []

/-- `pv[1:] = np.diff(ffreq) > tol`: an entry is kept iff it exceeds its predecessor *in the sorted
vector* (kept or not) by more than `tol` -/
def dedupAux (tol : α) : α → List α → List α
  | _, [] => []
  | p, x :: xs => if tol < x - p then x :: dedupAux tol x xs else dedupAux tol x xs

/-- `pv[0] = True` -/
def dedupNear (tol : α) : List α → List α
  | [] => []
  | x :: xs => x :: dedupAux tol x xs

/-- the de-duplication tolerance of `srs_frf` -/
def frfTol : α := 1.0e-5

/-- `ks < 0.005`: oscillators treated as rigid-body modes by `srs_frf` -/
def frfRigidThreshold : α := 0.005

/-- `ffreq` of the full (not `scale_by_Q_only`) path -/
def frfGrid (Q : α) (frfFrq srsFrq : List α) : List α :=
  dedupNear frfTol (sortList (frfFrq ++ srsFrq.map (pPeak Q * ·)))

/-! ### `scipy.interpolate.interp1d(kind='linear', bounds_error=False, fill_value=0,
assume_sorted=True)`, the 2-D-`y` code path `_call_linear` -/

/-- segment selection `searchsorted(x, x_new).clip(1, n-1)` and `slope*(x_new - x_lo) + y_lo`;
`(xlo, ylo)` is the left end of the current segment, the list holds the remaining points -/
def interpSeg : α → α → List (α × α) → α → α
  | _, ylo, [], _ => ylo
  | xlo, ylo, (xhi, yhi) :: rest, x =>
      match rest with
      | [] => (yhi - ylo) / (xhi - xlo) * (x - xlo) + ylo
      | _ :: _ =>
          if xhi < x then interpSeg xhi yhi rest x
          else (yhi - ylo) / (xhi - xlo) * (x - xlo) + ylo

/-- abscissa of the last point -/
def lastX : α → List (α × α) → α
  | x0, [] => x0
  | _, (x1, _) :: rest => lastX x1 rest

/-- the interpolant at `x`; `0` below the first and above the last abscissa -/
def interpLin (pts : List (α × α)) (x : α) : α :=
  match pts with
  | [] => 0
  | (x0, y0) :: rest => if x < x0 then 0 else if lastX x0 rest < x then 0 else interpSeg x0 y0 rest x

/-- one FRF line: `i = np.searchsorted(ffreq, frf_frq); if i == nf: i -= 1; newfrf[i] = frf` -/
def placeSingle (grid : List α) (x amp : α) : List α :=
  let i := (grid.takeWhile (· < x)).length
  let i := if i = grid.length then i - 1 else i
  (List.range grid.length).map fun k => if k = i then amp else 0

/-- `|FRF|` of one column carried to the analysis frequencies `grid` -/
def frfAmps (frfFrq col grid : List α) : List α :=
  match frfFrq, col with
  | [x], [a] => placeSingle grid x a
  | _, _ => grid.map (interpLin (frfFrq.zip col))

/-! ### the response -/

/-- modulus of `re + i im` -/
def cabs (z : α × α) : α := sqrt (z.1 * z.1 + z.2 * z.2)

/-- `np.abs(frf)` of one (complex) column -/
def absCol (col : List (α × α)) : List α := col.map cabs

/-- absolute-acceleration response `a = amp W² / (wn² - W² + i (wn/Q) W) + amp` of the oscillator
`wn` (rad/s) to the base line `amp` at `W` (rad/s); rigid-body branch (`wn² < 0.005`):
`a = -amp + amp` -/
def frfRespC (Q wn W amp : α) : α × α :=
  let ks := wn * wn
  if ks < frfRigidThreshold then (0, 0)
  else
    let hr := ks - W * W
    let hi := 1 / Q * wn * W
    let num := amp * (W * W)
    let d := hr * hr + hi * hi
    (num * hr / d + amp, -(num * hi) / d)

/-- the complex response of the oscillator `fn` (Hz) on the whole grid (`resp['frfs'][:, j, i]`) -/
def frfRespCol (Q fn : α) (grid amps : List α) : List (α × α) :=
  List.zipWith (fun f a => frfRespC Q (2 * pi * fn) (2 * pi * f) a) grid amps

/-- `abs(a).max(axis=1)`; `none` for an empty grid (numpy raises) -/
def srsFrfOne (Q fn : α) (grid amps : List α) : Option α :=
  match (frfRespCol Q fn grid amps).map cabs with
  | [] => none
  | v :: vs => some (maxOf v vs)

structure FrfResp (α : Type) where
  /-- `resp['freq']` -/
  freq : List α
  /-- `resp['frfs'][k][j][i]`: grid point `k`, FRF column `j`, oscillator `i` -/
  frfs : List (List (List (α × α)))
  /-- `resp['srs_frq']` -/
  srsFrq : List α

structure FrfOut (α : Type) where
  /-- `sh[i][j]`: oscillator `i`, FRF column `j` -/
  sh : List (List α)
  /-- the second return value, present iff `return_srs_frq` -/
  srsFrq : Option (List α)
  /-- the last return value, present iff `getresp` -/
  resp : Option (FrfResp α)

/-- `srs_frq` as used: the input, or the default computed from `frf_frq` -/
def frfSrsFrq (Q : α) (frfFrq : List α) (srsFrq : Option (List α)) (qOnly : Bool) : List α :=
  match srsFrq with
  | some s => s
  | none => if qOnly then frfFrq else frfFrq.map (· / pPeak Q)

/-- `return_srs_frq` after the `None` default has been resolved -/
def frfReturnsFrq (srsFrqGiven : Bool) (ret : Option Bool) : Bool :=
  match ret with
  | some b => b
  | none => !srsFrqGiven

/-- `some` of all the values, `none` as soon as one is missing -/
def allSome {β : Type} : List (Option β) → Option (List β)
  | [] => some []
  | none :: _ => none
  | some v :: rest => match allSome rest with
      | none => none
      | some vs => some (v :: vs)

/-- rows from columns: `rows[i] = [c[i] for c in colsL]`, `n` rows -/
def rowsOfCols (n : Nat) (colsL : List (List α)) : List (List α) :=
  (List.range n).map fun i => colsL.filterMap (·[i]?)

/-- `shk[i][j] = abs(a).max(axis=1)` for every oscillator `i` and FRF column `j` -/
def srsFrfSh (Q : α) (sf grid : List α) (amps : List (List α)) : Option (List (List α)) :=
  allSome (sf.map fun fn => allSome (amps.map fun a => srsFrfOne Q fn grid a))

/-- `resp['frfs']` -/
def srsFrfFrfs (Q : α) (sf grid : List α) (amps : List (List α)) : List (List (List (α × α))) :=
  List.zipWith (fun g arow => arow.map fun a => sf.map fun fn =>
    frfRespC Q (2 * pi * fn) (2 * pi * g) a) grid (rowsOfCols grid.length amps)

/-- `srs.srs_frf(frf, frf_frq, srs_frq, Q, getresp=…, return_srs_frq=…, scale_by_Q_only=…)`;
`cols` are the columns of `frf` as complex numbers.  `none` where the code raises: `getresp` together
with `scale_by_Q_only`; no FRF line; a column whose length is not `len(frf_frq)`; an empty grid. -/
def srsFrf (cols : List (List (α × α))) (frfFrq : List α) (srsFrq : Option (List α)) (Q : α)
    (getresp : Bool) (ret : Option Bool) (qOnly : Bool) : Option (FrfOut α) :=
  if getresp && qOnly then none
  else if frfFrq.isEmpty then none
  else if cols.any (fun c => c.length != frfFrq.length) then none
  else
    let sf := frfSrsFrq Q frfFrq srsFrq qOnly
    let retFrq := if frfReturnsFrq srsFrq.isSome ret then some sf else none
    if qOnly then
      -- ffreq = srs_frq;  shk = frf * Q
      let amps := cols.map fun c => frfAmps frfFrq (absCol c) sf
      some ⟨(rowsOfCols sf.length amps).map fun row => row.map (· * Q), retFrq, none⟩
    else
      let grid := frfGrid Q frfFrq sf
      let amps := cols.map fun c => frfAmps frfFrq (absCol c) grid
      match srsFrfSh Q sf grid amps with
      | none => none
      | some sh =>
        some ⟨sh, retFrq, if getresp then some ⟨grid, srsFrfFrfs Q sf grid amps, sf⟩ else none⟩

end frf
end PyYetiVerif.Srs
