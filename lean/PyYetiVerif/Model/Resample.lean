/-
Model of `pyyeti.dsp.resample` (C19) for one signal.  Core Lean only.

The routine, step by step (the Kaiser window `w` is an input of the model: Lean has no Bessel
function; the correspondence check passes `scipy.signal.windows.kaiser(M + 1, beta)`):

    gf = gcd(p, q); p //= gf; q //= gf; M = 2*pts*max(p, q)
    cutoff = min(1/q, 1/p)/2;  fir = p * w * (2*cutoff*sinc(2*cutoff*(n - M/2)))
    m = mean(data); updata1 = zeros(ln*p); updata1[::p] = data - m     (p > 1; else data - m)
    updata1 = [0]*(M//2) ++ updata1 ++ [0]*(M//2)
    updata = lfilter(fir, 1, updata1)[M:]
    RData = updata[::q] + m                                            (q > 1; else updata + m)

`resampleLen` is the length arithmetic alone (`Nat`), `resample` the whole pipeline, polymorphic
over the arithmetic and the class `SincOps` (`sin`, `pi`), run at `Float` by the driver.
-/
namespace PyYetiVerif.Resample

/-- `len(x[::q])` computed by walking the list (Python's extended slice with step `q ≥ 1`) -/
def everyQ {β : Type} (q : Nat) : List β → List β
  | [] => []
  | x :: r => x :: everyQ q (r.drop (q - 1))
termination_by l => l.length
decreasing_by simp only [List.length_drop, List.length_cons]; omega

/-- zero stuffing: every sample followed by `p - 1` zeros (`updata1[::p] = …`) -/
def stuff {β : Type} (zero : β) (p : Nat) (xs : List β) : List β :=
  xs.flatMap fun x => x :: List.replicate (p - 1) zero

/-- the length of the returned signal: `len(lfilter(...)[M:][::q])` after the gcd reduction -/
def resampleLen (ln p q : Nat) : Nat :=
  let g := Nat.gcd p q
  let p' := p / g
  let q' := q / g
  (everyQ q' (List.replicate (ln * p') ())).length

class SincOps (α : Type) where
  sin : α → α
  pi : α

variable {α : Type} [Add α] [Sub α] [Mul α] [Div α] [LT α] [DecidableLT α]
  [OfNat α 0] [OfNat α 1] [OfNat α 2] [NatCast α] [SincOps α]

/-- `np.sinc(x)` = `sin(pi x)/(pi x)`, `1` at `x = 0` -/
def sinc (x : α) : α :=
  if x < 0 then SincOps.sin (SincOps.pi * x) / (SincOps.pi * x)
  else if 0 < x then SincOps.sin (SincOps.pi * x) / (SincOps.pi * x)
  else 1

/-- `min(1/q, 1/p)/2` as the code computes it -/
def cutoff (p q : Nat) : α :=
  let a : α := 1 / (q : α)
  let b : α := 1 / (p : α)
  (if b < a then b else a) / 2

/-- tap `n` of the FIR filter for reduced `p`, `q`, filter order `M` and window value `wn` -/
def tap (p q M : Nat) (wn : α) (n : Nat) : α :=
  let c : α := cutoff p q
  (p : α) * wn * (2 * c * sinc (2 * c * ((n : α) - (M : α) / 2)))

/-- `fir = p * w * s` -/
def firTaps (p q M : Nat) (w : List α) : List α :=
  (List.range (M + 1)).zipWith (fun n wn => tap p q M wn n) w

def sumL (l : List α) : α := l.foldl (· + ·) 0

/-- `scipy.signal.lfilter(fir, 1, x)`: `y[i] = Σ_{k ≤ i} fir[k] x[i-k]` -/
def firFilter (fir x : List α) : List α :=
  (List.range x.length).map fun i =>
    sumL ((List.range (min (i + 1) fir.length)).map fun k =>
      match fir[k]?, x[i - k]? with
      | some f, some v => f * v
      | _, _ => 0)

/-- `dsp.resample(data, p, q, pts=pts)` with window `w` (length `M + 1`) -/
def resample (data : List α) (p q pts : Nat) (w : List α) : List α :=
  let g := Nat.gcd p q
  let p' := p / g
  let q' := q / g
  let M := 2 * pts * max p' q'
  let fir := firTaps p' q' M w
  let m : α := sumL data / (data.length : α)
  let d := data.map (· - m)
  let up := if 1 < p' then stuff 0 p' d else d
  let nz := M / 2
  let padded := List.replicate nz 0 ++ up ++ List.replicate nz 0
  let filt := (firFilter fir padded).drop M
  let dn := if 1 < q' then everyQ q' filt else filt
  dn.map (· + m)

/-- `tnew[k]` of `resample(..., t=t)` (since commit 89f5087):
`np.arange(n) * (t[1] - t[0]) * q / p + t[0]` with the gcd-reduced `p`, `q` -/
def tnewAt (t0 t1 : α) (p q k : Nat) : α :=
  let g := Nat.gcd p q
  (k : α) * (t1 - t0) * ((q / g : Nat) : α) / ((p / g : Nat) : α) + t0

/-- the same before that commit (finding F32): `np.arange(n) * (t[1] - t[0]) * ln / n + t[0]`,
`n = ceil(ln*p/q)`; kept only for the documented counterexample in `Props/C19.lean` -/
def tnewAtOld (t0 t1 : α) (ln n k : Nat) : α :=
  (k : α) * (t1 - t0) * (ln : α) / (n : α) + t0

end PyYetiVerif.Resample
