import PyYetiVerif.Model.FixtimeTnew
/-
Model of the sample-rate statistics of `pyyeti.dsp.fixtime` (C19): `_sr_calcs`, i.e. what
`sr='auto'` chooses, and of the `base` shift at the end of `fixtime`.  Core Lean only, at `Rat`.

    min_ts = difft.min(); max_ts = difft.max(); ave_ts = difft.mean()
    max_sr = 1/min_ts; min_sr = 1/max_ts; ave_sr = 1/ave_ts
    Ldiff = len(difft); difft2 = difft[difft != 0]; sr_all = 1/difft2
    sr1 = sr_all.min()
    dsr = 5 if sr1 > 5 else round(10*max(sr1, 0.1))/10            -- Python round: halves to even
    counts = pd.Series(np.round(sr_all/dsr)).value_counts()       -- np.round: halves to even;
    mode_sr = counts.index[0]*dsr                                 -- most frequent, ties: first seen
    mode_pct = counts.iat[0]/Ldiff*100
    if mode_pct > 90 or abs(mode_sr - ave_sr) < dsr: defsr = round(mode_sr/dsr)*dsr
    else:                                             defsr = round(ave_sr/dsr)*dsr
    sr = defsr if sr == 'auto'

    base:  t0 = tnew[0];  t1 = base - t0 - round((base - t0)*sr)/sr;  tnew += t1

Every step is a rational operation or a comparison, so the model is the code's exact-arithmetic
semantics; the code rounds each division (the correspondence check compares at 1e-9 and skips
inputs whose `round` argument or comparison lies within 1e-9 of a tie).  `max_sr` is `inf` in the
code when two times coincide (`min_ts = 0`): `none` here.
-/
namespace PyYetiVerif.Fixtime

def minQ : List Rat → Option Rat
  | [] => none
  | a :: r => some (r.foldl (fun m x => if x < m then x else m) a)

def maxQ : List Rat → Option Rat
  | [] => none
  | a :: r => some (r.foldl (fun m x => if m < x then x else m) a)

/-- how often `k` occurs -/
def countOf (k : Int) (l : List Int) : Nat := (l.filter (· == k)).length

/-- `pd.Series(l).value_counts()` first row: the most frequent value and its count; among equally
frequent values the one that appears first -/
def modeFirst (l : List Int) : Option (Int × Nat) :=
  l.foldl (fun best x =>
    let c := countOf x l
    match best with
    | none => some (x, c)
    | some (b, cb) => if cb < c then some (x, c) else some (b, cb)) none

structure SrStats where
  /-- `1/min_ts` (`none`: the code's `inf`, two equal times) -/
  maxSr : Option Rat
  minSr : Rat
  aveSr : Rat
  modeSr : Rat
  modePct : Rat
  /-- the resolution of the count: `5`, or `round(10·sr1)/10` for slow data -/
  dsr : Rat
  /-- which branch chose `defsr`: the most frequent rate (`true`) or the average rate -/
  byMode : Bool
  /-- what `sr='auto'` uses -/
  defsr : Rat

/-- `dsr` from the smallest rate -/
def srResolution (sr1 : Rat) : Rat :=
  if 5 < sr1 then 5 else ((roundHalfEven (10 * (if sr1 < 1 / 10 then 1 / 10 else sr1)) : Int) : Rat) / 10

/-- `_sr_calcs(difft, 'auto', False)`; `none` = the routine raises (`min` of an empty array) -/
def srCalcs (difft : List Rat) : Option SrStats :=
  match minQ difft, maxQ difft with
  | some mn, some mx =>
    let L : Rat := (difft.length : Rat)
    let aveSr := 1 / (sumQ difft / L)
    let srAll := (difft.filter fun d => !(d == 0)).map fun d => 1 / d
    match minQ srAll with
    | none => none
    | some sr1 =>
      let dsr := srResolution sr1
      match modeFirst (srAll.map fun s => roundHalfEven (s / dsr)) with
      | none => none
      | some (k, c) =>
        let modeSr := ((k : Int) : Rat) * dsr
        let pct := (c : Rat) / L * 100
        let byMode := decide (90 < pct) || decide (absQ (modeSr - aveSr) < dsr)
        let defsr := if byMode then ((roundHalfEven (modeSr / dsr) : Int) : Rat) * dsr
                     else ((roundHalfEven (aveSr / dsr) : Int) : Rat) * dsr
        some ⟨if mn == 0 then none else some (1 / mn), 1 / mx, aveSr, modeSr, pct, dsr, byMode, defsr⟩
  | _, _ => none

/-- `t1 = base - t0 - round((base - t0)*sr)/sr` -/
def baseShift (t0 base sr : Rat) : Rat :=
  base - t0 - ((roundHalfEven ((base - t0) * sr) : Int) : Rat) / sr

end PyYetiVerif.Fixtime
