/-
Model of the sample-selection helpers of `pyyeti.dsp.fixtime` (C19).  Core Lean only.

* `ssLeft` / `ssRight`       — `np.searchsorted(a, v, side="left"|"right")` for a sorted `a`
                               (number of leading elements `< v` / `≤ v`).
* `closest`                  — `_find_closest_times` (the `if not HAVE_NUMBA:` variant that
                               executes here), one new time at a time:
                                 index = searchsorted(told, tnew); index[index == lold] = lold - 1
                                 delta = told[index] - tnew; delta_1 = told[index - 1] - tnew
                                 index[abs(delta_1) <= abs(delta)] -= 1
                               `told[index - 1]` with `index = 0` is Python's `told[-1]` (the LAST
                               sample): modelled literally, the result is an `Int` that may be `-1`.
* `prevIdx`                  — `_find_closest_previous_times` after the `fix:` commit fdedaff:
                                 index = searchsorted(told, tnew, side="right") - 1; index[index < 0] = 0
  `prevIdxLeft`              — the code before that commit (left-sided search), kept only for the
                               proved counterexample in `Props/C19.lean`.
* `closestSeq`, `prevSeq`    — the numba variants (`else:` branch; source text only in this
                               sandbox): sequential scans that carry `i` from one new time to the
                               next, including the `for … else: return zeros` exits.
* `take`                     — `olddata[index]` with Python's negative indexing.

Values are only compared and subtracted, so the model over an ordered field (run at `Rat` by the
driver) is the code's exact semantics on dyadic inputs.
-/
namespace PyYetiVerif.Fixtime

variable {α : Type} [LT α] [DecidableLT α] [LE α] [DecidableLE α]

/-- `np.searchsorted(a, v)` (`side="left"`), `a` sorted. -/
def ssLeft (a : List α) (v : α) : Nat := (a.takeWhile fun x => decide (x < v)).length

/-- `np.searchsorted(a, v, side="right")`, `a` sorted. -/
def ssRight (a : List α) (v : α) : Nat := (a.takeWhile fun x => decide (x ≤ v)).length

/-- `abs(a - b)` -/
def absd [Sub α] (a b : α) : α := if a < b then b - a else a - b

/-- Python `a[i]` for a possibly negative `i` (`none` = `IndexError`). -/
def pyGet {β : Type} (a : List β) (i : Int) : Option β :=
  if i < 0 then (if a.length < i.natAbs then none else a[a.length - i.natAbs]?) else a[i.toNat]?

/-- `_find_closest_times(told, [t])[0]`; `none` = `IndexError` (empty `told`). -/
def closest [Sub α] (told : List α) (t : α) : Option Int :=
  let n := told.length
  let i0 := ssLeft told t
  let i : Nat := if i0 = n then n - 1 else i0
  match pyGet told (i : Int), pyGet told ((i : Int) - 1) with
  | some a, some b => if absd b t ≤ absd a t then some ((i : Int) - 1) else some (i : Int)
  | _, _ => none

/-- `_find_closest_previous_times(told, [t])[0]` (current code, `side="right"`). -/
def prevIdx (told : List α) (t : α) : Nat := ssRight told t - 1

/-- the same before commit fdedaff (`side="left"`): finding F11. -/
def prevIdxLeft (told : List α) (t : α) : Nat := ssLeft told t - 1

/-- `olddata[index]` -/
def take {β : Type} (data : List β) (idx : List Int) : Option (List β) := idx.mapM (pyGet data)

/-! ### numba variants (sequential; source text only) -/

/-- first `k ≥ i` with `told[k] >= v` -/
def scanGE (told : List α) (i : Nat) (v : α) : Option Nat :=
  ((told.drop i).findIdx? fun x => decide (v ≤ x)).map (· + i)

/-- first `k ≥ i` with `told[k] > v` -/
def scanGT (told : List α) (i : Nat) (v : α) : Option Nat :=
  ((told.drop i).findIdx? fun x => decide (v < x)).map (· + i)

/-- `if i > 0 and v - told[i - 1] <= told[i] - v: i - 1 else: i` -/
def pickSeq [Sub α] (told : List α) (i : Nat) (v : α) : Nat :=
  if i = 0 then i else
    match told[i - 1]?, told[i]? with
    | some b, some a => if v - b ≤ a - v then i - 1 else i
    | _, _ => i

/-- the `for j in range(1, lnew)` loop; a `for i in range(i, lold)` that finds nothing leaves
`i = lold - 1` (the last value the loop variable took). -/
def closestSeqGo [Sub α] (told : List α) : Nat → List α → List Nat
  | _, [] => []
  | i, v :: r =>
      let i' := match scanGE told i v with
        | some k => k
        | none => told.length - 1
      pickSeq told i' v :: closestSeqGo told i' r

/-- numba `_find_closest_times`; `none` = `IndexError` on `tnew[0]`. -/
def closestSeq [Sub α] (told tnew : List α) : Option (List Nat) :=
  match tnew with
  | [] => none
  | v :: r =>
      match scanGE told 0 v with
      | none => some (List.replicate tnew.length 0)
      | some i => some (pickSeq told i v :: closestSeqGo told i r)

/-- `for i in range(i, lold): if told[i] > v: break` / `else: i = lold`, then
`i - 1 if i > 0 else i`. -/
def prevSeqGo (told : List α) : Nat → List α → List Nat
  | _, [] => []
  | i, v :: r =>
      let i' := match scanGT told i v with
        | some k => k
        | none => told.length
      (i' - 1) :: prevSeqGo told i' r

/-- numba `_find_closest_previous_times`. -/
def prevSeq (told tnew : List α) : Option (List Nat) :=
  match tnew with
  | [] => none
  | v :: r =>
      match scanGT told 0 v with
      | none => some (List.replicate tnew.length 0)
      | some i => some ((i - 1) :: prevSeqGo told i r)

end PyYetiVerif.Fixtime
