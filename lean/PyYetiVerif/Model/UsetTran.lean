import PyYetiVerif.Model.UsetUp
/-!
Model of the matrix routines of `pyyeti/nastran/n2p.py` that are built on the set partition vectors:
`formtran` (with `_formtran_0`, `_proc_mset`), `formulvs`, `formdrm`, `addulvs`, and of the table that
`usetprt` returns.  Core Lean only.

The routines are index bookkeeping over stored matrices (`got`, `goq`, `gm`, `pha`, `phg`, `ulvs` of the
nas2cam dictionary): which rows / columns of which stored matrix go where.  The entries are elements
of any type `α` with `+`, `*`, `0`, `1` and decidable equality (`np.any` = "is not 0"); the
correspondence check runs the model at `Int` on integer-valued matrices.

A matrix carries its column count (`got.shape[1]` is read for a matrix without rows).
-/
set_option linter.constructorNameAsVariable false
namespace PyYetiVerif.Uset
open PyYetiVerif.Locate (matIntersect)

/-- exception kinds of the matrix routines: those of the look-up layer, `RuntimeError`, and the fuel
of the `while True` loop of `formulvs` used up (the real code loops for ever) -/
inductive TErr
  | base (e : Err)
  | runtime
  | fuel
deriving DecidableEq, Repr

def liftE {β : Type} : Except Err β → Except TErr β
  | .ok v => .ok v
  | .error e => .error (.base e)

structure M (α : Type) where
  r : List (List α)
  c : Nat
deriving Repr, DecidableEq

section mat
variable {α : Type} [Add α] [Mul α] [OfNat α 0] [OfNat α 1]

def zeroRow (n : Nat) : List α := List.replicate n 0
/-- row `k` of `np.eye(n)` -/
def unitRow (n k : Nat) : List α := (List.range n).map fun j => if j = k then 1 else 0
def addRow (a b : List α) : List α := List.zipWith (· + ·) a b
def smulRow (x : α) (a : List α) : List α := a.map (x * ·)

/-- `coef @ B` for one row of coefficients: the combination `Σ coef[j] * B[j]` of the rows of `B`
(`n` = the width, for an empty sum) -/
def rowComb (n : Nat) (coef : List α) (B : List (List α)) : List α :=
  (coef.zip B).foldl (fun acc p => addRow acc (smulRow p.1 p.2)) (zeroRow n)

/-- `np.dot(A, B)` / `A @ B` (`ValueError` when the inner dimensions differ) -/
def dot (A B : M α) : Except TErr (M α) :=
  if A.c ≠ B.r.length then .error (.base .value)
  else .ok ⟨A.r.map (fun row => rowComb B.c row B.r), B.c⟩

/-- `x[idx]` for non-negative indices (`IndexError` when one is out of range) -/
def takeIdx {β : Type} (x : List β) (idx : List Nat) : Except TErr (List β) :=
  match idx.mapM (x[·]?) with
  | some l => .ok l
  | none => .error (.base .index)

/-- `A[idx]`: rows -/
def rowsAt (A : M α) (idx : List Nat) : Except TErr (M α) := do
  let l ← takeIdx A.r idx
  .ok ⟨l, A.c⟩

/-- `A[:, idx]`: columns -/
def colsAt (A : M α) (idx : List Nat) : Except TErr (M α) := do
  let l ← A.r.mapM (fun row => takeIdx row idx)
  .ok ⟨l, idx.length⟩

/-- one row of `tran[rows, cols] = vals`: `vals[j]` goes to column `cols[j]` (the shapes must agree:
`ValueError`; a column outside the row: `IndexError`; a repeated column: the later value wins) -/
def setCols (row : List α) (cols : List Nat) (vals : List α) : Except TErr (List α) :=
  if cols.any (fun c => decide (row.length ≤ c)) then .error (.base .index)
  else if cols.length ≠ vals.length then .error (.base .value)
  else .ok ((cols.zip vals).foldl (fun acc p => acc.set p.1 p.2) row)

/-- `np.zeros((k, w)); out[:, cols] = block` row by row -/
def scatterRows (w : Nat) (cols : List Nat) (block : List (List α)) : Except TErr (List (List α)) :=
  block.mapM (fun vals => setCols (zeroRow w) cols vals)

def addM (A B : M α) : Except TErr (M α) :=
  if A.c ≠ B.c ∨ A.r.length ≠ B.r.length then .error (.base .value)
  else .ok ⟨List.zipWith addRow A.r B.r, A.c⟩

end mat

/-! ### the dictionary -/

/-- the nas2cam dictionary: the part `upasetpv` reads (`toNas`) and the stored matrices -/
structure NasT (α : Type) where
  nas : Nas
  got : List (Nat × M α)
  goq : List (Nat × M α)
  gm : List (Nat × M α)
  pha : List (Nat × M α)
  phg : List (Nat × M α)
deriving Repr

/-- the masks the routines ask `mkusetmask` for -/
structure Masks where
  p : Nat
  g : Nat
  n : Nat
  a : Nat
  t : Nat
  q : Nat
  o : Nat
  m : Nat
  s : Nat
  c : Nat

def Masks.ofTable (mask : SetName → Nat) : Masks :=
  ⟨mask .p, mask .g, mask .n, mask .a, mask .t, mask .q, mask .o, mask .m, mask .s, mask .c⟩

/-- `np.nonzero(mksetpv(uset, major, minor))[0]` -/
def setPos (tbl : List Row) (major minor : Nat) : Except TErr (List Nat) :=
  liftE ((mksetpv (tbl.map (·.2.2)) major minor).map positions)

section tran
/- `κ` is the type of an `[id, dof]` row as `locate.mat_intersect` compares it (the driver takes the two-element
list, ordered lexicographically; the theorems hold for every linear order), `mkKey id dof` builds one. -/
variable {κ : Type} [DecidableEq κ] [LT κ] [DecidableLT κ] [LE κ] [DecidableLE κ] (mkKey : Nat → Nat → κ)
variable {α : Type} [Add α] [Mul α] [OfNat α 0] [OfNat α 1] [DecidableEq α]

/-- `uset.iloc[:, :0].reset_index().values`: the `[id, dof]` rows of a table (of the g-set rows since fix e74e9b9: `iddofG`) -/
def iddofOf (tbl : List Row) : List κ := tbl.map fun r => mkKey r.1 r.2.1

def dofRows (dof : List (Nat × Nat)) : List κ := dof.map fun d => mkKey d.1 d.2

/-- `locate.mat_intersect(iddof[idx], dof)[0]` (keep = 0) -/
def selIn (iddof : List κ) (idx : List Nat) (dof : List κ) : Except TErr (List Nat) := do
  let sub ← takeIdx iddof idx
  .ok (matIntersect sub dof 2 2 0).1

/-- the requested DOF of one set: `pvdofx = mat_intersect(iddof[x], dof)[0]; x = x[pvdofx]`; with `guard` the
look-up is skipped for an empty set (`if q.size > 0`) -/
def selSet (iddof : List κ) (xs : List Nat) (dof : List κ) (guard : Bool) :
    Except TErr (List Nat × List Nat) :=
  if guard = true ∧ xs = [] then .ok ([], [])
  else do
    let pv ← selIn iddof xs dof
    let x' ← takeIdx xs pv
    .ok (pv, x')

/-- `np.nonzero(np.any(A, 0))[0]`: the columns of `A` that hold a non-zero entry -/
def anyCols (A : M α) : List Nat :=
  (List.range A.c).filter fun j => A.r.any fun row => row[j]? != some 0 && (row[j]?).isSome

/-- the rows of the table a boolean vector selects (`uset.iloc[pv]`; pandas refuses a vector of another length) -/
def rowsOfMask (tbl : List Row) (pv : List Bool) : List Row := ((tbl.zip pv).filter (·.2)).map (·.1)

/-- `uset.iloc[mksetpv(uset, "p", "g"), :0].reset_index().values`: the `[id, dof]` rows of the g-set, in table order -/
def iddofG (mk : Masks) (tbl : List Row) : Except TErr (List κ) := do
  let pv ← liftE (mksetpv (tbl.map (·.2.2)) mk.p mk.g)
  if pv.length ≠ tbl.length then .error (.base .index)
  else .ok (iddofOf mkKey (rowsOfMask tbl pv))

/-- `_proc_mset(nas, se, dof)` with the `[id, dof]` table evaluated by `idd` at the place of the `iddof = …` line -/
def procMsetWith (idd : Except TErr (List κ)) (mk : Masks) (tbl : List Row) (gm : Option (M α)) (dof : List κ) :
    Except TErr (Option (List Nat × M α)) := do
  let m ← setPos tbl mk.g mk.m
  if m = [] then .ok none
  else do
    let iddof ← idd
    let pvdofm ← selIn iddof m dof
    if pvdofm = [] then .ok none
    else do
      let m' ← takeIdx m pvdofm
      match gm with
      | none => .error (.base .key)
      | some g => do
          let g' ← rowsAt g pvdofm
          .ok (some (m', g'))

/-- `_proc_mset(nas, se, dof)` -/
def procMset (mk : Masks) (tbl : List Row) (gm : Option (M α)) (dof : List κ) :
    Except TErr (Option (List Nat × M α)) :=
  procMsetWith (iddofG mkKey mk tbl) mk tbl gm dof

/-- the rows of the final `tran[pv]`: `pv, pv2 = mat_intersect(fulldof, dof, 2)`; `RuntimeError`
when a requested DOF is in none of the recovery sets -/
def reorder (iddof : List κ) (sets : List Nat) (dof : List κ) (npv : Nat)
    (rows : List (List α)) (w : Nat) : Except TErr (M α) := do
  let fulldof ← takeIdx iddof sets
  let pv := matIntersect fulldof dof 2 2 2
  if pv.2.length ≠ npv then .error .runtime
  else do
    -- `tran = np.zeros((len(pv), w))`: the block rows, then rows that stay zero
    let padded := rows ++ List.replicate (pv.1.length - rows.length) (zeroRow w)
    let out ← takeIdx padded pv.1
    .ok ⟨out, w⟩

/-- the m-set block of `formtran`: `ulvsm` -/
def mBlock (gm got : M α) (goq : M α) (ct cq : Nat) (t_a q_a t_n o_n q_n : List Nat) :
    Except TErr (List (List α)) := do
  let gmo ← colsAt gm o_n
  let v := anyCols gmo
  let gmt ← colsAt gm t_n
  let z : List (List α) := gm.r.map fun _ => zeroRow (ct + cq)
  -- ulvsm[:, t_a] = …
  let (tpart, qpart0) ←
    (if v ≠ [] then do
        let gmov ← colsAt gmo v
        let gotv ← rowsAt got v
        let p ← dot gmov gotv
        let tp ← addM gmt p
        if cq ≠ 0 then do
          let goqv ← rowsAt goq v
          let qp ← dot gmov goqv
          pure (tp, some qp)
        else pure (tp, none)
      else pure (gmt, none) : Except TErr (M α × Option (M α)))
  let z1 ← (z.zip tpart.r).mapM fun p => setCols p.1 t_a p.2
  if z1.length ≠ z.length then .error (.base .value)
  else do
    let z2 ← (match qpart0 with
      | some qp => (z1.zip qp.r).mapM fun p => setCols p.1 q_a p.2
      | none => pure z1 : Except TErr (List (List α)))
    if cq ≠ 0 then do
      -- ulvsm[:, q_a] += gm[:, q_n]
      let gmq ← colsAt gm q_n
      let cur ← z2.mapM fun row => takeIdx row q_a
      let upd := List.zipWith addRow cur gmq.r
      if q_a.length ≠ q_n.length then .error (.base .value)
      else (z2.zip upd).mapM fun p => setCols p.1 q_a p.2
    else pure z2

/-- what `formtran` selects for `se != 0`: per recovery set the matching rows (`pvdofx`: indices into the set,
`x'`: rows of the table), the `got` / `goq` it will use, the m-set part -/
structure UpSel (α : Type) where
  pvdoft : List Nat
  t' : List Nat
  pvdofo : List Nat
  o' : List Nat
  gotM : M α
  goqM : M α
  pm : Option (List Nat × M α)
  tnoq : List Nat × List Nat × List Nat
  pvdofq : List Nat
  q' : List Nat
  pvdofs : List Nat
  s' : List Nat

/-- `sets = [t, o, m, q, s]` -/
def UpSel.sets (x : UpSel α) : List Nat :=
  x.t' ++ x.o' ++ (match x.pm with | some y => y.1 | none => []) ++ x.q' ++ x.s'

/-- the selections of `formtran` (`se != 0`) with the table evaluated by `idd` -/
def upSelectWith (idd : Except TErr (List κ)) (mk : Masks) (tbl : List Row) (got goq gm : Option (M α)) (dofr : List κ) :
    Except TErr (UpSel α) := do
  let t ← setPos tbl mk.g mk.t
  let iddof ← idd
  let st ← selSet iddof t dofr false
  let o ← setPos tbl mk.g mk.o
  let so ← selSet iddof o dofr false
  let o1 := o.length
  let goqM ← (match goq with
    | some g => pure g
    | none => do
        let q1 ← setPos tbl mk.g mk.q
        pure (if q1.length > 0 then ⟨List.replicate o1 (zeroRow q1.length), q1.length⟩ else ⟨[[]], 0⟩)
    : Except TErr (M α))
  let gotM ← (match got with
    | some g => pure g
    | none => do
        let t1 ← setPos tbl mk.g mk.t
        pure ⟨List.replicate o1 (zeroRow t1.length), t1.length⟩ : Except TErr (M α))
  let pm ← procMsetWith idd mk tbl gm dofr
  let tnoq ← (match pm with
    | some _ => do
        let t_n ← setPos tbl mk.n mk.t
        let o_n ← setPos tbl mk.n mk.o
        let q_n ← setPos tbl mk.n mk.q
        pure (t_n, o_n, q_n)
    | none => pure ([], [], []) : Except TErr (List Nat × List Nat × List Nat))
  let q ← setPos tbl mk.g mk.q
  let sq ← selSet iddof q dofr true
  let s ← setPos tbl mk.g mk.s
  let ss ← selSet iddof s dofr true
  .ok ⟨st.1, st.2, so.1, so.2, gotM, goqM, pm, tnoq, sq.1, sq.2, ss.1, ss.2⟩

/-- the selections of `formtran` (`se != 0`) -/
def upSelect (mk : Masks) (tbl : List Row) (got goq gm : Option (M α)) (dofr : List κ) :
    Except TErr (UpSel α) :=
  upSelectWith (iddofG mkKey mk tbl) mk tbl got goq gm dofr

/-- `tran[R:R+len(x), cols] = np.eye(n)[pv]`: the rows of a retained set (t, q) -/
def eyeBlock (w n : Nat) (cols pv : List Nat) : Except TErr (List (List α)) := do
  let e ← takeIdx ((List.range n).map fun k => unitRow (α := α) n k) pv
  scatterRows w cols e

/-- `tran[R:R+len(o), t_a] = got[pvdofo]; if cq: tran[R:R+len(o), q_a] = goq[pvdofo]` -/
def oBlock (w : Nat) (gotM goqM : M α) (t_a q_a pvdofo : List Nat) : Except TErr (List (List α)) := do
  let gotO ← rowsAt gotM pvdofo
  let oRows0 ← scatterRows w t_a gotO.r
  if pvdofo ≠ [] ∧ goqM.c ≠ 0 then do
    let goqO ← rowsAt goqM pvdofo
    if goqO.r.length ≠ oRows0.length then .error (.base .value)
    else (oRows0.zip goqO.r).mapM fun p => setCols p.1 q_a p.2
  else pure oRows0

/-- the rows of `tran` before the final re-ordering, block by block in the order of `sets` -/
def upBlocks (x : UpSel α) (t_a q_a : List Nat) : Except TErr (List (List α)) := do
  let ct := x.gotM.c
  let cq := x.goqM.c
  let w := ct + cq
  let tRows ← eyeBlock (α := α) w ct t_a x.pvdoft
  let oRows ← oBlock w x.gotM x.goqM t_a q_a x.pvdofo
  let mRows ← (match x.pm with
    | some y => mBlock y.2 x.gotM x.goqM ct cq t_a q_a x.tnoq.1 x.tnoq.2.1 x.tnoq.2.2
    | none => pure [] : Except TErr (List (List α)))
  let qRows ← eyeBlock (α := α) w cq q_a x.pvdofq
  let sRows : List (List α) := x.s'.map fun _ => zeroRow w
  .ok (tRows ++ oRows ++ mRows ++ qRows ++ sRows)

/-- `formtran(nas, se, dof, gset)` for `se != 0` with the table evaluated by `idd` -/
def formtranUpWith (idd : Except TErr (List κ)) (mk : Masks) (tbl : List Row) (got goq gm : Option (M α)) (req : Request) :
    Except TErr (M α × List (Nat × Nat)) := do
  let (pvdof, dof) ← liftE (mkdofpv mk.p tbl (.mask mk.g) req true)
  let t_a ← setPos tbl mk.a mk.t
  let q_a ← setPos tbl mk.a mk.q
  let a ← liftE (mksetpv (tbl.map (·.2.2)) mk.g mk.a)
  if pvdof.all (fun i => a[i]? == some true) then do
    let (pvdofa, _) ← liftE (mkdofpv mk.p tbl (.mask mk.a) (.rows dof) true)
    let na := a.count true
    let rows ← takeIdx ((List.range na).map fun k => unitRow (α := α) na k) pvdofa
    .ok (⟨rows, na⟩, dof)
  else do
    let dofr := dofRows mkKey dof
    let x ← upSelectWith idd mk tbl got goq gm dofr
    -- the same `iddof` is used again by the final re-ordering (`idd` is a value: when the selections succeeded it is `.ok`)
    let iddof ← idd
    let rows ← upBlocks x t_a q_a
    let out ← reorder iddof x.sets dofr pvdof.length rows (x.gotM.c + x.goqM.c)
    .ok (out, dof)

/-- `formtran(nas, se, dof, gset)` for `se != 0` -/
def formtranUp (mk : Masks) (tbl : List Row) (got goq gm : Option (M α)) (req : Request) :
    Except TErr (M α × List (Nat × Nat)) :=
  formtranUpWith mkKey (iddofG mkKey mk tbl) mk tbl got goq gm req

/-- `_formtran_0(nas, dof, gset)` with the `[id, dof]` table evaluated by `idd` at the place of the `iddof = …` line (also
inside `_proc_mset`); the `gset` / `phg` branches do not use it -/
def formtran0With (idd : Except TErr (List κ)) (mk : Masks) (tbl : List Row) (phg pha gm : Option (M α)) (req : Request) (gset : Bool) :
    Except TErr (M α × List (Nat × Nat)) := do
  let (pvdof, dof) ← liftE (mkdofpv mk.p tbl (.mask mk.g) req true)
  if gset then do
    let ng ← setPos tbl mk.p mk.g
    if pvdof.any (fun c => decide (ng.length ≤ c)) then .error (.base .index)
    else .ok (⟨pvdof.map fun c => unitRow (α := α) ng.length c, ng.length⟩, dof)
  else match phg with
  | some ph => do
      let r ← rowsAt ph pvdof
      .ok (r, dof)
  | none =>
    match pha with
    | none => .error .runtime
    | some pa => do
        let dofr := dofRows mkKey dof
        let o ← setPos tbl mk.g mk.o
        let iddof ← idd
        let vo ← (if o = [] then pure [] else selIn iddof o dofr)
        if vo ≠ [] then .error .runtime
        else do
          let a ← setPos tbl mk.g mk.a
          let pvdofa ← selIn iddof a dofr
          let a' ← takeIdx a pvdofa
          let pm ← procMsetWith idd mk tbl gm dofr
          let _ ← (match pm with
            | some x => do
                let o_n ← liftE (mksetpv (tbl.map (·.2.2)) mk.n mk.o)
                if o_n.any id then do
                  if o_n.length ≠ x.2.c then .error (.base .index)
                  else
                    let cols := positions o_n
                    let gmo ← colsAt x.2 cols
                    if anyCols gmo ≠ [] then .error .runtime else pure ()
                else pure ()
            | none => pure () : Except TErr Unit)
          let m' := match pm with | some x => x.1 | none => []
          let s ← setPos tbl mk.g mk.s
          let pvdofs ← (if s = [] then pure [] else selIn iddof s dofr)
          let s' ← takeIdx s pvdofs
          let sets := a' ++ m' ++ s'
          let aRows ← rowsAt pa pvdofa
          let mRows ← (match pm with
            | some x => do
                let a_n ← setPos tbl mk.n mk.a
                let gma ← colsAt x.2 a_n
                let p ← dot gma pa
                pure p.r
            | none => pure [] : Except TErr (List (List α)))
          let sRows : List (List α) := s'.map fun _ => zeroRow pa.c
          let out ← reorder iddof sets dofr pvdof.length (aRows.r ++ mRows ++ sRows) pa.c
          .ok (out, dof)

/-- `_formtran_0(nas, dof, gset)` -/
def formtran0 (mk : Masks) (tbl : List Row) (phg pha gm : Option (M α)) (req : Request) (gset : Bool) :
    Except TErr (M α × List (Nat × Nat)) :=
  formtran0With mkKey (iddofG mkKey mk tbl) mk tbl phg pha gm req gset

/-- `formtran(nas, se, dof, gset)` -/
def formtran (mk : Masks) (d : NasT α) (se : Nat) (req : Request) (gset : Bool) :
    Except TErr (M α × List (Nat × Nat)) := do
  let tbl ← liftE (lookupD d.nas.uset se)
  let opt := fun (l : List (Nat × M α)) => (l.find? (fun p => p.1 = se)).map (·.2)
  if se = 0 then formtran0 mkKey mk tbl (opt d.phg) (opt d.pha) (opt d.gm) req gset
  else formtranUp mkKey mk tbl (opt d.got) (opt d.goq) (opt d.gm) req

/-! ### formulvs, formdrm, addulvs -/

/-- the value of `formulvs`: the float `1.0` or a matrix -/
inductive Ulvs (α : Type)
  | one
  | mat (m : M α)
deriving Repr, DecidableEq

/-- `np.dot(ulvs, ulvs1)` where `ulvs` may still be the scalar `1.0` -/
def dotU (u : Ulvs α) (b : M α) : Except TErr (M α) :=
  match u with
  | .one => .ok b
  | .mat a => dot a b

/-- `x[mask]` / `x[np.ix_(mask, …)]` for a boolean mask (`IndexError` when the lengths differ) -/
def maskSelT {β : Type} (x : List β) (mask : List Bool) : Except TErr (List β) := liftE (maskSel x mask)

/-- one level of the `while True` loop of `formulvs`: the transformation from the a-set (modal / g-set
DOF for the residual) of `sedown` to the a-set DOF of `seup`, c-set rows / columns removed on request -/
def ulvsLevel (mk : Masks) (d : NasT α) (seup sedown : Nat) (keepcset gset : Bool) :
    Except TErr (M α) := do
  let usetup ← liftE (lookupD d.nas.uset seup)
  let usetdn ← liftE (lookupD d.nas.uset sedown)
  let tqup ← liftE (upasetpv d.nas seup)
  let rows ← takeIdx usetdn tqup
  let iddof := rows.map fun r => (r.1, r.2.1)
  let (u1, _) ← formtran mkKey mk d sedown (.rows iddof) gset
  if keepcset then .ok u1
  else do
    let cup ← liftE (mksetpv (usetup.map (·.2.2)) mk.a mk.c)
    if sedown ≠ 0 then do
      let cdn ← liftE (mksetpv (usetdn.map (·.2.2)) mk.a mk.c)
      -- `ulvs1[np.ix_(noncrows, nonccols)]`: `np.ix_` turns a boolean vector into its `nonzero()` indices
      let ri := positions (cup.map (!·))
      let ci := positions (cdn.map (!·))
      let r1 ← takeIdx u1.r ri
      if ci.any (fun c => decide (u1.c ≤ c)) then .error (.base .index) else
      let r2 ← r1.mapM fun row => takeIdx row ci
      .ok ⟨r2, ci.length⟩
    else do
      let r1 ← maskSelT u1.r (cup.map (!·))
      .ok ⟨r1, u1.c⟩

/-- the loop: `acc` is `ulvs`, `(seup, sedown)` the current level -/
def ulvsLoop (mk : Masks) (d : NasT α) (sedn : Nat) (keepcset gset : Bool) :
    Nat → Ulvs α → Nat → Nat → Except TErr (M α)
  | 0, _, _, _ => .error .fuel
  | fuel + 1, acc, seup, sedown => do
      let u1 ← ulvsLevel mkKey mk d seup sedown keepcset gset
      let acc' ← dotU acc u1
      if sedown = sedn then .ok acc'
      else do
        let r ← liftE (findse d.nas.selist sedown)
        match d.nas.selist[r]? with
        | none => .error (.base .index)
        | some row => ulvsLoop mk d sedn keepcset gset fuel (.mat acc') sedown row.2

/-- `formulvs(nas, seup, sedn, keepcset, shortcut, gset)`; `ulvs` = `nas["ulvs"]` (`none`: no such key) -/
def formulvs (mk : Masks) (d : NasT α) (ulvs : Option (List (Nat × Ulvs α))) (seup sedn : Nat)
    (keepcset shortcut gset : Bool) : Except TErr (Ulvs α) := do
  let r ← liftE (findse d.nas.selist seup)
  match d.nas.selist[r]? with
  | none => .error (.base .index)
  | some row =>
    let sedown := row.2
    if sedown = seup ∨ sedn = seup then .ok .one
    else
      match (if shortcut ∧ sedn = 0 ∧ gset = false then
               ulvs.bind (fun l => l.find? (fun p => p.1 = seup)) else none) with
      | some p => .ok p.2
      | none => do
          let m ← ulvsLoop mkKey mk d sedn keepcset gset (d.nas.selist.length + 1) .one seup sedown
          .ok (.mat m)

/-- `np.any(t[:, r:])` -/
def anyFrom (t : M α) (r : Nat) : Bool := t.r.any fun row => (row.drop r).any (· != 0)

/-- `formdrm(nas, seup, dof, sedn, gset)` -/
def formdrm (mk : Masks) (d : NasT α) (ulvs : Option (List (Nat × Ulvs α))) (seup : Nat) (req : Request)
    (sedn : Nat) (gset : Bool) : Except TErr (M α × List (Nat × Nat)) := do
  let (t, outdof) ← formtran mkKey mk d seup req gset
  let u ← formulvs mkKey mk d ulvs seup sedn true true gset
  match u with
  | .one => .ok (t, outdof)
  | .mat um =>
      let t' : M α :=
        if um.r.length * um.c > 1 ∧ um.r.length < t.c ∧ anyFrom t um.r.length = false then
          ⟨t.r.map (·.take um.r.length), um.r.length⟩
        else t
      let p ← dot t' um
      .ok (p, outdof)

/-- `nas["ulvs"][se] = …` on the dictionary `ulvs` (a new key goes to the end) -/
def setD {β : Type} (l : List (Nat × β)) (k : Nat) (v : β) : List (Nat × β) :=
  if l.any (fun p => p.1 = k) then l.map (fun p => if p.1 = k then (k, v) else p) else l ++ [(k, v)]

/-- `addulvs(nas, *ses, **kwargs)`: returns the new `nas["ulvs"]` -/
def addulvs (mk : Masks) (d : NasT α) (ulvs : Option (List (Nat × Ulvs α))) (ses : List Nat)
    (sedn : Nat) (keepcset shortcut gset : Bool) : Except TErr (List (Nat × Ulvs α)) :=
  ses.foldlM (fun acc se => do
      let u ← formulvs mkKey mk d (some acc) se sedn keepcset shortcut gset
      pure (setD acc se u)) (ulvs.getD [])

end tran

/-! ### usetprt: the table it returns -/

/-- the column order of `usetprt` -/
def prtAll : List SetName :=
  [.m, .s, .o, .q, .r, .c, .b, .e, .l, .t, .a, .d, .f, .fe, .n, .ne, .g, .p, .u1, .u2, .u3, .u4, .u5, .u6]

/-- one column: `0` for a DOF outside the set, else its number (from 1) in the set -/
def memberCol (mask : Nat) (words : List Nat) : List Nat :=
  let rec go : List Nat → Nat → List Nat
    | [], _ => []
    | w :: rest, k => if inSet w mask then (k + 1) :: go rest (k + 1) else 0 :: go rest k
  go words 0

/-- `usetprt(0, uset, printsets)`: `printsets` already split at the commas; the returned table is
`(column names, rows (id, dof, dof#, numbers))` with the all-zero rows removed; `none` when no row is left -/
def usetprtTable (mask : SetName → Nat) (tbl : List Row) (printsets : Option (List SetName)) :
    Option (List SetName × List (Nat × Nat × Nat × List Nat)) :=
  let req := printsets.getD prtAll
  let pv := (Locate.listIntersect prtAll req)
  let names := pv.2.filterMap (req[·]?)
  let cols := pv.1.filterMap (prtAll[·]?) |>.map fun s => memberCol (mask s) (tbl.map (·.2.2))
  let rows := tbl.zipIdx.map fun p => (p.1.1, p.1.2.1, p.2 + 1, cols.map fun c => c.getD p.2 0)
  let kept := rows.filter fun r => r.2.2.2.any (· != 0)
  if kept = [] then none else some (names, kept)

end PyYetiVerif.Uset
