import PyYetiVerif.Model.GenMachineInit
/-!
Call sequences on ONE solver object (`generator()`, `gen.send`, `tsolve()`, `finalize()`,
`get_f2x()` in any interleaving).  Core Lean only.

State the code keeps on the solver object between calls:
  * `self._d, self._v, self._a, self._force` — set by `generator()` to the arrays of the generator
    just created, deleted by `finalize()`.  One slot: the latest `generator()` wins.
  * `self.pc` and the other coefficients — read only (`_delconj` is idempotent).
Every generator object keeps references to ITS arrays (`d`, `v` arguments, `Force = self._force`
read when the generator function starts, i.e. inside `generator()`), so generators created on the
same solver do not share arrays.  `tsolve` and `get_f2x` allocate their own results.

`Obj` = the slot + every generator ever created (by handle); `objStep` = one API call.
`Spec` = the same calls with every generator kept as (options, list of requests sent so far):
outputs are recomputed from scratch with `run` / `tsolve`.  `Props/C08Api.lean` proves that `Obj`
simulates `Spec` on every admissible call sequence.
-/
namespace PyYetiVerif.GenMachine

inductive ApiErr where
  | unbound   -- UnboundLocalError
  | index     -- IndexError
  | stop      -- StopIteration: send to a generator that already raised
  | attr      -- AttributeError: finalize() without a live `_d, _v, _a, _force`
  deriving DecidableEq, Repr

def ApiErr.ofErr : Err → ApiErr
  | .unbound => .unbound
  | .index => .index

/-- a solver object as far as the time-domain API is concerned -/
structure Solver (V X W A O Q Y : Type) where
  L : Lin V X W
  /-- `generator(nt, F0, …)` up to the generator function's first `yield` -/
  start : O → V → State V X W
  /-- the first column `tsolve(force, …)` marches from -/
  x0 : O → (Nat → V) → X
  acc : X → V → A
  f2x : Q → Y

structure GenInst (V X W : Type) where
  nt : Nat
  dead : Bool
  a : ApiState V X W

structure Obj (V X W : Type) where
  count : Nat
  gens : Nat → Option (GenInst V X W)
  slot : Option Nat

def Obj.new {V X W : Type} : Obj V X W := ⟨0, fun _ => none, none⟩

inductive Call (V O Q : Type) where
  | generator (nt : Nat) (o : O) (f0 : V)
  | send (g : Nat) (op : Op V)
  | tsolve (nt : Nat) (o : O) (force : Nat → V)
  | finalize (getForce : Bool)
  | getF2x (q : Q)

inductive Out (V X W A Y : Type) where
  /-- the handle, and column 0 of the arrays `generator()` hands back -/
  | gen (id : Nat) (x0 : X) (r0 : W)
  /-- `send` returns nothing; the caller sees the column just written in the shared arrays -/
  | sent (col : Nat) (x : X) (r : W) (f : V)
  | err (e : ApiErr)
  | sol (r : FinRec V X W A)
  | flex (y : Y)

section obj
variable {V X W A O Q Y : Type} [Add V] [Add X] [Add W]

def objStep (S : Solver V X W A O Q Y) (ob : Obj V X W) :
    Call V O Q → Obj V X W × Out V X W A Y
  | .generator nt o f0 =>
      ({ count := ob.count + 1
         gens := upd ob.gens ob.count (some ⟨nt, false, ⟨false, S.start o f0⟩⟩)
         slot := some ob.count },
       .gen ob.count ((S.start o f0).x 0) ((S.start o f0).r 0))
  | .send g op =>
      match ob.gens g with
      | none => (ob, .err .attr)
      | some gi =>
        if gi.dead then (ob, .err .stop)
        else match stepApi S.L gi.nt gi.a op with
          | .ok a' =>
            ({ ob with gens := upd ob.gens g (some { gi with a := a' }) },
             .sent a'.s.cur (a'.s.x a'.s.cur) (a'.s.r a'.s.cur) (a'.s.force a'.s.cur))
          | .error e =>
            ({ ob with gens := upd ob.gens g (some { gi with dead := true }) }, .err (.ofErr e))
  | .tsolve nt o force =>
      (ob, .sol ⟨nt, tsolve S.L S.acc force (S.x0 o force), none⟩)
  | .finalize gf =>
      match ob.slot with
      | none => (ob, .err .attr)
      | some g =>
        match ob.gens g with
        | none => (ob, .err .attr)
        | some gi => ({ ob with slot := none }, .sol (finalizeRec S.acc gi.nt gf gi.a.s))
  | .getF2x q => (ob, .flex (S.f2x q))

def objRun (S : Solver V X W A O Q Y) (ob : Obj V X W) :
    List (Call V O Q) → Obj V X W × List (Out V X W A Y)
  | [] => (ob, [])
  | c :: cs =>
    let r := objStep S ob c
    let rest := objRun S r.1 cs
    (rest.1, r.2 :: rest.2)

/-! #### the specification: generators as pure histories -/

structure SpecGen (V O : Type) where
  nt : Nat
  o : O
  f0 : V
  ops : List (Op V)

structure Spec (V O : Type) where
  count : Nat
  gens : Nat → Option (SpecGen V O)
  slot : Option Nat

def Spec.new {V O : Type} : Spec V O := ⟨0, fun _ => none, none⟩

/-- the state of a generator = the abstract machine run over everything sent to it -/
def SpecGen.state (S : Solver V X W A O Q Y) (g : SpecGen V O) : State V X W :=
  run S.L (S.start g.o g.f0) g.ops

def specStep (S : Solver V X W A O Q Y) (sp : Spec V O) :
    Call V O Q → Spec V O × Out V X W A Y
  | .generator nt o f0 =>
      ({ count := sp.count + 1
         gens := upd sp.gens sp.count (some ⟨nt, o, f0, []⟩)
         slot := some sp.count },
       .gen sp.count ((S.start o f0).x 0) ((S.start o f0).r 0))
  | .send g op =>
      match sp.gens g with
      | none => (sp, .err .attr)
      | some sg =>
        let sg' : SpecGen V O := { sg with ops := sg.ops ++ [op] }
        let s' := sg'.state S
        ({ sp with gens := upd sp.gens g (some sg') },
         .sent s'.cur (s'.x s'.cur) (s'.r s'.cur) (s'.force s'.cur))
  | .tsolve nt o force =>
      (sp, .sol ⟨nt, tsolve S.L S.acc force (S.x0 o force), none⟩)
  | .finalize gf =>
      match sp.slot with
      | none => (sp, .err .attr)
      | some g =>
        match sp.gens g with
        | none => (sp, .err .attr)
        | some sg => ({ sp with slot := none }, .sol (finalizeRec S.acc sg.nt gf (sg.state S)))
  | .getF2x q => (sp, .flex (S.f2x q))

def specRun (S : Solver V X W A O Q Y) (sp : Spec V O) :
    List (Call V O Q) → Spec V O × List (Out V X W A Y)
  | [] => (sp, [])
  | c :: cs =>
    let r := specStep S sp c
    let rest := specRun S r.1 cs
    (rest.1, r.2 :: rest.2)

/-- the request stays inside an `nt`-column array -/
def OpInHorizon (nt : Nat) : Op V → Prop
  | .send i _ => i < nt
  | .addon _ => True

/-- a call the documented protocol permits in the given situation: a `send` goes to an existing
generator, obeys `1 ≤ i ≤ last + 1` (add-on only after a send) for THAT generator's history and
stays inside its horizon; every other call is always permitted (`finalize()` without a live
generator is permitted and answers AttributeError) -/
def Admissible (S : Solver V X W A O Q Y) (sp : Spec V O) : Call V O Q → Prop
  | .send g op =>
      ∃ sg, sp.gens g = some sg ∧ ValidOp (sg.state S) op ∧
        OpInHorizon sg.nt op
  | _ => True

def AdmissibleAll (S : Solver V X W A O Q Y) : Spec V O → List (Call V O Q) → Prop
  | _, [] => True
  | sp, c :: cs => Admissible S sp c ∧ AdmissibleAll S (specStep S sp c).1 cs

end obj

end PyYetiVerif.GenMachine
