import PyYetiVerif.Model.SuCoefCplxUnc
/-!
CANDIDATE REPAIR of finding F61 (`tsolve-unc-complex-dtype-damped-rigid-body-mode-damping-ignored`): model of
the PATCHED rigid-body rows of `SolveUnc._solve_complex_unc` / `_solve_complex_unc_generator` on UNCOUPLED
equations with complex-dtype coefficients (`corpus/c01_f61_candidate_fix.diff`).  Core Lean only.  These
definitions stand NEXT TO the current model (`Model/SuCoefCplxUnc.lean`), which stays the model of /repo
until the patch is applied.

Patched source (solveunc.py):

    get_su_eig:   pc.rbd = pc.beta_rb = None
                  if self.unc: self.brb = self.b[self._rb]
                               if self.rbsize: self._get_complex_rb_damped_coefs(pc, h)
    _get_complex_rb_damped_coefs:
                  beta = brb                      (m is None)   |  brb * imrb.ravel()        -> `cplxUncRbBeta`
                  if not np.any(beta): return                   (pc.beta_rb, pc.rbd stay None)
                  pc.beta_rb = beta
                  pvvelo = |beta|/2 > 1e-5/sqrt(h) ; if none: return         (pc.rbd stays None)
                  G, A, B, Gp, Ap, Bp = h, h*h/3, A/2, 1, h/2, Ap            (every rb row: `rigidCoef 1 h`)
                  rows of pvvelo:  Gp, Ap, Bp  of `get_su_coef` at unit mass (`rigidVeloCoef 1 C h`)
                  rows of pvdisp:  G, A, B too                               (`rigidFullCoef 1 C h`)
    _solve_complex_unc:
                  pc.rbd is None:  today's loop (`rbRun`)
                  else:            AF = A*f0 + B*f1 | (A+B)*f0 ; AFp = Ap*f0 + Bp*f1 | (Ap+Bp)*f0
                                   di = di + G*vi + AF ; vi = Gp*vi + AFp        -> `runUnc` with `suCoef r 1 beta 0 h`
                  a[rb] = rbforce                               (pc.beta_rb is None)
                        = rbforce - beta_rb[:, None] * v[rb]    (otherwise)

`F = 1`, `Fp = 0` of `suCoef`'s rigid regimes make `stepUnc` compute `1*d + G*v + …` and `0*d + Gp*v + …`: the same
doubles as the patched loop.  The regime `r` of a row is `classify cut 1 beta 0 (some true) false`
(`Model/SuCoef.lean`; the cut-offs are those of `get_su_coef`).
-/
namespace PyYetiVerif.SuCoef

section rb
variable {α : Type} [Add α] [Sub α] [Mul α] [Div α] [Neg α]
  [OfNat α 0] [OfNat α 1] [OfNat α 2] [OfNat α 3] [TransOps α]

/-- `beta = self.brb * self.imrb.ravel()` (`imrb = 1.0 / mrb`), `self.brb` when `m is None` -/
def cplxUncRbBeta (m : Option α) (b : α) : α :=
  match m with
  | none => b
  | some m => b * (1 / m)

/-- PATCHED `d[rb]`, `v[rb]` of one rigid-body row.  `r = none`: `pc.rbd is None` (no rigid-body row of the
system is above the velocity cut-off), today's recurrence; `r = some r`: the recurrence with the per-mode
coefficients of `get_su_coef`'s regime `r` (`rigid`, `rigidVelo`, `rigidFull`) at unit mass, damping `beta = b/m`,
on `rbforce = f/m` -/
def cplxUncRbDVFixed (order1 : Bool) (h : α) (m : Option α) (b : α) (r : Option Regime) (dv : α × α)
    (f : List α) : List (α × α) :=
  match r with
  | none => rbRun order1 h dv (f.map (cplxUncRbForce m))
  | some r => runUnc order1 (suCoef r 1 (cplxUncRbBeta m b) 0 h) dv (f.map (cplxUncRbForce m))

/-- PATCHED `a[rb]`: `rbforce` when `pc.beta_rb is None` (`anyDamped = false`: every rigid-body row of the
system has `b/m = 0`), else `rbforce - beta_rb * v[rb]` -/
def cplxUncRbAccFixed (anyDamped : Bool) (m : Option α) (b : α) (vs f : List α) : List α :=
  if anyDamped then List.zipWith (fun f v => cplxUncRbForce m f - cplxUncRbBeta m b * v) f vs
  else f.map (cplxUncRbForce m)

end rb

section sys
variable {α : Type} [Add α] [Sub α] [Mul α] [Div α] [Neg α]
  [OfNat α 0] [OfNat α 1] [OfNat α 2] [OfNat α 3] [TransOps α]
  [BEq α] [LT α] [LE α] [DecidableLT α] [DecidableLE α]

/-- the regime `_get_complex_rb_damped_coefs` gives a rigid-body row: `get_su_coef`'s two cut-offs on
`C = |beta|/2` (`pvvelo`, `pvdisp`), i.e. `classify` for a unit-mass mode given as rigid-body -/
def cplxUncRbRegime (cut : Cuts α) (beta : α) : Option Regime :=
  classify cut 1 beta 0 (some true) false

/-- PATCHED rigid-body rows of one system, each row given as `(m, b, (d0, v0), force)`:
`pc.beta_rb is None` iff `not np.any(beta)` (`isZero`); `pc.rbd is None` iff no row is above the velocity cut-off
(`pvvelo.size == 0`; `regimeOf beta` is `cplxUncRbRegime cut |beta|`: at `Float` the absolute value, for complex
doubles the modulus); returns per row the regime used (`none`: today's loop), `(d, v)` and `a` -/
def cplxUncRbRowsFixedG {β : Type} [Add β] [Sub β] [Mul β] [Div β] [Neg β]
    [OfNat β 0] [OfNat β 1] [OfNat β 2] [OfNat β 3] [TransOps β]
    (regimeOf : β → Option Regime) (isZero : β → Bool) (order1 : Bool) (h : β)
    (rows : List (Option β × β × (β × β) × List β)) : List (Option Regime × List (β × β) × List β) :=
  let betas := rows.map fun r => cplxUncRbBeta r.1 r.2.1
  let anyDamped := betas.any fun x => !(isZero x)
  let regs := betas.map regimeOf
  let rbdNone := regs.all fun r => r == some .rigid
  (rows.zip regs).map fun (row, reg) =>
    let r : Option Regime := if rbdNone then none else reg
    let hist := cplxUncRbDVFixed order1 h row.1 row.2.1 r row.2.2.1 row.2.2.2
    (r, hist, cplxUncRbAccFixed anyDamped row.1 row.2.1 (hist.map Prod.snd) row.2.2.2)

/-- the same for an ordered scalar type (`Float`: real doubles) -/
def cplxUncRbRowsFixed (cut : Cuts α) (order1 : Bool) (h : α) (rows : List (Option α × α × (α × α) × List α)) :
    List (Option Regime × List (α × α) × List α) :=
  cplxUncRbRowsFixedG (cplxUncRbRegime cut) (fun x => x == 0) order1 h rows

end sys

end PyYetiVerif.SuCoef
