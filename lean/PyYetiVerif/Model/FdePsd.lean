import PyYetiVerif.Model.FindapFix
import PyYetiVerif.Model.Rainflow
import PyYetiVerif.Model.Fde
/-
Model of everything `pyyeti.fdepsd.fdepsd` / `_dofde` compute for ONE frequency after the
`scipy.signal.lfilter` call: `SRSmax`, `Var`, the cycle table (`findap` → `rainflow`), `Amax`,
`BinAmps`, `Count`, `BinCount`, the `G2max` loop, `Df4/8/12`, `Dt4/8/12`, `sig2_4/8/12`,
`G1, G2, G4, G8, G12`, `Gmax` (peakamp), the rescaling of `Dt*` and the halving of `sig2_*` for
`resp='pvelo'`.

Core Lean only.  One polymorphic definition: proved about at `ℝ` (Props/C10Fde.lean), run at
`Float` by Drivers/C10.lean (every arithmetic step in the order the Python source performs it,
so that comparisons such as `amp >= BinAmps[j, jj]` are decided on identical doubles).
-/
namespace PyYetiVerif.Fde

/-- the library functions used by `fdepsd` (`np.log`, `np.sqrt`, `**` with a fractional
exponent, `np.pi`) -/
class TransOps (α : Type) where
  log : α → α
  sqrt : α → α
  pow : α → α → α
  pi : α

inductive Resp where
  | absacce
  | pvelo
deriving DecidableEq, Repr

section basic
variable {α : Type} [Add α] [Sub α] [Mul α] [Div α] [NatCast α] [Zero α] [LT α] [DecidableLT α]

/-- `abs(x)` -/
def absv (x : α) : α := if x < 0 then 0 - x else x

/-- `abs(resphist).max()` (`none` for an empty history) -/
def srsPeak : List α → Option α
  | [] => none
  | x :: r => some (r.foldl (fun m y => if m < absv y then absv y else m) (absv x))

def lsum (l : List α) : α := l.foldl (· + ·) 0

/-- `np.var(resphist, ddof=1)` -/
def variance (x : List α) : α :=
  let n : α := Nat.cast x.length
  let mean := lsum x / n
  lsum (x.map fun v => (v - mean) * (v - mean)) / (n - (Nat.cast 1 : α))

/-- `rf = rainflow(resphist[findap(resphist)])` reduced to the `(amp, count)` columns;
`none` = the `ValueError` of an empty history or of fewer than two reversals. -/
def cyclesOf (tol : α) (y : List α) : Option (List (α × α)) :=
  match Findap.findapDefFix tol y with
  | none => none
  | some m =>
      (Rainflow.rainflowApi (Findap.select m y)).map fun t =>
        t.map fun c => (c.rng / (Nat.cast 2 : α),
          if c.full then (Nat.cast 1 : α) else (Nat.cast 1 : α) / (Nat.cast 2 : α))

end basic

section g2
variable {α : Type} [Add α] [Sub α] [Mul α] [Div α] [NatCast α] [Zero α] [LT α] [DecidableLT α]
  [TransOps α]

/-- `np.interp(x, [0, x2], [y1, 0])` for `0 ≤ x < x2`: `slope * (x - xp[0]) + fp[0]` -/
def g1y (x x2 y1 : α) : α := ((0 - y1) / (x2 - 0)) * (x - 0) + y1

/-- `tantheta = (y - g1y) / x` -/
def tanth (x x2 y y1 : α) : α := (y - g1y x x2 y1) / x

/-- `np.argmax` on the third component: the first maximal entry -/
def argmaxT : (α × α × α) → List (α × α × α) → (α × α × α)
  | best, [] => best
  | best, c :: r => if best.2.2 < c.2.2 then argmaxT c r else argmaxT best r

/-- the `(x, y, tantheta)` triples of the levels with `BinAmps >= Amax / 3` -/
def g2cands (am y1 : α) (levels counts : List α) : List (α × α × α) :=
  ((levels.zip counts).filter fun p => !decide (p.1 < am / (Nat.cast 3 : α))).map fun p =>
    let x := p.1 * p.1
    let y := TransOps.log p.2
    (x, y, tanth x (am * am) y y1)

/-- one pass of the `for j in range(LF)` loop that computes `G2max[j]` -/
def g2max (am : α) (levels counts : List α) : α :=
  match counts with
  | [] => am * am
  | c0 :: _ =>
      let y1 := TransOps.log c0
      match g2cands am y1 levels counts with
      | [] => am * am
      | t :: ts =>
          let k := argmaxT t ts
          if 0 < k.2.2 then k.1 * y1 / (y1 - k.2.1) else am * am

/-- the per-frequency PSD outputs -/
structure PsdRow (α : Type) where
  g1 : α
  g2 : α
  g4 : α
  g8 : α
  g12 : α
  /-- `peakamp` columns G2, G4, G8, G12 (column G1 is `Amax`) -/
  pk2 : α
  pk4 : α
  pk8 : α
  pk12 : α
  /-- `var_test` -/
  v4 : α
  v8 : α
  v12 : α
  /-- the test damage indicators as the code uses them to solve for `var_test` -/
  dt4 : α
  dt8 : α
  dt12 : α
  /-- `di_test` as returned (for `pvelo`: rescaled by `2 ** (b/2)` after `var_test` was computed) -/
  dto4 : α
  dto8 : α
  dto12 : α

/-- everything after the damage indicators up to and including `Dt4 *= 4; Dt8 *= 16; Dt12 *= 64`:
`N0 … Gmax`, both `resp` branches; `v4, v8, v12` are the `sig2_b` the code SOLVES for (for `pvelo`
twice the response variance: the last three lines of the branch, `psdOut`, halve them) -/
def psdRow (resp : Resp) (Q f T0 am g2m df4 df8 df12 : α) : PsdRow α :=
  let nc : Nat → α := fun k => (Nat.cast k : α)
  let pi : α := TransOps.pi
  let N0 := f * T0
  let lnN0 := TransOps.log N0
  match resp with
  | .absacce =>
      let den := Q * pi * f * lnN0
      let G1 := am * am / den
      let G2 := g2m / den
      let Abar := nc 2 * lnN0
      let Abar2 := Abar * Abar
      let Dt4 := N0 * nc 8 - (Abar2 + nc 4 * Abar + nc 8)
      let s4 := TransOps.sqrt (df4 / Dt4)
      let hq := (Q * pi / nc 2) * f
      let G4 := s4 / hq
      let Abar3 := Abar2 * Abar
      let Abar4 := Abar2 * Abar2
      let Dt8 := N0 * nc 384 - (Abar4 + nc 8 * Abar3 + nc 48 * Abar2 + nc 192 * Abar + nc 384)
      let s8 := TransOps.pow (df8 / Dt8) (nc 1 / nc 4)
      let G8 := s8 / hq
      let Abar5 := Abar4 * Abar
      let Abar6 := Abar4 * Abar2
      let Dt12 := N0 * nc 46080 - (Abar6 + nc 12 * Abar5 + nc 120 * Abar4 + nc 960 * Abar3
        + nc 5760 * Abar2 + nc 23040 * Abar + nc 46080)
      let s12 := TransOps.pow (df12 / Dt12) (nc 1 / nc 6)
      let G12 := s12 / hq
      { g1 := G1, g2 := G2, g4 := G4, g8 := G8, g12 := G12,
        pk2 := TransOps.sqrt g2m,
        pk4 := TransOps.sqrt (G4 * den), pk8 := TransOps.sqrt (G8 * den),
        pk12 := TransOps.sqrt (G12 * den),
        v4 := s4, v8 := s8, v12 := s12, dt4 := Dt4, dt8 := Dt8, dt12 := Dt12,
        dto4 := Dt4, dto8 := Dt8, dto12 := Dt12 }
  | .pvelo =>
      let G1 := (am * am * nc 4 * pi * f) / (Q * lnN0)
      let G2 := (g2m * nc 4 * pi * f) / (Q * lnN0)
      let Dt4 := nc 2 * N0
      let s4 := TransOps.sqrt (df4 / Dt4)
      let fq := (nc 4 * pi / Q) * f
      let G4 := s4 * fq
      let Dt8 := nc 24 * N0
      let s8 := TransOps.pow (df8 / Dt8) (nc 1 / nc 4)
      let G8 := s8 * fq
      let Dt12 := nc 720 * N0
      let s12 := TransOps.pow (df12 / Dt12) (nc 1 / nc 6)
      let G12 := s12 * fq
      let num := Q * lnN0
      let den := nc 4 * pi * f
      { g1 := G1, g2 := G2, g4 := G4, g8 := G8, g12 := G12,
        pk2 := TransOps.sqrt g2m,
        pk4 := TransOps.sqrt (G4 * num / den), pk8 := TransOps.sqrt (G8 * num / den),
        pk12 := TransOps.sqrt (G12 * num / den),
        v4 := s4, v8 := s8, v12 := s12, dt4 := Dt4, dt8 := Dt8, dt12 := Dt12,
        dto4 := Dt4 * nc 4, dto8 := Dt8 * nc 16, dto12 := Dt12 * nc 64 }

/-- the returned per-frequency values: `psdRow` followed by `sig2_b = sig2_b / 2` for `pvelo`
(repair 4ed3a4d: `var_test` is the variance of the pseudo-velocity response) -/
def psdOut (resp : Resp) (Q f T0 am g2m df4 df8 df12 : α) : PsdRow α :=
  let p := psdRow resp Q f T0 am g2m df4 df8 df12
  match resp with
  | .absacce => p
  | .pvelo =>
      { p with v4 := p.v4 / (Nat.cast 2 : α), v8 := p.v8 / (Nat.cast 2 : α),
               v12 := p.v12 / (Nat.cast 2 : α) }

/-- everything `fdepsd` returns for one frequency that depends on the cycle table only -/
structure TableOut (α : Type) where
  row : Row α
  g2max : α
  psd : PsdRow α

/-- the bookkeeping after the SRS/rainflow step: from the `(amp, count)` table -/
def fdeTable (resp : Resp) (Q f T0 : α) (nbins : Nat) (cycles : List (α × α)) :
    Option (TableOut α) :=
  match row nbins cycles with
  | none => none
  | some r =>
      let g2m := g2max r.amax r.levels r.count
      some { row := r, g2max := g2m, psd := psdOut resp Q f T0 r.amax g2m r.df4 r.df8 r.df12 }

/-- all per-frequency outputs -/
structure FreqOut (α : Type) where
  srs : α
  var : α
  tab : TableOut α

/-- `_dofde` after `lfilter`, followed by the per-frequency part of the rest of `fdepsd`;
`tol` is `findap`'s default `1e-6`. -/
def fdeFreq (resp : Resp) (Q f T0 : α) (nbins : Nat) (tol : α) (resphist : List α) :
    Option (FreqOut α) :=
  match srsPeak resphist, cyclesOf tol resphist with
  | some s, some cyc =>
      (fdeTable resp Q f T0 nbins cyc).map fun t =>
        { srs := s, var := variance resphist, tab := t }
  | _, _ => none

end g2

end PyYetiVerif.Fde
