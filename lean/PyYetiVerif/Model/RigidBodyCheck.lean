import PyYetiVerif.Model.RigidBodyGuyan
import PyYetiVerif.Generated.RigidBodyConsts
/-
Model of the DISPATCH of `cb.cbcheck` (cb.py:2833-3081) for property C06: which preparation steps run under
which options, in which order, and what the returned namespace holds.

  input checks                `CbErr.usetRows` (`uset.shape[0] != len(bseto)`), `CbErr.notAscending`
                              (`reorder=False` with a `bseto` that is not ascending)
  conv                        `cbconvert` on `Mcb`, `Kcb` with the ORIGINAL `bseto`, `uset_convert` on the uset and
                              on a 3-vector `uref` (a grid id is left alone) - BEFORE any reordering
  reorder                     `cbreorder` (b-set first), uset rows by `usetRank`, `bset = arange(nb)`,
                              `bref = nonzero(index2bool(bref)[bseto])`; otherwise `bset = bseto`, `bref` unchanged
  bref_b                      `np.searchsorted(bset, bref)` (positions inside the b-set, fix 666dd84)
  rb_norm                     `None` -> `True` iff the reference DOF are not contiguous inside the b-set
  returned fields             `m k bset uset rbg effmass effmass_percent cb_frq` (`rbs`, `rbe` need the dense kernels
                              and are assembled by `Drivers/C06.lean` from `rbsAssemble`, `nullExpand`, …)
  nq = 0                      empty effective-mass tables and `cb_frq` (fix 54d5d6d)
  em_filt                     only which rows of the effective-mass table are PRINTED (`emFiltRows`); a filter that
                              leaves no row prints an empty table (fix 2a88ed1, finding F66)

Core Lean only.
-/
namespace PyYetiVerif.RigidBody

inductive CbErr where
  | usetRows
  | notAscending
  deriving DecidableEq, Repr

structure CbOpts (α : Type) where
  conv : Option (α × α)
  reorder : Bool
  rbNorm : Option Bool
  emFilt : α
  nFreeFree : Nat

/-- the reference of the geometry-based modes: a grid of the uset (its first row in the table) or a location -/
inductive URef (α : Type) where
  | grid (row : Nat)
  | loc (p : V3 α)

structure CbOut (α : Type) where
  m : NMat α
  k : NMat α
  bset : List Nat
  /-- the input uset row that became output row `i` (`uset.iloc[i]`) -/
  usetRows : List Nat
  /-- converted, reordered x, y, z columns of the uset -/
  u : NMat α
  uref : V3 α
  rbg : NMat α
  nq : Nat
  qset : List Nat
  effmass : NMat α
  percent : NMat α
  frq : Nat → α
  /-- reference DOF after reordering (absolute matrix positions) and inside the b-set -/
  bref : List Nat
  brefB : List Nat
  rbNorm : Bool
  /-- rows of the effective-mass table that are printed -/
  printed : List Nat

/-- `(np.sort(bseto) == bseto).all()` -/
def isAscending : List Nat → Bool
  | a :: b :: t => a ≤ b && isAscending (b :: t)
  | _ => true

/-- `np.searchsorted(bset, x)` for an ascending `bset`: the number of entries smaller than `x` -/
def searchsorted (bset : List Nat) (x : Nat) : Nat := (bset.filter fun y => decide (y < x)).length

/-- `np.any(np.diff(bref_b) != 1)` -/
def notContiguous : List Nat → Bool
  | a :: b :: t => (b != a + 1) || notContiguous (b :: t)
  | _ => false

section check
variable {α : Type} [Add α] [Sub α] [Mul α] [Div α] [Neg α] [OfNat α 0] [OfNat α 1] [RbOps α]
open RbOps

/-- which modes the effective-mass table prints (cb.py:3037-3048): with `em_filt > 0` those with more than `em_filt`
percent in some direction, otherwise all -/
def emFiltRows (nq : Nat) (percent : NMat α) (emFilt : α) : List Nat :=
  if gt emFilt 0 then (List.range nq).filter fun q => (List.range 6).any fun j => gt (percent q j) emFilt
  else List.range nq

/-- `cbcheck(f, Mcb, Kcb, bseto, bref, uset, uref=…, conv=…, em_filt=…, rb_norm=…, reorder=…)`: the preparation and
every returned field that needs no dense kernel.  `n` = matrix size, `usetN` = number of uset rows, `u` = x, y, z
columns of the b-set uset in ascending matrix position, `isCyl`/`isSph` per grid of `u`. -/
def cbcheckWith (memo : Memo α) (n : Nat) (M K : NMat α) (bseto bref0 : List Nat) (usetN : Nat) (u : NMat α)
    (isCyl isSph : Nat → Bool) (uref : URef α) (o : CbOpts α) (twoPi hundred : α) : Except CbErr (CbOut α) :=
  let nb := bseto.length
  if usetN != nb then .error .usetRows else
  -- unit conversion first, with the b-set as given
  let lc : α := match o.conv with | some c => c.1 | none => 1
  let mc : α := match o.conv with | some c => c.2 | none => 1
  let m1 : NMat α := if o.conv.isSome then cbconvert M bseto lc mc false else M
  let k1 : NMat α := if o.conv.isSome then cbconvert K bseto lc mc false else K
  let u1 : NMat α := if o.conv.isSome then usetConvert u lc else u
  let urefV : V3 α := match uref with
    | .grid row => ⟨u1 row 0, u1 row 1, u1 row 2⟩
    | .loc p => if o.conv.isSome then ⟨p.x * lc, p.y * lc, p.z * lc⟩ else p
  if !o.reorder && !isAscending bseto then .error .notAscending else
  let pvl := pvList bseto n false
  let rk := usetRank bseto
  let m2 : NMat α := (memo n n (if o.reorder then reorder m1 (fun i => pvl.getD i 0) else m1)).get
  let k2 : NMat α := (memo n n (if o.reorder then reorder k1 (fun i => pvl.getD i 0) else k1)).get
  let usetRows : List Nat := if o.reorder then rk else List.range nb
  let u2 : NMat α := (memo nb 3 (fun i j => u1 (usetRows.getD i 0) j)).get
  let gk (g : Nat) : Nat := usetRows.getD (6 * g) 0 / 6
  let bset : List Nat := if o.reorder then List.range nb else bseto
  let bref : List Nat :=
    if o.reorder then (List.range nb).filter fun i => bref0.contains (bseto.getD i 0) else bref0
  let brefB := bref.map (searchsorted bset)
  let rbNorm := match o.rbNorm with
    | some b => b
    | none => notContiguous brefB
  let rbg := (memo nb 6 (rbgeomUset u2 (fun g => isCyl (gk g)) (fun g => isSph (gk g)) urefV)).get
  let bs : Nat → Nat := fun i => bset.getD i 0
  let qset := flippv bset n
  let nq := qset.length
  let qf : Nat → Nat := fun i => qset.getD i 0
  let mqb : NMat α := (memo nq nb (fun i j => m2 (qf i) (bs j))).get
  let mbb : NMat α := (memo nb nb (fun i j => m2 (bs i) (bs j))).get
  let mg := (memo 6 6 (mass6 nb rbg mbb)).get
  let em := (memo nq 6 (effmass nb mqb rbg)).get
  let ep := (memo nq 6 (effmassPercent nb mqb rbg mg hundred)).get
  let frq : Nat → α := fun i => sqrt (abs (k2 (qf i) (qf i))) / twoPi
  .ok { m := m2, k := k2, bset, usetRows, u := u2, uref := urefV, rbg, nq, qset, effmass := em, percent := ep,
        frq, bref, brefB, rbNorm, printed := emFiltRows nq ep o.emFilt }

/-- the routine itself (`memo` = identity; the `Float` driver passes a tabulating one) -/
def cbcheckM (n : Nat) (M K : NMat α) (bseto bref0 : List Nat) (usetN : Nat) (u : NMat α)
    (isCyl isSph : Nat → Bool) (uref : URef α) (o : CbOpts α) (twoPi hundred : α) : Except CbErr (CbOut α) :=
  cbcheckWith Memo.id n M K bseto bref0 usetN u isCyl isSph uref o twoPi hundred

end check

end PyYetiVerif.RigidBody
