/-
Model of `pyyeti.cyclecount.getbins`, `np.digitize` (increasing bins), `_binify`, and the
bounds bookkeeping of `binify`.  Core Lean only.

A cycle is `(amp, mean, count)`.  The table is `num_bins_mean` rows × `num_bins_range` columns.
-/
namespace PyYetiVerif.Binify

section order
variable {α : Type} [LT α] [DecidableLT α]

/-- `np.digitize(x, bins, right)` for increasing `bins`:
`right = False`: number of edges `≤ x`;  `right = True`: number of edges `< x`. -/
def digitize (right : Bool) (x : α) (bins : List α) : Nat :=
  (bins.filter fun b => if right then decide (b < x) else !decide (x < b)).length

/-- strictly increasing (`np.any(np.diff(bins) <= 0)` is false) -/
def increasing : List α → Bool
  | a :: b :: r => decide (a < b) && increasing (b :: r)
  | _ => true

variable {β : Type} [Add β]

/-- `row[k] += w` (no-op outside the row) -/
def bump (w : β) : Nat → List β → List β
  | _, [] => []
  | 0, x :: r => (x + w) :: r
  | k + 1, x :: r => x :: bump w k r

/-- `T[i, j] += w` -/
def bump2 (w : β) : Nat → Nat → List (List β) → List (List β)
  | _, _, [] => []
  | 0, j, row :: T => bump w j row :: T
  | i + 1, j, row :: T => row :: bump2 w i j T

/-- Python index resolution for an index in `-1 … n`: `-1` wraps to `n - 1`, `n` is an
`IndexError`.  `d` is the digitize result (index + 1). -/
def pyIndex (d n : Nat) : Option Nat :=
  if d = 0 then (if n = 0 then none else some (n - 1))
  else if d - 1 < n then some (d - 1) else none

/-- the loop of `_binify`; `none` = `IndexError`. -/
def binifyLoop (right ensure : Bool) (br bm : List α) :
    List (α × α × β) → List (List β) → Option (List (List β))
  | [], T => some T
  | (amp, mean, cnt) :: cs, T =>
      let nm := bm.length - 1
      let nr := br.length - 1
      let dr := digitize right amp br
      let dm := digitize right mean bm
      if ensure then
        if 0 < dm ∧ dm - 1 < nm ∧ 0 < dr ∧ dr - 1 < nr then
          binifyLoop right ensure br bm cs (bump2 cnt (dm - 1) (dr - 1) T)
        else binifyLoop right ensure br bm cs T
      else
        match pyIndex dm nm, pyIndex dr nr with
        | some i, some j => binifyLoop right ensure br bm cs (bump2 cnt i j T)
        | _, _ => none

variable [Zero β]

def zeros (nm nr : Nat) : List (List β) := List.replicate nm (List.replicate nr 0)

/-- `_binify(cycles, bins_range, bins_mean, right, ensure_boundaries)` -/
def binifyCore (right ensure : Bool) (br bm : List α) (cycles : List (α × α × β)) :
    Option (List (List β)) :=
  binifyLoop right ensure br bm cycles (zeros (bm.length - 1) (br.length - 1))

def tableSum (T : List (List β)) : β := (T.map List.sum).sum

/-- the documented half-open interval test: `lo < x ≤ hi` (right) or `lo ≤ x < hi`. -/
def inBin (right : Bool) (lo hi x : α) : Prop :=
  if right then lo < x ∧ ¬ hi < x else ¬ x < lo ∧ x < hi

instance (right : Bool) (lo hi x : α) : Decidable (inBin right lo hi x) := by
  unfold inBin; exact inferInstance

end order

section arith
variable {α : Type} [Add α] [Sub α] [Mul α] [Div α] [NatCast α] [LT α] [DecidableLT α]

/-- `np.linspace(mn, mx, n + 1)`: `arange(n + 1) * step + mn` with the end point set to `mx`. -/
def linspace (mn mx : α) (n : Nat) : List α :=
  ((List.range n).map fun (k : Nat) => (Nat.cast k : α) * ((mx - mn) / (Nat.cast n : α)) + mn) ++ [mx]

def subFirst (p : α) : List α → List α
  | [] => []
  | a :: r => (a - p) :: r

def addLast (p : α) : List α → List α
  | [] => []
  | [a] => [a + p]
  | a :: r => a :: addLast p r

/-- `(mx, mn)` after `if mx < mn: swap; elif mx == mn: mx += 0.5; mn -= 0.5` -/
def fixRange (mx mn : α) : α × α :=
  if mx < mn then (mn, mx)
  else if mn < mx then (mx, mn)
  else (mx + (Nat.cast 1 : α) / (Nat.cast 2 : α), mn - (Nat.cast 1 : α) / (Nat.cast 2 : α))

/-- scalar `bins`: `bb = linspace(mn, mx, bins + 1); p = 0.001 * (mx - mn);
bb[0] -= p` (right) or `bb[-1] += p`. -/
def getbinsScalar (n : Nat) (mx mn : α) (right : Bool) : List α :=
  let r := fixRange mx mn
  let bb := linspace r.2 r.1 n
  let p := (r.1 - r.2) / (Nat.cast 1000 : α)
  if right then subFirst p bb else addLast p bb

/-- explicit `bins` with `check_bounds`: `none` = `ValueError` (not increasing); otherwise the
edges and the `out_of_bounds` flag. -/
def getbinsVector (bins : List α) (mx mn : α) (right : Bool) : Option (List α × Bool) :=
  if Binify.increasing bins then
    let r := fixRange mx mn
    match bins.head?, bins.getLast? with
    | some b0, some bl =>
        some (bins,
          -- right: `mn <= bb[0] or mx > bb[-1]`; else: `mn < bb[0] or mx >= bb[-1]`
          if right then !decide (b0 < r.2) || decide (bl < r.1)
          else decide (r.2 < b0) || !decide (r.1 < bl))
    | _, _ => none
  else none

/-- `ampbins` / `meanbins` argument of `binify` -/
inductive BinSpec (α : Type) where
  | scalar (n : Nat)
  | vector (b : List α)

inductive ApiRes (β : Type) where
  | table (T : List (List β)) (ampb aveb : List β)
  | valueError
  | indexError

def maxOf : List α → Option α
  | [] => none
  | a :: r => some (r.foldl (fun m x => if m < x then x else m) a)

def minOf : List α → Option α
  | [] => none
  | a :: r => some (r.foldl (fun m x => if x < m then x else m) a)

/-- `getbins(bins, mx, mn, right, check_bounds)` as used by `binify` (flag `False` when
`check_bounds` is off or `bins` is a scalar); `none` = `ValueError`. -/
def binsFor (spec : BinSpec α) (mx mn : α) (right check : Bool) : Option (List α × Bool) :=
  match spec with
  | .scalar n => some (getbinsScalar n mx mn right, false)
  | .vector b => (getbinsVector b mx mn right).map fun r => (r.1, check && r.2)

/-- `binify(rf, ampbins, meanbins, right, check_bounds=…, use_pandas=False, retbins=True)` -/
def binifyApi [Zero α] (right check : Bool) (ampS meanS : BinSpec α) (cycles : List (α × α × α)) :
    ApiRes α :=
  match maxOf (cycles.map (·.1)), minOf (cycles.map (·.1)),
        maxOf (cycles.map (·.2.1)), minOf (cycles.map (·.2.1)) with
  | some amx, some amn, some mmx, some mmn =>
      match binsFor ampS amx amn right check, binsFor meanS mmx mmn right check with
      | some (ampb, oa), some (aveb, om) =>
          match binifyCore right (oa || om) ampb aveb cycles with
          | some T => .table T ampb aveb
          | none => .indexError
      | _, _ => .valueError
  | _, _, _, _ => .valueError

end arith

end PyYetiVerif.Binify
