/-
Run-time of the shallow embedding that `harness/translate/c05_pyrain.py` (and the C
counterpart `c05_crain.py`) emit into `Generated/PyRain.lean` / `Generated/CRain.lean`.
Core Lean only (it runs under `lake env lean --run`).

* `Ops α`  : the operations of the element type exactly as the source spells them
             (`a - b`, `a + b`, `X < Y`, `abs(…)`/`fabs(…)`, `… / 2`, the literals `0.5`, `1.0`).
* `Arr β`  : an array made by `np.empty` / `calloc`: every cell is *unwritten* (`none`)
             until it is assigned.  Reading an unwritten cell, reading or writing out of
             bounds, and a *negative* index (numpy would wrap it, C would read foreign memory)
             all make the computation fail (`none`).  `generated_…_eq_model` proves that the
             generated programs never fail, so none of these things ever happens.
* `Arr2 β` : the same with two indices (`rf[n, 0]`), row-major.
* `whileLoop`, `forRange` : the two loop forms of the grammar.  `whileLoop` carries explicit
             fuel; running out of fuel is failure too (the theorems prove `L` suffices).
-/
namespace PyYetiVerif.RainflowImp

class Ops (α : Type) extends Sub α, Add α, LT α where
  decLt : DecidableLT α
  /-- `abs(x)` (Python) / `fabs(x)` (C) -/
  abs : α → α
  /-- `x / 2` -/
  half : α → α
  /-- the literal `0.5` -/
  c05 : α
  /-- the literal `1.0` -/
  c1 : α

instance {α : Type} [Ops α] : DecidableLT α := Ops.decLt

/-! ### one-index arrays -/

structure Arr (β : Type) where
  cells : Array (Option β)

namespace Arr
variable {β : Type}

def size (a : Arr β) : Nat := a.cells.size

/-- `np.empty(n)`; a negative length is refused (numpy raises `ValueError`). -/
def empty (n : Int) : Option (Arr β) :=
  if 0 ≤ n then some ⟨Array.replicate n.toNat none⟩ else none

/-- an input array: every cell written -/
def ofList (l : List β) : Arr β := ⟨(l.map some).toArray⟩

/-- content of cell `i` (`none`: unwritten or outside) -/
def val (a : Arr β) (i : Nat) : Option β := (a.cells[i]?).join

def get (a : Arr β) (i : Int) : Option β :=
  if 0 ≤ i then a.val i.toNat else none

def upd (a : Arr β) (i : Nat) (v : β) : Arr β := ⟨a.cells.setIfInBounds i (some v)⟩

def set (a : Arr β) (i : Int) (v : β) : Option (Arr β) :=
  if 0 ≤ i ∧ i.toNat < a.size then some (a.upd i.toNat v) else none

end Arr

/-! ### two-index arrays (row-major) -/

structure Arr2 (β : Type) where
  rows : Nat
  cols : Nat
  cells : Array (Option β)

namespace Arr2
variable {β : Type}

/-- `np.empty((r, c))` -/
def empty (r c : Int) : Option (Arr2 β) :=
  if 0 ≤ r ∧ 0 ≤ c then some ⟨r.toNat, c.toNat, Array.replicate (r.toNat * c.toNat) none⟩
  else none

def val (a : Arr2 β) (i j : Nat) : Option β :=
  if i < a.rows ∧ j < a.cols then (a.cells[i * a.cols + j]?).join else none

def get (a : Arr2 β) (i j : Int) : Option β :=
  if 0 ≤ i ∧ 0 ≤ j then a.val i.toNat j.toNat else none

def upd (a : Arr2 β) (i j : Nat) (v : β) : Arr2 β :=
  { a with cells := a.cells.setIfInBounds (i * a.cols + j) (some v) }

def set (a : Arr2 β) (i j : Int) (v : β) : Option (Arr2 β) :=
  if 0 ≤ i ∧ 0 ≤ j ∧ i.toNat < a.rows ∧ j.toNat < a.cols then some (a.upd i.toNat j.toNat v)
  else none

/-- `*p++ = v` through a cursor `p` into the array's data: the flat (row-major) cell `pos` -/
def setAt (a : Arr2 β) (pos : Int) (v : β) : Option (Arr2 β) :=
  if 0 ≤ pos ∧ pos.toNat < a.rows * a.cols then
    some { a with cells := a.cells.setIfInBounds pos.toNat (some v) }
  else none

/-- the slice `a[:stop]`; `stop` outside `0 … rows` is refused (numpy would wrap / clip it) -/
def take (a : Arr2 β) (stop : Int) : Option (Arr2 β) :=
  if 0 ≤ stop ∧ stop.toNat ≤ a.rows then
    some ⟨stop.toNat, a.cols, a.cells.extract 0 (stop.toNat * a.cols)⟩
  else none

/-- the rows as lists; fails when a cell is unwritten (the caller would see garbage) -/
def toRows (a : Arr2 β) : Option (List (List β)) :=
  (List.range a.rows).mapM fun i => (List.range a.cols).mapM fun j => a.val i j

end Arr2

/-! ### control -/

inductive Ctl (σ : Type) where
  | next (s : σ)
  | brk (s : σ)

/-- `while cond: body` where the body says whether it ran to its end (`next`) or hit `break`. -/
def whileLoop {σ : Type} (cond : σ → Bool) (body : σ → Option (Ctl σ)) : Nat → σ → Option σ
  | 0, _ => none
  | fuel + 1, s =>
      if cond s then
        match body s with
        | none => none
        | some (.brk s') => some s'
        | some (.next s') => whileLoop cond body fuel s'
      else some s

/-- `for k in range(n): body` (`n ≤ 0`: no iteration) -/
def forRange {σ : Type} (n : Int) (body : Int → σ → Option σ) (s : σ) : Option σ :=
  (List.range n.toNat).foldlM (fun s (k : Nat) => body (Int.ofNat k) s) s

/-! ### the public entry point -/

/-- what `np.asarray` makes of the caller's object: a shape and the elements in row-major order
(`shape = []`: a 0-d array).  How a container becomes such an array is numpy's business. -/
structure Nd (α : Type) where
  shape : List Nat
  data : List α
  /-- does numpy's *safe* casting rule admit the array's dtype to float64?  (bool, the integer types,
  float16/32/64: yes; longdouble, complex, object: no.)  Only the C wrapper asks. -/
  safe : Bool := true

namespace Nd
variable {α : Type}
def ndim (a : Nd α) : Nat := a.shape.length
def size (a : Nd α) : Int := (a.data.length : Int)
/-- `np.atleast_1d`: a 0-d array becomes a vector of one element, anything else is unchanged -/
def atleast_1d (a : Nd α) : Nd α := if a.shape = [] then { a with shape := [1] } else a
end Nd

inductive PyErr where
  | valueError
  | typeError
  /-- an `IndexError`, an unwritten cell, exhausted fuel: never happens (`generated_entry_eq_model`) -/
  | internal
deriving DecidableEq, Repr

inductive PyResult (α : Type) where
  | plain (rf : Arr2 α)
  | pair (rf : Arr2 α) (os : Arr2 Int)

/-- `pd.DataFrame(values, columns=[…])` (the index is pandas' default `RangeIndex`) -/
structure Frame (β : Type) where
  columns : List String
  values : Arr2 β

/-- what `cyclecount.rainflow` returns in its four option combinations -/
inductive WrapResult (α : Type) where
  | array (rf : Arr2 α)
  | arrays (rf : Arr2 α) (os : Arr2 Int)
  | frame (rf : Frame α)
  | frames (rf : Frame α) (os : Frame Int)

/-- the two implementation modules -/
inductive Impl where
  | c_rain
  | py_rain
deriving DecidableEq, Repr

end PyYetiVerif.RainflowImp
