/-
Shared definitions for the models of `pyyeti.cyclecount.findap` (`absd`, `stol`, `uniqMask` =
`locate.find_unique`, `select`, `pvOf`, `expand`, `selOf`, `skipInit`, `Alt`, `NoSubTolDrift`) and —
HISTORY — the models of the two variants as their text was BEFORE the repairs f8f6e40 (F4) and
4b29dcf (F14, F22, F23): `findapDef`, `findapSeq`, `loopSeq`.  The code that exists now is modelled
in `Model/FindapFix.lean` (`findapDefFix`, `findapSeqFix`); the correspondence check, the fdepsd
model and the property theorems use those.  The pre-fix definitions are kept only to state what
changed (`Props/C10PreFix.lean`, outside the property claims).
Core Lean only (no Mathlib) so that it runs under `lake env lean --run`.

* `findapDef`  — the variant that executes when numba is absent (`if not HAVE_NUMBA:`): the
  vectorised code `u = find_unique(y, tol); yu = y[u]; s = sign(diff(yu));
  pv[1:-1] = abs(diff(s)) == 2; pv[-1] = yu[-1] != yu[-2]; PV[u] = pv`.
* `findapSeq`  — the numba variant (`else:` branch; source text only in this sandbox): the
  sequential scan with `prv`, `cur`, `j`, `mountain`, `nxt`.  Reading `nxt` after a `for` loop
  that never ran is modelled as the result `unbound` (Python: `UnboundLocalError`).

Values are only subtracted, compared and (for `stol`) multiplied once, so the model over an
ordered field (run at `Rat` by the driver) is the code's exact semantics on dyadic inputs.
-/
namespace PyYetiVerif.Findap

variable {α : Type} [Sub α] [LT α] [DecidableLT α]

/-- `abs(a - b)` for a linear order. -/
def absd (a b : α) : α := if a < b then b - a else a - b

/-- `abs(diff(y)).max()` folded from `acc`. -/
def maxAbsDiffFrom (acc prev : α) : List α → α
  | [] => acc
  | x :: r => let d := absd x prev
              maxAbsDiffFrom (if acc < d then d else acc) x r

/-- `stol = abs(tol * abs(diff(y)).max())` (needs at least two samples). -/
def stol [Mul α] [Zero α] (tol : α) : List α → α
  | a :: b :: r => absd (tol * maxAbsDiffFrom (absd b a) b r) 0
  | _ => 0

/-! ### default (vectorised) variant -/

/-- `abs(m) > stol` for the samples after `prev` (`find_unique` without the leading `True`). -/
def uniqMask (st : α) : α → List α → List Bool
  | _, [] => []
  | p, x :: r => decide (st < absd x p) :: uniqMask st x r

/-- `y[u]` -/
def select : List Bool → List α → List α
  | true :: u, x :: r => x :: select u r
  | false :: u, _ :: r => select u r
  | _, _ => []

/-- `sign(b - a)` -/
def sgn (a b : α) : Int := if a < b then 1 else if b < a then -1 else 0

/-- flags for `b` and everything after it, `a` being the element before `b`:
`abs(diff(s)) == 2` in the interior, `yu[-1] != yu[-2]` at the end. -/
def pvInner : α → α → List α → List Bool
  | a, b, [] => [decide (a < b) || decide (b < a)]
  | a, b, c :: r => decide ((sgn b c - sgn a b).natAbs = 2) :: pvInner b c r

/-- `pv = ones(yu.size); pv[1:-1] = …; if yu.size > 2: pv[-1] = …` -/
def pvOf : List α → List Bool
  | [] => []
  | [_] => [true]
  | [_, _] => [true, true]
  | a :: b :: c :: r => true :: pvInner a b (c :: r)

/-- `PV = zeros(y.size); PV[u] = pv` -/
def expand : List Bool → List Bool → List Bool
  | [], _ => []
  | true :: u, p :: pv => p :: expand u pv
  | true :: u, [] => false :: expand u []
  | false :: u, pv => false :: expand u pv

/-- The default variant for a given `stol`; `none` = empty input (`ValueError` from `max`). -/
def findapDefSt (st : α) : List α → Option (List Bool)
  | [] => none
  | [_] => some [true]
  | a :: r =>
      let u := true :: uniqMask st a r
      some (expand u (pvOf (select u (a :: r))))

def findapDef [Mul α] [Zero α] (tol : α) (y : List α) : Option (List Bool) :=
  findapDefSt (stol tol y) y

/-- selected `(index, value)` pairs of a mask -/
def selOf : List Bool → List α → Nat → List (Nat × α)
  | true :: m, x :: r, i => (i, x) :: selOf m r (i + 1)
  | false :: m, _ :: r, i => selOf m r (i + 1)
  | _, _, _ => []

/-! ### sequential (numba) variant -/

inductive SeqRes (α : Type) where
  | sel (l : List (Nat × α))   -- the selected (index, value) pairs, in order
  | unbound                    -- `nxt` read before assignment
  | empty                      -- `ValueError` (zero-size `max`)
deriving Repr, DecidableEq

/-- `while i < y.size: if abs(y[i] - prv) > stol: break; i += 1` -/
def skipInit (st prv : α) : List α → Nat → Option (α × Nat × List α)
  | [], _ => none
  | x :: r, i => if st < absd x prv then some (x, i, r) else skipInit st prv r (i + 1)

/-- The `for i in range(i + 1, y.size)` loop followed by the end rule.  State: `mountain`,
`cur`, `j`, the element before the current one (`p2`, equals `y[-2]` at the end), `nxt`, the
remaining samples and the index of the next one. -/
def loopSeq (st : α) : Bool → α → Nat → α → α → List α → Nat → List (Nat × α)
  | _, cur, j, p2, nxt, [], i =>
      if st < absd nxt p2 then [(i - 1, nxt)] else [(j, cur)]
  | m, cur, j, _, nxt, x :: r, i =>
      if st < absd x cur then
        if m then
          if x < cur then (j, cur) :: loopSeq st false x i nxt x r (i + 1)
          else loopSeq st true x i nxt x r (i + 1)
        else
          if cur < x then (j, cur) :: loopSeq st true x i nxt x r (i + 1)
          else loopSeq st false x i nxt x r (i + 1)
      else loopSeq st m cur j nxt x r (i + 1)

/-- The numba variant for a given `stol` (sizes 1 and 2 are special-cased by the code and do
not use `stol`). -/
def findapSeqSt (st : α) : List α → SeqRes α
  | [] => .empty
  | [a] => .sel [(0, a)]
  | [a, b] => if a < b ∨ b < a then .sel [(0, a), (1, b)] else .sel [(0, a)]
  | a :: r =>
      match skipInit st a r 1 with
      | none => .sel [(0, a)]
      | some (_, _, []) => .unbound
      | some (cur, j, x :: r') =>
          .sel ((0, a) :: loopSeq st (decide (a < cur)) cur j cur cur (x :: r') (j + 1))

def findapSeq [Mul α] [Zero α] (tol : α) (y : List α) : SeqRes α :=
  findapSeqSt (stol tol y) y

/-! ### specification predicates -/

/-- consecutive values go strictly up, down, up, … (`up` = direction of the first step) -/
def AltFrom : Bool → List α → Prop
  | _, [] => True
  | _, [_] => True
  | up, a :: b :: r => (if up then a < b else b < a) ∧ AltFrom (!up) (b :: r)

/-- strict alternation of maxima and minima: the successive differences are non-zero and
change sign every time (what `rainflow` requires of its input) -/
def Alt (l : List α) : Prop := AltFrom true l ∨ AltFrom false l

/-! ### the input family on which the default variant is known to fail (finding F4) -/

/-- No sub-tolerance drift: inside every maximal run of steps with `|step| ≤ st`, every sample
stays within `st` of the run's first sample (`h`).  `p` is the previous sample. -/
def NoDriftFrom (st h : α) : α → List α → Prop
  | _, [] => True
  | p, x :: r =>
      if st < absd x p then NoDriftFrom st x x r
      else ¬ st < absd x h ∧ NoDriftFrom st h x r

def NoSubTolDrift (st : α) : List α → Prop
  | [] => True
  | a :: r => NoDriftFrom st a a r

def decNoDriftFrom (st : α) : (h p : α) → (l : List α) → Decidable (NoDriftFrom st h p l)
  | _, _, [] => isTrue trivial
  | h, p, x :: r =>
      if c : st < absd x p then
        match decNoDriftFrom st x x r with
        | isTrue t => isTrue (by unfold NoDriftFrom; rw [if_pos c]; exact t)
        | isFalse f => isFalse (by unfold NoDriftFrom; rw [if_pos c]; exact f)
      else
        match decNoDriftFrom st h x r with
        | isTrue t =>
            if c2 : st < absd x h then isFalse (by unfold NoDriftFrom; rw [if_neg c]; exact fun q => q.1 c2)
            else isTrue (by unfold NoDriftFrom; rw [if_neg c]; exact ⟨c2, t⟩)
        | isFalse f => isFalse (by unfold NoDriftFrom; rw [if_neg c]; exact fun q => f q.2)

instance (st h p : α) (l : List α) : Decidable (NoDriftFrom st h p l) := decNoDriftFrom st h p l

instance (st : α) (l : List α) : Decidable (NoSubTolDrift st l) :=
  match l with
  | [] => isTrue trivial
  | a :: r => decNoDriftFrom st a a r

end PyYetiVerif.Findap
