/-!
# Model of pyYeti's frequency-domain solvers (C02) — core Lean only

Anchors: `pyyeti/ode/solveunc.py` (`fsolve`, `_solve_freq_rb`, `_solve_freq_unc`,
`_solve_freq_coup`), `pyyeti/ode/freqdirect.py` (`fsolve`), `pyyeti/ode/_base_ode_class.py`
(`_init_dva`, `_chk_diag_part`, `_make_rb_el`), `pyyeti/ode/_utilities.py` (`_process_incrb`,
`solvepsd`), `pyyeti/ytools.py` (`isdiag`).

One definition, two instances: the scalar formulas (`frfUnc`, `frfDir`, `frfRb`, `rbDampAcc`, `frfRbD`, `rfFreq`,
`applyIncrb`, `rowUnc`, `rowDirect`) and the matrix formulas on `Fin n → α` (`dynStiff`,
`frfCoupled`, `freqDirect`, `frfRec`, `respPsd`, `trapz2`) are polymorphic; the theorems of
`Props/C02.lean` instantiate them at a field with an element `i` (ℂ), the driver instantiates
them at `Cx` (a pair of IEEE doubles).  Expression order follows the source so that the `Cx`
instance differs from numpy only by library-kernel rounding.

External kernels enter as parameters with a specification (DESIGN.md §3.3):
* `solve` — `la.solve` / `lu_factor`+`lu_solve`: any function returning a solution of a
  non-singular system; the driver uses `gaussList` of `Model/FreqGauss.lean`, which is proved to be
  such a function (`Props/C02b.lean`); its floating-point residual is measured by the
  correspondence check;
* `lam, ur_d, ur_inv_v` — `eigss`/`addconj` output, taken from the implementation's `pc`;
  the eigen-decomposition relations are hypotheses of `frfCoupled_solves` and their residuals
  are measured on every run;
* `phi` — `scipy.linalg.eigh` output of the `pre_eig` option.
-/
namespace PyYetiVerif.Freq

/-- which of displacement / velocity / acceleration keep their rigid-body rows -/
structure Incrb where
  d : Bool
  v : Bool
  a : Bool
deriving DecidableEq, Repr

/-- `_process_incrb`, string form: letters `d v a` in any order, repeats allowed;
anything else is a `ValueError` (`none`). -/
def parseIncrb (s : List Char) : Option Incrb :=
  if s.all (fun c => c == 'd' || c == 'v' || c == 'a') then
    some ⟨s.contains 'd', s.contains 'v', s.contains 'a'⟩
  else none

/-- `_process_incrb`, deprecated integer form `{0: "", 1: "va", 2: "dva"}` (`KeyError` otherwise). -/
def incrbOfInt : Int → Option Incrb
  | 0 => some ⟨false, false, false⟩
  | 1 => some ⟨false, true, true⟩
  | 2 => some ⟨true, true, true⟩
  | _ => none

def Incrb.all : Incrb := ⟨true, true, true⟩

structure Dva (α : Type) where
  d : α
  v : α
  a : α
deriving Inhabited

/-- `np.zeros` entry of `d, v, a` (`_alloc_dva`) -/
def zeroDva {α : Type} [Zero α] : Dva α := ⟨0, 0, 0⟩

/-- partition class of an equation -/
inductive Cls | rb | el | rf
deriving DecidableEq, Repr, Inhabited

section scalar
variable {α : Type} [Add α] [Sub α] [Mul α] [Div α] [Neg α] [Zero α] [One α]

/-- `_solve_freq_unc`, elastic rows: `d = f / (1j*(b@fw) + k - m@fw2)`, `a = d * -(fw2)`,
`v = d * (1j*fw)`.  `m = None` is `m = 1`. -/
def frfUnc (i m b k f w : α) : Dva α :=
  let d := f / (i * (b * w) + k - m * (w * w))
  ⟨d, d * (i * w), d * -(w * w)⟩

/-- `FreqDirect.fsolve`, uncoupled rows: `H = (1j*b)@Ω + k - m@Ω²`, `d = f/H`,
`a = -(Ω²) d`, `v = 1j Ω d`. -/
def frfDir (i m b k f w : α) : Dva α :=
  let d := f / ((i * b) * w + k - m * (w * w))
  ⟨d, (i * w) * d, -(w * w) * d⟩

/-- `_solve_freq_rb` given the rigid-body acceleration `arb = m⁻¹ f`:
`v = (-1j/Ω) a`, `d = (-1/Ω²) a` where `Ω ≠ 0`, zero where `Ω = 0`; each only if requested. -/
def frfRb (isZero : α → Bool) (i arb w : α) (inc : Incrb) : Dva α :=
  ⟨if inc.d && !isZero w then (-1 / (w * w)) * arb else 0,
   if inc.v && !isZero w then (-i / w) * arb else 0,
   if inc.a then arb else 0⟩

/-- `_solve_freq_rb`, damped rigid-body mode of an *uncoupled* system (`if np.any(b_rb):`):
`a_rb[:, pvnz] /= 1 - 1j * (b_rb * im)[:, None] / freqw[pvnz]` — the acceleration `arb = f/m` is
divided by `1 − i (b/m)/Ω` where `Ω ≠ 0` and left as it is at `Ω = 0`; `bim = b * im`, `im = 1/m`
(`1.0` for `m = None`).  Then `−Ω² d = a` gives `(−Ω² m + iΩ b) d = f`. -/
def rbDampAcc (isZero : α → Bool) (i arb bim w : α) : α :=
  if isZero w then arb else arb / (1 - i * bim / w)

/-- one rigid-body equation `m q̈ + b q̇ = f` of an uncoupled system as `_solve_freq_rb` solves it
(repaired code, findings F51 / F52): the damped acceleration when `b ≠ 0` (for `b = 0` the division
is by one: `frfRb_damped_reduces`), then `v`, `d` from it as in `frfRb`. -/
def frfRbD (isZero : α → Bool) (i m b f w : α) (inc : Incrb) : Dva α :=
  frfRb isZero i (if isZero b then (1 / m) * f else rbDampAcc isZero i ((1 / m) * f) (b * (1 / m)) w) w inc

/-- `_init_dva`, residual-flexibility rows given the static displacement `drf = k⁻¹ f`. -/
def rfFreq (i drf w : α) (dispOnly : Bool) : Dva α :=
  if dispOnly then ⟨drf, 0, 0⟩ else ⟨drf, drf * (i * w), drf * -(w * w)⟩

/-- `FreqDirect.fsolve`: `if "d" not in incrb: d[rb] = 0` … -/
def applyIncrb (inc : Incrb) (x : Dva α) : Dva α :=
  ⟨if inc.d then x.d else 0, if inc.v then x.v else 0, if inc.a then x.a else 0⟩

/-- one equation of `SolveUnc.fsolve` for an uncoupled system -/
def rowUnc (isZero : α → Bool) (i : α) (c : Cls) (inc : Incrb) (dispOnly : Bool)
    (m b k f w : α) : Dva α :=
  match c with
  | .rb => frfRbD isZero i m b f w inc
  | .el => frfUnc i m b k f w
  | .rf => rfFreq i ((1 / k) * f) w dispOnly

/-- one equation of `FreqDirect.fsolve` for an uncoupled system -/
def rowDirect (i : α) (c : Cls) (inc : Incrb) (dispOnly : Bool) (m b k f w : α) : Dva α :=
  match c with
  | .rb => applyIncrb inc (frfDir i m b k f w)
  | .el => frfDir i m b k f w
  | .rf => rfFreq i ((1 / k) * f) w dispOnly

/-! ### matrix level, on `Fin n → α` -/

def vsum {n : Nat} (f : Fin n → α) : α := ((List.finRange n).map f).sum

def mulVec {n s : Nat} (A : Fin n → Fin s → α) (x : Fin s → α) : Fin n → α :=
  fun r => vsum fun c => A r c * x c

/-- `Hi = 1j * b * O + k - m * O**2` -/
def dynStiff {n : Nat} (i w : α) (M B K : Fin n → Fin n → α) : Fin n → Fin n → α :=
  fun r c => i * B r c * w + K r c - M r c * (w * w)

/-- `FreqDirect.fsolve`, coupled: `d = la.solve(Hi, force)` -/
def freqDirect {n : Nat} (solve : (Fin n → Fin n → α) → (Fin n → α) → Fin n → α)
    (i w : α) (M B K : Fin n → Fin n → α) (f : Fin n → α) : Fin n → α :=
  solve (dynStiff i w M B K) f

/-- `_solve_freq_coup`, elastic part: `w = ur_inv_v @ imf`, `H = 1j Ω - lam`,
`d = ur_d @ (w / H)`; `imf = M⁻¹ f`. -/
def frfCoupled {n s : Nat} (i w : α) (lam : Fin s → α) (urd : Fin n → Fin s → α)
    (urinvv : Fin s → Fin n → α) (imf : Fin n → α) : Fin n → α :=
  mulVec urd fun j => mulVec urinvv imf j / (i * w - lam j)

/-- `solvepsd`: `frf = drma @ a + drmv @ v + drmd @ d + drmf[:, i]` for one recovery row
(a missing drm is a zero row). -/
def frfRec {n : Nat} (ra rv rd : Fin n → α) (rf : α) (sd sv sa : Fin n → α) : α :=
  (vsum fun c => ra c * sa c) + (vsum fun c => rv c * sv c) + (vsum fun c => rd c * sd c) + rf

end scalar

section psd
variable {ρ : Type} [Add ρ] [Sub ρ] [Mul ρ] [Zero ρ]

/-- `psd += forcepsd[i] * abs(frf)**2` summed over the forces; `h i = |frf_i|²`. -/
def respPsd {p : Nat} (psd : Fin p → ρ) (h : Fin p → ρ) : ρ := vsum fun i => psd i * h i

/-- `np.sum(np.diff(freq) * (psd[:-1] + psd[1:]))`: twice the trapezoidal area. -/
def trapz2 : List ρ → List ρ → ρ
  | f0 :: f1 :: fs, y0 :: y1 :: ys => (f1 - f0) * (y0 + y1) + trapz2 (f1 :: fs) (y1 :: ys)
  | _, _ => 0

end psd

/-! ## executable composition (driver instance)

`Cx`, the matrix helpers and the problem record.  The composition itself (partition bookkeeping,
constructor state, gather / scatter, `solvepsd`) is in `Model/FreqSolve.lean`. -/

structure Cx where
  re : Float
  im : Float
deriving Inhabited

namespace Cx
instance : Zero Cx := ⟨⟨0, 0⟩⟩
instance : One Cx := ⟨⟨1, 0⟩⟩
instance : Add Cx := ⟨fun a b => ⟨a.re + b.re, a.im + b.im⟩⟩
instance : Sub Cx := ⟨fun a b => ⟨a.re - b.re, a.im - b.im⟩⟩
instance : Neg Cx := ⟨fun a => ⟨-a.re, -a.im⟩⟩
instance : Mul Cx := ⟨fun a b => ⟨a.re * b.re - a.im * b.im, a.re * b.im + a.im * b.re⟩⟩
/-- Smith's algorithm (what numpy uses for complex division) -/
instance : Div Cx := ⟨fun a b =>
  if b.re.abs >= b.im.abs then
    if b.re == 0 && b.im == 0 then ⟨a.re / b.re.abs, a.im / b.im.abs⟩
    else
      let rat := b.im / b.re
      let scl := 1.0 / (b.re + b.im * rat)
      ⟨(a.re + a.im * rat) * scl, (a.im - a.re * rat) * scl⟩
  else
    let rat := b.re / b.im
    let scl := 1.0 / (b.im + b.re * rat)
    ⟨(a.re * rat + a.im) * scl, (a.im * rat - a.re) * scl⟩⟩
def I : Cx := ⟨0, 1⟩
def ofReal (x : Float) : Cx := ⟨x, 0⟩
/-- `abs` of a complex double (`npy_cabs` = `hypot`) -/
def mag (a : Cx) : Float := Float.sqrt (a.re * a.re + a.im * a.im)
def isZero (a : Cx) : Bool := a.re == 0 && a.im == 0
def normSq (a : Cx) : Float := let m := mag a; m * m
end Cx

/-! ### index bookkeeping of the constructors (exact, discrete)

`imrbPick` / `rbBlock` are the addressing steps as repaired by the `fix:` commits for the families
`su-imrb-rf-index-before-rb-mass-given` and `fsolve-su-rb-index-array-ge2-incrb-dv`; the
`…Prefix` definitions record what the code did before (see `Props/C02.lean`). -/

/-- `nonrf = np.nonzero(~rfmask)[0]` -/
def nonrfOf (n : Nat) (rf : List Nat) : List Nat := (List.range n).filter fun j => !rf.contains j

/-- `_inv_mrb`: `self.m` has been reduced to the non-rf equations and is indexed with `self._rb`
(`np.nonzero(vec[nonrf])[0]`, positions inside `nonrf`).  Returns the full-size equations whose
mass is used for the rigid-body solution: `nonrf[_rb]`. -/
def imrbPick (nonrf rb : List Nat) : List Nat := nonrf.filter fun j => rb.contains j

/-- before the fix: the non-rf mass was indexed with `self.rb`, the *full-size* indices
(`none` = `IndexError`). -/
def imrbPickPrefix (nonrf rb : List Nat) : Option (List Nat) := rb.mapM fun r => nonrf[r]?

/-- `_mk_slice` succeeds: empty or consecutive -/
def contiguous : List Nat → Bool
  | a :: b :: t => b == a + 1 && contiguous (b :: t)
  | _ => true

/-- before the fix: outcome of `v[rb, pvnz] = val` (`val` of shape `r × k`, `k` = number of
non-zero frequencies) under numpy indexing: with `rb` a slice the block is addressed; with `rb`
an index array of length `r` it is *paired* with `nonzero(pvnz)`.  `none` = the assignment
succeeds (and stores the intended block).  After the fix (`np.ix_`) the block is always
addressed. -/
def rbMaskAssignPrefix (slices : Bool) (r k : Nat) : Option String :=
  if slices || r == 1 then none
  else if k == r || k == 1 then some "value-error"
  else some "index-error"

section exec
variable {α : Type} [Add α] [Sub α] [Mul α] [Div α] [Neg α] [Zero α] [One α] [Inhabited α]

abbrev Mat (α : Type) := Array (Array α)

def Mat.get (A : Mat α) (r c : Nat) : α := (A[r]!)[c]!

/-- the non-polymorphic operations the bookkeeping needs -/
structure Ops (α : Type) where
  i : α
  twoPi : α
  isZero : α → Bool
  mag : α → Float

def fnOfMat {n s : Nat} (A : Mat α) : Fin n → Fin s → α := fun r c => A.get r.val c.val
def fnOfVec {n : Nat} (x : Array α) : Fin n → α := fun r => x[r.val]!

/-- `ytools.isdiag(A, tol=1e-12)`: `abs(diag(d) - A).max() <= tol * abs(d).max()` -/
def isDiag (ops : Ops α) (n : Nat) (A : Mat α) : Bool := Id.run do
  let mut maxOff : Float := 0
  let mut maxOn : Float := 0
  for r in [0:n] do
    for c in [0:n] do
      let m := ops.mag (A.get r c)
      if r == c then
        if m > maxOn then maxOn := m
      else
        if m > maxOff then maxOff := m
  return maxOff <= 1e-12 * maxOn

/-- sub-matrix `A[np.ix_(rows, cols)]` -/
def Mat.sub (A : Mat α) (rows cols : Array Nat) : Mat α :=
  rows.map fun r => cols.map fun c => A.get r c

def vecSub (x : Array α) (rows : Array Nat) : Array α := rows.map fun r => x[r]!

/-- one frequency-domain problem as the constructors and `fsolve` see it -/
structure Case (α : Type) where
  n : Nat
  M : Mat α
  B : Mat α
  K : Mat α
  rb : Option (Array Nat)
  rf : Array Nat
  /-- `pre_eig`: `M B K` are then the modal matrices and `phi` the mode shapes -/
  phi : Option (Mat α)
  /-- `pc.lam, pc.ur_d, pc.ur_inv_v` after `_addconj` (coupled `SolveUnc` only) -/
  eig : Option (Array α × Mat α × Mat α)
  freq : Array α
  F : Mat α
  inc : Incrb
  dispOnly : Bool
  /-- `m is None` (after `pre_eig`) -/
  mNone : Bool
  /-- `systype is complex` (dtype of the inputs) -/
  cplx : Bool

def Case.nonrf (c : Case α) : Array Nat := (Array.range c.n).filter fun j => !c.rf.contains j

def Case.unc (ops : Ops α) (c : Case α) : Bool :=
  isDiag ops c.n c.M && isDiag ops c.n c.B && isDiag ops c.n c.K

/-- `phi.T @ F` -/
def matTMul (n nf : Nat) (P F : Mat α) : Mat α :=
  (Array.range n).map fun r => (Array.range nf).map fun j =>
    vsum (n := n) fun c => P.get c.val r * F.get c.val j

def matMul (n nf : Nat) (P F : Mat α) : Mat α :=
  (Array.range n).map fun r => (Array.range nf).map fun j =>
    vsum (n := n) fun c => P.get r c.val * F.get c.val j

abbrev Sol (α : Type) := Array (Array (Dva α))

def Sol.comp (s : Sol α) (pick : Dva α → α) : Mat α := s.map fun row => row.map pick

def solOfComps (n nf : Nat) (d v a : Mat α) : Sol α :=
  (Array.range n).map fun r => (Array.range nf).map fun j => ⟨d.get r j, v.get r j, a.get r j⟩

/-- `_solution_freq`: `phi @ d`, `phi @ v`, `phi @ a` when `pre_eig` -/
def backTransform (n nf : Nat) (phi : Option (Mat α)) (s : Sol α) : Sol α :=
  match phi with
  | none => s
  | some P => solOfComps n nf (matMul n nf P (s.comp (·.d))) (matMul n nf P (s.comp (·.v)))
      (matMul n nf P (s.comp (·.a)))

end exec

end PyYetiVerif.Freq
