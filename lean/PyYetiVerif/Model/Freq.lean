/-!
# Model of pyYeti's frequency-domain solvers (C02) — core Lean only

Anchors: `pyyeti/ode/solveunc.py` (`fsolve`, `_solve_freq_rb`, `_solve_freq_unc`,
`_solve_freq_coup`), `pyyeti/ode/freqdirect.py` (`fsolve`), `pyyeti/ode/_base_ode_class.py`
(`_init_dva`, `_chk_diag_part`, `_make_rb_el`), `pyyeti/ode/_utilities.py` (`_process_incrb`,
`solvepsd`), `pyyeti/ytools.py` (`isdiag`).

One definition, two instances: the scalar formulas (`frfUnc`, `frfDir`, `frfRb`, `rfFreq`,
`applyIncrb`, `rowUnc`, `rowDirect`) and the matrix formulas on `Fin n → α` (`dynStiff`,
`frfCoupled`, `freqDirect`, `frfRec`, `respPsd`, `trapz2`) are polymorphic; the theorems of
`Props/C02.lean` instantiate them at a field with an element `i` (ℂ), the driver instantiates
them at `Cx` (a pair of IEEE doubles).  Expression order follows the source so that the `Cx`
instance differs from numpy only by library-kernel rounding.

External kernels enter as parameters with a specification (DESIGN.md §3.3):
* `solve` — `la.solve` / `lu_factor`+`lu_solve`: any function returning a solution of a
  non-singular system; the driver uses `gaussSolve` below (not proved about; its residual is
  measured by the correspondence check);
* `lam, ur_d, ur_inv_v` — `eigss`/`addconj` output, taken from the implementation's `pc`;
  the eigen-decomposition relations are hypotheses of `frfCoupled_solves` and their residuals
  are measured on every run;
* `phi` — `scipy.linalg.eigh` output of the `pre_eig` option.
-/
namespace PyYetiVerif.Freq

/-- which of displacement / velocity / acceleration keep their rigid-body rows -/
structure Incrb where
  d : Bool
  v : Bool
  a : Bool
deriving DecidableEq, Repr

/-- `_process_incrb`, string form: letters `d v a` in any order, repeats allowed;
anything else is a `ValueError` (`none`). -/
def parseIncrb (s : List Char) : Option Incrb :=
  if s.all (fun c => c == 'd' || c == 'v' || c == 'a') then
    some ⟨s.contains 'd', s.contains 'v', s.contains 'a'⟩
  else none

/-- `_process_incrb`, deprecated integer form `{0: "", 1: "va", 2: "dva"}` (`KeyError` otherwise). -/
def incrbOfInt : Int → Option Incrb
  | 0 => some ⟨false, false, false⟩
  | 1 => some ⟨false, true, true⟩
  | 2 => some ⟨true, true, true⟩
  | _ => none

def Incrb.all : Incrb := ⟨true, true, true⟩

structure Dva (α : Type) where
  d : α
  v : α
  a : α
deriving Inhabited

/-- partition class of an equation -/
inductive Cls | rb | el | rf
deriving DecidableEq, Repr, Inhabited

section scalar
variable {α : Type} [Add α] [Sub α] [Mul α] [Div α] [Neg α] [Zero α] [One α]

/-- `_solve_freq_unc`, elastic rows: `d = f / (1j*(b@fw) + k - m@fw2)`, `a = d * -(fw2)`,
`v = d * (1j*fw)`.  `m = None` is `m = 1`. -/
def frfUnc (i m b k f w : α) : Dva α :=
  let d := f / (i * (b * w) + k - m * (w * w))
  ⟨d, d * (i * w), d * -(w * w)⟩

/-- `FreqDirect.fsolve`, uncoupled rows: `H = (1j*b)@Ω + k - m@Ω²`, `d = f/H`,
`a = -(Ω²) d`, `v = 1j Ω d`. -/
def frfDir (i m b k f w : α) : Dva α :=
  let d := f / ((i * b) * w + k - m * (w * w))
  ⟨d, (i * w) * d, -(w * w) * d⟩

/-- `_solve_freq_rb` given the rigid-body acceleration `arb = m⁻¹ f`:
`v = (-1j/Ω) a`, `d = (-1/Ω²) a` where `Ω ≠ 0`, zero where `Ω = 0`; each only if requested. -/
def frfRb (isZero : α → Bool) (i arb w : α) (inc : Incrb) : Dva α :=
  ⟨if inc.d && !isZero w then (-1 / (w * w)) * arb else 0,
   if inc.v && !isZero w then (-i / w) * arb else 0,
   if inc.a then arb else 0⟩

/-- `_init_dva`, residual-flexibility rows given the static displacement `drf = k⁻¹ f`. -/
def rfFreq (i drf w : α) (dispOnly : Bool) : Dva α :=
  if dispOnly then ⟨drf, 0, 0⟩ else ⟨drf, drf * (i * w), drf * -(w * w)⟩

/-- `FreqDirect.fsolve`: `if "d" not in incrb: d[rb] = 0` … -/
def applyIncrb (inc : Incrb) (x : Dva α) : Dva α :=
  ⟨if inc.d then x.d else 0, if inc.v then x.v else 0, if inc.a then x.a else 0⟩

/-- one equation of `SolveUnc.fsolve` for an uncoupled system -/
def rowUnc (isZero : α → Bool) (i : α) (c : Cls) (inc : Incrb) (dispOnly : Bool)
    (m b k f w : α) : Dva α :=
  match c with
  | .rb => frfRb isZero i ((1 / m) * f) w inc
  | .el => frfUnc i m b k f w
  | .rf => rfFreq i ((1 / k) * f) w dispOnly

/-- one equation of `FreqDirect.fsolve` for an uncoupled system -/
def rowDirect (i : α) (c : Cls) (inc : Incrb) (dispOnly : Bool) (m b k f w : α) : Dva α :=
  match c with
  | .rb => applyIncrb inc (frfDir i m b k f w)
  | .el => frfDir i m b k f w
  | .rf => rfFreq i ((1 / k) * f) w dispOnly

/-! ### matrix level, on `Fin n → α` -/

def vsum {n : Nat} (f : Fin n → α) : α := ((List.finRange n).map f).sum

def mulVec {n s : Nat} (A : Fin n → Fin s → α) (x : Fin s → α) : Fin n → α :=
  fun r => vsum fun c => A r c * x c

/-- `Hi = 1j * b * O + k - m * O**2` -/
def dynStiff {n : Nat} (i w : α) (M B K : Fin n → Fin n → α) : Fin n → Fin n → α :=
  fun r c => i * B r c * w + K r c - M r c * (w * w)

/-- `FreqDirect.fsolve`, coupled: `d = la.solve(Hi, force)` -/
def freqDirect {n : Nat} (solve : (Fin n → Fin n → α) → (Fin n → α) → Fin n → α)
    (i w : α) (M B K : Fin n → Fin n → α) (f : Fin n → α) : Fin n → α :=
  solve (dynStiff i w M B K) f

/-- `_solve_freq_coup`, elastic part: `w = ur_inv_v @ imf`, `H = 1j Ω - lam`,
`d = ur_d @ (w / H)`; `imf = M⁻¹ f`. -/
def frfCoupled {n s : Nat} (i w : α) (lam : Fin s → α) (urd : Fin n → Fin s → α)
    (urinvv : Fin s → Fin n → α) (imf : Fin n → α) : Fin n → α :=
  mulVec urd fun j => mulVec urinvv imf j / (i * w - lam j)

/-- `solvepsd`: `frf = drma @ a + drmv @ v + drmd @ d + drmf[:, i]` for one recovery row
(a missing drm is a zero row). -/
def frfRec {n : Nat} (ra rv rd : Fin n → α) (rf : α) (sd sv sa : Fin n → α) : α :=
  (vsum fun c => ra c * sa c) + (vsum fun c => rv c * sv c) + (vsum fun c => rd c * sd c) + rf

end scalar

section psd
variable {ρ : Type} [Add ρ] [Sub ρ] [Mul ρ] [Zero ρ]

/-- `psd += forcepsd[i] * abs(frf)**2` summed over the forces; `h i = |frf_i|²`. -/
def respPsd {p : Nat} (psd : Fin p → ρ) (h : Fin p → ρ) : ρ := vsum fun i => psd i * h i

/-- `np.sum(np.diff(freq) * (psd[:-1] + psd[1:]))`: twice the trapezoidal area. -/
def trapz2 : List ρ → List ρ → ρ
  | f0 :: f1 :: fs, y0 :: y1 :: ys => (f1 - f0) * (y0 + y1) + trapz2 (f1 :: fs) (y1 :: ys)
  | _, _ => 0

end psd

/-! ## executable composition (driver instance)

`Cx`, Gaussian elimination and the partition bookkeeping of the constructors.  The composition
is tied to the source by the correspondence check; the theorems concern the formulas above. -/

structure Cx where
  re : Float
  im : Float
deriving Inhabited

namespace Cx
instance : Zero Cx := ⟨⟨0, 0⟩⟩
instance : One Cx := ⟨⟨1, 0⟩⟩
instance : Add Cx := ⟨fun a b => ⟨a.re + b.re, a.im + b.im⟩⟩
instance : Sub Cx := ⟨fun a b => ⟨a.re - b.re, a.im - b.im⟩⟩
instance : Neg Cx := ⟨fun a => ⟨-a.re, -a.im⟩⟩
instance : Mul Cx := ⟨fun a b => ⟨a.re * b.re - a.im * b.im, a.re * b.im + a.im * b.re⟩⟩
/-- Smith's algorithm (what numpy uses for complex division) -/
instance : Div Cx := ⟨fun a b =>
  if b.re.abs >= b.im.abs then
    if b.re == 0 && b.im == 0 then ⟨a.re / b.re.abs, a.im / b.im.abs⟩
    else
      let rat := b.im / b.re
      let scl := 1.0 / (b.re + b.im * rat)
      ⟨(a.re + a.im * rat) * scl, (a.im - a.re * rat) * scl⟩
  else
    let rat := b.re / b.im
    let scl := 1.0 / (b.im + b.re * rat)
    ⟨(a.re * rat + a.im) * scl, (a.im * rat - a.re) * scl⟩⟩
def I : Cx := ⟨0, 1⟩
def ofReal (x : Float) : Cx := ⟨x, 0⟩
/-- `abs` of a complex double (`npy_cabs` = `hypot`) -/
def mag (a : Cx) : Float := Float.sqrt (a.re * a.re + a.im * a.im)
def isZero (a : Cx) : Bool := a.re == 0 && a.im == 0
def normSq (a : Cx) : Float := let m := mag a; m * m
end Cx

/-! ### index bookkeeping of the constructors (exact, discrete)

`imrbPick` / `rbBlock` are the addressing steps as repaired by the `fix:` commits for the families
`su-imrb-rf-index-before-rb-mass-given` and `fsolve-su-rb-index-array-ge2-incrb-dv`; the
`…Prefix` definitions record what the code did before (see `Props/C02.lean`). -/

/-- `nonrf = np.nonzero(~rfmask)[0]` -/
def nonrfOf (n : Nat) (rf : List Nat) : List Nat := (List.range n).filter fun j => !rf.contains j

/-- `_inv_mrb`: `self.m` has been reduced to the non-rf equations and is indexed with `self._rb`
(`np.nonzero(vec[nonrf])[0]`, positions inside `nonrf`).  Returns the full-size equations whose
mass is used for the rigid-body solution: `nonrf[_rb]`. -/
def imrbPick (nonrf rb : List Nat) : List Nat := nonrf.filter fun j => rb.contains j

/-- before the fix: the non-rf mass was indexed with `self.rb`, the *full-size* indices
(`none` = `IndexError`). -/
def imrbPickPrefix (nonrf rb : List Nat) : Option (List Nat) := rb.mapM fun r => nonrf[r]?

/-- `_mk_slice` succeeds: empty or consecutive -/
def contiguous : List Nat → Bool
  | a :: b :: t => b == a + 1 && contiguous (b :: t)
  | _ => true

/-- before the fix: outcome of `v[rb, pvnz] = val` (`val` of shape `r × k`, `k` = number of
non-zero frequencies) under numpy indexing: with `rb` a slice the block is addressed; with `rb`
an index array of length `r` it is *paired* with `nonzero(pvnz)`.  `none` = the assignment
succeeds (and stores the intended block).  After the fix (`np.ix_`) the block is always
addressed. -/
def rbMaskAssignPrefix (slices : Bool) (r k : Nat) : Option String :=
  if slices || r == 1 then none
  else if k == r || k == 1 then some "value-error"
  else some "index-error"

section exec
variable {α : Type} [Add α] [Sub α] [Mul α] [Div α] [Neg α] [Zero α] [One α] [Inhabited α]

abbrev Mat (α : Type) := Array (Array α)

def Mat.get (A : Mat α) (r c : Nat) : α := (A[r]!)[c]!

/-- Gaussian elimination with partial pivoting: the executable stand-in for LAPACK `gesv`. -/
def gaussSolve (absLt : α → α → Bool) (n : Nat) (A0 : Mat α) (b0 : Array α) : Array α := Id.run do
  let mut A := A0
  let mut b := b0
  for c in [0:n] do
    let mut p := c
    for r in [c+1:n] do
      if absLt (A.get p c) (A.get r c) then p := r
    if p != c then
      let t := A[c]!
      A := A.set! c A[p]!
      A := A.set! p t
      let tb := b[c]!
      b := b.set! c b[p]!
      b := b.set! p tb
    let piv := A.get c c
    let rowc := A[c]!
    for r in [c+1:n] do
      let fct := A.get r c / piv
      let mut row := A[r]!
      for j in [c:n] do
        row := row.set! j (row[j]! - fct * rowc[j]!)
      A := A.set! r row
      b := b.set! r (b[r]! - fct * b[c]!)
  let mut x : Array α := Array.replicate n 0
  for cc in [0:n] do
    let c := n - 1 - cc
    let mut s := b[c]!
    for j in [c+1:n] do
      s := s - A.get c j * x[j]!
    x := x.set! c (s / A.get c c)
  return x

/-- the non-polymorphic operations the bookkeeping needs -/
structure Ops (α : Type) where
  i : α
  twoPi : α
  isZero : α → Bool
  mag : α → Float

def fnOfMat {n s : Nat} (A : Mat α) : Fin n → Fin s → α := fun r c => A.get r.val c.val
def fnOfVec {n : Nat} (x : Array α) : Fin n → α := fun r => x[r.val]!

/-- `ytools.isdiag(A, tol=1e-12)`: `abs(diag(d) - A).max() <= tol * abs(d).max()` -/
def isDiag (ops : Ops α) (n : Nat) (A : Mat α) : Bool := Id.run do
  let mut maxOff : Float := 0
  let mut maxOn : Float := 0
  for r in [0:n] do
    for c in [0:n] do
      let m := ops.mag (A.get r c)
      if r == c then
        if m > maxOn then maxOn := m
      else
        if m > maxOff then maxOff := m
  return maxOff <= 1e-12 * maxOn

/-- sub-matrix `A[np.ix_(rows, cols)]` -/
def Mat.sub (A : Mat α) (rows cols : Array Nat) : Mat α :=
  rows.map fun r => cols.map fun c => A.get r c

def vecSub (x : Array α) (rows : Array Nat) : Array α := rows.map fun r => x[r]!

/-- one frequency-domain problem as the constructors and `fsolve` see it -/
structure Case (α : Type) where
  n : Nat
  M : Mat α
  B : Mat α
  K : Mat α
  rb : Option (Array Nat)
  rf : Array Nat
  /-- `pre_eig`: `M B K` are then the modal matrices and `phi` the mode shapes -/
  phi : Option (Mat α)
  /-- `pc.lam, pc.ur_d, pc.ur_inv_v` after `_addconj` (coupled `SolveUnc` only) -/
  eig : Option (Array α × Mat α × Mat α)
  freq : Array α
  F : Mat α
  inc : Incrb
  dispOnly : Bool
  /-- `m is None` (after `pre_eig`) -/
  mNone : Bool
  /-- `systype is complex` (dtype of the inputs) -/
  cplx : Bool

def Case.nonrf (c : Case α) : Array Nat := (Array.range c.n).filter fun j => !c.rf.contains j

def Case.unc (ops : Ops α) (c : Case α) : Bool :=
  isDiag ops c.n c.M && isDiag ops c.n c.B && isDiag ops c.n c.K

/-- `_make_rb_el`: user partition, or detection with `tol = 0.005` on the non-rf part. -/
def Case.classify (ops : Ops α) (c : Case α) : Array Cls :=
  let nonrf := c.nonrf
  let unc := c.unc ops
  let small (x : α) : Bool := ops.mag x < 0.005
  let isRb (j : Nat) : Bool :=
    match c.rb with
    | some rb => rb.contains j
    | none =>
      if unc then small (c.K.get j j)
      else nonrf.all fun r =>
        small (c.K.get r j) && small (c.K.get j r) && small (c.B.get r j) && small (c.B.get j r)
  (Array.range c.n).map fun j => if c.rf.contains j then .rf else if isRb j then .rb else .el

def idxOf (cls : Array Cls) (k : Cls) : Array Nat :=
  (Array.range cls.size).filter fun j => cls[j]! == k

/-- `phi.T @ F` -/
def matTMul (n nf : Nat) (P F : Mat α) : Mat α :=
  (Array.range n).map fun r => (Array.range nf).map fun j =>
    vsum (n := n) fun c => P.get c.val r * F.get c.val j

def matMul (n nf : Nat) (P F : Mat α) : Mat α :=
  (Array.range n).map fun r => (Array.range nf).map fun j =>
    vsum (n := n) fun c => P.get r c.val * F.get c.val j

abbrev Sol (α : Type) := Array (Array (Dva α))

def Sol.comp (s : Sol α) (pick : Dva α → α) : Mat α := s.map fun row => row.map pick

def solOfComps (n nf : Nat) (d v a : Mat α) : Sol α :=
  (Array.range n).map fun r => (Array.range nf).map fun j => ⟨d.get r j, v.get r j, a.get r j⟩

/-- `_solution_freq`: `phi @ d`, `phi @ v`, `phi @ a` when `pre_eig` -/
def backTransform (n nf : Nat) (phi : Option (Mat α)) (s : Sol α) : Sol α :=
  match phi with
  | none => s
  | some P => solOfComps n nf (matMul n nf P (s.comp (·.d))) (matMul n nf P (s.comp (·.v)))
      (matMul n nf P (s.comp (·.a)))

def setRows (s : Sol α) (rows : Array Nat) (vals : Nat → Nat → Dva α) (nf : Nat) : Sol α := Id.run do
  let mut out := s
  for q in [0:rows.size] do
    out := out.set! rows[q]! ((Array.range nf).map fun j => vals q j)
  return out

def zeroDva : Dva α := ⟨0, 0, 0⟩

/-- column `j` of the rows `rows` of `F` -/
def colOf (F : Mat α) (rows : Array Nat) (j : Nat) : Array α := rows.map fun r => F.get r j

/-- `SolveUnc(m, b, k, rb=, rf=, pre_eig=).fsolve(F, freq, incrb, rf_disp_only)` -/
def fsolveSU (ops : Ops α) (absLt : α → α → Bool) (c : Case α) : Except String (Sol α) := do
  let n := c.n
  let nf := c.freq.size
  let cls := c.classify ops
  let rb := idxOf cls .rb
  let el := idxOf cls .el
  let rf := idxOf cls .rf
  let nonrf := c.nonrf
  let unc := c.unc ops
  -- constructor: `get_su_eig` path (coupled or complex) decomposes the rigid-body mass with
  -- `_inv_mrb`, which indexes the non-rf mass with full-size indices
  let eigPath := !unc || c.cplx
  let mrbIdx : Array Nat :=
    if eigPath && !c.mNone && rb.size > 0 then (imrbPick nonrf.toList rb.toList).toArray else rb
  if c.F.size != n then throw "value-error"
  if c.F.any fun row => row.size != nf then throw "value-error"
  let F := match c.phi with
    | some P => matTMul n nf P c.F
    | none => c.F
  let w : Array α := c.freq.map fun f => ops.twoPi * f
  if unc then
    let s : Sol α := (Array.range n).map fun r => (Array.range nf).map fun j =>
      let mr := match rb.idxOf? r with
        | some q => mrbIdx[q]!
        | none => r
      rowUnc ops.isZero ops.i cls[r]! c.inc c.dispOnly (c.M.get mr mr) (c.B.get r r) (c.K.get r r)
        (F.get r j) w[j]!
    return backTransform n nf c.phi s
  else
    let mut s : Sol α := (Array.range n).map fun _ => (Array.range nf).map fun _ => zeroDva
    -- residual flexibility: static solution with the rf block of the stiffness
    if rf.size > 0 then
      let Krf := c.K.sub rf rf
      let drf : Array (Array α) := (Array.range nf).map fun j => gaussSolve absLt rf.size Krf (colOf F rf j)
      s := setRows s rf (fun q j => rfFreq ops.i ((drf[j]!)[q]!) w[j]! c.dispOnly) nf
    -- rigid body: a = mrb⁻¹ f
    if rb.size > 0 then
      let Mrb := c.M.sub mrbIdx mrbIdx
      let arb : Array (Array α) := (Array.range nf).map fun j => gaussSolve absLt rb.size Mrb (colOf F rb j)
      s := setRows s rb (fun q j => frfRb ops.isZero ops.i ((arb[j]!)[q]!) w[j]! c.inc) nf
    -- elastic: complex modes of the elastic block
    if el.size > 0 then
      match c.eig with
      | none => throw "missing-eig"
      | some (lam, urd, urinvv) =>
        let ks := el.size
        let ns := lam.size
        let Mel := c.M.sub el el
        let dd : Array (Array α) := (Array.range nf).map fun j =>
          let imf := gaussSolve absLt ks Mel (colOf F el j)
          let dfn := frfCoupled (n := ks) (s := ns) ops.i w[j]! (fnOfVec lam) (fnOfMat urd)
            (fnOfMat urinvv) (fnOfVec imf)
          Array.ofFn dfn
        s := setRows s el (fun q j =>
          let d := (dd[j]!)[q]!
          ⟨d, d * (ops.i * w[j]!), d * -(w[j]! * w[j]!)⟩) nf
    return backTransform n nf c.phi s

/-- `FreqDirect(m, b, k, rb=, rf=).fsolve(F, freq, incrb, rf_disp_only)` -/
def fsolveFD (ops : Ops α) (absLt : α → α → Bool) (c : Case α) : Except String (Sol α) := do
  let n := c.n
  let nf := c.freq.size
  if c.F.size != n then throw "value-error"
  let nonrf := c.nonrf
  if nonrf.size > 0 && c.F.any (fun row => row.size != nf) then throw "value-error"
  let F := c.F
  let w : Array α := c.freq.map fun f => ops.twoPi * f
  let cls := c.classify ops
  if c.unc ops then
    return (Array.range n).map fun r => (Array.range nf).map fun j =>
      rowDirect ops.i cls[r]! c.inc c.dispOnly (c.M.get r r) (c.B.get r r) (c.K.get r r)
        (F.get r j) w[j]!
  else
    let rb := idxOf cls .rb
    let rf := idxOf cls .rf
    let mut s : Sol α := (Array.range n).map fun _ => (Array.range nf).map fun _ => zeroDva
    if rf.size > 0 then
      let Krf := c.K.sub rf rf
      let drf : Array (Array α) := (Array.range nf).map fun j => gaussSolve absLt rf.size Krf (colOf F rf j)
      s := setRows s rf (fun q j => rfFreq ops.i ((drf[j]!)[q]!) w[j]! c.dispOnly) nf
    let ks := nonrf.size
    if ks > 0 then
      let Mk := c.M.sub nonrf nonrf
      let Bk := c.B.sub nonrf nonrf
      let Kk := c.K.sub nonrf nonrf
      let dd : Array (Array α) := (Array.range nf).map fun j =>
        let solve : (Fin ks → Fin ks → α) → (Fin ks → α) → Fin ks → α := fun H f =>
          fnOfVec (gaussSolve absLt ks (Array.ofFn fun r => Array.ofFn fun cc => H r cc) (Array.ofFn f))
        Array.ofFn (freqDirect solve ops.i w[j]! (fnOfMat Mk) (fnOfMat Bk) (fnOfMat Kk)
          (fnOfVec (colOf F nonrf j)))
      s := setRows s nonrf (fun q j =>
        let d := (dd[j]!)[q]!
        ⟨d, (ops.i * w[j]!) * d, -(w[j]! * w[j]!) * d⟩) nf
      -- `if "d" not in incrb: d[self.rb] = 0` …
      s := setRows s rb (fun q j => applyIncrb c.inc ((s[rb[q]!]!)[j]!)) nf
    return s

/-- `solvepsd(fs, forcepsd, t_frc, freq, [[drma, drmv, drmd, drmf]])` with `rbduf = elduf = 1`:
returns the response PSD (rows × freq) and the RMS per row. -/
def solvePsdCase (normSq : α → Float) (solver : Case α → Except String (Sol α)) (c : Case α)
    (freqR : Array Float) (p : Nat) (tfrc : Mat α) (fpsd : Array (Array Float)) (q : Nat)
    (ra rv rd rff : Option (Mat α)) : Except String (Array (Array Float) × Array Float) := do
  let n := c.n
  let nf := freqR.size
  let mut sols : Array (Sol α) := #[]
  for i in [0:p] do
    -- `genforce = t_frc[:, i:i+1] @ unitforce`
    let F : Mat α := (Array.range n).map fun r => (Array.range nf).map fun _ => tfrc.get r i * 1
    sols := sols.push (← solver { c with F := F })
  let row (m : Option (Mat α)) (r : Nat) : Fin n → α := match m with
    | some A => fun cc => A.get r cc.val
    | none => fun _ => 0
  let psd : Array (Array Float) := (Array.range q).map fun r => (Array.range nf).map fun j =>
    respPsd (p := p) (fun i => (fpsd[i.val]!)[j]!) fun i =>
      let s := sols[i.val]!
      normSq (frfRec (row ra r) (row rv r) (row rd r)
        (match rff with | some A => A.get r i.val * 1 | none => 0)
        (fun cc => ((s[cc.val]!)[j]!).d) (fun cc => ((s[cc.val]!)[j]!).v)
        (fun cc => ((s[cc.val]!)[j]!).a))
  let rms : Array Float := psd.map fun y => Float.sqrt (trapz2 freqR.toList y.toList / 2)
  return (psd, rms)

end exec

end PyYetiVerif.Freq
