import PyYetiVerif.Model.UsetTran
/-!
C18, CANDIDATE FIX of finding F69 (`corpus/c18_f69_candidate_fix.diff`; /repo is NOT patched): `n2p._proc_mset`,
`n2p._formtran_0` ('pha' branch) and `n2p.formtran` (`se != 0`) with the `[id, dof]` table built from the g-set rows
only,

    iddof = uset.iloc[mksetpv(uset, "p", "g"), :0].reset_index().values

so that the positions within the g-set (`np.nonzero(mksetpv(uset, "g", x))[0]`) that index it are rows of the table they
were computed for.  Everything else is the text of `Model/UsetTran.lean`, which stays the model of the current code.
Core Lean only.
-/
set_option linter.constructorNameAsVariable false
namespace PyYetiVerif.Uset
open PyYetiVerif.Locate (matIntersect)

section tranFixed
variable {κ : Type} [DecidableEq κ] [LT κ] [DecidableLT κ] [LE κ] [DecidableLE κ] (mkKey : Nat → Nat → κ)
variable {α : Type} [Add α] [Mul α] [OfNat α 0] [OfNat α 1] [DecidableEq α]

/-- the rows of the table a boolean vector selects (`uset.iloc[pv]`; pandas refuses a vector of another length) -/
def rowsOfMask (tbl : List Row) (pv : List Bool) : List Row := ((tbl.zip pv).filter (·.2)).map (·.1)

/-- `uset.iloc[mksetpv(uset, "p", "g"), :0].reset_index().values`: the `[id, dof]` rows of the g-set, in table order -/
def iddofG (mk : Masks) (tbl : List Row) : Except TErr (List κ) := do
  let pv ← liftE (mksetpv (tbl.map (·.2.2)) mk.p mk.g)
  if pv.length ≠ tbl.length then .error (.base .index)
  else .ok (iddofOf mkKey (rowsOfMask tbl pv))

/-- `_proc_mset(nas, se, dof)` with the `[id, dof]` table evaluated by `idd` at the place of the `iddof = …` line -/
def procMsetWith (idd : Except TErr (List κ)) (mk : Masks) (tbl : List Row) (gm : Option (M α)) (dof : List κ) :
    Except TErr (Option (List Nat × M α)) := do
  let m ← setPos tbl mk.g mk.m
  if m = [] then .ok none
  else do
    let iddof ← idd
    let pvdofm ← selIn iddof m dof
    if pvdofm = [] then .ok none
    else do
      let m' ← takeIdx m pvdofm
      match gm with
      | none => .error (.base .key)
      | some g => do
          let g' ← rowsAt g pvdofm
          .ok (some (m', g'))

/-- patched `_proc_mset(nas, se, dof)` -/
def procMsetFixed (mk : Masks) (tbl : List Row) (gm : Option (M α)) (dof : List κ) :
    Except TErr (Option (List Nat × M α)) :=
  procMsetWith (iddofG mkKey mk tbl) mk tbl gm dof

/-- `_formtran_0(nas, dof, gset)` with the `[id, dof]` table evaluated by `idd` at the place of the `iddof = …` line (also
inside `_proc_mset`); the `gset` / `phg` branches do not use it -/
def formtran0With (idd : Except TErr (List κ)) (mk : Masks) (tbl : List Row) (phg pha gm : Option (M α)) (req : Request) (gset : Bool) :
    Except TErr (M α × List (Nat × Nat)) := do
  let (pvdof, dof) ← liftE (mkdofpv mk.p tbl (.mask mk.g) req true)
  if gset then do
    let ng ← setPos tbl mk.p mk.g
    if pvdof.any (fun c => decide (ng.length ≤ c)) then .error (.base .index)
    else .ok (⟨pvdof.map fun c => unitRow (α := α) ng.length c, ng.length⟩, dof)
  else match phg with
  | some ph => do
      let r ← rowsAt ph pvdof
      .ok (r, dof)
  | none =>
    match pha with
    | none => .error .runtime
    | some pa => do
        let dofr := dofRows mkKey dof
        let o ← setPos tbl mk.g mk.o
        let iddof ← idd
        let vo ← (if o = [] then pure [] else selIn iddof o dofr)
        if vo ≠ [] then .error .runtime
        else do
          let a ← setPos tbl mk.g mk.a
          let pvdofa ← selIn iddof a dofr
          let a' ← takeIdx a pvdofa
          let pm ← procMsetWith idd mk tbl gm dofr
          let _ ← (match pm with
            | some x => do
                let o_n ← liftE (mksetpv (tbl.map (·.2.2)) mk.n mk.o)
                if o_n.any id then do
                  if o_n.length ≠ x.2.c then .error (.base .index)
                  else
                    let cols := positions o_n
                    let gmo ← colsAt x.2 cols
                    if anyCols gmo ≠ [] then .error .runtime else pure ()
                else pure ()
            | none => pure () : Except TErr Unit)
          let m' := match pm with | some x => x.1 | none => []
          let s ← setPos tbl mk.g mk.s
          let pvdofs ← (if s = [] then pure [] else selIn iddof s dofr)
          let s' ← takeIdx s pvdofs
          let sets := a' ++ m' ++ s'
          let aRows ← rowsAt pa pvdofa
          let mRows ← (match pm with
            | some x => do
                let a_n ← setPos tbl mk.n mk.a
                let gma ← colsAt x.2 a_n
                let p ← dot gma pa
                pure p.r
            | none => pure [] : Except TErr (List (List α)))
          let sRows : List (List α) := s'.map fun _ => zeroRow pa.c
          let out ← reorder iddof sets dofr pvdof.length (aRows.r ++ mRows ++ sRows) pa.c
          .ok (out, dof)

/-- patched `_formtran_0(nas, dof, gset)` -/
def formtran0Fixed (mk : Masks) (tbl : List Row) (phg pha gm : Option (M α)) (req : Request) (gset : Bool) :
    Except TErr (M α × List (Nat × Nat)) :=
  formtran0With mkKey (iddofG mkKey mk tbl) mk tbl phg pha gm req gset

/-- the selections of `formtran` (`se != 0`) with the table evaluated by `idd` -/
def upSelectWith (idd : Except TErr (List κ)) (mk : Masks) (tbl : List Row) (got goq gm : Option (M α)) (dofr : List κ) :
    Except TErr (UpSel α) := do
  let t ← setPos tbl mk.g mk.t
  let iddof ← idd
  let st ← selSet iddof t dofr false
  let o ← setPos tbl mk.g mk.o
  let so ← selSet iddof o dofr false
  let o1 := o.length
  let goqM ← (match goq with
    | some g => pure g
    | none => do
        let q1 ← setPos tbl mk.g mk.q
        pure (if q1.length > 0 then ⟨List.replicate o1 (zeroRow q1.length), q1.length⟩ else ⟨[[]], 0⟩)
    : Except TErr (M α))
  let gotM ← (match got with
    | some g => pure g
    | none => do
        let t1 ← setPos tbl mk.g mk.t
        pure ⟨List.replicate o1 (zeroRow t1.length), t1.length⟩ : Except TErr (M α))
  let pm ← procMsetWith idd mk tbl gm dofr
  let tnoq ← (match pm with
    | some _ => do
        let t_n ← setPos tbl mk.n mk.t
        let o_n ← setPos tbl mk.n mk.o
        let q_n ← setPos tbl mk.n mk.q
        pure (t_n, o_n, q_n)
    | none => pure ([], [], []) : Except TErr (List Nat × List Nat × List Nat))
  let q ← setPos tbl mk.g mk.q
  let sq ← selSet iddof q dofr true
  let s ← setPos tbl mk.g mk.s
  let ss ← selSet iddof s dofr true
  .ok ⟨st.1, st.2, so.1, so.2, gotM, goqM, pm, tnoq, sq.1, sq.2, ss.1, ss.2⟩

/-- `formtran(nas, se, dof, gset)` for `se != 0` with the table evaluated by `idd` -/
def formtranUpWith (idd : Except TErr (List κ)) (mk : Masks) (tbl : List Row) (got goq gm : Option (M α)) (req : Request) :
    Except TErr (M α × List (Nat × Nat)) := do
  let (pvdof, dof) ← liftE (mkdofpv mk.p tbl (.mask mk.g) req true)
  let t_a ← setPos tbl mk.a mk.t
  let q_a ← setPos tbl mk.a mk.q
  let a ← liftE (mksetpv (tbl.map (·.2.2)) mk.g mk.a)
  if pvdof.all (fun i => a[i]? == some true) then do
    let (pvdofa, _) ← liftE (mkdofpv mk.p tbl (.mask mk.a) (.rows dof) true)
    let na := a.count true
    let rows ← takeIdx ((List.range na).map fun k => unitRow (α := α) na k) pvdofa
    .ok (⟨rows, na⟩, dof)
  else do
    let dofr := dofRows mkKey dof
    let x ← upSelectWith idd mk tbl got goq gm dofr
    -- the same `iddof` is used again by the final re-ordering (`idd` is a value: when the selections succeeded it is `.ok`)
    let iddof ← idd
    let rows ← upBlocks x t_a q_a
    let out ← reorder iddof x.sets dofr pvdof.length rows (x.gotM.c + x.goqM.c)
    .ok (out, dof)

/-- patched `formtran(nas, se, dof, gset)` for `se != 0` -/
def formtranUpFixed (mk : Masks) (tbl : List Row) (got goq gm : Option (M α)) (req : Request) :
    Except TErr (M α × List (Nat × Nat)) :=
  formtranUpWith mkKey (iddofG mkKey mk tbl) mk tbl got goq gm req

/-- patched `formtran(nas, se, dof, gset)` -/
def formtranFixed (mk : Masks) (d : NasT α) (se : Nat) (req : Request) (gset : Bool) :
    Except TErr (M α × List (Nat × Nat)) := do
  let tbl ← liftE (lookupD d.nas.uset se)
  let opt := fun (l : List (Nat × M α)) => (l.find? (fun p => p.1 = se)).map (·.2)
  if se = 0 then formtran0Fixed mkKey mk tbl (opt d.phg) (opt d.pha) (opt d.gm) req gset
  else formtranUpFixed mkKey mk tbl (opt d.got) (opt d.goq) (opt d.gm) req

end tranFixed
end PyYetiVerif.Uset
