import PyYetiVerif.Model.GenMachineInit
/-!
The concrete generators, statement by statement, each with the one-step map (`Lin`) it is an
instance of (proved in `Props/C08Inst.lean`).  Core Lean only.

  * `uncStep`   solveunc.py `_solve_real_unc_generator`   (diagonal coefficients `F … Bp`)
  * `exp2Step`  solveexp2.py `_solve_se2_generator`       (`E_dd, E_dv, E_vd, E_vv`, `P`, `Q`)
  * `cplxStep`  solveunc.py `_solve_complex_unc_generator` (rigid-body rows in closed form,
                elastic rows through the complex modal recurrence with the real recovery
                `rur @ re − iur @ im`, rigid-body acceleration among the static rows)

In every generator the coefficient objects are maps on the row partition they act on (diagonal
scalings `c * ·`, matrix products `M @ ·`); the driver instantiates them with `Float` arrays in
the operation order of the source.
-/
namespace PyYetiVerif.GenMachine

/-! ### `_solve_real_unc_generator` -/

/-- `AB`, `ABp` are the order-0 coefficient vectors `A + B`, `Ap + Bp` the generator forms once -/
structure UncCoef (V M W : Type) where
  F : M → M
  G : M → M
  A : M → M
  B : M → M
  Fp : M → M
  Gp : M → M
  Ap : M → M
  Bp : M → M
  AB : M → M
  ABp : M → M
  K : V → M
  S : V → W
  order1 : Bool

section unc
variable {V M W : Type} [Add V] [Add M] [Zero M] [Add W]

/-- the `else` branch (`i = j`) -/
def uncSendAt (c : UncCoef V M W) (s : State V (DV M) W) (prev i : Nat) (f : V) :
    State V (DV M) W :=
  let f0 := c.K (s.force prev)
  let f1 := c.K f
  let di := (s.x prev).d
  let vi := (s.x prev).v
  { cur := i
    force := upd s.force i f
    x := upd s.x i
      (if c.order1 then
        ⟨c.F di + c.G vi + c.A f0 + c.B f1, c.Fp di + c.Gp vi + c.Ap f0 + c.Bp f1⟩
      else ⟨c.F di + c.G vi + c.AB f0, c.Fp di + c.Gp vi + c.ABp f0⟩)
    r := upd s.r i (c.S f) }

/-- the `j < 0` branch: order 1 adds `B * F1k`, `Bp * F1k`; order 0 leaves `D, V` alone -/
def uncAddon (c : UncCoef V M W) (s : State V (DV M) W) (f : V) : State V (DV M) W :=
  { s with
    force := upd s.force s.cur (s.force s.cur + f)
    x := if c.order1 then
        upd s.x s.cur ⟨(s.x s.cur).d + c.B (c.K f), (s.x s.cur).v + c.Bp (c.K f)⟩
      else s.x
    r := upd s.r s.cur (s.r s.cur + c.S f) }

def uncStep (c : UncCoef V M W) (s : State V (DV M) W) : Op V → State V (DV M) W
  | .send i f => uncSendAt c s (i - 1) i f
  | .addon f => uncAddon c s f

def uncLin (c : UncCoef V M W) : Lin V (DV M) W :=
  { T := fun x => ⟨c.F x.d + c.G x.v, c.Fp x.d + c.Gp x.v⟩
    P := fun f => if c.order1 then ⟨c.A (c.K f), c.Ap (c.K f)⟩ else ⟨c.AB (c.K f), c.ABp (c.K f)⟩
    Q := fun f => if c.order1 then ⟨c.B (c.K f), c.Bp (c.K f)⟩ else 0
    S := c.S }

/-- what the code does with any request -/
def uncStepApi (c : UncCoef V M W) (nt : Nat) (a : ApiState V (DV M) W) :
    Op V → Except Err (ApiState V (DV M) W)
  | .addon f => if a.started then .ok { a with s := uncAddon c a.s f } else .error .unbound
  | .send i f =>
      if nt ≤ i then .error .index
      else .ok ⟨true, uncSendAt c a.s (if i = 0 then nt - 1 else i - 1) i f⟩

end unc

/-! ### `_solve_se2_generator` -/

/-- `P`, `Q` are the matrices the generator multiplies with (`P * invm` resp.
`lu_solve(invm, P.T, trans=1).T` when a mass is given), as maps from the kdof force to the pair
(`PQF[ksize:]`, `PQF[:ksize]`) = (displacement part, velocity part) -/
structure Exp2Coef (V M W : Type) where
  Edd : M → M
  Edv : M → M
  Evd : M → M
  Evv : M → M
  P : M → DV M
  Q : M → DV M
  K : V → M
  S : V → W
  order1 : Bool

section exp2
variable {V M W : Type} [Add V] [Add M] [Zero M] [Add W]

def exp2SendAt (c : Exp2Coef V M W) (s : State V (DV M) W) (prev i : Nat) (f : V) :
    State V (DV M) W :=
  let f0 := c.K (s.force prev)
  let pqf : DV M := if c.order1 then c.P f0 + c.Q (c.K f) else c.P f0
  let d0 := (s.x prev).d
  let v0 := (s.x prev).v
  { cur := i
    force := upd s.force i f
    x := upd s.x i ⟨c.Edd d0 + c.Edv v0 + pqf.d, c.Evd d0 + c.Evv v0 + pqf.v⟩
    r := upd s.r i (c.S f) }

def exp2Addon (c : Exp2Coef V M W) (s : State V (DV M) W) (f : V) : State V (DV M) W :=
  { s with
    force := upd s.force s.cur (s.force s.cur + f)
    x := if c.order1 then
        upd s.x s.cur ⟨(s.x s.cur).d + (c.Q (c.K f)).d, (s.x s.cur).v + (c.Q (c.K f)).v⟩
      else s.x
    r := upd s.r s.cur (s.r s.cur + c.S f) }

def exp2Step (c : Exp2Coef V M W) (s : State V (DV M) W) : Op V → State V (DV M) W
  | .send i f => exp2SendAt c s (i - 1) i f
  | .addon f => exp2Addon c s f

def exp2Lin (c : Exp2Coef V M W) : Lin V (DV M) W :=
  { T := fun x => ⟨c.Edd x.d + c.Edv x.v, c.Evd x.d + c.Evv x.v⟩
    P := fun f => c.P (c.K f)
    Q := fun f => if c.order1 then c.Q (c.K f) else 0
    S := c.S }

def exp2StepApi (c : Exp2Coef V M W) (nt : Nat) (a : ApiState V (DV M) W) :
    Op V → Except Err (ApiState V (DV M) W)
  | .addon f => if a.started then .ok { a with s := exp2Addon c a.s f } else .error .unbound
  | .send i f =>
      if nt ≤ i then .error .index
      else .ok ⟨true, exp2SendAt c a.s (if i = 0 then nt - 1 else i - 1) i f⟩

end exp2

/-! ### `_solve_complex_unc_generator` -/

/-- state rows of the complex path: rigid-body and elastic displacement / velocity -/
structure CX (R E : Type) where
  drb : R
  vrb : R
  del : E
  vel : E

/-- static rows of the complex path: residual-flexibility displacement, rigid-body acceleration -/
structure CW (R S : Type) where
  rf : S
  arb : R

instance {R E : Type} [Add R] [Add E] : Add (CX R E) :=
  ⟨fun a b => ⟨a.drb + b.drb, a.vrb + b.vrb, a.del + b.del, a.vel + b.vel⟩⟩
instance {R E : Type} [Zero R] [Zero E] : Zero (CX R E) := ⟨⟨0, 0, 0, 0⟩⟩
instance {R S : Type} [Add R] [Add S] : Add (CW R S) := ⟨fun a b => ⟨a.rf + b.rf, a.arb + b.arb⟩⟩
instance {R S : Type} [Zero R] [Zero S] : Zero (CW R S) := ⟨⟨0, 0⟩⟩

/-- `Y` is the complex modal coordinate (one of each conjugate pair after `_delconj`).
`G, A, Ap` are `h, h²/3, h/2`; for order 0 the generator rescales `A := 1.5 A`, `Ap := 2 Ap`
(`A0`, `Ap0`) and `Ae := Ae + Be` (`AeBe`).  `uiv`, `uid` are `ur_inv_v @ ·`, `ur_inv_d @ ·`;
`recD y = rur_d @ y.real − iur_d @ y.imag`, `recV` likewise: the real recovery. -/
structure CplxCoef (R E S Y : Type) where
  G : R → R
  A : R → R
  Ap : R → R
  A0 : R → R
  Ap0 : R → R
  half : R → R
  imrb : R → R
  invm : E → E
  uiv : E → Y
  uid : E → Y
  Fe : Y → Y
  Ae : Y → Y
  Be : Y → Y
  AeBe : Y → Y
  recD : Y → E
  recV : Y → E
  ikrf : S → S
  order1 : Bool

section cplx
variable {R E S Y : Type} [Add R] [Add E] [Add S] [Add Y] [Zero R] [Zero E]

abbrev CState (R E S : Type) := State (P3 R E S) (CX R E) (CW R S)

/-- the `else` branch -/
def cplxSendAt (c : CplxCoef R E S Y) (s : CState R E S) (prev i : Nat) (f : P3 R E S) :
    CState R E S :=
  let F0 := s.force prev
  let xp := s.x prev
  let F0rb := c.imrb F0.rb
  let F1rb := c.imrb f.rb
  let AF := if c.order1 then c.A (F0rb + c.half F1rb) else c.A0 F0rb
  let AFp := if c.order1 then c.Ap (F0rb + F1rb) else c.Ap0 F0rb
  let w0 := c.uiv (c.invm F0.el)
  let abf := if c.order1 then c.Ae w0 + c.Be (c.uiv (c.invm f.el)) else c.AeBe w0
  let y := c.uiv xp.vel + c.uid xp.del
  let yn := c.Fe y + abf
  { cur := i
    force := upd s.force i f
    x := upd s.x i ⟨xp.drb + c.G xp.vrb + AF, xp.vrb + AFp, c.recD yn, c.recV yn⟩
    r := upd s.r i ⟨c.ikrf f.rf, F1rb⟩ }

/-- the `j < 0` branch: the rigid-body acceleration and the rf rows respond for both orders,
`d, v` only for order 1 -/
def cplxAddon (c : CplxCoef R E S Y) (s : CState R E S) (f : P3 R E S) : CState R E S :=
  let F1rb := c.imrb f.rb
  let yn := c.Be (c.uiv (c.invm f.el))
  let xc := s.x s.cur
  { s with
    force := upd s.force s.cur (s.force s.cur + f)
    x := if c.order1 then
        upd s.x s.cur
          ⟨xc.drb + c.A (c.half F1rb), xc.vrb + c.Ap F1rb, xc.del + c.recD yn, xc.vel + c.recV yn⟩
      else s.x
    r := upd s.r s.cur ⟨(s.r s.cur).rf + c.ikrf f.rf, (s.r s.cur).arb + F1rb⟩ }

def cplxStep (c : CplxCoef R E S Y) (s : CState R E S) : Op (P3 R E S) → CState R E S
  | .send i f => cplxSendAt c s (i - 1) i f
  | .addon f => cplxAddon c s f

def cplxLin (c : CplxCoef R E S Y) : Lin (P3 R E S) (CX R E) (CW R S) :=
  { T := fun x =>
      let yn := c.Fe (c.uiv x.vel + c.uid x.del)
      ⟨x.drb + c.G x.vrb, x.vrb, c.recD yn, c.recV yn⟩
    P := fun f =>
      let w0 := c.uiv (c.invm f.el)
      if c.order1 then
        ⟨c.A (c.imrb f.rb), c.Ap (c.imrb f.rb), c.recD (c.Ae w0), c.recV (c.Ae w0)⟩
      else ⟨c.A0 (c.imrb f.rb), c.Ap0 (c.imrb f.rb), c.recD (c.AeBe w0), c.recV (c.AeBe w0)⟩
    Q := fun f =>
      let w1 := c.uiv (c.invm f.el)
      if c.order1 then
        ⟨c.A (c.half (c.imrb f.rb)), c.Ap (c.imrb f.rb), c.recD (c.Be w1), c.recV (c.Be w1)⟩
      else 0
    S := fun f => ⟨c.ikrf f.rf, c.imrb f.rb⟩ }

def cplxStepApi (c : CplxCoef R E S Y) (nt : Nat) (a : ApiState (P3 R E S) (CX R E) (CW R S)) :
    Op (P3 R E S) → Except Err (ApiState (P3 R E S) (CX R E) (CW R S))
  | .addon f => if a.started then .ok { a with s := cplxAddon c a.s f } else .error .unbound
  | .send i f =>
      if nt ≤ i then .error .index
      else .ok ⟨true, cplxSendAt c a.s (if i = 0 then nt - 1 else i - 1) i f⟩

end cplx

end PyYetiVerif.GenMachine
