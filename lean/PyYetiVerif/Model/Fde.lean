/-
Model of the cycle bookkeeping of `pyyeti.fdepsd.fdepsd` / `_dofde` for one frequency:
`Amax`, `BinAmps`, cumulative `Count`, `BinCount`, the damage indicators `Df_b`, and the
`G2max` update rule.  Core Lean only.  A cycle is `(amp, count)`.
-/
namespace PyYetiVerif.Fde

variable {α : Type}

section order
variable [LT α] [DecidableLT α] [Add α] [Zero α]

/-- `np.sum(count[amp >= level])` -/
def cumCount (cycles : List (α × α)) (level : α) : α :=
  ((cycles.filter fun c => !decide (c.1 < level)).map (·.2)).sum

/-- `Count[j, :]` for the given bin amplitudes -/
def counts (cycles : List (α × α)) (levels : List α) : List α := levels.map (cumCount cycles)

/-- `amp.max()` (`none` for an empty table) -/
def amax : List (α × α) → Option α
  | [] => none
  | c :: cs => some (cs.foldl (fun m d => if m < d.1 then d.1 else m) c.1)

end order

section arith
variable [Add α] [Sub α] [Mul α] [Div α] [NatCast α] [Zero α]

/-- `BinAmps[j] = (arange(nbins) / nbins) * Amax` -/
def binAmps (nbins : Nat) (am : α) : List α :=
  (List.range nbins).map fun (k : Nat) => ((Nat.cast k : α) / (Nat.cast nbins : α)) * am

/-- `hstack((Count[:-1] - Count[1:], Count[-1:]))` -/
def binCount : List α → List α
  | [] => []
  | [c] => [c]
  | c :: d :: r => (c - d) :: binCount (d :: r)

def npow (x : α) : Nat → α
  | 0 => (Nat.cast 1 : α)
  | n + 1 => npow x n * x

def dot : List α → List α → α
  | a :: r, b :: s => a * b + dot r s
  | _, _ => 0

/-- `Df_b = (BinAmps ** b).dot(BinCount)` -/
def damage (b : Nat) (levels bc : List α) : α := dot (levels.map (npow · b)) bc

/-- `G2max = x[k] * y1 / (y1 - y[k])` -/
def g2update (xk y1 yk : α) : α := xk * y1 / (y1 - yk)

/-- `g1y = interp(x, [0, x2], [y1, 0])` for `0 ≤ x ≤ x2`, and `tantheta = (y - g1y) / x` -/
def tantheta (x x2 y y1 : α) : α := (y - (y1 - y1 * x / x2)) / x

end arith

/-- everything `fdepsd` stores for one frequency, from the cycle table -/
structure Row (α : Type) where
  amax : α
  levels : List α
  count : List α
  bincount : List α
  df4 : α
  df8 : α
  df12 : α

def row [LT α] [DecidableLT α] [Add α] [Sub α] [Mul α] [Div α] [NatCast α] [Zero α]
    (nbins : Nat) (cycles : List (α × α)) : Option (Row α) :=
  match amax cycles with
  | none => none
  | some am =>
      let lv := binAmps nbins am
      let ct := counts cycles lv
      let bc := binCount ct
      some { amax := am, levels := lv, count := ct, bincount := bc,
             df4 := damage 4 lv bc, df8 := damage 8 lv bc, df12 := damage 12 lv bc }

end PyYetiVerif.Fde
