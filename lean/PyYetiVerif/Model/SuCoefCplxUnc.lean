import PyYetiVerif.Model.SuCoefCoupled
/-!
Model of `SolveUnc.tsolve` on UNCOUPLED equations whose coefficients have a complex dtype (C01).
Core Lean only.

`SolveUnc.__init__` takes the closed-form path (`get_su_coef`) only `if self.unc and self.systype is float`;
uncoupled systems with complex coefficients go through `get_su_eig` / `_solve_complex_unc` like coupled ones:

    get_su_eig:           pc.G = h ; pc.A = h*h/3 ; pc.Ap = h/2          (rigid-body rows)
                          self.brb = self.b[self._rb]                     (stored, never read by the time-domain loop)
                          m, b, k := the elastic partitions ; kdof := el
    _solve_complex_unc:   rbforce = self.imrb * force[rb]  |  force[rb]   (`imrb = 1.0 / m[rb]`)
                          drb[:, i+1] = di + G*vi + AF[:, i] ; vrb[:, i+1] = vi + AFp[:, i]   -> `rbRun`
                          a[rb] = rbforce
                          elastic rows: the modal recurrence, `d[kdof, 1:] = ur_d @ y[:, 1:]` (complex systype)

The rigid-body rows are therefore integrated as UNDAMPED rigid bodies whatever their damping is
(finding F61: `tsolve-unc-complex-dtype-damped-rigid-body-mode-damping-ignored`).  The model keeps that:
`cplxUncRbDV` / `cplxUncRbAcc` take the row's `b`, `k` only to make visible that they are not used.
`Props/C01CplxUnc.lean` states what these rows compute, proves exactness under the hypothesis `b = 0` and gives the
counterexample for `b ≠ 0`.
-/
namespace PyYetiVerif.SuCoef

section rb
variable {α : Type} [Add α] [Mul α] [Div α] [OfNat α 1] [OfNat α 2] [OfNat α 3]

/-- `rbforce = self.imrb * force[rb]` (`imrb = 1.0 / mrb`), `force[rb]` when `m is None` -/
def cplxUncRbForce (m : Option α) (f : α) : α :=
  match m with
  | none => f
  | some m => (1 / m) * f

/-- `d[rb]`, `v[rb]` of one rigid-body row: the undamped recurrence on `rbforce`; the row's damping `_b`
and stiffness `_k` are not used -/
def cplxUncRbDV (order1 : Bool) (h : α) (m : Option α) (_b _k : α) (dv : α × α) (f : List α) : List (α × α) :=
  rbRun order1 h dv (f.map (cplxUncRbForce m))

/-- `a[rb] = rbforce` -/
def cplxUncRbAcc (m : Option α) (_b _k : α) (f : List α) : List α := f.map (cplxUncRbForce m)

end rb

section el
variable {C : Type} [Add C] [Sub C] [Mul C] [Div C] [Neg C] [Zero C]
  [OfNat C 0] [OfNat C 1] [OfNat C 2] [OfNat C 3] [TransOps C] {n N : Nat}

/-- the elastic part of `_solve_complex_unc` for a complex `systype`: `d = ur_d @ y`, `v = ur_v @ y` -/
def coupledRunCplx (order1 : Bool) (isSmall : C → Bool) (h : C) (e : Eig C n N)
    (d0 v0 : Fin n → C) (imf : List (Fin n → C)) : List ((Fin n → C) × (Fin n → C)) :=
  let c : Fin N → C × C × C := fun k => coefSel isSmall (e.lam k) h
  recoverTail (d0, v0) (fun y => (recoverCplx e.urD y, recoverCplx e.urV y))
    (runModal order1 c (modalInit e d0 v0) (imf.map fun f => modalForce e f))

end el

end PyYetiVerif.SuCoef
