import PyYetiVerif.Model.SrsExt
/-
Model of pyyeti/srs.py, fourth part (C03 extension).  Core Lean only.

* `srs.srs` with a *callable* `peak` (`methfunc = peak`, applied to the window; `eqsine` divides the
  spectrum value by `Q` *after* the peak function has run: `SRSmax /= Q`);
* the packaging of the results: `sh` of shape `(LF, H)` (`(LF,)` for a 1-D signal); the length
  of the history of every (frequency, column) cell (`resp['hist']` has shape `(len(t), H, LF)`).
-/
namespace PyYetiVerif.Srs
open TransOps

section pack
variable {α : Type} [Add α] [Sub α] [Mul α] [Div α] [Neg α] [BEq α] [LT α] [DecidableLT α]
  [OfNat α 0] [OfNat α 1] [OfNat α 2] [OfNat α 4] [OfNat α 6] [TransOps α]

/-- `srsTail` with the peak statistic as a parameter: `sel y ys` is `methfunc` applied to the
non-empty window `y :: ys` (for a string `peak` it is `Peak.sel`) -/
def srsTailG (sel : α → List α → α) (st : SType) (ic : Ic) (time : Time) (eqsine : Bool)
    (Q sr : α) (freqs : List α) (f s1 : α) (icv : Option α) (sg : List α) : Option (List α × α) :=
  let M := sg.length
  let sg := if time = .primary then sg else addOneCycle ic s1 (nzeros sr freqs) sg
  let wn := 2 * pi * f
  let resp := addBack st wn icv (lfilter (st.coef Q (1 / sr) wn) sg)
  let win := if time = .residual then resp.drop M else resp
  match win with
  | [] => none
  | y :: ys =>
    let pk := sel y ys
    if eqsine then some (win.map (· / Q), pk / Q) else some (win, pk)

/-- one column, one frequency, callable peak -/
def srsColG (sel : α → List α → α) (st : SType) (ic : Ic) (time : Time) (eqsine : Bool)
    (Q sr : α) (freqs : List α) (f : α) (sig : List α) : Option (List α × α) :=
  match sig with
  | [] => none
  | s1 :: _ =>
    srsTailG sel st ic time eqsine Q sr freqs f s1 (processIc ic st s1 sig).2 (processIc ic st s1 sig).1

/-- the mean square: a peak function that is *not* positively homogeneous of degree 1 -/
def meanSquare (y : α) (ys : List α) : α := mean ((y :: ys).map fun v => v * v)

/-- `sh` as returned: `(LF, H)`, flattened to `(LF,)` for a 1-D signal (`SRSmax.ravel()`) -/
def packSh (oneD : Bool) (sh : List (List α)) : List (List α) :=
  if oneD then [sh.flatten] else sh

/-- length of the returned history per window -/
def windowLen (time : Time) (n nz : Nat) : Nat :=
  match time with
  | .primary => n
  | .total => n + nz
  | .residual => nz

end pack
end PyYetiVerif.Srs
