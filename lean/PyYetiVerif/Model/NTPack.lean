import PyYetiVerif.Model.NT
import PyYetiVerif.Model.NTCbtf
/-
Model of `pyyeti/frclim.py: ntfl` COMPLETE: argument packaging (3-d `SAM`, `LAM` in the
`(b × freq × b)` layout, `As` as `b × freq` after `np.atleast_2d`, the size check), the loop over
the frequencies with `la.solve`, every returned field (`A F R SAM LAM TAM freq`).

Core Lean only; scalar type arbitrary.  `la.solve(Ms + Ml, Ms)` is a PARAMETER `solve` (any function;
the theorems assume its specification `T · solve T X = X`, the exact driver CHECKS it in exact
arithmetic on every request, the numeric driver is compared with LAPACK).

  frclim.py  As = np.atleast_2d(As); size check                          (`packAs`)
             TAM = SAM + LAM;  r, c, _ = SAM.shape
             for j: Ms = SAM[:, j, :]; Ml = LAM[:, j, :]                 (`slice3F`, `col2F`)
                    Mr = la.solve(Ms + Ml, Ms); A[:, j] = Mr @ As[:, j]
                    F[:, j] = Ml @ A[:, j];     R[:, j] = np.diag(Mr)    (`ntflColF`)
             SimpleNamespace(F, A, R, LAM, SAM, TAM, freq)               (`ntflF`)

Also here: exact Gaussian rationals `GQ` (the second executable instance besides complex `Float`) and
a generic Gauss-Jordan solver used by the drivers.
-/
namespace PyYetiVerif.NT

/-! ## slices of the flat arrays -/

/-- `X[:, j, :]` of a flat `(b, nf, b)` array, as a function matrix -/
def slice3F {α : Type} (z : α) (x : Array α) (nf b j : Nat) : Fin b → Fin b → α :=
  fun i k => x.getD (idx3 nf b i.1 j k.1) z

/-- `As[:, j]` of a flat `(b, nf)` array -/
def col2F {α : Type} (z : α) (x : Array α) (nf b j : Nat) : Fin b → α :=
  fun i => x.getD (idx2 nf i.1 j) z

/-- flat `(b, nf, b)` array of the matrices `f j` -/
def pack3F {α : Type} (b nf : Nat) (f : Nat → Nat → Nat → α) : Array α :=
  Array.ofFn (n := b * nf * b) fun t => f (t.1 / (nf * b)) (t.1 / b % nf) (t.1 % b)

/-! ## one frequency -/

/-- the per-frequency results of `ntfl` -/
structure NtCol (α : Type) (b : Nat) where
  A : Fin b → α
  F : Fin b → α
  R : Fin b → α
  Mr : Fin b → Fin b → α
  TAM : Fin b → Fin b → α

/-- body of the loop of `ntfl` for one frequency; `solve T X` stands for `la.solve(T, X)` -/
def ntflColF {α : Type} [Zero α] [Add α] [Mul α] {b : Nat}
    (solve : (Fin b → Fin b → α) → (Fin b → Fin b → α) → (Fin b → Fin b → α))
    (Ms Ml : Fin b → Fin b → α) (as : Fin b → α) : NtCol α b :=
  let T : Fin b → Fin b → α := fun i k => Ms i k + Ml i k
  let Mr := solve T Ms
  let A := look (tab (fmulVec Mr as))
  { A := A, F := fmulVec Ml A, R := fun i => Mr i i, Mr := Mr, TAM := T }

/-- all of `ntfl(SAM, LAM, As, freq)` for 3-d `SAM`, `LAM` given flat: column `j` of every output -/
def ntflF {α : Type} [Zero α] [Add α] [Mul α] (z : α) (b nf : Nat)
    (solve : (Fin b → Fin b → α) → (Fin b → Fin b → α) → (Fin b → Fin b → α))
    (sam lam as : Array α) (j : Nat) : NtCol α b :=
  ntflColF solve (slice3F z sam nf b j) (slice3F z lam nf b j) (col2F z as nf b j)

/-! ## argument packaging -/

/-- shape of `np.atleast_2d(As)`: a scalar becomes `1 × 1`, a vector of length `L` becomes `1 × L` -/
def atleast2d (sh : List Nat) : List Nat :=
  match sh with
  | [] => [1, 1]
  | [l] => [1, l]
  | s => s

/-- what `ntfl` does with the SHAPES of its array arguments: `Except` the exception kind, or the
shapes of `(A, TAM)`.  `sam`, `lam` are the shapes of the 3-d apparent-mass arrays, `as` the shape of
`As` as passed.  The routine itself only checks the frequency axis; a wrong number of boundary rows
in `As` surfaces as numpy's `ValueError` in `Mr @ As[:, j]`. -/
def packAs (lenf : Nat) (sam lam as : List Nat) : Except String (List Nat × List Nat) :=
  match sam, lam, atleast2d as with
  | [r, c, r'], [rl, cl, rl'], [ra, ca] =>
    if ¬(lenf = ca ∧ ca = c ∧ c = cl) then .error "ValueError"
    else if ¬(r = r' ∧ rl = rl' ∧ r = rl) then .error "other"   -- not in the modelled domain
    else if ra ≠ r then .error "ValueError"
    else .ok ([r, c], [r, c, r])
  | _, _, _ => .error "other"

/-! ## exact Gaussian rationals -/

structure GQ where
  re : Rat
  im : Rat
deriving DecidableEq, Inhabited

namespace GQ
instance : Zero GQ := ⟨⟨0, 0⟩⟩
instance : One GQ := ⟨⟨1, 0⟩⟩
instance : Add GQ := ⟨fun a b => ⟨a.re + b.re, a.im + b.im⟩⟩
instance : Sub GQ := ⟨fun a b => ⟨a.re - b.re, a.im - b.im⟩⟩
instance : Neg GQ := ⟨fun a => ⟨-a.re, -a.im⟩⟩
instance : Mul GQ := ⟨fun a b => ⟨a.re * b.re - a.im * b.im, a.re * b.im + a.im * b.re⟩⟩
instance : Inv GQ := ⟨fun a => let n := a.re * a.re + a.im * a.im; ⟨a.re / n, -a.im / n⟩⟩
instance : Div GQ := ⟨fun a b => a * b⁻¹⟩
end GQ

instance : Zero Cx := ⟨Cx.zero⟩
instance : One Cx := ⟨Cx.one⟩

/-! ## a generic dense solver for the drivers -/

/-- Gauss-Jordan on `[A | X]`; `better p q` says that pivot candidate `q` is preferred to the current
best `p` (`Float`: larger modulus; exact: the first non-zero).  Returns `A⁻¹ X` as rows, `none` when
a pivot is zero (`isZero`).  Specification not proved: checked (exactly, for `GQ`) by the driver. -/
def gaussSolve {α : Type} [Inhabited α] [Zero α] [Sub α] [Mul α] [Inv α]
    (isZero : α → Bool) (better : α → α → Bool) (n m : Nat)
    (A : Nat → Nat → α) (X : Nat → Nat → α) : Option (Array (Array α)) := Id.run do
  let w := n + m
  let mut rows : Array (Array α) := Array.ofFn (n := n) fun i =>
    Array.ofFn (n := w) fun j => if j.1 < n then A i.1 j.1 else X i.1 (j.1 - n)
  for col in [0:n] do
    let mut p := col
    let mut best := (rows.getD col #[]).getD col 0
    for i in [col+1:n] do
      let v := (rows.getD i #[]).getD col 0
      if better best v then
        best := v
        p := i
    if isZero best then return none
    let rp := rows.getD p #[]
    let rc := rows.getD col #[]
    rows := (rows.setIfInBounds p rc).setIfInBounds col rp
    let piv := (rp.getD col 0)⁻¹
    let prow := rp.map (fun z => z * piv)
    rows := rows.setIfInBounds col prow
    for i in [0:n] do
      if i ≠ col then
        let ri := rows.getD i #[]
        let f := ri.getD col 0
        rows := rows.setIfInBounds i (Array.ofFn (n := w) fun j => ri.getD j.1 0 - f * prow.getD j.1 0)
  return some (rows.map fun r => r.extract n w)

end PyYetiVerif.NT
