import PyYetiVerif.Model.Coord
/-!
Model of `pyyeti.nastran.n2p.formrbe3` (property C14), including the `UM_List` variants.

* `Mx α n m`                dense matrices as functions `Fin n → Fin m → α` (definitionally Mathlib's
                            `Matrix (Fin n) (Fin m) α`, so the theorems of `Lemmas/CoordRbe3.lean` are
                            about these very definitions); `fsum`, `Mx.mul`, `hstack`, `vstack`;
                            `Tab` = the same matrix as data (`Vector` of rows): every model function
                            returns a `Tab` and reads it back with `Tab.mx` (`(Mx.tab a).mx = a`), so
                            that the `Float` run computes every entry once;
* `Rb.toMx`, `gridRowsMx`   the 6x6 block of `rbgeom_uset` rows of one grid (zero for q-set grids);
* `charLen`, `effWt`        the characteristic length and the scaling of rotational weights;
* `rbe3Alg`, `rbe3Grid`     `rbw = rb.T * wtdof; rbe3 = solve(rbw @ rb, rbw); (T @ rbe3)[ddof - 1]`;
* `umIndep`, `umMixed`      the two re-partitions of `formrbe3` for an m-set inside the independent set
                            (`solve(rbe3_um, [I, -rbe3_n])`) and for a mixed m-set (`A B C D` blocks);
* `umPlan`                  the DOF bookkeeping (`mat_intersect`, `index2bool`, `flippv`, the two
                            emptiness tests `dpv_m.size == 0`, `ipv_m.size == 0`) as exact `Nat`-list code;
* `sortByRow`, `sortRows`   "Sort idof / mdof according to uset" (`mat_intersect(…, usetdof, 2)`);
* `rbe3Core`                everything after the list packaging, for independent DOF already in uset order;
* `formRbe3`                `sortByRow` + `rbe3Core` on lists (the `rbe3` request of `Drivers/C14.lean`); the packaging
                            of `formrbe3`'s own arguments (`Ind_List`, `UM_List`, uset rows) is `Model/CoordRbe3Wrap.lean`.

`solve` is the external kernel `scipy.linalg.solve`: a parameter.  The theorems quantify over every
exact solver; the `Float` run uses `gaussMx` (Gaussian elimination with partial pivoting).

Core Lean only.
-/
namespace PyYetiVerif.Coord
open TransOps

/-- dense `n × m` matrix -/
abbrev Mx (α : Type) (n m : Nat) := Fin n → Fin m → α

/-- the same as data: `n` rows of `m` entries -/
abbrev Tab (α : Type) (n m : Nat) := Vector (Vector α m) n

/-- tabulate (every entry is computed once) -/
def Mx.tab {α : Type} {n m : Nat} (a : Mx α n m) : Tab α n m :=
  Vector.ofFn fun i => Vector.ofFn fun j => a i j

/-- read a table as a matrix; `(Mx.tab a).mx = a` -/
def Tab.mx {α : Type} {n m : Nat} (v : Tab α n m) : Mx α n m :=
  fun i j => (v[i.val]'i.isLt)[j.val]'j.isLt

/-- the external linear solver `scipy.linalg.solve(A, B)` -/
abbrev Solver (α : Type) := {n k : Nat} → Tab α n n → Tab α n k → Tab α n k

section mx
variable {α : Type} [Add α] [Mul α] [Neg α] [OfNat α 0] [OfNat α 1]

/-- `Σ_{i<n} f i`, accumulated from the left starting at 0 -/
def fsum {n : Nat} (f : Fin n → α) : α := Fin.foldl n (fun acc i => acc + f i) 0

namespace Mx
def mul {n k m : Nat} (a : Mx α n k) (b : Mx α k m) : Mx α n m :=
  fun i j => fsum fun l => a i l * b l j
def add {n m : Nat} (a b : Mx α n m) : Mx α n m := fun i j => a i j + b i j
def neg {n m : Nat} (a : Mx α n m) : Mx α n m := fun i j => -(a i j)
def zero {n m : Nat} : Mx α n m := fun _ _ => 0
def ident {n : Nat} : Mx α n n := fun i j => if i.val = j.val then 1 else 0
/-- `np.hstack((x, y))` -/
def hstack {n a b : Nat} (x : Mx α n a) (y : Mx α n b) : Mx α n (a + b) :=
  fun i j => if h : j.val < a then x i ⟨j.val, h⟩ else y i ⟨j.val - a, by omega⟩
/-- `np.vstack((x, y))` -/
def vstack {a b m : Nat} (x : Mx α a m) (y : Mx α b m) : Mx α (a + b) m :=
  fun i j => if h : i.val < a then x ⟨i.val, h⟩ j else y ⟨i.val - a, by omega⟩ j
/-- `a[f, :]` -/
def selRows {n m r : Nat} (a : Mx α n m) (f : Fin r → Fin n) : Mx α r m := fun i j => a (f i) j
/-- `a[:, g]` -/
def selCols {n m c : Nat} (a : Mx α n m) (g : Fin c → Fin m) : Mx α n c := fun i j => a i (g j)
def toLists {n m : Nat} (a : Mx α n m) : List (List α) := List.ofFn fun i => List.ofFn fun j => a i j
def ofLists {n m : Nat} (l : List (List α)) : Mx α n m := fun i j => (l.getD i.val []).getD j.val 0
end Mx
end mx

section rows
variable {α : Type} [OfNat α 0]

/-- row `i` of the 6x6 block, as (translation part, rotation part) -/
def Rb.rowAt (r : Rb α) (i : Fin 6) : V3 α × V3 α :=
  match i.val with
  | 0 => (r.tl.r0, r.tr.r0)
  | 1 => (r.tl.r1, r.tr.r1)
  | 2 => (r.tl.r2, r.tr.r2)
  | 3 => (r.bl.r0, r.br.r0)
  | 4 => (r.bl.r1, r.br.r1)
  | _ => (r.bl.r2, r.br.r2)

/-- entry `j` of a row -/
def v6 (row : V3 α × V3 α) (j : Fin 6) : α :=
  match j.val with
  | 0 => row.1.x
  | 1 => row.1.y
  | 2 => row.1.z
  | 3 => row.2.x
  | 4 => row.2.y
  | _ => row.2.z

def Rb.toMx (r : Rb α) : Mx α 6 6 := fun i j => v6 (r.rowAt i) j
end rows

section alg
variable {α : Type} [Add α] [Sub α] [Mul α] [Div α] [Neg α] [OfNat α 0] [OfNat α 1]

/-- `formrbe3` after the DOF bookkeeping: `rb` = rows of `rbgeom_uset(uset, GRID_dep)` at the independent
DOF, `w` = (scaled) weights, `T` = the six rows of the dependent grid, `dd` = dependent DOF (0-based) -/
def rbe3Alg {m nd : Nat} (solve : Solver α)
    (rb : Mx α m 6) (w : Fin m → α) (T : Mx α 6 6) (dd : Fin nd → Fin 6) : Tab α nd m :=
  let rbt := Mx.tab rb
  let rbw := Mx.tab fun j i => rbt.mx i j * w i              -- rb.T * wtdof
  let A := Mx.tab (rbw.mx.mul rbt.mx)
  let X := solve A rbw
  let TX := Mx.tab ((Mx.tab T).mx.mul X.mx)
  Mx.tab (TX.mx.selRows dd)                                  -- (T @ rbe3)[ddof[:, 1] - 1]

/-- `UM_List` inside the independent set: `im` = m-set columns, `inn` = the other columns;
`rhs = [I, -rbe3[:, notmpv]]`, `rbe3 = solve(rbe3[:, mpv], rhs)`.  Columns: dependent DOF, then `inn`. -/
def umIndep {nd ni q : Nat} (solve : Solver α)
    (R : Mx α nd ni) (im : Fin nd → Fin ni) (inn : Fin q → Fin ni) : Tab α nd (nd + q) :=
  solve (Mx.tab (R.selCols im)) (Mx.tab (Mx.hstack Mx.ident (Mx.neg (R.selCols inn))))

/-- mixed m-set: `dm`/`dn` = dependent rows in / not in the m-set, `im`/`inn` = independent columns in /
not in the m-set.  `E = solve(C, [I, -D])`, `F = A E + [0, B]`, result `[F; E]`: rows = m-set DOF
(dependent part first), columns = `dn` DOF then `inn` DOF. -/
def umMixed {nd ni r c q : Nat} (solve : Solver α)
    (R : Mx α nd ni) (dm : Fin r → Fin nd) (dn : Fin c → Fin nd) (im : Fin c → Fin ni)
    (inn : Fin q → Fin ni) : Tab α (r + c) (c + q) :=
  let A : Mx α r c := (R.selRows dm).selCols im
  let B : Mx α r q := (R.selRows dm).selCols inn
  let C : Mx α c c := (R.selRows dn).selCols im
  let D : Mx α c q := (R.selRows dn).selCols inn
  let E := solve (Mx.tab C) (Mx.tab (Mx.hstack Mx.ident (Mx.neg D)))
  let F := Mx.tab ((A.mul E.mx).add (Mx.hstack Mx.zero B))
  Mx.tab (Mx.vstack F.mx E.mx)

variable [OfNat α 180] [TransOps α] [LT α] [∀ a b : α, Decidable (a < b)]

/-- the six `rbgeom_uset` rows of a grid relative to `ref` (zero for a q-set grid) -/
def gridRowsMx (g : GridR α) (ref : V3 α) : Mx α 6 6 :=
  if g.q then Mx.zero else (gridRb g.co g.p ref).toMx

/-- characteristic length: mean distance of the other grids of the element from the dependent grid
(`grids` = dependent and independent grids, each once) -/
def charLen (grids : List (GridR α)) (dep : GridR α) : α :=
  (grids.foldl (fun acc g => acc + norm (g.p.sub dep.p)) 0) / TransOps.ofNat (grids.length - 1)

/-- rotational weights are multiplied by `Lc²` when `Lc > 1e-12` (`dof` 0-based) -/
def effWt (Lc : α) (dof : Fin 6) (w : α) : α :=
  if 3 ≤ dof.val ∧ (tiny12 : α) < Lc then w * (Lc * Lc) else w

/-- one independent DOF: its grid, the component (0-based) and the weighting factor -/
structure IndDof (α : Type) where
  g : GridR α
  dof : Fin 6
  w : α

/-- rows of `rbgeom_uset(uset, ref)` at the independent DOF -/
def indRows {m : Nat} (ind : Fin m → IndDof α) (ref : V3 α) : Mx α m 6 :=
  fun k j => gridRowsMx (ind k).g ref (ind k).dof j

/-- `formrbe3(uset, GRID_dep, DOF_dep, Ind_List)`: independent DOF in uset order -/
def rbe3Grid {m nd : Nat} (solve : Solver α)
    (grids : List (GridR α)) (dep : GridR α) (dd : Fin nd → Fin 6) (ind : Fin m → IndDof α) :
    Tab α nd m :=
  let Lc := charLen grids dep
  rbe3Alg solve (indRows ind dep.p) (fun k => effWt Lc (ind k).dof (ind k).w) (gridRowsMx dep dep.p) dd

end alg

/-! ### DOF bookkeeping of the `UM_List` branches (exact) -/

/-- `locate.mat_intersect(hay, needles, 2)[0]`: for each needle, in order, its index in `hay` if present -/
def positions (hay needles : List Nat) : List Nat := needles.filterMap fun k => hay.idxOf? k

/-- `flippv` / `np.logical_not(index2bool(pv, n))` as an ascending index list -/
def complIdx (pv : List Nat) (n : Nat) : List Nat := (List.range n).filter fun i => !pv.contains i

/-- `index2bool(pv, n)` as an ascending index list -/
def maskIdx (pv : List Nat) (n : Nat) : List Nat := (List.range n).filter fun i => pv.contains i

inductive UmBranch where
  | indep | dep | mixed
  deriving DecidableEq, Repr

/-- which rows / columns of `rbe3` go where; `rowOrd`, `colOrd` = final reordering -/
structure UmPlan where
  branch : UmBranch
  dm : List Nat
  dn : List Nat
  im : List Nat
  inn : List Nat
  rowOrd : List Nat
  colOrd : List Nat
  deriving Repr

/-- DOF are identified by their row number in the uset table (`nuset` rows): `ddof` in `DOF_dep` digit
order, `idof` and `mdof` already in uset order.  `none` = the real code raises (`mkdofpv` on an m-set
DOF that is not independent). -/
def umPlan (ddof idof mdof : List Nat) (nuset : Nat) : Option UmPlan :=
  let key (l : List Nat) (i : Nat) : Nat := l.getD i 0
  let dpv := positions ddof mdof
  if dpv.isEmpty then
    -- "this works when the m-set is a subset of the independent set"
    if mdof.all idof.contains then
      let mpv := positions idof mdof
      let notm := complIdx mpv idof.length
      let cur := ddof ++ notm.map (key idof)
      some ⟨.indep, [], [], mpv, notm, List.range mdof.length, positions cur (List.range nuset)⟩
    else none
  else
    let ipv := positions idof mdof
    if ipv.isEmpty then
      some ⟨.dep, dpv, [], [], [], List.range dpv.length, List.range idof.length⟩
    else
      let dm := maskIdx dpv ddof.length
      let dn := complIdx dpv ddof.length
      let im := maskIdx ipv idof.length
      let inn := complIdx ipv idof.length
      let didof := dm.map (key ddof) ++ im.map (key idof)
      let cur := dn.map (key ddof) ++ inn.map (key idof)
      some ⟨.mixed, dm, dn, im, inn, positions didof mdof, positions cur (List.range nuset)⟩

/-! ### everything on lists -/

/-- `Fin`-valued index map from a list of in-range indices -/
def idxMap (l : List Nat) (n : Nat) (h : 0 < n) : Fin l.length → Fin n :=
  fun i => ⟨l[i] % n, Nat.mod_lt _ h⟩

section lists
variable {α : Type} [Add α] [Sub α] [Mul α] [Div α] [Neg α] [OfNat α 0] [OfNat α 1]

/-- `Y[ro][:, co]` -/
def Mx.reorder {a b : Nat} (Y : Mx α a b) (ha : 0 < a) (hb : 0 < b) (ro co : List Nat) :
    Mx α ro.length co.length :=
  (Y.selRows (idxMap ro a ha)).selCols (idxMap co b hb)

/-- apply a plan to the `nd × ni` matrix `R`: the matrix of the branch, rows and columns reordered -/
def umApplyMx (solve : Solver α) {nd ni : Nat} (hd : 0 < nd)
    (hi : 0 < ni) (R : Mx α nd ni) (p : UmPlan) : Option (Mx α p.rowOrd.length p.colOrd.length) :=
  if !(p.dm ++ p.dn).all (· < nd) || !(p.im ++ p.inn).all (· < ni) then none else
  match p.branch with
  | .dep =>
    if h : 0 < p.dm.length then
      some ((R.selRows (idxMap p.dm nd hd)).reorder h hi p.rowOrd p.colOrd)
    else none
  | .indep =>
    if h : p.im.length = nd then
      some ((umIndep solve R (fun i => idxMap p.im ni hi (Fin.cast h.symm i))
        (idxMap p.inn ni hi)).mx.reorder hd (Nat.add_pos_left hd _) p.rowOrd p.colOrd)
    else none
  | .mixed =>
    if h : p.dn.length = p.im.length ∧ 0 < p.im.length then
      some ((umMixed solve R (idxMap p.dm nd hd)
        (fun i => idxMap p.dn nd hd (Fin.cast h.1.symm i)) (idxMap p.im ni hi)
        (idxMap p.inn ni hi)).mx.reorder (Nat.add_pos_right _ h.2) (Nat.add_pos_left h.2 _)
        p.rowOrd p.colOrd)
    else none

def umApply (solve : Solver α) {nd ni : Nat} (hd : 0 < nd)
    (hi : 0 < ni) (R : Mx α nd ni) (p : UmPlan) : Option (List (List α)) :=
  (umApplyMx solve hd hi R p).map Mx.toLists

variable [OfNat α 180] [TransOps α] [LT α] [∀ a b : α, Decidable (a < b)]

/-- "Sort idof according to uset" (`idof[mat_intersect(idof, usetdof, 2)[0]]`): the entries (uset row, payload)
in uset-row order; entries whose row is not `< nuset` drop out, of entries with the same row the first stays -/
def sortByRow {γ : Type} (ind : List (Nat × γ)) (nuset : Nat) : List (Nat × γ) :=
  (positions (ind.map (·.1)) (List.range nuset)).filterMap fun i => ind[i]?

/-- the same for bare rows (`mdof[mat_intersect(mdof, usetdof, 2)[0]]`) -/
def sortRows (ks : List Nat) (nuset : Nat) : List Nat :=
  (positions ks (List.range nuset)).filterMap fun i => ks[i]?

/-- `formrbe3` after the list packaging: `ni` independent DOF `indf` already in uset order with uset rows
`ikeys`; `ddofs` = rows of `T` (0-based, `DOF_dep` digit order) with `dkeys` their uset rows;
`um` = (number of m-set DOF named by `UM_List`, uset rows of those that are in the table, `UM_List` order).
`none` where the real code raises. -/
def rbe3Core (solve : Solver α)
    (grids : List (GridR α)) (dep : GridR α) (ddofs : List Nat) (dkeys : List Nat)
    (ni : Nat) (indf : Fin ni → IndDof α) (ikeys : List Nat) (um : Option (Nat × List Nat)) (nuset : Nat) :
    Option (List (List α)) :=
  let nd := ddofs.length
  if h : 0 < ni ∧ 0 < nd ∧ ddofs.all (· < 6) then
    let dd : Fin nd → Fin 6 := fun i => ⟨ddofs[i] % 6, Nat.mod_lt _ (by decide)⟩
    let R := (rbe3Grid solve grids dep dd indf).mx
    match um with
    | none => some R.toLists
    | some (umLen, umk) =>
      if umLen != nd then none else
      let mdof := sortRows umk nuset
      match umPlan dkeys ikeys mdof nuset with
      | none => none
      | some p => umApply solve h.2.1 h.1 R p
  else none

/-- `formrbe3` on lists.  `grids` = dependent + independent grids (each once, for `Lc`);
`ddofs` = dependent components (0-based, `DOF_dep` digit order) with `dkeys` their uset rows;
`ind` = independent DOF in `Ind_List` order: (uset row, grid, component, weight);
`um` = uset rows of the m-set DOF in `UM_List` order, if given; `nuset` = number of uset rows.
`none` where the real code raises. -/
def formRbe3 (solve : Solver α)
    (grids : List (GridR α)) (dep : GridR α) (ddofs : List Nat) (dkeys : List Nat)
    (ind : List (Nat × IndDof α)) (um : Option (List Nat)) (nuset : Nat) :
    Option (List (List α)) :=
  -- "Sort idof according to uset" (weights travel with their DOF)
  let inds := sortByRow ind nuset
  rbe3Core solve grids dep ddofs dkeys inds.length (fun k => (inds[k]).2) (inds.map (·.1))
    (um.map fun umk => (umk.length, umk)) nuset

/-- Gaussian elimination with partial pivoting (the `Float` instance of `solve`) -/
def gaussTab [Inhabited α] {n k : Nat} (A : Tab α n n) (B : Tab α n k) : Tab α n k :=
  Mx.tab (Mx.ofLists (gaussSolve A.mx.toLists B.mx.toLists))

end lists

end PyYetiVerif.Coord
