/-!
# Executable model of pyyeti.cla extrema bookkeeping (core Lean only)

Source modelled (after `fix:` e548f60):

* `cla/_utilities.py`: `nan_argmax`, `nan_argmin`, `maxmin`, `extrema` (two-column and one-column
  branch, optional `casenum` record), and — only to document finding F6 — the one-column update as it
  was before the fix (`upd1Old`, broadcast compare over both stored columns);
* `cla/dr_results.py`: `_store_maxmin` (duplicate case refusal, per-case columns), `_compute_srs`
  / `form_extreme` envelope `np.fmax`, `_mk_case_lbls`, the time / frf recovery pipelines
  (`maxmin` per case followed by `extrema`).

Values are `Option α` with `none` = NaN.  Everything the code does to a response value is compare,
negate (`abs`, frf minimum) and move, so the model is exact over any ordered ring; the driver runs
it at `Int`.

The numpy code is vectorised over rows; rows never interact, so the model is stated for ONE row and
the correspondence check compares every row of the implementation's tables with it.
-/
namespace PyYetiVerif.Extrema

/-- one element of `nan_argmax(v1, v2)` / `nan_argmin(v1, v2)`:
`(v2 ▷ v1) | (isnan(v1) & ~isnan(v2))`, `better cur new` being the strict compare. -/
def nanRepl {α : Type} (better : α → α → Bool) : Option α → Option α → Bool
  | some a, some b => better a b
  | none, some _ => true
  | _, none => false

/-- a tracked extreme of one row: value, abscissa (`ext_x`), label (`maxcase` / `mincase`) -/
structure Tr (α X L : Type) where
  v : Option α
  x : X
  lab : L
deriving DecidableEq, Repr

/-- the compare-and-replace step: `j = nan_arg…(cur, new).nonzero()`; value, label and abscissa
of the rows in `j` are overwritten together. -/
def Tr.upd {α X L : Type} (better : α → α → Bool) (cur new : Tr α X L) : Tr α X L :=
  if nanRepl better cur.v new.v then new else cur

/-- a history of calls on one column: the first call copies, later calls compare-and-replace -/
def runTr {α X L : Type} (better : α → α → Bool) (first : Tr α X L) (rest : List (Tr α X L)) :
    Tr α X L :=
  rest.foldl (Tr.upd better) first

section cmp
variable {α : Type} [LT α] [DecidableLT α]

/-- `new > cur` -/
def gtB (cur new : α) : Bool := decide (cur < new)
/-- `new < cur` -/
def ltB (cur new : α) : Bool := decide (new < cur)

variable [Neg α] [OfNat α 0]
def absv (a : α) : α := if a < 0 then -a else a
/-- `abs(new) > abs(cur)` -/
def absGtB (cur new : α) : Bool := decide (absv cur < absv new)
/-- `abs(new) < abs(cur)` -/
def absLtB (cur new : α) : Bool := decide (absv new < absv cur)
end cmp

/-- `[max, min]` columns of one row with their abscissae and labels -/
structure Cur (α X L : Type) where
  hi : Tr α X L
  lo : Tr α X L
deriving DecidableEq, Repr

section extrema
variable {α X L : Type} [LT α] [DecidableLT α]

/-- `cla.extrema`, two-column `mm`: `m.1 = (mm.ext[i,0], mm.ext_x[i,0], maxcase[i])`,
`m.2 = (mm.ext[i,1], mm.ext_x[i,1], mincase[i])`; `none` = `curext.ext is None`. -/
def upd2 : Option (Cur α X L) → Tr α X L × Tr α X L → Cur α X L
  | none, m => ⟨m.1, m.2⟩
  | some c, m => ⟨c.hi.upd gtB m.1, c.lo.upd ltB m.2⟩

def run2 (cases : List (Tr α X L × Tr α X L)) : Option (Cur α X L) :=
  cases.foldl (fun s m => some (upd2 s m)) none

variable [Neg α] [OfNat α 0]

/-- `cla.extrema`, one-column `mm` (repaired code): column 0 keeps the value of largest magnitude
with its sign, column 1 the value of smallest magnitude; both labels come from `maxcase`. -/
def upd1 : Option (Cur α X L) → Tr α X L → Cur α X L
  | none, m => ⟨m, m⟩
  | some c, m => ⟨c.hi.upd absGtB m, c.lo.upd absLtB m⟩

def run1 (cases : List (Tr α X L)) : Option (Cur α X L) :=
  cases.foldl (fun s m => some (upd1 s m)) none

/-- the one-column update BEFORE fix e548f60 (finding F6): `nan_argmax(abs(curext.ext),
abs(mm.ext))` compared the new column with BOTH stored columns (broadcast) and `.nonzero()[0]`
selected the row when either compare was true; the second compare saw the already updated
maximum. -/
def upd1Old : Option (Cur α X L) → Tr α X L → Cur α X L
  | none, m => ⟨m, m⟩
  | some c, m =>
    let hi := if nanRepl absGtB c.hi.v m.v || nanRepl absGtB c.lo.v m.v then m else c.hi
    let lo := if nanRepl absLtB hi.v m.v || nanRepl absLtB c.lo.v m.v then m else c.lo
    ⟨hi, lo⟩

def run1Old (cases : List (Tr α X L)) : Option (Cur α X L) :=
  cases.foldl (fun s m => some (upd1Old s m)) none

end extrema

section maxmin
variable {α X : Type} [LT α] [DecidableLT α]

/-- `cla.maxmin` on one row: `np.nanargmax` / `np.nanargmin` (first index of the NaN-ignoring
extreme; `ValueError` = `none` for an all-NaN or empty row or when `len(x)` differs); the label
of the tracked value is the column index. -/
def maxminRow (resp : List (Option α)) (x : List X) : Option (Tr α X Nat × Tr α X Nat) :=
  if resp.length ≠ x.length then none else
  match (resp.zip x).zipIdx.map (fun p => (⟨p.1.1, p.1.2, p.2⟩ : Tr α X Nat)) with
  | [] => none
  | t :: ts =>
    let hi := runTr gtB t ts
    let lo := runTr ltB t ts
    if hi.v.isNone then none else some (hi, lo)

end maxmin

section envelope
variable {α : Type} [LT α] [DecidableLT α]

/-- `np.fmax(a, b)` on one element -/
def fmaxO : Option α → Option α → Option α
  | some a, some b => if a < b then some b else some a
  | none, b => b
  | a, none => a

/-- `_compute_srs`: `ext = srs_first`, then `ext = fmax(ext, srs_j)` -/
def srsEnv (first : Option α) (rest : List (Option α)) : Option α := rest.foldl fmaxO first

/-- `form_extreme`: `init_extreme_cat` deep-copies the first part's envelope, then every part
(the first one again) is folded in with `np.fmax`. -/
def srsEnvForm (first : Option α) (rest : List (Option α)) : Option α :=
  (first :: rest).foldl fmaxO first

end envelope

section percase
variable {β : Type}

/-- `res.mx[:, j] = …` for a sequence of `(j, value)` writes into a column array of length `n` -/
def record (n : Nat) (fill : β) (writes : List (Nat × β)) : List β :=
  writes.foldl (fun arr w => arr.set w.1 w.2) (List.replicate n fill)

/-- `_store_maxmin` label bookkeeping: `res.cases = n*[[]]`; a case name already present raises
`ValueError` (`none`), otherwise `res.cases[j] = case`. -/
def storeCase {L : Type} [DecidableEq L] (cases : List (Option L)) (j : Nat) (case : L) :
    Option (List (Option L)) :=
  if cases.contains (some case) then none else some (cases.set j (some case))

def storeCases {L : Type} [DecidableEq L] (n : Nat) (writes : List (Nat × L)) :
    Option (List (Option L)) :=
  writes.foldl (fun st w => st.bind fun cs => storeCase cs w.1 w.2) (some (List.replicate n none))

end percase

/-- `form_extreme._mk_case_lbls` for one row: `case` = event key, `lower` = the part's own label -/
def mkCaseLbl (case lower : String) (useExt : Bool) (doappend : Nat) : String :=
  let d := if useExt && doappend == 2 then 1 else doappend
  if d == 1 then case ++ "," ++ lower else if d == 3 then lower else case

section pipeline
variable {α X L : Type} [LT α] [DecidableLT α]

/-- `DR_Results.time_data_recovery` for one row of one category: `mm = maxmin(resp, t)` per case,
then `extrema(res, mm, case)`.  Returns the running extreme and the per-case `mm` (what
`_store_maxmin` writes to column `j`); `none` = `ValueError` from `maxmin`. -/
def timeRow (cases : List (L × List (Option α) × List X)) :
    Option (Option (Cur α X L) × List (Tr α X Nat × Tr α X Nat)) :=
  cases.foldl (fun st c => st.bind fun (cur, per) =>
    (maxminRow c.2.1 c.2.2).map fun mm =>
      (some (upd2 cur (⟨mm.1.v, mm.1.x, c.1⟩, ⟨mm.2.v, mm.2.x, c.1⟩)), per ++ [mm])) (some (none, []))

variable [Neg α]

/-- `frf_data_recovery` for one row: `mm = maxmin(abs(resp), f)`, then `mm.ext[:,1] = -mm.ext[:,0]`,
`mm.ext_x[:,1] = mm.ext_x[:,0]`.  `mag` is `abs(resp)`. -/
def frfRow (cases : List (L × List (Option α) × List X)) :
    Option (Option (Cur α X L) × List (Tr α X Nat × Tr α X Nat)) :=
  cases.foldl (fun st c => st.bind fun (cur, per) =>
    (maxminRow c.2.1 c.2.2).map fun mm =>
      let lo : Tr α X Nat := ⟨mm.1.v.map (fun v => -v), mm.1.x, mm.1.lab⟩
      (some (upd2 cur (⟨mm.1.v, mm.1.x, c.1⟩, ⟨lo.v, lo.x, c.1⟩)), per ++ [(mm.1, lo)])) (some (none, []))

end pipeline

/-- the same tracked triple with the value negated (`mm.ext[:, 1] = -mm.ext[:, 0]`,
`mm.ext_x[:, 1] = mm.ext_x[:, 0]` in `frf_data_recovery` / `psd_data_recovery`) -/
def negTr {α X L : Type} [Neg α] (t : Tr α X L) : Tr α X L := ⟨t.v.map (fun v => -v), t.x, t.lab⟩

end PyYetiVerif.Extrema
