import PyYetiVerif.Model.BulkGrid
import PyYetiVerif.Generated.BulkFormats
/-
Interpreter of the format templates that the translator harness/translate/c13_bulkformats.py extracts
from the writers of pyyeti/nastran/bulk.py (`Generated/BulkFormats.lean`, regenerated on every run):
Python's `str.format` for the specs the writers use — `{:8d}` / `{:16d}` / `{:d}` (right-justified integer),
`{:<8s}` / `{:8s}` / `{:<16s}` / `{:s}` (left-justified string), `{:>8}` / `{:>16}` (right-justified integer or
empty string) — with real-valued fields (`{:16.9E}`, `{:16.8e}`, the caller's `form`) as opaque, already
formatted tokens (C12).  Core Lean only.  The theorems of Props/C13Fmt.lean say that the text the writer
models produce IS the rendering of these templates.
-/
namespace PyYetiVerif.Bulk
open PyYetiVerif.Generated.BulkFormats (Piece)

inductive FArg where
  | i (n : Int)
  | s (t : Txt)
  | tok (t : Txt)
deriving Repr

/-- `format(arg, "[align][width][type]")` -/
def fmtPiece (al : Char) (w : Nat) (ty : Char) : FArg → Option Txt
  | .i n => if ty = 'd' ∨ ty = ' ' then some (if al = '<' then padR w (dec n) else padL w (dec n)) else none
  | .s t => if ty = 's' ∨ ty = ' ' then some (if al = '>' then padL w t else padR w t) else none
  | .tok t => if ty = 'e' ∨ ty = 'E' ∨ ty = 'f' then some t else none

/-- one line of a template: the text and the arguments left over -/
def renderLine : List Piece → List FArg → Option (Txt × List FArg)
  | [], as => some ([], as)
  | .lit s :: ps, as => (renderLine ps as).map fun (t, r) => (s.toList ++ t, r)
  | .form :: ps, .tok t :: as => (renderLine ps as).map fun (u, r) => (t ++ u, r)
  | .form :: _, _ => none
  | .fld al w _ ty :: ps, a :: as =>
      match fmtPiece al w ty a with
      | some x => (renderLine ps as).map fun (u, r) => (x ++ u, r)
      | none => none
  | .fld _ _ _ _ :: _, [] => none

/-- all lines of a template; every argument must be consumed -/
def renderTpl : List (List Piece) → List FArg → Option (List Txt)
  | [], [] => some []
  | [], _ :: _ => none
  | l :: ls, as =>
      match renderLine l as with
      | some (t, r) => (renderTpl ls r).map (t :: ·)
      | none => none

/-- total field width of a line when the caller's `form` yields `fw` columns; `none` = a field without width -/
def lineWidth (fw : Nat) : List Piece → Nat
  | [] => 0
  | .lit s :: ps => s.length + lineWidth fw ps
  | .form :: ps => fw + lineWidth fw ps
  | .fld _ w _ _ :: ps => w + lineWidth fw ps

/-- number of replacement fields (`form` included) of a line -/
def fieldCount : List Piece → Nat
  | [] => 0
  | .lit _ :: ps => fieldCount ps
  | _ :: ps => 1 + fieldCount ps

end PyYetiVerif.Bulk
