import PyYetiVerif.Model.Op4
import PyYetiVerif.Model.Op4Sparse
/-!
Model of the REPAIR CANDIDATES for findings F2 and F3 of pyyeti/nastran/op4.py (corpus/c04_F2_candidate_fix.diff,
corpus/c04_F3_candidate_fix.diff).  /repo is not patched: nothing here is used by the current check of C04; the
definitions stand next to the ones of Model/Op4.lean they would replace.  Core Lean only.

F2 (`op4-binary-nonbigmat-string-ge-16384-rows`): `_write_binary_nonbigmat` hands
`maxlen = 16383 // multiplier` to `_write_binary_sparse`, which passes the result of `_sparse_col_stats`
through the new `OP4._split_strings(ind, maxlen)` before the column header is written.

F3 (`op4-ascii-negative-3digit-exponent`): `_write_ascii_header` returns a function `numform(value)` instead of a
`%` string: `fmt % value`, and `fmt1 % value` (one digit less) when that is wider than `numlen`.
-/
namespace PyYetiVerif.Op4
open PyYetiVerif.Generated.Op4Consts

/-! ## F2: strings of at most `maxlen` rows -/

/-- `[(r0 + k, min(maxlen, r1 - k)) for k in range(0, r1, maxlen)]`; the fuel is `r1` -/
def splitRun (maxlen : Nat) : Nat → Nat → Nat → List (Nat × Nat)
  | 0, _, _ => []
  | fuel + 1, r0, r1 =>
    if r1 = 0 then [] else
    if r1 ≤ maxlen then [(r0, r1)] else (r0, maxlen) :: splitRun maxlen fuel (r0 + maxlen) (r1 - maxlen)

/-- `OP4._split_strings(ind, maxlen)` (`ind` is never empty where it is called: the column has a non-zero) -/
def splitStrings (maxlen : Nat) (ind : List (Nat × Nat)) : List (Nat × Nat) :=
  if ind.all (fun p => decide (p.2 ≤ maxlen)) then ind else ind.flatMap fun p => splitRun maxlen p.2 p.1 p.2

/-- `maxlen=16383 // multiplier` in `_write_binary_nonbigmat` -/
def maxStrRows (cplx : Bool) : Nat := 16383 / mult cplx

/-- the strings the patched binary nonbigmat writer writes for a column -/
def stringsFx (cplx : Bool) (col : List Entry) : List (Nat × List Entry) :=
  (splitStrings (maxStrRows cplx) (colStats (nzIdx cplx col))).map fun p => (p.1, (col.drop p.1).take p.2)

def encColNonbigFx (e : Endian) (cplx : Bool) (c : Nat) (col : List Entry) : List Nat :=
  match stringsFx cplx col with
  | [] => []
  | ss =>
    let nwords := nwordsNonbig cplx ss
    let reclen := (3 + nwords) * 4
    [reclen, c + 1, 0, nwords] ++ ss.flatMap (nonbigStringWords e cplx) ++ [reclen]

/-- every packed string header the patched writer packs -/
def stringsFitFx (cplx : Bool) (col : List Entry) : Bool :=
  (stringsFx cplx col).all fun s => fitsI32 (packIS (s.1 + 1) (s.2.length * 2 * mult cplx))

/-- one matrix as words, patched writer: `none` = `struct.error` on a packed `IS` — `nonbigmat_never_overflows_fixed`
(Props/C04Fix.lean) shows that below 65536 rows (where the layout is used) this does not happen -/
def encMatWordsFx (e : Endian) (lay : Layout) (m : Mat) : Option (List Nat) :=
  match lay with
  | .nonbigmat =>
    if m.cols.all (stringsFitFx m.cplx) then
      some (headerWords e m false ++ encCols (encColNonbigFx e m.cplx) 0 m.cols ++ trailerWords e m.cols.length)
    else none
  | l => encMatWords e l m

def encFileWordsFx (e : Endian) : List (Layout × Mat) → Option (List Nat)
  | [] => some []
  | (l, m) :: t => do
    let a ← encMatWordsFx e l m
    let b ← encFileWordsFx e t
    some (a ++ b)

def encFileBytesFx (e : Endian) (ms : List (Layout × Mat)) : Option (List Nat) :=
  (encFileWordsFx e ms).map (bytesOfWords e)

/-- the record length of the column's record, patched writer (0 when the column writes none) -/
def recLenFx (lay : Layout) (cplx : Bool) (col : List Entry) : Nat :=
  match lay with
  | .nonbigmat => match stringsFx cplx col with
    | [] => 0
    | ss => (3 + nwordsNonbig cplx ss) * 4
  | l => recLen l cplx col

/-- the patched `_write_binary*` of one ndarray matrix with every `struct.pack` checked (`writeMatWords`) -/
def writeMatWordsFx (e : Endian) (lay : Layout) (m : Mat) : Except WriteErr (List Nat) :=
  if m.rows > 2147483647 ∨ m.cols.length > 2147483647 then .error .valueError
  else if m.form < 2147483648 ∧ m.cols.length + 1 < 2147483648 ∧
      m.cols.all (fun col => decide (recLenFx lay m.cplx col < 2147483648)) = true then
    match encMatWordsFx e lay m with
    | some ws => .ok ws
    | none => .error .structError
  else .error .structError

def writeFileWordsFx (e : Endian) : List (Layout × Mat) → Except WriteErr (List Nat)
  | [] => .ok []
  | (l, m) :: t => do
    let a ← writeMatWordsFx e l m
    let b ← writeFileWordsFx e t
    pure (a ++ b)

end PyYetiVerif.Op4
