import PyYetiVerif.Model.UsetXyz
import PyYetiVerif.Generated.RigidBodyConsts
/-
Model of `cb.rbmultchk` / `cb._rbmultchk` (cb.py:1508-1857) for property C06, on exact rationals:
which DRM columns are multiplied (`rbmultCols`), the product (`matMulQ`), the scale of the rigid-body modes
(`rbScale2`, squared: `abs(sqrt(rb[:-2,0]² + rb[1:-1,0]² + rb[2:,0]²)).max()`), the call of
`n2p.find_xyz_triples` (C18's model `Xyz.findXyzTriples`, read-only) with the default tolerance, the division of the
triple scales by `rbscale` (squared), the extreme coordinates and the NULL rows of the report.
Core Lean only.
-/
namespace PyYetiVerif.RigidBody
open PyYetiVerif.Xyz PyYetiVerif.Generated

/-- the `bset` argument of `rbmultchk` -/
inductive BsetSpec where
  | first
  | last
  | str (s : String)
  | vec (l : List Nat)

/-- the DRM columns that meet the rigid-body modes (cb.py:1521-1537); `none` = `ValueError` (a string other than
"first" / "last" when the DRM is wider than `rb`) -/
def rbmultCols (cdrm rbr : Nat) (spec : BsetSpec) : Option (List Nat) :=
  if cdrm > rbr then
    match spec with
    | .first => some (List.range rbr)
    | .last => some ((List.range rbr).map (· + (cdrm - rbr)))
    | .str _ => none
    | .vec l => some l
  else some (List.range cdrm)

/-- `drm1 @ rb` -/
def matMulQ (drm rb : List (List Rat)) (cols : List Nat) : List (List Rat) :=
  drm.map fun row => (List.range 6).map fun j =>
    (List.range cols.length).foldl (fun acc k => acc + row.getD (cols.getD k 0) 0 * (rb.getD k []).getD j 0) 0

/-- sums of squares of three consecutive entries -/
def colSq3 : List Rat → List Rat
  | a :: b :: c :: t => (a * a + b * b + c * c) :: colSq3 (b :: c :: t)
  | _ => []

/-- `rbscale ** 2`; `none` = `ValueError` (fewer than three rows: numpy's max of an empty array; or scale 0:
"failed to get scale of rb modes") -/
def rbScale2 (col0 : List Rat) : Option Rat :=
  match colSq3 col0 with
  | [] => none
  | l => let m := l.foldl maxR 0; if m = 0 then none else some m

def toRow (r : List Rat) : Row :=
  (fun i => r.getD i.val 0, fun i => r.getD (i.val + 3) 0)

/-- default `tol` of `find_xyz_triples` (generated from the source) -/
def xyzTol : Rat := (RigidBodyConsts.xyzTolNum : Rat) / (RigidBodyConsts.xyzTolDen : Rat)

/-- `np.any(drm, axis=1)` negated: the NULL rows -/
def nullRowsQ (drm : List (List Rat)) : List Nat :=
  (List.range drm.length).filter fun i => (drm.getD i []).all (· == 0)

structure RbMultOut where
  drmrb : List (List Rat)
  rbscale2 : Rat
  /-- `none` = a comparison of `find_xyz_triples` is too close to call in floating point -/
  trips : Option Xyz.Result
  /-- `(trips.scales / rbscale) ** 2` -/
  unitScale2 : List (Option Rat)
  /-- printed extreme coordinates: `nanmin` / `nanmax` per column, `none` = "no coordinates detected" -/
  extremes : Option ((Rat × Rat × Rat) × (Rat × Rat × Rat))
  nullRows : List Nat

inductive RbMultErr where
  | rbCols      -- "`rb` does not have 6 columns"
  | bsetString  -- invalid `bset` string
  | scale       -- "failed to get scale of rb modes" / empty
  deriving Repr, DecidableEq

def minR (x y : Rat) : Rat := if y < x then y else x

def extremesOf (cs : List (Option (Rat × Rat × Rat))) : Option ((Rat × Rat × Rat) × (Rat × Rat × Rat)) :=
  match cs.filterMap id with
  | [] => none
  | c :: t =>
    some (t.foldl (fun m x => (minR m.1 x.1, minR m.2.1 x.2.1, minR m.2.2 x.2.2)) c,
          t.foldl (fun m x => (maxR m.1 x.1, maxR m.2.1 x.2.1, maxR m.2.2 x.2.2)) c)

/-- `rbmultchk(f, drm, name, rb, bset=spec)`: what is returned and what the report is made of -/
def rbmultchkQ (drm rb : List (List Rat)) (spec : BsetSpec) : Except RbMultErr RbMultOut :=
  if rb.any (fun r => r.length != 6) then .error .rbCols else
  let cdrm := (drm.headD []).length
  match rbmultCols cdrm rb.length spec with
  | none => .error .bsetString
  | some cols =>
    let drmrb := matMulQ drm rb cols
    match rbScale2 (rb.map fun r => r.getD 0 0) with
    | none => .error .scale
    | some s2 =>
      let trips := findXyzTriples xyzTol (drmrb.map toRow)
      let us := match trips with
        | some t => t.scale2.map fun o => o.map (· / s2)
        | none => []
      let ex := match trips with
        | some t => extremesOf t.coords
        | none => none
      .ok { drmrb, rbscale2 := s2, trips, unitScale2 := us, extremes := ex, nullRows := nullRowsQ drm }

end PyYetiVerif.RigidBody
