import PyYetiVerif.Model.Extrema
/-!
# `cla.extrema` with explicit object identity (core Lean only)

`Model/Extrema.lean` is value based: it cannot say whether the accumulator SHARES an array with one
of its inputs.  Here arrays and label lists are cells of a store (`Heap`), a namespace is a record of
references, and every statement of the two-column branch of `cla/_utilities.py:extrema` that binds,
copies or writes is one store operation.  One row, as everywhere in the C16 models.

The copies the code makes (two-column branch):

* labels: `maxcase = r * [maxcase]` (a string) or `maxcase = maxcase[:]` (a list); `mincase` likewise,
  `mincase = maxcase[:]` when it is `None` — always NEW lists, so the labels of the parts are never
  shared;
* first call (`curext.ext is None`): `curext.ext = mm.ext.copy()`,
  `curext.ext_x = copy.copy(mm.ext_x)`, `curext.maxcase = maxcase`, `curext.mincase = mincase`
  (the new lists);
* later calls: element writes into `curext.ext`, `curext.maxcase / mincase` and, in `_put_time`,
  into `curext.ext_x` (a NEW array `np.full(curext.ext.shape, nan)` when the accumulator had none,
  since fix 19ddbb5; NaN when the input has none);
* `form_extreme` / `init_extreme_cat` on top of that: `mx, mn, mx_x, mn_x` are new NaN arrays,
  `srs.ext = copy.deepcopy(oldcat.srs.ext)`, `srs.srs = {}` with new NaN arrays, and
  `_ext[Q] = np.fmax(_ext[Q], S)` rebinds the NEW dictionary's entry to a new array; `drminfo` is
  a shallow copy, `mission` is shared and never written.

`copyX = false` is the aliasing variant `curext.ext_x = mm.ext_x` (the seeded change C16-3): kept
only to show that the frame theorem is about the copies.
-/
namespace PyYetiVerif.ExtremaHeap
open PyYetiVerif.Extrema

/-- the store: `ext` arrays (one row: `[max, min]`), `ext_x` arrays, label lists (one row: one
label); a reference is an index -/
structure Heap (α X L : Type) where
  vals : List (Option α × Option α)
  xs : List (X × X)
  labs : List L
deriving Repr, DecidableEq

/-- the `mm` argument: `mm.ext`, `mm.ext_x` (`none` = `None`) -/
structure MmRef where
  ext : Nat
  extx : Option Nat
deriving Repr, DecidableEq

/-- a label argument: a string, or a reference to a list -/
inductive LabArg (L : Type) where
  | str (s : L)
  | list (r : Nat)
deriving Repr, DecidableEq

/-- the accumulator's members once `ext` is set -/
structure CatRef where
  ext : Nat
  extx : Option Nat
  maxcase : Nat
  mincase : Nat
deriving Repr, DecidableEq

variable {α X L : Type}

def allocV (h : Heap α X L) (v : Option α × Option α) : Heap α X L × Nat :=
  ({ h with vals := h.vals ++ [v] }, h.vals.length)
def allocX (h : Heap α X L) (v : X × X) : Heap α X L × Nat :=
  ({ h with xs := h.xs ++ [v] }, h.xs.length)
def allocL (h : Heap α X L) (v : L) : Heap α X L × Nat :=
  ({ h with labs := h.labs ++ [v] }, h.labs.length)
def writeV (h : Heap α X L) (r : Nat) (v : Option α × Option α) : Heap α X L :=
  { h with vals := h.vals.set r v }
def writeX (h : Heap α X L) (r : Nat) (v : X × X) : Heap α X L := { h with xs := h.xs.set r v }
def writeL (h : Heap α X L) (r : Nat) (v : L) : Heap α X L := { h with labs := h.labs.set r v }

def readLab (h : Heap α X L) : LabArg L → Option L
  | .str s => some s
  | .list r => h.labs[r]?

/-- replace column `col` (0 = max, 1 = min) of a pair -/
def setCol {β : Type} (p : β × β) (col : Nat) (v : β) : β × β := if col == 0 then (v, p.2) else (p.1, v)
def getCol {β : Type} (p : β × β) (col : Nat) : β := if col == 0 then p.1 else p.2

/-- `_put_time(curext, mm, j, col, col)` for a row in `j` -/
def putTime (nanX : X) (h : Heap α X L) (c : CatRef) (mm : MmRef) (col : Nat) :
    Option (Heap α X L × CatRef) :=
  match mm.extx, c.extx with
  | some rx, none => do
    -- the extrema found so far have no abscissae: a NEW all-NaN array, then the row takes `mm`'s
    -- abscissa in this column only (fix 19ddbb5, finding F57; before: a copy of `mm`'s whole array)
    let xv ← h.xs[rx]?
    let (h, r) := allocX h (setCol (nanX, nanX) col (getCol xv col))
    pure (h, { c with extx := some r })
  | some rx, some cx => do
    let xv ← h.xs[rx]?
    let cv ← h.xs[cx]?
    pure (writeX h cx (setCol cv col (getCol xv col)), c)
  | none, some cx => do
    let cv ← h.xs[cx]?
    pure (writeX h cx (setCol cv col nanX), c)
  | none, none => pure (h, c)

section step
variable [LT α] [DecidableLT α]

/-- one column of a later call: compare, then label, value and abscissa are overwritten -/
def updCol (nanX : X) (better : α → α → Bool) (h : Heap α X L) (c : CatRef) (mm : MmRef)
    (col : Nat) (lab : L) : Option (Heap α X L × CatRef) := do
  let cv ← h.vals[c.ext]?
  let mv ← h.vals[mm.ext]?
  if nanRepl better (getCol cv col) (getCol mv col) then
    let h := writeL h (if col == 0 then c.maxcase else c.mincase) lab
    let h := writeV h c.ext (setCol cv col (getCol mv col))
    putTime nanX h c mm col
  else pure (h, c)

/-- the first call (`curext.ext is None`): copies of `mm.ext`, `mm.ext_x` and the two new label
lists are bound to the accumulator -/
def firstCall (copyX : Bool) (h : Heap α X L) (mm : MmRef) (lmax lmin : L) :
    Option (Heap α X L × CatRef) :=
  match h.vals[mm.ext]? with
  | none => none
  | some mv =>
    let h1 := (allocV h mv).1
    let e := (allocV h mv).2
    let hx : Option (Heap α X L × Option Nat) :=
      match mm.extx with
      | none => some (h1, none)
      | some rx =>
        if copyX then
          match h1.xs[rx]? with
          | none => none
          | some xv => some ((allocX h1 xv).1, some (allocX h1 xv).2)
        else some (h1, some rx)
    match hx with
    | none => none
    | some (h2, ex) =>
      let h3 := (allocL h2 lmax).1
      some ((allocL h3 lmin).1, ⟨e, ex, (allocL h2 lmax).2, (allocL h3 lmin).2⟩)

/-- `mincase`: `maxcase[:]` when `None` -/
def readMin (h : Heap α X L) (lmax : L) : Option (LabArg L) → Option L
  | none => some lmax
  | some a => readLab h a

/-- `extrema(curext, mm, maxcase, mincase)`, two-column `mm`, one row; `cur = none` is
`curext.ext is None`; `none` = a dangling reference -/
def step (copyX : Bool) (nanX : X) (h : Heap α X L) (cur : Option CatRef) (mm : MmRef)
    (maxcase : LabArg L) (mincase : Option (LabArg L)) : Option (Heap α X L × CatRef) :=
  match readLab h maxcase with
  | none => none
  | some lmax =>
    match readMin h lmax mincase with
    | none => none
    | some lmin =>
      match cur with
      | none => firstCall copyX h mm lmax lmin
      | some c =>
        match updCol nanX gtB h c mm 0 lmax with
        | none => none
        | some (h1, c1) => updCol nanX ltB h1 c1 mm 1 lmin

/-- a history of calls into one accumulator that starts empty (`form_extreme` over the parts) -/
def run (copyX : Bool) (nanX : X) (h : Heap α X L) :
    Option CatRef → List (MmRef × LabArg L × Option (LabArg L)) → Option (Heap α X L × Option CatRef)
  | cur, [] => some (h, cur)
  | cur, (mm, a, b) :: rest =>
    match step copyX nanX h cur mm a b with
    | none => none
    | some (h', c) => run copyX nanX h' (some c) rest

end step

/-- what the accumulator holds, read back from the store -/
def readCat (h : Heap α X L) (c : CatRef) (nox : X) : Option (Cur α X L) := do
  let v ← h.vals[c.ext]?
  let x ← match c.extx with
    | none => pure (nox, nox)
    | some r => h.xs[r]?
  let a ← h.labs[c.maxcase]?
  let b ← h.labs[c.mincase]?
  pure ⟨⟨v.1, x.1, a⟩, ⟨v.2, x.2, b⟩⟩

end PyYetiVerif.ExtremaHeap
