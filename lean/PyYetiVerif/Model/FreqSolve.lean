import PyYetiVerif.Model.Freq
import PyYetiVerif.Model.FreqGauss
/-!
# Composition of the frequency-domain solvers (C02) — core Lean only

What `SolveUnc.__init__` / `FreqDirect.__init__` / `fsolve` / `solvepsd` do *around* the formulas of
`Model/Freq.lean`, written as plain list functions so that it can be reasoned about
(`Props/C02c.lean`) and executed by the driver (`Drivers/C02.lean`) — the same definitions.

* index vectors: `gather` (`x[idx]`, `none` = `IndexError`), `scatter` (`x[idx] = vals`, a chain of
  list updates), `positionsFrom` (`np.nonzero(mask[l])[0]`), `maskNonzero`, `sortAsc` (`np.sort`);
* `mkLayout` — `_common_precalcs` + `_make_rb_el`: `nonrf`, `rb`, `el`, `_rb`, `_el`;
* `SuState`, `suInit` — the *stateful* part of the `SolveUnc` constructor: which full-size equation
  stands behind each row of `self.m / self.b / self.k`, `kdof`, the current `_rb`, `_el`, and the
  equations whose mass went into `imrb` / `invm`.  `get_su_eig` shrinks `m, b, k, kdof` to the
  elastic set, renumbers `_el` and empties `_rb`;
* `rbMassRows`, `rbDampRows`, `elRows` — the rows `_solve_freq_rb` / `_solve_freq_unc` /
  `_solve_freq_coup` address (`invm[_rb]` or `imrb`; `b[_rb]` or `brb`; `b[_el]`, `k[_el]`, `m[_el]`;
  `invm`), paired by position with `force[rb]`, `force[el]`, `force[kdof]`;
* `colSU`, `colFD` — one frequency column of `fsolve`: block solutions scattered into the full
  zero-initialised `d, v, a` (`_alloc_dva`) in the order of the source (rf, rb, el);
* `fsolveSU`, `fsolveFD`, `solvePsdCase` — all columns, `pre_eig` transforms, `solvepsd` with the
  uncertainty factors `rbduf`, `elduf`.
-/
namespace PyYetiVerif.Freq

/-! ### index vectors -/

/-- `x[idx] = vals`: the rows are written one after the other -/
def scatter {β : Type} (base : List β) : List Nat → List β → List β
  | r :: idx, v :: vals => scatter (base.set r v) idx vals
  | _, _ => base

/-- `x[idx]`; `none` = `IndexError` -/
def gather {β : Type} (x : List β) (idx : List Nat) : Option (List β) := idx.mapM fun p => x[p]?

/-- `s + np.nonzero([P(x) for x in l])[0]` -/
def positionsFrom (P : Nat → Bool) : Nat → List Nat → List Nat
  | _, [] => []
  | s, x :: xs => if P x then s :: positionsFrom P (s + 1) xs else positionsFrom P (s + 1) xs

/-- `mask = np.zeros(n, bool); mask[idx] = True; np.nonzero(mask)[0]` -/
def maskNonzero (n : Nat) (idx : List Nat) : List Nat := (List.range n).filter fun j => idx.contains j

def insertAsc (x : Nat) : List Nat → List Nat
  | [] => [x]
  | y :: ys => if x ≤ y then x :: y :: ys else y :: insertAsc x ys

/-- `np.sort` of an index vector -/
def sortAsc : List Nat → List Nat
  | [] => []
  | x :: xs => insertAsc x (sortAsc xs)

/-- `x[rows] = f(x[rows])` in place, row by row (`d[self.rb] = 0`) -/
def modifyRows {β : Type} (f : β → β) (s : List β) : List Nat → List β
  | [] => s
  | r :: rs => modifyRows f (match s[r]? with | some x => s.set r (f x) | none => s) rs

/-! ### `_common_precalcs` / `_make_rb_el` -/

structure Layout where
  n : Nat
  /-- `self.rf` in the order given -/
  rf : List Nat
  nonrf : List Nat
  /-- `self.rb`, full size, ascending -/
  rb : List Nat
  /-- `self.el`, full size -/
  el : List Nat
  /-- `self._rb`: positions inside `nonrf` -/
  rb_ : List Nat
  /-- `self._el`: positions inside `nonrf` -/
  el_ : List Nat
deriving DecidableEq, Repr

/-- `rbUser = none`: automatic detection, `autoRb j` = "equation `j` has no stiffness / damping"
evaluated on the non-rf partition; `some u`: the user's index vector (sorted by the repaired
code). -/
def mkLayout (n : Nat) (rf : List Nat) (rbUser : Option (List Nat)) (autoRb : Nat → Bool) :
    Option Layout :=
  let nonrf := (List.range n).filter fun j => !rf.contains j
  let rbPair : Option (List Nat × List Nat) :=
    match rbUser with
    | none =>
      let rb_ := positionsFrom autoRb 0 nonrf
      (gather nonrf rb_).map fun g => (maskNonzero n g, rb_)
    | some u =>
      let rb := sortAsc u
      some (rb, positionsFrom (fun j => rb.contains j) 0 nonrf)
  match rbPair with
  | none => none
  | some (rb, rb_) =>
    let el_ := (List.range nonrf.length).filter fun p => !rb_.contains p
    (gather nonrf el_).map fun g => ⟨n, rf, nonrf, rb, maskNonzero n g, rb_, el_⟩

/-! ### the `SolveUnc` constructor as explicit state -/

structure SuState where
  lay : Layout
  /-- full-size equation behind each row of `self.m`, `self.b`, `self.k` -/
  mRows : List Nat
  kdof : List Nat
  /-- current `self._rb` -/
  rb_ : List Nat
  /-- current `self._el` -/
  el_ : List Nat
  /-- equations whose mass was decomposed into `self.imrb` -/
  imrb : Option (List Nat)
  /-- equations behind the rows of `self.invm` -/
  invm : Option (List Nat)
deriving DecidableEq, Repr

/-- `SolveUnc.__init__` after `_common_precalcs`: `eigPath` = coupled or complex (`get_su_eig`),
otherwise `_inv_m` + `get_su_coef`. -/
def suInit (lay : Layout) (eigPath mNone : Bool) : Option SuState :=
  let m0 := lay.nonrf
  if lay.nonrf.isEmpty then
    some ⟨lay, m0, lay.nonrf, lay.rb_, lay.el_, none, none⟩
  else if !eigPath then
    some ⟨lay, m0, lay.nonrf, lay.rb_, lay.el_, none, if mNone then none else some m0⟩
  else
    -- `_inv_mrb`: `self.m[self._rb]` / `self.m[np.ix_(self._rb, self._rb)]`
    let imrb : Option (Option (List Nat)) :=
      if !mNone && !lay.rb.isEmpty && !lay.rb_.isEmpty then (gather m0 lay.rb_).map some else some none
    match imrb, gather m0 lay.el_, gather lay.nonrf lay.el_ with
    | some im, some m1, some kd =>
      some ⟨lay, m1, kd, [], List.range kd.length, im,
        if !lay.el.isEmpty && !mNone then some m1 else none⟩
    | _, _, _ => none

/-- the mass rows `_solve_freq_rb` pairs with `force[rb]`: `invm[self._rb]` (real uncoupled) or
`imrb` -/
def rbMassRows (st : SuState) (uncReal : Bool) : Option (List Nat) :=
  if uncReal then
    match st.invm with
    | some iv => gather iv st.rb_
    | none => none
  else st.imrb

/-- the rows of `b` that `_solve_freq_rb` reads the rigid-body damping from on the uncoupled path
(repaired code): real coefficients `self.b[self._rb]` (current `b`, current `_rb`); complex
coefficients `self.brb`, which `get_su_eig` took as `self.b[self._rb]` *before* it reduced `b` to the
elastic modes and emptied `_rb` — the rows `nonrf[_rb]` of the layout. -/
def rbDampRows (st : SuState) (uncReal : Bool) : Option (List Nat) :=
  if uncReal then gather st.mRows st.rb_ else gather st.lay.nonrf st.lay.rb_

/-- the rows of `b`, `k`, `m` that `_solve_freq_unc` pairs with `force[el]`: `self.b[_el]` … -/
def elRows (st : SuState) : Option (List Nat) := gather st.mRows st.el_

/-! ### one frequency column -/

section col
variable {α : Type} [Add α] [Sub α] [Mul α] [Div α] [Neg α] [Zero α] [One α]

structure ColEnv (α : Type) where
  i : α
  isZero : α → Bool
  absLt : α → α → Bool
  M : Nat → Nat → α
  B : Nat → Nat → α
  K : Nat → Nat → α
  mNone : Bool
  unc : Bool
  inc : Incrb
  dispOnly : Bool

def ofOpt {β : Type} (msg : String) : Option β → Except String β
  | some x => .ok x
  | none => .error msg

/-- `la.solve` / `lu_solve` on the rows `mr`, columns `mr` of `A` against `F[rows]` -/
def solveIdx (e : ColEnv α) (A : Nat → Nat → α) (mr rows : List Nat) (F : Nat → α) :
    Except String (List α) :=
  if mr.length != rows.length then .error "value-error"
  else ofOpt "singular" (gaussList e.isZero e.absLt rows.length
    ((mr.zip rows).map fun p => (mr.map (A p.1), F p.2)))

/-- `_init_dva`: `d[rf] = ikrf * force[rf]` (uncoupled: `ikrf = 1/krf`) or
`lu_solve(ikrf, force[rf])`, then `a[rf]`, `v[rf]` unless `rf_disp_only` -/
def rfVals (e : ColEnv α) (rf : List Nat) (F : Nat → α) (w : α) : Except String (List (Dva α)) :=
  if e.unc then .ok (rf.map fun r => rfFreq e.i ((1 / e.K r r) * F r) w e.dispOnly)
  else (solveIdx e e.K rf rf F).map fun drf => drf.map fun x => rfFreq e.i x w e.dispOnly

/-- `_solve_freq_rb`: `a_rb` -/
def rbAcc (e : ColEnv α) (massRows : Option (List Nat)) (rb : List Nat) (F : Nat → α) :
    Except String (List α) :=
  if e.mNone then .ok (rb.map F)
  else match massRows with
    | none => .error "attribute-error"
    | some mr =>
      if e.unc then
        if mr.length != rb.length then .error "value-error"
        else .ok ((mr.zip rb).map fun p => (1 / e.M p.1 p.1) * F p.2)
      else solveIdx e e.M mr rb F

/-- `im` of `_solve_freq_rb`: `1.0` (`m = None`), `np.ravel(self.invm[self._rb])` or
`np.ravel(self.imrb)` — the reciprocal masses on the rows `mr` -/
def rbIm (e : ColEnv α) (br : List Nat) (mr : Option (List Nat)) : Except String (List α) :=
  if e.mNone then .ok (br.map fun _ => 1)
  else match mr with
    | none => .error "attribute-error"
    | some mr => .ok (mr.map fun r => 1 / e.M r r)

/-- `_solve_freq_rb`, the `if unc:` block of the repaired code: with `b_rb` the damping of the
rigid-body equations (`bRows`), `if np.any(b_rb):` every acceleration is divided by
`1 - 1j * (b_rb * im) / freqw` at the non-zero frequencies; nothing happens on the coupled path. -/
def rbDamp (e : ColEnv α) (bRows mr : Option (List Nat)) (arb : List α) (w : α) :
    Except String (List α) :=
  if !e.unc then .ok arb
  else match bRows with
    | none => .error "index-error"
    | some br =>
      if br.all fun r => e.isZero (e.B r r) then .ok arb
      else match rbIm e br mr with
        | .error m => .error m
        | .ok im =>
          if im.length != br.length || br.length != arb.length then .error "value-error"
          else .ok (List.zipWith (fun a bim => rbDampAcc e.isZero e.i a bim w) arb
            (List.zipWith (fun r x => e.B r r * x) br im))

/-- the damping `_solve_freq_rb` solves the rigid-body block with: the diagonal of `b` on the
uncoupled path, none on the coupled path.  (Coupled systems: the automatic detection makes a mode
rigid-body only if its whole row and column of `k` *and* `b` are below 0.005, so there is no damping
to use; a user-given `rb` on a coupled system with damping on those modes is solved without it.) -/
def ColEnv.rbDamping (e : ColEnv α) : Nat → Nat → α := fun r c => if e.unc then e.B r c else 0

/-- `_solve_freq_unc`, elastic part -/
def elValsUnc (e : ColEnv α) (rows el : List Nat) (F : Nat → α) (w : α) :
    Except String (List (Dva α)) :=
  if rows.length != el.length then .error "value-error"
  else .ok ((rows.zip el).map fun p =>
    frfUnc e.i (if e.mNone then 1 else e.M p.1 p.1) (e.B p.1 p.1) (e.K p.1 p.1) (F p.2) w)

/-- `a[kdof] = d[kdof] * -(freqw2)`, `v[kdof] = d[kdof] * (1j * freqw)` -/
def dvaOfDisp (i w : α) (d : α) : Dva α := ⟨d, d * (i * w), d * -(w * w)⟩

/-- `a[kdof] = -(Omega**2) * d[kdof]`, `v[kdof] = 1j * Omega * d[kdof]` (`FreqDirect`) -/
def dvaOfDispFD (i w : α) (d : α) : Dva α := ⟨d, (i * w) * d, -(w * w) * d⟩

/-- `_solve_freq_coup`, elastic part; `eig = (lam, ur_d, ur_inv_v)` as functions -/
def elValsCoup (e : ColEnv α) (mRows kdof : List Nat) {s : Nat}
    (lam : Fin s → α) (urd : Fin kdof.length → Fin s → α) (urinvv : Fin s → Fin kdof.length → α)
    (F : Nat → α) (w : α) : Except String (List (Dva α)) :=
  let imfE : Except String (List α) :=
    if e.mNone then .ok (kdof.map F) else solveIdx e e.M mRows kdof F
  match imfE with
  | .error m => .error m
  | .ok imf =>
    if h : imf.length = kdof.length then
      .ok ((List.ofFn (frfCoupled e.i w lam urd urinvv fun q => imf[q.val]'(by rw [h]; exact q.isLt))).map
        (dvaOfDisp e.i w))
    else .error "value-error"

/-- the zero-initialised `d, v, a` with the three blocks written in the order of the source -/
def assemble (n : Nat) (rf : List Nat) (vrf : List (Dva α)) (rb : List Nat) (vrb : List (Dva α))
    (el : List Nat) (vel : List (Dva α)) : List (Dva α) :=
  scatter (scatter (scatter (List.replicate n zeroDva) rf vrf) rb vrb) el vel

/-- the equation the assembled column is claimed to satisfy (`Props/C02c.lean`): the full-size
matrix that is block diagonal by partition — `iΩ Brb − Ω² M` on the rigid-body block (`Brb` = the
damping the rigid-body block is solved with, `ColEnv.rbDamping`), the dynamic stiffness on the
elastic block, `K` on the residual-flexibility block, zero between partitions -/
def partStiff (i w : α) (M Brb B K : Nat → Nat → α) (rb el rf : List Nat) (r c : Nat) : α :=
  if rb.contains r && rb.contains c then i * Brb r c * w - M r c * (w * w)
  else if el.contains r && el.contains c then i * B r c * w + K r c - M r c * (w * w)
  else if rf.contains r && rf.contains c then K r c
  else 0

/-- row `r` of "block of `A` on `idx` times the block values `xs`" (`xs[q]` belongs to equation
`idx[q]`): what `A[np.ix_(idx, idx)] @ xs` is at that row -/
def blockSum (A : Nat → Nat → α) (idx : List Nat) (xs : List α) (r : Nat) : α :=
  ((idx.zip xs).map fun cx => A r cx.1 * cx.2).sum

/-- row `c` of an assembled column (`zeroDva` outside the list: never used for `c < n`) -/
def optRow : Option (Dva α) → Dva α
  | some x => x
  | none => zeroDva

def rowOf (sol : List (Dva α)) (c : Nat) : Dva α := optRow sol[c]?

/-- the reference options `incrb = "dva"`, `rf_disp_only = False` (`Props/C02i.lean`) -/
def ColEnv.ref (e : ColEnv α) : ColEnv α := { e with inc := Incrb.all, dispOnly := false }

/-- what `incrb` / `rf_disp_only` are claimed to do to row `r` of the reference column: the excluded
letters cleared on a rigid-body row, `v`, `a` cleared on a residual-flexibility row iff
`rf_disp_only`, nothing on any other row -/
def optionRow (inc : Incrb) (dispOnly : Bool) (rb rf : List Nat) (r : Nat) (x : Dva α) : Dva α :=
  if rb.contains r then applyIncrb inc x
  else if rf.contains r && dispOnly then ⟨x.d, 0, 0⟩ else x

/-- eigen data of the coupled path, as delivered by the implementation's `pc` -/
structure EigData (α : Type) (ks : Nat) where
  s : Nat
  lam : Fin s → α
  urd : Fin ks → Fin s → α
  urinvv : Fin s → Fin ks → α

/-- `_solve_freq_rb`: `a_rb` after the damping of the rigid-body modes was applied -/
def rbAccD (e : ColEnv α) (st : SuState) (uncReal : Bool) (F : Nat → α) (w : α) :
    Except String (List α) :=
  match rbAcc e (rbMassRows st uncReal) st.lay.rb F with
  | .error m => .error m
  | .ok arb => rbDamp e (rbDampRows st uncReal) (rbMassRows st uncReal) arb w

/-- `_solve_freq_rb`: the rigid-body block values (`if self.rbsize and incrb:` — otherwise nothing
is written) -/
def rbVals (e : ColEnv α) (st : SuState) (uncReal : Bool) (F : Nat → α) (w : α) :
    Except String (List (Dva α)) :=
  if st.lay.rb.isEmpty || !(e.inc.d || e.inc.v || e.inc.a) then .ok []
  else (rbAccD e st uncReal F w).map fun arb =>
    arb.map fun a => frfRb e.isZero e.i a w e.inc

/-- the elastic block of `SolveUnc.fsolve`: the rows written and their values.
Uncoupled (`if self.elsize:`): `d[el] = force[el] / (…b[_el]… k[_el] … m[_el])`;
coupled (`if self.ksize:`): `d[kdof] = pc.ur_d @ (w / H)`. -/
def elValsSU (e : ColEnv α) (st : SuState) (eig : Option (EigData α st.kdof.length))
    (F : Nat → α) (w : α) : Except String (List Nat × List (Dva α)) :=
  if e.unc then
    if st.lay.el.isEmpty then .ok (st.lay.el, [])
    else match elRows st with
      | none => .error "index-error"
      | some rows => (elValsUnc e rows st.lay.el F w).map fun v => (st.lay.el, v)
  else
    if st.kdof.isEmpty then .ok ([], [])
    else match eig with
      | none => .error "missing-eig"
      | some ed =>
        (elValsCoup e st.mRows st.kdof ed.lam ed.urd ed.urinvv F w).map fun v => (st.kdof, v)

/-- one column of `SolveUnc.fsolve` (modal coordinates) -/
def colSU (e : ColEnv α) (st : SuState) (uncReal : Bool) (eig : Option (EigData α st.kdof.length))
    (F : Nat → α) (w : α) : Except String (List (Dva α)) :=
  match rfVals e st.lay.rf F w with
  | .error m => .error m
  | .ok vrf =>
    match rbVals e st uncReal F w with
    | .error m => .error m
    | .ok vrb =>
      match elValsSU e st eig F w with
      | .error m => .error m
      | .ok (rows, vel) => .ok (assemble st.lay.n st.lay.rf vrf st.lay.rb vrb rows vel)

/-- `FreqDirect.fsolve`, the `kdof` (= non-rf) block -/
def fdVals (e : ColEnv α) (nonrf : List Nat) (F : Nat → α) (w : α) : Except String (List (Dva α)) :=
  if e.unc then
    .ok (nonrf.map fun r =>
      frfDir e.i (if e.mNone then 1 else e.M r r) (e.B r r) (e.K r r) (F r) w)
  else
    (solveIdx e (fun r c => e.i * e.B r c * w + e.K r c
        - (if e.mNone then (if r = c then 1 else 0) else e.M r c) * (w * w)) nonrf nonrf F).map
      fun d => d.map (dvaOfDispFD e.i w)

/-- one column of `FreqDirect.fsolve` -/
def colFD (e : ColEnv α) (lay : Layout) (F : Nat → α) (w : α) : Except String (List (Dva α)) :=
  match rfVals e lay.rf F w with
  | .error m => .error m
  | .ok vrf =>
    let s1 := scatter (List.replicate lay.n zeroDva) lay.rf vrf
    if lay.nonrf.isEmpty then .ok s1
    else match fdVals e lay.nonrf F w with
      | .error m => .error m
      | .ok vk => .ok (modifyRows (applyIncrb e.inc) (scatter s1 lay.nonrf vk) lay.rb)

end col

/-! ### whole problems (driver level) -/

section exec
variable {α : Type} [Add α] [Sub α] [Mul α] [Div α] [Neg α] [Zero α] [One α] [Inhabited α]

/-- automatic rigid-body detection of `_make_rb_el` (`tol = 0.005`) on the non-rf partition -/
def Case.autoRb (ops : Ops α) (c : Case α) : Nat → Bool :=
  let nonrf := c.nonrf
  let unc := c.unc ops
  let small (x : α) : Bool := ops.mag x < 0.005
  fun j =>
    if unc then small (c.K.get j j)
    else nonrf.all fun r =>
      small (c.K.get r j) && small (c.K.get j r) && small (c.B.get r j) && small (c.B.get j r)

def Case.layout (ops : Ops α) (c : Case α) : Except String Layout :=
  ofOpt "index-error" (mkLayout c.n c.rf.toList (c.rb.map Array.toList) (c.autoRb ops))

def Case.env (ops : Ops α) (absLt : α → α → Bool) (c : Case α) : ColEnv α :=
  { i := ops.i, isZero := ops.isZero, absLt := absLt,
    M := fun r cc => c.M.get r cc, B := fun r cc => c.B.get r cc, K := fun r cc => c.K.get r cc,
    mNone := c.mNone, unc := c.unc ops, inc := c.inc, dispOnly := c.dispOnly }

/-- columns (one list of rows per frequency) to `Sol` (rows × frequencies) -/
def solOfCols (n nf : Nat) (cols : List (List (Dva α))) : Sol α :=
  (Array.range n).map fun r => (Array.range nf).map fun j =>
    match cols[j]? with
    | some col => match col[r]? with | some x => x | none => zeroDva
    | none => zeroDva

def eigOfCase (c : Case α) (ks : Nat) : Option (EigData α ks) :=
  match c.eig with
  | none => none
  | some (lam, urd, urinvv) =>
    some ⟨lam.size, fnOfVec lam, fnOfMat urd, fnOfMat urinvv⟩

/-- `SolveUnc(m, b, k, rb=, rf=, pre_eig=).fsolve(F, freq, incrb, rf_disp_only)`; also returns the
layout (`fs.rb`, `fs.el` are used by `solvepsd`) -/
def fsolveSU (ops : Ops α) (absLt : α → α → Bool) (c : Case α) : Except String (Sol α × Layout) := do
  let n := c.n
  let nf := c.freq.size
  let lay ← c.layout ops
  let unc := c.unc ops
  let eigPath := !unc || c.cplx
  let st ← ofOpt "index-error" (suInit lay eigPath c.mNone)
  if c.F.size != n then throw "value-error"
  if c.F.any fun row => row.size != nf then throw "value-error"
  let F := match c.phi with
    | some P => matTMul n nf P c.F
    | none => c.F
  let env := c.env ops absLt
  let eig := eigOfCase c st.kdof.length
  let cols ← (List.range nf).mapM fun j =>
    colSU env st (unc && !c.cplx) eig (fun r => F.get r j) (ops.twoPi * c.freq[j]!)
  return (backTransform n nf c.phi (solOfCols n nf cols), lay)

/-- `FreqDirect(m, b, k, rb=, rf=).fsolve(F, freq, incrb, rf_disp_only)` -/
def fsolveFD (ops : Ops α) (absLt : α → α → Bool) (c : Case α) : Except String (Sol α × Layout) := do
  let n := c.n
  let nf := c.freq.size
  let lay ← c.layout ops
  if c.F.size != n then throw "value-error"
  if !lay.nonrf.isEmpty && c.F.any (fun row => row.size != nf) then throw "value-error"
  let env := c.env ops absLt
  let cols ← (List.range nf).mapM fun j =>
    colFD env lay (fun r => c.F.get r j) (ops.twoPi * c.freq[j]!)
  return (solOfCols n nf cols, lay)

/-- `x *= u` on one row of `d, v, a` -/
def scaleDva (u : α) (x : Dva α) : Dva α := ⟨x.d * u, x.v * u, x.a * u⟩

/-- `sol.a[fs.rb] *= rbduf` … `sol.d[fs.el] *= elduf` (each only `if … != 1.0`) -/
def applyUf (isOne : α → Bool) (rbduf elduf : α) (rb el : List Nat) (col : List (Dva α)) :
    List (Dva α) :=
  let c1 := if isOne rbduf then col else modifyRows (scaleDva rbduf) col rb
  if isOne elduf then c1 else modifyRows (scaleDva elduf) c1 el

/-- `solvepsd(fs, forcepsd, t_frc, freq, [[drma, drmv, drmd, drmf]], rbduf, elduf, incrb=,
rf_disp_only=)`: returns the response PSD (rows × freq) and the RMS per row. -/
def solvePsdCase (normSq : α → Float) (isOne : α → Bool)
    (solver : Case α → Except String (Sol α × Layout)) (c : Case α)
    (freqR : Array Float) (p : Nat) (tfrc : Mat α) (fpsd : Array (Array Float)) (q : Nat)
    (ra rv rd rff : Option (Mat α)) (rbduf elduf : α) :
    Except String (Array (Array Float) × Array Float) := do
  let n := c.n
  let nf := freqR.size
  let mut sols : Array (List (List (Dva α))) := #[]
  for i in [0:p] do
    -- `genforce = t_frc[:, i:i+1] @ unitforce`
    let F : Mat α := (Array.range n).map fun r => (Array.range nf).map fun _ => tfrc.get r i * 1
    let (s, lay) ← solver { c with F := F }
    -- per frequency column, rows scaled by the uncertainty factors
    let cols : List (List (Dva α)) := (List.range nf).map fun j =>
      applyUf isOne rbduf elduf lay.rb lay.el ((List.range n).map fun r => (s[r]!)[j]!)
    sols := sols.push cols
  let row (m : Option (Mat α)) (r : Nat) : Fin n → α := match m with
    | some A => fun cc => A.get r cc.val
    | none => fun _ => 0
  let psd : Array (Array Float) := (Array.range q).map fun r => (Array.range nf).map fun j =>
    respPsd (p := p) (fun i => (fpsd[i.val]!)[j]!) fun i =>
      let col : List (Dva α) := (sols[i.val]!)[j]!
      normSq (frfRec (row ra r) (row rv r) (row rd r)
        (match rff with | some A => A.get r i.val * 1 | none => 0)
        (fun cc => (col[cc.val]!).d) (fun cc => (col[cc.val]!).v)
        (fun cc => (col[cc.val]!).a))
  let rms : Array Float := psd.map fun y => Float.sqrt (trapz2 freqR.toList y.toList / 2)
  return (psd, rms)

end exec

end PyYetiVerif.Freq
