/-
Model of the partition bookkeeping of pyyeti's time-domain solvers (C01), core Lean only.

Sources transcribed (pyyeti/ode/_base_ode_class.py, solveunc.py):
  _common_precalcs : `nonrf = nonzero(ones(n) with rf cleared)`, `kdof = nonrf`
  _make_rb_el      : `_rb` (relative to the non-rf part), `rb`, `_el`, `el`
  _mk_slice(s)     : `mkSlice`, `slicesFlag`
  _make_rb_el, rb is None : `smallUnc` (`abs(k) < tol`), `smallCoupled` (row and column maxima of
                     `abs(k)` and `abs(b)` below `tol`), `listMax` (`ndarray.max`)
  SolveUnc.__init__: `get_su_coef(self.m, self.b, self.k, h, self._rb)` — the vectors are the
                     NON-RF partitions and `self._rb` is relative to that partition: `coefRb`
                     records exactly what is passed (Props/C01 `partition_ok` shows it selects
                     exactly the rigid-body modes; before the repair `self.rb` was passed).
Index vectors are `List Nat`; membership in a user-supplied vector is `List.contains`.
-/
namespace PyYetiVerif.SuPartition

/-- `nonrf[rf] = False; nonrf = nonzero(nonrf)` -/
def nonrf (n : Nat) (rf : List Nat) : List Nat :=
  (List.range n).filter fun i => !rf.contains i

/-- positions (relative to `nr`) whose global index satisfies `p` :
`np.nonzero(vec[self.nonrf])[0]` -/
def relWhere (nr : List Nat) (p : Nat → Bool) : List Nat :=
  nr.zipIdx.filterMap fun (g, i) => if p g then some i else none

/-- `x[pv]` for an index vector -/
def take (x : List Nat) (pv : List Nat) : List Nat := pv.filterMap fun i => x[i]?

/-- insertion into an ascending list -/
def insertSorted (a : Nat) : List Nat → List Nat
  | [] => [a]
  | b :: r => if a ≤ b then a :: b :: r else b :: insertSorted a r

/-- `np.sort` of an index vector (duplicates kept) -/
def sortNat (l : List Nat) : List Nat := l.foldr insertSorted []

structure Part where
  nonrf : List Nat
  rf    : List Nat
  rb    : List Nat   -- relative to the full size
  el    : List Nat   -- relative to the full size
  rb'   : List Nat   -- `_rb`, relative to the non-rf part
  el'   : List Nat   -- `_el`, relative to the non-rf part
  deriving Repr, DecidableEq

/-- `_make_rb_el`.  `rb = none`: auto-detection, `small i` says whether position `i` of the
non-rf stiffness passes `abs(k) < 0.005`; `rb = some l`: the user's index vector, sorted
ascending (`np.sort`, after the repair 6524aad: `rb` and `_rb` then list the modes in the same
order; `[]` included). -/
def mkPart (n : Nat) (rb : Option (List Nat)) (rf : List Nat) (small : Nat → Bool) : Part :=
  let nr := nonrf n rf
  let rb' : List Nat := match rb with
    | none => (List.range nr.length).filter small
    | some l => relWhere nr l.contains
  let rbFull : List Nat := match rb with
    | none => (List.range n).filter (take nr rb').contains
    | some l => sortNat l
  let el' := (List.range nr.length).filter fun i => !rb'.contains i
  let el := (List.range n).filter (take nr el').contains
  { nonrf := nr, rf := rf, rb := rbFull, el := el, rb' := rb', el' := el' }

/-- the `rbmodes` argument that `SolveUnc.__init__` hands to `get_su_coef` together with the
non-rf partitions of `m, b, k` -/
def coefRb (p : Part) : List Nat := p.rb'

/-- `pvrb[rbmodes] = 1` on a vector of length `len`: `none` = IndexError -/
def pvrbOf (len : Nat) (rbmodes : List Nat) : Option (List Bool) :=
  if rbmodes.all (· < len) then some ((List.range len).map rbmodes.contains) else none

/-- `np.all(np.diff(pv) == 1)` -/
def consecutive : List Nat → Bool
  | [] => true
  | [_] => true
  | a :: b :: r => (b == a + 1) && consecutive (b :: r)

/-- `_mk_slice`: `some (start, stop)` or `none` (= ValueError) -/
def mkSlice (pv : List Nat) : Option (Nat × Nat) :=
  match pv with
  | [] => some (0, 0)
  | a :: _ => if consecutive pv then some (a, a + pv.length) else none

/-- `_mk_slices`: `slices = True` iff every partition vector converts -/
def slicesFlag (p : Part) : Bool :=
  [p.nonrf, p.rf, p.nonrf, p.rb, p.el, p.rb', p.el'].all fun v => (mkSlice v).isSome

/-! ### auto-detection predicates of `_make_rb_el` (`rb is None`)

`small i` of `mkPart` is instantiated with `smallUnc k tol` for uncoupled systems (`k` the non-rf
stiffness vector) and with `smallCoupled k b tol` for coupled ones (`k`, `b` the non-rf matrices as
lists of rows).  Polymorphic: run at `Float` in the driver, at a linear order in the theorems. -/

section auto
variable {α : Type} [LT α] [DecidableLT α]

/-- `ndarray.max()` of a non-empty vector (the empty one does not occur: `ksize > 0`) -/
def listMax (d : α) : List α → α
  | [] => d
  | a :: r => r.foldl (fun m x => if m < x then x else m) a

/-- `abs(self.k) < tol` at position `i` (uncoupled) -/
def smallUnc (abs : α → α) (zero : α) (k : List α) (tol : α) (i : Nat) : Bool :=
  decide (abs (k.getD i zero) < tol)

/-- column `i` of a matrix given as a list of rows -/
def column (zero : α) (M : List (List α)) (i : Nat) : List α := M.map fun row => row.getD i zero

/-- `(abs(k).max(axis=0) < tol) & (abs(k).max(axis=1) < tol) & (abs(b).max(axis=0) < tol) &
(abs(b).max(axis=1) < tol)` at position `i` (coupled) -/
def smallCoupled (abs : α → α) (zero : α) (k b : List (List α)) (tol : α) (i : Nat) : Bool :=
  decide (listMax zero ((column zero k i).map abs) < tol) &&
  decide (listMax zero ((k.getD i []).map abs) < tol) &&
  decide (listMax zero ((column zero b i).map abs) < tol) &&
  decide (listMax zero ((b.getD i []).map abs) < tol)

end auto

end PyYetiVerif.SuPartition
