import PyYetiVerif.Model.FixtimeTnew
/-
Model of the index bookkeeping of `pyyeti.dsp.fixtime` before the time base is built (C19), for
`delspikes=False`: `_del_drops`, `_del_outtimes`, `_get_alldrops`.  Core Lean only, at `Rat`.

    keep, dropouts = _del_drops(olddata, ...)        keep = (~drop).nonzero()[0]; dropouts = drop.nonzero()[0]
                                                      (deldrops=False: keep = arange(n), dropouts = None)
    _del_outtimes(told, keep, delouttimes):
        t = told[keep];  mn = t.mean();  sig = 3 * t.std(ddof=1)
        pv = (t < mn - sig) | (t > mn + sig)
        outtimes = keep[pv]                           -- positions in the FULL record
        if pv.any() and delouttimes: keep = keep[~pv]
    _get_alldrops(...):
        alldrops = zeros(n, bool); alldrops[dropouts] = True
        if delouttimes: alldrops[outtimes] = True
        keep = ~alldrops;  t = told[keep];  data = olddata[keep]
        alldrops = alldrops.nonzero()[0]
        if sortvec is not None: every index vector v becomes np.sort(sortvec[v])

Which samples are drop-outs (`nan`, `inf`, `dropval`) is an input (`drop`).  The outlier test is
decided exactly: `|t - mn| > 3·std` iff `(t - mn)² > 9·var`, `var = Σ(t - mn)²/(n - 1)`.
-/
namespace PyYetiVerif.Fixtime

/-- `pv` of `_del_outtimes` -/
def outlierFlags (t : List Rat) : List Bool :=
  let n : Rat := (t.length : Rat)
  let mn := sumQ t / n
  let var := sumQ (t.map fun x => (x - mn) * (x - mn)) / (n - 1)
  t.map fun x => decide (9 * var < (x - mn) * (x - mn))

/-- `_del_outtimes(told, keep, delouttimes)` → `(keep, outtimes)` -/
def delOuttimes (told : List Rat) (keep : List Nat) (delout : Bool) : List Nat × List Nat :=
  let t := keep.filterMap fun i => told[i]?
  let kp := keep.zip (outlierFlags t)
  (if delout then (kp.filter fun x => !x.2).map (·.1) else keep, (kp.filter (·.2)).map (·.1))

/-- the boolean vector `alldrops` of `_get_alldrops` (no spikes) -/
def alldropsMask (n : Nat) (dropouts : Option (List Nat)) (outtimes : List Nat) (delout : Bool) :
    List Bool :=
  (List.range n).map fun i =>
    (match dropouts with
      | some d => d.contains i
      | none => false) || (delout && outtimes.contains i)

/-- `np.sort(sortvec[v])` (`sortvec = None`: `v` itself) -/
def applySortvec (sortvec : Option (List Nat)) (v : List Nat) : List Nat :=
  match sortvec with
  | none => v
  | some sv => (v.filterMap fun i => sv[i]?).mergeSort (· ≤ ·)

structure Drops where
  /-- `fixinfo.alldrops.dropouts` / `.outtimes` / `.alldrops` (positions in the record as given) -/
  dropouts : Option (List Nat)
  outtimes : List Nat
  alldrops : List Nat
  /-- positions, in the time-sorted record, of the samples handed on to `_mk_initial_tnew` -/
  keep : List Nat

/-- `fixtime`'s bookkeeping from the sorted times `told`, the drop-out flags, the two options and
the sort permutation (if the record had to be sorted) -/
def fixtimeDrops (told : List Rat) (drop : List Bool) (deldrops delout : Bool)
    (sortvec : Option (List Nat)) : Drops :=
  let n := told.length
  let keep0 := if deldrops then nonzeroIdx (drop.map not) else List.range n
  let dropouts := if deldrops then some (nonzeroIdx drop) else none
  let outtimes := (delOuttimes told keep0 delout).2
  let mask := alldropsMask n dropouts outtimes delout
  ⟨dropouts.map (applySortvec sortvec), applySortvec sortvec outtimes,
    applySortvec sortvec (nonzeroIdx mask), nonzeroIdx (mask.map not)⟩

end PyYetiVerif.Fixtime
