/-
Model of `pyyeti.stats.order_stats` (`which ∈ {'c', 'r', 'n'}`).  Core Lean only (no Mathlib) so
that it runs under `lake env lean --run`; the driver runs it at `Rat`, the theorems are proved
for every linearly ordered field (Props/C20.lean).

`X ~ Binomial(n, q)`, `q = 1 - p`, counts the samples that exceed the `p`-quantile of the
population.  The `r`-th largest of `n` samples exceeds that quantile iff `X ≥ r`, so

* `which = 'c'`:  `binom.sf(r - 1, n, 1 - p) = 1 - cdf(r - 1) = P(X ≥ r)`           = `tail n r q`
* `which = 'r'`:  `binom.ppf(1 - c, n, 1 - p)` = the smallest `k` with `cdf(k) ≥ 1 - c`
                                                                                     = `rank n q c`
* `which = 'n'`:  `_func(n) = (1 - c) - (1 - betainc(r, n - r + 1, 1 - p)) = P(X ≥ r) - c`; the code
  returns `r` when `_func(r) ≥ 0`, otherwise doubles `b` (at most 30 more times) until
  `_func(b) ≥ 0`, lets `brentq` find the real root in `[a, b]` and takes `ceil`: the smallest
  integer in `(a, b]` meeting the confidence; when the doubling gives up `brentq` raises
  `ValueError` (modelled as `none`)                                                  = `nSearch r q c`
-/
namespace PyYetiVerif.OrderStats

/-- exact binomial coefficient by the multiplicative formula (every division is exact). -/
def choose (n : Nat) : Nat → Nat
  | 0 => 1
  | k + 1 => choose n k * (n - k) / (k + 1)

variable {α : Type} [Add α] [Mul α] [Sub α] [One α] [Zero α] [NatCast α] [HPow α Nat α]

/-- `binom.pmf(k, n, q)` -/
def pmf (n k : Nat) (q : α) : α := (choose n k : α) * q ^ k * (1 - q) ^ (n - k)

/-- `binom.cdf(r - 1, n, q) = P(X < r)` -/
def lower (n : Nat) (q : α) : Nat → α
  | 0 => 0
  | r + 1 => lower n q r + pmf n r q

/-- `binom.sf(r - 1, n, q) = P(X ≥ r)`: the confidence that the `r`-th largest of `n` samples
exceeds the `(1 - q)`-quantile.  This is `order_stats('c', p = 1 - q, n, r)`. -/
def tail (n r : Nat) (q : α) : α := 1 - lower n q r

variable [LE α] [DecidableLE α]

/-- scan `k = k₀, k₀ + 1, …` with `acc = cdf(k - 1)`; stop at the first `k` with
`cdf(k) ≥ 1 - c`.  `fuel` = number of candidates left below `n`. -/
def rankGo (n : Nat) (q c : α) : Nat → Nat → α → Nat
  | 0, k, _ => k
  | f + 1, k, acc =>
      let acc' := acc + pmf n k q
      if 1 - c ≤ acc' then k else rankGo n q c f (k + 1) acc'

/-- `order_stats('r', p = 1 - q, c, n) = binom.ppf(1 - c, n, q)` (the value `n` is the answer when
no smaller `k` qualifies: `cdf(n) = 1`). -/
def rank (n : Nat) (q c : α) : Nat := rankGo n q c n 0 0

/-- does sample size `n` meet confidence `c` for rank `r`?  (`_func(n, …) ≥ 0`) -/
def meets (r : Nat) (q c : α) (n : Nat) : Bool := decide (c ≤ tail n r q)

/-- the doubling loop `while _func(b) < 0 and loops < 30: a = b; b = 2 * a; loops += 1`.
Returns the final `(a, b)`. -/
def bracket (P : Nat → Bool) : Nat → Nat → Nat → Nat × Nat
  | 0, a, b => (a, b)
  | f + 1, a, b => if P b then (a, b) else bracket P f b (2 * b)

/-- integer bisection keeping `¬ P lo`, `P hi`; what `ceil(brentq(…))` denotes on `(lo, hi]` for a
monotone `P`. -/
def bisect (P : Nat → Bool) : Nat → Nat → Nat → Nat
  | 0, _, hi => hi
  | f + 1, lo, hi =>
      if hi ≤ lo + 1 then hi
      else
        let mid := (lo + hi) / 2
        if P mid then bisect P f lo mid else bisect P f mid hi

/-- `order_stats('n', …)` with `L` doublings allowed (the code has `L = 30`). -/
def nSearchL (L : Nat) (r : Nat) (q c : α) : Option Nat :=
  let P := meets r q c
  if P r then some r
  else
    let (a, b) := bracket P L r (2 * r)
    if P b then some (bisect P (b - a) a b) else none

/-- `order_stats('n', p = 1 - q, c, r)`; `none` = `ValueError` from `brentq`. -/
def nSearch (r : Nat) (q c : α) : Option Nat := nSearchL 30 r q c

end PyYetiVerif.OrderStats
