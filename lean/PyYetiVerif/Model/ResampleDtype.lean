import PyYetiVerif.Model.Resample
/-
Model of the storage types inside `pyyeti.dsp.resample` (C19): which dtype each intermediate array
has, given the dtype of `data`, and what a store into each of them does to a value.  Core Lean only.

    m = np.mean(data, axis=-1, keepdims=True)      -- float64 for integer/bool/list data, float32 for float32
    updata1 = np.zeros(shape)                       -- ALWAYS float64 (no dtype argument)
    updata1[..., ::p] = data - m                    -- the store casts `data - m` to the buffer's dtype
    (p == 1: updata1 = data - m, its own dtype)
    z = np.zeros(shape); np.concatenate((z, updata1, z))   -- float64
    updata = signal.lfilter(fir, 1, updata1)        -- float64
    RData = updata[..., ::q] + m                    -- float64

A store into an integer buffer truncates toward zero; a buffer that inherits an integer dtype from the
data (`np.zeros(shape, dtype=data.dtype)`, a seeded change) therefore destroys `data - m` whenever the
mean is not an integer.
-/
namespace PyYetiVerif.Resample

/-- storage classes of `data` (every integer, unsigned, bool dtype and Python ints behave alike) -/
inductive DType where
  | int | float32 | float64
  deriving DecidableEq, Repr

/-- dtype of `np.mean(data)` (and of `data - m`) -/
def meanType : DType → DType
  | .float32 => .float32
  | _ => .float64

/-- dtype of the zero-stuffed buffer `np.zeros(shape)`: float64 whatever the data -/
def bufferType (_ : DType) : DType := .float64

/-- dtype of the padded array, of `lfilter`'s output and of the result -/
def outType (_ : DType) : DType := .float64

/-- truncation toward zero -/
def truncQ (x : Rat) : Rat := if x < 0 then -(((-x).floor : Int) : Rat) else ((x.floor : Int) : Rat)

/-- the value that ends up in a buffer of type `t` when `x` is stored (single-precision rounding is
not modelled: `float32` data are compared numerically only) -/
def store (t : DType) (x : Rat) : Rat :=
  match t with
  | .int => truncQ x
  | _ => x

/-- `updata1 = np.zeros(shape, <buf>); updata1[..., ::p] = d` -/
def stuffStored (buf : DType) (p : Nat) (d : List Rat) : List Rat := stuff 0 p (d.map (store buf))

end PyYetiVerif.Resample
