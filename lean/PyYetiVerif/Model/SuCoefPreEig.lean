import PyYetiVerif.Model.SuCoefStatic
/-!
Model of the modal pre-transformation `pre_eig=True` of `SolveUnc` / `SolveExp2` (C01).  Core Lean only.

Sources transcribed (pyyeti/ode/_base_ode_class.py):

    _do_pre_eig(m, b, k):
        if k.ndim == 1: k = np.diag(k)                                    -> `fullOf`
        if m is None:   w, u = la.eigh(k)
        else:
            if m.ndim == 1: m = np.diag(m)                                -> `massMat`
            w, u = la.eigh(k, m)
        self.phi = u ; m = None ; k = w
        if b.ndim == 1: b = (u.T * b) @ u   else: b = u.T @ b @ u         -> `preEigB`
    _init_dva:   force = self.phi.T @ force                               -> `peForce`
                 d0 = la.solve(self.phi, d0) ; v0 = la.solve(self.phi, v0) -> `peIC`
    _solution:   d = self.phi @ d ; v = self.phi @ v ; a = self.phi @ a   -> `peRecover`

`la.eigh` is NOT modelled: its result `(w, u)` is an INPUT (`PreEig`).  `Props/C01PreEig.lean` states
what it must satisfy (`uᵀ M u = 1`, `uᵀ K u = diag w` with `M = massMat m`, `K = fullOf k`) and proves
that under this specification the recovered modal solution solves the physical system, for every
form of the mass; the correspondence check feeds the implementation's own `phi`, `w` and measures
the two conditions.
-/
namespace PyYetiVerif.SuCoef

/-- the three forms in which the mass arrives: `None`, 1-D (diagonal), 2-D -/
inductive MassArg (α : Type) (n : Nat)
  | none
  | vec (m : Fin n → α)
  | mat (M : Fin n → Fin n → α)

/-- damping / stiffness: 1-D (diagonal) or 2-D -/
inductive DiagOrFull (α : Type) (n : Nat)
  | vec (v : Fin n → α)
  | mat (M : Fin n → Fin n → α)

/-- the result of `la.eigh`: eigenvalues `w`, mode shapes `phi = u` (columns) -/
structure PreEig (α : Type) (n : Nat) where
  phi : Fin n → Fin n → α
  w   : Fin n → α

section preeig
variable {α : Type} [Add α] [Sub α] [Mul α] [Div α] [Zero α] {n : Nat}

/-- `np.diag(v)` -/
def diagMat (v : Fin n → α) : Fin n → Fin n → α := fun i j => if i = j then v i else 0

/-- `np.diag(x)` if `x.ndim == 1` -/
def fullOf : DiagOrFull α n → Fin n → Fin n → α
  | .vec v => diagMat v
  | .mat M => M

/-- the mass matrix of the generalised eigenproblem handed to `la.eigh(k, m)`; `m is None` calls
`la.eigh(k)`: identity mass (`one` is the unit of `α`) -/
def massMat (one : α) : MassArg α n → Fin n → Fin n → α
  | .none => diagMat fun _ => one
  | .vec m => diagMat m
  | .mat M => M

/-- the modal damping: `(u.T * b) @ u` for a 1-D `b` (broadcast: column `k` of `u.T` times `b[k]`),
`(u.T @ b) @ u` for a 2-D one -/
def preEigB (u : Fin n → Fin n → α) : DiagOrFull α n → Fin n → Fin n → α
  | .vec b => fun i j => dotFin (fun k => u k i * b k) (fun k => u k j)
  | .mat B => fun i j => dotFin (fun k => dotFin (fun l => u l i) (fun l => B l k)) (fun k => u k j)

/-- `self.phi.T @ force`, one sample -/
def peForce (u : Fin n → Fin n → α) (f : Fin n → α) : Fin n → α :=
  fun i => dotFin (fun k => u k i) f

/-- `la.solve(self.phi, d0)`; `none` = singular `phi` -/
def peIC (isZero : α → Bool) (absLt : α → α → Bool) (u : Fin n → Fin n → α) (d0 : Fin n → α) :
    Option (Fin n → α) :=
  linSolve isZero absLt u d0

/-- `self.phi @ x`, one sample -/
def peRecover (u : Fin n → Fin n → α) (q : Fin n → α) : Fin n → α := matVec u q

/-- what `_do_pre_eig` and `_init_dva` hand to the modal solver: `m = None`, `k = w` (1-D),
the modal damping, the modal force samples and the modal initial conditions -/
structure ModalProblem (α : Type) (n : Nat) where
  b  : Fin n → Fin n → α
  k  : Fin n → α
  F  : List (Fin n → α)
  d0 : Option (Fin n → α)
  v0 : Option (Fin n → α)

/-- the modal problem of `tsolve(force, d0, v0)` with `pre_eig=True`; `none` = `la.solve` fails -/
def preEigProblem (isZero : α → Bool) (absLt : α → α → Bool) (e : PreEig α n) (b : DiagOrFull α n)
    (force : List (Fin n → α)) (d0 v0 : Option (Fin n → α)) : Option (ModalProblem α n) :=
  let ic : Option (Fin n → α) → Option (Option (Fin n → α)) := fun x =>
    match x with
    | none => some none
    | some y => (peIC isZero absLt e.phi y).map some
  match ic d0, ic v0 with
  | some q0, some qv0 =>
    some { b := preEigB e.phi b, k := e.w, F := force.map (peForce e.phi), d0 := q0, v0 := qv0 }
  | _, _ => none

/-- `_solution`: the modal histories mapped back, sample by sample -/
def preEigSolution (e : PreEig α n) (dva : List ((Fin n → α) × (Fin n → α) × (Fin n → α))) :
    List ((Fin n → α) × (Fin n → α) × (Fin n → α)) :=
  dva.map fun (d, v, a) => (peRecover e.phi d, peRecover e.phi v, peRecover e.phi a)

/-- the first sample of the modal solver when the modal system is uncoupled (`b` diagonal after the
transformation): `_init_dv` (uncoupled branch: `initD`, `initV`) and `_calc_acce_kdof` with
`m is None` (`calcAcceNone`); `isEl i`: mode `i` is elastic (not auto-detected as rigid-body) -/
def modalFirstSampleUnc [BEq α] [OfNat α 0] (p : ModalProblem α n) (static : Bool) (isEl : Fin n → Bool) :
    Option ((Fin n → α) × (Fin n → α) × (Fin n → α)) :=
  match p.F with
  | [] => none
  | f0 :: _ =>
    let useSt := useStatic static p.d0.isSome
      ((List.finRange n).filterMap fun i => if isEl i then some (f0 i) else none)
    let d : Fin n → α := fun i => initD (p.d0.map fun x => x i) useSt (isEl i) (p.k i) (f0 i)
    let v : Fin n → α := fun i => initV (p.v0.map fun x => x i)
    let a : Fin n → α := fun i => calcAcceNone (p.b i i) (p.k i) (d i) (v i) (f0 i)
    some (d, v, a)

end preeig

end PyYetiVerif.SuCoef
