/-!
Model of `pyyeti/locate.py` (index look-ups on integer data) and of the sorted search with
exact-match re-check that `locate.mat_intersect` and `n2p.mkdofpv` share.  Core Lean only.

Index vectors are `List Nat` (positions) or `List Int` where the code accepts negative
(wrap-around) indices.  Errors are the exception kinds of the real code.
-/
namespace PyYetiVerif.Locate

inductive Err
  | value   -- ValueError
  | index   -- IndexError
  | key     -- KeyError
  | type    -- TypeError
  | recursion  -- RecursionError (a model with recursion fuel: the fuel is used up)
deriving DecidableEq, Repr

/-! ### sorted search with re-check (`argsort` + `searchsorted(…, sorter=i)` + `!=`) -/

section search
variable {α : Type} [DecidableEq α] [LT α] [DecidableLT α] [LE α] [DecidableLE α]

/-- `np.argsort(xs)`: pairs `(value, original index)` sorted by value.  (The library sort is not
stable; every property below is independent of the order among equal values except *which* of
several equal haystack entries is reported.) -/
def argsort (xs : List α) : List (α × Nat) :=
  xs.zipIdx.mergeSort (fun a b => decide (a.1 ≤ b.1))

/-- `np.searchsorted(sorted, x)` (left side): the number of leading entries `< x`. -/
def searchsortedLeft (sorted : List α) (x : α) : Nat :=
  (sorted.takeWhile (fun y => decide (y < x))).length

/-- one needle: searched position, clamped as the code does (`pvi[pvi == i.size] -= 1`), mapped
back through the sorter, then the exact-match re-check.  `none` = "not found". -/
def lookup (xs : List α) (srt : List (α × Nat)) (x : α) : Option Nat :=
  let p := searchsortedLeft (srt.map (·.1)) x
  let p := if p = srt.length then p - 1 else p
  match srt[p]? with
  | some (_, idx) => if xs[idx]? = some x then some idx else none
  | none => none

/-- all needles against one haystack -/
def lookupAll (hay needles : List α) : List (Option Nat) :=
  let srt := argsort hay
  needles.map (lookup hay srt)

/-! ### mat_intersect -/

/-- `mat_intersect(D1, D2, keep)` on lists of rows (a 1-D vector is a list of 1-element rows);
`c1`, `c2` are the column counts (needed because an empty matrix still has a column count).
Returns `(pv1, pv2)`. -/
def matIntersect (d1 d2 : List α) (c1 c2 : Nat) (keep : Nat) : List Nat × List Nat :=
  if c1 ≠ c2 then ([], [])
  else
    let sw := !((keep = 0 ∧ d1.length ≤ d2.length) ∨ keep = 1)
    let needles := if sw then d2 else d1
    let hay := if sw then d1 else d2
    -- `if i.size == 0: return [], []` is the general formula on an empty haystack
    let res := (lookupAll hay needles).zipIdx
    let pvN := res.filterMap (fun r => r.1.map (fun _ => r.2))
    let pvH := res.filterMap (·.1)
    if sw then (pvH, pvN) else (pvN, pvH)

end search

/-! ### find_duplicates -/

section dups
variable {α : Type} [DecidableEq α] [LT α] [DecidableLT α] [LE α] [DecidableLE α] [Sub α]

/-- `abs(a - b) <= tol` for `a ≤ b` in sorted order (`np.diff` of the sorted vector is `b - a`,
never negative) -/
def within (tol a b : α) : Bool := decide (b - a ≤ tol)

/-- flags per *sorted* position: `tf[k-1] or tf[k]` (ends: the one neighbour). -/
def dupFlags (tol : α) : Option α → List α → List Bool
  | _, [] => []
  | prev, a :: rest =>
      ((match prev with | some p => within tol p a | none => false) ||
       (match rest with | b :: _ => within tol a b | [] => false)) :: dupFlags tol (some a) rest

/-- `find_duplicates(v, tol)`: sort, flag, scatter back (`dups[i[k]] = …`). -/
def findDuplicates (v : List α) (tol : α) : List Bool :=
  if v.length < 2 then List.replicate v.length false
  else
    let srt := argsort v
    let flags := dupFlags tol none (srt.map (·.1))
    let tagged := (srt.map (·.2)).zip flags
    (List.range v.length).map fun j =>
      match tagged.find? (fun t => t.1 = j) with
      | some t => t.2
      | none => false

end dups

/-! ### index utilities -/

/-- numpy index normalisation for an axis of length `n`: `-n ≤ p < n`. -/
def normIndex (n : Nat) (p : Int) : Option Nat :=
  if 0 ≤ p ∧ p < n then some p.toNat
  else if p < 0 ∧ -(n : Int) ≤ p then some (p + n).toNat
  else none

/-- `flippv(pv, n)` -/
def flippv (pv : List Int) (n : Nat) : Except Err (List Nat) :=
  match pv.mapM (normIndex n) with
  | none => .error .index
  | some ps => .ok ((List.range n).filter (fun i => !ps.contains i))

/-- `index2bool(pv, n)` -/
def index2bool (pv : List Int) (n : Nat) : Except Err (List Bool) :=
  match pv.mapM (normIndex n) with
  | none => .error .index
  | some ps => .ok ((List.range n).map (fun i => ps.contains i))

inductive SliceOrPv
  | slice (start stop step : Option Int)
  | pv (pv : List Int)
deriving DecidableEq, Repr

def diffs : List Int → List Int
  | a :: b :: rest => (b - a) :: diffs (b :: rest)
  | _ => []

/-- `index2slice(pv, strict)` for 1-D input. -/
def index2slice (pv : List Int) (strict : Bool) : Except Err SliceOrPv :=
  match pv with
  | [] => .ok (.slice none (some 0) none)
  | [x] => .ok (.slice (some x) (if x + 1 = 0 then none else some (x + 1)) none)
  | x :: y :: rest =>
      let d0 := y - x
      let last := (y :: rest).getLast?.getD y
      if d0 ≠ 0 ∧ (diffs (x :: y :: rest)).all (· = d0) ∧ 0 ≤ x ∧ 0 ≤ last then
        let stop := last + d0
        .ok (.slice (some x) (if stop < 0 then none else some stop) (some d0))
      else if strict then .error .value
      else .ok (.pv pv)

/-- CPython `range(n)[slice(start, stop, step)]` (`PySlice_AdjustIndices`), used to state what
the slice returned by `index2slice` selects. -/
def pySlice (start stop step : Option Int) (n : Nat) : Except Err (List Int) :=
  let st := step.getD 1
  if st = 0 then .error .value
  else
    let N : Int := n
    let clampLo (v : Int) : Int :=       -- adjust a given bound
      if v < 0 then (if v + N < 0 then (if st < 0 then -1 else 0) else v + N)
      else if v ≥ N then (if st < 0 then N - 1 else N) else v
    let s := match start with | some v => clampLo v | none => if st < 0 then N - 1 else 0
    let e := match stop with | some v => clampLo v | none => if st < 0 then -1 else N
    let len : Nat :=
      if st < 0 then (if e < s then ((s - e - 1) / (-st) + 1).toNat else 0)
      else (if s < e then ((e - s - 1) / st + 1).toNat else 0)
    .ok ((List.range len).map fun (k : Nat) => s + (k : Int) * st)

/-! ### list_intersect, merge_lists, find_subseq -/

section lists
variable {α : Type} [DecidableEq α]

/-- `list_intersect(L1, L2)`: for every common item (a set: once), the first position in each
list; sorted by the position in `L1`. -/
def listIntersect (l1 l2 : List α) : List Nat × List Nat :=
  let items := l1.eraseDups.filter (fun x => l2.contains x)
  (items.map (fun x => l1.idxOf x), items.map (fun x => l2.idxOf x))

/-- insert `xs` (in order) in front of position `i` -/
def insertAt (l : List α) (i : Nat) (xs : List α) : List α := l.take i ++ xs ++ l.drop i

/-- the main loop of `merge_lists`: state `(merged, elements)` -/
def mergeStep (st : List α × List α) (e : α) : List α × List α :=
  if st.1.contains e then (insertAt st.1 (st.1.idxOf e) st.2, [])
  else (st.1, st.2 ++ [e])

/-- `merged.index(e, prev)` -/
def indexFrom (l : List α) (e : α) (prev : Nat) : Nat := prev + (l.drop prev).idxOf e

def pv1Loop (merged : List α) : Nat → List α → List Nat
  | _, [] => []
  | prev, e :: rest => let i := indexFrom merged e prev; i :: pv1Loop merged i rest

/-- `merge_lists(list1, list2)` = `(merged, pv1, pv2)` -/
def mergeLists (l1 l2 : List α) : List α × List Nat × List Nat :=
  let st := l2.foldl mergeStep (l1, [])
  let merged := st.1 ++ st.2
  (merged, pv1Loop merged 0 l1, l2.map (fun e => merged.idxOf e))

end lists

/-- `np.correlate(seq, sub, 'valid')[k]` for `len(sub) ≤ len(seq)` -/
def corrAt (seq sub : List Int) (k : Nat) : Int :=
  ((seq.drop k).zip sub).foldl (fun acc p => acc + p.1 * p.2) 0

/-- `find_subseq(seq, subseq)`; both non-empty (`np.correlate` refuses an empty argument). -/
def findSubseq (seq sub : List Int) : Except Err (List Nat) :=
  if sub.length > seq.length then .ok []
  else if sub = [] ∨ seq = [] then .error .value
  else
    let target := corrAt sub sub 0
    let cands := (List.range (seq.length - sub.length + 1)).filter
      (fun k => corrAt seq sub k = target)
    .ok (cands.filter (fun k => (seq.drop k).take sub.length = sub))

/-! ### find_vals, find_rows, find_unique

Float and mixed int/float inputs of the correspondence check are dyadic (`k/4`); the harness
sends them scaled by 4, so `Int` is the exact semantics of the float comparisons. -/

/-- `m.ravel(order="F")` of a matrix given by rows -/
def colMajor (rows : List (List Int)) : List Int :=
  match rows with
  | [] => []
  | r :: _ => (List.range r.length).flatMap fun j => rows.filterMap (fun row => row[j]?)

/-- `find_vals(m, v)`: `pv |= m == i` for every `i` in `v`, on the column-major flattening. -/
def findVals (rows : List (List Int)) (v : List Int) : List Bool :=
  (colMajor rows).map fun x => v.foldl (fun acc i => acc || decide (x = i)) false

/-- `find_rows(matrix, row)`: `abs(matrix - row).sum(axis=1) == 0`; a row of another length
gives an empty vector. -/
def findRows (rows : List (List Int)) (c : Nat) (row : List Int) : List Bool :=
  if c ≠ row.length then []
  else rows.map fun r => decide (((r.zip row).map fun p => (p.1 - p.2).natAbs).sum = 0)

/-- `find_unique(y, tol)` with `tol = tn/td` (`td > 0`): `stol = |tol * max|diff||`,
`pv = [True] ++ (|diff| > stol)`; fewer than two values: `max` of an empty array, `ValueError`. -/
def findUnique (y : List Int) (tn : Int) (td : Nat) : Except Err (List Bool) :=
  let m := diffs y
  match m with
  | [] => .error .value
  | _ =>
    let mx := m.foldl (fun acc d => max acc d.natAbs) 0
    .ok (true :: m.map fun d => decide (tn.natAbs * mx < d.natAbs * td))

end PyYetiVerif.Locate
