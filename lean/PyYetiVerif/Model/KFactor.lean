/-
Model of `pyyeti.stats.ksingle`, `_getr` and `kdouble`.  Core Lean only.

No special functions exist executably in Lean (no `erf`, no non-central t, no chi-square), so the
distribution functions are *parameters* (`Ops`): the formulas below are the code's expressions
written once against abstract `normPpf, normCdf, nctPpf, chi2Ppf, sqrt, exp`.  The theorems
(Props/C20.lean) are proved from the stated specification of these parameters ("cdf strictly
increasing, ppf its inverse", Lemmas/KFactor.lean); the driver runs the same definitions at
`Float` with the library values supplied by the harness (scipy), so the *expression structure*
(degrees of freedom `n - 1`, non-centrality `sqrt(n) * z_p`, the `1/sqrt(n)` scaling, the Newton
step, `sqrt((n - 1)/chi) * r`) is what is compared with the implementation.
-/
namespace PyYetiVerif.KFactor

/-- the library kernels used by `stats.py` -/
structure Ops (α : Type) where
  sqrt : α → α
  exp : α → α
  /-- `norm.ppf(p)` -/
  normPpf : α → α
  /-- `norm.cdf(x)` -/
  normCdf : α → α
  /-- `nct.ppf(c, df, nc)` -/
  nctPpf : α → α → α → α
  /-- `chi2.ppf(prob, df)` -/
  chi2Ppf : α → α → α
  /-- `1/sqrt(2π)` -/
  spi : α

variable {α : Type} [Add α] [Mul α] [Sub α] [Div α] [Neg α] [One α] [OfNat α 2]

/-- `pnonc = sn * norm.ppf(p)` -/
def pnonc (o : Ops α) (p n : α) : α := o.sqrt n * o.normPpf p

/-- `ksingle(p, c, n) = nct.ppf(c, n - 1, sqrt(n) * norm.ppf(p)) / sqrt(n)` -/
def ksingle (o : Ops α) (p c n : α) : α :=
  o.nctPpf c (n - 1) (pnonc o p n) / o.sqrt n

/-- the residual of the equation that defines `R` in `_getr`:
`Φ(1/√n + R) − Φ(1/√n − R) − prob` -/
def getrResidual (o : Ops α) (n prob r : α) : α :=
  let sn := 1 / o.sqrt n
  o.normCdf (sn + r) - o.normCdf (sn - r) - prob

/-- the denominator of the Newton step (derivative by Leibniz's rule) -/
def getrDen (o : Ops α) (n r : α) : α :=
  let sn := 1 / o.sqrt n
  let lhi := sn + r
  let llo := sn - r
  o.spi * (o.exp (-(lhi * lhi) / 2) + o.exp (-(llo * llo) / 2))

/-- one pass of the `while` loop of `_getr`: `r = rold - num / den` -/
def newtonStep (o : Ops α) (n prob rold : α) : α :=
  rold - getrResidual o n prob rold / getrDen o n rold

/-- `kdouble` given the `R` returned by `_getr`:
`sqrt((n - 1) / chi2.ppf(1 - c, n - 1)) * R` -/
def kdoubleOf (o : Ops α) (c n r : α) : α :=
  o.sqrt ((n - 1) / o.chi2Ppf (1 - c) (n - 1)) * r

end PyYetiVerif.KFactor
