import PyYetiVerif.Model.Op4
/-!
C11 — an OUTPUT4 **encoder** for the physical variants pyYeti's writer never produces, written
from the format only (it shares no code with pyYeti): single or double precision, 32- or 64-bit
integer keys, either byte order, dense / bigmat / nonbigmat with the strings of a column split at
arbitrary places (adjacent strings, strings of length one, zeros inside a string), bigmat on small
matrices (negative row count); ASCII with `E` or `D` exponents and any announced `nEw.d` format.

The logical content of a matrix is given *with its partition*: every column present in the file is
a list of strings `(first row (0-based), reals)`; complex elements are two consecutive reals.
A real is the bit pattern of the stored width (`realBytes`).

Also: the word-level column decoders of Model/Op4.lean generalised over the number of words per
real (`wper`), about which the partition theorems of Props/C11.lean are proved.
-/
namespace PyYetiVerif.Op4V
open PyYetiVerif.Op4 PyYetiVerif.Generated.Op4Consts

structure Variant where
  e : Endian
  bit64 : Bool      -- 8-byte integer keys (record markers stay 4 bytes)
  single : Bool     -- matrix type 1 / 3
deriving Repr, DecidableEq

/-- one string of a column: 0-based first row and the reals (two per complex element) -/
abbrev VStr := Nat × List Nat

structure VMat where
  name : List Nat
  form : Nat
  cplx : Bool
  rows : Nat
  ncols : Nat
  lay : Layout
  negRows : Bool                     -- write `-rows` in the header (bigmat marker for small matrices)
  cols : List (Nat × List VStr)      -- (0-based column, its strings), ascending columns
deriving Repr, DecidableEq

def keyBytes (v : Variant) : Nat := if v.bit64 then 8 else 4
/-- bytes of one stored real: single precision is 4 bytes with 32-bit keys, otherwise 8 -/
def realBytes (v : Variant) : Nat := if v.single && !v.bit64 then 4 else 8
/-- file words per real as the reader counts them -/
def wper (v : Variant) : Nat := if v.single then 1 else if v.bit64 then 1 else 2

def mtypeV (v : Variant) (cplx : Bool) : Nat := (if cplx then 3 else 1) + (if v.single then 0 else 1)

/-- `n` little-endian bytes of `x` -/
def leBytes : Nat → Nat → List Nat
  | 0, _ => []
  | n + 1, x => (x % 256) :: leBytes n (x / 256)

def natBytes (e : Endian) (n x : Nat) : List Nat :=
  match e with
  | .little => leBytes n x
  | .big => (leBytes n x).reverse

/-- two's complement integer of `n` bytes -/
def intBytes (e : Endian) (n : Nat) (x : Int) : List Nat :=
  natBytes e n (x % (256 ^ n : Nat)).toNat

def mark (v : Variant) (n : Nat) : List Nat := natBytes v.e 4 n
def key (v : Variant) (x : Int) : List Nat := intBytes v.e (keyBytes v) x
def real (v : Variant) (bits : Nat) : List Nat := natBytes v.e (realBytes v) bits

def headerRec (v : Variant) (m : VMat) : List Nat :=
  let namelen := if v.bit64 then 16 else 8
  let reclen := 4 * keyBytes v + namelen
  mark v reclen ++ key v m.ncols ++ key v (if m.negRows then -(m.rows : Int) else m.rows) ++ key v m.form
    ++ key v (mtypeV v m.cplx) ++ (m.name ++ List.replicate (namelen - m.name.length) 32).take namelen
    ++ mark v reclen

def strPayload (v : Variant) (lay : Layout) (s : VStr) : List Nat :=
  let n := s.2.length
  let body := s.2.flatMap (real v)
  match lay with
  | .dense => body
  | .bigmat => key v (n * wper v + 1) ++ key v (s.1 + 1) ++ body
  | .nonbigmat => key v ((s.1 + 1 : Nat) + (n * wper v + 1) * 65536) ++ body

def strWords (v : Variant) (lay : Layout) (s : VStr) : Nat :=
  match lay with
  | .dense => s.2.length * wper v
  | .bigmat => s.2.length * wper v + 2
  | .nonbigmat => s.2.length * wper v + 1

def colRec (v : Variant) (lay : Layout) (c : Nat) (ss : List VStr) : List Nat :=
  let payload := ss.flatMap (strPayload v lay)
  let reclen := 3 * keyBytes v + payload.length
  let irow : Int := match lay, ss with
    | .dense, s :: _ => (s.1 : Int) + 1
    | _, _ => 0
  mark v reclen ++ key v (c + 1) ++ key v irow ++ key v ((ss.map (strWords v lay)).sum) ++ payload
    ++ mark v reclen

def trailerRec (v : Variant) (ncols : Nat) : List Nat :=
  let one := if v.single && !v.bit64 then 0x3F800000 else 0x3FF0000000000000
  let reclen := 3 * keyBytes v + realBytes v
  mark v reclen ++ key v (ncols + 1) ++ key v 1 ++ key v (wper v) ++ real v one ++ mark v reclen

def encVMat (v : Variant) (m : VMat) : List Nat :=
  headerRec v m ++ m.cols.flatMap (fun c => colRec v m.lay c.1 c.2) ++ trailerRec v m.ncols

def encVFile (v : Variant) (ms : List VMat) : List Nat := ms.flatMap (encVMat v)

/-! ### ASCII variants -/

/-- a value as it is to be printed: sign, the decimal digits of the mantissa (first digit before
the point), decimal exponent -/
structure ADec where
  neg : Bool
  digits : List Nat     -- at least one
  exp : Int
deriving Repr, DecidableEq

structure AFormat where
  perline : Nat
  width : Nat
  useD : Bool           -- `D` exponent letter in the data
  lead1P : Bool         -- announce `1P,` in front of the format
  fmtD : Bool           -- announce the format with a `D` (`3D23.16`)
  lower : Bool          -- announce in lower case
deriving Repr, DecidableEq

def aNum (f : AFormat) (x : ADec) : List Char :=
  let ds := x.digits.map fun d => Char.ofNat (48 + d % 10)
  let body := (if x.neg then ['-'] else []) ++ ds.take 1 ++ ['.'] ++ ds.drop 1
    ++ [if f.useD then 'D' else 'E', if x.exp < 0 then '-' else '+']
    ++ (if x.exp.natAbs < 10 then ['0'] else []) ++ (toString x.exp.natAbs).toList
  padLeft f.width body

def aLines (f : AFormat) : Nat → List ADec → List Char
  | 0, _ => []
  | _, [] => []
  | fuel + 1, xs =>
    (xs.take f.perline).flatMap (aNum f) ++ ['\n'] ++
      (if xs.length ≤ f.perline then [] else aLines f fuel (xs.drop f.perline))

structure AMat where
  name : List Nat
  form : Nat
  cplx : Bool
  single : Bool
  rows : Nat
  ncols : Nat
  lay : Layout
  negRows : Bool
  cols : List (Nat × List (Nat × List ADec))
deriving Repr, DecidableEq

def aInt (w : Nat) (n : Int) : List Char := padLeft w (toString n).toList

def aHeader (f : AFormat) (m : AMat) : List Char :=
  let spec := (if f.lead1P then "1P," else "") ++ toString f.perline ++ (if f.fmtD then "D" else "E")
    ++ toString f.width ++ "." ++ toString (f.width - 7)
  let spec := if f.lower then spec.toLower else spec
  aInt 8 m.ncols ++ aInt 8 (if m.negRows then -(m.rows : Int) else m.rows) ++ aInt 8 m.form
    ++ aInt 8 ((if m.cplx then 3 else 1) + (if m.single then 0 else 1))
    ++ (m.name.map Char.ofNat ++ List.replicate (8 - m.name.length) ' ') ++ spec.toList ++ ['\n']

def aWper (m : AMat) : Nat := if m.single then 1 else 2

def aCol (f : AFormat) (m : AMat) (c : Nat) (ss : List (Nat × List ADec)) : List Char :=
  match m.lay with
  | .dense =>
    match ss with
    | s :: _ => aInt 8 (c + 1) ++ aInt 8 (s.1 + 1) ++ aInt 8 s.2.length ++ ['\n'] ++ aLines f s.2.length s.2
    | [] => []
  | .bigmat =>
    aInt 8 (c + 1) ++ aInt 8 0 ++ aInt 8 ((ss.map fun s => s.2.length * aWper m + 2).sum) ++ ['\n'] ++
      ss.flatMap fun s =>
        aInt 8 (s.2.length * aWper m + 1) ++ aInt 8 (s.1 + 1) ++ ['\n'] ++ aLines f s.2.length s.2
  | .nonbigmat =>
    aInt 8 (c + 1) ++ aInt 8 0 ++ aInt 8 ((ss.map fun s => s.2.length * aWper m + 1).sum) ++ ['\n'] ++
      ss.flatMap fun s =>
        aInt 12 ((s.1 + 1 : Nat) + (s.2.length * aWper m + 1) * 65536) ++ ['\n'] ++ aLines f s.2.length s.2

def encAMat (f : AFormat) (m : AMat) : List Char :=
  aHeader f m ++ m.cols.flatMap (fun c => aCol f m c.1 c.2)
    ++ aInt 8 (m.ncols + 1) ++ aInt 8 1 ++ aInt 8 1 ++ ['\n']
    ++ aNum f { neg := false, digits := [1, 0, 0, 0, 0], exp := 0 } ++ ['\n']

def encAFile (f : AFormat) (ms : List AMat) : List Char := ms.flatMap (encAMat f)

/-! ### word-level column decoders, generalised over the words per real

A column payload is a list of words of the key width; a real occupies `w` of them
(`w = 2`: double precision with 32-bit keys; `w = 1`: single precision, or 64-bit keys).
`R` abstracts how `w` words make a real. -/

structure RealCodec where
  w : Nat
  split : Nat → List Nat
  join : List Nat → Nat
  split_length : ∀ x, (split x).length = w
  join_split : ∀ x, join (split x) = x
  w_pos : 0 < w

/-- read `n` reals -/
def takeReals (R : RealCodec) : Nat → List Nat → Option (List Nat × List Nat)
  | 0, ws => some ([], ws)
  | n + 1, ws =>
    if ws.length < R.w then none else
    match takeReals R n (ws.drop R.w) with
    | some (xs, rest) => some (R.join (ws.take R.w) :: xs, rest)
    | none => none

/-- `while nwords > 0` of `_rd_bigmat_binary`, any `wper` -/
def rdBigV (R : RealCodec) : Nat → Nat → List Nat → Option (List VStr × List Nat)
  | _, 0, ws => some ([], ws)
  | 0, _ + 1, _ => none
  | fuel + 1, nwords + 1, ws =>
    match ws with
    | L1 :: irow :: ws1 =>
      if L1 = 0 ∨ irow = 0 ∨ nwords + 1 < L1 + 1 then none else
      match takeReals R ((L1 - 1) / R.w) ws1 with
      | none => none
      | some (xs, ws2) =>
        match rdBigV R fuel (nwords + 1 - (L1 + 1)) ws2 with
        | some (rest, ws3) => some ((irow - 1, xs) :: rest, ws3)
        | none => none
    | _ => none

/-- `while nwords > 0` of `_rd_nonbigmat_binary`, any `wper` -/
def rdNonbigV (R : RealCodec) : Nat → Nat → List Nat → Option (List VStr × List Nat)
  | _, 0, ws => some ([], ws)
  | 0, _ + 1, _ => none
  | fuel + 1, nwords + 1, ws =>
    match ws with
    | IS :: ws1 =>
      let L := IS / 65536 - 1
      let irow := IS - (L + 1) * 65536
      if IS / 65536 = 0 ∨ irow = 0 ∨ nwords + 1 < L + 1 then none else
      match takeReals R (L / R.w) ws1 with
      | none => none
      | some (xs, ws2) =>
        match rdNonbigV R fuel (nwords + 1 - (L + 1)) ws2 with
        | some (rest, ws3) => some ((irow - 1, xs) :: rest, ws3)
        | none => none
    | _ => none

def bigWords (R : RealCodec) (s : VStr) : List Nat :=
  [s.2.length * R.w + 1, s.1 + 1] ++ s.2.flatMap R.split

def nonbigWords (R : RealCodec) (s : VStr) : List Nat :=
  ((s.1 + 1) + (s.2.length * R.w + 1) * 65536) :: s.2.flatMap R.split

def nwBig (R : RealCodec) (ss : List VStr) : Nat := (ss.map fun s => s.2.length * R.w + 2).sum
def nwNonbig (R : RealCodec) (ss : List VStr) : Nat := (ss.map fun s => s.2.length * R.w + 1).sum

/-- put the strings into a column of reals (`X[r : r + len(Y)] = Y`), in file order -/
def putReals (X : List Nat) : List VStr → Option (List Nat)
  | [] => some X
  | (r, ys) :: t =>
    if r + ys.length ≤ X.length then putReals (X.take r ++ ys ++ X.drop (r + ys.length)) t else none

end PyYetiVerif.Op4V
