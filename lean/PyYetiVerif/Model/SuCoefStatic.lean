import PyYetiVerif.Model.SuCoefCoupled
import PyYetiVerif.Model.FreqGauss
/-!
Model of the linear solves of the coupled paths (C01): the static initial state of `_init_dv`, the
acceleration of `_calc_acce_kdof`, the rigid-body force `la.lu_solve(self.imrb, force[rb])` and the
`M⁻¹ F` of the stepping loops.  Core Lean only.

Sources transcribed (pyyeti/ode/_base_ode_class.py, solveunc.py):

    _init_dv, coupled branch (d0 is None and static_ic and self.elsize and F0[self.el].any()):
        k = self.k[np.ix_(self._el, self._el)]
        d[self.rb, 0] = 0.0
        d[self.el, 0] = np.linalg.solve(k, F0[self.el])          -> `staticCoupledEl`, `scatterEl`
    _calc_acce_kdof, coupled branch:
        B = self.b @ v[kdof] ; K = self.k @ d[kdof]
        a[kdof] = la.lu_solve(self.invm, F - B - K)  |  F - B - K   (m is None)
                                                                   -> `accelRhs`, `calcAcceCoupled`
    _solve_complex_unc:  rbforce = la.lu_solve(self.imrb, force[rb]) | force[rb] ; a[rb] = rbforce
                         imf = la.lu_solve(self.invm, force[kdof]) | force[kdof]   -> `massSolve`

LAPACK's `gesv` / `getrf` + `getrs` are represented by Gaussian elimination with partial pivoting
(`Freq.gaussSolveFn`, `Model/FreqGauss.lean`, proved correct over any field in
`Lemmas/FreqGauss.lean`): over ℚ it returns THE solution of a non-singular system, which is what
the specification of the LAPACK routines promises up to round-off.  The driver runs it over `Rat` on
the exact values of the doubles it is given (static initial state) and over `Float` (acceleration).
-/
namespace PyYetiVerif.SuCoef

section lin
variable {α : Type} [Add α] [Sub α] [Mul α] [Div α] [Zero α]

/-- `np.linalg.solve(A, b)` / `la.lu_solve(la.lu_factor(A), b)` for one right-hand side;
`none` = singular matrix (`LinAlgError`) -/
def linSolve (isZero : α → Bool) (absLt : α → α → Bool) {n : Nat}
    (A : Fin n → Fin n → α) (b : Fin n → α) : Option (Fin n → α) :=
  Freq.gaussSolveFn isZero absLt A b

/-- `lu_solve(self.invm, x)` when a mass is given, `x` itself when `m is None` -/
def massSolve (isZero : α → Bool) (absLt : α → α → Bool) {n : Nat}
    (M : Option (Fin n → Fin n → α)) (x : Fin n → α) : Option (Fin n → α) :=
  match M with
  | none => some x
  | some M => linSolve isZero absLt M x

/-- the elastic rows of the static initial state: `np.linalg.solve(k_ee, F0[el])` when
`F0[self.el].any()`, else the zeros the array was allocated with -/
def staticCoupledEl (isZero : α → Bool) (absLt : α → α → Bool) {ne : Nat}
    (Kee : Fin ne → Fin ne → α) (F0el : Fin ne → α) : Option (Fin ne → α) :=
  if (List.ofFn F0el).any (fun x => !isZero x) then linSolve isZero absLt Kee F0el
  else some fun _ => 0

/-- `d[self.rb, 0] = 0.0; d[self.el, 0] = x`: `elPos g` is the position of row `g` in `el`
(`none`: a rigid-body row) -/
def scatterEl {n ne : Nat} (elPos : Fin n → Option (Fin ne)) (x : Fin ne → α) : Fin n → α :=
  fun g => match elPos g with
    | some i => x i
    | none => 0

/-- `F - B - K` with `B = self.b @ v[kdof]`, `K = self.k @ d[kdof]` -/
def accelRhs {n : Nat} (B K : Fin n → Fin n → α) (d v f : Fin n → α) : Fin n → α :=
  fun j => f j - dotFin (B j) v - dotFin (K j) d

/-- `_calc_acce_kdof`, coupled branch, one sample -/
def calcAcceCoupled (isZero : α → Bool) (absLt : α → α → Bool) {n : Nat}
    (M : Option (Fin n → Fin n → α)) (B K : Fin n → Fin n → α) (d v f : Fin n → α) :
    Option (Fin n → α) :=
  massSolve isZero absLt M (accelRhs B K d v f)

end lin

end PyYetiVerif.SuCoef
