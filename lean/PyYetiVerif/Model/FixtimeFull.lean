import PyYetiVerif.Model.FixtimeDrops
import PyYetiVerif.Model.FixtimeSr
/-
Model of `pyyeti.dsp.fixtime` as a whole (C19), every option: `deldrops`/`dropval` (`_find_drops`),
`delouttimes`, `sr` numeric or `'auto'` (`_sr_calcs`), `delspikes` (the bookkeeping around the
despiker: `_del_loners`, `_post_despike`, `_get_alldrops`; the despiker itself is a parameter, see
`Model/FixtimeDespike.lean`), `_check_dt_size`'s two warnings, `_mk_initial_tnew`,
`hold_previous_value`/`previous_value_tol`, `base`, and what `getall` reports.  Core Lean only, `Rat`.

    told, olddata, difft, sortvec = _chk_negsteps(...)          -- done by the caller: `told` is sorted
    if deldrops: keep, dropouts = _del_drops(olddata, dropval, delspikes)
                 if len(keep) == 0: return the record as is (early)
    else:        keep = arange(n); dropouts = None
    keep, outtimes = _del_outtimes(told, keep, delouttimes)
    sr, sr_stats = _sr_calcs(diff(told[keep]), sr, verbose);  dt = 1/sr
    if delspikes: keep, spikes, _ = _del_spikes(olddata, keep, delspikes)
    told, olddata, alldrops = _get_alldrops(told, olddata, sortvec, dropouts, outtimes, spikes, ...)
    _check_dt_size(diff(told), dt)
    tnew, tp = _mk_initial_tnew(told, sr, dt, difft)
    index = _find_closest_previous_times(told - dt*previous_value_tol, tnew) if hold_previous_value
            else _find_closest_times(told, tnew)
    newdata = olddata[index]
    if base is not None: tnew += base - tnew[0] - round((base - tnew[0])*sr)/sr
-/
namespace PyYetiVerif.Fixtime

/-- one data value as `_find_drops` sees it -/
inductive Sample where
  | nan | inf | fin (x : Rat)
  deriving Repr

/-- `_find_drops(d, dropval)`: `nan`, `inf`, or within 1 % of a finite `dropval`
(`dropval = none`: a `dropval` that is not finite) -/
def findDrops (d : List Sample) (dropval : Option Rat) : List Bool :=
  d.map fun
    | .nan => true
    | .inf => true
    | .fin x => match dropval with
      | some v => decide (absQ (x - v) < absQ v / 100)
      | none => false

/-- number of `True` in `flags[i:j]` -/
def countTrue (flags : List Bool) (i j : Nat) : Nat := (((flags.take j).drop i).filter id).length

/-- `while not dropouts[j - 1]: j -= 1` started at `j`, never below `i + 1` (`flags[i]` is set) -/
def backToTrue (flags : List Bool) (i : Nat) : Nat → Nat
  | 0 => 0
  | j + 1 => if j ≤ i then j + 1 else if flags[j]? == some true then j + 1 else backToTrue flags i j

/-- `_del_loners(dropouts, n, nz)`: with more than two flagged points, (1) a single unflagged point
between two flagged ones is flagged; (2) for every flagged point `i` except the last `nz - 1`: if the
window `[i, min(i+n, size))` holds at least `nz` flagged points, everything from `i` to the last
flagged point of that window is flagged -/
def delLoners (flags : List Bool) (n : Nat) (nz : Nat := 3) : List Bool :=
  let pv := nonzeroIdx flags
  if pv.length ≤ 2 then flags else
  let lon := (pv.zip pv.tail).filterMap fun ab => if ab.2 - ab.1 = 2 then some (ab.1 + 1) else none
  let s := flags.length
  let f1 := (List.range s).map fun i => flags[i]? == some true || lon.contains i
  let heads := pv.take (pv.length - (nz - 1))
  let ind := heads.filterMap fun i =>
    let j := if i + n < s then i + n else s
    if nz ≤ countTrue f1 i j then some (i, backToTrue f1 i j) else none
  (List.range s).map fun k => f1[k]? == some true || ind.any fun ij => decide (ij.1 ≤ k) && decide (k < ij.2)

/-- `v[flags]` / `v[~flags]` for an index vector `v` -/
def selectBy {β : Type} (v : List β) (flags : List Bool) (want : Bool) : List β :=
  ((v.zip flags).filter fun x => x.2 == want).map (·.1)

structure FixOpts where
  deldrops : Bool
  /-- `none` = a `dropval` that is not finite -/
  dropval : Option Rat
  delout : Bool
  /-- `delspikes`: `none` = False, `some n` = despiking on with window `n` -/
  spikeN : Option Nat
  /-- `none` = `sr='auto'` -/
  sr : Option Rat
  hold : Bool
  tol : Rat
  base : Option Rat

structure FixResult where
  /-- the record held only drop-outs: it is returned as it is (after the optional sort) -/
  early : Bool
  tnew : List Rat
  /-- for every new sample the position, in the time-sorted record, of the old sample copied -/
  src : List Nat
  /-- `fixinfo.alldrops.{dropouts, outtimes, spikes, alldrops}`: positions in the record as given -/
  dropouts : Option (List Nat)
  outtimes : List Nat
  spikes : Option (List Nat)
  alldrops : List Nat
  /-- positions (sorted record) of the samples handed to `_mk_initial_tnew` -/
  keep : List Nat
  sr : Rat
  stats : Option SrStats
  tp : List Nat
  /-- `_check_dt_size`: more than 1 % of the steps below `0.93 dt` / above `1.07 dt` -/
  warnSmall : Bool
  warnLarge : Bool
  /-- the `base` shift `t1` added to the time base after the samples were selected (`0`: no `base`) -/
  shift : Rat

/-- `_check_dt_size(difft, dt)` → the two warning decisions -/
def checkDtSize (difft : List Rat) (dt : Rat) : Bool × Bool :=
  let n : Rat := (difft.length : Rat)
  let small : Rat := ((difft.filter fun d => decide (d < 93 / 100 * dt)).length : Rat) / n
  let large : Rat := ((difft.filter fun d => decide (107 / 100 * dt < d)).length : Rat) / n
  (decide (1 / 100 < small), decide (1 / 100 < large))

/-- the whole routine for a time-sorted record; `despiker` is `despike*(olddata[keep]).pv`;
`none` = the routine raises -/
def fixtimeFull (told : List Rat) (data : List Sample) (sortvec : Option (List Nat)) (o : FixOpts)
    (despiker : List Nat → List Bool) : Option FixResult :=
  let n := told.length
  -- _del_drops
  let drop0 := findDrops data o.dropval
  let drop := match o.spikeN with
    | some w => if drop0.any id then delLoners drop0 w else drop0
    | none => drop0
  let keep0 := if o.deldrops then nonzeroIdx (drop.map not) else List.range n
  let dropouts := if o.deldrops then some (nonzeroIdx drop) else none
  if o.deldrops && keep0.isEmpty then
    some ⟨true, told, List.range n, dropouts.map (applySortvec sortvec), [], none,
      applySortvec sortvec (nonzeroIdx drop), List.range n, 0, none, [], false, false, 0⟩
  else
  -- _del_outtimes
  let ko := delOuttimes told keep0 o.delout
  let keep1 := ko.1
  let outtimes := ko.2
  -- _sr_calcs
  match srCalcs (diffsQ (keep1.filterMap fun i => told[i]?)) with
  | none => none
  | some st =>
    let sr : Rat := match o.sr with
      | some s => s
      | none => st.defsr
    let dt : Rat := 1 / sr
    -- _del_spikes / _post_despike
    let spikes : Option (List Nat) := match o.spikeN with
      | some w =>
          let pv := despiker keep1
          let pv' := if pv.any id then delLoners pv w else pv
          some (selectBy keep1 pv' true)
      | none => none
    -- _get_alldrops
    let mask0 := (alldropsMask n dropouts outtimes o.delout).zipWith (· || ·)
      ((List.range n).map fun i => match spikes with
        | some s => s.contains i
        | none => false)
    let mask := match o.spikeN, spikes with
      | some w, some _ => delLoners mask0 w 3
      | _, _ => mask0
    let keep := nonzeroIdx (mask.map not)
    let told' := keep.filterMap fun i => told[i]?
    let warn := checkDtSize (diffsQ told') dt
    -- _mk_initial_tnew
    match mkInitialTnew told' sr with
    | none => none
    | some tn =>
      if o.hold && (decide (o.tol < 0) || decide (1 < o.tol)) then none else
      let idx : Option (List Int) :=
        if o.hold then some (tn.tnew.map fun t => ((prevIdx (told'.map (· - dt * o.tol)) t : Nat) : Int))
        else tn.tnew.mapM (closest told')
      match idx.bind (take keep) with
      | none => none
      | some src =>
        let t1 : Rat := match o.base, tn.tnew.head? with
          | some b, some t0 => baseShift t0 b sr
          | _, _ => 0
        let tnew := match o.base with
          | some _ => tn.tnew.map (· + t1)
          | none => tn.tnew
        some ⟨false, tnew, src, dropouts.map (applySortvec sortvec), applySortvec sortvec outtimes,
          spikes.map (applySortvec sortvec), applySortvec sortvec (nonzeroIdx mask), keep, sr, some st,
          tn.tp, warn.1, warn.2, t1⟩

end PyYetiVerif.Fixtime
