import PyYetiVerif.Model.Bulk
import PyYetiVerif.Model.PyFloat
/-
The real-valued fields of the C13 writers, rendered by the bit-exact model of CPython's float formatting of C12
(`Model/PyFloat.lean`: `fmtE`, `fmtF`, correctly rounded on the exact binary value).  Core Lean only.

  pyE w p ec x    `'{:w.pE}'.format(x)` (`ec = 'E'`), `'{:w.pe}'.format(x)` (`ec = 'e'`), and with `ec = 'D'` what
                  `wtdmig` writes for the double-precision types (`num_str.replace("E", "D")`)
  pyF w p x       `'{:w.pf}'.format(x)`

used by  wtdmig `_dmig_field`: `{:16.9E}`, fallback `{:16.8E}` (→ `D`),  wttabled1 default `{:16.9E}{:16.9E}`,  wtcoordcards `{:16.8e}`,
wtgrids / uset2bulk default `{:16.8f}`.  A value is a finite double given as `(-1)^neg · num / den` (`PyFloat.Dbl`,
decoded from its bit pattern by `PyFloat.ofBits`).
-/
namespace PyYetiVerif.Bulk
open PyYetiVerif.PyFloat (Dbl fmtE fmtF ofBits)

def pyE (w p : Nat) (ec : Char) (x : Dbl) : Txt := padL w ((fmtE p x).map fun c => if c = 'e' then ec else c)

def pyF (w p : Nat) (x : Dbl) : Txt := padL w (fmtF p x)

/-- a double from its bit pattern (inf / nan are outside the model: `+0.0`) -/
def dblOf (bits : Nat) : Dbl := (ofBits bits).getD ⟨false, 0, 1⟩

/-- `wtdmig` with the value fields written by `fmt` (a term of `d.m` is a code of the value, `(0, 0)` = zero) -/
def Dmig.linesF (fmt : Int → Txt) (d : Dmig) : List Txt :=
  let header : Txt := padR 8 (txt "DMIG") ++ padR 8 d.name ++ padL 8 (dec 0) ++ padL 8 (dec d.form) ++
    padL 8 (dec d.mtype) ++ padL 8 (dec 0) ++ padL 8 (dec 0) ++ blanks 8 ++ padL 8 (dec d.ncol)
  header :: d.cards.flatMap fun c =>
    (padR 8 (txt "DMIG*") ++ padR 16 d.name ++ padL 16 (dec c.1.1) ++ padL 16 (dec c.1.2)) ::
      c.2.map fun e =>
        padR 8 ['*'] ++ padL 16 (dec e.1.1) ++ padL 16 (dec e.1.2) ++ fmt e.2.1 ++
          (if d.mtype < 3 then [] else fmt e.2.2)

/-- the value a term code stands for: the double with that bit pattern (code 0 = `+0.0` = a zero term) -/
def termVal (v : Int) : Dbl := dblOf v.toNat

/-- `_dmig_field(num)` (fix 4411a34), then `E → ec`: `f"{num:16.9E}"`, or `f"{num:16.8E}"` when that is longer than the
16-column field (a negative value with a three-digit exponent) -/
def dmigFld (ec : Char) (x : Dbl) : Txt :=
  if (fmtE 9 x).length ≤ 16 then pyE 16 9 ec x else pyE 16 8 ec x

/-- the value field of `wtdmig`: `_dmig_field(num)`, `E → D` for the double-precision types -/
def Dmig.fmtR (d : Dmig) (v : Int) : Txt := dmigFld (if d.mtype % 2 = 0 then 'D' else 'E') (termVal v)

/-- `wtdmig` of a real / complex valued frame -/
def Dmig.linesR (d : Dmig) : List Txt := d.linesF d.fmtR

end PyYetiVerif.Bulk
