import PyYetiVerif.Model.SuCoefCoupled
/-!
Model of `SolveExp1.tsolve` (pyyeti/ode/solveexp1.py), the first-order solver `yd - A y = f` (C01).
Core Lean only.

Source transcribed:

    nt = force.shape[1]
    d = np.zeros((self.n, nt))                      -> `exp1HistDtype`: float64 whatever the force dtype
    if d0 is not None: d[:, 0] = d0
    else:              d0 = np.zeros(self.n, float) -> `exp1Init`
    if self.order == 1: PQF = self.P @ force[:, :-1] + self.Q @ force[:, 1:]
    else:               PQF = self.P @ force[:, :-1]
    for j in range(1, nt):
        d0 = d[:, j] = E @ d0 + PQF[:, j - 1]       -> `exp1Step`, `runExp1`
    return SimpleNamespace(d=d, v=force + self.A @ d, …)   -> `exp1Velo`, `exp1VeloDtype`

`E, P, Q` (`expmint.getEPQ(A, h, order)`, full size: `half=False`) are INPUTS; `Props/C01Exp1.lean` states
what they must satisfy (`ExpSpec`), the correspondence check feeds the implementation's own values.

Storing into the history array converts to the array's dtype.  The chained assignment
`d0 = d[:, j] = rhs` binds `d0` to the *unconverted* right-hand side, so the recurrence state is
never converted, only the recorded history is (`store`).  With the source's float64 history the
conversion is the identity on doubles; `runExp1` keeps the conversion visible so that the statement
"the history is the exact recurrence" (`Props/C01Exp1.exp1_history_not_converted`) has content.
-/
namespace PyYetiVerif.SuCoef

/-- the numpy dtypes a force array can arrive with -/
inductive Dtype
  | int64
  | float32
  | float64
  | complex128
  deriving DecidableEq, Repr, Inhabited

def Dtype.name : Dtype → String
  | .int64 => "int64" | .float32 => "float32" | .float64 => "float64" | .complex128 => "complex128"

/-- `d = np.zeros((self.n, nt))`: the dtype of the returned history -/
def exp1HistDtype (_force : Dtype) : Dtype := .float64

/-- `v = force + self.A @ d` with a real `A`: numpy's promotion of the force dtype with float64 -/
def exp1VeloDtype : Dtype → Dtype
  | .complex128 => .complex128
  | _ => .float64

/-- `E, P, Q` of `getEPQ(A, h, order)` (`Q` unused for order 0) -/
structure Exp1Coef (α : Type) (n : Nat) where
  E : Fin n → Fin n → α
  P : Fin n → Fin n → α
  Q : Fin n → Fin n → α

section exp1
variable {α : Type} [Add α] [Mul α] [Zero α] {n : Nat}

/-- `d0 = np.zeros(self.n, float)` when no initial state is given -/
def exp1Init (d0 : Option (Fin n → α)) : Fin n → α :=
  match d0 with
  | some y => y
  | none => fun _ => 0

/-- one step: `E @ d0 + PQF[:, j-1]`, `PQF = P @ f0 + Q @ f1` (order 1) or `P @ f0` (order 0) -/
def exp1Step (order1 : Bool) (c : Exp1Coef α n) (y f0 f1 : Fin n → α) : Fin n → α :=
  fun j => dotFin (c.E j) y + (if order1 then dotFin (c.P j) f0 + dotFin (c.Q j) f1 else dotFin (c.P j) f0)

/-- the loop of `SolveExp1.tsolve`: one recorded sample per force sample; `store` is the conversion
to the history dtype (applied to what is recorded, not to the running state) -/
def runExp1 (order1 : Bool) (store : α → α) (c : Exp1Coef α n) (y : Fin n → α) :
    List (Fin n → α) → List (Fin n → α)
  | [] => []
  | [_] => [fun j => store (y j)]
  | f0 :: f1 :: fs =>
    let m := Memo.ofFn (exp1Step order1 c y f0 f1)
    (fun j => store (y j)) :: runExp1 order1 store c m.get (f1 :: fs)

/-- `v = force + self.A @ d`, one sample -/
def exp1Velo (A : Fin n → Fin n → α) (f d : Fin n → α) : Fin n → α :=
  fun j => f j + dotFin (A j) d

/-- `SolveExp1(A, h, order).tsolve(force, d0)`: the `(d, v)` samples -/
def exp1Solve (order1 : Bool) (store : α → α) (A : Fin n → Fin n → α) (c : Exp1Coef α n)
    (d0 : Option (Fin n → α)) (force : List (Fin n → α)) : List ((Fin n → α) × (Fin n → α)) :=
  (force.zip (runExp1 order1 store c (exp1Init d0) force)).map fun (f, d) => (d, exp1Velo A f d)

end exp1

end PyYetiVerif.SuCoef
