import PyYetiVerif.Model.RigidBody
import PyYetiVerif.Model.Coord
/-
Second part of the model of pyyeti/cb.py for property C06 (extension round):

  cb._solve_eig        `colAny`, `eigKeep`, `massKeep`, `massless`, `guyanK`, `psiResid`, `guyanExpand`,
                       `nullExpand`                                  (cb.py:2291-2352)
  cb._cbcoordchk       zero-stiffness trimming: `coordKeep`, `trimRef`, `nullExpand` (cb.py:2082-2094,
                       2144-2148)
  cb._rbdispchk        `rbdispBlocks`, `rbdispNode`, `rbdispErr`, `rbdispWarn`       (cb.py:1869-1889)
  cb.mk_net_drms       `netDrm` (`rb.T @ Mcb[bset_if]`, cb.py:1321-1322, 1352-1353), `resultant`
  cb.rbmultchk         `rbmult` (`drm[:, bset] @ rb`, cb.py:1533-1537)
  cb.cbtf at 0 Hz      `cbtfStaticFrc`, `cbtfStaticRhs` (cb.py:243-255 with `pvnz` false)

Core Lean only.  `linalg.solve` enters as data with a stated specification (`psi`), or - for the 3x3
systems of `_rbdispchk` - as the adjugate inverse `Coord.M3.inv` (exact over a field; the
correspondence is numeric).
-/
namespace PyYetiVerif.RigidBody

/-- a tabulated matrix: `get` agrees with the matrix it was made from on its `rows x cols` block.  (Two fields on
purpose: the compiler erases one-field structures, and a function-valued result would be re-evaluated at every
access by the `Float` driver.) -/
structure Tbl (α : Type) where
  get : NMat α
  rows : Nat

/-- how a model tabulates intermediate matrices: semantically the identity (`Memo.id`, what the theorems are about);
the `Float` driver passes one that fills an `Array` once -/
abbrev Memo (α : Type) := Nat → Nat → NMat α → Tbl α

def Memo.id {α : Type} : Memo α := fun nr _ A => ⟨A, nr⟩

@[simp] theorem Memo.id_get {α : Type} (nr nc : Nat) (A : NMat α) : (Memo.id nr nc A).get = A := rfl

/-- numpy truthiness (`x != 0`) as `ndarray.any` evaluates it -/
class NzTest (α : Type) where
  nz : α → Bool

instance : NzTest Float := ⟨fun x => x != 0⟩

/-- positions of the `true` entries of a list, counted from `i` (`mask.nonzero()[0]`) -/
def idxWhere : List Bool → Nat → List Nat
  | [], _ => []
  | b :: t, i => if b then i :: idxWhere t (i + 1) else idxWhere t (i + 1)

/-- `mask.nonzero()[0]` for a mask given as a function on `range n` -/
def whereTrue (n : Nat) (p : Nat → Bool) : List Nat := (List.range n).filter p

section trim
variable {α : Type} [Add α] [Sub α] [Mul α] [Neg α] [OfNat α 0] [OfNat α 1]

/-- `A.any(axis=0)[j]` for a matrix with `n` rows -/
def colAny [NzTest α] (n : Nat) (A : NMat α) (j : Nat) : Bool :=
  (List.range n).any fun i => NzTest.nz (A i j)

/-! ### cb._solve_eig -/

/-- `nz = m.any(axis=0) | k.any(axis=0)` (cb.py:2292): the DOF kept for the free-free problem -/
def eigKeep [NzTest α] (n : Nat) (m k : NMat α) : List Nat :=
  whereTrue n fun j => colAny n m j || colAny n k j

/-- `nz_m = m.any(axis=0)` on the trimmed mass (cb.py:2311): DOF with mass -/
def massKeep [NzTest α] (n1 : Nat) (m1 : NMat α) : List Nat := whereTrue n1 (colAny n1 m1)

/-- `z_m = ~nz_m`: massless DOF (they have stiffness, the null columns are gone already) -/
def massless [NzTest α] (n1 : Nat) (m1 : NMat α) : List Nat := whereTrue n1 fun j => !colAny n1 m1 j

/-- `k[xx] + k[xz] @ psi` (cb.py:2325).  `xs`/`zs` enumerate the DOF with / without mass, `nz` is
the number of massless DOF, `psi = linalg.solve(-k[zz], k[zx])` is supplied (external kernel with
the specification `psiResid = 0`) -/
def guyanK (nz : Nat) (k : NMat α) (xs zs : Nat → Nat) (psi : NMat α) : NMat α := fun i j =>
  k (xs i) (xs j) + sumN nz fun t => k (xs i) (zs t) * psi t j

/-- `(-k[zz]) @ psi - k[zx]`: the residual of the specification of `psi` -/
def psiResid (nz : Nat) (k : NMat α) (xs zs : Nat → Nat) (psi : NMat α) : NMat α := fun t j =>
  (sumN nz fun s => -(k (zs t) (zs s)) * psi s j) - k (zs t) (xs j)

/-- back expansion of the reduced eigenvectors (cb.py:2342-2346): `v2[nz_m] = v`, `v2[z_m] = psi @ v`;
`xl`/`zl` list the DOF with / without mass, `nx = xl.length` -/
def guyanExpand (nx : Nat) (xl zl : List Nat) (psi v : NMat α) : NMat α := fun i c =>
  match idxIn xl i with
  | some a => v a c
  | none => match idxIn zl i with
    | some t => sumN nx fun a => psi t a * v a c
    | none => 0

/-- `v2[nz] = v; v2[z] = 0` (cb.py:2348-2352; also cb.py:2144-2148 in `_cbcoordchk`): rows listed in
`keep` take the rows of `v` in order, all others are zero -/
def nullExpand (keep : List Nat) (v : NMat α) : NMat α := fun i c =>
  match idxIn keep i with
  | some a => v a c
  | none => 0

/-! ### cb._cbcoordchk: zero-stiffness trimming -/

/-- `nz = kbb.any(axis=0)` (cb.py:2084) -/
def coordKeep [NzTest α] (lb : Nat) (kbb : NMat α) : List Nat := whereTrue lb (colAny lb kbb)

/-- `refpoint_bool[nz].nonzero()[0]` (cb.py:2089-2091): positions, inside the kept DOF, of the
reference DOF - ascending, whatever the order of `ref` was -/
def trimRef (keep ref : List Nat) : List Nat := idxWhere (keep.map fun x => ref.contains x) 0

/-! ### cb.mk_net_drms / cb.rbmultchk -/

/-- `rb.T @ M[bset_if]` (cb.py:1321, 1352): net-force recovery matrix; `bi k` is the matrix row of
the `k`-th interface DOF, `nbi` their number -/
def netDrm (nbi : Nat) (rb M : NMat α) (bi : Nat → Nat) : NMat α := fun i j =>
  sumN nbi fun k => rb k i * M (bi k) j

/-- `drm[:, bset] @ rb` (cb.py:1533-1537) -/
def rbmult (nb : Nat) (drm rb : NMat α) (bset : Nat → Nat) : NMat α := fun i j =>
  sumN nb fun k => drm i (bset k) * rb k j

/-- resultant at the reference point `r` of forces/moments `F` (six per grid: force, moment, basic
axes) acting at the grids `p g`: component 0-2 the force sum, 3-5 the sum of
`m_g + (p_g - r) × f_g` -/
def resultant (ng : Nat) (p : Nat → V3 α) (r : V3 α) (F : Nat → α) (j : Nat) : α :=
  sumN ng fun g =>
    let dx := (p g).x - r.x
    let dy := (p g).y - r.y
    let dz := (p g).z - r.z
    let fx := F (6 * g)
    let fy := F (6 * g + 1)
    let fz := F (6 * g + 2)
    pick6 j fx fy fz
      (F (6 * g + 3) + (dy * fz - dz * fy))
      (F (6 * g + 4) + (dz * fx - dx * fz))
      (F (6 * g + 5) + (dx * fy - dy * fx))

/-! ### cb.cbtf at 0 Hz -/

/-- right-hand side of the q-set solve at 0 Hz: `f = b[qb] @ 0 - m[qb] @ a` (cb.py:243-245 with
`pvnz` false) -/
def cbtfStaticRhs (nb : Nat) (M : NMat α) (bset qset : Nat → Nat) (a : Nat → α) : Nat → α := fun i =>
  -(sumN nb fun k => M (qset i) (bset k) * a k)

/-- boundary force at 0 Hz: `m[bset] @ accel` with `accel[bset] = a`, `accel[qset] = 0`, zero velocity
and zero boundary displacement (cb.py:248-255) -/
def cbtfStaticFrc (nb : Nat) (M : NMat α) (bset : Nat → Nat) (a : Nat → α) : Nat → α := fun i =>
  sumN nb fun k => M (bset i) (bset k) * a k

end trim

/-! ### cb._rbdispchk -/

section disp
variable {α : Type} [Add α] [Sub α] [Mul α] [Div α] [Neg α] [OfNat α 0] [OfNat α 1]

/-- what `_rbdispchk` extracts for one node (cb.py:1871-1878): coordinates, diagonal of `rb`,
and the three differences `delta - delta2` -/
structure DispChk (α : Type) where
  coords : Coord.V3 α
  diag : Coord.V3 α
  skew : Coord.V3 α

/-- rows `3 j .. 3 j + 2` of `rbdisp`: `T = [:, :3]` and the right half `[:, 3:]` -/
def rbdispBlocks (rb : NMat α) (j : Nat) : Coord.M3 α × Coord.M3 α :=
  let row (a : Nat) (c : Nat) : Coord.V3 α := ⟨rb (3 * j + a) c, rb (3 * j + a) (c + 1), rb (3 * j + a) (c + 2)⟩
  (⟨row 0 0, row 1 0, row 2 0⟩, ⟨row 0 3, row 1 3, row 2 3⟩)

/-- `rb = solve(T, rbdisp[row:row+3, 3:])` and the pattern read off it -/
def rbdispNode (T TR : Coord.M3 α) : DispChk α :=
  let R := T.inv.mul TR
  ⟨⟨R.r1.z, R.r2.x, R.r0.y⟩, ⟨R.r0.x, R.r1.y, R.r2.z⟩,
   ⟨R.r1.z - -R.r2.y, R.r2.x - -R.r0.z, R.r0.y - -R.r1.x⟩⟩

/-- Python's `max(a, b)`: the second only when it is greater -/
def pyMax [RbOps α] (a b : α) : α := if RbOps.gt b a then b else a

/-- `err = max(abs(diag(rb)).max(), |dx - dx2|, |dy - dy2|, |dz - dz2|)` (cb.py:1879-1884) -/
def rbdispErr [RbOps α] (d : DispChk α) : α :=
  let a := RbOps.abs
  pyMax (pyMax (pyMax (pyMax (pyMax (a d.diag.x) (a d.diag.y)) (a d.diag.z)) (a d.skew.x)) (a d.skew.y))
    (a d.skew.z)

/-- `mc = abs(coords[j]).max()` and the warning test `err > mc * tol` (cb.py:1888-1889) -/
def rbdispWarn [RbOps α] (d : DispChk α) (tol : α) : Bool :=
  let a := RbOps.abs
  let mc := pyMax (pyMax (a d.coords.x) (a d.coords.y)) (a d.coords.z)
  RbOps.gt (rbdispErr d) (mc * tol)

end disp

end PyYetiVerif.RigidBody
