import PyYetiVerif.Model.Coord
/-!
Model of the chaining bookkeeping of `pyyeti.nastran.n2p.build_coords` / `mkusetcoordinfo`
(property C14): coordinate-system ids, reference order, refusal of unknown / circular references
and of unequal duplicates.  Exact (ids are `Nat`, no floating point in the control flow).

`build_coords(cords)`:
  1. `sortCards`    rows sorted by id                       (`np.argsort(cords[:, 0])`)
  2. `dedupe`       equal neighbours dropped, unequal ones raise
  3. `levelLoop`    `selected[pv] = loop` sweeps: level 1 = cards referring to 0, level k+1 = cards
                    referring to a card of level k; an empty sweep raises "Could not resolve"
  4. `levelOrder`   `np.argsort(selected)` (stable: level by level, each in id order)
  5. `addCard`      `mkusetcoordinfo(card, None, coordref)` for each card in that order: a known id
                    returns the stored value without looking at the card, otherwise the reference is
                    looked up (error if unknown) and the A-B-C construction `mkCoord` is stored.

Core Lean only.
-/
namespace PyYetiVerif.Coord

/-- one CORD2x card: id, reference id, and the rest (type, A, B, C) -/
structure Card (β : Type) where
  cid : Nat
  ref : Nat
  body : β

instance {β : Type} [BEq β] : BEq (Card β) where
  beq a b := a.cid == b.cid && a.ref == b.ref && a.body == b.body

inductive BuildErr where
  /-- `RuntimeError: duplicate but unequal coordinate systems detected. cid = …` -/
  | dupUnequal (cid : Nat)
  /-- `RuntimeError: Could not resolve coordinate systems. Need these coordinate cards: …` -/
  | unresolved (need : List Nat)
  /-- `ValueError: reference coordinate id … not found` (from `mkusetcoordinfo`) -/
  | refMissing (cid ref : Nat)
  /-- the `while` loop of the real code would not terminate (only with a card whose id is 0) -/
  | diverges
  deriving DecidableEq, Repr

section generic
variable {β : Type}

/-- rows sorted by id -/
def sortCards (l : List (Card β)) : List (Card β) := l.mergeSort fun a b => a.cid ≤ b.cid

/-- on a list sorted by id: `np.all(cords[i] == cords[i + 1])` for neighbours with the same id -/
def dedupe [BEq β] : List (Card β) → Except BuildErr (List (Card β))
  | [] => .ok []
  | [a] => .ok [a]
  | a :: b :: rest =>
    if a.cid = b.cid then
      if a == b then dedupe (b :: rest) else .error (.dupUnequal a.cid)
    else (dedupe (b :: rest)).map (a :: ·)

/-- one sweep: cards whose reference is in `front` get level `loop` -/
def sweep (front : List Nat) (loop : Nat) (sel : List (Card β × Nat)) : List (Card β × Nat) :=
  sel.map fun p => if front.contains p.1.ref then (p.1, loop) else p

/-- ids of the cards hit by a sweep (`ref_ids = cords[pv, 0]`) -/
def hits (front : List Nat) (sel : List (Card β × Nat)) : List Nat :=
  (sel.filter fun p => front.contains p.1.ref).map (·.1.cid)

/-- the `while np.any(selected == 0)` loop; `sel` pairs every card with its `selected` entry -/
def levelLoop : Nat → List Nat → Nat → List (Card β × Nat) → Except BuildErr (List (Card β × Nat))
  | 0, _, _, _ => .error .diverges
  | fuel + 1, front, loop, sel =>
    if sel.all (fun p => p.2 != 0) then .ok sel
    else
      let h := hits front sel
      if h.isEmpty then .error (.unresolved front)
      else levelLoop fuel h (loop + 1) (sweep front loop sel)

/-- `J = np.argsort(selected)`: level by level -/
def levelOrder (sel : List (Card β × Nat)) : List (Card β) :=
  (List.range (sel.length + 1)).flatMap fun k => (sel.filter fun p => p.2 == k + 1).map (·.1)

/-- steps 1–4: the cards in the order in which `build_coords` resolves them, with their levels -/
def buildLevels [BEq β] (cards : List (Card β)) : Except BuildErr (List (Card β × Nat)) := do
  let cs ← dedupe (sortCards cards)
  levelLoop (cs.length + 1) [0] 1 (cs.map fun c => (c, 0))

def buildOrder [BEq β] (cards : List (Card β)) : Except BuildErr (List (Card β)) :=
  (buildLevels cards).map levelOrder

end generic

/-! ### resolution (`mkusetcoordinfo` with a `coordref` dictionary) -/

structure CsBody (α : Type) where
  typ : CType
  A : V3 α
  B : V3 α
  C : V3 α

instance {α : Type} [BEq α] : BEq (V3 α) where
  beq a b := a.x == b.x && a.y == b.y && a.z == b.z

instance {α : Type} [BEq α] : BEq (CsBody α) where
  beq a b := decide (a.typ = b.typ) && a.A == b.A && a.B == b.B && a.C == b.C

section resolve
variable {α : Type} [Add α] [Sub α] [Mul α] [Div α] [Neg α] [OfNat α 0] [OfNat α 1]
  [OfNat α 180] [TransOps α]

/-- the `coordref` dictionary in insertion order -/
abbrev CoordRef (α : Type) := List (Nat × CoordInfo α)

/-- `addgrid` makes sure `coordref[0]` is the basic system -/
def coordRef0 : CoordRef α := [(0, basic)]

/-- `mkusetcoordinfo(card, None, coordref)` -/
def addCard (dict : CoordRef α) (c : Card (CsBody α)) : Except BuildErr (CoordRef α) :=
  match dict.lookup c.cid with
  | some _ => .ok dict                      -- "return coordref[cid]": the card is not looked at
  | none =>
    match dict.lookup c.ref with
    | none => .error (.refMissing c.cid c.ref)
    | some r => .ok (dict ++ [(c.cid, mkCoord r c.body.typ c.body.A c.body.B c.body.C)])

/-- cards given one at a time, in the given order (no sorting) -/
def addCards (dict : CoordRef α) (cs : List (Card (CsBody α))) : Except BuildErr (CoordRef α) :=
  cs.foldlM addCard dict

/-- `build_coords` (an empty array returns the empty dictionary, without the basic system) -/
def buildCoords [BEq α] (cards : List (Card (CsBody α))) : Except BuildErr (CoordRef α) :=
  if cards.isEmpty then .ok [] else do
    let order ← buildOrder cards
    addCards coordRef0 order

end resolve

end PyYetiVerif.Coord
