import PyYetiVerif.Generated.CoordConsts
/-
Model of the coordinate-system and rigid-body geometry of pyyeti/nastran/n2p.py (property C14):

* `toRect` / `fromRect`      forward / inverse maps of rectangular, cylindrical and spherical
                             systems (degrees), as in `_get_loc_a_basic`, `mkusetcoordinfo`,
                             `getcoordinates` (including the `|sin φ| > |cos φ|` branch choice);
* `abcTriad`, `mkCoord`      the A-B-C construction of `T` (cross products + normalisation) and the
                             chaining  location = ref.origin + ref.T·a,  T = ref.T·[x y z]
                             (`mkusetcoordinfo`), `resolve` for a whole chain (`build_coords`);
* `locBasic`, `getCoordinates`   `addgrid` / `getcoordinates`;
* `rigid`, `gridRb`, `usetRb`    `rbgeom` rows and the local-frame rotations `rbgeom_uset` applies for
                             cylindrical / spherical output systems; zero rows for scalar points
                             and q-set grids;
* `rbmoveRow`, `Rb.mul`      `rbmove`;   `rbcoordsGrid`  `rbcoords` (3x3 inverse by adjugate);
* `gaussSolve`               Gaussian elimination (the `Float` stand-in for `scipy.linalg.solve`);
                             `formrbe3` itself is modelled in `Model/CoordRbe3.lean` / `Model/CoordRbe3Wrap.lean`, the id / reference
                             bookkeeping of `build_coords` in `Model/CoordChain.lean`;
* `replaceBasic`             `replace_basic_cs`;   `cardOf`  `mkcordcardinfo`.

Core Lean only (no Mathlib).  The two thresholds (`tiny`, `tiny12`) are read from
`Generated/CoordConsts.lean`, which harness/translate/c14_coordconsts.py regenerates from n2p.py.  Every definition is polymorphic over operation classes and a small
`TransOps` class; it is run at `Float` by `Drivers/C14.lean` and reasoned about at `ℝ` in
`Lemmas/Coord.lean`, `Props/C14.lean`.
-/
namespace PyYetiVerif.Coord
open PyYetiVerif.Generated

/-- transcendental operations and constants the formulas need (`atan2 y x`) -/
class TransOps (α : Type) where
  sin : α → α
  cos : α → α
  sqrt : α → α
  atan2 : α → α → α
  abs : α → α
  pi : α
  /-- `1e-8`: the threshold below which `rbgeom_uset` skips a polar fix-up -/
  tiny : α
  /-- `1e-12`: the threshold of the characteristic length in `formrbe3` -/
  tiny12 : α
  ofNat : Nat → α

instance : TransOps Float where
  sin := Float.sin
  cos := Float.cos
  sqrt := Float.sqrt
  atan2 := Float.atan2
  abs := Float.abs
  pi := 3.141592653589793
  tiny := Float.ofBits CoordConsts.tinyBits
  tiny12 := Float.ofBits CoordConsts.tiny12Bits
  ofNat := Float.ofNat

@[ext] structure V3 (α : Type) where
  x : α
  y : α
  z : α

/-- 3x3 matrix stored by rows -/
@[ext] structure M3 (α : Type) where
  r0 : V3 α
  r1 : V3 α
  r2 : V3 α

inductive CType where
  | rect | cyl | sph
  deriving DecidableEq, Repr

/-- resolved coordinate system (`coordinfo` rows 1–4 of the 5x3 array): type, origin in basic,
transform to basic -/
structure CoordInfo (α : Type) where
  typ : CType
  origin : V3 α
  T : M3 α

/-- the 6x6 block of rigid-body modes of one grid: `[tl tr; bl br]` -/
@[ext] structure Rb (α : Type) where
  tl : M3 α
  tr : M3 α
  bl : M3 α
  br : M3 α

open TransOps

section ops
variable {α : Type} [Add α] [Sub α] [Mul α] [Div α] [Neg α] [OfNat α 0] [OfNat α 1]

namespace V3
def add (a b : V3 α) : V3 α := ⟨a.x + b.x, a.y + b.y, a.z + b.z⟩
def sub (a b : V3 α) : V3 α := ⟨a.x - b.x, a.y - b.y, a.z - b.z⟩
def smul (k : α) (a : V3 α) : V3 α := ⟨k * a.x, k * a.y, k * a.z⟩
def sdiv (a : V3 α) (k : α) : V3 α := ⟨a.x / k, a.y / k, a.z / k⟩
def dot (a b : V3 α) : α := a.x * b.x + a.y * b.y + a.z * b.z
def cross (a b : V3 α) : V3 α :=
  ⟨a.y * b.z - a.z * b.y, a.z * b.x - a.x * b.z, a.x * b.y - a.y * b.x⟩
def zero : V3 α := ⟨0, 0, 0⟩
def toList (a : V3 α) : List α := [a.x, a.y, a.z]
end V3

namespace M3
def one : M3 α := ⟨⟨1, 0, 0⟩, ⟨0, 1, 0⟩, ⟨0, 0, 1⟩⟩
def zero : M3 α := ⟨V3.zero, V3.zero, V3.zero⟩
def col0 (m : M3 α) : V3 α := ⟨m.r0.x, m.r1.x, m.r2.x⟩
def col1 (m : M3 α) : V3 α := ⟨m.r0.y, m.r1.y, m.r2.y⟩
def col2 (m : M3 α) : V3 α := ⟨m.r0.z, m.r1.z, m.r2.z⟩
def transpose (m : M3 α) : M3 α := ⟨m.col0, m.col1, m.col2⟩
/-- the matrix whose columns are `x y z` (`np.vstack((x, y, z)).T`) -/
def ofCols (x y z : V3 α) : M3 α := transpose ⟨x, y, z⟩
def mulVec (m : M3 α) (v : V3 α) : V3 α := ⟨m.r0.dot v, m.r1.dot v, m.r2.dot v⟩
/-- row vector times matrix -/
def vecMul (v : V3 α) (m : M3 α) : V3 α := ⟨v.dot m.col0, v.dot m.col1, v.dot m.col2⟩
def mul (a b : M3 α) : M3 α := ⟨vecMul a.r0 b, vecMul a.r1 b, vecMul a.r2 b⟩
def add (a b : M3 α) : M3 α := ⟨a.r0.add b.r0, a.r1.add b.r1, a.r2.add b.r2⟩
def det (m : M3 α) : α := m.r0.dot (m.r1.cross m.r2)
/-- inverse by the adjugate -/
def inv (m : M3 α) : M3 α :=
  let d := m.det
  ofCols ((m.r1.cross m.r2).sdiv d) ((m.r2.cross m.r0).sdiv d) ((m.r0.cross m.r1).sdiv d)
end M3

/-- `[[0, z, -y], [-z, 0, x], [y, -x, 0]]` — the right upper block of `rbgeom` (minus the
cross-product matrix of `d`) -/
def skewNeg (d : V3 α) : M3 α := ⟨⟨0, d.z, -d.y⟩, ⟨-d.z, 0, d.x⟩, ⟨d.y, -d.x, 0⟩⟩

/-- `rbgeom` block of a grid at offset `d` from the reference point: `[I, -(d×); 0, I]` -/
def rigid (d : V3 α) : Rb α := ⟨M3.one, skewNeg d, M3.zero, M3.one⟩

namespace Rb
/-- `t @ rb[i:i+3]`, `t @ rb[i+3:i+6]` -/
def lmul (t : M3 α) (r : Rb α) : Rb α := ⟨t.mul r.tl, t.mul r.tr, t.mul r.bl, t.mul r.br⟩
/-- 6x6 block product -/
def mul (a b : Rb α) : Rb α :=
  ⟨(a.tl.mul b.tl).add (a.tr.mul b.bl), (a.tl.mul b.tr).add (a.tr.mul b.br),
   (a.bl.mul b.tl).add (a.br.mul b.bl), (a.bl.mul b.tr).add (a.br.mul b.br)⟩
/-- the block applied to a rigid motion (translation `u`, rotation `w` of the reference point) -/
def apply (r : Rb α) (u w : V3 α) : V3 α × V3 α :=
  ((r.tl.mulVec u).add (r.tr.mulVec w), (r.bl.mulVec u).add (r.br.mulVec w))
/-- the six rows, each as (translation part, rotation part) -/
def rows (r : Rb α) : List (V3 α × V3 α) :=
  [(r.tl.r0, r.tr.r0), (r.tl.r1, r.tr.r1), (r.tl.r2, r.tr.r2),
   (r.bl.r0, r.br.r0), (r.bl.r1, r.br.r1), (r.bl.r2, r.br.r2)]
def zero : Rb α := ⟨M3.zero, M3.zero, M3.zero, M3.zero⟩
end Rb

/-- one row of `rb @ rbgeom(oldref, newref)`; `d = oldref - newref` -/
def rbmoveRow (d : V3 α) (row : V3 α × V3 α) : V3 α × V3 α :=
  (M3.vecMul row.1 M3.one, (M3.vecMul row.1 (skewNeg d)).add (M3.vecMul row.2 M3.one))

/-- right-handed orthonormal triad: the columns are orthonormal and `det = 1` -/
def IsFrame (m : M3 α) : Prop := m.transpose.mul m = M3.one ∧ m.det = 1

/-- the three points of a CORD2x card (already rectangular) do not lie on one line -/
def NonCollinear (a b c : V3 α) : Prop := (b.sub a).cross (c.sub a) ≠ V3.zero

/-- `coordinfo` of the basic system -/
def basic : CoordInfo α := ⟨.rect, V3.zero, M3.one⟩

/-- `mkcordcardinfo`: the A, B, C points (in basic) that reproduce a resolved system -/
def cardOf (ci : CoordInfo α) : V3 α × V3 α × V3 α :=
  (ci.origin, ci.origin.add ci.T.col2, ci.origin.add ci.T.col0)

end ops

section trans
variable {α : Type} [Add α] [Sub α] [Mul α] [Div α] [Neg α] [OfNat α 0] [OfNat α 1]
  [OfNat α 180] [TransOps α]

def norm (v : V3 α) : α := sqrt (v.dot v)
def normalize (v : V3 α) : V3 α := v.sdiv (norm v)

/-- `a2r = math.pi / 180.0` -/
def a2r : α := pi / 180

/-- coordinates in a system of type `t` → rectangular components in that system's axes -/
def toRect : CType → V3 α → V3 α
  | .rect, a => a
  | .cyl, a => ⟨a.x * cos (a.y * a2r), a.x * sin (a.y * a2r), a.z⟩
  | .sph, a =>
      let s := sin (a.y * a2r)
      V3.smul a.x ⟨s * cos (a.z * a2r), s * sin (a.z * a2r), cos (a.y * a2r)⟩

/-- `_get_loc_a_basic` -/
def locBasic (ci : CoordInfo α) (a : V3 α) : V3 α :=
  ci.origin.add (ci.T.mulVec (toRect ci.typ a))

/-- the `[x y z]` matrix of `mkusetcoordinfo` from the points A, B, C (already rectangular) -/
def abcTriad (a b c : V3 α) : M3 α :=
  let ab := b.sub a
  let ac := c.sub a
  let z := normalize ab
  let y := normalize (z.cross ac)
  let x := normalize (y.cross z)
  M3.ofCols x y z

/-- `mkusetcoordinfo` for a 4x3 card whose reference system is `ref` -/
def mkCoord (ref : CoordInfo α) (typ : CType) (A B C : V3 α) : CoordInfo α :=
  let a := toRect ref.typ A
  let b := toRect ref.typ B
  let c := toRect ref.typ C
  ⟨typ, ref.origin.add (ref.T.mulVec a), ref.T.mul (abcTriad a b c)⟩

variable [LT α] [∀ a b : α, Decidable (a < b)]

/-- rectangular components → coordinates of type `t` (`getcoordinates`) -/
def fromRect : CType → V3 α → V3 α
  | .rect, g => g
  | .cyl, g => ⟨sqrt (g.x * g.x + g.y * g.y), atan2 g.y g.x * 180 / pi, g.z⟩
  | .sph, g =>
      let R := norm g
      let phi := atan2 g.y g.x
      let s := sin phi
      let c := cos phi
      let theta := if abs c < abs s then atan2 (g.y / s) g.z else atan2 (g.x / c) g.z
      ⟨R, theta * 180 / pi, phi * 180 / pi⟩

/-- `getcoordinates` of the basic point `p` in the system `ci` -/
def getCoordinates (ci : CoordInfo α) (p : V3 α) : V3 α :=
  fromRect ci.typ (ci.T.transpose.mulVec (p.sub ci.origin))

/-- `[[c, s], [-s, c]]` on the first two rows -/
def rotzT (th : α) : M3 α :=
  let c := cos th
  let s := sin th
  ⟨⟨c, s, 0⟩, ⟨-s, c, 0⟩, ⟨0, 0, 1⟩⟩

/-- `[[s, 0, c], [c, 0, -s], [0, 1, 0]]` -/
def sphT (th : α) : M3 α :=
  let c := cos th
  let s := sin th
  ⟨⟨s, 0, c⟩, ⟨c, 0, -s⟩, ⟨0, 1, 0⟩⟩

/-- rigid-body rows of one grid at basic location `p` whose output system is `co`, relative to
`ref` (`rbgeom_uset`, one pass of its three loops) -/
def gridRb (co : CoordInfo α) (p ref : V3 α) : Rb α :=
  let t := co.T.transpose
  let rb2 := Rb.lmul t (rigid (p.sub ref))
  match co.typ with
  | .rect => rb2
  | .cyl =>
      let loc2 := t.mulVec (p.sub co.origin)
      if tiny < abs loc2.y + abs loc2.x then
        Rb.lmul (rotzT (atan2 loc2.y loc2.x)) rb2
      else rb2
  | .sph =>
      let loc2 := t.mulVec (p.sub co.origin)
      let fix1 := tiny < abs loc2.y + abs loc2.x
      let phi := atan2 loc2.y loc2.x
      let rb3 := if fix1 then Rb.lmul (rotzT phi) rb2 else rb2
      let l0 := if fix1 then cos phi * loc2.x + sin phi * loc2.y else loc2.x
      let th := if tiny < abs loc2.z + abs l0 then atan2 l0 loc2.z else 0
      Rb.lmul (sphT th) rb3

/-- rows = unit tangent vectors `e_r, e_θ, e_z` of the cylindrical coordinate curves at the point
whose rectangular components in the system's axes are `g` -/
def cylE (g : V3 α) : M3 α :=
  let rho := sqrt (g.x * g.x + g.y * g.y)
  ⟨⟨g.x / rho, g.y / rho, 0⟩, ⟨-(g.y / rho), g.x / rho, 0⟩, ⟨0, 0, 1⟩⟩

/-- rows = unit tangent vectors `e_R, e_θ, e_φ` of the spherical coordinate curves at `g` -/
def sphE (g : V3 α) : M3 α :=
  let rho := sqrt (g.x * g.x + g.y * g.y)
  let R := norm g
  ⟨⟨g.x / R, g.y / R, g.z / R⟩,
   ⟨g.z / R * (g.x / rho), g.z / R * (g.y / rho), -(rho / R)⟩,
   ⟨-(g.y / rho), g.x / rho, 0⟩⟩

/-- `R_gridᵀ`: basic components → components along the grid's own displacement directions -/
def localFrameT (co : CoordInfo α) (p : V3 α) : M3 α :=
  let t := co.T.transpose
  match co.typ with
  | .rect => t
  | .cyl => (cylE (t.mulVec (p.sub co.origin))).mul t
  | .sph => (sphE (t.mulVec (p.sub co.origin))).mul t

/-- resolved grid: q-set flag (DOF 1 in the q-set), location in basic, output system -/
structure GridR (α : Type) where
  q : Bool
  p : V3 α
  co : CoordInfo α

def zeroRow : V3 α × V3 α := (V3.zero, V3.zero)

/-- `rbgeom_uset`: `none` = scalar point (one zero row), q-set grids get six zero rows -/
def usetRb (grids : List (Option (GridR α))) (ref : V3 α) : List (V3 α × V3 α) :=
  grids.flatMap fun
    | none => [zeroRow]
    | some g => if g.q then List.replicate 6 zeroRow else (gridRb g.co g.p ref).rows

/-- `rbcoords` for one grid's block (`lstsq` of a non-singular 3x3 = inverse) -/
def rbcoordsGrid (r : Rb α) : V3 α :=
  let R := r.tl.inv.mul r.tr
  ⟨R.r1.z, R.r2.x, R.r0.y⟩

/-- `replace_basic_cs`: new basic system given by the CORD2R points A, B, C -/
def replaceBasic (A B C : V3 α) (g : GridR α) : GridR α :=
  let T := (mkCoord basic .rect A B C).T
  ⟨g.q, (T.mulVec g.p).add A, ⟨g.co.typ, (T.mulVec g.co.origin).add A, T.mul g.co.T⟩⟩

/-! ### chains -/

structure CsSpec (α : Type) where
  ref : Nat        -- 0 = basic, k = k-th earlier system (1-based)
  typ : CType
  A : V3 α
  B : V3 α
  C : V3 α

/-- `build_coords`: resolve a chain given in reference order; entry 0 of the result is basic -/
def resolve (specs : List (CsSpec α)) : Option (List (CoordInfo α)) :=
  specs.foldlM (fun acc s => do
    let r ← acc[s.ref]?
    pure (acc ++ [mkCoord r s.typ s.A s.B s.C])) [basic]

inductive Entry (α : Type) where
  | spoint
  | grid (q : Bool) (cin : Nat) (a : V3 α) (cout : Nat)

/-- `addgrid` -/
def resolveGrids (cs : List (CoordInfo α)) (es : List (Entry α)) : Option (List (Option (GridR α))) :=
  es.mapM fun
    | .spoint => some none
    | .grid q cin a cout => do
        let ci ← cs[cin]?
        let co ← cs[cout]?
        pure (some ⟨q, locBasic ci a, co⟩)

/-- the six numbers of a row -/
def row6 (r : V3 α × V3 α) : List α := r.1.toList ++ r.2.toList

end trans

/-! ### Gaussian elimination with partial pivoting (the `Float` instance of `solve`) -/
section gauss
variable {α : Type} [Add α] [Sub α] [Mul α] [Div α] [OfNat α 0] [TransOps α] [Inhabited α]
  [LT α] [∀ a b : α, Decidable (a < b)]

def gaussSolve (A B : List (List α)) : List (List α) :=
  let n := A.length
  let M0 : Array (Array α) := (List.zipWith (fun a b => (a ++ b).toArray) A B).toArray
  let M := (List.range n).foldl (fun (M : Array (Array α)) k =>
      let p := (List.range n).foldl (fun p i =>
        if k ≤ i ∧ abs (M[p]![k]!) < abs (M[i]![k]!) then i else p) k
      let M := M.swapIfInBounds k p
      let rk := M[k]!
      let piv := rk[k]!
      (Array.range n).map fun i =>
        if i ≤ k then M[i]! else
          let f := (M[i]!)[k]! / piv
          Array.zipWith (fun a b => a - f * b) (M[i]!) rk) M0
  -- back substitution on the augmented part
  let X := (List.range n).reverse.foldl (fun (X : Array (Array α)) i =>
      let ri := M[i]!
      let rhs := ri.extract n ri.size
      let acc := (List.range n).foldl (fun acc j =>
        if i < j then Array.zipWith (fun a x => a - ri[j]! * x) acc (X[j]!) else acc) rhs
      X.set! i (acc.map (· / ri[i]!))) (Array.replicate n #[])
  X.toList.map Array.toList

end gauss

end PyYetiVerif.Coord
