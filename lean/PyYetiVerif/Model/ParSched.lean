/-
C09 — model of the shared-memory protocol used by `srs.srs(parallel='yes')` and
`fdepsd.fdepsd(parallel='yes')`: a pool of worker processes runs one task per frequency index
`j` (`imap_unordered`, any chunking, any completion order); the tasks communicate only through
module-level shared arrays (`multiprocessing.RawArray` viewed with `np.frombuffer`).

Part 1: access patterns ("footprints") as extracted from the source by
harness/translate/c09_footprint.py, and the executable well-formedness test.
Part 2: an abstract machine: tasks are deterministic step functions over a shared memory, a
schedule is any interleaving of their steps.

Core Lean only.
-/
namespace PyYetiVerif.ParSched

/-! ### Part 1: footprints -/

/-- one component of an index expression on a shared array -/
inductive Ix where
  | task            -- the task's own index `j`
  | all             -- a full slice `:`
  | const (n : Nat) -- an integer literal
  | loop            -- a local loop variable
  | whole           -- the bare array (every element)
  | other           -- anything else
deriving DecidableEq, Repr

structure Access where
  arr : String
  idx : List Ix
deriving DecidableEq, Repr

structure Footprint where
  name : String
  shared : List String
  writes : List Access
  reads : List Access
  serialSame : Bool     -- worker body = serial loop body up to the renaming of shared arrays
deriving Repr

/-- a memory cell: array name and full element index -/
abbrev Cell := String × List Nat

/-- does index pattern `p`, evaluated in task `j`, allow element index `i`?  A pattern shorter
than the element index addresses whole sub-arrays (`X_[j]` is a row). -/
def ixCovers (j : Nat) : List Ix → List Nat → Bool
  | [], _ => true
  | .whole :: _, _ => true
  | _ :: _, [] => false
  | .task :: ps, i :: is => (i == j) && ixCovers j ps is
  | .const n :: ps, i :: is => (i == n) && ixCovers j ps is
  | _ :: ps, _ :: is => ixCovers j ps is

def covers (a : Access) (j : Nat) (c : Cell) : Bool :=
  (a.arr == c.1) && ixCovers j a.idx c.2

/-- position of the task index in the first write to array `arr` -/
def taskPos (fp : Footprint) (arr : String) : Option Nat :=
  match fp.writes.find? (fun w => w.arr == arr) with
  | none => none
  | some w => some (w.idx.idxOf Ix.task)

/-- executable test: every write addresses only elements whose `taskPos`-th index is the task's
own `j`, with the same position for all accesses (reads too) of an array that is written; arrays
that are never written may be read freely. -/
def wellFormed (fp : Footprint) : Bool :=
  fp.writes.all (fun w =>
    match taskPos fp w.arr with
    | none => false
    | some p => w.idx[p]? == some Ix.task && (w.idx.take p).all (fun x => x != Ix.whole)) &&
  fp.reads.all (fun r =>
    match taskPos fp r.arr with
    | none => true
    | some p => r.idx[p]? == some Ix.task && (r.idx.take p).all (fun x => x != Ix.whole))

/-- the task that owns a cell (none: the cell belongs to a read-only array) -/
def ownerOf (fp : Footprint) (c : Cell) : Option Nat :=
  match taskPos fp c.1 with
  | none => none
  | some p => c.2[p]?

/-! ### Part 2: abstract machine -/

abbrev Mem (V : Type) := Cell → V

/-- apply a list of writes, in order -/
def applyWrites {V : Type} (ws : List (Cell × V)) (m : Mem V) : Mem V :=
  ws.foldl (fun m w => fun c => if c = w.1 then w.2 else m c) m

/-- A system of `n` tasks.  `step j l m` performs one atomic step of task `j` from local state
`l` seeing memory `m`: new local state and the writes it performs.  `halted` local states do
nothing. -/
structure System (L V : Type) where
  n : Nat
  init : Nat → L
  step : Nat → L → Mem V → L × List (Cell × V)
  halted : Nat → L → Bool

structure Global (L V : Type) where
  loc : Nat → L
  mem : Mem V

variable {L V : Type}

/-- task `j` takes one step -/
def System.fire (S : System L V) (g : Global L V) (j : Nat) : Global L V :=
  let r := S.step j (g.loc j) g.mem
  { loc := fun i => if i = j then r.1 else g.loc i, mem := applyWrites r.2 g.mem }

/-- run a schedule (a list of task ids; ids ≥ n are ignored) -/
def System.run (S : System L V) (m0 : Mem V) (sched : List Nat) : Global L V :=
  sched.foldl (fun g j => if j < S.n then S.fire g j else g) { loc := S.init, mem := m0 }

/-- task `j` running alone from `m0` for `k` steps -/
def System.solo (S : System L V) (m0 : Mem V) (j : Nat) : Nat → L × Mem V
  | 0 => (S.init j, m0)
  | k + 1 =>
      let p := S.solo m0 j k
      let r := S.step j p.1 p.2
      (r.1, applyWrites r.2 p.2)

def System.allHalted (S : System L V) (g : Global L V) : Prop :=
  ∀ j, j < S.n → S.halted j (g.loc j) = true

end PyYetiVerif.ParSched
