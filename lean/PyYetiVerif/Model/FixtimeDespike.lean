import PyYetiVerif.Model.FixtimeTnew
/-
Model of the despikers `pyyeti.dsp.fixtime(delspikes=…)` can call (C19): `exclusive_sgfilter`,
`despike`, `despike_diff` and fixtime's own `_simple_filter`.  Core Lean only, at `Rat`.

Every decision of these routines is a comparison of a deviation `a ≥ 0` with
`limit = fmax(sigma*std, min_limit)`, `std = sqrt(abs(var))`, `min_limit = threshold_value` or
`threshold_sigma*np.std(x - ave)`.  For `sigma, threshold_sigma ≥ 0` this is decided without square
roots: `a > limit  ⇔  a² > sigma²·|var|  ∧  (a > threshold_value | a² > threshold_sigma²·Var)`, so the
model is exact on rational data; the code's floating-point statistics agree except within rounding of
a tie (the correspondence check perturbs the thresholds by 1e-9 to recognise those and skips them).

    exclusive_sgfilter(x, n, exclude_point):
        n = min(x.size - 1, n) | 1;  n_pt = 0 | n//2 | n-1 | int | (None: no exclusion, n//2)
        b[:] = 1/(n-1); b[n-n_pt-1] = 0            (None: b[:] = 1/n)
        x2 = concatenate((x[n-n_pt:n], x, x[-n:-(n_pt+1)]))
        d = lfilter(b, 1, x2)[n-1:]                 -- d[t] = (sum(x2[t:t+n]) - x2[t+n_pt])/(n-1)

    despike(x, n, sigma, maxiter, threshold_sigma, threshold_value, exclude_point):
        if n > x.size: n = x.size - 1
        min_limit = _get_min_limit(x, n, threshold_sigma, threshold_value)
        exclude_point in ("first", 0) -> _outs_first;  in ("last", n-1) -> _outs_last;  else _outs_gen
        PV[pv] = True for every yielded pv until None or `maxiter` iterations;  x[~PV]
    despike_diff: the same on np.diff(x) with the `_diff` sweeps; any other exclude_point raises.
-/
namespace PyYetiVerif.Despike
open PyYetiVerif.Fixtime

/-- `exclude_point` -/
inductive XP where
  | first | middle | last | idx (k : Nat) | none
  deriving DecidableEq, Repr

/-- `min(x.size - 1, n) | 1` -/
def sgN (size n : Nat) : Nat := (if size - 1 < n then size - 1 else n) ||| 1

/-- `y[a:b]` for `0 ≤ a`, clipped like a Python slice -/
def slice {β : Type} (l : List β) (a b : Nat) : List β := (l.take b).drop a

/-- `l[a:a+len(v)] = v` (clipped at the end of `l`) -/
def setSlice {β : Type} (l : List β) (a : Nat) (v : List β) : List β :=
  l.take a ++ (v.take (l.length - a)) ++ l.drop (a + v.length)

/-- `exclusive_sgfilter(x, n, exclude_point)`; `none` = raises (`invalid exclude_point integer`) or
the window has a single point (`1/(n-1)` with `n = 1`: the code produces `inf`/`nan`) -/
def sgFilter (x : List Rat) (n0 : Nat) (xp : XP) : Option (List Rat) :=
  let size := x.length
  let n := sgN size n0
  let npt := match xp with
    | .first => 0 | .middle => n / 2 | .last => n - 1 | .idx k => k | .none => n / 2
  let excl := !(xp == XP.none)
  if excl && (decide (n - 1 < npt) || n == 1) then none else
  let x2 := slice x (n - npt) n ++ x ++ (x.drop (size - n)).take (n - npt - 1)
  let den : Rat := if excl then ((n - 1 : Nat) : Rat) else (n : Rat)
  some ((List.range size).map fun t =>
    let w := sumQ (slice x2 t (t + n))
    let e := if excl then (match x2[t + npt]? with | some v => v | none => 0) else 0
    (w - e) / den)

/-- `min_limit`: a value (`threshold_value`) or `threshold_sigma·std`, kept as `threshold_sigma²·Var` -/
structure MinLim where
  isValue : Bool
  v : Rat

/-- population variance `np.std(d)**2` -/
def varPop (d : List Rat) : Rat :=
  let n : Rat := (d.length : Rat)
  let mn := sumQ d / n
  sumQ (d.map fun x => (x - mn) * (x - mn)) / n

/-- `_get_min_limit(x, n, threshold_sigma, threshold_value)` -/
def getMinLimit (x : List Rat) (n : Nat) (ts : Rat) (tv : Option Rat) : Option MinLim :=
  match tv with
  | some v => some ⟨true, v⟩
  | none => (sgFilter x n XP.none).map fun ave => ⟨false, ts * ts * varPop (List.zipWith (· - ·) x ave)⟩

/-- `a > fmax(sigma*sqrt(abs(var)), min_limit)` for `a ≥ 0`, `sigma ≥ 0` -/
def exceeds (sigma : Rat) (m : MinLim) (a var : Rat) : Bool :=
  decide (sigma * sigma * absQ var < a * a) && (if m.isValue then decide (m.v < a) else decide (m.v < a * a))

/-- `(ave, var)` of `_get_stats_full` -/
def statsFull (y : List Rat) (n : Nat) (xp : XP) : Option (List Rat × List Rat) :=
  match sgFilter y n xp, sgFilter (y.map fun v => v * v) n xp with
  | some ave, some sq => some (ave, List.zipWith (fun s a => s - a * a) sq ave)
  | _, _ => none

/-- `abs(y - ave) > limit` pointwise -/
def flagsOf (sigma : Rat) (m : MinLim) (y ave var : List Rat) : List Bool :=
  (List.range y.length).map fun i =>
    match y[i]?, ave[i]?, var[i]? with
    | some a, some b, some c => exceeds sigma m (absQ (a - b)) c
    | _, _, _ => false

def lastTrue (f : List Bool) : Option Nat := (nonzeroIdx f).getLast?
def firstTrue (f : List Bool) : Option Nat := (nonzeroIdx f).head?

/-- how many of `ks` (in order) are swept up before the first one that is within the limit -/
def sweepCount (test : Nat → Bool) : List Nat → Nat
  | [] => 0
  | k :: r => if test k then 1 + sweepCount test r else 0

/-- `v[flags]` (`want = true`) / `v[~flags]` -/
def selBy {β : Type} (v : List β) (flags : List Bool) (want : Bool) : List β :=
  ((v.zip flags).filter fun x => x.2 == want).map (·.1)

/-- what one resumption of a generator produced: the final `None`; a list of spikes; a list of
spikes that will be followed by `None` (the spike run reached the end of the record) -/
inductive Outcome where
  | none | spikes | spikesThenNone
  deriving DecidableEq, Repr

structure State where
  y : List Rat
  ave : List Rat
  var : List Rat
  flags : List Bool
  /-- the accumulated `PV` of `despike` -/
  out : List Bool
  niter : Nat

def markRange (out : List Bool) (i j : Nat) : List Bool :=
  (List.range out.length).map fun k => out[k]? == some true || (decide (i ≤ k) && decide (k ≤ j))

/-- the update of `ave/var/flags[a:b]` from `sgFilter` of the section `sec`, taking entries
`[from, from + (b - a))` of the filtered section -/
def refresh (sigma : Rat) (m : MinLim) (n : Nat) (xp : XP) (s : State) (sec : List Rat) (a b from_ : Nat) :
    Option State :=
  match statsFull sec n xp with
  | none => none
  | some (av, vr) =>
    let av' := (av.drop from_).take (b - a)
    let vr' := (vr.drop from_).take (b - a)
    let ave := setSlice s.ave a av'
    let var := setSlice s.var a vr'
    let fl := flagsOf sigma m (slice s.y a b) av' vr'
    some { s with ave := ave, var := var, flags := setSlice s.flags a fl }

/-- one pass of `_outs_first`'s `while True` (the last flagged run, working backward): the state at
the `yield`, what was yielded, and the state after the generator is resumed (`none`: the refresh raises) -/
def stepFirst (sigma : Rat) (m : MinLim) (n : Nat) (xp : XP) (s : State) : Option (State × Outcome × Option State) :=
  match lastTrue s.flags with
  | none => some ({ s with niter := s.niter + 1 }, Outcome.none, none)
  | some j =>
    match s.ave[j]?, s.var[j]? with
    | some av, some vr =>
      let c := sweepCount (fun k => match s.y[k]? with
        | some v => exceeds sigma m (absQ (v - av)) vr
        | none => false) ((List.range j).reverse)
      let i := j - c
      let s1 := { s with out := markRange s.out i j, niter := s.niter + 1 }
      if i = 0 then some (s1, Outcome.spikesThenNone, none) else
      let flags := setSlice s1.flags i (List.replicate (j + 1 - i) false)
      let k := if s.y.length < j + n then s.y.length else j + n
      let y := setSlice s1.y i (slice s1.y (j + 1) k)
      let j' := i
      let i' := i - n
      some (s1, Outcome.spikes, refresh sigma m n xp { s1 with y := y, flags := flags } (slice y i' k) i' j' 0)
    | _, _ => none

/-- one pass of `_outs_last` (the first flagged run, working forward) -/
def stepLast (sigma : Rat) (m : MinLim) (n : Nat) (xp : XP) (s : State) : Option (State × Outcome × Option State) :=
  match firstTrue s.flags with
  | none => some ({ s with niter := s.niter + 1 }, Outcome.none, none)
  | some i =>
    match s.ave[i]?, s.var[i]? with
    | some av, some vr =>
      let size := s.y.length
      let c := sweepCount (fun k => match s.y[k]? with
        | some v => exceeds sigma m (absQ (v - av)) vr
        | none => false) ((List.range size).drop (i + 1))
      let j := i + c
      let s1 := { s with out := markRange s.out i j, niter := s.niter + 1 }
      if j + 1 = size then some (s1, Outcome.spikesThenNone, none) else
      let flags := setSlice s1.flags i (List.replicate (j + 1 - i) false)
      let k := i + 1 - n
      let count := i - k
      let y := setSlice s1.y (j + 1 - count) (slice s1.y k i)
      let i' := j
      let j' := if size < j + n then size else j + n
      some (s1, Outcome.spikes,
        refresh sigma m n xp { s1 with y := y, flags := flags } (slice y k j') i' j' ((j' - k) - (j' - i')))
    | _, _ => none

/-- run a step function until it reports exhaustion or `maxiter` yields have been consumed -/
def iterate (step : State → Option (State × Outcome × Option State)) (maxiter : Int) : Nat → State → Option State
  | 0, _ => none
  | fuel + 1, s =>
    match step s with
    | none => none
    | some (t, .none, _) => some t
    | some (t, .spikesThenNone, _) =>
      if 0 < maxiter ∧ maxiter ≤ (t.niter : Int) then some t else some { t with niter := t.niter + 1 }
    | some (t, .spikes, resumed) =>
      -- the generator is resumed (statistics refreshed around the removed run) only if another iteration is asked for
      if 0 < maxiter ∧ maxiter ≤ (t.niter : Int) then some t else
        match resumed with
        | none => none
        | some t' => iterate step maxiter fuel t'

structure Result where
  /-- `s.pv` -/
  pv : List Bool
  niter : Nat

/-- `_outs_gen`: flag every point beyond its limit, delete them, recompute all statistics, repeat.
`cur` = the surviving values, `alive` = their positions in `x` -/
def genLoop (sigma : Rat) (m : MinLim) (n : Nat) (xp : XP) (maxiter : Int) :
    Nat → List Rat → List Nat → List Bool → Nat → Option Result
  | 0, _, _, _, _ => none
  | fuel + 1, cur, alive, out, it =>
    match statsFull cur n xp with
    | none => none
    | some (ave, var) =>
      let pv := flagsOf sigma m cur ave var
      if !(pv.any id) then some ⟨out, it + 1⟩ else
      let gone := selBy alive pv true
      let out' := (List.range out.length).map fun k => out[k]? == some true || gone.contains k
      if 0 < maxiter ∧ maxiter ≤ ((it + 1 : Nat) : Int) then some ⟨out', it + 1⟩
      else genLoop sigma m n xp maxiter fuel (selBy cur pv false) (selBy alive pv false) out' (it + 1)

/-- which generator `_find_outlier_peaks` picks: `xp in ("first", 0)`, `xp in ("last", n - 1)` -/
inductive Branch where
  | first | last | gen
  deriving DecidableEq, Repr

def branchOf (xp : XP) (n : Nat) : Branch :=
  match xp with
  | .first => .first
  | .last => .last
  | .idx k => if k = 0 then .first else if k + 1 = n then .last else .gen
  | _ => .gen

/-- `despike(x, n, sigma, maxiter, threshold_sigma, threshold_value, exclude_point)`; `none` = the
routine raises or leaves the model's domain (a window of one point) -/
def despike (x : List Rat) (n0 : Nat) (sigma : Rat) (maxiter : Int) (ts : Rat) (tv : Option Rat) (xp : XP) :
    Option Result :=
  let n := if x.length < n0 then x.length - 1 else n0
  match getMinLimit x n ts tv with
  | none => none
  | some m =>
    let zeros := List.replicate x.length false
    match branchOf xp n with
    | .gen => genLoop sigma m n xp maxiter (x.length + 2) x (List.range x.length) zeros 0
    | br =>
      match statsFull x n xp with
      | none => none
      | some (ave, var) =>
        let s0 : State := ⟨x, ave, var, flagsOf sigma m x ave var, zeros, 0⟩
        let step := if br == .first then stepFirst sigma m n xp else stepLast sigma m n xp
        (iterate step maxiter (x.length + 2) s0).map fun s => ⟨s.out, s.niter⟩

/-! ### `despike_diff` -/

structure DState where
  y : List Rat
  dy : List Rat
  ave : List Rat
  var : List Rat
  flags : List Bool
  out : List Bool
  niter : Nat

def refreshD (sigma : Rat) (m : MinLim) (n : Nat) (xp : XP) (s : DState) (sec : List Rat) (a b from_ : Nat) :
    Option DState :=
  match statsFull sec n xp with
  | none => none
  | some (av, vr) =>
    let av' := (av.drop from_).take (b - a)
    let vr' := (vr.drop from_).take (b - a)
    let fl := flagsOf sigma m (slice s.dy a b) av' vr'
    some { s with ave := setSlice s.ave a av', var := setSlice s.var a vr', flags := setSlice s.flags a fl }

/-- one pass of `_outs_first_diff` -/
def stepFirstD (sigma : Rat) (m : MinLim) (n : Nat) (xp : XP) (s : DState) : Option (DState × Outcome × Option DState) :=
  match lastTrue s.flags with
  | none => some ({ s with niter := s.niter + 1 }, Outcome.none, none)
  | some j =>
    match s.ave[j]?, s.var[j]?, s.y[j + 1]? with
    | some av, some vr, some nxt =>
      let c := sweepCount (fun k => match s.y[k]? with
        | some v => exceeds sigma m (absQ (nxt - v - av)) vr
        | none => false) ((List.range j).reverse)
      let i := j - c
      let s1 := { s with out := markRange s.out i j, niter := s.niter + 1 }
      if i = 0 then some (s1, Outcome.spikesThenNone, none) else
      let flags := setSlice s1.flags i (List.replicate (j + 1 - i) false)
      let k := if s.y.length < j + n then s.y.length else j + n
      let y := setSlice s1.y i (slice s1.y (j + 1) k)
      let j' := i
      let i' := i - n
      let dy := setSlice s1.dy i' (diffsQ (slice y i' (k + 1)))
      some (s1, Outcome.spikes, refreshD sigma m n xp { s1 with y := y, dy := dy, flags := flags } (slice dy i' k) i' j' 0)
    | _, _, _ => none

/-- one pass of `_outs_last_diff` -/
def stepLastD (sigma : Rat) (m : MinLim) (n : Nat) (xp : XP) (s : DState) : Option (DState × Outcome × Option DState) :=
  match firstTrue s.flags with
  | none => some ({ s with niter := s.niter + 1 }, Outcome.none, none)
  | some i0 =>
    -- the spike in `y` is at `i0 + 1`; limit/ave are taken at `i0`
    match s.ave[i0]?, s.var[i0]?, s.y[i0]? with
    | some av, some vr, some prv =>
      let size := s.y.length
      let i := i0 + 1
      let c := sweepCount (fun k => match s.y[k]? with
        | some v => exceeds sigma m (absQ (v - prv - av)) vr
        | none => false) ((List.range size).drop (i + 1))
      let j := i + c
      let s1 := { s with out := markRange s.out i j, niter := s.niter + 1 }
      if j = s.dy.length then some (s1, Outcome.spikesThenNone, none) else
      let flags := setSlice s1.flags (i - 1) (List.replicate (j - (i - 1)) false)
      let k := i + 1 - n
      let count := i - k
      let y := setSlice s1.y (j + 1 - count) (slice s1.y k i)
      let i' := j
      let j' := if s.dy.length < j + n then s.dy.length else j + n
      let dy := setSlice s1.dy k (diffsQ (slice y k (j' + 1)))
      some (s1, Outcome.spikes,
        refreshD sigma m n xp { s1 with y := y, dy := dy, flags := flags } (slice dy k j') i' j' ((j' - k) - (j' - i')))
    | _, _, _ => none

def iterateD (step : DState → Option (DState × Outcome × Option DState)) (maxiter : Int) : Nat → DState → Option DState
  | 0, _ => none
  | fuel + 1, s =>
    match step s with
    | none => none
    | some (t, .none, _) => some t
    | some (t, .spikesThenNone, _) =>
      if 0 < maxiter ∧ maxiter ≤ (t.niter : Int) then some t else some { t with niter := t.niter + 1 }
    | some (t, .spikes, resumed) =>
      -- the generator is resumed (statistics refreshed around the removed run) only if another iteration is asked for
      if 0 < maxiter ∧ maxiter ≤ (t.niter : Int) then some t else
        match resumed with
        | none => none
        | some t' => iterateD step maxiter fuel t'

/-- `despike_diff(x, n, sigma, maxiter, threshold_sigma, threshold_value, exclude_point)` -/
def despikeDiff (x : List Rat) (n0 : Nat) (sigma : Rat) (maxiter : Int) (ts : Rat) (tv : Option Rat) (xp : XP) :
    Option Result :=
  let dx := diffsQ x
  let n := if dx.length < n0 then dx.length - 1 else n0
  match getMinLimit dx n ts tv with
  | none => none
  | some m =>
    match branchOf xp n, statsFull dx n xp with
    | .gen, _ => none
    | br, some (ave, var) =>
      let s0 : DState := ⟨x, dx, ave, var, flagsOf sigma m dx ave var, List.replicate x.length false, 0⟩
      let step := if br == .first then stepFirstD sigma m n xp else stepLastD sigma m n xp
      (iterateD step maxiter (x.length + 2) s0).map fun s => ⟨s.out, s.niter⟩
    | _, none => none

/-! ### fixtime's `_simple_filter` -/

/-- `_simple_filter`: moving average WITHOUT exclusion; a point is out when
`abs(delta) > sigma*np.std(delta)`; repeat on the survivors.  `none` also when the survivors are
exactly flat (all deviations zero): the code's decision is then made by the rounding of `1/n`. -/
def simpleLoop (sigma : Rat) (n : Nat) (maxiter : Int) :
    Nat → List Rat → List Nat → List Bool → Nat → Option Result
  | 0, _, _, _, _ => none
  | fuel + 1, cur, alive, out, it =>
    match sgFilter cur n XP.none with
    | none => none
    | some ave =>
      let delta := List.zipWith (· - ·) cur ave
      let v := sigma * sigma * varPop delta
      -- every deviation is exactly zero: in the code rounding noise of `1/n` decides; outside the model
      if varPop delta == 0 then none else
      let pv := delta.map fun d => decide (v < d * d)
      if !(pv.any id) then some ⟨out, it + 2⟩ else
      let gone := selBy alive pv true
      let out' := (List.range out.length).map fun k => out[k]? == some true || gone.contains k
      if 0 < maxiter ∧ maxiter ≤ ((it + 1 : Nat) : Int) then some ⟨out', it + 2⟩
      else simpleLoop sigma n maxiter fuel (selBy cur pv false) (selBy alive pv false) out' (it + 1)

def simpleFilter (d : List Rat) (n : Nat) (sigma : Rat) (maxiter : Int) : Option Result :=
  simpleLoop sigma n maxiter (d.length + 2) d (List.range d.length) (List.replicate d.length false) 0

end PyYetiVerif.Despike
