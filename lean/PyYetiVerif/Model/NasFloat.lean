import PyYetiVerif.Model.PyFloat
import PyYetiVerif.Generated.NasFloatTables
/-
Model of pyyeti/nastran/bulk.py: `_format_scientific8/16`, `format_double16`, `format_float8/16`,
`nas_sscanf`, transcribed string operation by string operation on `Str = List Char`, on top of
the exact float-conversion model `PyFloat`.  The decade if-chains are *interpreted from the
generated tables* (`Generated/NasFloatTables.lean`, regenerated from the source on every run), so
the theorems about the tables are theorems about what this model executes.  Core Lean only.
-/
namespace PyYetiVerif.NasFloat
open PyYetiVerif.PyFloat
open PyYetiVerif.Generated.NasFloat

/-- `s.split("e")` for a string with exactly one `e` -/
def splitE (s : Str) : Str × Str := (s.takeWhile (· != 'e'), (s.dropWhile (· != 'e')).drop 1)

/-- a double from the text of a Python float literal given as an exact fraction -/
def litDbl (num den : Nat) : Dbl :=
  match ofBits (toBits false num den) with
  | some d => d
  | none => ⟨false, num, den⟩

/-- `_format_scientific8`, `_format_scientific16` (`mark = []`) and the body of `format_double16`
(`mark = ['D']`) after the `value == 0.0` test. -/
def sciCore (W : Nat) (c : Sci) (mark : Str) (x : Dbl) : Str :=
  let pythonValue := rjust W (fmtE c.ePrec x)
  let (svalue, sexponent) := splitE (stripWs pythonValue)
  let exponent : Int := (parseInt? sexponent).getD 0
  let sign : Str := if x.absLtOne then ['-'] else ['+']
  let exp2 := stripChars ['-', '+'] (intStr exponent)
  let value2 : Dbl :=
    match (parseFloat? svalue).bind ofBits with
    | some d => d
    | none => x
  let leftover := c.base - (exp2.length + c.extra)
  let prec := if x.neg && !x.isZero then leftover - c.negOff else leftover - c.posOff
  let svalue3 := rjust 1 (fmtF prec value2)
  let svalue4 := stripChars ['0'] svalue3
  rjust W (svalue4 ++ mark ++ sign ++ exp2)

def formatScientific (W : Nat) (c : Sci) (x : Dbl) : Str :=
  if x.isZero then rjust W ['0', '.'] else sciCore W c [] x

def formatScientific8 := formatScientific 8 sci8
def formatScientific16 := formatScientific 16 sci16

def formatDouble16 (x : Dbl) : Str :=
  if x.isZero then "           0.D+0".toList else sciCore 16 dbl16 ['D'] x

/-- `float(a) == float(b)` for two strings (false when either does not parse: the code would
raise, which the correspondence check would expose as a different reply). -/
def floatEq (a b : Str) : Bool :=
  match (parseFloat? a).bind ofBits, (parseFloat? b).bind ofBits with
  | some u, some v => u.eq v
  | _, _ => false

/-- the final `f"{field.strip(' 0'):>Ws}"` -/
def finish (W : Nat) (field : Str) : Str := rjust W (stripChars [' ', '0'] field)

/-- the small-magnitude branch of the positive chain (kind 1). `none` = fall through to `finish`
(8 wide), `some` = returned directly. -/
def smallPos (W p : Nat) (c : Sci) (x : Dbl) : Str :=
  let field := formatScientific W c x
  let field2 := stripChars ['0', ' '] (rjust W (fmtF p x))
  let field1 := replace ['-'] ['e', '-'] field
  if field2 == ['.'] then formatScientific W c x
  else
    let field := if field2.length ≤ W && floatEq field1 field2
                 then stripChars [' ', '0'] field2 else field
    if W == 8 then finish W field else rjust W field

def smallNeg (W p : Nat) (c : Sci) (x : Dbl) : Str :=
  let field := formatScientific W c x
  let field2 := stripChars ['0', ' '] (rjust W (fmtF p x))
  let field1 := '-' :: replace ['-'] ['e', '-'] (stripChars [' ', '0', '-'] field)
  let field := if field2.length ≤ W && floatEq field1 field2
               then replace ['-', '0', '.'] ['-', '.'] (rstripChars [' ', '0'] field2) else field
  if W == 8 then finish W field else rjust W field

/-- the test of a row: positive chain `[lo <=] value < b`; negative chain `value > -b` (strict)
or `value <= -b`. -/
def rowTest (negChain : Bool) (r : Row) (x : Dbl) : Bool :=
  let b := litDbl r.num r.den
  if negChain then
    let nb : Dbl := ⟨true, b.num, b.den⟩
    if r.strict then nb.lt x else x.le nb
  else
    (if r.lnum == 0 then true else (litDbl r.lnum r.lden).le x) &&
      (if r.strict then x.lt b else x.le b)

/-- body of a row (kinds of the generated table) -/
def rowBody (W : Nat) (c : Sci) (negChain : Bool) (r : Row) (x : Dbl) : Str :=
  match r.kind with
  | 0 => formatScientific W c x
  | 1 => if negChain then smallNeg W r.prec c x else smallPos W r.prec c x
  | 2 => finish W (rjust W (fmtF r.prec x))
  | _ => finish W (replace ['-', '0', '.'] ['-', '.'] (rjust W (fmtF r.prec x)))

/-- final `else` of the positive chain -/
def lastPos (W : Nat) (c : Sci) (ps : Nat × Nat) (x : Dbl) : Str :=
  let field := rjust W (fmtF ps.1 x)
  match indexOf? '.' field with
  | some i =>
    if i < W then
      let r := roundInt x
      (rjust W (fmtFixedN ps.2 (r < 0) r.natAbs 1)).take W
    else formatScientific W c x
  | none => "value-error".toList

/-- final `else` of the negative chain -/
def lastNeg (W : Nat) (c : Sci) (ps : Nat × Nat) (x : Dbl) : Str :=
  let field := rjust W (fmtF ps.1 x)
  match indexOf? '.' field with
  | some i =>
    if i < W then rjust ps.2 (intStr (roundInt x)) ++ ['.']
    else formatScientific W c x
  | none => "value-error".toList

def chain (W : Nat) (c : Sci) (negChain : Bool) (last : Dbl → Str) : List Row → Dbl → Str
  | [], x => last x
  | r :: rs, x => if rowTest negChain r x then rowBody W c negChain r x
                  else chain W c negChain last rs x

/-- `value >= 0.0` (true for `-0.0`) -/
def geZero (x : Dbl) : Bool := !x.neg || x.isZero

def formatFloat8 (x : Dbl) : Str :=
  if geZero x then chain 8 sci8 false (lastPos 8 sci8 posLast8) pos8 x
  else chain 8 sci8 true (lastNeg 8 sci8 negLast8) neg8 x

def formatFloat16 (x : Dbl) : Str :=
  if geZero x then chain 16 sci16 false (lastPos 16 sci16 posLast16) pos16 x
  else chain 16 sci16 true (lastNeg 16 sci16 negLast16) neg16 x

/-! ### nas_sscanf -/

inductive NasVal where
  | int (n : Int)
  | flt (bits : Nat)
  | str (s : Str)
  | none
deriving Repr, DecidableEq

/-- `nas_sscanf(s, keep_string)` (strings inside the `parseFloat?` grammar; see `PyFloat`). -/
def nasSscanf (s : Str) (keepString : Bool) : NasVal :=
  match parseInt? s with
  | some n => .int n
  | none =>
    match parseFloat? s with
    | some b => .flt b
    | none =>
      let S := stripWs s
      if S.isEmpty then .none
      else
        let s1 := replace ['d'] ['e'] (lower S)
        match parseFloat? s1 with
        | some b => .flt b
        | none =>
          let s2 := s1.take 1 ++
            replace ['-'] ['e', '-'] (replace ['+'] ['e', '+'] (s1.drop 1))
          match parseFloat? s2 with
          | some b => .flt b
          | none => if keepString then .str S else .none

end PyYetiVerif.NasFloat
