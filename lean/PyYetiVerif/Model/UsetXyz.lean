/-!
Model of `n2p.find_xyz_triples(drmrb, tol=…)`: which rows of a rigid-body motion matrix form x, y, z
triples, the node coordinates, the (squared) scales and the model scale.  Core Lean only; exact
rational arithmetic.

Every floating-point decision of the routine is an inequality between quantities that are rational
functions of the input, or square roots of such; each is decided exactly (after squaring where a
square root occurs) and reported as `near` when the two sides are within a relative `1e-9` - then
the floating-point routine may decide either way and the model answers `borderline` (the harness
skips those inputs).  The conditioning test `cond(T1) > 1/eps` is modelled as `det T1 = 0`: for the
dyadic inputs of the correspondence (|entries| ≤ 2^7, multiples of 2^-4) a non-singular block has
a condition number below 1e12 (`σmax³ / |det|`), and a singular block is rejected by one of the tests in any case.
-/
namespace PyYetiVerif.Xyz

abbrev V3 := Fin 3 → Rat
abbrev M3 := Fin 3 → Fin 3 → Rat

def sum3 (f : Fin 3 → Rat) : Rat := f 0 + f 1 + f 2
def mul (A B : M3) : M3 := fun i j => sum3 fun k => A i k * B k j
def tr (A : M3) : M3 := fun i j => A j i
def smul (c : Rat) (A : M3) : M3 := fun i j => c * A i j

def det3 (A : M3) : Rat :=
  A 0 0 * A 1 1 * A 2 2 - A 0 0 * A 1 2 * A 2 1 - A 0 1 * A 1 0 * A 2 2 + A 0 1 * A 1 2 * A 2 0
    + A 0 2 * A 1 0 * A 2 1 - A 0 2 * A 1 1 * A 2 0

/-- the adjugate (transposed cofactor matrix): `A * adj3 A = det3 A • 1` -/
def adj3 (A : M3) : M3 := fun i j =>
  match i, j with
  | 0, 0 => A 1 1 * A 2 2 - A 1 2 * A 2 1
  | 0, 1 => -(A 0 1 * A 2 2) + A 0 2 * A 2 1
  | 0, 2 => A 0 1 * A 1 2 - A 0 2 * A 1 1
  | 1, 0 => -(A 1 0 * A 2 2) + A 1 2 * A 2 0
  | 1, 1 => A 0 0 * A 2 2 - A 0 2 * A 2 0
  | 1, 2 => -(A 0 0 * A 1 2) + A 0 2 * A 1 0
  | 2, 0 => A 1 0 * A 2 1 - A 1 1 * A 2 0
  | 2, 1 => -(A 0 0 * A 2 1) + A 0 1 * A 2 0
  | 2, 2 => A 0 0 * A 1 1 - A 0 1 * A 1 0

/-- sum of the squares of all entries -/
def sumsq (A : M3) : Rat := sum3 fun i => sum3 fun j => A i j * A i j
/-- squared norm of column `j` -/
def colsq (A : M3) (j : Fin 3) : Rat := sum3 fun i => A i j * A i j
def absR (x : Rat) : Rat := if x < 0 then -x else x
def maxR (x y : Rat) : Rat := if x < y then y else x
/-- `abs(M).max()` -/
def absMax (A : M3) : Rat :=
  maxR (maxR (maxR (absR (A 0 0)) (absR (A 0 1))) (maxR (absR (A 0 2)) (absR (A 1 0))))
    (maxR (maxR (maxR (absR (A 1 1)) (absR (A 1 2))) (maxR (absR (A 2 0)) (absR (A 2 1)))) (absR (A 2 2)))

/-! ### three-valued comparisons -/

inductive Tri | yes | no | near
deriving DecidableEq, Repr

/-- relative margin inside which a floating-point comparison may go either way -/
def margin : Rat := 1 / 1000000000
/-- numpy's default `rtol` of `allclose` -/
def rtol : Rat := 1 / 100000

/-- `l <= r` -/
def leT (l r : Rat) : Tri :=
  if l = 0 ∧ r = 0 then .yes
  else
    let m := margin * maxR (absR l) (absR r)
    if l + m < r then .yes else if r + m < l then .no else .near

/-- conjunction (`np.all`): a definite `no` decides -/
def Tri.and : Tri → Tri → Tri
  | .no, _ => .no
  | _, .no => .no
  | .yes, .yes => .yes
  | _, _ => .near

def all3 (f : Fin 3 → Tri) : Tri := (f 0).and ((f 1).and (f 2))
def all9 (f : Fin 3 → Fin 3 → Tri) : Tri := all3 fun i => all3 fun j => f i j

/-! ### the tests of one window of three rows -/

/-- `scale ** 2 = diag(T1.T @ T1).mean()` -/
def scale2 (A : M3) : Rat := sumsq A / 3

/-- `np.allclose(rss, 1.0, atol=tol)`: every column norm of `T1 / scale` is within `tol + rtol` of 1,
i.e. `(1-δ)² s² ≤ |col|² ≤ (1+δ)² s²` -/
def rssOK (tol : Rat) (A : M3) : Tri :=
  let s2 := scale2 A
  let d := tol + rtol
  let lo := if d < 1 then (1 - d) * (1 - d) * s2 else 0
  let hi := (1 + d) * (1 + d) * s2
  all3 fun j => (leT lo (colsq A j)).and (leT (colsq A j) hi)

/-- `np.allclose(inv(T1), T1.T, atol=2*tol)` with `T1 = A / scale`: entry by entry
`|s² A⁻¹[i,j] − A[j,i]| − rtol |A[j,i]| ≤ 2 tol s`, decided after squaring -/
def invOK (tol : Rat) (A : M3) : Tri :=
  let s2 := scale2 A
  let d := det3 A
  all9 fun i j =>
    let L := absR (s2 * (adj3 A i j / d) - A j i) - rtol * absR (A j i)
    if L ≤ 0 then .yes else leT (L * L) (4 * tol * tol * s2)

/-- `T2 = T1.T / scale = A.T / scale²` -/
def T2of (A : M3) : M3 := smul (1 / scale2 A) (tr A)

/-- `np.allclose(rbrot, -rbrot.T, atol=a)` -/
def patternOK (a : Rat) (R : M3) : Tri :=
  all9 fun i j => leT (absR (R i j + R j i)) (a + rtol * absR (R j i))

/-- the first tests of a window: conditioning, scale, column norms, inverse = transpose -/
def stage1 (tol : Rat) (A : M3) : Tri :=
  if det3 A = 0 then .no
  else match rssOK tol A with
    | .no => .no
    | .near => .near
    | .yes => invOK tol A

/-! ### the routine -/

abbrev Row := V3 × V3     -- translation columns, rotation columns

structure Pot where
  j : Nat
  T2 : M3
  s2 : Rat

structure Result where
  coords : List (Option (Rat × Rat × Rat))
  scale2 : List (Option Rat)
  modelScale : Rat

/-- rows `j, j+1, j+2` as the translation block and the rotation block -/
def window (rows : Array Row) (j : Nat) : Option (M3 × M3) :=
  match rows[j]?, rows[j + 1]?, rows[j + 2]? with
  | some r0, some r1, some r2 =>
      let pick := fun (i : Fin 3) => match i with | 0 => r0 | 1 => r1 | 2 => r2
      some (fun i => (pick i).1, fun i => (pick i).2)
  | _, _, _ => none

/-- the first loop: potential triples and the model scale.  `none` = `borderline`. -/
def scan (tol : Rat) (rows : Array Row) : Nat → Nat → List Pot → Rat → Option (List Pot × Rat)
  | 0, _, pots, ms => some (pots.reverse, ms)
  | fuel + 1, j, pots, ms =>
      match window rows j with
      | none => some (pots.reverse, ms)          -- `while j + 2 < n` ends
      | some (A, R) =>
          match stage1 tol A with
          | .near => none
          | .no => scan tol rows fuel (j + 1) pots ms
          | .yes =>
              let T2 := T2of A
              let rb := mul T2 R
              let mx := absMax rb
              let pots' := { j := j, T2 := T2, s2 := scale2 A } :: pots
              match patternOK (tol * mx) rb with
              | .near => none
              | .no => scan tol rows fuel (j + 1) pots' ms
              | .yes => scan tol rows fuel (j + 3) pots' (maxR ms mx)

def setRows {β : Type} (l : List (Option β)) (j : Nat) (v : β) : List (Option β) :=
  ((l.set j (some v)).set (j + 1) (some v)).set (j + 2) (some v)

/-- the final loop over the potential triples -/
def fill (tol : Rat) (rows : Array Row) (ms : Rat) : List Pot → Result → Option Result
  | [], res => some res
  | p :: rest, res =>
      match window rows p.j with
      | none => fill tol rows ms rest res
      | some (_, R) =>
          let rb := mul p.T2 R
          match patternOK (tol * ms) rb with
          | .near => none
          | .no => fill tol rows ms rest res
          | .yes =>
              let x := (rb 1 2 - rb 2 1) / 2
              let y := (rb 2 0 - rb 0 2) / 2
              let z := (rb 0 1 - rb 1 0) / 2
              fill tol rows ms rest
                { res with coords := setRows res.coords p.j (x, y, z),
                           scale2 := setRows res.scale2 p.j p.s2 }

/-- `find_xyz_triples(drmrb, tol=tol)`; `none` = a comparison is too close to call -/
def findXyzTriples (tol : Rat) (rows : List Row) : Option Result :=
  let arr := rows.toArray
  match scan tol arr rows.length 0 [] (-1) with
  | none => none
  | some (pots, ms) =>
      let ms := if ms = -1 then 1 else ms
      fill tol arr ms pots
        { coords := List.replicate rows.length none, scale2 := List.replicate rows.length none,
          modelScale := ms }

/-- `pv = ~isnan(coords[:, 0])` -/
def Result.pv (r : Result) : List Bool := r.coords.map Option.isSome

end PyYetiVerif.Xyz
