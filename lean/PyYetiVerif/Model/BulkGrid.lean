import PyYetiVerif.Model.Bulk
/-
Model of the GRID / CORD2x / USET layer of pyyeti/nastran/bulk.py and of the argument packaging of
pyyeti/writer.py:vecwrite (C13):

  writers  `writer.vecwrite` (which arguments are repeated scalars, which are vectors, the `length`
           rule and its ValueError), `wtgrids` (8 / 16 wide, short form and the form with PS / SEID),
           `wtcoordcards`, the layout of `uset2bulk`
  readers  `rdcards` with a matcher and `keep_name` (list mode), `rdcards` array mode (`rdgrids`),
           `rdcord2cards` up to `_convert_card` (the twelve numbers handed to n2p.build_coords)

Core Lean only.  Identifiers and integer fields are exact; a coordinate is an opaque, already
formatted decimal field (`form.format(x)` is C12's subject) that the reader hands to `nasScan`.
-/
namespace PyYetiVerif.Bulk

/-! ## `vecwrite` -/

/-- one positional argument of `vecwrite`: something without `__len__` (or a `str`) is a scalar,
anything with `__len__` a vector -/
inductive VArg (α : Type) where
  | scalar (a : α)
  | vec (l : List α)
deriving Repr

/-- `_get_scalar` / `_get_scalar1` (a vector of length 1 is a repeated scalar) / `_get_itemi`;
`none` = IndexError -/
def VArg.get {α : Type} : VArg α → Nat → Option α
  | .scalar a, _ => some a
  | .vec [a], _ => some a
  | .vec l, i => l[i]?

def VArg.map {α β : Type} (f : α → β) : VArg α → VArg β
  | .scalar a => .scalar (f a)
  | .vec l => .vec (l.map f)

/-- `curlen`; `none` for a scalar -/
def VArg.len? {α : Type} : VArg α → Option Nat
  | .scalar _ => none
  | .vec l => some l.length

/-- the `length` loop: every argument longer than 1 must agree with the length found so far
(`none` = ValueError "length mismatch"); arguments of length 0 or 1 never change it. -/
def vecLength : Nat → List (Option Nat) → Option Nat
  | len, [] => some len
  | len, none :: r => vecLength len r
  | len, some c :: r =>
      if c > 1 then (if len > 1 ∧ c ≠ len then none else vecLength c r) else vecLength len r

inductive WRes (α : Type) where
  | ok (a : α)
  | valueError
  | indexError
deriving Repr

def optAll {α : Type} : List (Option α) → Option (List α)
  | [] => some []
  | none :: _ => none
  | some a :: r => (optAll r).map (a :: ·)

/-- `vecwrite(f, string, *args)`: the argument lists `curargs` of every written row -/
def vecRows {α : Type} (args : List (VArg α)) : WRes (List (List α)) :=
  match vecLength 1 (args.map VArg.len?) with
  | none => .valueError
  | some n =>
    match optAll ((List.range n).map fun i => optAll (args.map (·.get i))) with
    | none => .indexError
    | some rows => .ok rows

/-! ## `wtgrids` -/

structure GridIn where
  ids : List Int
  cp : VArg Int
  xyz : List (Txt × Txt × Txt)        -- `form.format` of the three columns, one entry per row of `xyz`
  cd : VArg Int
  ps : VArg (Option Int)              -- `none` = `""`
  seid : VArg (Option Int)
  wide : Bool                         -- `len(form.format(1.0)) == 16`
deriving Repr

/-- `{:8d}` / `{:16d}` -/
def fmtI (w : Nat) (n : Int) : Txt := padL w (dec n)
/-- `{:>8}` / `{:>16}` of an integer or of `""` -/
def fmtO (w : Nat) : Option Int → Txt
  | none => blanks w
  | some n => padL w (dec n)

/-- `ps == seid == ""` -/
def GridIn.short (g : GridIn) : Bool :=
  match g.ps, g.seid with
  | .scalar none, .scalar none => true
  | _, _ => false

def GridIn.w (g : GridIn) : Nat := if g.wide then 16 else 8

/-- the positional arguments of the `vecwrite` call, already formatted field by field -/
def GridIn.args (g : GridIn) : List (VArg Txt) :=
  [.vec (g.ids.map (fmtI g.w)), g.cp.map (fmtI g.w), .vec (g.xyz.map (·.1)), .vec (g.xyz.map (·.2.1)),
   .vec (g.xyz.map (·.2.2)), g.cd.map (fmtI g.w)] ++
  (if g.short then [] else [g.ps.map (fmtO g.w), g.seid.map (fmtO g.w)])

/-- the physical line(s) of one GRID card from its formatted fields -/
def gridCard (wide : Bool) (fields : List Txt) : List Txt :=
  if wide then [txt "GRID*   " ++ (fields.take 4).flatten, txt "*       " ++ (fields.drop 4).flatten]
  else [txt "GRID    " ++ fields.flatten]

def gridLines (g : GridIn) : WRes (List Txt) :=
  match vecRows g.args with
  | .ok rows => .ok (rows.flatMap (gridCard g.wide))
  | .valueError => .valueError
  | .indexError => .indexError

/-! ## `wtcoordcards`, `uset2bulk` -/

structure CordIn where
  name : Txt                  -- `CORD2R` / `CORD2C` / `CORD2S`
  cid : Int
  ref : Int
  abc : List Txt              -- nine `{:16.8e}` fields A1 A2 A3 B1 … C3
deriving Repr

def cordCard (c : CordIn) : List Txt :=
  [padR 8 (c.name ++ ['*']) ++ padL 16 (dec c.cid) ++ padL 16 (dec c.ref) ++ (c.abc.take 2).flatten ++ ['*'],
   padR 8 ['*'] ++ ((c.abc.drop 2).take 4).flatten ++ ['*'],
   padR 8 ['*'] ++ (c.abc.drop 6).flatten]

def cordLines (cs : List CordIn) : List Txt :=
  cs.flatMap fun c => (txt "$ Coordinate " ++ dec c.cid ++ [':']) :: cordCard c

/-- `uset2bulk`: comment block + CORD2x cards (only if there are any), comment block + GRID cards
(`wtgrids(f, grids, 0, xyz, cd)`, default 16-wide format) -/
def usetLines (cs : List CordIn) (ids : List Int) (xyz : List (Txt × Txt × Txt)) (cd : List Int) : WRes (List Txt) :=
  let head := if cs.isEmpty then [] else [txt "$", txt "$ COORDINATE SYSTEM DATA", txt "$"] ++ cordLines cs
  match gridLines { ids := ids, cp := .scalar 0, xyz := xyz, cd := .vec cd, ps := .scalar none,
                    seid := .scalar none, wide := true } with
  | .ok ls => .ok (head ++ [txt "$", txt "$ GRID DATA", txt "$"] ++ ls)
  | .valueError => .valueError
  | .indexError => .indexError

/-! ## readers -/

/-- the fields of the first physical line with the card name kept (`keep_name=True`, list mode) -/
def nameField (m : Mode) (s : Txt) : Val :=
  match m with
  | .comma => nasScan ((splitOnChar ',' (procLine s)).headD [])
  | _ => nasScan ((procLine (s.take 72)).take 8)

/-- `rdcards(f, name, return_var='list', regex=…, keep_name=keep)` with the matcher `p` applied to a
raw line; no INCLUDE. -/
def rdcardsByAux (p : Txt → Bool) (keep : Bool) : Nat → List Txt → List (List Val)
  | 0, _ => []
  | _, [] => []
  | fuel + 1, l :: rest =>
      if p l then
        let m := modeOf l
        let sp := spanCont m rest
        let body := cardVals Val.blank m.inc (lineFields m true l :: sp.1.map (lineFields m false))
        (if keep then nameField m l :: body else body) :: rdcardsByAux p keep fuel sp.2
      else rdcardsByAux p keep fuel rest

def rdcardsBy (p : Txt → Bool) (keep : Bool) (lines : List Txt) : List (List Val) :=
  rdcardsByAux p keep (lines.length + 1) lines

/-- array mode (`tolist=False`): strings and blanks are `blank` = 0 -/
def Val.zero : Val → Val
  | .str _ => .int 0
  | .blank => .int 0
  | v => v

inductive GridRes where
  | none                       -- no GRID card: `rdgrids` returns None
  | indexError                 -- a card without any field (`key = val[0]`)
  | rows (r : List (List Val))
deriving Repr

/-- `rdgrids`: `rdcards(f, "grid")` in array mode — every card padded with 0 to the longest — and
then to 8 columns -/
def rdGrids (lines : List Txt) : GridRes :=
  let cards := (rdcards (txt "grid") lines).map (·.map Val.zero)
  if cards.isEmpty then .none
  else if cards.any List.isEmpty then .indexError
  else
    let mx := max 8 (cards.foldl (fun a c => max a c.length) 0)
    .rows (cards.map (padTo (Val.int 0) mx))

def isWordCh (c : Char) : Bool := c.isAlphanum || c = '_'

/-- `re.compile(r"(cord2[rcs])\b", re.IGNORECASE).match(line)` -/
def cord2Match (l : Txt) : Bool :=
  let s := lower l
  startsWith (txt "cord2") s &&
    match s.drop 5 with
    | c :: r => (c = 'r' || c = 'c' || c = 's') && (match r with | [] => true | d :: _ => !isWordCh d)
    | [] => false

def Val.isNumber : Val → Bool
  | .int _ => true
  | .num _ _ => true
  | _ => false

/-- `_convert_card`: `none` = ValueError (not 12 fields, or a non-numeric field) -/
def convertCard (card : List Val) : Option (List Val) :=
  let card := card.map fun v => if v == .blank then Val.int 0 else v     -- `blank=0`
  let card := if card.length = 13 ∧ card.getLast? = some (.int 0) then card.dropLast else card
  if card.length ≠ 12 then none else
  match card with
  | .str nm :: ident :: rest =>
      let ch := nm.getD 5 ' '
      let ctype : Int := if ch = 'r' || ch = 'R' then 1 else if ch = 'c' || ch = 'C' then 2 else 3
      let out := ident :: .int ctype :: rest
      if out.all Val.isNumber then some out else none
  | _ => none

/-- `rdcord2cards` up to the call of `n2p.build_coords`: one row of twelve numbers per card;
`some []` = no card (`{}`), `none` = ValueError -/
def rdCord2 (lines : List Txt) : Option (List (List Val)) :=
  (rdcardsBy cord2Match true lines).mapM convertCard

end PyYetiVerif.Bulk
