import PyYetiVerif.Model.Fixtime
/-
Model of the time-base construction of `pyyeti.dsp.fixtime` for a numeric `sr`, `delspikes=False`,
`base=None` (C19): `_get_time_shifts` and `_mk_initial_tnew`.  Core Lean only, at `Rat`: on the
dyadic inputs of the correspondence check (`sr` a power of two, times on a dyadic grid) every
operation of the code is exact except the division by `len(told_good)` in `np.mean`, which the
model performs exactly.

    L = int(round((told[-1] - told[0]) * sr)) + 1          -- Python `round`: halves to even
    tnew = np.arange(L) / sr + told[0]
    tp, align = _get_time_shifts(told, dt)                  -- dt = 1 / sr
    if align:
        j = np.argmax(np.diff(tp))                          -- first maximum
        told_good = told[tp[j] : tp[j + 1] + 1];  lold = len(told_good)
        p = _get_prev_index(tnew, told_good[0] + dt / 2)    -- max(searchsorted(..) - 1, 0)
        n = _get_prev_index(tnew, told_good[-1] + dt / 2)
        tnew_good = tnew[p : n + 1]
        delt = told_good[0] - tnew_good[0]  if len(tnew_good) != lold
               else np.mean(told_good - tnew_good)
        tnew += delt

    _get_time_shifts:
        tp[0] = True;  tp[1:] = abs(np.diff(told) - dt) > dt / 4
        tp[:-1] |= tp[1:];  tp[-1] = True;  tp = np.nonzero(tp)[0]
        align = not (len(tp) - 2 > len(told) // 2)
-/
namespace PyYetiVerif.Fixtime

/-- Python's `round(x)` of a float to an `int`: nearest integer, halves to the even one -/
def roundHalfEven (x : Rat) : Int :=
  let f := x.floor
  let r := x - (f : Rat)
  if r < 1 / 2 then f else if 1 / 2 < r then f + 1 else if f % 2 = 0 then f else f + 1

/-- `np.diff` -/
def diffsQ : List Rat → List Rat
  | a :: b :: r => (b - a) :: diffsQ (b :: r)
  | _ => []

def absQ (x : Rat) : Rat := if x < 0 then -x else x

/-- the boolean vector `tp` of `_get_time_shifts` before `np.nonzero` (`told` non-empty) -/
def turnFlags (told : List Rat) (dt : Rat) : List Bool :=
  let b := true :: (diffsQ told).map fun d => decide (dt / 4 < absQ (d - dt))
  List.zipWith (· || ·) b.dropLast b.tail ++ [true]

/-- `np.nonzero(flags)[0]` -/
def nonzeroIdx (flags : List Bool) : List Nat :=
  (List.range flags.length).filter fun i => flags[i]? == some true

/-- `_get_time_shifts(told, dt)` → `(tp, align)`; the comparison is on Python ints -/
def timeShifts (told : List Rat) (dt : Rat) : List Nat × Bool :=
  let tp := nonzeroIdx (turnFlags told dt)
  (tp, !decide (((told.length / 2 : Nat) : Int) < (tp.length : Int) - 2))

/-- `np.argmax` of a non-empty list of naturals (first maximum); `go rest i best bestval` -/
def argmaxGo : List Nat → Nat → Nat → Nat → Nat
  | [], _, best, _ => best
  | v :: r, i, best, bv => if bv < v then argmaxGo r (i + 1) i v else argmaxGo r (i + 1) best bv

def argmaxFirst : List Nat → Option Nat
  | [] => none
  | v :: r => some (argmaxGo r 1 0 v)

def diffsN : List Nat → List Nat
  | a :: b :: r => (b - a) :: diffsN (b :: r)
  | _ => []

/-- `_get_prev_index(vec, val)` -/
def prevIndex (vec : List Rat) (val : Rat) : Nat := ssLeft vec val - 1

def sumQ (l : List Rat) : Rat := l.foldl (· + ·) 0

/-- the shift `delt` of the `if align:` block and whether the lengths of the "good" sections
differed (the warning branch); `none` = an exception (`argmax` of an empty sequence, index out of
range) -/
def alignShift (told tnew0 : List Rat) (tp : List Nat) (dt : Rat) : Option (Rat × Bool) :=
  match argmaxFirst (diffsN tp) with
  | none => none
  | some j =>
    match tp[j]?, tp[j + 1]? with
    | some a, some b =>
      let good := (told.take (b + 1)).drop a
      match good.head?, good.getLast? with
      | some g0, some gl =>
        let p := prevIndex tnew0 (g0 + dt / 2)
        let n := prevIndex tnew0 (gl + dt / 2)
        let tgood := (tnew0.take (n + 1)).drop p
        if tgood.length ≠ good.length then
          match tgood.head? with
          | some h => some (g0 - h, true)
          | none => none
        else some (sumQ (List.zipWith (· - ·) good tgood) / (good.length : Rat), false)
      | _, _ => none
    | _, _ => none

structure Tnew where
  tnew : List Rat
  tp : List Nat
  align : Bool
  delt : Rat
  /-- the "lengths of old time vector and new time vector do not match" branch was taken -/
  mismatch : Bool

/-- the grid before alignment: `np.arange(L) / sr + told[0]` -/
def grid0 (t0 sr : Rat) (L : Nat) : List Rat := (List.range L).map fun (k : Nat) => ((k : Int) : Rat) / sr + t0

/-- `L = int(round((told[-1] - told[0]) * sr)) + 1` (a negative `L` gives an empty `arange`) -/
def gridLen (t0 tl sr : Rat) : Nat := (roundHalfEven ((tl - t0) * sr) + 1).toNat

/-- `_mk_initial_tnew(told, sr, 1/sr, diff(told))`; `none` = the routine raises -/
def mkInitialTnew (told : List Rat) (sr : Rat) : Option Tnew :=
  match told.head?, told.getLast? with
  | some t0, some tl =>
    let dt := 1 / sr
    let tnew0 := grid0 t0 sr (gridLen t0 tl sr)
    let ta := timeShifts told dt
    if ta.2 then
      match alignShift told tnew0 ta.1 dt with
      | some (delt, mm) => some ⟨tnew0.map (· + delt), ta.1, true, delt, mm⟩
      | none => none
    else some ⟨tnew0, ta.1, false, 0, false⟩
  | _, _ => none

end PyYetiVerif.Fixtime
