import PyYetiVerif.Model.BulkGrid
import PyYetiVerif.Generated.UsetMask
/-
`uset2bulk` / `bulk2uset` at the TABLE level (C13): which rows of a USET table are written, and the labels — node ids,
DOF, `nasset`, output coordinate system id and type — of the table read back.  Core Lean only.  Coordinates are written
tokens (their values: Props/C13Values.lean; the geometry of `n2p.addgrid` / `build_coords`: C14).

  uset2bulk   grids = ids of the rows with DOF 1, xyz = their location, cd = x of the rows with DOF 2: a scalar point
              (one row, DOF 0) is in none of the three — it is NOT written
  bulk2uset   `rdcord2cards` + `rdgrids`, `np.argsort` of the ids, `n2p.addgrid(None, ids, "b", cp, xyz, cd, coords)`:
              six rows (DOF 1 … 6) per grid, all in the b-set, row 2 = [cd id, type of cd, 0]
-/
namespace PyYetiVerif.Bulk

/-- one entry of a USET table: a grid (six rows: location, `[cd id, type, 0]`, origin and axes of `cd`) or a scalar point -/
inductive UEnt where
  | grid (id : Int) (nasset : List Nat) (cd cdtype : Int) (xyz : Txt × Txt × Txt)
  | spoint (id : Int) (nasset : Nat)
deriving Repr

/-- the `(id, dof, nasset)` labels of the rows of an entry -/
def UEnt.labels : UEnt → List (Int × Nat × Nat)
  | .grid id ns _ _ _ => (List.range 6).map fun k => (id, k + 1, ns.getD k 0)
  | .spoint id n => [(id, 0, n)]

def UEnt.isGrid : UEnt → Bool
  | .grid .. => true
  | .spoint .. => false

/-- `uset.index.get_level_values("id")[dof == 1]` -/
def usetIds (u : List UEnt) : List Int := u.filterMap fun | .grid id _ _ _ _ => some id | .spoint .. => none
/-- `uset.loc[dof == 1, "x":"z"]`, formatted -/
def usetXyz (u : List UEnt) : List (Txt × Txt × Txt) := u.filterMap fun | .grid _ _ _ _ p => some p | .spoint .. => none
/-- `uset.loc[dof == 2, "x"].astype(int)` -/
def usetCd (u : List UEnt) : List Int := u.filterMap fun | .grid _ _ cd _ _ => some cd | .spoint .. => none

/-- `uset2bulk(f, uset)` with the coordinate cards `cs` of `n2p.mkcordcardinfo(uset)` -/
def uset2bulkLines (cs : List CordIn) (u : List UEnt) : WRes (List Txt) := usetLines cs (usetIds u) (usetXyz u) (usetCd u)

/-- ordered insertion by id (`np.argsort` on distinct ids) -/
def insertById (p : Int × Int × Int) : List (Int × Int × Int) → List (Int × Int × Int)
  | [] => [p]
  | q :: r => if p.1 < q.1 then p :: q :: r else q :: insertById p r

def sortById (l : List (Int × Int × Int)) : List (Int × Int × Int) := l.foldl (fun acc p => insertById p acc) []

/-- `(cid, type)` of the rows handed to `build_coords` -/
def cordTypes (rows : List (List Val)) : Option (List (Int × Int)) :=
  rows.mapM fun r => match r with
    | .int cid :: .int t :: _ => some (cid, t)
    | _ => none

/-- type of a coordinate system id known to `addgrid`: 0 is the basic rectangular system -/
def typeOf (ts : List (Int × Int)) (c : Int) : Option Int :=
  if c = 0 then some 1 else (ts.find? (·.1 = c)).map (·.2)

/-- `[id, cp, x, y, z, cd, ps, seid]` → `(id, cp, cd)` (integer-valued fields) -/
def gridTriple (r : List Val) : Option (Int × Int × Int) :=
  match r with
  | .int id :: .int cp :: _ :: _ :: _ :: .int cd :: _ => some (id, cp, cd)
  | _ => none

/-- `bulk2uset(f)`: per grid of the table, in table order, `(id, cd, type of cd)`; `none` = an exception (no GRID card,
a card without fields, a non-integer id, an undefined coordinate system) -/
def bulk2usetGrids (L : List Txt) : Option (List (Int × Int × Int)) :=
  match rdGrids L, rdCord2 L with
  | .rows rs, some crs =>
      match cordTypes crs, rs.mapM gridTriple with
      | some ts, some gs =>
          (sortById gs).mapM fun g =>
            match typeOf ts g.2.1, typeOf ts g.2.2 with
            | some _, some t => some (g.1, g.2.2, t)
            | _, _ => none
      | _, _ => none
  | _, _ => none

/-- the b-set mask of `n2p.mkusetmask()` (from the table C18's translator regenerates) -/
def bMask : Nat := PyYetiVerif.Generated.UsetMask.v_b

/-- the `(id, dof, nasset)` index of the table `addgrid` builds: six rows per grid, all in the b-set -/
def labelsOf (gs : List (Int × Int × Int)) : List (Int × Nat × Nat) :=
  gs.flatMap fun g => (List.range 6).map fun k => (g.1, k + 1, bMask)

end PyYetiVerif.Bulk
