import PyYetiVerif.Model.SuCoef
import PyYetiVerif.Generated.SuCoefCuts
/-!
The regime cut-offs of `get_su_coef`, `_get_complex_su_coefs` and `_make_rb_el` as the source spells
them (C01).  Core Lean only.

`Generated/SuCoefCuts.lean` is written by `harness/translate/c01_sucoefcuts.py` from the source on
every run; this file turns its literals into the `Cuts Float` record used by the driver's regime
dispatch (`classify`), so the dispatch follows the source's constants.  `Props/C01Cuts.lean` proves
the facts about these literals that the exactness property needs (the three elastic tests partition
the line; the values are the documented ones): an edited constant breaks those proofs.
-/
namespace PyYetiVerif.SuCoef
open PyYetiVerif.Generated

/-- `get_su_coef`'s cut-offs at step `h`:
`wo2 < 0.005`, `rat >= 1.0e-8`, `abs(rat) < 1.0e-8`, `rat <= -1e-8`,
`abs(C) > 1e-5 / np.sqrt(h)`, `abs(C) > 10 * (1e-10 / h) ** (1 / 3)` -/
def cutsGenF (h : Float) : Cuts Float :=
  { rbTol := SuCoefCuts.rbTolCoefF
    underTol := SuCoefCuts.underTolF
    critTol := SuCoefCuts.critTolF
    overTol := SuCoefCuts.overTolF
    veloCut := SuCoefCuts.veloNumF / Float.sqrt h
    dispCut := SuCoefCuts.dispFactorF *
      Float.pow (SuCoefCuts.dispBaseF / h) (SuCoefCuts.dispRootNumF / SuCoefCuts.dispRootDenF) }

/-- `abs(lam) < 5.0e-5` of `_get_complex_su_coefs` on a complex double given by its parts
(`abs` of a complex number is `hypot`; `sqrt(re² + im²)` differs from it by at most an ulp, which the
correspondence stream covers with its both-sides cases) -/
def cplxIsSmallF (re im : Float) : Bool := Float.sqrt (re * re + im * im) < SuCoefCuts.cplxSmallTolF

/-- `tol = 0.005` of `_make_rb_el` -/
def rbTolPartF : Float := SuCoefCuts.rbTolPartF

end PyYetiVerif.SuCoef
