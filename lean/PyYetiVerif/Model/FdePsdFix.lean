import PyYetiVerif.Model.FdePsd
/-
REPAIR CANDIDATE for finding F25 (`fdepsd(resp='pvelo')`: the returned `var_test`, `di_test` do not
satisfy the documented relation) — model of the patched tail of `corpus/c10_F25_candidate_fix.diff`:
after `Dt4 *= 4; Dt8 *= 16; Dt12 *= 64` the patch adds `sig2_b = sig2_b / 2` (the `sig2_b` the
`pvelo` branch solves for is twice the variance of the pseudo-velocity response).  `G4, G8, G12`,
`Gmax` were computed before and are unchanged.  Core Lean only.
-/
namespace PyYetiVerif.Fde

variable {α : Type} [Add α] [Sub α] [Mul α] [Div α] [NatCast α] [Zero α] [LT α] [DecidableLT α]
  [TransOps α]

/-- `psdRow` followed by the added lines of the patch -/
def psdRowFix (resp : Resp) (Q f T0 am g2m df4 df8 df12 : α) : PsdRow α :=
  let p := psdRow resp Q f T0 am g2m df4 df8 df12
  match resp with
  | .absacce => p
  | .pvelo =>
      { p with v4 := p.v4 / (Nat.cast 2 : α), v8 := p.v8 / (Nat.cast 2 : α),
               v12 := p.v12 / (Nat.cast 2 : α) }

end PyYetiVerif.Fde
