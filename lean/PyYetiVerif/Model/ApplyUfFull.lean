import PyYetiVerif.Model.ApplyUf
/-!
# Executable model of `pyyeti.cla.dr_event.apply_uf` / `_pre_calcs`, full (2-D) stiffness path
(core Lean only)

`k.ndim == 2`: the elastic partition is solved through `scipy.linalg.lu_factor / lu_solve`.  The
factorisation is *data* of the model: `kinv` stands for "what `lu_solve(lu_factor(k[ee]), ·)` does",
i.e. a matrix applied to the right-hand side.  The theorems (`Props/C16Full.lean`) assume
`k[ee] * kinv = 1`; the correspondence check runs the same definitions at `Float`, once with the
implementation's own inverse (`lu_solve(save["lup_elastic"], I)`) and once with the inverse the
driver computes from `k[ee]` itself by Gaussian elimination.

Two layers, both for ONE abscissa (one column of `sol.a / sol.v / sol.d`; columns never interact):

* block core (`preBlock`, `applyBlock`): the arithmetic on the already extracted partitions
  `m[ee] | m[elastic] | None`, `b[ee] | b[elastic]`, `k[ee]`, `k[rf, rf]` — this is what the theorems
  are about;
* partition layer (`elasticIdx`, `blocksOf`, `applyFullCol`): `flippv(rfmodes, n)[nrb:]`, the
  `np.ix_` extraction, the order of the in-place scalings of `a`, `v` and the scatter of the results
  into arrays of `n` rows; executable and correspondence-checked.

The caller-owned `save` dictionary is explicit state (`Option (SaveFull α)`): `genforce`, `avterm`
and both factorisations, stored by the first call that gets past the all-rigid-body early return.
-/
namespace PyYetiVerif.ApplyUfFull
open PyYetiVerif.ApplyUf (Uf)

section
variable {α : Type} [Add α] [Mul α] [Neg α] [Zero α]

/-! ### dense kernels (`@`, broadcasting) on lists -/

def dot (x y : List α) : α := (List.zipWith (· * ·) x y).sum
/-- `A @ x` -/
def mulVec (A : List (List α)) (x : List α) : List α := A.map (dot · x)
def vadd (x y : List α) : List α := List.zipWith (· + ·) x y
/-- `c * x` -/
def vsmul (c : α) (x : List α) : List α := x.map (c * ·)
def vneg (x : List α) : List α := x.map (- ·)

/-- a modal coefficient restricted to the elastic partition: 1-D (`m[elastic, None] * …`) or 2-D
(`m[ee] @ …`) -/
inductive Coef (α : Type) where
  | diag (d : List α)
  | full (A : List (List α))
deriving Repr

def Coef.apply : Coef α → List α → List α
  | .diag d, x => List.zipWith (· * ·) d x
  | .full A, x => mulVec A x

/-- `m is None` → identity -/
def mApply (m : Option (Coef α)) (x : List α) : List α :=
  match m with
  | none => x
  | some c => c.apply x

/-! ### block core -/

/-- uf-independent data of the elastic and residual-flexibility partitions -/
structure Blocks (α : Type) where
  m : Option (Coef α)
  b : Coef α
  kee : List (List α)
  /-- `lu_factor(k[ee])`, as the matrix `lu_solve` applies -/
  kinvE : List (List α)
  krr : List (List α)
  /-- `lu_factor(k[rf, rf])` -/
  kinvR : List (List α)
deriving Repr

/-- one column of the solution, partitioned -/
structure Col (α : Type) where
  aE : List α
  vE : List α
  dE : List α
  dR : List α
deriving Repr

/-- what `_pre_calcs` saves for one column -/
structure PreCol (α : Type) where
  /-- `genforce[elastic_norb]` = `m a + b v + k d` (elastic) -/
  gfE : List α
  /-- `avterm` = `m a + b v` (elastic) -/
  av : List α
  /-- `genforce[rf_norb]` = `k[rf, rf] @ d[rf]` -/
  gfR : List α
deriving Repr, DecidableEq

def preBlock (B : Blocks α) (c : Col α) : PreCol α :=
  let av := vadd (mApply B.m c.aE) (B.b.apply c.vE)
  ⟨vadd av (mulVec B.kee c.dE), av, mulVec B.krr c.dR⟩

/-- elastic / rf part of the scaled solution for one column -/
structure OutCol (α : Type) where
  aE : List α
  vE : List α
  dsE : List α
  ddE : List α
  dE : List α
  dsR : List α
deriving Repr, DecidableEq

/-- the body of `apply_uf` below the cache lookup, on the partitions: `kinvE`, `kinvR` are the
SAVED factorisations -/
def applyBlock (uf : Uf α) (kinvE kinvR : List (List α)) (c : Col α) (p : PreCol α) : OutCol α :=
  let avterm := vsmul (uf.euf * uf.duf) p.av
  let gfE := vsmul (uf.euf * uf.suf) p.gfE
  let gfR := vsmul (uf.euf * uf.suf) p.gfR
  let ds := mulVec kinvE gfE
  let dd := mulVec kinvE (vneg avterm)
  ⟨c.aE.map (· * (uf.euf * uf.duf)), c.vE.map (· * (uf.euf * uf.duf)), ds, dd, vadd ds dd,
    mulVec kinvR gfR⟩

/-- the cache as the block core sees it -/
structure SaveBlock (α : Type) where
  pre : List (PreCol α)
  kinvE : List (List α)
  kinvR : List (List α)
deriving Repr, DecidableEq

/-- `apply_uf` on the partitions for all columns, with the caller-owned cache -/
def applyBlocks (save : Option (SaveBlock α)) (B : Blocks α) (cols : List (Col α)) (uf : Uf α) :
    List (OutCol α) × Option (SaveBlock α) :=
  let s := match save with
    | some s => s
    | none => ⟨cols.map (preBlock B), B.kinvE, B.kinvR⟩
  (List.zipWith (applyBlock uf s.kinvE s.kinvR) cols s.pre, some s)

/-- `DR_Event.apply_uf` on the partitions: all `uf_reds` tuples in order, one shared cache -/
def applyBlocksSeq (save : Option (SaveBlock α)) (B : Blocks α) (cols : List (Col α)) :
    List (Uf α) → List (List (OutCol α))
  | [] => []
  | uf :: rest =>
    let r := applyBlocks save B cols uf
    r.1 :: applyBlocksSeq r.2 B cols rest

/-! ### partition layer -/

/-- `x[idx]` (indices are in range by construction; numpy raises otherwise) -/
def pick (idx : List Nat) (x : List α) : List α := idx.map fun i => x.getD i 0

/-- `A[np.ix_(rows, cols)]` -/
def pickM (rows cols : List Nat) (A : List (List α)) : List (List α) :=
  rows.map fun i => pick cols (A.getD i [])

/-- `x[idx] = vals` -/
def scatter (idx : List Nat) (vals : List α) (base : List α) : List α :=
  (idx.zip vals).foldl (fun acc p => acc.set p.1 p.2) base

/-- `flippv(rfmodes, n)[nrb:]`: the sorted complement of `rfmodes`, without its first `nrb`
entries (`rfmodes is None` = `[]`) -/
def elasticIdx (n nrb : Nat) (rf : List Nat) : List Nat :=
  ((List.range n).filter fun i => !rf.contains i).drop nrb

/-- a modal coefficient as the caller passes it: vector or matrix over all `n` modes -/
inductive Arg (α : Type) where
  | vec (d : List α)
  | mat (A : List (List α))
deriving Repr

def Arg.block (el : List Nat) : Arg α → Coef α
  | .vec d => .diag (pick el d)
  | .mat A => .full (pickM el el A)

/-- the modal data of one `apply_uf` call with 2-D `k`; `kinvE`, `kinvR` are the factorisations of
`k[ee]` and `k[rf, rf]` -/
structure FullData (α : Type) where
  n : Nat
  nrb : Nat
  rf : List Nat
  m : Option (Arg α)
  b : Arg α
  k : List (List α)
  kinvE : List (List α)
  kinvR : List (List α)
deriving Repr

def blocksOf (D : FullData α) : Blocks α :=
  let el := elasticIdx D.n D.nrb D.rf
  ⟨D.m.map (Arg.block el), D.b.block el, pickM el el D.k, D.kinvE, pickM D.rf D.rf D.k, D.kinvR⟩

/-- one column `(a, v, d)` over all `n` modes -/
structure FullCol (α : Type) where
  a : List α
  v : List α
  d : List α
deriving Repr

def colOf (D : FullData α) (c : FullCol α) : Col α :=
  let el := elasticIdx D.n D.nrb D.rf
  ⟨pick el c.a, pick el c.v, pick el c.d, pick D.rf c.d⟩

/-- scaled solution for one column over all `n` modes: `a, v, d, d_static, d_dynamic` -/
structure FullOut (α : Type) where
  a : List α
  v : List α
  d : List α
  ds : List α
  dd : List α
deriving Repr, DecidableEq

/-- the in-place scalings of `solout.a` / `solout.v` in source order: `[:nrb] *= ruf*suf`,
`[rfmodes] = 0`, `[nrb:] *= euf*duf` -/
def scaleAV (D : FullData α) (uf : Uf α) (x : List α) : List α :=
  x.zipIdx.map fun p =>
    if p.2 < D.nrb then p.1 * (uf.ruf * uf.suf)
    else (if D.rf.contains p.2 then 0 else p.1) * (uf.euf * uf.duf)

/-- rows of `d_static`, `d_dynamic`: rigid-body and (for `d_dynamic`) rf rows are zeroed, the
partitions are filled from the block results (`np.empty_like` rows that nothing fills are modelled
as `0`; under `nrb + |rf| + |elastic| = n` there are none) -/
def assemble (D : FullData α) (uf : Uf α) (c : FullCol α) (o : OutCol α) : FullOut α :=
  let el := elasticIdx D.n D.nrb D.rf
  let z : List α := List.replicate D.n 0
  let ds := scatter D.rf o.dsR (scatter el o.dsE z)
  let dd := scatter el o.ddE z
  ⟨scaleAV D uf c.a, scaleAV D uf c.v, vadd ds dd, ds, dd⟩

/-- `apply_uf(sol, uf_reds, m, b, k, nrb, rfmodes, save)` with 2-D `k`, all columns.  With only
rigid-body modes (`nrb == k.shape[0]`) the routine returns before it looks at `save`. -/
def applyFull (save : Option (SaveBlock α)) (D : FullData α) (cols : List (FullCol α)) (uf : Uf α) :
    List (FullOut α) × Option (SaveBlock α) :=
  if D.nrb == D.n then
    let z : List α := List.replicate D.n 0
    (cols.map fun c => ⟨c.a.map (· * (uf.ruf * uf.suf)), c.v.map (· * (uf.ruf * uf.suf)),
      vadd z z, z, z⟩, save)
  else
    let r := applyBlocks save (blocksOf D) (cols.map (colOf D)) uf
    (List.zipWith (assemble D uf) cols r.1, r.2)

def applyFullSeq (save : Option (SaveBlock α)) (D : FullData α) (cols : List (FullCol α)) :
    List (Uf α) → List (List (FullOut α))
  | [] => []
  | uf :: rest =>
    let r := applyFull save D cols uf
    r.1 :: applyFullSeq r.2 D cols rest

end
/-! ### the forms of `rfmodes`

`apply_uf` starts with `rfmodes = np.atleast_1d(rfmodes)` and, for a boolean array,
`rfmodes = rfmodes.nonzero()[0]`; everything below it works with the index array. -/

/-- `rfmodes` as the caller passes it: `None`, one integer, an index array or a boolean mask over the
`n` modes -/
inductive RfArg where
  | none
  | scalar (i : Nat)
  | index (l : List Nat)
  | mask (b : List Bool)
deriving Repr, DecidableEq

/-- `b.nonzero()[0]`: the positions of the `True` entries in increasing order -/
def nonzero (b : List Bool) : List Nat :=
  b.zipIdx.filterMap fun p => if p.1 then some p.2 else none

/-- the index array the routine works with -/
def normRf : RfArg → List Nat
  | .none => []
  | .scalar i => [i]
  | .index l => l
  | .mask b => nonzero b

/-- `DR_Event.apply_uf(sol, m, b, k, nrb, rfmodes)` with `rfmodes` in any of its forms: one fresh
cache shared by all `uf_reds` tuples -/
def applyFullArg {α : Type} [Add α] [Mul α] [Neg α] [Zero α] (D : FullData α) (rfa : RfArg)
    (cols : List (FullCol α)) (ufs : List (Uf α)) : List (List (FullOut α)) :=
  applyFullSeq none { D with rf := normRf rfa } cols ufs

end PyYetiVerif.ApplyUfFull
