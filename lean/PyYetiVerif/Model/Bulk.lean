/-
Model of the structural / integer / text layer of pyyeti/nastran/bulk.py (C13):

  writers  `_find_sequence`, `_wt_with_thru` + `wtspoints`, `wtcard8`, `wtnasints`, `wtcsuper`,
           `wtextrn`, `wtset` + `_wrap_text_lines`, `wttabled1` (after fix 9aba476), `wtdmig`
  readers  `nas_sscanf`, `_proc_line`, `_next_line`/`rdcards` (fixed 8, fixed 16, comma; list mode),
           `rdspoints`, `rdcsupers`, `rdextrn(expand=False)`, `rdtabled1`, `rdsets`, `rddmig`

Core Lean only.  Text is `List Char` (`Txt`); a file is a list of lines without the newline.
Numeric *values* are not modelled bit-exactly: a number field is read as an exact decimal
`mant · 10^exp` and the harness compares `float(Fraction)` with what the code returns.
-/
namespace PyYetiVerif.Bulk

abbrev Txt := List Char

def txt (s : String) : Txt := s.toList
def dec (n : Int) : Txt := (toString n).toList
def blanks (n : Nat) : Txt := List.replicate n ' '
/-- `{:>w}` / `{:wd}` -/
def padL (w : Nat) (s : Txt) : Txt := blanks (w - s.length) ++ s
/-- `{:<w}` -/
def padR (w : Nat) (s : Txt) : Txt := s ++ blanks (w - s.length)

/-- consecutive pieces of length `k` (the last one may be shorter); `[]` for `[]`. -/
def chunks {α : Type} (k : Nat) (l : List α) : List (List α) :=
  if _h : k = 0 ∨ l.length ≤ k then (if l.isEmpty then [] else [l])
  else l.take k :: chunks k (l.drop k)
termination_by l.length
decreasing_by simp only [List.length_drop]; omega

/-! ## `_find_sequence`, THRU compression / expansion -/

/-- number of elements of the list that continue the run `cur+1, cur+2, …` -/
def runLen (cur : Int) : List Int → Nat
  | [] => 0
  | x :: xs => if x = cur + 1 then runLen x xs + 1 else 0

/-- `_find_sequence(seq, start)`; `none` = `ValueError` (start out of bounds). -/
def findSeq (seq : List Int) (start : Nat) : Option Nat :=
  match seq.drop start with
  | [] => none
  | c :: rest => some (start + runLen c rest)

inductive Item where
  | one (x : Int)
  | thru (a b : Int)
deriving DecidableEq, Repr

/-- what the writers emit for the run `s … c` (`end > start` ⇒ THRU). -/
def mkItem (s c : Int) : Item := if s < c then .thru s c else .one s

/-- the `while start < length` loop of `wtset` / `_wt_with_thru`: `s … c` is the run consumed so far. -/
def compressAux (s c : Int) : List Int → List Item
  | [] => [mkItem s c]
  | x :: xs => if x = c + 1 then compressAux s x xs else mkItem s c :: compressAux x x xs

def compress : List Int → List Item
  | [] => []
  | x :: xs => compressAux x x xs

/-- Python `range(a, b + 1)` -/
def rangeI (a b : Int) : List Int := (List.range (b + 1 - a).toNat).map (fun (k : Nat) => a + (k : Int))

def Item.expand : Item → List Int
  | .one x => [x]
  | .thru a b => rangeI a b

def expand (l : List Item) : List Int := l.flatMap Item.expand

/-- first and last id an item stands for -/
def Item.first : Item → Int | .one x => x | .thru a _ => a
def Item.last : Item → Int | .one x => x | .thru _ b => b

/-- no two neighbouring items could have been merged into one run -/
def NoMerge : List Item → Prop
  | a :: b :: r => b.first ≠ a.last + 1 ∧ NoMerge (b :: r)
  | _ => True

/-- a THRU item stands for at least two ids -/
def Item.Proper : Item → Prop
  | .one _ => True
  | .thru a b => a < b

/-! ## card fields, `wtcard8`, `_wt_with_thru` -/

inductive Fld where
  | int (n : Int)
  | word (s : Txt)
  | blank
deriving DecidableEq, Repr

def Fld.fmt8 : Fld → Txt
  | .int n => padL 8 (dec n)
  | .word s => padR 8 s
  | .blank => blanks 8

/-- `wtcard8(f, [name] + fields)` as lines. -/
def card8Lines (name : Txt) (fields : List Fld) : List Txt :=
  match chunks 8 fields with
  | [] => [padR 8 name]
  | c :: cs => (padR 8 name ++ (c.map Fld.fmt8).flatten) ::
      cs.map (fun c => txt "+       " ++ (c.map Fld.fmt8).flatten)

/-- `_wt_with_thru`: the cards (field lists after the name) it writes; `pending` = single ids
collected on the open card.  A THRU triple is always alone on its card; a card is flushed at
8 ids. -/
def thruCards (pending : List Int) : List Item → List (List Fld)
  | [] => if pending.isEmpty then [] else [pending.map .int]
  | .thru a b :: r =>
      (if pending.isEmpty then [] else [pending.map Fld.int]) ++
        ([.int a, .word (txt "THRU"), .int b] :: thruCards [] r)
  | .one x :: r =>
      if (pending ++ [x]).length = 8 then (pending ++ [x]).map Fld.int :: thruCards [] r
      else thruCards (pending ++ [x]) r

def spointLines (ids : List Int) : List Txt :=
  (thruCards [] (compress ids)).flatMap (card8Lines (txt "SPOINT"))

/-! ## `wtnasints`, `wtcsuper`, `wtextrn` -/

/-- fields per line written by `wtnasints(f, start, ints)`: first line `10 - start`, then 8. -/
def nasintsLines {α : Type} (start : Nat) (ints : List α) : List (List α) :=
  if 10 - start ≤ ints.length then ints.take (10 - start) :: chunks 8 (ints.drop (10 - start))
  else [ints]

def fmtInts (l : List Int) : Txt := (l.map fun n => padL 8 (dec n)).flatten

/-- text of `wtnasints`: the first element continues the line already begun by the caller. -/
def nasintsText (start : Nat) (ints : List Int) : List Txt :=
  match nasintsLines start ints with
  | [] => []
  | f :: r => fmtInts f :: r.map fun l => blanks 8 ++ fmtInts l

def prefixFirst (p : Txt) : List Txt → List Txt
  | [] => [p]
  | f :: r => (p ++ f) :: r

def csuperLines (superid : Int) (grids : List Int) : List Txt :=
  prefixFirst (txt "CSUPER  " ++ padL 8 (dec superid) ++ padL 8 (dec 0)) (nasintsText 4 grids)

def interleave : List (Int × Int) → List Int
  | [] => []
  | (a, b) :: r => a :: b :: interleave r

def extrnLines (pairs : List (Int × Int)) : List Txt :=
  prefixFirst (txt "EXTRN   ") (nasintsText 2 (interleave pairs))

/-- pairing up a flat list (`reshape(-1, 2)`); `none` when the length is odd. -/
def pairUp {α : Type} : List α → Option (List (α × α))
  | [] => some []
  | [_] => none
  | a :: b :: r => (pairUp r).map ((a, b) :: ·)

/-! ## `wtset`, `_wrap_text_lines` (separator `""`) -/

def Item.txt : Item → Txt
  | .one x => dec x
  | .thru a b => dec a ++ Bulk.txt " THRU " ++ dec b

/-- the per-id tokens; all but the last end in `", "`. -/
def setBody : List Item → List Txt
  | [] => []
  | [it] => [it.txt]
  | it :: r => (it.txt ++ Bulk.txt ", ") :: setBody r

def setTokens (setid : Int) (ids : List Int) : List Txt :=
  (Bulk.txt "SET " ++ dec setid ++ Bulk.txt " = ") :: setBody (compress ids)

/-- tokens longer than `maxLen` are cut into pieces of `maxLen - 1` -/
def presplit (maxLen : Nat) (toks : List Txt) : List Txt :=
  toks.flatMap fun t => if t.length > maxLen then chunks (maxLen - 1) t else [t]

/-- the greedy loop; returns the groups of tokens that make up each output line. -/
def wrapGo (maxLen : Nat) (cur : List Txt) (curLen : Nat) : List Txt → List (List Txt)
  | [] => [cur]
  | t :: ts =>
      if curLen + t.length > maxLen then cur :: wrapGo maxLen [t] t.length ts
      else wrapGo maxLen (cur ++ [t]) (curLen + t.length) ts

def wrapGroups (maxLen : Nat) (toks : List Txt) : List (List Txt) :=
  let p := presplit maxLen toks
  if p.length < 2 then p.map ([·]) else wrapGo maxLen [] 0 p

def wrapLines (maxLen : Nat) (toks : List Txt) : List Txt :=
  (wrapGroups maxLen toks).map List.flatten

def setLines (setid : Int) (ids : List Int) (maxLen : Nat) : List Txt :=
  wrapLines maxLen (setTokens setid ids)

/-! ## `wttabled1` -/

/-- full groups of `k` and the remainder (`rows = npts // k`, `r = rows * k`). -/
def fullChunks {α : Type} (k : Nat) (l : List α) : List (List α) × List α :=
  if _h : 0 < k ∧ k ≤ l.length then
    let res := fullChunks k (l.drop k)
    (l.take k :: res.1, res.2)
  else ([], l)
termination_by l.length
decreasing_by simp only [List.length_drop]; omega

def pairTxt (p : Txt × Txt) : Txt := p.1 ++ p.2

/-- the fields of the data lines of `wttabled1`: full lines, then the last line ending in `ENDT` -/
def tabled1Rows (wide : Bool) (pairs : List (Txt × Txt)) : List (List Txt) :=
  let fc := fullChunks (if wide then 2 else 4) pairs
  fc.1.map (fun g => g.flatMap fun p => [p.1, p.2]) ++
    [(fc.2.flatMap fun p => [p.1, p.2]) ++ [txt "ENDT"]]

/-- `wttabled1` (title omitted) for already formatted pair fields; `wide` = 16-character
fields (2 pairs per line, `*` continuation), else 8-character fields (4 pairs per line). -/
def tabled1Lines (wide : Bool) (name : Txt) (tid : Int) (pairs : List (Txt × Txt)) : List Txt :=
  let lead : Txt := if wide then txt "*       " else blanks 8
  let head : List Txt :=
    if wide then [padR 8 (name ++ ['*']) ++ padL 16 (dec tid), ['*']]
    else [padR 8 name ++ padL 8 (dec tid)]
  head ++ (tabled1Rows wide pairs).map fun r => lead ++ r.flatten

/-! ## readers: `nas_sscanf`, `_proc_line`, `rdcards` -/

def isSp (c : Char) : Bool := c = ' ' || c = '\t' || c = '\n' || c = '\r' || c = '\x0b' || c = '\x0c'

def lstrip (s : Txt) : Txt := s.dropWhile isSp
def rstrip (s : Txt) : Txt := (s.reverse.dropWhile isSp).reverse
def strip (s : Txt) : Txt := lstrip (rstrip s)
def lower (s : Txt) : Txt := s.map Char.toLower

/-- `_proc_line` -/
def procLine (s : Txt) : Txt := rstrip (s.takeWhile (· ≠ '$'))

inductive Val where
  | int (n : Int)
  | num (m e : Int)     -- m · 10^e
  | str (s : Txt)
  | blank
deriving DecidableEq, Repr

def digitsVal (s : Txt) : Nat := s.foldl (fun a c => 10 * a + (c.toNat - '0'.toNat)) 0

def splitSign (s : Txt) : Bool × Txt :=
  match s with
  | '-' :: r => (true, r)
  | '+' :: r => (false, r)
  | _ => (false, s)

/-- Python `int(s)` for ASCII text without underscores -/
def parseInt (s : Txt) : Option Int :=
  let (neg, r) := splitSign (strip s)
  if r.isEmpty || !(r.all Char.isDigit) then none
  else some (if neg then -(digitsVal r : Int) else (digitsVal r : Int))

/-- Python `float(s)` for ASCII decimal literals (no inf/nan, no underscores): `(mant, exp10)` -/
def parseFloat (s : Txt) : Option (Int × Int) :=
  let (neg, r) := splitSign (strip s)
  let ip := r.takeWhile Char.isDigit
  let r1 := r.dropWhile Char.isDigit
  let (fp, r2) : Txt × Txt := match r1 with
    | '.' :: q => (q.takeWhile Char.isDigit, q.dropWhile Char.isDigit)
    | _ => ([], r1)
  if ip.isEmpty && fp.isEmpty then none else
  let mant : Int := digitsVal (ip ++ fp)
  let mant := if neg then -mant else mant
  match r2 with
  | [] => some (mant, -(fp.length : Int))
  | c :: q =>
      if c = 'e' || c = 'E' then
        let (eneg, ed) := splitSign q
        if ed.isEmpty || !(ed.all Char.isDigit) then none
        else
          let e : Int := digitsVal ed
          some (mant, (if eneg then -e else e) - (fp.length : Int))
      else none

def replaceChar (a : Char) (b : Txt) (s : Txt) : Txt := s.flatMap fun c => if c = a then b else [c]

/-- `nas_sscanf(s, keep_string=True)` -/
def nasScan (s : Txt) : Val :=
  match parseInt s with
  | some n => .int n
  | none =>
    match parseFloat s with
    | some (m, e) => .num m e
    | none =>
      let S := strip s
      if S.isEmpty then .blank else
      let s1 := replaceChar 'd' ['e'] (lower S)
      match parseFloat s1 with
      | some (m, e) => .num m e
      | none =>
        let s2 := match s1 with
          | [] => []
          | c :: r => c :: replaceChar '-' ['e', '-'] (replaceChar '+' ['e', '+'] r)
        match parseFloat s2 with
        | some (m, e) => .num m e
        | none => .str S

def splitOnChar (c : Char) (s : Txt) : List Txt :=
  let res := s.foldr (fun ch (acc : Txt × List Txt) =>
    if ch = c then ([], acc.1 :: acc.2) else (ch :: acc.1, acc.2)) ([], [])
  res.1 :: res.2

def startsWith (p s : Txt) : Bool := s.take p.length == p

inductive Mode where | comma | f8 | f16 deriving DecidableEq, Repr

def modeOf (first : Txt) : Mode :=
  if first.contains ',' then .comma
  else if ((rstrip (first.take 72)).take 8).contains '*' then .f16 else .f8

def Mode.conchar : Mode → Txt
  | .comma => [' ', '+', ',']
  | .f8 => [' ', '+']
  | .f16 => ['*']

def Mode.inc : Mode → Nat | .f16 => 4 | _ => 8

def isCont (m : Mode) (s : Txt) : Bool :=
  match s with
  | [] => false
  | c :: _ => m.conchar.contains c

/-- text of a fixed-field line from which the fields are sliced.  `_rdfixed` measures the
length of the *first* line before the `$` comment is removed (so a trailing comment on the first
line yields extra blank fields), of a continuation line after. -/
def fixedBody (first : Bool) (s : Txt) : Txt :=
  let raw := s.take 72
  let p := procLine raw
  (if first then padR (rstrip raw).length p else p).drop 8

/-- the fields of one physical line (`_rdfixed` inner loop / `_rdcomma` token loop) -/
def lineFields (m : Mode) (first : Bool) (s : Txt) : List Val :=
  match m with
  | .comma => (((splitOnChar ',' (procLine s)).take 9).drop 1).map nasScan
  | .f8 => (chunks 8 (fixedBody first s)).map nasScan
  | .f16 => (chunks 16 (fixedBody first s)).map nasScan

def padTo {α : Type} (b : α) (n : Nat) (l : List α) : List α := l ++ List.replicate (n - l.length) b

/-- every physical line but the last is padded with blanks to a full line of fields -/
def cardVals {α : Type} (b : α) (inc : Nat) : List (List α) → List α
  | [] => []
  | [f] => f
  | f :: r => padTo b inc f ++ cardVals b inc r

def spanCont (m : Mode) : List Txt → List Txt × List Txt
  | [] => ([], [])
  | l :: r => if isCont m l then let res := spanCont m r; (l :: res.1, res.2) else ([], l :: r)

/-- `rdcards(f, name, return_var='list')` for a plain (non-regex) name, no INCLUDE. -/
def rdcardsAux (name : Txt) : Nat → List Txt → List (List Val)
  | 0, _ => []
  | _, [] => []
  | fuel + 1, l :: rest =>
      if startsWith name (lower l) then
        let m := modeOf l
        let sp := spanCont m rest
        cardVals Val.blank m.inc (lineFields m true l :: sp.1.map (lineFields m false)) :: rdcardsAux name fuel sp.2
      else rdcardsAux name fuel rest

def rdcards (name : Txt) (lines : List Txt) : List (List Val) :=
  rdcardsAux (lower name) (lines.length + 1) lines

/-- array / dict mode: strings become `blank` -/
def Val.arr : Val → Val
  | .str _ => .blank
  | v => v

/-! ### typed readers -/

def Val.toInt? : Val → Option Int
  | .int n => some n
  | _ => none

def allInts : List Val → Option (List Int)
  | [] => some []
  | .int n :: r => (allInts r).map (n :: ·)
  | _ :: _ => none

def optFlatten : List (Option (List Int)) → Option (List Int)
  | [] => some []
  | none :: _ => none
  | some a :: r => (optFlatten r).map (a ++ ·)

/-- the loop body of `rdspoints` for one card -/
def spointCard (card : List Val) : Option (List Int) :=
  match card with
  | .int a :: .str w :: .int b :: _ => if lower w = txt "thru" then some (rangeI a b) else none
  | _ => allInts card

/-- `rdspoints` on cards -/
def spointCards (cards : List (List Val)) : Option (List Int) := optFlatten (cards.map spointCard)

/-- `rdspoints` -/
def rdSpoints (lines : List Txt) : Option (List Int) := spointCards (rdcards (txt "spoint") lines)

/-- what `nas_sscanf` returns for a written field (the single-field codec is C12's subject) -/
def Fld.val : Fld → Val
  | .int n => .int n
  | .word s => .str s
  | .blank => .blank

/-- `dict` semantics: a later card with the same key replaces the value, position of first. -/
def dictPut {β : Type} (d : List (Val × β)) (k : Val) (v : β) : List (Val × β) :=
  if d.any (·.1 == k) then d.map fun kv => if kv.1 == k then (k, v) else kv else d ++ [(k, v)]

/-- `rdcsupers`: blank / strings → -1 (integer fields only in the modelled domain) -/
def rdCsupers (lines : List Txt) : List (Val × List Val) :=
  (rdcards (txt "csuper") lines).foldl (fun d card =>
    let c := card.map Val.arr
    match c with
    | [] => d
    | k :: _ => dictPut d k c) []

/-- `rdextrn(expand=False)`: cards padded to the longest with 0, flattened, paired. -/
def rdExtrn (lines : List Txt) : Option (List (Val × Val)) :=
  let cards := (rdcards (txt "extrn") lines).map (·.map Val.arr)
  let mx := cards.foldl (fun a c => max a c.length) 0
  pairUp (cards.flatMap (padTo Val.blank mx))

/-- `vec[8:-1:2], vec[9:-1:2]` -/
def tablePairs {α : Type} (vec : List α) : Option (List (α × α)) := pairUp ((vec.drop 8).dropLast)

/-- `rdtabled1` -/
def rdTabled1 (name : Txt) (lines : List Txt) : Option (List (Val × List (Val × Val))) :=
  (rdcards name lines).foldl (fun d card =>
    let c := card.map Val.arr
    match d, c with
    | none, _ => none
    | some d, [] => some d
    | some d, k :: _ => (tablePairs c).map (dictPut d k)) (some [])

/-! ### `rdsets` -/

def skipSp (s : Txt) : Txt := s.dropWhile (· = ' ')

/-- `^[ ]*set[ ]*([0-9]+)[ ]*=[ ]*` → (id, rest of line) -/
def setHead (line : Txt) : Option (Nat × Txt) :=
  let s := skipSp line
  if !(startsWith (txt "set") (lower (s.take 3))) then none else
  let s := skipSp (s.drop 3)
  let d := s.takeWhile Char.isDigit
  if d.isEmpty then none else
  match skipSp (s.dropWhile Char.isDigit) with
  | '=' :: r => some (digitsVal d, skipSp r)
  | _ => none

/-- leftmost match of `(\d+)[ ]*THRU[ ]*(\d+)` (ASCII, case-insensitive) scanning from the
left; `pre` = reversed text before the cursor. -/
def thruMatch (pre : Txt) : Txt → Option (Nat × Nat)
  | [] => none
  | c :: r =>
      let here : Option (Nat × Nat) :=
        if lower ((c :: r).take 4) = txt "thru" then
          let a := (pre.dropWhile (· = ' ')).takeWhile Char.isDigit
          let b := (skipSp ((c :: r).drop 4)).takeWhile Char.isDigit
          if a.isEmpty || b.isEmpty then none else some (digitsVal a.reverse, digitsVal b)
        else none
      match here with
      | some x => some x
      | none => thruMatch (c :: pre) r

/-- `_rd_set_line` -/
def rdSetLine (line : Txt) : Option (List Int) :=
  ((splitOnChar ',' line).mapM fun item =>
    match thruMatch [] item with
    | some (a, b) => some (rangeI a b)
    | none => (parseInt item).map ([·])).map List.flatten

/-- `_rdset` continuation loop: `line` is already stripped. -/
def rdSetBody : Nat → Txt → List Txt → Option (List Int × List Txt)
  | 0, _, _ => none
  | fuel + 1, line, rest =>
      let next (acc : List Int) : Option (List Int × List Txt) :=
        match rest with
        | [] => none                       -- EOF before the set ended
        | l :: r => (rdSetBody fuel (strip l) r).map fun (v, q) => (acc ++ v, q)
      if line.isEmpty then next []
      else if line.getLast? = some ',' then
        match rdSetLine ((line.reverse.dropWhile (· = ',')).reverse) with
        | none => none
        | some v => next v
      else (rdSetLine line).map fun v => (v, rest)

/-- `rdsets` (no INCLUDE): `none` = ValueError -/
def rdSetsAux : Nat → List Txt → List (Val × List Int) → Option (List (Val × List Int))
  | 0, _, d => some d
  | _, [], d => some d
  | fuel + 1, l :: rest, d =>
      if startsWith (txt "begin bulk") (lower (skipSp l)) then some d else
      match setHead l with
      | none => rdSetsAux fuel rest d
      | some (sid, body) =>
        match rdSetBody (rest.length + 2) (strip body) rest with
        | none => none
        | some (v, rest') =>
            -- `rest'` is a suffix of `rest`
            rdSetsAux fuel rest' (dictPut d (.int sid) v)

def rdSets (lines : List Txt) : Option (List (Val × List Int)) :=
  rdSetsAux (lines.length + 1) lines []

/-! ## `wtdmig` / `rddmig` (punch cards) -/

/-- `f"{v:16.9E}"` for an integer `|v| < 10^10` (exact in the 10 significant digits) -/
def fmtE9 (v : Int) (expChar : Char) : Txt :=
  let ds : Txt := (toString v.natAbs).toList
  let ex := ds.length - 1
  let mant := (ds ++ List.replicate (10 - ds.length) '0')
  let body := (mant.take 1) ++ ['.'] ++ (mant.drop 1).take 9 ++ [expChar, '+'] ++
    padL 2 (dec ex) |>.map fun c => if c = ' ' then '0' else c
  padL 16 ((if v < 0 then ['-'] else []) ++ body)

structure Dmig where
  name : Txt
  single : Bool                       -- one-level column index ⇒ form 9
  mtype : Nat                         -- 1 … 4
  rowids : List (Int × Int)
  colids : List (Int × Int)           -- (id, dof); dof ignored (0) when `single`
  m : List (List (Int × Int))         -- rows of (re, im)
deriving Repr

def Dmig.col (d : Dmig) (j : Nat) : List (Int × Int) := d.m.map fun r => r.getD j (0, 0)

def Dmig.symm (d : Dmig) : Bool :=
  (List.range d.rowids.length).all fun i => (List.range d.colids.length).all fun j =>
    (d.m.getD i []).getD j (0, 0) == (d.m.getD j []).getD i (0, 0)

/-- form 6 only for a value-symmetric frame whose row and column index are the same
(`rowids.equals(colids) and np.allclose(m.T, m)`, fix b85c17b) -/
def Dmig.form (d : Dmig) : Nat :=
  if d.single then 9
  else if d.rowids.length ≠ d.colids.length then 2
  else if d.rowids = d.colids ∧ d.symm then 6 else 1

def Dmig.ncol (d : Dmig) : Int :=
  if d.single then d.colids.foldl (fun a c => max a c.1) ((d.colids.headD (0, 0)).1)
  else d.colids.length

/-- the `(row label, value)` entries written under the column card of column `j` -/
def Dmig.colEntries (d : Dmig) (j : Nat) : List ((Int × Int) × (Int × Int)) :=
  let start := if d.form = 6 then j else 0
  (((d.rowids.zip (d.col j)).drop start)).filter fun e => e.2 != (0, 0)

def Dmig.colWritten (d : Dmig) (j : Nat) : Bool := (d.col j).any (· != (0, 0))

def Dmig.colLabel (d : Dmig) (j : Nat) : Int × Int :=
  let cid := d.colids.getD j (0, 0)
  (cid.1, if d.single then 0 else cid.2)

/-- the column cards: one per non-null column, in column order: (column label, row entries) -/
def Dmig.cards (d : Dmig) : List ((Int × Int) × List ((Int × Int) × (Int × Int))) :=
  ((List.range d.colids.length).filter d.colWritten).map fun j => (d.colLabel j, d.colEntries j)

/-- all written terms `(row label, column label, value)` in file order -/
def Dmig.entries (d : Dmig) : List ((Int × Int) × (Int × Int) × (Int × Int)) :=
  d.cards.flatMap fun c => c.2.map fun e => (e.1, c.1, e.2)

/-- what `rddmig` assigns from the written terms: each term, and its mirror image for form 6 -/
def Dmig.readBack (d : Dmig) : List ((Int × Int) × (Int × Int) × (Int × Int)) :=
  if d.form = 6 then d.entries.flatMap fun (r, c, v) => [(r, c, v), (c, r, v)] else d.entries

def Dmig.lines (d : Dmig) : List Txt :=
  let ec : Char := if d.mtype % 2 = 0 then 'D' else 'E'
  let header : Txt := padR 8 (txt "DMIG") ++ padR 8 d.name ++ padL 8 (dec 0) ++ padL 8 (dec d.form) ++
    padL 8 (dec d.mtype) ++ padL 8 (dec 0) ++ padL 8 (dec 0) ++ blanks 8 ++ padL 8 (dec d.ncol)
  header :: d.cards.flatMap fun c =>
    (padR 8 (txt "DMIG*") ++ padR 16 d.name ++ padL 16 (dec c.1.1) ++ padL 16 (dec c.1.2)) ::
      c.2.map fun e =>
        padR 8 ['*'] ++ padL 16 (dec e.1.1) ++ padL 16 (dec e.1.2) ++ fmtE9 e.2.1 ec ++
          (if d.mtype < 3 then [] else fmtE9 e.2.2 ec)

/-- every 4th element starting at `k` (`c[k::4]`) -/
def every4 {α : Type} (k : Nat) (l : List α) : List α :=
  ((chunks 4 (l.drop k)).filterMap List.head?)

structure DmigRead where
  name : Txt
  form : Val
  mtype : Val
  rows : List (Int × Int)
  cols : List (Int × Int)
  entries : List ((Int × Int) × (Int × Int) × Val × Val)   -- row label, col label, re, im (assignment order)
deriving Repr

/-- the assignments `mat[ri, ci] = v` (and `mat[ci, ri] = v` for form 6) in the order the reader
performs them; the last one for a position wins. -/
def DmigRead.assign (d : DmigRead) : List ((Int × Int) × (Int × Int) × Val × Val) :=
  if d.form == .int 6 then d.entries.flatMap fun (r, c, x, y) => [(r, c, x, y), (c, r, x, y)]
  else d.entries

/-- the value the reader's matrix holds at (row label, column label) after all assignments (`mat`
starts as zeros; the last assignment to a position wins); `none` = never assigned -/
def lastAssign (as : List ((Int × Int) × (Int × Int) × Val × Val)) (r c : Int × Int) : Option (Val × Val) :=
  as.foldl (fun acc e => if e.1 = r ∧ e.2.1 = c then some e.2.2 else acc) none

/-- `mtype < 3` -/
def DmigRead.isReal (d : DmigRead) : Bool :=
  match d.mtype with
  | .int t => t < 3
  | _ => false

/-- the values of the DataFrame `rddmig` returns, row index `rows`, column index `cols`: zeros, then
the assignments; the imaginary part is not read for the real types -/
def DmigRead.cell (d : DmigRead) (r c : Int × Int) : Val × Val :=
  match lastAssign d.assign r c with
  | some (x, y) => (x, if d.isReal then Val.int 0 else y)
  | none => (Val.int 0, Val.int 0)

def DmigRead.frame (d : DmigRead) : List (List (Val × Val)) :=
  d.rows.map fun r => d.cols.map fun c => d.cell r c

def key (p : Int × Int) : Int := 10 * p.1 + p.2

def insertKey (p : Int × Int) : List (Int × Int) → List (Int × Int)
  | [] => [p]
  | q :: r => if p = q then q :: r else if key p < key q then p :: q :: r
              else q :: insertKey p r

def sortSet (l : List (Int × Int)) : List (Int × Int) := l.foldl (fun acc p => insertKey p acc) []

def lbl (a b : Val) : Option (Int × Int) :=
  match a, b with
  | .int x, .int y => some (x, y)
  | _, _ => none

/-- `_cards_to_df` (expanded=False, square=False): one matrix starting at the header card `h`;
`cc` = the following cards carrying the same name. -/
def dmigOne (h : List Val) (nm : Txt) (cc : List (List Val)) : Option DmigRead :=
  let form := h.getD 2 .blank
  let mtype := h.getD 3 .blank
  let colL : Option (List (Int × Int)) := cc.mapM fun c => lbl (c.getD 1 .blank) (c.getD 2 .blank)
  let ents : Option (List (List ((Int × Int) × Val × Val))) := cc.mapM fun c =>
    let ids := every4 4 c
    let dofs := every4 5 c
    let res := every4 6 c
    let ims := every4 7 c
    (((ids.zip dofs).zip (res.zip (ims ++ List.replicate res.length Val.blank))).mapM
      fun ((a, b), (x, y)) => (lbl a b).map fun l => (l, x, y))
  match colL, ents with
  | some colL, some ents =>
    let rowsOnly := sortSet (ents.flatten.map (·.1))
    let colsOnly := sortSet colL
    let isSym := form == .int 6
    let rows := if isSym then sortSet (ents.flatten.map (·.1) ++ colL) else rowsOnly
    let cols := if isSym then rows else colsOnly
    some { name := nm, form := form, mtype := mtype, rows := rows, cols := cols,
           entries := (colL.zip ents).flatMap fun (cl, es) => es.map fun (rl, x, y) => (rl, cl, x, y) }
  | _, _ => none

def cardName (c : List Val) : Option Txt :=
  match c.head? with
  | some (.str s) => some (lower s)
  | _ => none

def dmigAux : Nat → List (List Val) → Option (List DmigRead)
  | 0, _ => some []
  | _, [] => some []
  | fuel + 1, h :: rest =>
      match cardName h with
      | none => none
      | some nm =>
        let cc := rest.takeWhile fun c => cardName c == some nm
        let rest' := rest.dropWhile fun c => cardName c == some nm
        match dmigOne h nm cc, dmigAux fuel rest' with
        | some d, some ds => some (d :: ds)
        | _, _ => none

/-- `rddmig(f)` on punch text, form ≠ 9 column semantics included through `cols`; a file without any DMIG card
raises (`rdcards` returns None, `len(None)` is a TypeError): `none` -/
def rdDmig (lines : List Txt) : Option (List DmigRead) :=
  let cards := rdcards (txt "dmig") lines
  if cards.isEmpty then none else dmigAux (cards.length + 1) cards

end PyYetiVerif.Bulk
