import PyYetiVerif.Model.OrderStats
import PyYetiVerif.Generated.C20Stats
/-
Model of the PUBLIC ENTRY POINT `pyyeti.stats.order_stats(which, *, p=None, c=None, n=None, r=None)`:
dispatch on `which`, treatment of absent (`None`) arguments, numpy broadcasting of array arguments
(`np.broadcast(x, y, z)` iterated in C order, `out.flat = [f(x, y, z) for …]`), and the packaging of
the result (python `int` / numpy scalar for 0-d, integer / float array otherwise).  Core Lean only.

What the code does (there is NO argument validation in it):

* `which` is compared with `"c"`, `"r"`, `"n"`, `"p"` in this order; anything else → `ValueError`
  ("invalid `which` setting"), whatever the other arguments are;
* each branch reads exactly three of `p, c, n, r`; the fourth (the quantity asked for) is ignored, given
  or not;
* `'c'`: `r = np.asarray(r); p = np.asarray(p); return binom.sf(r - 1, n, 1 - p)`: an absent `r`, `p` or `n`
  is a `TypeError` (raised before any shape is looked at); incompatible shapes → `ValueError`; scipy
  broadcasts; a 0-d result is a numpy float scalar;
* `'r'`, `'n'`, `'p'`: `b = np.broadcast(x, y, z)` (absent arguments are 0-d objects, so a shape mismatch is
  detected first → `ValueError`), then the scalar routine runs once per element in C order; an absent
  argument makes the first element raise `TypeError` (so an empty broadcast returns an empty array even
  then); `brentq`'s `ValueError` propagates;
* results: `'r'` 0-d → python `int`, else `astype(int)`; `'n'` `np.ceil(n).astype(int)` (0-d → numpy integer
  scalar); `'p'` 0-d → numpy float scalar, else the float array.
-/
namespace PyYetiVerif.OrderStats
open PyYetiVerif.Generated

/-- a numpy array: shape and the data in C order (scalars and 0-d arrays: shape `[]`, one element) -/
structure Nd (β : Type) where
  shape : List Nat
  data : List β

def Nd.scalar {β : Type} (x : β) : Nd β := ⟨[], [x]⟩

/-- number of elements of an array of this shape -/
def size : List Nat → Nat
  | [] => 1
  | d :: ds => d * size ds

/-- a shape with 1s prepended up to rank `k` (numpy aligns shapes on the right) -/
def pad (k : Nat) (s : List Nat) : List Nat := List.replicate (k - s.length) 1 ++ s

/-- one dimension of numpy's broadcasting rule: equal, or one of the two is 1 -/
def bdim (a b : Nat) : Option Nat :=
  if a = b then some a else if a = 1 then some b else if b = 1 then some a else none

/-- broadcast three shapes of the same rank -/
def bzip3 : List Nat → List Nat → List Nat → Option (List Nat)
  | [], [], [] => some []
  | a :: as, b :: bs, c :: cs =>
      match bdim a b with
      | none => none
      | some d =>
        match bdim d c, bzip3 as bs cs with
        | some e, some ds => some (e :: ds)
        | _, _ => none
  | _, _, _ => none

/-- `np.broadcast(a, b, c).shape`; `none` = "shape mismatch: objects cannot be broadcast" -/
def bshape3 (a b c : List Nat) : Option (List Nat) :=
  let k := max a.length (max b.length c.length)
  bzip3 (pad k a) (pad k b) (pad k c)

/-- the strides with which an operand of (padded) shape `s` is read while a broadcast is iterated:
its C-contiguous stride, and 0 along the dimensions of extent 1 (those are repeated) -/
def bstrides : List Nat → List Nat
  | [] => []
  | d :: ds => (if d = 1 then 0 else size ds) :: bstrides ds

/-- `g 0 ++ g 1 ++ … ++ g (d - 1)` -/
def rows {β : Type} (g : Nat → List β) : Nat → List β
  | 0 => []
  | d + 1 => rows g d ++ g d

/-- the flat offsets met by a C-order iteration over `shape` with the given strides -/
def offsets : List Nat → List Nat → Nat → List Nat
  | [], _, off => [off]
  | d :: ds, st, off => rows (fun i => offsets ds st.tail (off + i * st.headD 0)) d

/-- flat offsets at which an operand of shape `s` is read during a broadcast to shape `R` -/
def bcastIdx (R s : List Nat) : List Nat := offsets R (bstrides (pad R.length s)) 0

def allSome {γ : Type} : List (Option γ) → Option (List γ)
  | [] => some []
  | none :: _ => none
  | some x :: xs => (allSome xs).map (x :: ·)

def map3 {γ : Type} (g : Nat → Nat → Nat → Option γ) : List Nat → List Nat → List Nat → List (Option γ)
  | i :: is, j :: js, k :: ks => g i j k :: map3 g is js ks
  | _, _, _ => []

/-- `out = np.empty(np.broadcast(a, b, c).shape); out.flat = [f(x, y, z) for (x, y, z) in np.broadcast(a, b, c)]`.
`none`: the shapes cannot be broadcast (or an array is malformed: fewer data than its shape says). -/
def bmap3 {β₁ β₂ β₃ γ : Type} (f : β₁ → β₂ → β₃ → γ) (a : Nd β₁) (b : Nd β₂) (c : Nd β₃) : Option (Nd γ) :=
  match bshape3 a.shape b.shape c.shape with
  | none => none
  | some R =>
    (allSome (map3 (fun i j k =>
        match a.data[i]?, b.data[j]?, c.data[k]? with
        | some x, some y, some z => some (f x y z)
        | _, _, _ => none)
      (bcastIdx R a.shape) (bcastIdx R b.shape) (bcastIdx R c.shape))).map fun d => ⟨R, d⟩

/-! ### dispatch -/

inductive Which | c | r | n | p
  deriving DecidableEq, Repr

/-- the `if which == … elif …` chain of `order_stats`, in the order of the source -/
def whichOf (s : String) : Option Which :=
  if s = "c" then some .c else if s = "r" then some .r else if s = "n" then some .n
  else if s = "p" then some .p else none

/-- the three arguments each branch reads, in the order in which the code hands them to `np.broadcast`
(for `'c'`: the order of `binom.sf(r - 1, n, 1 - p)`) -/
def Which.reads : Which → List String
  | .c => ["r", "n", "p"]
  | .r => ["c", "n", "p"]
  | .n => ["c", "r", "p"]
  | .p => ["c", "r", "n"]

/-- the arguments as the caller passes them: absent (`None`) or array_like -/
structure Args (α : Type) where
  p : Option (Nd α)
  c : Option (Nd α)
  n : Option (Nd Nat)
  r : Option (Nd Nat)

inductive Err
  /-- `raise ValueError("invalid `which` setting")` -/
  | badWhich
  /-- arithmetic on `None` -/
  | typeError
  /-- `ValueError`: shapes cannot be broadcast -/
  | shapeError
  /-- `ValueError` from `brentq` (no sign change on the bracket) -/
  | solverError
  deriving DecidableEq, Repr

inductive Out (α : Type)
  | err (e : Err)
  /-- python `int` -/
  | pyInt (v : Nat)
  /-- numpy integer scalar -/
  | npInt (v : Nat)
  /-- numpy float scalar -/
  | npFloat (v : α)
  | intArr (a : Nd Nat)
  | floatArr (a : Nd α)

/-- an absent argument is a 0-d object array holding `None` -/
def lift {β : Type} : Option (Nd β) → Nd (Option β)
  | none => ⟨[], [none]⟩
  | some a => ⟨a.shape, a.data.map some⟩

/-- the scalar routine of a branch needs all three of its arguments -/
def need3 {β₁ β₂ β₃ γ : Type} (f : β₁ → β₂ → β₃ → Except Err γ) :
    Option β₁ → Option β₂ → Option β₃ → Except Err γ
  | some x, some y, some z => f x y z
  | _, _, _ => .error .typeError

/-- the list comprehension stops at the first element that raises -/
def collect {γ : Type} : List (Except Err γ) → Except Err (List γ)
  | [] => .ok []
  | .error e :: _ => .error e
  | .ok x :: xs => match collect xs with
    | .ok l => .ok (x :: l)
    | .error e => .error e

/-- the common frame of the `'r'`, `'n'`, `'p'` branches -/
def elementwise {β₁ β₂ β₃ γ : Type} (f : β₁ → β₂ → β₃ → Except Err γ)
    (a : Option (Nd β₁)) (b : Option (Nd β₂)) (c : Option (Nd β₃)) : Except Err (Nd γ) :=
  match bmap3 (need3 f) (lift a) (lift b) (lift c) with
  | none => .error .shapeError
  | some o => match collect o.data with
    | .ok d => .ok ⟨o.shape, d⟩
    | .error e => .error e

variable {α : Type} [Add α] [Mul α] [Sub α] [Div α] [One α] [Zero α] [NatCast α] [HPow α Nat α]
variable [LE α] [DecidableLE α]

/-- bisection on `pr = 1 - p` keeping `¬ g lo`, `g hi` (`g x` = "`c ≤ tail n r x`") -/
def bisectQ (g : α → Bool) : Nat → α → α → α × α
  | 0, lo, hi => (lo, hi)
  | k + 1, lo, hi =>
      let mid := (lo + hi) / ((2 : Nat) : α)
      if g mid then bisectQ g k lo mid else bisectQ g k mid hi

/-- `order_stats('p', c, n, r)`: `1 - brentq(_func, 0, 1, …)` with `_func(pr) = (1 - c) - binom.cdf(r - 1, n, pr)
= tail n r pr - c`; `none` = `ValueError` (no sign change on the bracket).  The root is irrational in
general: the model returns the centre of the bracket after `iters` halvings (`p_query_bracket`: the root
of the theorem `p_query_exists_unique` lies within `2^-(iters+1)` of it). -/
def pQuery (iters : Nat) (c : α) (r n : Nat) : Option α :=
  let g : α → Bool := fun x => decide (c ≤ tail n r x)
  let lo : α := (C20Stats.pBracketLo : Nat)
  let hi : α := (C20Stats.pBracketHi : Nat)
  if !(g lo) && g hi then
    let b := bisectQ g iters lo hi
    some (1 - (b.1 + b.2) / ((2 : Nat) : α))
  else none

/-- packaging of a float result -/
def packFloat (o : Nd α) : Out α :=
  match o.shape, o.data with
  | [], [x] => .npFloat x
  | _, _ => .floatArr o

/-- `order_stats(which, p=…, c=…, n=…, r=…)`; `iters` only concerns the resolution of the model of the `'p'`
root finder. -/
def orderStats (iters : Nat) (which : String) (a : Args α) : Out α :=
  match whichOf which with
  | none => .err .badWhich
  | some .c =>
      match a.r, a.p, a.n with
      | some r, some p, some n =>
          match bmap3 (fun (r n : Nat) (p : α) => tail n r (1 - p)) r n p with
          | none => .err .shapeError
          | some o => packFloat o
      | _, _, _ => .err .typeError
  | some .r =>
      match elementwise (fun (c : α) (n : Nat) (p : α) => (.ok (rank n (1 - p) c) : Except Err Nat)) a.c a.n a.p with
      | .error e => .err e
      | .ok o => match o.shape, o.data with
        | [], [x] => .pyInt x
        | _, _ => .intArr o
  | some .n =>
      match elementwise (fun (c : α) (r : Nat) (p : α) =>
          match nSearch r (1 - p) c with
          | some n => (.ok n : Except Err Nat)
          | none => .error .solverError) a.c a.r a.p with
      | .error e => .err e
      | .ok o => match o.shape, o.data with
        | [], [x] => .npInt x
        | _, _ => .intArr o
  | some .p =>
      match elementwise (fun (c : α) (r n : Nat) =>
          match pQuery iters c r n with
          | some x => (.ok x : Except Err α)
          | none => .error .solverError) a.c a.r a.n with
      | .error e => .err e
      | .ok o => packFloat o

end PyYetiVerif.OrderStats
