import PyYetiVerif.Model.Extrema
/-!
# `DR_Results.split()` and the pairing of `.cases` with the per-case columns (core Lean only)

Source modelled: `cla/dr_results.py`

* `_init_mxmn`: `res.cases = n * [[]]` (unset placeholders), `mx, mn, mx_x, mn_x` zero arrays
  `rows x n`; `_store_maxmin(res, mm, j, case)`: refuses a case name already stored, writes COLUMN `j`
  of the four arrays and `res.cases[j] = case` (`storeCases` / `record` of `Model/Extrema.lean`) — so
  the label list is indexed by the case number `j`, not by the order of the calls;
* `split()`: `for j, case in enumerate(value.cases)`: a new event `res[case]` whose category has
  `cases = [case]`, `mx[:, 0] = sns.mx[:, j]`, `mn[:, 0] = sns.mn[:, j]`, `ext = [mx, mn]`, `mx_x, mn_x,
  ext_x` likewise, and slab `j` of `hist` / `psd` / `srs.srs[q]`.  A placeholder `[]` left in `cases`
  (a column never filled) is not hashable: `TypeError`.

One row, as in the other C16 models.
-/
namespace PyYetiVerif.ExtremaSplit
open PyYetiVerif.Extrema

/-- what `split()` gives the event `case` for one row: `(mx, mn, mx_x, mn_x)` -/
structure Part (α X : Type) where
  mx : α
  mn : α
  mxx : X
  mnx : X
deriving Repr, DecidableEq

/-- `split()` on one row: `none` = `TypeError` (an unset entry in `cases`) -/
def splitRow {α X L : Type} (cases : List (Option L)) (mx mn : List α) (mxx mnx : List X) :
    Option (List (L × Part α X)) :=
  (cases.zip ((mx.zip mn).zip (mxx.zip mnx))).mapM fun p =>
    p.1.map fun c => (c, ⟨p.2.1.1, p.2.1.2, p.2.2.1, p.2.2.2⟩)

end PyYetiVerif.ExtremaSplit
