import PyYetiVerif.Model.Newmark
/-
Model of the coupled-damping-as-force time-domain solver (C17): `SolveCDF` /
`SolveUnc(cd_as_force=True)`.  Core Lean only.

Sources transcribed (pyyeti/ode/solveunc.py):
  _solve_real_unc_cdforces     -> `cdfStep`, `cdfRun`  (batch recurrence with `alpha`)
  _solve_real_unc_inner_loop   -> `uncStep`, `uncRun`  (plain uncoupled recurrence, for comparison)
  __init__                     -> `tmpMat`, `alphaMat`: `tmp = I + Bp[:, None] * bo`,
                                  `alpha = la.solve(tmp.T, bo.T).T` with `la.solve` a parameter
                                  (`solveWith`; Gaussian elimination in the driver).  In `Ops` `alpha` is
                                  an operator; its specification `alpha = bo Z`, `(I + Bp bo) Z = I` is a
                                  hypothesis of `Props/C17.cdf_is_documented`, and
                                  `Props/C17Cdf.cdf_alpha_transpose_solve` / `cdf_alpha_identity` say what
                                  the transposed solve computes (no symmetry of `bo` needed)

Added with the second extension: `cdfAcc` (`_calc_acce_kdof`, cd-as-force branch), `cdfAddon` (add-on branch of the
generator = what `get_f2x` tabulates), `f2xTmp` / `cdfF2x` (`_get_f2x_real_unc`).

Written once over a vector type `V` with `+`, `-`; the diagonal coefficient arrays of
`get_su_coef` act as operators `V → V` (componentwise products in the driver, linear maps in the
theorems), as do the off-diagonal damping `bo` and `alpha`.
-/
namespace PyYetiVerif.Cdf

/-- integration coefficients (diagonal, from `get_su_coef`) and the damping operators -/
structure Ops (V : Type) where
  F  : V → V
  G  : V → V
  A  : V → V
  B  : V → V
  Fp : V → V
  Gp : V → V
  Ap : V → V
  Bp : V → V
  /-- off-diagonal damping `bo @ x` -/
  bo : V → V
  /-- `alpha @ x`, `alpha = bo (I + Bp bo)^-1` -/
  alpha : V → V

section
variable {V : Type} [Add V] [Sub V]

/-- force combination of one step: order 1 `A P_i + B P_{i+1}`, order 0 `(A + B) P_i`
(returned for the displacement and the velocity equation) -/
def abf (C : Ops V) (order1 : Bool) (p0 p1 : V) : V × V :=
  if order1 then (C.A p0 + C.B p1, C.Ap p0 + C.Bp p1)
  else (C.A p0 + C.B p0, C.Ap p0 + C.Bp p0)

/-- one pass of the loop of `_solve_real_unc_cdforces`; state `(d_i, v_i, Q_i)` -/
def cdfStep (C : Ops V) (order1 : Bool) (s : V × V × V) (p0 p1 : V) : V × V × V :=
  let (d, v, q0) := s
  let (f, fp) := abf C order1 p0 p1
  let vpart := C.Fp d + C.Gp v + fp - C.Ap q0
  let q1 := C.alpha vpart
  (C.F d + C.G v + f - C.A q0 - C.B q1, vpart - C.Bp q1, q1)

/-- states `(d_i, v_i, Q_i)`, one per force sample, from a given state -/
def cdfFrom (C : Ops V) (order1 : Bool) (s : V × V × V) : List V → List (V × V × V)
  | [] => []
  | [_] => [s]
  | p0 :: p1 :: ps => s :: cdfFrom C order1 (cdfStep C order1 s p0 p1) (p1 :: ps)

/-- `_solve_real_unc_cdforces`: `dmpfrc0 = bo @ v0` -/
def cdfRun (C : Ops V) (order1 : Bool) (d0 v0 : V) (P : List V) : List (V × V × V) :=
  cdfFrom C order1 (d0, v0, C.bo v0) P

/-- one pass of `_solve_real_unc_inner_loop` -/
def uncStep (C : Ops V) (order1 : Bool) (s : V × V) (p0 p1 : V) : V × V :=
  let (f, fp) := abf C order1 p0 p1
  (C.F s.1 + C.G s.2 + f, C.Fp s.1 + C.Gp s.2 + fp)

def uncFrom (C : Ops V) (order1 : Bool) (s : V × V) : List V → List (V × V)
  | [] => []
  | [_] => [s]
  | p0 :: p1 :: ps => s :: uncFrom C order1 (uncStep C order1 s p0 p1) (p1 :: ps)

end

/-! ### `alpha` as `SolveUnc.__init__` computes it -/
section alpha
open PyYetiVerif.Newmark
variable {α : Type} [Add α] [Mul α] [OfNat α 0] [OfNat α 1]

/-- `tmp = np.eye(n) + Bp[:, None] * bo`: row `i` of `bo` scaled by `Bp_i`, plus the identity -/
def tmpMat (Bp : Array α) (bo : Mat α) : Mat α :=
  (Array.range bo.size).map fun i => (Array.range bo.size).map fun j =>
    (if i = j then (1 : α) else 0) + Bp.getD i 0 * (bo.getD i #[]).getD j 0

/-- `X.T` -/
def transposeMat (X : Mat α) : Mat α := (Array.range X.size).map fun j => (matCol X j).a

/-- `alpha = la.solve(tmp.T, bo.T).T`: column `j` of the solution `X` of `tmpᵀ X = boᵀ` is
`solve(tmpᵀ, row j of bo)`, and `alpha = Xᵀ` has it as its row `j` -/
def alphaMat (Bp : Array α) (bo : Mat α) (solveWith : Mat α → Vec α → Vec α) : Mat α :=
  bo.map fun row => (solveWith (transposeMat (tmpMat Bp bo)) ⟨row⟩).a

end alpha

/-! ### acceleration recovery (`_calc_acce_kdof`) and `get_f2x` of the cd-as-force solver -/
section recovery
variable {V : Type} [Add V] [Sub V]

/-- `a[kdof] = invm * (F − b_full @ v − k * d)` (`b_full` = the off-diagonal damping with the diagonal put back);
`invm = none` when `m is None` -/
def cdfAcc (bfull k : V → V) (invm : Option (V → V)) (p d v : V) : V :=
  let r := p - bfull v - k d
  match invm with
  | some i => i r
  | none => r

/-- what one step adds to `(d, v)` when `f` is added to the force at the END of the step
(`get_f2x` / the add-on branch `j < 0` of the generator): `(B (f − α Bp f), Bp f − Bp α Bp f)` -/
def cdfAddon (C : Ops V) (f : V) : V × V :=
  let vpart := C.Bp f
  let q := C.alpha vpart
  (C.B (f - q), vpart - C.Bp q)

end recovery

section f2x
open PyYetiVerif.Newmark
variable {α : Type} [Add α] [Sub α] [Mul α] [OfNat α 0] [OfNat α 1]

/-- `tmp = B[:, None] * (np.eye(n) - alpha * Bp)` of `_get_f2x_real_unc` (`Bsel` is `pc.B`, or `pc.Bp` for
`velo=True`): entry `(i, j)` is `Bsel_i (δ_ij − alpha_ij Bp_j)` -/
def f2xTmp (Bsel Bp : Array α) (alpha : Mat α) : Mat α :=
  (Array.range alpha.size).map fun i => (Array.range alpha.size).map fun j =>
    Bsel.getD i 0 * ((if i = j then (1 : α) else 0) - (alpha.getD i #[]).getD j 0 * Bp.getD j 0)

/-- `X @ Y` (rows of `X` against columns of `Y`) -/
def matMul (X Y : Mat α) : Mat α :=
  X.map fun row => (Array.range ((Y.getD 0 #[]).size)).map fun j =>
    (Array.zipWith (· * ·) row (matCol Y j).a).foldl (· + ·) 0

/-- `X.T` for a rectangular matrix -/
def transposeMat' (X : Mat α) : Mat α := (Array.range ((X.getD 0 #[]).size)).map fun j => (matCol X j).a

/-- `flex = phik @ tmp @ phik.T` -/
def cdfF2x (phik : Mat α) (Bsel Bp : Array α) (alpha : Mat α) : Mat α :=
  matMul (matMul phik (f2xTmp Bsel Bp alpha)) (transposeMat' phik)

/-- `_add_rf_flex` (diagonal system, `velo = False`): `phirf @ (ikrf[:, None] * phirf.T)` with `ikrf = 1.0 / krf` -/
def rfFlex [Div α] (krf : Array α) (phirf : Mat α) : Mat α :=
  matMul phirf (Array.zipWith (fun ki row => row.map fun x => (1 / ki) * x) krf (transposeMat' phirf))

/-- `get_f2x(phi, velo)` of the cd-as-force solver: `phik @ tmp @ phik.T`, plus the rf flexibility for displacements -/
def cdfGetF2x [Div α] (phik phirf : Mat α) (Bsel Bp krf : Array α) (alpha : Mat α) (velo : Bool) : Mat α :=
  let flex := cdfF2x phik Bsel Bp alpha
  if velo || krf.size == 0 then flex else matZip (· + ·) flex (rfFlex krf phirf)

end f2x

end PyYetiVerif.Cdf
