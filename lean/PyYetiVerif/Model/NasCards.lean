import PyYetiVerif.Model.NasFloat
/-
Model of pyyeti/nastran/bulk.py: `wtcard8`, `wtcard16`, `wtcard16d` (`_wtcard16`) and the generic
card reader `rdcards(f, name, return_var='list', keep_name=…)` with `_rdfixed`, `_rdcomma`,
`_proc_line` and the line protocol of `_next_line` (no INCLUDE following, no comments kept, no
tabs).  Text is `Str = List Char`; a file is the list of its lines, each *with* its trailing
newline, as Python's file iteration yields them.  Core Lean only.
-/
namespace PyYetiVerif.NasCards
open PyYetiVerif.PyFloat PyYetiVerif.NasFloat

/-- a card field as the writers see it -/
inductive Tok where
  | blank
  | str (s : Str)
  | int (n : Int)
  | flt (bits : Nat)
deriving Repr, DecidableEq

/-- one formatted field of width `W` (`fmt` = the float formatter in use) -/
def enc (W : Nat) (fmt : Dbl → Str) : Tok → Str
  | .blank => List.replicate W ' '
  | .str s => if s.isEmpty then List.replicate W ' ' else ljust W s
  | .int n => rjust W (intStr n)
  | .flt b => match ofBits b with
      | some d => fmt d
      | none => "non-finite".toList

/-- `wtcard8`: body after the card name; `i` = index of the next data field -/
def body8 (fmt : Dbl → Str) : Nat → List Tok → Str
  | _, [] => []
  | i, t :: ts =>
    (if i > 0 && i % 8 == 0 then "\n+       ".toList else []) ++ enc 8 fmt t ++ body8 fmt (i + 1) ts

/-- `wtcard8(f, name :: fields)`; `none` = ValueError (name longer than 8) -/
def wtcard8 (name : Str) (fields : List Tok) : Option Str :=
  if name.length > 8 then none
  else some (ljust 8 name ++ body8 formatFloat8 0 fields ++ ['\n'])

def body16 (fmt : Dbl → Str) : Nat → List Tok → Str
  | _, [] => []
  | i, t :: ts =>
    (if i > 0 && i % 8 == 0 then "*\n*       ".toList
     else if i > 0 && i % 4 == 0 then "\n*       ".toList else []) ++
      enc 16 fmt t ++ body16 fmt (i + 1) ts

/-- number of physical lines `_wtcard16` has written before the even-line padding -/
def nLines16 (n : Nat) : Nat := 1 + (n - 1) / 4

/-- `_wtcard16(f, name :: fields, fmt)`; `none` = ValueError -/
def wtcard16With (fmt : Dbl → Str) (name : Str) (fields : List Tok) : Option Str :=
  if name.getLast? != some '*' then none
  else if name.length > 8 then none
  else some (ljust 8 name ++ body16 fmt 0 fields ++
    (if nLines16 fields.length % 2 != 0 then ['\n', '*'] else []) ++ ['\n'])

def wtcard16 := wtcard16With formatFloat16
def wtcard16d := wtcard16With formatDouble16

/-! ### reader -/

/-- the lines of a file as Python iterates them (newline kept) -/
def fileLines (text : Str) : List Str :=
  go text []
where
  go : Str → Str → List Str
    | [], acc => if acc.isEmpty then [] else [acc.reverse]
    | c :: t, acc => if c == '\n' then (c :: acc).reverse :: go t [] else go t (c :: acc)

def rstripWs (s : Str) : Str := rstripBy isWs s

/-- `_proc_line` -/
def procLine (s : Str) : Str := rstripWs (s.takeWhile (· != '$'))

/-- what `rdcards(..., return_var='list')` stores for a field (`blank=""`) -/
def cardVal (s : Str) : NasVal :=
  match nasSscanf s true with
  | .none => .str []
  | v => v

/-- the inner loop of `_rdfixed`: `while j <= maxstart and length > j: …; j += n` with
`maxstart = 72 - n` (fuel 72 is never exhausted for `n ≥ 1`: `j` grows by `n` and stops at 72). -/
def fieldsLoop (n : Nat) (s : Str) (length : Nat) : Nat → Nat → List NasVal
  | 0, _ => []
  | fuel + 1, j =>
    if j ≤ 72 - n ∧ length > j then
      cardVal ((s.drop j).take n) :: fieldsLoop n s length fuel (j + n)
    else []

def fieldsOf (n : Nat) (s : Str) (length : Nat) : List NasVal := fieldsLoop n s length 72 8

def isCont (conchar : Str) (l : Str) : Bool :=
  match l with
  | [] => false
  | c :: _ => conchar.contains c

/-- the outer loop of `_rdfixed`; `target` = `nfields + 1`.  Returns the values and the number of
continuation lines consumed. -/
def rdfixedGo (n inc : Nat) (conchar : Str) : Nat → Nat → Str → Nat → List Str → List NasVal × Nat
  | cnt, target, s, length, rest =>
    let here := List.replicate (target - cnt) (NasVal.str []) ++ fieldsOf n s length
    match rest with
    | [] => (here, 0)
    | l :: rest' =>
      if isCont conchar l then
        let s' := procLine (l.take 72)
        let r := rdfixedGo n inc conchar (target + (fieldsOf n s length).length) (target + inc)
                   s' s'.length rest'
        (here ++ r.1, r.2 + 1)
      else (here, 0)

/-- `_rdfixed(fiter, s, n, conchar, "", True, keep_name)`; `s` is already `s[:72].rstrip()` -/
def rdfixed (n : Nat) (conchar : Str) (keepName : Bool) (s : Str) (rest : List Str) :
    List NasVal × Nat :=
  let length := s.length
  let s1 := procLine (s.take 72)
  let nm : List NasVal := if keepName then [nasSscanf (s1.take 8) true] else []
  let r := rdfixedGo n (if n > 8 then 4 else 8) conchar 0 0 s1 length rest
  (nm ++ r.1, r.2)

/-- `s.split(",")` -/
def splitComma (s : Str) : List Str :=
  go s []
where
  go : Str → Str → List Str
    | [], acc => [acc.reverse]
    | c :: t, acc => if c == ',' then acc.reverse :: go t [] else go t (c :: acc)

def rdcommaGo (conchar : Str) : Nat → Nat → Nat → Str → List Str → List NasVal × Nat
  | cnt, target, startField, s, rest =>
    let tok := splitComma s
    let lentok := min tok.length 9
    let fs := ((tok.take lentok).drop startField).map cardVal
    let here := List.replicate (target - cnt) (NasVal.str []) ++ fs
    match rest with
    | [] => (here, 0)
    | l :: rest' =>
      if isCont conchar l then
        -- `if start_field == 0: i -= 1`: the card name kept on the first line is not a data field
        let r := rdcommaGo conchar (target + fs.length - (if startField == 0 then 1 else 0))
                   (target + 8) 1 (procLine l) rest'
        (here ++ r.1, r.2 + 1)
      else (here, 0)

/-- `_rdcomma(fiter, s, " +,", "", True, keep_name)` -/
def rdcomma (keepName : Bool) (s : Str) (rest : List Str) : List NasVal × Nat :=
  rdcommaGo " +,".toList 0 0 (if keepName then 0 else 1) (procLine s) rest

/-- one card starting at line `s` (which matched the name) -/
def rdOne (keepName : Bool) (s : Str) (rest : List Str) : List NasVal × Nat :=
  if s.contains ',' then rdcomma keepName s rest
  else
    let s1 := rstripWs (s.take 72)
    if (s1.take 8).contains '*' then rdfixed 16 ['*'] keepName s1 rest
    else rdfixed 8 [' ', '+'] keepName s1 rest

/-- `rdcards(f, name, return_var='list', keep_name=keepName)` on the lines of the file
(fuel = number of lines; every step consumes at least one). -/
def rdcardsGo (name : Str) (keepName : Bool) : Nat → List Str → List (List NasVal)
  | 0, _ => []
  | _, [] => []
  | fuel + 1, l :: rest =>
    if (lower name).isPrefixOf (lower l) then
      let r := rdOne keepName l rest
      r.1 :: rdcardsGo name keepName fuel (rest.drop r.2)
    else rdcardsGo name keepName fuel rest

def rdcards (name : Str) (keepName : Bool) (text : Str) : List (List NasVal) :=
  let ls := fileLines text
  rdcardsGo name keepName ls.length ls

end PyYetiVerif.NasCards
