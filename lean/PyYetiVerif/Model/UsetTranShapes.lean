import PyYetiVerif.Model.UsetTran
/-!
The shape test on the level matrices of `n2p.formulvs` (core Lean only, runs in the driver): the list of the
per-level matrices the `while True` loop multiplies, and the decidable test `ShapesAgree` on such a list (every
matrix a rectangular array, inner dimensions of neighbours equal) - the hypothesis of the associativity theorems
of `Props/C18Assoc.lean`.
-/
namespace PyYetiVerif.Uset

/-- every row of `A` has `A.c` entries, as a test -/
def rectB {α : Type} (A : M α) : Bool := A.r.all fun r => r.length == A.c

/-- the shape hypothesis on a list of level matrices, as a decidable test: every matrix is a rectangular array
(each row has `c` entries) and the inner dimensions of neighbours agree -/
def ShapesAgree {α : Type} : List (M α) → Bool
  | [] => true
  | [L] => rectB L
  | L :: L' :: rest => rectB L && L.c == L'.r.length && ShapesAgree (L' :: rest)

/-- well-formedness of the stored residual matrices, as a test (the driver runs it with `fshapes`): `phg` / `pha`
are rectangular arrays -/
def wfB {α : Type} (d : NasT α) : Bool := d.phg.all (fun p => rectB p.2) && d.pha.all (fun p => rectB p.2)

section tran
variable {κ : Type} [DecidableEq κ] [LT κ] [DecidableLT κ] [LE κ] [DecidableLE κ] (mkKey : Nat → Nat → κ)
variable {α : Type} [Add α] [Mul α] [OfNat α 0] [OfNat α 1] [DecidableEq α]

/-- the matrices `ulvs1` of the loop of `formulvs`, level after level (the loop of `ulvsLoop` without the
products) -/
def ulvsLevels (mk : Masks) (d : NasT α) (sedn : Nat) (keepcset gset : Bool) :
    Nat → Nat → Nat → Except TErr (List (M α))
  | 0, _, _ => .error .fuel
  | fuel + 1, seup, sedown => do
      let u1 ← ulvsLevel mkKey mk d seup sedown keepcset gset
      if sedown = sedn then .ok [u1]
      else do
        let r ← liftE (findse d.nas.selist sedown)
        match d.nas.selist[r]? with
        | none => .error (.base .index)
        | some row => do
            let rest ← ulvsLevels mk d sedn keepcset gset fuel sedown row.2
            .ok (u1 :: rest)

/-- the test the driver runs (`fshapes`): the levels from `seup` down to `sedn` and whether their shapes agree -/
def shapesTest (mk : Masks) (d : NasT α) (seup sedn : Nat) (keepcset gset : Bool) :
    Except TErr (Bool × List (M α)) := do
  let r ← liftE (findse d.nas.selist seup)
  match d.nas.selist[r]? with
  | none => .error (.base .index)
  | some row => do
      let levels ← ulvsLevels mkKey mk d sedn keepcset gset (d.nas.selist.length + 1) seup row.2
      .ok (ShapesAgree levels, levels)

end tran
end PyYetiVerif.Uset
