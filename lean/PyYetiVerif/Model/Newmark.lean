/-
Model of pyyeti's Newmark-Beta time-domain solver (C17).  Core Lean only (no Mathlib) so that it
runs under `lake env lean --run`.

Sources transcribed (pyyeti/ode/solvenewmark.py):
  _newmark_precalcs  -> `coefA`, `coefA1`, `coefA0`, `scalarSys`, `matSys`
  _init_dva          -> `uM1`, `scaled`, `f0`, `fM1`, first `step` of `run`
  tsolve             -> `loop` (the `for j in range(2, nt)` loop), extrapolated step `de`,
                        central differences `velo`, `accel`
  def_nonlin         -> the pre-multiplied nonlinear term `nl` (see below)

ONE definition, several instances.  The scheme is written once over a vector type `V` (with `+`,
`-`) and a scalar type `α` acting on it through `VecOps` (`a * x`, `x / a`); the system enters as
the five operators the code precomputes (`K ·`, `B ·`, `A⁻¹ ·`, `(A⁻¹A1) ·`, `(A⁻¹A0) ·`).
  * `V = α` with `scalarSys m b k h`        : one diagonal DOF (`unc` branch, `A1 * D`); run at `Float`
                                              by the driver, proved about at a field in `Props/C17`;
  * `V = Vec α` with `matSys M B K h solve` : full matrices, `solve` = `lu_factor/lu_solve`
                                              (a parameter: Gaussian elimination in the driver, "a left
                                              inverse of A" in the theorems);
  * `V` any module over a field             : `Props/C17.newmark_is_documented`.

Nonlinear terms.  `def_nonlin` stores `T' = A⁻¹ T`; in the loop `N = Σ T' @ func(D, j, h)` is added
to the right-hand side.  The callback sees the displacement matrix `D` whose columns `0..j` are
computed and whose column `-1` holds `u₋₁` (documented).  The model passes the callback the index
`j` and the reversed history `[d_j, d_{j-1}, …, d_0, u₋₁]`; `nl j hist` is the already
pre-multiplied sum `N`.

`nt < 2` raises `IndexError` in the code (`force[:, 1]`); the model returns `none`.
-/
namespace PyYetiVerif.Newmark

/-- scalar–vector operations used by the scheme: `a * x` and `x / a` -/
class VecOps (α : Type) (V : Type) where
  smul : α → V → V
  sdiv : V → α → V

/-- a scalar is a one-component vector -/
instance scalarVecOps {α : Type} [Mul α] [Div α] : VecOps α α := ⟨(· * ·), (· / ·)⟩

/-- the precomputed operators of one solver instance -/
structure Sys (V : Type) (α : Type) where
  h : α
  /-- `self.k * x` / `self.k @ x` -/
  K : V → V
  /-- `self.b * x` / `self.b @ x` -/
  B : V → V
  /-- `x / self.Ad` / `lu_solve(self.Ad, x)` -/
  solve : V → V
  /-- `self.A1 * x` / `self.A1 @ x` (already pre-multiplied by `A⁻¹`) -/
  A1 : V → V
  /-- `self.A0 * x` / `self.A0 @ x` -/
  A0 : V → V

/-- what `tsolve` returns for the non-rf DOF (`de` is the extra, extrapolated displacement) -/
structure Hist (V : Type) where
  d : List V
  v : List V
  a : List V
  de : V

section scheme
variable {α V : Type} [Add V] [Sub V] [VecOps α V] [Mul α] [OfNat α 2] [OfNat α 3]
open VecOps

/-- `u_1 = d0 - v0 * h` -/
def uM1 (S : Sys V α) (d0 v0 : V) : V := d0 - smul S.h v0

/-- `force / 3.0` followed by `A⁻¹` -/
def scaled (S : Sys V α) (f : V) : V := S.solve (sdiv f (3 : α))

/-- replaced `F₀ = K u₀ + B v₀` (scaled) -/
def f0 (S : Sys V α) (d0 v0 : V) : V := scaled S (S.K d0 + S.B v0)

/-- `F₋₁ = K u₋₁ + B v₀` (scaled) -/
def fM1 (S : Sys V α) (d0 v0 : V) : V := scaled S (S.K (uM1 S d0 v0) + S.B v0)

/-- one application of the three-point recurrence (`g*` scaled forces, `n` nonlinear term):
`F[:, j] + F[:, j-1] + F[:, j-2] + N + A1 D[:, j-1] + A0 D[:, j-2]` -/
def step (S : Sys V α) (g2 g1 g0 n u1 u0 : V) : V := g2 + g1 + g0 + n + S.A1 u1 + S.A0 u0

/-- state of the integration loop: `u1 = d_j`, `u0 = d_{j-1}`, `older = [d_{j-2}, …, d_0, u₋₁]`,
`g1`, `g0` the scaled forces at `j`, `j-1` -/
structure LoopSt (V : Type) where
  j : Nat
  u1 : V
  u0 : V
  older : List V
  g1 : V
  g0 : V

/-- reversed displacement history held by a loop state -/
def LoopSt.hist (s : LoopSt V) : List V := s.u1 :: s.u0 :: s.older

/-- `for j in range(2, nt)`: consumes the remaining scaled forces -/
def loop (S : Sys V α) (nl : Nat → List V → V) (s : LoopSt V) : List V → LoopSt V
  | [] => s
  | g2 :: gs =>
    let u2 := step S g2 s.g1 s.g0 (nl s.j s.hist) s.u1 s.u0
    loop S nl { j := s.j + 1, u1 := u2, u0 := s.u1, older := s.u0 :: s.older, g1 := g2, g0 := s.g1 } gs

/-- state after the start-up step (`d[:, 1]` computed in `_init_dva`); `F1` is the raw force at
`t = h` -/
def start (S : Sys V α) (nl : Nat → List V → V) (F1 d0 v0 : V) : LoopSt V :=
  let um := uM1 S d0 v0
  let g0 := f0 S d0 v0
  let g1 := scaled S F1
  { j := 1, u1 := step S g1 g0 (fM1 S d0 v0) (nl 0 [d0, um]) d0 um, u0 := d0, older := [um],
    g1 := g1, g0 := g0 }

/-- the extra step with the linearly extrapolated force:
`De = 3 * F[:, -1] + N + A1 D[:, -1] + A0 D[:, -2]` -/
def lastStep (S : Sys V α) (nl : Nat → List V → V) (s : LoopSt V) : V :=
  smul (3 : α) s.g1 + nl s.j s.hist + S.A1 s.u1 + S.A0 s.u0

/-- `(D[:, 2:] - D[:, :-2]) / h2` over a forward list -/
def velo (h2 : α) : List V → List V
  | a :: b :: c :: rest => sdiv (c - a) h2 :: velo h2 (b :: c :: rest)
  | _ => []

/-- `(D[:, 2:] - 2 * D[:, 1:-1] + D[:, :-2]) / sqh` over a forward list -/
def accel (sqh : α) : List V → List V
  | a :: b :: c :: rest => sdiv (c - smul (2 : α) b + a) sqh :: accel sqh (b :: c :: rest)
  | _ => []

/-- forward list `[u₋₁, d_0, …, d_{nt-1}, De]` of a final loop state -/
def extended (S : Sys V α) (nl : Nat → List V → V) (s : LoopSt V) : List V :=
  (lastStep S nl s :: s.hist).reverse

/-- `SolveNewmark.tsolve` on the non-rf DOF; `F` is the list of force columns -/
def run (S : Sys V α) (nl : Nat → List V → V) (F : List V) (d0 v0 : V) : Option (Hist V) :=
  match F with
  | _ :: F1 :: rest =>
    let s := loop S nl (start S nl F1 d0 v0) (rest.map (scaled S))
    let uu := extended S nl s
    some { d := s.hist.reverse.tail
           v := v0 :: (velo ((2 : α) * S.h) uu).tail
           a := accel (S.h * S.h) uu
           de := lastStep S nl s }
  | _ => none

end scheme

/-! ### scalar / diagonal instance (`self.unc`) -/
section scalar
variable {α : Type} [Add α] [Sub α] [Mul α] [Div α] [OfNat α 2] [OfNat α 3]

/-- `A = mterm + b / h2 + k / 3`, `mterm = m / sqh` -/
def coefA (m b k h : α) : α := m / (h * h) + b / (2 * h) + k / 3
/-- `A1 = 2 * mterm - k / 3` -/
def coefA1 (m k h : α) : α := 2 * (m / (h * h)) - k / 3
/-- `A0 = b / h2 - k / 3 - mterm` -/
def coefA0 (m b k h : α) : α := b / (2 * h) - k / 3 - m / (h * h)

/-- one diagonal DOF: `self.A1 = A1 / A`, `self.A0 = A0 / A`, `x / self.Ad` -/
def scalarSys (m b k h : α) : Sys α α :=
  { h := h
    K := fun x => k * x
    B := fun x => b * x
    solve := fun x => x / coefA m b k h
    A1 := fun x => coefA1 m k h / coefA m b k h * x
    A0 := fun x => coefA0 m b k h / coefA m b k h * x }

/-- rf rows are solved statically: `d[rf] = ikrf * force[rf]`, `ikrf = 1 / krf`; `v = a = 0` -/
def rfStatic [OfNat α 1] (krf f : α) : α := (1 / krf) * f

end scalar

/-! ### matrix instance, parameterised by `solve` -/

/-- a vector of components (wrapper so that `+`/`-` are componentwise) -/
structure Vec (α : Type) where
  a : Array α

abbrev Mat (α : Type) := Array (Array α)

section matrix
variable {α : Type} [Add α] [Sub α] [Mul α] [Div α] [OfNat α 0]

instance : Add (Vec α) := ⟨fun x y => ⟨Array.zipWith (· + ·) x.a y.a⟩⟩
instance : Sub (Vec α) := ⟨fun x y => ⟨Array.zipWith (· - ·) x.a y.a⟩⟩
instance : VecOps α (Vec α) := ⟨fun c x => ⟨x.a.map (c * ·)⟩, fun x c => ⟨x.a.map (· / c)⟩⟩

/-- `M @ x` (rows of `M`) -/
def matVec (M : Mat α) (x : Vec α) : Vec α :=
  ⟨M.map fun row => (Array.zipWith (· * ·) row x.a).foldl (· + ·) 0⟩

def matZip (f : α → α → α) (X Y : Mat α) : Mat α := Array.zipWith (Array.zipWith f) X Y
def matMap (f : α → α) (X : Mat α) : Mat α := X.map (·.map f)

/-- column `j` of a matrix -/
def matCol (M : Mat α) (j : Nat) : Vec α := ⟨M.map fun row => row.getD j 0⟩

/-- matrix whose columns are the given vectors (`n` rows) -/
def ofCols (n : Nat) (cols : Array (Vec α)) : Mat α :=
  (Array.range n).map fun i => cols.map fun c => c.a.getD i 0

variable [OfNat α 2] [OfNat α 3]

/-- `A`, `A1`, `A0` of `_newmark_precalcs` for full matrices -/
def matA (M B K : Mat α) (h : α) : Mat α :=
  matZip (· + ·) (matZip (· + ·) (matMap (· / (h * h)) M) (matMap (· / (2 * h)) B)) (matMap (· / 3) K)
def matA1 (M K : Mat α) (h : α) : Mat α :=
  matZip (· - ·) (matMap (fun x => 2 * (x / (h * h))) M) (matMap (· / 3) K)
def matA0 (M B K : Mat α) (h : α) : Mat α :=
  matZip (· - ·) (matZip (· - ·) (matMap (· / (2 * h)) B) (matMap (· / 3) K)) (matMap (· / (h * h)) M)

/-- full-matrix instance: `solveWith A` stands for `lu_solve(lu_factor(A), ·)`;
`self.A1 = lu_solve(Ad, A1)` column by column -/
def matSys (M B K : Mat α) (h : α) (solveWith : Mat α → Vec α → Vec α) : Sys (Vec α) α :=
  let n := K.size
  let solve := solveWith (matA M B K h)
  let pre (X : Mat α) : Mat α := ofCols n ((Array.range n).map fun j => solve (matCol X j))
  let A1p := pre (matA1 M K h)
  let A0p := pre (matA0 M B K h)
  { h := h, K := matVec K, B := matVec B, solve := solve, A1 := matVec A1p, A0 := matVec A0p }

/-- rf rows of a coupled system: `d[rf] = la.lu_solve(ikrf, force[rf])`, column by column, with
`ikrf = lu_factor(krf)`; `solveWith krf` stands for the factor/solve pair -/
def rfStaticMat (krf : Mat α) (solveWith : Mat α → Vec α → Vec α) (Frf : List (Vec α)) : List (Vec α) :=
  Frf.map (solveWith krf)

end matrix

end PyYetiVerif.Newmark
